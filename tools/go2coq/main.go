// go2coq translates a small, loop-free, integer-only subset of Go functions into Gallina
// definitions over Z with explicit wrap-around, so that selected pure cores of
// pion/interceptor are re-derived FROM THE SOURCE on every run and the hand-written models
// are proved equal to them (coq/Proofs/GeneratedEq.v).  Anything outside the subset is a
// translation error (the check then reports the obligation as broken) - never a guess.
//
// Subset: functions and methods whose bodies consist of :=, =, op=, ++/--, if/else, switch on
// values, return; expressions over bool and sized integers with + - * comparisons, && || !,
// conversions between integer types, named constants of the package, calls to other
// translated functions, and reads/writes of fields of a pointer receiver (a method returns its
// results followed by the new field values, in declaration order).
package main

import (
	"flag"
	"fmt"
	"go/ast"
	"go/constant"
	"go/importer"
	"go/parser"
	"go/token"
	"go/types"
	"os"
	"path/filepath"
	"sort"
	"strings"
)

type unit struct {
	dir   string
	funcs []string // "Func" or "Type.Method"
}

type tr struct {
	fset *token.FileSet
	info *types.Info
	pkg  *types.Package
	recv string            // receiver identifier inside a method
	flds []string          // receiver struct fields in order
	pfx  string            // prefix for generated names
	env  map[string]string // Go local name -> current Coq name
}

func fail(pos token.Position, f string, a ...interface{}) {
	fmt.Fprintf(os.Stderr, "go2coq: %s: %s\n", pos, fmt.Sprintf(f, a...))
	os.Exit(1)
}

func bits(t types.Type) (int, bool, bool) { // width, signed, isInteger
	b, ok := t.Underlying().(*types.Basic)
	if !ok {
		return 0, false, false
	}
	switch b.Kind() {
	case types.Uint8:
		return 8, false, true
	case types.Uint16:
		return 16, false, true
	case types.Uint32:
		return 32, false, true
	case types.Uint64, types.Uint, types.Uintptr:
		return 64, false, true
	case types.Int8:
		return 8, true, true
	case types.Int16:
		return 16, true, true
	case types.Int32:
		return 32, true, true
	case types.Int64, types.Int:
		return 64, true, true
	case types.UntypedInt:
		return 0, true, true
	}

	return 0, false, false
}

// wrap renders the reduction of an unbounded Z expression e to type t.
// Signed 64-bit (int, int64) is left unbounded: overflow there is outside every property's range
// and is stated as such in the trusted base.
func wrap(t types.Type, e string) string {
	w, signed, ok := bits(t)
	if !ok || w == 0 || (signed && w == 64) {
		return e
	}
	mod := map[int]string{8: "256", 16: "65536", 32: "4294967296", 64: "18446744073709551616"}[w]
	if !signed {
		return "((" + e + ") mod " + mod + ")"
	}
	half := map[int]string{8: "128", 16: "32768", 32: "2147483648"}[w]

	return "(((" + e + ") + " + half + ") mod " + mod + " - " + half + ")"
}

func (t *tr) expr(e ast.Expr) string {
	if tv, ok := t.info.Types[e]; ok && tv.Value != nil {
		switch tv.Value.Kind() {
		case constant.Int:
			s := tv.Value.ExactString()
			if strings.HasPrefix(s, "-") {
				return "(" + s + ")"
			}

			return s
		case constant.Bool:
			return tv.Value.String()
		}
	}
	switch x := e.(type) {
	case *ast.ParenExpr:
		return t.expr(x.X)
	case *ast.Ident:
		if x.Name == "true" || x.Name == "false" {
			return x.Name
		}
		if n, ok := t.env[x.Name]; ok {
			return n
		}
		fail(t.fset.Position(x.Pos()), "unknown identifier %s", x.Name)
	case *ast.SelectorExpr:
		if id, ok := x.X.(*ast.Ident); ok && id.Name == t.recv {
			if n, ok := t.env[t.recv+"."+x.Sel.Name]; ok {
				return n
			}
		}
		fail(t.fset.Position(x.Pos()), "unsupported selector")
	case *ast.UnaryExpr:
		switch x.Op {
		case token.NOT:
			return "(negb " + t.expr(x.X) + ")"
		case token.SUB:
			return wrap(t.info.TypeOf(e), "(- "+t.expr(x.X)+")")
		}
	case *ast.BinaryExpr:
		a, b := t.expr(x.X), t.expr(x.Y)
		switch x.Op {
		case token.ADD, token.SUB, token.MUL:
			return wrap(t.info.TypeOf(e), "("+a+" "+x.Op.String()+" "+b+")")
		case token.LAND:
			return "(" + a + " && " + b + ")"
		case token.LOR:
			return "(" + a + " || " + b + ")"
		case token.EQL:
			if _, _, isInt := bits(t.info.TypeOf(x.X)); isInt {
				return "(" + a + " =? " + b + ")"
			}

			return "(Bool.eqb " + a + " " + b + ")"
		case token.NEQ:
			if _, _, isInt := bits(t.info.TypeOf(x.X)); isInt {
				return "(negb (" + a + " =? " + b + "))"
			}

			return "(negb (Bool.eqb " + a + " " + b + "))"
		case token.LSS:
			return "(" + a + " <? " + b + ")"
		case token.LEQ:
			return "(" + a + " <=? " + b + ")"
		case token.GTR:
			return "(" + a + " >? " + b + ")"
		case token.GEQ:
			return "(" + a + " >=? " + b + ")"
		}
	case *ast.CallExpr:
		// conversion?
		if tv, ok := t.info.Types[x.Fun]; ok && tv.IsType() {
			if _, _, isInt := bits(tv.Type); isInt && len(x.Args) == 1 {
				return wrap(tv.Type, t.expr(x.Args[0]))
			}
		}
		if id, ok := x.Fun.(*ast.Ident); ok {
			switch id.Name {
			case "min", "max":
				if len(x.Args) == 2 {
					return "(Z." + id.Name + " " + t.expr(x.Args[0]) + " " + t.expr(x.Args[1]) + ")"
				}
			default:
				args := make([]string, len(x.Args))
				for i, a := range x.Args {
					args[i] = t.expr(a)
				}

				return "(" + t.pfx + id.Name + " " + strings.Join(args, " ") + ")"
			}
		}
	}
	fail(t.fset.Position(e.Pos()), "unsupported expression %T", e)

	return ""
}

// state returns the tuple of all mutable variables (locals in scope order + receiver fields).
func (t *tr) vars() []string {
	ks := make([]string, 0, len(t.env))
	for k := range t.env {
		ks = append(ks, k)
	}
	sort.Strings(ks)

	return ks
}

var fresh int

func (t *tr) bind(goName string) string {
	fresh++
	n := fmt.Sprintf("%s_%d", strings.ReplaceAll(goName, ".", "_"), fresh)
	t.env[goName] = n

	return n
}

func (t *tr) lhsName(e ast.Expr) string {
	switch x := e.(type) {
	case *ast.Ident:
		return x.Name
	case *ast.SelectorExpr:
		if id, ok := x.X.(*ast.Ident); ok && id.Name == t.recv {
			return t.recv + "." + x.Sel.Name
		}
	}
	fail(t.fset.Position(e.Pos()), "unsupported assignment target")

	return ""
}

func returns(stmts []ast.Stmt) bool { // does the list end in a return on every path?
	if len(stmts) == 0 {
		return false
	}
	switch s := stmts[len(stmts)-1].(type) {
	case *ast.ReturnStmt:
		return true
	case *ast.IfStmt:
		if s.Else == nil {
			return false
		}
		eb, ok := s.Else.(*ast.BlockStmt)
		if !ok {
			return returns(s.Body.List) && returns([]ast.Stmt{s.Else})
		}

		return returns(s.Body.List) && returns(eb.List)
	case *ast.BlockStmt:
		return returns(s.List)
	case *ast.SwitchStmt:
		hasDefault := false
		for _, c := range s.Body.List {
			cc := c.(*ast.CaseClause)
			if cc.List == nil {
				hasDefault = true
			}
			if !returns(cc.Body) {
				return false
			}
		}

		return hasDefault
	}

	return false
}

func assigned(stmts []ast.Stmt, t *tr, out map[string]bool) {
	for _, s := range stmts {
		switch x := s.(type) {
		case *ast.AssignStmt:
			if x.Tok != token.DEFINE {
				for _, l := range x.Lhs {
					out[t.lhsName(l)] = true
				}
			}
		case *ast.IncDecStmt:
			out[t.lhsName(x.X)] = true
		case *ast.IfStmt:
			assigned(x.Body.List, t, out)
			if x.Else != nil {
				assigned([]ast.Stmt{x.Else}, t, out)
			}
		case *ast.BlockStmt:
			assigned(x.List, t, out)
		case *ast.SwitchStmt:
			for _, c := range x.Body.List {
				assigned(c.(*ast.CaseClause).Body, t, out)
			}
		}
	}
}

// block translates stmts followed by the continuation k (called with the env at that point).
func (t *tr) block(stmts []ast.Stmt, ret func([]ast.Expr) string, k func() string) string {
	if len(stmts) == 0 {
		return k()
	}
	rest := func() string { return t.block(stmts[1:], ret, k) }
	switch s := stmts[0].(type) {
	case *ast.ReturnStmt:
		return ret(s.Results)
	case *ast.AssignStmt:
		if len(s.Lhs) != 1 || len(s.Rhs) != 1 {
			fail(t.fset.Position(s.Pos()), "multi-assignment not supported")
		}
		name := t.lhsName(s.Lhs[0])
		var rhs string
		switch s.Tok {
		case token.DEFINE, token.ASSIGN:
			rhs = t.expr(s.Rhs[0])
		case token.ADD_ASSIGN, token.SUB_ASSIGN, token.MUL_ASSIGN:
			op := map[token.Token]string{token.ADD_ASSIGN: "+", token.SUB_ASSIGN: "-", token.MUL_ASSIGN: "*"}[s.Tok]
			rhs = wrap(t.info.TypeOf(s.Lhs[0]), "("+t.expr(s.Lhs[0])+" "+op+" "+t.expr(s.Rhs[0])+")")
		default:
			fail(t.fset.Position(s.Pos()), "unsupported assignment operator")
		}
		n := t.bind(name)

		return "let " + n + " := " + rhs + " in\n  " + rest()
	case *ast.IncDecStmt:
		name := t.lhsName(s.X)
		op := "+"
		if s.Tok == token.DEC {
			op = "-"
		}
		rhs := wrap(t.info.TypeOf(s.X), "("+t.expr(s.X)+" "+op+" 1)")
		n := t.bind(name)

		return "let " + n + " := " + rhs + " in\n  " + rest()
	case *ast.BlockStmt:
		return t.block(append(append([]ast.Stmt{}, s.List...), stmts[1:]...), ret, k)
	case *ast.IfStmt:
		if s.Init != nil {
			fail(t.fset.Position(s.Pos()), "if with init statement not supported")
		}
		var elseList []ast.Stmt
		if s.Else != nil {
			elseList = []ast.Stmt{s.Else}
		}

		return t.branch(t.expr(s.Cond), s.Body.List, elseList, stmts[1:], ret, k)
	case *ast.SwitchStmt:
		if s.Init != nil || s.Tag == nil {
			fail(t.fset.Position(s.Pos()), "only switch <expr> is supported")
		}
		tag := t.expr(s.Tag)
		_, _, isInt := bits(t.info.TypeOf(s.Tag))
		if !isInt {
			fail(t.fset.Position(s.Pos()), "switch on non-integer")
		}
		// desugar into an if chain, default last
		var def []ast.Stmt
		type arm struct {
			cond string
			body []ast.Stmt
		}
		var arms []arm
		for _, c := range s.Body.List {
			cc := c.(*ast.CaseClause)
			if cc.List == nil {
				def = cc.Body

				continue
			}
			conds := make([]string, len(cc.List))
			for i, e := range cc.List {
				conds[i] = "(" + tag + " =? " + t.expr(e) + ")"
			}
			arms = append(arms, arm{strings.Join(conds, " || "), cc.Body})
		}
		var build func(i int) []ast.Stmt
		_ = build
		// translate recursively without building AST: nested branch calls
		var chain func(i int, after []ast.Stmt) string
		chain = func(i int, after []ast.Stmt) string {
			if i == len(arms) {
				return t.block(append(append([]ast.Stmt{}, def...), after...), ret, k)
			}
			saved := copyEnv(t.env)
			thenS := t.block(append(append([]ast.Stmt{}, arms[i].body...), after...), ret, k)
			t.env = copyEnv(saved)
			elseS := chain(i+1, after)
			t.env = saved

			return "(if " + arms[i].cond + " then " + thenS + "\n  else " + elseS + ")"
		}
		// a switch whose arms assign (not return) duplicates the continuation into each arm: fine for the small functions targeted

		return chain(0, stmts[1:])
	case *ast.DeclStmt, *ast.ExprStmt, *ast.EmptyStmt:
		fail(t.fset.Position(s.Pos()), "unsupported statement %T", s)
	default:
		fail(t.fset.Position(s.Pos()), "unsupported statement %T", s)
	}

	return ""
}

func copyEnv(m map[string]string) map[string]string {
	c := make(map[string]string, len(m))
	for k, v := range m {
		c[k] = v
	}

	return c
}

// branch: if cond {a} else {b}; after...   The continuation is duplicated into both arms
// (the functions targeted are tiny), which keeps the translation purely structural.
func (t *tr) branch(cond string, a, b, after []ast.Stmt, ret func([]ast.Expr) string, k func() string) string {
	saved := copyEnv(t.env)
	thenS := t.block(append(append([]ast.Stmt{}, a...), after...), ret, k)
	t.env = copyEnv(saved)
	elseS := t.block(append(append([]ast.Stmt{}, b...), after...), ret, k)
	t.env = saved

	return "(if " + cond + " then " + thenS + "\n  else " + elseS + ")"
}

func main() {
	repo := flag.String("repo", "/repo", "repository root")
	out := flag.String("out", "", "output .v file")
	flag.Parse()
	units := []unit{
		{"internal/sequencenumber", []string{"isNewer", "Unwrapper.Unwrap"}},
		{"pkg/gcc", []string{"clampInt", "state.transition"}},
	}
	var sb strings.Builder
	sb.WriteString("(* GENERATED by tools/go2coq from the Go source on every run - do not edit. *)\n")
	sb.WriteString("From Coq Require Import ZArith Bool.\nOpen Scope Z_scope.\nOpen Scope bool_scope.\n\n")
	for _, u := range units {
		fset := token.NewFileSet()
		pkgs, err := parser.ParseDir(fset, filepath.Join(*repo, u.dir), func(fi os.FileInfo) bool {
			return !strings.HasSuffix(fi.Name(), "_test.go") && !strings.HasSuffix(fi.Name(), "_verif.go")
		}, 0)
		if err != nil {
			fail(token.Position{Filename: u.dir}, "%v", err)
		}
		for _, p := range pkgs {
			var files []*ast.File
			for _, f := range p.Files {
				files = append(files, f)
			}
			info := &types.Info{Types: map[ast.Expr]types.TypeAndValue{}, Defs: map[*ast.Ident]types.Object{}, Uses: map[*ast.Ident]types.Object{}}
			conf := types.Config{Importer: importer.ForCompiler(fset, "source", nil), Error: func(error) {}}
			pkg, _ := conf.Check(u.dir, fset, files, info)
			pfx := "g_" + p.Name + "_"
			for _, want := range u.funcs {
				found := false
				for _, f := range files {
					for _, d := range f.Decls {
						fd, ok := d.(*ast.FuncDecl)
						if !ok || fd.Body == nil {
							continue
						}
						name := fd.Name.Name
						recvT := ""
						if fd.Recv != nil {
							switch rt := fd.Recv.List[0].Type.(type) {
							case *ast.StarExpr:
								recvT = rt.X.(*ast.Ident).Name
							case *ast.Ident:
								recvT = rt.Name
							}
							name = recvT + "." + name
						}
						if name != want {
							continue
						}
						found = true
						t := &tr{fset: fset, info: info, pkg: pkg, pfx: pfx, env: map[string]string{}}
						var params []string
						var fieldNames []string
						if fd.Recv != nil {
							t.recv = fd.Recv.List[0].Names[0].Name
							obj := pkg.Scope().Lookup(recvT)
							if st, ok := obj.Type().Underlying().(*types.Struct); ok {
								for i := 0; i < st.NumFields(); i++ {
									fn := st.Field(i).Name()
									fieldNames = append(fieldNames, fn)
									n := t.recv + "_" + fn
									t.env[t.recv+"."+fn] = n
									ty := "Z"
									if b, ok := st.Field(i).Type().Underlying().(*types.Basic); ok && b.Kind() == types.Bool {
										ty = "bool"
									}
									params = append(params, "("+n+" : "+ty+")")
								}
							} else { // value receiver of a basic type (e.g. `state`)
								t.env[t.recv] = t.recv
								params = append(params, "("+t.recv+" : Z)")
							}
						}
						for _, fl := range fd.Type.Params.List {
							for _, n := range fl.Names {
								t.env[n.Name] = n.Name
								ty := "Z"
								if b, ok := info.TypeOf(fl.Type).Underlying().(*types.Basic); ok && b.Kind() == types.Bool {
									ty = "bool"
								}
								params = append(params, "("+n.Name+" : "+ty+")")
							}
						}
						ret := func(rs []ast.Expr) string {
							parts := make([]string, 0, len(rs)+len(fieldNames))
							for _, r := range rs {
								parts = append(parts, t.expr(r))
							}
							for _, fn := range fieldNames {
								parts = append(parts, t.env[t.recv+"."+fn])
							}
							if len(parts) == 1 {
								return parts[0]
							}

							return "(" + strings.Join(parts, ", ") + ")"
						}
						if !returns(fd.Body.List) && fd.Type.Results != nil {
							fail(fset.Position(fd.Pos()), "function may fall off its end")
						}
						body := t.block(fd.Body.List, ret, func() string { return ret(nil) })
						fmt.Fprintf(&sb, "(* %s: %s *)\nDefinition %s%s %s :=\n  %s.\n\n", u.dir, want, pfx,
							strings.ReplaceAll(want, ".", "_"), strings.Join(params, " "), body)
					}
				}
				if !found {
					fail(token.Position{Filename: u.dir}, "function %s not found", want)
				}
			}
		}
	}
	if *out == "" {
		fmt.Print(sb.String())

		return
	}
	old, _ := os.ReadFile(*out)
	if string(old) != sb.String() {
		if err := os.MkdirAll(filepath.Dir(*out), 0o755); err != nil {
			panic(err)
		}
		if err := os.WriteFile(*out, []byte(sb.String()), 0o644); err != nil {
			panic(err)
		}
	}
}
