// go2coq translates a small subset of Go functions into Gallina definitions over Z (sized integers
// with explicit wrap-around), bool and list Z (slices / arrays of integers), so that selected pure
// cores of pion/interceptor are re-derived FROM THE SOURCE on every run and the hand-written models
// are proved equal to them (coq/Proofs/GeneratedEqCxx.v, one per property).  Anything outside the subset
// is a translation error (the check then reports the obligation as broken) - never a guess.  The
// subset is described precisely in design-notes/go2coq.md; in short:
//
//   - functions and methods whose bodies consist of :=, =, op=, ++/--, var, parallel assignment
//     (a, b = x, y; a, b := f()), if/else (with init), switch on values and tagless switch (with
//     init; no fallthrough/break), return (named results and bare return included), counted for
//     loops (loop.go), calls of other functions of the same package (translated on demand, so a
//     helper extracted by a refactoring is pulled in automatically), and
//     Lock/Unlock/RLock/RUnlock (also deferred) on a sync.Mutex / sync.RWMutex, which are skipped
//     (sequential semantics);
//   - expressions over bool and sized integers: + - * / % & | ^ &^ << >> unary - ^ !, comparisons,
//     && ||, conversions between integer types, constants, min/max, len, reads s[i] and prefixes
//     s[:n] of slices and arrays of integers, make([]T, n), nil slices, append(s, x) assigned back
//     to s, element assignment s[i] (op)= v;
//   - a pointer receiver is a set of field paths: the function takes the fields it reads as
//     parameters (declaration order) and returns its results followed by the new values of the
//     fields it may assign (declaration order); struct-typed parameters (by value or by pointer)
//     are read-only and flattened into the fields that are read; a struct result is returned
//     field by field;
//   - values of any other type (time.Time, float64, pointers ...) can only be copied; they are
//     typed by an implicit Coq type variable T_<type>.
//
// Next to every definition g_f whose execution can panic (index out of range, division by zero,
// negative shift count / length) a boolean g_f_safe is generated: where g_f_safe is true Go does
// not panic and returns what g_f returns.  Not rendered: nil dereferences, overflow of int/int64
// (64-bit signed arithmetic is unbounded Z), aliasing between distinct slice-typed inputs, and the
// effect of element assignments on a caller's array when the slice is a parameter (such functions
// cannot be called from translated code).
package main

import (
	"flag"
	"fmt"
	"go/ast"
	"go/build"
	"go/constant"
	"go/importer"
	"go/parser"
	"go/token"
	"go/types"
	"os"
	"path/filepath"
	"sort"
	"strings"
)

type unit struct {
	dir   string
	funcs []string // "Func" or "Type.Method"
}

// ---------------------------------------------------------------------------------------------
// packages

type pkgInfo struct {
	dir   string
	fset  *token.FileSet
	info  *types.Info
	pkg   *types.Package
	name  string
	decls map[string]*ast.FuncDecl
	gens  map[string]*gen
	out   *strings.Builder
}

func fail(pos token.Position, f string, a ...interface{}) {
	fmt.Fprintf(os.Stderr, "go2coq: %s: %s\n", pos, fmt.Sprintf(f, a...))
	os.Exit(1)
}

var (
	sharedFset = token.NewFileSet()
	sharedImp  types.Importer
)

// one importer (and one file set) for all packages: dependencies are type-checked once
func theImporter(fset *token.FileSet) types.Importer {
	if sharedImp == nil {
		sharedImp = importer.ForCompiler(fset, "source", nil)
	}

	return sharedImp
}

func loadPkg(repo, dir string, out *strings.Builder) *pkgInfo {
	fset := sharedFset
	pkgs, err := parser.ParseDir(fset, filepath.Join(repo, dir), func(fi os.FileInfo) bool {
		return !strings.HasSuffix(fi.Name(), "_test.go") && !strings.HasSuffix(fi.Name(), "_verif.go")
	}, 0)
	if err != nil {
		fail(token.Position{Filename: dir}, "%v", err)
	}
	if len(pkgs) != 1 {
		fail(token.Position{Filename: dir}, "expected one package, found %d", len(pkgs))
	}
	for _, p := range pkgs {
		var names []string
		for n := range p.Files {
			names = append(names, n)
		}
		sort.Strings(names)
		var files []*ast.File
		for _, n := range names {
			files = append(files, p.Files[n])
		}
		info := &types.Info{
			Types:      map[ast.Expr]types.TypeAndValue{},
			Defs:       map[*ast.Ident]types.Object{},
			Uses:       map[*ast.Ident]types.Object{},
			Selections: map[*ast.SelectorExpr]*types.Selection{},
		}
		var terrs []error
		conf := types.Config{Importer: theImporter(fset), Error: func(e error) { terrs = append(terrs, e) }}
		pkg, _ := conf.Check(dir, fset, files, info)
		if len(terrs) > 0 {
			// a partially typed package would make the translation a guess
			fail(token.Position{Filename: dir}, "type errors: %v", terrs[0])
		}
		pi := &pkgInfo{dir: dir, fset: fset, info: info, pkg: pkg, name: p.Name, decls: map[string]*ast.FuncDecl{}, gens: map[string]*gen{}, out: out}
		for _, f := range files {
			for _, d := range f.Decls {
				fd, ok := d.(*ast.FuncDecl)
				if !ok || fd.Body == nil {
					continue
				}
				name := fd.Name.Name
				if fd.Recv != nil {
					switch rt := fd.Recv.List[0].Type.(type) {
					case *ast.StarExpr:
						if id, ok := rt.X.(*ast.Ident); ok {
							name = id.Name + "." + name
						} else {
							continue
						}
					case *ast.Ident:
						name = rt.Name + "." + name
					default:
						continue
					}
				}
				pi.decls[name] = fd
			}
		}

		return pi
	}

	return nil
}

// ---------------------------------------------------------------------------------------------
// types

func bits(t types.Type) (int, bool, bool) { // width, signed, isInteger
	b, ok := t.Underlying().(*types.Basic)
	if !ok {
		return 0, false, false
	}
	switch b.Kind() {
	case types.Uint8:
		return 8, false, true
	case types.Uint16:
		return 16, false, true
	case types.Uint32:
		return 32, false, true
	case types.Uint64, types.Uint, types.Uintptr:
		return 64, false, true
	case types.Int8:
		return 8, true, true
	case types.Int16:
		return 16, true, true
	case types.Int32:
		return 32, true, true
	case types.Int64, types.Int:
		return 64, true, true
	case types.UntypedInt:
		return 0, true, true
	}

	return 0, false, false
}

var modulus = map[int]string{8: "256", 16: "65536", 32: "4294967296", 64: "18446744073709551616"}

// wrap renders the reduction of an unbounded Z expression e to type t.
// Signed 64-bit (int, int64) is left unbounded: overflow there is outside every property's range
// and is stated as such in the trusted base.
func wrap(t types.Type, e string) string {
	w, signed, ok := bits(t)
	if !ok || w == 0 || (signed && w == 64) {
		return e
	}
	mod := modulus[w]
	if !signed {
		return "((" + e + ") mod " + mod + ")"
	}
	half := map[int]string{8: "128", 16: "32768", 32: "2147483648"}[w]

	return "(((" + e + ") + " + half + ") mod " + mod + " - " + half + ")"
}

type kind int

const (
	kBool kind = iota
	kInt
	kList   // slice or array of integers: list Z
	kStruct // struct or pointer to struct: a set of field paths (or opaque when used as a whole)
	kOpaque // anything else: can only be copied
)

func isBool(t types.Type) bool {
	b, ok := t.Underlying().(*types.Basic)

	return ok && (b.Kind() == types.Bool || b.Kind() == types.UntypedBool)
}

func opaqueName(t types.Type) string {
	s := types.TypeString(t, func(p *types.Package) string { return p.Name() })
	var sb strings.Builder
	sb.WriteString("T_")
	for _, r := range s {
		switch {
		case r >= 'a' && r <= 'z', r >= 'A' && r <= 'Z', r >= '0' && r <= '9', r == '_':
			sb.WriteRune(r)
		case r == '*':
			sb.WriteString("ptr_")
		case r == '.':
			sb.WriteRune('_')
		case r == '[' || r == ']':
			sb.WriteString("sl_")
		default:
			sb.WriteString("x_")
		}
	}

	return sb.String()
}

func classify(t types.Type) kind {
	if isBool(t) {
		return kBool
	}
	if _, _, ok := bits(t); ok {
		return kInt
	}
	switch u := t.Underlying().(type) {
	case *types.Slice:
		if _, _, ok := bits(u.Elem()); ok {
			return kList
		}
	case *types.Array:
		if _, _, ok := bits(u.Elem()); ok {
			return kList
		}
	case *types.Struct:
		return kStruct
	case *types.Pointer:
		if _, ok := u.Elem().Underlying().(*types.Struct); ok {
			return kStruct
		}
	}

	return kOpaque
}

func coqType(t types.Type) string {
	switch classify(t) {
	case kBool:
		return "bool"
	case kInt:
		return "Z"
	case kList:
		return "(list Z)"
	}

	return opaqueName(t)
}

func structOf(t types.Type) *types.Struct {
	switch u := t.Underlying().(type) {
	case *types.Struct:
		return u
	case *types.Pointer:
		if s, ok := u.Elem().Underlying().(*types.Struct); ok {
			return s
		}
	}

	return nil
}

func isPointer(t types.Type) bool {
	_, ok := t.Underlying().(*types.Pointer)

	return ok
}

func isMutex(t types.Type) bool {
	if p, ok := t.Underlying().(*types.Pointer); ok {
		t = p.Elem()
	}
	n, ok := t.(*types.Named)
	if !ok || n.Obj().Pkg() == nil || n.Obj().Pkg().Path() != "sync" {
		return false
	}

	return n.Obj().Name() == "Mutex" || n.Obj().Name() == "RWMutex"
}

// ---------------------------------------------------------------------------------------------
// field paths

type pathRef struct {
	root   types.Object // receiver or parameter
	path   string       // "a.b", "" for the root itself
	idx    []int        // field indices from the root
	typ    types.Type
	viaPtr bool // crosses a pointer-typed field below the root
}

type pathKey struct {
	root types.Object
	path string
}

func (p *pathRef) key() pathKey { return pathKey{p.root, p.path} }

func lessIdx(a, b []int) bool {
	for i := 0; i < len(a) && i < len(b); i++ {
		if a[i] != b[i] {
			return a[i] < b[i]
		}
	}

	return len(a) < len(b)
}

func sortPaths(m map[pathKey]*pathRef) []*pathRef {
	var l []*pathRef
	for _, p := range m {
		l = append(l, p)
	}
	sort.Slice(l, func(i, j int) bool { return lessIdx(l[i].idx, l[j].idx) })

	return l
}

// ---------------------------------------------------------------------------------------------
// per-function result

type genParam struct {
	obj    types.Object
	name   string     // Coq name (scalar / list / opaque parameter)
	typ    types.Type // Go type
	flat   []*pathRef // struct parameter flattened into the fields read (nil otherwise)
	isFlat bool
}

type gen struct {
	coqName   string
	recvBasic *genParam  // value receiver of a basic type
	recvIn    []*pathRef // fields of the receiver read before assigned (relative to the receiver)
	recvOut   []*pathRef // fields of the receiver that may be assigned
	params    []*genParam
	nres      int
	hasSafe   bool
	busy      bool
	mutParam  bool // writes through a slice parameter: cannot be called from translated code
}

// ---------------------------------------------------------------------------------------------
// translation of one function

type tr struct {
	p    *pkgInfo
	fd   *ast.FuncDecl
	recv types.Object // struct receiver (nil if none or basic)

	locals map[types.Object]string // current Coq name of a local / scalar parameter
	paths  map[pathKey]string      // current Coq name of an assigned field path
	fresh  int

	// collected
	inputs   map[pathKey]*pathRef // paths whose initial value is read
	assigned map[pathKey]*pathRef // receiver paths assigned somewhere
	selected map[types.Object]bool
	whole    map[types.Object]bool
	outs     []*pathRef // the function's outputs (from the first pass)

	safe     bool     // render the no-panic condition instead of the value
	conds    []string // side conditions of the expression being translated
	anyConds bool

	recvIsValue bool
	gparams     []*genParam
	named       []types.Object // named results
	condCount   int
	mutatesParm bool       // assigns an element of a slice-typed parameter (an effect on the caller's array)
	pendingOuts []*pathRef // where the assigned receiver fields of the call just rendered go
}

func (t *tr) pos(n ast.Node) token.Position { return t.p.fset.Position(n.Pos()) }

var reserved = map[string]bool{"as": true, "at": true, "cofix": true, "else": true, "end": true, "exists": true, "exists2": true,
	"fix": true, "for": true, "forall": true, "fun": true, "if": true, "IF": true, "in": true, "let": true, "match": true, "mod": true,
	"Prop": true, "return": true, "Set": true, "then": true, "Type": true, "using": true, "where": true, "with": true, "SProp": true,
	"by": true, "is": true, "nosimpl": true, "of": true}

func coqIdent(s string) string {
	if reserved[s] {
		return s + "_p"
	}

	return s
}

func initialName(p *pathRef) string {
	return p.root.Name() + "_" + strings.ReplaceAll(p.path, ".", "_")
}

func (t *tr) bind(goName string) string {
	t.fresh++

	return fmt.Sprintf("%s_%d", strings.ReplaceAll(goName, ".", "_"), t.fresh)
}

func (t *tr) addCond(c string) {
	t.anyConds = true
	t.condCount++
	for _, o := range t.conds {
		if o == c {
			return
		}
	}
	t.conds = append(t.conds, c)
}

// nonZeroCond: Go panics on division by zero (a constant divisor is checked by the compiler)
func (t *tr) nonZeroCond(b string, e ast.Expr) {
	if tv, ok := t.p.info.Types[e]; ok && tv.Value != nil {
		if constant.Sign(tv.Value) == 0 {
			fail(t.pos(e), "division by the constant zero")
		}

		return
	}
	t.addCond("(negb (" + b + " =? 0))")
}

// takeConds returns and clears the side conditions collected so far.
func (t *tr) takeConds() []string {
	c := t.conds
	t.conds = nil

	return c
}

func conj(cs []string) string {
	if len(cs) == 0 {
		return "true"
	}
	if len(cs) == 1 {
		return cs[0]
	}

	return "(" + strings.Join(cs, " && ") + ")"
}

// guard wraps body (safe mode only) so that it is evaluated only when cs hold.
func (t *tr) guard(cs []string, body string) string {
	if !t.safe || len(cs) == 0 {
		return body
	}

	return "(if " + conj(cs) + " then " + body + "\n  else false)"
}

// resolvePath: is e a field path below the receiver or below a struct-typed parameter?
func (t *tr) resolvePath(e ast.Expr) (*pathRef, bool) {
	switch x := e.(type) {
	case *ast.ParenExpr:
		return t.resolvePath(x.X)
	case *ast.Ident:
		obj := t.p.info.Uses[x]
		v, ok := obj.(*types.Var)
		if !ok || classify(v.Type()) != kStruct {
			return nil, false
		}
		if obj == t.recv {
			return &pathRef{root: obj, typ: v.Type()}, true
		}
		if _, isLocalScalar := t.locals[obj]; isLocalScalar {
			return nil, false
		}
		for _, fl := range t.fd.Type.Params.List {
			for _, n := range fl.Names {
				if t.p.info.Defs[n] == obj {
					return &pathRef{root: obj, typ: v.Type()}, true
				}
			}
		}

		return nil, false
	case *ast.SelectorExpr:
		sel := t.p.info.Selections[x]
		if sel == nil || sel.Kind() != types.FieldVal {
			return nil, false
		}
		base, ok := t.resolvePath(x.X)
		if !ok {
			return nil, false
		}
		if len(sel.Index()) != 1 {
			fail(t.pos(x), "selection of a promoted (embedded) field is not supported")
		}
		p := &pathRef{root: base.root, idx: append(append([]int{}, base.idx...), sel.Index()[0]), typ: sel.Type(), viaPtr: base.viaPtr}
		if base.path == "" {
			p.path = x.Sel.Name
		} else {
			p.path = base.path + "." + x.Sel.Name
			if isPointer(base.typ) {
				p.viaPtr = true
			}
		}

		return p, true
	}

	return nil, false
}

func (t *tr) readPath(p *pathRef, at ast.Node) string {
	if p.path == "" { // the root itself, as a whole
		if p.root == t.recv {
			fail(t.pos(at), "the receiver is used as a whole")
		}
		t.whole[p.root] = true
		if t.selected[p.root] {
			fail(t.pos(at), "parameter %s is used both as a whole and by field", p.root.Name())
		}

		return coqIdent(p.root.Name())
	}
	t.selected[p.root] = true
	if t.whole[p.root] {
		fail(t.pos(at), "parameter %s is used both as a whole and by field", p.root.Name())
	}
	if n, ok := t.paths[p.key()]; ok {
		return n
	}
	t.inputs[p.key()] = p

	return initialName(p)
}

func (t *tr) constant(e ast.Expr) (string, bool) {
	tv, ok := t.p.info.Types[e]
	if !ok || tv.Value == nil {
		return "", false
	}
	_, _, intTyped := bits(tv.Type)
	switch tv.Value.Kind() {
	case constant.Int:
		if !intTyped { // e.g. a float64-typed constant with an integral value
			return "", false
		}
		s := tv.Value.ExactString()
		if strings.HasPrefix(s, "-") {
			return "(" + s + ")", true
		}

		return s, true
	case constant.Bool:
		if !isBool(tv.Type) {
			return "", false
		}

		return tv.Value.String(), true
	case constant.Float:
		if _, _, isInt := bits(tv.Type); isInt {
			if iv := constant.ToInt(tv.Value); iv.Kind() == constant.Int {
				s := iv.ExactString()
				if strings.HasPrefix(s, "-") {
					return "(" + s + ")", true
				}

				return s, true
			}
		}
	}

	return "", false
}

func (t *tr) typeOf(e ast.Expr) types.Type {
	ty := t.p.info.TypeOf(e)
	if ty == nil {
		fail(t.pos(e), "untyped expression")
	}

	return ty
}

func (t *tr) intExpr(e ast.Expr) string {
	if classify(t.typeOf(e)) != kInt {
		fail(t.pos(e), "integer operand expected, found %s", t.typeOf(e))
	}

	return t.expr(e)
}

func (t *tr) boolExpr(e ast.Expr) string {
	if classify(t.typeOf(e)) != kBool {
		fail(t.pos(e), "boolean operand expected, found %s", t.typeOf(e))
	}

	return t.expr(e)
}

// shift renders x << n / x >> n of result type ty.
func (t *tr) shift(op token.Token, ty types.Type, a string, n ast.Expr) string {
	w, signed, _ := bits(ty)
	if op == token.SHL && signed && w == 64 {
		fail(t.pos(n), "<< on a signed 64-bit operand is not supported (overflow is not rendered)")
	}
	b := t.intExpr(n)
	if tv, ok := t.p.info.Types[n]; ok && tv.Value != nil {
		if constant.Sign(tv.Value) < 0 {
			fail(t.pos(n), "negative shift count")
		}
	} else if _, nsigned, _ := bits(t.typeOf(n)); nsigned {
		t.addCond("(0 <=? " + b + ")") // Go panics on a negative count
	}
	if op == token.SHL {
		// (x * 2^n) reduced to the type: 0 once n reaches the width
		return wrap(ty, "(Z.shiftl "+a+" "+b+")")
	}

	return "(Z.shiftr " + a + " " + b + ")"
}

func (t *tr) arith(op token.Token, ty types.Type, a, b string, divisor ast.Expr, at ast.Node) string {
	_, signed, _ := bits(ty)
	switch op {
	case token.ADD, token.SUB, token.MUL:
		return wrap(ty, "("+a+" "+op.String()+" "+b+")")
	case token.QUO:
		t.nonZeroCond(b, divisor)
		if signed {
			return wrap(ty, "(Z.quot "+a+" "+b+")")
		}

		return "(" + a + " / " + b + ")"
	case token.REM:
		t.nonZeroCond(b, divisor)
		if signed {
			return "(Z.rem " + a + " " + b + ")"
		}

		return "(" + a + " mod " + b + ")"
	case token.AND:
		return "(Z.land " + a + " " + b + ")"
	case token.OR:
		return "(Z.lor " + a + " " + b + ")"
	case token.XOR:
		return "(Z.lxor " + a + " " + b + ")"
	case token.AND_NOT:
		return "(Z.ldiff " + a + " " + b + ")"
	}
	fail(t.pos(at), "unsupported operator %s", op)

	return ""
}

func (t *tr) expr(e ast.Expr) string {
	if s, ok := t.constant(e); ok {
		return s
	}
	switch x := e.(type) {
	case *ast.ParenExpr:
		return t.expr(x.X)
	case *ast.Ident:
		if x.Name == "true" || x.Name == "false" {
			if _, ok := t.p.info.Uses[x].(*types.Const); ok {
				return x.Name
			}
		}
		if _, isNil := t.p.info.Uses[x].(*types.Nil); isNil {
			if classify(t.typeOf(x)) == kList {
				if _, isSlice := t.typeOf(x).Underlying().(*types.Slice); isSlice {
					return "nil" // the nil slice: length 0
				}
			}
			fail(t.pos(x), "nil of type %s is not supported", t.typeOf(x))
		}
		obj := t.p.info.Uses[x]
		if n, ok := t.locals[obj]; ok {
			return n
		}
		if p, ok := t.resolvePath(x); ok {
			return t.readPath(p, x)
		}
		fail(t.pos(x), "unknown identifier %s", x.Name)
	case *ast.SelectorExpr:
		if p, ok := t.resolvePath(x); ok {
			return t.readPath(p, x)
		}
		fail(t.pos(x), "unsupported selector")
	case *ast.IndexExpr:
		if classify(t.typeOf(x.X)) != kList {
			fail(t.pos(x), "index of a non-integer slice/array")
		}
		l := t.expr(x.X)
		i := t.intExpr(x.Index)
		t.boundsCond(l, i, x.Index)

		return "(g_idx " + l + " " + i + ")"
	case *ast.SliceExpr:
		if x.Low != nil || x.High == nil || x.Slice3 || classify(t.typeOf(x.X)) != kList {
			fail(t.pos(x), "only s[:n] on an integer slice is supported")
		}
		if _, isSlice := t.typeOf(x.X).Underlying().(*types.Slice); !isSlice {
			fail(t.pos(x), "only s[:n] on an integer slice is supported")
		}
		l := t.expr(x.X)
		h := t.intExpr(x.High)
		// Go allows n up to cap(s); only n <= len(s) is rendered (sufficient for no panic)
		c := "(" + h + " <=? g_len " + l + ")"
		if tv, ok := t.p.info.Types[x.High]; ok && tv.Value != nil {
			if constant.Sign(tv.Value) < 0 {
				fail(t.pos(x), "negative slice bound")
			}
		} else if _, signed, _ := bits(t.typeOf(x.High)); signed {
			c = "((0 <=? " + h + ") && " + c + ")"
		}
		t.addCond(c)

		return "(g_take " + l + " " + h + ")"
	case *ast.UnaryExpr:
		switch x.Op {
		case token.NOT:
			return "(negb " + t.boolExpr(x.X) + ")"
		case token.SUB:
			return wrap(t.typeOf(e), "(- "+t.intExpr(x.X)+")")
		case token.XOR:
			return wrap(t.typeOf(e), "(Z.lnot "+t.intExpr(x.X)+")")
		case token.ADD:
			return t.intExpr(x.X)
		}
	case *ast.BinaryExpr:
		switch x.Op {
		case token.LAND, token.LOR:
			a := t.boolExpr(x.X)
			saved := t.takeConds()
			b := t.boolExpr(x.Y)
			cb := t.takeConds()
			t.conds = saved
			if len(cb) > 0 { // y is evaluated only when x does not decide
				if x.Op == token.LAND {
					t.conds = append(t.conds, "(negb "+a+" || "+conj(cb)+")")
				} else {
					t.conds = append(t.conds, "("+a+" || "+conj(cb)+")")
				}
			}
			if x.Op == token.LAND {
				return "(" + a + " && " + b + ")"
			}

			return "(" + a + " || " + b + ")"
		case token.SHL, token.SHR:
			return t.shift(x.Op, t.typeOf(e), t.intExpr(x.X), x.Y)
		case token.ADD, token.SUB, token.MUL, token.QUO, token.REM, token.AND, token.OR, token.XOR, token.AND_NOT:
			a := t.intExpr(x.X)
			b := t.intExpr(x.Y)

			return t.arith(x.Op, t.typeOf(e), a, b, x.Y, x)
		case token.EQL, token.NEQ:
			var r string
			switch classify(t.typeOf(x.X)) {
			case kInt:
				r = "(" + t.intExpr(x.X) + " =? " + t.intExpr(x.Y) + ")"
			case kBool:
				r = "(Bool.eqb " + t.boolExpr(x.X) + " " + t.boolExpr(x.Y) + ")"
			default:
				fail(t.pos(x), "comparison of %s values is not supported", t.typeOf(x.X))
			}
			if x.Op == token.NEQ {
				return "(negb " + r + ")"
			}

			return r
		case token.LSS, token.LEQ, token.GTR, token.GEQ:
			a := t.intExpr(x.X)
			b := t.intExpr(x.Y)

			return "(" + a + " " + x.Op.String() + "? " + b + ")"
		}
	case *ast.CallExpr:
		// conversion?
		if tv, ok := t.p.info.Types[x.Fun]; ok && tv.IsType() {
			if w, signed, isInt := bits(tv.Type); isInt && len(x.Args) == 1 {
				arg := t.intExpr(x.Args[0])
				if sw, ssigned, _ := bits(t.typeOf(x.Args[0])); signed && w == 64 && !ssigned && sw == 64 {
					// uint64 -> int/int64 is exact two's complement (arithmetic on int64 stays unbounded)
					return "(((" + arg + ") + 9223372036854775808) mod 18446744073709551616 - 9223372036854775808)"
				}

				return wrap(tv.Type, arg)
			}
			fail(t.pos(x), "unsupported conversion to %s", tv.Type)
		}
		if id, ok := x.Fun.(*ast.Ident); ok {
			if _, isBuiltin := t.p.info.Uses[id].(*types.Builtin); isBuiltin {
				switch id.Name {
				case "min", "max":
					if len(x.Args) == 2 {
						return "(Z." + id.Name + " " + t.intExpr(x.Args[0]) + " " + t.intExpr(x.Args[1]) + ")"
					}
				case "len":
					if len(x.Args) == 1 && classify(t.typeOf(x.Args[0])) == kList {
						return "(g_len " + t.expr(x.Args[0]) + ")"
					}
				case "make":
					if len(x.Args) == 2 && classify(t.typeOf(x)) == kList {
						if _, isSlice := t.typeOf(x).Underlying().(*types.Slice); isSlice {
							n := t.intExpr(x.Args[1])
							if tv, ok := t.p.info.Types[x.Args[1]]; ok && tv.Value != nil {
								if constant.Sign(tv.Value) < 0 {
									fail(t.pos(x), "negative length")
								}
							} else if _, signed, _ := bits(t.typeOf(x.Args[1])); signed {
								t.addCond("(0 <=? " + n + ")")
							}

							return "(g_zeros " + n + ")"
						}
					}
				}
				fail(t.pos(x), "unsupported use of builtin %s", id.Name)
			}
		}
		g, args := t.call(x)
		if g.nres != 1 || len(g.recvOut) != 0 {
			fail(t.pos(x), "call of %s in an expression: one result and no assigned receiver field required", g.coqName)
		}
		if g.hasSafe {
			t.addCond("(" + g.coqName + "_safe" + args + ")")
		}

		return "(" + g.coqName + args + ")"
	}
	fail(t.pos(e), "unsupported expression %T", e)

	return ""
}

func (t *tr) boundsCond(l, i string, idx ast.Expr) {
	c := "(" + i + " <? g_len " + l + ")"
	if tv, ok := t.p.info.Types[idx]; ok && tv.Value != nil {
		if constant.Sign(tv.Value) < 0 {
			fail(t.pos(idx), "negative index")
		}
	} else if _, signed, _ := bits(t.typeOf(idx)); signed {
		c = "((0 <=? " + i + ") && " + c + ")"
	}
	t.addCond(c)
}

// call resolves a call of a translated function/method and renders its argument list
// (receiver fields first, then the arguments), with a leading space.
func (t *tr) call(x *ast.CallExpr) (*gen, string) {
	var g *gen
	var parts []string
	t.pendingOuts = nil
	switch f := x.Fun.(type) {
	case *ast.Ident:
		fn, ok := t.p.info.Uses[f].(*types.Func)
		if !ok || fn.Pkg() != t.p.pkg {
			fail(t.pos(x), "call of %s: only functions of the same package can be translated", f.Name)
		}
		g = t.p.translate(fn.Name(), t.pos(x))
	case *ast.SelectorExpr:
		sel := t.p.info.Selections[f]
		if sel == nil || sel.Kind() != types.MethodVal {
			fail(t.pos(x), "unsupported call")
		}
		fn := sel.Obj().(*types.Func)
		if fn.Pkg() != t.p.pkg {
			fail(t.pos(x), "call of method %s of another package", fn.FullName())
		}
		rt := sel.Recv()
		if p, ok := rt.Underlying().(*types.Pointer); ok {
			rt = p.Elem()
		}
		named, ok := rt.(*types.Named)
		if !ok {
			fail(t.pos(x), "method call on an unnamed type")
		}
		g = t.p.translate(named.Obj().Name()+"."+fn.Name(), t.pos(x))
		if g.recvBasic != nil {
			parts = append(parts, t.intExpr(f.X))
		} else {
			base, ok := t.resolvePath(f.X)
			if !ok {
				fail(t.pos(x), "method call on something that is not a field path of the receiver or of a parameter")
			}
			if len(sel.Index()) != 1 {
				fail(t.pos(x), "call of a promoted method")
			}
			join := func(p *pathRef) *pathRef { return joinPath(base, p) }
			for _, p := range g.recvIn {
				parts = append(parts, t.readPath(join(p), x))
			}
			// outputs are bound by the caller (callStmt); remember where they go
			for _, p := range g.recvOut {
				t.pendingOuts = append(t.pendingOuts, join(p))
			}
		}
	default:
		fail(t.pos(x), "unsupported call")
	}
	if len(x.Args) != len(g.params) || x.Ellipsis != token.NoPos {
		fail(t.pos(x), "argument count mismatch")
	}
	if g.mutParam {
		fail(t.pos(x), "%s assigns elements of a slice parameter: the effect on the caller's array is not rendered", g.coqName)
	}
	for i, a := range x.Args {
		p := g.params[i]
		if p.isFlat {
			// a struct (or pointer to struct) handed on to a callee that reads some of its fields:
			// pass those fields of the caller's own path
			base, ok := t.resolvePath(a)
			if !ok || !types.Identical(t.typeOf(a), p.typ) {
				fail(t.pos(a), "struct-typed argument that is not a field path of the receiver or of a parameter")
			}
			for _, q := range p.flat {
				parts = append(parts, t.readPath(joinPath(base, &pathRef{path: q.path, idx: q.idx, typ: q.typ, viaPtr: q.viaPtr}), a))
			}

			continue
		}
		if coqType(t.typeOf(a)) != coqType(p.typ) {
			fail(t.pos(a), "argument kind mismatch")
		}
		parts = append(parts, t.expr(a))
	}
	s := ""
	for _, p := range parts {
		s += " " + p
	}

	return g, s
}

// joinPath: the callee-relative path p below the caller's path base
func joinPath(base, p *pathRef) *pathRef {
	q := &pathRef{root: base.root, idx: append(append([]int{}, base.idx...), p.idx...), typ: p.typ, viaPtr: base.viaPtr || p.viaPtr}
	if base.path == "" {
		q.path = p.path
	} else {
		q.path = base.path + "." + p.path
		if isPointer(base.typ) {
			q.viaPtr = true
		}
	}

	return q
}

func (t *tr) writePath(p *pathRef, at ast.Node) string {
	if p.root != t.recv || p.path == "" {
		fail(t.pos(at), "assignment to something that is not a field of the pointer receiver")
	}
	if p.viaPtr {
		fail(t.pos(at), "assignment through a pointer-typed field")
	}
	if t.recvIsValue {
		fail(t.pos(at), "assignment to a field of a value receiver")
	}
	t.selected[p.root] = true
	t.assigned[p.key()] = p
	n := t.bind(p.root.Name() + "." + p.path)
	t.paths[p.key()] = n

	return n
}

// target returns a function that rebinds the assignment target e and yields its new Coq name.
func (t *tr) target(e ast.Expr, define bool) func() string {
	switch x := e.(type) {
	case *ast.ParenExpr:
		return t.target(x.X, define)
	case *ast.Ident:
		if x.Name == "_" {
			return func() string { return "_" }
		}
		var obj types.Object
		if define && t.p.info.Defs[x] != nil {
			obj = t.p.info.Defs[x]
		} else {
			obj = t.p.info.Uses[x]
			if _, ok := t.locals[obj]; !ok {
				fail(t.pos(e), "assignment to %s, which is not a local variable or scalar parameter", x.Name)
			}
		}

		return func() string {
			n := t.bind(x.Name)
			t.locals[obj] = n

			return n
		}
	case *ast.SelectorExpr:
		p, ok := t.resolvePath(x)
		if !ok {
			fail(t.pos(e), "unsupported assignment target")
		}

		return func() string { return t.writePath(p, e) }
	}
	fail(t.pos(e), "unsupported assignment target")

	return nil
}

var binop = map[token.Token]token.Token{
	token.ADD_ASSIGN: token.ADD, token.SUB_ASSIGN: token.SUB, token.MUL_ASSIGN: token.MUL, token.QUO_ASSIGN: token.QUO,
	token.REM_ASSIGN: token.REM, token.AND_ASSIGN: token.AND, token.OR_ASSIGN: token.OR, token.XOR_ASSIGN: token.XOR,
	token.AND_NOT_ASSIGN: token.AND_NOT, token.SHL_ASSIGN: token.SHL, token.SHR_ASSIGN: token.SHR,
}

func zero(ty types.Type) (string, bool) {
	switch classify(ty) {
	case kBool:
		return "false", true
	case kInt:
		return "0", true
	}

	return "", false
}

func (t *tr) isLockCall(e ast.Expr) bool {
	c, ok := e.(*ast.CallExpr)
	if !ok || len(c.Args) != 0 {
		return false
	}
	s, ok := c.Fun.(*ast.SelectorExpr)
	if !ok {
		return false
	}
	switch s.Sel.Name {
	case "Lock", "Unlock", "RLock", "RUnlock":
	default:
		return false
	}
	sel := t.p.info.Selections[s]
	if sel == nil || sel.Kind() != types.MethodVal {
		return false
	}

	return isMutex(t.typeOf(s.X))
}

func returns(stmts []ast.Stmt) bool { // does the list end in a return on every path?
	if len(stmts) == 0 {
		return false
	}
	switch s := stmts[len(stmts)-1].(type) {
	case *ast.ReturnStmt:
		return true
	case *ast.IfStmt:
		if s.Else == nil {
			return false
		}
		eb, ok := s.Else.(*ast.BlockStmt)
		if !ok {
			return returns(s.Body.List) && returns([]ast.Stmt{s.Else})
		}

		return returns(s.Body.List) && returns(eb.List)
	case *ast.BlockStmt:
		return returns(s.List)
	case *ast.SwitchStmt:
		hasDefault := false
		for _, c := range s.Body.List {
			cc := c.(*ast.CaseClause)
			if cc.List == nil {
				hasDefault = true
			}
			if !returns(cc.Body) {
				return false
			}
		}

		return hasDefault
	}

	return false
}

func copyLocals(m map[types.Object]string) map[types.Object]string {
	c := make(map[types.Object]string, len(m))
	for k, v := range m {
		c[k] = v
	}

	return c
}

func copyPaths(m map[pathKey]string) map[pathKey]string {
	c := make(map[pathKey]string, len(m))
	for k, v := range m {
		c[k] = v
	}

	return c
}

// let renders "let n := rhs in rest" (value) or the guarded continuation (safe).
func (t *tr) let(pattern, rhs string, cs []string, rest func() string) string {
	return t.guard(cs, "let "+pattern+" := "+rhs+" in\n  "+rest())
}

// callStmt: a call whose results (if any) go to the targets lhs, and whose assigned receiver
// fields are rebound.
func (t *tr) callStmt(x *ast.CallExpr, lhs []func() string, rest func() string) string {
	g, args := t.call(x)
	outs := t.pendingOuts
	t.pendingOuts = nil
	if g.nres != len(lhs) {
		fail(t.pos(x), "call of %s: %d results for %d targets", g.coqName, g.nres, len(lhs))
	}
	if g.hasSafe {
		t.addCond("(" + g.coqName + "_safe" + args + ")")
	}
	cs := t.takeConds()
	var names []string
	for _, l := range lhs {
		names = append(names, l())
	}
	for _, p := range outs {
		names = append(names, t.writePath(p, x))
	}
	switch len(names) {
	case 0:
		return t.guard(cs, rest())
	case 1:
		return t.let(names[0], "("+g.coqName+args+")", cs, rest)
	}

	return t.let("'("+strings.Join(names, ", ")+")", "("+g.coqName+args+")", cs, rest)
}

func isTranslatedCall(t *tr, e ast.Expr) (*ast.CallExpr, bool) {
	c, ok := e.(*ast.CallExpr)
	if !ok {
		return nil, false
	}
	if tv, ok := t.p.info.Types[c.Fun]; ok && tv.IsType() {
		return nil, false
	}
	if id, ok := c.Fun.(*ast.Ident); ok {
		if _, isBuiltin := t.p.info.Uses[id].(*types.Builtin); isBuiltin {
			return nil, false
		}
	}

	return c, true
}

// block translates stmts followed by the continuation k (called with the env at that point).
func (t *tr) block(stmts []ast.Stmt, ret func([]ast.Expr) string, k func() string) string {
	if len(stmts) == 0 {
		return k()
	}
	rest := func() string { return t.block(stmts[1:], ret, k) }
	switch s := stmts[0].(type) {
	case *ast.ReturnStmt:
		return ret(s.Results)
	case *ast.EmptyStmt:
		return rest()
	case *ast.DeferStmt:
		if t.isLockCall(s.Call) {
			return rest()
		}
		fail(t.pos(s), "defer of anything but a mutex unlock is not supported")
	case *ast.ExprStmt:
		if t.isLockCall(s.X) {
			return rest()
		}
		if c, ok := isTranslatedCall(t, s.X); ok {
			return t.callStmt(c, nil, rest)
		}
		fail(t.pos(s), "unsupported expression statement")
	case *ast.DeclStmt:
		gd, ok := s.Decl.(*ast.GenDecl)
		if !ok || gd.Tok != token.VAR {
			fail(t.pos(s), "unsupported declaration")
		}
		var todo []func(func() string) string
		for _, sp := range gd.Specs {
			vs := sp.(*ast.ValueSpec)
			if len(vs.Values) != 0 && len(vs.Values) != len(vs.Names) {
				fail(t.pos(s), "unsupported var declaration")
			}
			for i, n := range vs.Names {
				i, n := i, n
				todo = append(todo, func(rest func() string) string {
					obj := t.p.info.Defs[n]
					var rhs string
					if len(vs.Values) != 0 {
						if coqType(t.typeOf(vs.Values[i])) != coqType(obj.Type()) && !(classify(obj.Type()) == kInt && classify(t.typeOf(vs.Values[i])) == kInt) {
							fail(t.pos(s), "initialiser kind mismatch")
						}
						rhs = t.expr(vs.Values[i])
					} else {
						z, ok := zero(obj.Type())
						if !ok {
							fail(t.pos(s), "zero value of %s is not supported", obj.Type())
						}
						rhs = z
					}
					cs := t.takeConds()
					name := t.target(n, true)()

					return t.let(name, rhs, cs, rest)
				})
			}
		}
		var chain func(i int) string
		chain = func(i int) string {
			if i == len(todo) {
				return rest()
			}

			return todo[i](func() string { return chain(i + 1) })
		}

		return chain(0)
	case *ast.AssignStmt:
		_, lhsIsElem := s.Lhs[0].(*ast.IndexExpr)
		if len(s.Rhs) == 1 && !(len(s.Lhs) == 1 && lhsIsElem) {
			if c, ok := isTranslatedCall(t, s.Rhs[0]); ok && (s.Tok == token.DEFINE || s.Tok == token.ASSIGN) {
				var lhs []func() string
				for _, l := range s.Lhs {
					lhs = append(lhs, t.target(l, s.Tok == token.DEFINE))
				}

				return t.callStmt(c, lhs, rest)
			}
		}
		if len(s.Lhs) == len(s.Rhs) && len(s.Lhs) > 1 && (s.Tok == token.DEFINE || s.Tok == token.ASSIGN) {
			// parallel assignment: all right-hand sides are evaluated first (in the current
			// environment), then the targets are bound
			var vals []string
			for i, r := range s.Rhs {
				if _, isElem := s.Lhs[i].(*ast.IndexExpr); isElem {
					fail(t.pos(s), "element target in a parallel assignment is not supported")
				}
				lty, rty := t.typeOf(s.Lhs[i]), t.typeOf(r)
				if id, ok := s.Lhs[i].(*ast.Ident); ok && id.Name == "_" {
					lty = rty
				}
				if coqType(lty) != coqType(rty) && !(classify(lty) == kInt && classify(rty) == kInt) {
					fail(t.pos(s), "assignment between different kinds (%s := %s)", lty, rty)
				}
				vals = append(vals, t.expr(r))
			}
			cs := t.takeConds()
			var tg []func() string
			for _, l := range s.Lhs {
				tg = append(tg, t.target(l, s.Tok == token.DEFINE))
			}
			var chain func(i int) string
			chain = func(i int) string {
				if i == len(vals) {
					return rest()
				}

				return "let " + tg[i]() + " := " + vals[i] + " in\n  " + chain(i+1)
			}

			return t.guard(cs, chain(0))
		}
		if len(s.Lhs) != 1 || len(s.Rhs) != 1 {
			fail(t.pos(s), "this form of multi-assignment is not supported")
		}
		// element assignment s[i] (op)= v
		if ix, ok := s.Lhs[0].(*ast.IndexExpr); ok {
			if classify(t.typeOf(ix.X)) != kList {
				fail(t.pos(s), "index assignment to a non-integer slice/array")
			}
			if _, isArr := t.typeOf(ix.X).Underlying().(*types.Array); isArr {
				// arrays have value semantics in Go as well; nothing special
				_ = isArr
			}
			l := t.expr(ix.X)
			i := t.intExpr(ix.Index)
			t.boundsCond(l, i, ix.Index)
			var v string
			switch {
			case s.Tok == token.ASSIGN:
				v = t.intExpr(s.Rhs[0])
			case binop[s.Tok] == token.SHL || binop[s.Tok] == token.SHR:
				v = t.shift(binop[s.Tok], t.typeOf(ix), "(g_idx "+l+" "+i+")", s.Rhs[0])
			case binop[s.Tok] != token.ILLEGAL:
				v = t.arith(binop[s.Tok], t.typeOf(ix), "(g_idx "+l+" "+i+")", t.intExpr(s.Rhs[0]), s.Rhs[0], s)
			default:
				fail(t.pos(s), "unsupported assignment operator")
			}
			cs := t.takeConds()
			if id, ok := ix.X.(*ast.Ident); ok {
				for _, fl := range t.fd.Type.Params.List {
					for _, n := range fl.Names {
						if t.p.info.Defs[n] == t.p.info.Uses[id] {
							t.mutatesParm = true
						}
					}
				}
			}
			name := t.target(ix.X, false)()

			return t.let(name, "(g_upd "+l+" "+i+" "+v+")", cs, rest)
		}
		var rhs string
		lty := t.typeOf(s.Lhs[0])
		switch {
		case s.Tok == token.DEFINE || s.Tok == token.ASSIGN:
			// x = append(x, v)
			if c, ok := s.Rhs[0].(*ast.CallExpr); ok {
				if id, ok := c.Fun.(*ast.Ident); ok && id.Name == "append" {
					if _, isBuiltin := t.p.info.Uses[id].(*types.Builtin); isBuiltin {
						if s.Tok != token.ASSIGN || len(c.Args) != 2 || c.Ellipsis != token.NoPos || classify(lty) != kList ||
							types.ExprString(c.Args[0]) != types.ExprString(s.Lhs[0]) {
							fail(t.pos(s), "only x = append(x, v) on an integer slice is supported")
						}
						rhs = "(" + t.expr(c.Args[0]) + " ++ (" + t.intExpr(c.Args[1]) + " :: nil))"

						break
					}
				}
			}
			rty := t.typeOf(s.Rhs[0])
			if coqType(lty) != coqType(rty) && !(classify(lty) == kInt && classify(rty) == kInt) {
				fail(t.pos(s), "assignment between different kinds (%s := %s)", lty, rty)
			}
			rhs = t.expr(s.Rhs[0])
		case binop[s.Tok] == token.SHL || binop[s.Tok] == token.SHR:
			rhs = t.shift(binop[s.Tok], lty, t.intExpr(s.Lhs[0]), s.Rhs[0])
		case binop[s.Tok] != token.ILLEGAL:
			rhs = t.arith(binop[s.Tok], lty, t.intExpr(s.Lhs[0]), t.intExpr(s.Rhs[0]), s.Rhs[0], s)
		default:
			fail(t.pos(s), "unsupported assignment operator")
		}
		cs := t.takeConds()
		n := t.target(s.Lhs[0], s.Tok == token.DEFINE)()

		return t.let(n, rhs, cs, rest)
	case *ast.IncDecStmt:
		op := "+"
		if s.Tok == token.DEC {
			op = "-"
		}
		rhs := wrap(t.typeOf(s.X), "("+t.intExpr(s.X)+" "+op+" 1)")
		cs := t.takeConds()
		n := t.target(s.X, false)()

		return t.let(n, rhs, cs, rest)
	case *ast.BlockStmt:
		return t.block(append(append([]ast.Stmt{}, s.List...), stmts[1:]...), ret, k)
	case *ast.IfStmt:
		if s.Init != nil {
			c := *s
			c.Init = nil

			return t.block(append([]ast.Stmt{s.Init, &c}, stmts[1:]...), ret, k)
		}
		var elseList []ast.Stmt
		if s.Else != nil {
			elseList = []ast.Stmt{s.Else}
		}
		cond := t.boolExpr(s.Cond)
		cs := t.takeConds()

		return t.guard(cs, t.branch(cond, s.Body.List, elseList, stmts[1:], ret, k))
	case *ast.ForStmt, *ast.RangeStmt:
		return t.loop(s, stmts[1:], ret, k)
	case *ast.SwitchStmt:
		if s.Init != nil {
			c := *s
			c.Init = nil

			return t.block(append([]ast.Stmt{s.Init, &c}, stmts[1:]...), ret, k)
		}
		tag := ""
		var cs []string
		if s.Tag != nil {
			tag = t.intExpr(s.Tag)
			cs = t.takeConds()
		}
		// desugar into an if chain, default last
		var def []ast.Stmt
		type arm struct {
			cond string
			body []ast.Stmt
		}
		var arms []arm
		for _, c := range s.Body.List {
			cc := c.(*ast.CaseClause)
			for _, b := range cc.Body {
				if _, isBranch := b.(*ast.BranchStmt); isBranch {
					fail(t.pos(b), "break/fallthrough in a switch is not supported")
				}
			}
			if cc.List == nil {
				def = cc.Body

				continue
			}
			conds := make([]string, len(cc.List))
			for i, e := range cc.List {
				if s.Tag != nil {
					conds[i] = "(" + tag + " =? " + t.intExpr(e) + ")"
				} else {
					conds[i] = t.boolExpr(e)
				}
				if len(t.conds) > 0 {
					fail(t.pos(e), "case expression that can panic is not supported")
				}
			}
			arms = append(arms, arm{strings.Join(conds, " || "), cc.Body})
		}
		var chain func(i int, after []ast.Stmt) string
		chain = func(i int, after []ast.Stmt) string {
			if i == len(arms) {
				return t.block(append(append([]ast.Stmt{}, def...), after...), ret, k)
			}
			savedL, savedP := copyLocals(t.locals), copyPaths(t.paths)
			thenS := t.block(append(append([]ast.Stmt{}, arms[i].body...), after...), ret, k)
			t.locals, t.paths = copyLocals(savedL), copyPaths(savedP)
			elseS := chain(i+1, after)
			t.locals, t.paths = savedL, savedP

			return "(if " + arms[i].cond + " then " + thenS + "\n  else " + elseS + ")"
		}
		// a switch whose arms assign (not return) duplicates the continuation into each arm: fine for the small functions targeted

		return t.guard(cs, chain(0, stmts[1:]))
	default:
		fail(t.pos(s), "unsupported statement %T", s)
	}

	return ""
}

// branch: if cond {a} else {b}; after...   The continuation is duplicated into both arms
// (the functions targeted are tiny), which keeps the translation purely structural.
func (t *tr) branch(cond string, a, b, after []ast.Stmt, ret func([]ast.Expr) string, k func() string) string {
	savedL, savedP := copyLocals(t.locals), copyPaths(t.paths)
	thenS := t.block(append(append([]ast.Stmt{}, a...), after...), ret, k)
	t.locals, t.paths = copyLocals(savedL), copyPaths(savedP)
	elseS := t.block(append(append([]ast.Stmt{}, b...), after...), ret, k)
	t.locals, t.paths = savedL, savedP

	return "(if " + cond + " then " + thenS + "\n  else " + elseS + ")"
}

// ---------------------------------------------------------------------------------------------
// driver for one function

func (p *pkgInfo) translate(want string, from token.Position) *gen {
	if g, ok := p.gens[want]; ok {
		if g.busy {
			fail(from, "recursive call of %s", want)
		}

		return g
	}
	fd, ok := p.decls[want]
	if !ok {
		fail(from, "function %s not found in %s", want, p.dir)
	}
	g := &gen{coqName: "g_" + p.name + "_" + strings.ReplaceAll(want, ".", "_"), busy: true}
	p.gens[want] = g
	fpos := p.fset.Position(fd.Pos())
	if fd.Type.TypeParams != nil {
		fail(fpos, "generic functions are not supported")
	}

	// results
	var resTypes []types.Type
	var resNames []*ast.Ident // named results: local variables that start at the zero value
	var resStruct *types.Struct
	if fd.Type.Results != nil {
		for _, fl := range fd.Type.Results.List {
			n := len(fl.Names)
			if n == 0 {
				n = 1
			}
			for i := 0; i < n; i++ {
				resTypes = append(resTypes, p.info.TypeOf(fl.Type))
				if len(fl.Names) != 0 {
					resNames = append(resNames, fl.Names[i])
				}
			}
		}
	}
	g.nres = len(resTypes)
	if len(resTypes) == 1 {
		if st, ok := resTypes[0].Underlying().(*types.Struct); ok {
			resStruct = st
			g.nres = st.NumFields()
		}
	}
	for _, rt := range resTypes {
		if resStruct == nil && classify(rt) == kStruct && !isPointer(rt) {
			fail(fpos, "struct result next to other results is not supported")
		}
	}
	if !returns(fd.Body.List) && fd.Type.Results != nil {
		fail(fpos, "function may fall off its end")
	}
	if resStruct != nil && len(resNames) != 0 {
		fail(fpos, "a named struct result is not supported")
	}

	run := func(safe bool, outs []*pathRef) (*tr, string) {
		t := &tr{p: p, fd: fd, locals: map[types.Object]string{}, paths: map[pathKey]string{}, inputs: map[pathKey]*pathRef{},
			assigned: map[pathKey]*pathRef{}, selected: map[types.Object]bool{}, whole: map[types.Object]bool{}, outs: outs, safe: safe}
		g.recvBasic = nil
		var params []*genParam
		if fd.Recv != nil && len(fd.Recv.List[0].Names) == 1 && fd.Recv.List[0].Names[0].Name != "_" {
			id := fd.Recv.List[0].Names[0]
			obj := p.info.Defs[id]
			switch classify(obj.Type()) {
			case kStruct:
				t.recv = obj
				t.recvIsValue = !isPointer(obj.Type())
			case kInt, kBool:
				t.locals[obj] = coqIdent(id.Name)
				g.recvBasic = &genParam{obj: obj, name: coqIdent(id.Name), typ: obj.Type()}
			default:
				fail(fpos, "receiver of type %s is not supported", obj.Type())
			}
		} else if fd.Recv != nil {
			rt := p.info.TypeOf(fd.Recv.List[0].Type)
			if k := classify(rt); k == kInt || k == kBool {
				g.recvBasic = &genParam{name: "_", typ: rt}
			}
		}
		n := 0
		for _, fl := range fd.Type.Params.List {
			ty := p.info.TypeOf(fl.Type)
			if _, variadic := fl.Type.(*ast.Ellipsis); variadic {
				fail(fpos, "variadic parameters are not supported")
			}
			names := fl.Names
			if len(names) == 0 {
				names = []*ast.Ident{nil}
			}
			for _, id := range names {
				n++
				gp := &genParam{typ: ty}
				if id == nil || id.Name == "_" {
					gp.name = fmt.Sprintf("unused%d_", n)
				} else {
					gp.obj = p.info.Defs[id]
					gp.name = coqIdent(id.Name)
					if classify(ty) != kStruct {
						t.locals[gp.obj] = gp.name
					}
				}
				params = append(params, gp)
			}
		}
		t.gparams = params
		for i, id := range resNames {
			if id.Name == "_" {
				fail(fpos, "blank named result")
			}
			obj := p.info.Defs[id]
			var z string
			switch classify(resTypes[i]) {
			case kBool:
				z = "false"
			case kInt:
				z = "0"
			case kList:
				if _, isSlice := resTypes[i].Underlying().(*types.Slice); !isSlice {
					fail(fpos, "named array result")
				}
				z = "nil"
			default:
				fail(fpos, "named result of type %s is not supported", resTypes[i])
			}
			t.locals[obj] = z
			t.named = append(t.named, obj)
		}
		if g.params == nil { // during the first pass callers cannot exist yet; kept for arity only
			g.params = params
		}
		ret := func(rs []ast.Expr) string {
			var parts []string
			if resStruct != nil {
				if len(rs) != 1 {
					fail(fpos, "bare return")
				}
				cl, ok := rs[0].(*ast.CompositeLit)
				if !ok {
					fail(t.pos(rs[0]), "a struct result must be returned as a composite literal")
				}
				vals := make([]string, resStruct.NumFields())
				for i, el := range cl.Elts {
					fi := i
					var ve ast.Expr = el
					if kv, ok := el.(*ast.KeyValueExpr); ok {
						fi = -1
						for j := 0; j < resStruct.NumFields(); j++ {
							if resStruct.Field(j).Name() == kv.Key.(*ast.Ident).Name {
								fi = j
							}
						}
						ve = kv.Value
					}
					if fi < 0 || fi >= len(vals) {
						fail(t.pos(el), "unknown field in composite literal")
					}
					if coqType(resStruct.Field(fi).Type()) != coqType(t.typeOf(ve)) || classify(t.typeOf(ve)) == kStruct {
						fail(t.pos(el), "field kind mismatch in composite literal")
					}
					vals[fi] = t.expr(ve)
				}
				for j, v := range vals {
					if v == "" {
						z, ok := zero(resStruct.Field(j).Type())
						if !ok {
							fail(t.pos(cl), "zero value of field %s is not supported", resStruct.Field(j).Name())
						}
						vals[j] = z
					}
				}
				parts = vals
			} else {
				if len(rs) == 0 && len(t.named) == len(resTypes) && len(resTypes) > 0 {
					for _, o := range t.named { // bare return: the current values of the named results
						parts = append(parts, t.locals[o])
					}
				} else if len(rs) != len(resTypes) {
					fail(fpos, "result count mismatch")
				}
				for i, r := range rs {
					if id, ok := r.(*ast.Ident); ok {
						if _, isNil := t.p.info.Uses[id].(*types.Nil); isNil {
							if _, isSlice := resTypes[i].Underlying().(*types.Slice); isSlice && classify(resTypes[i]) == kList {
								parts = append(parts, "nil") // the nil slice: length 0

								continue
							}
							fail(t.pos(r), "nil result of type %s is not supported", resTypes[i])
						}
					}
					if coqType(t.typeOf(r)) != coqType(resTypes[i]) && !(classify(resTypes[i]) == kInt && classify(t.typeOf(r)) == kInt) {
						fail(t.pos(r), "result kind mismatch")
					}
					parts = append(parts, t.expr(r))
				}
			}
			cs := t.takeConds()
			if t.safe {
				return conj(cs)
			}
			for _, o := range t.outs {
				parts = append(parts, t.readPath(o, fd))
			}
			switch len(parts) {
			case 0:
				return "tt"
			case 1:
				return parts[0]
			}

			return "(" + strings.Join(parts, ", ") + ")"
		}
		body := t.block(fd.Body.List, ret, func() string { return ret(nil) })

		return t, body
	}

	t1, _ := run(false, nil)
	outs := sortPaths(t1.assigned)
	t2, body := run(false, outs)
	if len(t2.assigned) != len(t1.assigned) {
		fail(fpos, "internal: passes disagree")
	}
	g.mutParam = t2.mutatesParm
	g.params = t2.gparams
	// no path may be a prefix of another one
	all := map[pathKey]*pathRef{}
	for k, v := range t2.inputs {
		all[k] = v
	}
	for k, v := range t2.assigned {
		all[k] = v
	}
	for a := range all {
		for b := range all {
			if a.root == b.root && a != b && strings.HasPrefix(b.path, a.path+".") {
				fail(fpos, "field %s is used both as a whole and by sub-field", a.path)
			}
		}
	}
	ins := sortPaths(t2.inputs)
	var params []string
	tps := map[string]bool{}
	addParam := func(name string, ty types.Type) {
		ct := coqType(ty)
		if strings.HasPrefix(ct, "T_") {
			tps[ct] = true
		}
		params = append(params, "("+name+" : "+ct+")")
	}
	used := map[string]bool{}
	if g.recvBasic != nil {
		addParam(g.recvBasic.name, g.recvBasic.typ)
	}
	g.recvIn = nil
	for _, in := range ins {
		if t2.recv != nil && in.root == t2.recv {
			g.recvIn = append(g.recvIn, &pathRef{path: in.path, idx: in.idx, typ: in.typ, viaPtr: in.viaPtr})
			addParam(initialName(in), in.typ)
		}
	}
	for _, o := range outs {
		g.recvOut = append(g.recvOut, &pathRef{path: o.path, idx: o.idx, typ: o.typ, viaPtr: o.viaPtr})
	}
	for _, gp := range g.params {
		if gp.obj != nil && classify(gp.typ) == kStruct && t2.selected[gp.obj] {
			gp.isFlat = true
			for _, in := range ins {
				if in.root == gp.obj {
					gp.flat = append(gp.flat, in)
					addParam(initialName(in), in.typ)
				}
			}

			continue
		}
		addParam(gp.name, gp.typ)
	}
	for _, ps := range params {
		nm := strings.Fields(strings.Trim(ps, "()"))[0]
		if used[nm] && nm != "_" {
			fail(fpos, "parameter name clash: %s", nm)
		}
		used[nm] = true
	}
	var tpl []string
	for k := range tps {
		tpl = append(tpl, k)
	}
	sort.Strings(tpl)
	header := ""
	for _, k := range tpl {
		header += " {" + k + " : Type}"
	}
	for _, ps := range params {
		header += " " + ps
	}
	fmt.Fprintf(p.out, "(* %s: %s *)\nDefinition %s%s :=\n  %s.\n#[global] Hint Unfold %s : gcores.\n\n", p.dir, want, g.coqName, header, body, g.coqName)

	t3, sbody := run(true, outs)
	for k := range t3.inputs {
		if _, ok := t2.inputs[k]; !ok {
			fail(fpos, "internal: safety condition reads a field the value does not")
		}
	}
	if t3.anyConds {
		g.hasSafe = true
		fmt.Fprintf(p.out, "(* %s: %s does not panic (index range, division by zero, shift count) *)\nDefinition %s_safe%s :=\n  %s.\n#[global] Hint Unfold %s_safe : gcores.\n\n",
			p.dir, want, g.coqName, header, sbody, g.coqName)
	}
	g.busy = false

	return g
}

// The static prelude (g_idx, g_upd, g_len, g_take, g_zeros, g_while, g_while_safe) is the
// hand-written, committed file coq/Base/GoPrelude.v; generated files contain translated functions only.
const prelude = `(* GENERATED by tools/go2coq -prop %s from the Go source on every run - do not edit. *)
From Coq Require Import ZArith Bool List.
From IV Require Import Base.GoPrelude.
Open Scope Z_scope.
Open Scope bool_scope.

`

// propUnits: what each property's ties need (callees are added on demand).  One generated file
// per property, so that a change to a Go function can only break the obligations of the
// properties that use it; a function needed by two properties is emitted into both files.
var propUnits = map[string][]unit{
	"C03": {{"pkg/nack", []string{"receiveLog.setReceived", "receiveLog.delReceived", "receiveLog.getReceived", "receiveLog.get",
		"receiveLog.fixLastConsecutive", "receiveLog.add", "receiveLog.missingSeqNumbers"}}},
	"C05": {{"pkg/twcc", []string{"chunk.canAdd", "chunk.add", "feedback.setBase", "packetArrivalTimeMap.Clamp",
		"packetArrivalTimeMap.setNotReceived", "packetArrivalTimeMap.reallocate", "packetArrivalTimeMap.get", "packetArrivalTimeMap.HasReceived"}}},
	"C06": {{"pkg/report", []string{"receiverStream.setReceived", "receiverStream.delReceived", "receiverStream.getReceived",
		"receiverStream.processSenderReport"}}},
	"C07": {{"pkg/report", []string{"senderStream.processRTP"}}},
	"C12": {{"pkg/nack", []string{"receiveLog.setReceived", "receiveLog.delReceived"}},
		{"pkg/report", []string{"receiverStream.setReceived", "receiverStream.delReceived"}}},
	"C14": {{"pkg/flexfec/util", []string{"BitArray.SetBit", "BitArray.GetBit", "BitArray.Reset"}},
		{"pkg/flexfec", []string{"extractMask1", "extractMask2", "extractMask3_03", "decodeMask"}}},
	"C16": {{"pkg/gcc", []string{"clampInt", "state.transition", "lossBasedBandwidthEstimator.getEstimate"}}},
	"C18": {{"pkg/jitterbuffer", []string{"PriorityQueue.Length", "JitterBuffer.updateStats", "JitterBuffer.SetPlayoutHead", "JitterBuffer.PlayoutHead"}}},
	"C20": {{"internal/sequencenumber", []string{"isNewer", "Unwrapper.Unwrap"}}},
}

func main() {
	repo := flag.String("repo", "/repo", "repository root")
	out := flag.String("out", "", "output .v file")
	prop := flag.String("prop", "", "property id (C03, C05, ...): emit only the functions its ties need")
	only := flag.String("units", "", "testing: translate these instead of a property's list, e.g. pkg/x=F,T.M;pkg/y=G")
	flag.Parse()
	units, known := propUnits[*prop]
	if !known && *only == "" {
		var ids []string
		for id := range propUnits {
			ids = append(ids, id)
		}
		sort.Strings(ids)
		fmt.Fprintf(os.Stderr, "go2coq: -prop is required (there is no global output file any more); one of %s\n", strings.Join(ids, " "))
		os.Exit(2)
	}
	label := *prop
	if *only != "" {
		label = "(testing: -units)"
	}
	if *only != "" {
		units = nil
		for _, u := range strings.Split(*only, ";") {
			dir, fs, ok := strings.Cut(u, "=")
			if !ok {
				fail(token.Position{Filename: u}, "bad -units entry")
			}
			units = append(units, unit{dir, strings.Split(fs, ",")})
		}
	}
	// the source importer resolves imports with `go list`, which must run inside the module
	if abs, err := filepath.Abs(*repo); err == nil {
		build.Default.Dir = abs
	}
	var sb strings.Builder
	fmt.Fprintf(&sb, prelude, label)
	for _, u := range units {
		p := loadPkg(*repo, u.dir, &sb)
		for _, want := range u.funcs {
			p.translate(want, token.Position{Filename: u.dir})
		}
	}
	if *out == "" {
		fmt.Print(sb.String())

		return
	}
	old, _ := os.ReadFile(*out)
	if string(old) != sb.String() {
		if err := os.MkdirAll(filepath.Dir(*out), 0o755); err != nil {
			panic(err)
		}
		if err := os.WriteFile(*out, []byte(sb.String()), 0o644); err != nil {
			panic(err)
		}
	}
}
