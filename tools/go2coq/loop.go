package main

// Counted loops.  Only three shapes are accepted, because only for them the number of
// iterations is bounded by an expression known at loop entry:
//
//	for [i := a]; i != B [&& C]; i++ { body }     at most (B - i0) mod 2^N trips (i of an N-bit type)
//	for [i := a]; i <  B [&& C]; i++ { body }     at most max(0, B - i0) trips
//	for i := range n { body }                     n trips (n evaluated once, as in Go)
//
// provided that the body does not assign i, contains no break/continue/return/goto/defer, and
// (first two shapes) B is an expression without calls none of whose variables or fields is
// assigned in the body: then B has the same value at every evaluation and the loop is
//
//	g_while fuel (fun st => cond st) (fun st => body st; i++) st0
//
// with st the tuple of the variables (and receiver fields) assigned in the body, together with i.
// g_while evaluates the condition before every trip, exactly as Go does; when the fuel is used up
// the bound comparison is false (i has reached B), so Go leaves the loop in the same state.

import (
	"go/ast"
	"go/token"
	"go/types"
	"sort"
	"strings"
)

type stateVar struct {
	obj  types.Object // local variable, or
	path *pathRef     // receiver field
	name string       // Go-side name used to derive Coq names
}

func (t *tr) curName(v stateVar, at ast.Node) string {
	if v.obj != nil {
		return t.locals[v.obj]
	}

	return t.readPath(v.path, at)
}

func (t *tr) setName(v stateVar, n string) {
	if v.obj != nil {
		t.locals[v.obj] = n

		return
	}
	t.paths[v.path.key()] = n
}

func tuple(names []string) string {
	if len(names) == 1 {
		return names[0]
	}

	return "(" + strings.Join(names, ", ") + ")"
}

func pattern(names []string) string {
	if len(names) == 1 {
		return names[0]
	}

	return "'(" + strings.Join(names, ", ") + ")"
}

// checkLoopBody rejects control transfers out of / within the loop body.
func (t *tr) checkLoopBody(b *ast.BlockStmt) {
	ast.Inspect(b, func(n ast.Node) bool {
		switch x := n.(type) {
		case *ast.BranchStmt, *ast.ReturnStmt, *ast.DeferStmt, *ast.GoStmt, *ast.LabeledStmt, *ast.FuncLit, *ast.SelectStmt:
			fail(t.pos(x), "%T inside a loop body is not supported", x)
		}

		return true
	})
}

// invariantReads collects the variables and field paths read by the bound expression b;
// calls (other than conversions) are rejected.
func (t *tr) invariantReads(b ast.Expr) (map[types.Object]bool, map[pathKey]bool) {
	objs := map[types.Object]bool{}
	paths := map[pathKey]bool{}
	var walk func(e ast.Expr)
	walk = func(e ast.Expr) {
		if _, ok := t.constant(e); ok {
			return
		}
		switch x := e.(type) {
		case *ast.ParenExpr:
			walk(x.X)
		case *ast.Ident:
			if p, ok := t.resolvePath(x); ok {
				paths[p.key()] = true

				return
			}
			objs[t.p.info.Uses[x]] = true
		case *ast.SelectorExpr:
			p, ok := t.resolvePath(x)
			if !ok {
				fail(t.pos(x), "unsupported selector in a loop bound")
			}
			paths[p.key()] = true
		case *ast.UnaryExpr:
			walk(x.X)
		case *ast.BinaryExpr:
			walk(x.X)
			walk(x.Y)
		case *ast.CallExpr:
			if tv, ok := t.p.info.Types[x.Fun]; ok && tv.IsType() && len(x.Args) == 1 {
				walk(x.Args[0])

				return
			}
			fail(t.pos(x), "call in a loop bound is not supported")
		default:
			fail(t.pos(e), "unsupported loop bound")
		}
	}
	walk(b)

	return objs, paths
}

type loopShape struct {
	ivar    *ast.Ident
	iobj    types.Object
	cmp     token.Token // NEQ or LSS
	bound   ast.Expr    // nil for range (then rangeN)
	extra   ast.Expr    // C, may be nil
	body    *ast.BlockStmt
	isRange bool
}

func (t *tr) loop(s ast.Stmt, after []ast.Stmt, ret func([]ast.Expr) string, k func() string) string {
	var sh loopShape
	var pre []ast.Stmt // statements executed once before the loop (the init)
	switch x := s.(type) {
	case *ast.ForStmt:
		if x.Cond == nil {
			fail(t.pos(x), "only counted for loops are supported")
		}
		sh.body = x.Body
		post := x.Post
		if post == nil && x.Init == nil && len(x.Body.List) > 0 {
			// a counted loop in disguise: for i != B [&& C] { ...; i++ }.  The increment is the last
			// statement of the body, so (no continue allowed) it runs exactly once per trip, last.
			post = x.Body.List[len(x.Body.List)-1]
			b := *x.Body
			b.List = x.Body.List[:len(x.Body.List)-1]
			sh.body = &b
		}
		if post == nil {
			fail(t.pos(x), "only counted for loops are supported")
		}
		cond := ast.Expr(x.Cond)
		for {
			p, ok := cond.(*ast.ParenExpr)
			if !ok {
				break
			}
			cond = p.X
		}
		cmp, ok := cond.(*ast.BinaryExpr)
		if ok && cmp.Op == token.LAND {
			sh.extra = cmp.Y
			inner := cmp.X
			for {
				p, ok := inner.(*ast.ParenExpr)
				if !ok {
					break
				}
				inner = p.X
			}
			cmp, ok = inner.(*ast.BinaryExpr)
		}
		if !ok || (cmp.Op != token.NEQ && cmp.Op != token.LSS) {
			fail(t.pos(x), "loop condition must be i != B, i < B, optionally && C")
		}
		id, ok := cmp.X.(*ast.Ident)
		if !ok {
			fail(t.pos(x), "loop condition must compare the loop variable on the left")
		}
		sh.ivar, sh.cmp, sh.bound = id, cmp.Op, cmp.Y
		var incX ast.Expr
		switch inc := post.(type) {
		case *ast.IncDecStmt:
			if inc.Tok == token.INC {
				incX = inc.X
			}
		case *ast.AssignStmt: // i += 1
			if inc.Tok == token.ADD_ASSIGN && len(inc.Lhs) == 1 && len(inc.Rhs) == 1 {
				if tv, ok := t.p.info.Types[inc.Rhs[0]]; ok && tv.Value != nil && tv.Value.ExactString() == "1" {
					incX = inc.Lhs[0]
				}
			}
		}
		if incX == nil {
			fail(t.pos(x), "the loop must advance by i++ (post statement, or last statement of the body of a condition-only loop)")
		}
		pid, ok := incX.(*ast.Ident)
		if !ok || t.p.info.Uses[pid] != t.p.info.Uses[id] {
			fail(t.pos(x), "loop post statement must increment the loop variable")
		}
		if x.Init != nil {
			as, ok := x.Init.(*ast.AssignStmt)
			if !ok || as.Tok != token.DEFINE || len(as.Lhs) != 1 || len(as.Rhs) != 1 {
				fail(t.pos(x), "loop init must be i := a")
			}
			iid, ok := as.Lhs[0].(*ast.Ident)
			if !ok || t.p.info.Defs[iid] != t.p.info.Uses[id] {
				fail(t.pos(x), "loop init must define the loop variable")
			}
			pre = append(pre, x.Init)
		}
		sh.iobj = t.p.info.Uses[id]
	case *ast.RangeStmt:
		if x.Value != nil || (x.Key != nil && x.Tok != token.DEFINE) {
			fail(t.pos(x), "only for i := range n over an integer is supported")
		}
		if classify(t.typeOf(x.X)) != kInt {
			fail(t.pos(x), "range over a non-integer is not supported")
		}
		sh.body, sh.isRange, sh.bound, sh.cmp = x.Body, true, x.X, token.LSS
		if x.Key != nil {
			id, ok := x.Key.(*ast.Ident)
			if !ok {
				fail(t.pos(x), "unsupported range key")
			}
			if id.Name != "_" {
				sh.ivar = id
				sh.iobj = t.p.info.Defs[id]
			}
		}
	}
	t.checkLoopBody(sh.body)
	if len(pre) > 0 {
		// translate the init as an ordinary statement, then the loop proper
		return t.block(pre, ret, func() string { return t.loopProper(s, sh, after, ret, k) })
	}

	return t.loopProper(s, sh, after, ret, k)
}

func (t *tr) loopProper(s ast.Stmt, sh loopShape, after []ast.Stmt, ret func([]ast.Expr) string, k func() string) string {
	// the counter
	var ity types.Type
	iname := "i"
	if sh.ivar != nil {
		iname = sh.ivar.Name
	}
	var counter stateVar
	if sh.isRange {
		ity = t.typeOf(sh.bound)
		if b, ok := ity.Underlying().(*types.Basic); ok && b.Kind() == types.UntypedInt {
			ity = types.Typ[types.Int]
		}
		if sh.iobj == nil { // for range n / for _ := range n: a counter of our own
			sh.iobj = types.NewVar(token.NoPos, t.p.pkg, "rangeCounter", ity)
		}
		counter = stateVar{obj: sh.iobj, name: iname}
	} else {
		if _, ok := t.locals[sh.iobj]; !ok {
			fail(t.pos(s), "the loop variable must be a local integer variable")
		}
		ity = sh.iobj.Type()
		counter = stateVar{obj: sh.iobj, name: iname}
	}
	w, signed, isInt := bits(ity)
	if !isInt {
		fail(t.pos(s), "the loop variable must be an integer")
	}
	if sh.cmp == token.NEQ && (w == 0 || (signed && w == 64)) {
		fail(t.pos(s), "i != B loops need a loop variable whose wrap-around is rendered (not int/int64)")
	}

	// the bound, evaluated once
	bound := t.intExpr(sh.bound)
	cs := t.takeConds()
	boundName := t.bind("bound")
	var i0 string
	if sh.isRange {
		i0 = "0"
		t.locals[sh.iobj] = "0"
	} else {
		i0 = t.locals[sh.iobj]
	}

	// 1. dry run of the body: which variables / fields does it assign?
	savedL, savedP, savedFresh, savedConds := copyLocals(t.locals), copyPaths(t.paths), t.fresh, t.conds
	changedObj := map[types.Object]bool{}
	changedPath := map[pathKey]*pathRef{}
	knownPaths := map[pathKey]*pathRef{}
	for kx, v := range t.assigned {
		knownPaths[kx] = v
	}
	collect := func() string {
		for o, n := range t.locals {
			if old, ok := savedL[o]; ok && old != n {
				changedObj[o] = true
			}
		}
		for pk, n := range t.paths {
			if old, ok := savedP[pk]; !ok || old != n {
				changedPath[pk] = t.assigned[pk]
			}
		}

		return "tt"
	}
	noRet := func([]ast.Expr) string { fail(t.pos(s), "return inside a loop"); return "" }
	wasSafe := t.safe
	t.safe = false
	t.block(sh.body.List, noRet, collect)
	t.safe = wasSafe
	t.locals, t.paths, t.fresh, t.conds = copyLocals(savedL), copyPaths(savedP), savedFresh, savedConds
	if changedObj[sh.iobj] {
		fail(t.pos(s), "the loop body assigns the loop variable")
	}
	if !sh.isRange {
		objs, paths := t.invariantReads(sh.bound)
		for o := range objs {
			if changedObj[o] || o == sh.iobj {
				fail(t.pos(sh.bound), "the loop bound depends on %s, which changes in the loop", o.Name())
			}
		}
		for pk := range paths {
			for ck := range changedPath {
				if pk.root == ck.root && (pk.path == ck.path || strings.HasPrefix(pk.path, ck.path+".") || strings.HasPrefix(ck.path, pk.path+".")) {
					fail(t.pos(sh.bound), "the loop bound depends on field %s, which is assigned in the loop", pk.path)
				}
			}
		}
	}

	// 2. the state: counter first, then assigned locals (declaration order), then assigned fields
	vars := []stateVar{counter}
	var objs []types.Object
	for o := range changedObj {
		objs = append(objs, o)
	}
	sort.Slice(objs, func(a, b int) bool { return objs[a].Pos() < objs[b].Pos() })
	for _, o := range objs {
		vars = append(vars, stateVar{obj: o, name: o.Name()})
	}
	cp := map[pathKey]*pathRef{}
	for pk, p := range changedPath {
		cp[pk] = p
	}
	for _, p := range sortPaths(cp) {
		vars = append(vars, stateVar{path: p, name: p.root.Name() + "." + p.path})
	}
	var init []string
	for _, v := range vars {
		if v.obj == sh.iobj {
			init = append(init, i0)
		} else {
			init = append(init, t.curName(v, s))
		}
	}

	// 3. condition and step as functions of the state
	render := func(safe bool) (condT, stepT, condSafeT, stepSafeT string) {
		sl, sp := copyLocals(t.locals), copyPaths(t.paths)
		defer func() { t.locals, t.paths = sl, sp }()
		var binders []string
		for _, v := range vars {
			n := t.bind(v.name)
			binders = append(binders, n)
			t.setName(v, n)
		}
		pat := pattern(binders)
		iN := t.locals[sh.iobj]
		was := t.safe
		// condition
		t.safe = false
		held := t.takeConds()
		var c string
		if sh.cmp == token.NEQ {
			c = "(negb (" + iN + " =? " + boundName + "))"
		} else {
			c = "(" + iN + " <? " + boundName + ")"
		}
		var ccs []string
		if sh.extra != nil {
			e := t.boolExpr(sh.extra)
			ecs := t.takeConds()
			if len(ecs) > 0 { // C is evaluated only when the bound comparison holds
				ccs = []string{"(negb " + c + " || " + conj(ecs) + ")"}
			}
			c = "(" + c + " && " + e + ")"
		}
		condT = "(fun " + pat + " => " + c + ")"
		condSafeT = "(fun " + pat + " => " + conj(ccs) + ")"
		// step: body, then i++
		step := func() string {
			l2, p2 := copyLocals(t.locals), copyPaths(t.paths)
			defer func() { t.locals, t.paths = l2, p2 }()
			return t.block(sh.body.List, noRet, func() string {
				if t.safe {
					return "true"
				}
				next := wrap(ity, "("+t.locals[sh.iobj]+" + 1)")
				var outs []string
				for _, v := range vars {
					if v.obj == sh.iobj {
						outs = append(outs, next)
					} else {
						outs = append(outs, t.curName(v, s))
					}
				}

				return tuple(outs)
			})
		}
		stepT = "(fun " + pat + " => " + step() + ")"
		if safe {
			t.safe = true
			stepSafeT = "(fun " + pat + " => " + step() + ")"
		}
		t.safe = was
		t.conds = held

		return condT, stepT, condSafeT, stepSafeT
	}
	countBefore := t.condCount
	condT, stepT, condSafeT, stepSafeT := render(t.safe)
	loopCanPanic := t.condCount != countBefore

	// 4. fuel
	var fuel string
	if sh.cmp == token.NEQ {
		fuel = "(Z.to_nat ((" + boundName + " - " + i0 + ") mod " + modulus[w] + "))"
	} else {
		fuel = "(Z.to_nat (" + boundName + " - " + i0 + "))"
	}

	// 5. after the loop
	var resNames []string
	for _, v := range vars {
		n := t.bind(v.name)
		resNames = append(resNames, n)
		if v.path != nil {
			t.assigned[v.path.key()] = v.path
		}
		t.setName(v, n)
	}
	if sh.isRange || (sh.ivar != nil && t.p.info.Defs[sh.ivar] != nil) {
		// the loop variable is scoped to the loop
		_ = resNames
	}
	rest := t.block(after, ret, k)
	initT := tuple(init)
	loopT := "(g_while " + fuel + " " + condT + " " + stepT + " " + initT + ")"
	body := "let " + pattern(resNames) + " := " + loopT + " in\n  " + rest
	if t.safe && loopCanPanic {
		body = "let " + pattern(resNames) + " := " + loopT + " in\n  (if (g_while_safe " + fuel + " " + condSafeT + " " + condT + " " + stepSafeT + " " + stepT + " " + initT + ") then " + rest + "\n  else false)"
	}

	return t.guard(cs, "let "+boundName+" := "+bound+" in\n  "+body)
}
