module go2coq

go 1.24.0
