package main

import (
	"fmt"
	"go/ast"
	"go/token"
	"go/types"
	"sort"
	"strings"
)

const (
	classAny   = -1
	classSetup = -2
)

type heldLock struct {
	owner string // canonical expression of the object whose lock field this is ("" = unknown / foreign)
	name  string // pkg.Type.field
	mode  byte   // 'R' or 'W'
}

type ctx struct {
	phase     string // constructor | bind | traffic-closure | loop-goroutine | getter | close
	class     int    // classAny, classSetup or the id of a singleton thread class
	home      string // type the singleton class belongs to
	ctorRoot  bool   // body of a constructor: only fresh locals are setup-phase
	inh       []heldLock
	anns      []int
	localRecv bool   // the receiver points into a thread-local struct value of the caller
	embOwner  string // the receiver is a struct VALUE stored in field embPrefix of an object of this type
	embPref   string
}

func (c ctx) key() string {
	var sb strings.Builder
	fmt.Fprintf(&sb, "%s|%d|%s|%v|%s|%s|", c.phase, c.class, c.home, c.ctorRoot, c.embOwner, c.embPref+fmt.Sprint(c.localRecv))
	for _, h := range c.inh {
		fmt.Fprintf(&sb, "%s:%s:%c,", h.owner, h.name, h.mode)
	}

	return sb.String()
}

type structInfo struct {
	name    string // pkg.Type
	pkg     *pkgInfo
	named   *types.Named
	st      *types.Struct
	hasSync bool
	isIcpt  bool
}

type unit struct {
	id       int
	name     string
	pkg      *pkgInfo
	decl     *ast.FuncDecl
	lit      *ast.FuncLit
	body     *ast.BlockStmt
	ftype    *ast.FuncType
	recv     *types.Var
	recvInfo *structInfo
	parent   *unit
	nlits    int
}

type rowLock struct {
	Name string `json:"name"`
	Mode string `json:"mode"`
}

type row struct {
	Pkg    string    `json:"pkg"`
	Type   string    `json:"type"`
	Field  string    `json:"field"`
	Func   string    `json:"func"`
	Kind   string    `json:"kind"`
	Locks  []rowLock `json:"locks"`
	Phase  string    `json:"phase"`
	Class  int       `json:"class"`
	Before []int     `json:"before"`
	Anns   []int     `json:"anns"`
	Note   string    `json:"note,omitempty"`
	Pos    string    `json:"pos"`
	Count  int       `json:"count"`
}

func (r *row) loc() string { return r.Pkg + "." + r.Type + "." + r.Field }

type spawn struct {
	id     int
	pos    string
	what   string
	single bool // at least one context spawns it as a singleton
	multi  bool // at least one context spawns it without a bound
}

type edge struct {
	from, to string
	pos      string
}

type scanner struct {
	ld           *loader
	own          *ownership
	structs      map[*types.TypeName]*structInfo
	fieldOwner   map[*types.Var]*structInfo
	funcs        map[*types.Func]*unit
	lits         map[*ast.FuncLit]*unit
	units        []*unit
	goIDs        map[*ast.GoStmt]int
	spawns       []*spawn
	onceIDs      map[*unit]int
	done         map[string]bool
	rows         map[string]*row
	edges        map[string]*edge
	icptIface    *types.Interface
	spawnPick    map[string]string
	byName       map[string]*structInfo
	skippedLocal int
	nctx         map[int]int
	warnings     []string
	foreign      map[string]*foreignSite // calls that leave the scanned code while a mutex is held (reentry.go)
	queries      []queryOut              // exported read-only methods (public getters) and what they acquire
	provCache    *provenance
}

func isSyncType(t types.Type) bool {
	for {
		p, ok := t.(*types.Pointer)
		if !ok {
			break
		}
		t = p.Elem()
	}
	n, ok := t.(*types.Named)
	if !ok || n.Obj().Pkg() == nil {
		return false
	}
	switch n.Obj().Pkg().Path() {
	case "sync", "sync/atomic":
		return true
	}

	return false
}

func isMutexType(t types.Type) bool {
	if p, ok := t.(*types.Pointer); ok {
		t = p.Elem()
	}
	n, ok := t.(*types.Named)
	if !ok || n.Obj().Pkg() == nil || n.Obj().Pkg().Path() != "sync" {
		return false
	}

	return n.Obj().Name() == "Mutex" || n.Obj().Name() == "RWMutex"
}

func newScanner(ld *loader, own *ownership) *scanner {
	sc := &scanner{
		ld: ld, own: own,
		structs: map[*types.TypeName]*structInfo{}, fieldOwner: map[*types.Var]*structInfo{},
		funcs: map[*types.Func]*unit{}, lits: map[*ast.FuncLit]*unit{}, goIDs: map[*ast.GoStmt]int{},
		onceIDs: map[*unit]int{}, spawnPick: map[string]string{}, byName: map[string]*structInfo{}, nctx: map[int]int{}, done: map[string]bool{}, rows: map[string]*row{}, edges: map[string]*edge{},
		foreign: map[string]*foreignSite{},
	}
	if ip, err := ld.gc.Import(modulePath); err == nil {
		if o := ip.Scope().Lookup("Interceptor"); o != nil {
			sc.icptIface, _ = o.Type().Underlying().(*types.Interface)
		}
	}
	paths := make([]string, 0, len(ld.targets))
	for p := range ld.targets {
		paths = append(paths, p)
	}
	sort.Strings(paths)
	// struct types
	for _, p := range paths {
		pi := ld.targets[p]
		scope := pi.tpkg.Scope()
		for _, n := range scope.Names() {
			tn, ok := scope.Lookup(n).(*types.TypeName)
			if !ok {
				continue
			}
			named, ok := tn.Type().(*types.Named)
			if !ok {
				continue
			}
			st, ok := named.Underlying().(*types.Struct)
			if !ok {
				continue
			}
			si := &structInfo{name: pi.name + "." + n, pkg: pi, named: named, st: st}
			for i := 0; i < st.NumFields(); i++ {
				f := st.Field(i)
				sc.fieldOwner[f] = si
				if isSyncType(f.Type()) {
					si.hasSync = true
				}
			}
			if sc.icptIface != nil && types.Implements(types.NewPointer(named), sc.icptIface) {
				si.isIcpt = true
			}
			sc.structs[tn] = si
			sc.byName[si.name] = si
		}
	}
	// units and go statements
	type gopos struct {
		g   *ast.GoStmt
		pos string
	}
	var gos []gopos
	for _, p := range paths {
		pi := ld.targets[p]
		for _, f := range pi.files {
			for _, d := range f.Decls {
				fd, ok := d.(*ast.FuncDecl)
				if !ok || fd.Body == nil {
					continue
				}
				fn, _ := pi.info.Defs[fd.Name].(*types.Func)
				if fn == nil {
					continue
				}
				u := &unit{id: len(sc.units), pkg: pi, decl: fd, body: fd.Body, ftype: fd.Type}
				sig := fn.Type().(*types.Signature)
				if sig.Recv() != nil {
					u.recv = sig.Recv()
					u.recvInfo = sc.structOf(sig.Recv().Type())
					tname := typeString(sig.Recv().Type())
					u.name = pi.name + "." + tname + "." + fd.Name.Name
				} else {
					u.name = pi.name + "." + fd.Name.Name
				}
				sc.units = append(sc.units, u)
				sc.funcs[fn] = u
				ast.Inspect(fd.Body, func(n ast.Node) bool {
					if g, ok := n.(*ast.GoStmt); ok {
						gos = append(gos, gopos{g, sc.pos(g.Pos())})
					}

					return true
				})
			}
		}
	}
	sort.Slice(gos, func(i, j int) bool { return gos[i].pos < gos[j].pos })
	for i, g := range gos {
		sc.goIDs[g.g] = i
		sc.spawns = append(sc.spawns, &spawn{id: i, pos: g.pos, what: "go " + types.ExprString(g.g.Call.Fun)})
	}

	return sc
}

func typeString(t types.Type) string {
	if p, ok := t.(*types.Pointer); ok {
		t = p.Elem()
	}
	if n, ok := t.(*types.Named); ok {
		return n.Obj().Name()
	}

	return t.String()
}

func (sc *scanner) structOf(t types.Type) *structInfo {
	for {
		p, ok := t.(*types.Pointer)
		if !ok {
			break
		}
		t = p.Elem()
	}
	n, ok := t.(*types.Named)
	if !ok {
		return nil
	}

	return sc.structs[n.Obj()]
}

func (sc *scanner) pos(p token.Pos) string {
	ps := sc.ld.fset.Position(p)
	fn := ps.Filename
	if i := strings.Index(fn, "/pkg/"); i >= 0 {
		fn = fn[i+1:]
	} else if i := strings.Index(fn, "/internal/"); i >= 0 {
		fn = fn[i+1:]
	}

	return fmt.Sprintf("%s:%04d", fn, ps.Line)
}

func (sc *scanner) litUnit(parent *unit, lit *ast.FuncLit) *unit {
	if u, ok := sc.lits[lit]; ok {
		return u
	}
	root := parent
	parent.nlits++
	u := &unit{id: len(sc.units), pkg: parent.pkg, lit: lit, body: lit.Body, ftype: lit.Type, parent: parent,
		recv: root.recv, recvInfo: root.recvInfo, name: fmt.Sprintf("%s$%d", parent.name, parent.nlits)}
	sc.units = append(sc.units, u)
	sc.lits[lit] = u

	return u
}

// onceID returns the singleton class of a function annotated called-once.
func (sc *scanner) onceID(u *unit) int {
	if id, ok := sc.onceIDs[u]; ok {
		return id
	}
	id := len(sc.spawns)
	sc.spawns = append(sc.spawns, &spawn{id: id, pos: sc.pos(u.body.Pos()), what: "the single call of " + u.name, single: true})
	sc.onceIDs[u] = id

	return id
}

// roots starts the analysis at every entry point the interface permits.
func (sc *scanner) roots() {
	optSuffix := ""
	if a := sc.own.find("option-suffix", "Option", ""); a != nil {
		optSuffix = "Option"
	}
	_ = optSuffix
	units := append([]*unit{}, sc.units...)
	for _, u := range units {
		if u.decl == nil {
			continue
		}
		name := u.decl.Name.Name
		exported := ast.IsExported(name)
		if u.recv == nil {
			switch {
			case strings.HasPrefix(name, "New") || strings.HasPrefix(name, "new"):
				sc.analyze(u, ctx{phase: "constructor", class: classSetup, ctorRoot: true})
			case exported:
				sc.analyze(u, ctx{phase: "getter", class: classAny})
			}

			continue
		}
		si := u.recvInfo
		if si == nil {
			continue
		}
		full := si.name + "." + name
		if name == "NewInterceptor" {
			sc.analyze(u, ctx{phase: "constructor", class: classSetup, ctorRoot: true})

			continue
		}
		if !exported {
			continue
		}
		if a := sc.own.find("setup-setter", full, ""); a != nil {
			a.used++
			sc.analyze(u, ctx{phase: "constructor", class: classSetup, anns: []int{a.idx}})

			continue
		}
		isBind := si.isIcpt && (strings.HasPrefix(name, "Bind") || strings.HasPrefix(name, "Unbind"))
		switch {
		case isBind:
			c := ctx{phase: "bind", class: classAny}
			if a := sc.own.find("called-once", full, ""); a != nil {
				a.used++
				c.class = sc.onceID(u)
				c.home = si.name
				c.anns = []int{a.idx}
			}
			sc.analyze(u, c)
		case name == "Close" && (si.isIcpt || si.hasSync):
			sc.analyze(u, ctx{phase: "close", class: classAny})
		case si.isIcpt || si.hasSync:
			sc.analyze(u, ctx{phase: "getter", class: classAny})
		}
	}
}

// spawnByUnit finds a go statement by "pkg.Func#n": the n-th go statement (lexical order, from 1) in that function.
func (sc *scanner) spawnByUnit(spec string) (int, bool) {
	name, n := spec, 1
	if k := strings.LastIndex(spec, "#"); k >= 0 {
		name = spec[:k]
		fmt.Sscanf(spec[k+1:], "%d", &n)
	}
	found, cnt := -1, 0
	for _, u := range sc.units {
		if u.decl == nil || u.name != name {
			continue
		}
		ast.Inspect(u.body, func(m ast.Node) bool {
			if g, ok := m.(*ast.GoStmt); ok {
				cnt++
				if cnt == n {
					found = sc.goIDs[g]
				}
			}

			return true
		})
	}

	return found, found >= 0
}

// owners lists the types T is (transitively) part of, with the annotations used on the way to each.
func (sc *scanner) owners(t string) ([]string, []*annotation) {
	var out []string
	var anns []*annotation
	seen := map[string]bool{t: true}
	todo := []string{t}
	for len(todo) > 0 {
		cur := todo[0]
		todo = todo[1:]
		for _, a := range sc.own.anns {
			if a.kind == "part-of" && a.subject == cur && !seen[a.by] {
				seen[a.by] = true
				out = append(out, a.by)
				anns = append(anns, a)
				todo = append(todo, a.by)
			}
		}
	}

	return out, anns
}

func (sc *scanner) analyze(u *unit, c ctx) {
	k := fmt.Sprintf("%d|%s", u.id, c.key())
	if sc.done[k] {
		return
	}
	sc.done[k] = true
	sc.nctx[u.id]++
	if sc.nctx[u.id] > 200 {
		if sc.nctx[u.id] == 201 {
			sc.warnings = append(sc.warnings, "too many contexts for "+u.name)
		}

		return
	}
	w := &walker{sc: sc, u: u, c: c, info: u.pkg.info, fresh: map[types.Object]token.Pos{}}
	w.held = append(w.held, c.inh...)
	// go statements of this unit that are not inside a loop or nested literal
	w.collectGo(u.body, false)
	w.block(u.body.List)
}

// ---------------------------------------------------------------------------

type walker struct {
	sc      *scanner
	u       *unit
	c       ctx
	info    *types.Info
	held    []heldLock
	fresh   map[types.Object]token.Pos // fresh local -> position from which it has escaped (0: not yet known)
	topGo   []*ast.GoStmt              // go statements executed at most once per call of this unit
	loopGo  map[*ast.GoStmt]bool
	inLoop  int
	ctorArg bool
	inIf    int        // > 0 inside the body of an if: a close(ch) here is a check-then-close
	rules   *ruleState // split read-modify-write / use-after-release bookkeeping (rules.go)
	// locals that are another name for the memory of a package-level variable (globals.go)
	globalAlias map[types.Object]*globalAliasInfo
}

func (w *walker) collectGo(n ast.Node, inLoop bool) {
	if w.loopGo == nil {
		w.loopGo = map[*ast.GoStmt]bool{}
	}
	var visit func(n ast.Node, inLoop bool)
	visit = func(n ast.Node, inLoop bool) {
		ast.Inspect(n, func(m ast.Node) bool {
			switch m := m.(type) {
			case *ast.FuncLit:
				return false
			case *ast.ForStmt:
				if m.Init != nil {
					visit(m.Init, inLoop)
				}
				visit(m.Body, true)

				return false
			case *ast.RangeStmt:
				visit(m.Body, true)

				return false
			case *ast.GoStmt:
				if inLoop {
					w.loopGo[m] = true
				} else {
					w.topGo = append(w.topGo, m)
				}
				// the spawned literal is a separate unit
				return false
			}

			return true
		})
	}
	visit(n, inLoop)
}

func (w *walker) canon(e ast.Expr) string {
	switch e := e.(type) {
	case *ast.Ident:
		obj := w.info.Uses[e]
		if obj == nil {
			obj = w.info.Defs[e]
		}
		if obj != nil {
			return fmt.Sprintf("%s#%d", e.Name, obj.Pos())
		}

		return e.Name
	case *ast.SelectorExpr:
		return w.canon(e.X) + "." + e.Sel.Name
	case *ast.ParenExpr:
		return w.canon(e.X)
	case *ast.StarExpr:
		return w.canon(e.X)
	case *ast.IndexExpr:
		return w.canon(e.X) + "[" + types.ExprString(e.Index) + "]"
	case *ast.TypeAssertExpr:
		return w.canon(e.X)
	case *ast.UnaryExpr:
		if e.Op == token.AND {
			return w.canon(e.X)
		}
	case *ast.CallExpr:
		return fmt.Sprintf("call@%d", e.Pos())
	}

	return fmt.Sprintf("expr@%d", e.Pos())
}

func varCanon(v *types.Var) string { return fmt.Sprintf("%s#%d", v.Name(), v.Pos()) }

func rootIdent(e ast.Expr) *ast.Ident {
	for {
		switch x := e.(type) {
		case *ast.Ident:
			return x
		case *ast.SelectorExpr:
			e = x.X
		case *ast.ParenExpr:
			e = x.X
		case *ast.StarExpr:
			e = x.X
		case *ast.IndexExpr:
			e = x.X
		case *ast.TypeAssertExpr:
			e = x.X
		default:
			return nil
		}
	}
}

// valuePath reports whether e denotes storage inside the variable at its root
// without following any pointer, slice or map (so a local root means thread-local).
func (w *walker) valuePath(e ast.Expr) bool {
	for {
		switch x := e.(type) {
		case *ast.Ident:
			tv := w.info.TypeOf(x)
			if tv == nil {
				return false
			}
			_, isStruct := tv.Underlying().(*types.Struct)
			_, isArr := tv.Underlying().(*types.Array)

			return isStruct || isArr
		case *ast.SelectorExpr:
			sel := w.info.Selections[x]
			if sel == nil || sel.Kind() != types.FieldVal || sel.Indirect() {
				return false
			}
			e = x.X
		case *ast.ParenExpr:
			e = x.X
		case *ast.IndexExpr:
			t := w.info.TypeOf(x.X)
			if t == nil {
				return false
			}
			if _, ok := t.Underlying().(*types.Array); !ok {
				return false
			}
			e = x.X
		default:
			return false
		}
	}
}

func (w *walker) isLocalVar(id *ast.Ident) bool {
	obj := w.info.Uses[id]
	if obj == nil {
		obj = w.info.Defs[id]
	}
	v, ok := obj.(*types.Var)
	if !ok || v.IsField() {
		return false
	}

	return v.Parent() != v.Pkg().Scope()
}

// hasPtrHop: does the path from the expression with canonical name owner down to base follow a
// pointer / map / slice / interface (then base may be shared between several owners)?
func (w *walker) hasPtrHop(base ast.Expr, owner string) bool {
	e := base
	for {
		if w.canon(e) == owner {
			return false
		}
		if t := w.info.TypeOf(e); t != nil {
			switch t.Underlying().(type) {
			case *types.Pointer, *types.Map, *types.Slice, *types.Interface, *types.Chan:
				return true
			}
		}
		switch x := e.(type) {
		case *ast.SelectorExpr:
			e = x.X
		case *ast.ParenExpr:
			e = x.X
		default:
			return true
		}
	}
}

func intersect(a, b []heldLock) []heldLock {
	var out []heldLock
	for _, x := range a {
		for _, y := range b {
			if x.owner == y.owner && x.name == y.name {
				m := x.mode
				if y.mode == 'R' {
					m = 'R'
				}
				out = append(out, heldLock{x.owner, x.name, m})

				break
			}
		}
	}

	return out
}

func cloneLocks(a []heldLock) []heldLock { return append([]heldLock{}, a...) }

func (w *walker) block(list []ast.Stmt) bool {
	for _, s := range list {
		if w.stmt(s) {
			return true
		}
	}

	return false
}

func (w *walker) stmt(s ast.Stmt) bool {
	switch s := s.(type) {
	case nil:
	case *ast.ExprStmt:
		w.expr(s.X)
		if c, ok := s.X.(*ast.CallExpr); ok {
			if id, ok := c.Fun.(*ast.Ident); ok && id.Name == "panic" {
				return true
			}
		}
	case *ast.AssignStmt:
		for _, r := range s.Rhs {
			w.expr(r)
		}
		for i, l := range s.Lhs {
			rmw := s.Tok != token.ASSIGN && s.Tok != token.DEFINE
			if !rmw && len(s.Rhs) == len(s.Lhs) {
				if _, isSel := l.(*ast.SelectorExpr); isSel && mentions(w, s.Rhs[i], w.canon(l)) {
					rmw = true
				}
			}
			w.write(l, rmw)
			if id, ok := l.(*ast.Ident); ok && len(s.Rhs) == len(s.Lhs) {
				w.noteFresh(id, s.Rhs[i])
			} else if ok && i == 0 && len(s.Rhs) == 1 {
				w.noteFresh(id, s.Rhs[0])
			}
		}
		for i, l := range s.Lhs {
			keep := s.Tok != token.ASSIGN && s.Tok != token.DEFINE
			switch {
			case len(s.Rhs) == len(s.Lhs):
				w.assignRules(l, s.Rhs[i], keep)
				if !keep {
					w.noteGlobalAlias(l, s.Rhs[i])
				}
			case len(s.Rhs) == 1:
				w.assignRules(l, s.Rhs[0], keep)
			}
		}
	case *ast.IncDecStmt:
		w.write(s.X, true)
	case *ast.GoStmt:
		w.goStmt(s)
	case *ast.DeferStmt:
		w.deferStmt(s)
	case *ast.ReturnStmt:
		for _, r := range s.Results {
			if lit, ok := r.(*ast.FuncLit); ok {
				w.lit(lit, w.returnedLitRole())

				continue
			}
			if id, bare := r.(*ast.Ident); bare {
				w.useIdent(id)

				continue // returning a fresh local ends this function: later statements are not "after" it
			}
			w.expr(r)
		}

		return true
	case *ast.BranchStmt:
		return s.Tok != token.FALLTHROUGH
	case *ast.BlockStmt:
		return w.block(s.List)
	case *ast.IfStmt:
		w.stmt(s.Init)
		w.expr(s.Cond)
		saved := cloneLocks(w.held)
		w.inIf++
		t1 := w.block(s.Body.List)
		w.inIf--
		h1 := w.held
		w.held = cloneLocks(saved)
		t2 := false
		if s.Else != nil {
			t2 = w.stmt(s.Else)
		}
		h2 := w.held
		switch {
		case t1 && t2:
			w.held = saved

			return true
		case t1:
			w.held = h2
		case t2:
			w.held = h1
		default:
			w.held = intersect(h1, h2)
		}
	case *ast.ForStmt:
		w.stmt(s.Init)
		w.expr(s.Cond)
		saved := cloneLocks(w.held)
		w.inLoop++
		t := w.block(s.Body.List)
		w.stmt(s.Post)
		w.inLoop--
		if t {
			w.held = saved
		} else {
			w.held = intersect(saved, w.held)
		}
	case *ast.RangeStmt:
		w.expr(s.X)
		if s.Tok == token.ASSIGN {
			w.write(s.Key, false)
			w.write(s.Value, false)
		}
		saved := cloneLocks(w.held)
		w.inLoop++
		t := w.block(s.Body.List)
		w.inLoop--
		if t {
			w.held = saved
		} else {
			w.held = intersect(saved, w.held)
		}
	case *ast.SwitchStmt:
		w.stmt(s.Init)
		w.expr(s.Tag)
		w.clauses(s.Body.List)
	case *ast.TypeSwitchStmt:
		w.stmt(s.Init)
		w.stmt(s.Assign)
		w.clauses(s.Body.List)
	case *ast.SelectStmt:
		w.clauses(s.Body.List)
	case *ast.SendStmt:
		w.expr(s.Chan)
		w.expr(s.Value)
		w.sendRules(s)
	case *ast.LabeledStmt:
		return w.stmt(s.Stmt)
	case *ast.DeclStmt:
		if gd, ok := s.Decl.(*ast.GenDecl); ok {
			for _, sp := range gd.Specs {
				if vs, ok := sp.(*ast.ValueSpec); ok {
					for i, v := range vs.Values {
						w.expr(v)
						if i < len(vs.Names) && len(vs.Values) == len(vs.Names) {
							w.noteFresh(vs.Names[i], v)
							w.assignRules(vs.Names[i], v, false)
							w.noteGlobalAlias(vs.Names[i], v)
						}
					}
				}
			}
		}
	case *ast.EmptyStmt:
	default:
		w.sc.warnings = append(w.sc.warnings, fmt.Sprintf("%s: unhandled statement %T", w.sc.pos(s.Pos()), s))
	}

	return false
}

func (w *walker) clauses(list []ast.Stmt) {
	saved := cloneLocks(w.held)
	var outs [][]heldLock
	hasDefault := false
	isSelect := false
	for _, cl := range list {
		w.held = cloneLocks(saved)
		var body []ast.Stmt
		switch c := cl.(type) {
		case *ast.CaseClause:
			if c.List == nil {
				hasDefault = true
			}
			for _, e := range c.List {
				w.expr(e)
			}
			body = c.Body
		case *ast.CommClause:
			isSelect = true
			if c.Comm == nil {
				hasDefault = true
			}
			w.stmt(c.Comm)
			body = c.Body
		}
		if !w.block(body) {
			outs = append(outs, w.held)
		}
	}
	if !hasDefault && !isSelect {
		outs = append(outs, saved)
	}
	if len(outs) == 0 {
		w.held = saved

		return
	}
	res := outs[0]
	for _, o := range outs[1:] {
		res = intersect(res, o)
	}
	w.held = res
}

func mentions(w *walker, e ast.Expr, canon string) bool {
	found := false
	ast.Inspect(e, func(n ast.Node) bool {
		if s, ok := n.(*ast.SelectorExpr); ok && w.canon(s) == canon {
			found = true
		}

		return !found
	})

	return found
}

// noteFresh records that id now names an object allocated in this function.
func (w *walker) noteFresh(id *ast.Ident, rhs ast.Expr) {
	obj := w.info.Defs[id]
	if obj == nil {
		obj = w.info.Uses[id]
	}
	if obj == nil {
		return
	}
	fresh := false
	switch r := rhs.(type) {
	case *ast.UnaryExpr:
		if _, ok := r.X.(*ast.CompositeLit); ok && r.Op == token.AND {
			fresh = true
		}
	case *ast.CompositeLit:
		fresh = true
	case *ast.CallExpr:
		if id, ok := r.Fun.(*ast.Ident); ok && (id.Name == "new" || strings.HasPrefix(id.Name, "new") || strings.HasPrefix(id.Name, "New")) {
			fresh = true
		}
		if sel, ok := r.Fun.(*ast.SelectorExpr); ok && strings.HasPrefix(sel.Sel.Name, "New") {
			if _, isPkg := w.info.Uses[rootIdentOrNil(sel.X)].(*types.PkgName); isPkg {
				fresh = true
			}
		}
	}
	if fresh {
		if _, ok := w.fresh[obj]; !ok {
			w.fresh[obj] = 0
		}
	} else {
		delete(w.fresh, obj)
	}
}

func rootIdentOrNil(e ast.Expr) *ast.Ident {
	if id, ok := e.(*ast.Ident); ok {
		return id
	}

	return &ast.Ident{Name: "_"}
}

// escape marks a fresh local as published from here on.
func (w *walker) escape(id *ast.Ident) {
	obj := w.info.Uses[id]
	if obj == nil {
		return
	}
	if p, ok := w.fresh[obj]; ok && p == 0 {
		w.fresh[obj] = id.Pos()
	}
}

func (w *walker) isFresh(id *ast.Ident) bool {
	obj := w.info.Uses[id]
	if obj == nil {
		obj = w.info.Defs[id]
	}
	p, ok := w.fresh[obj]

	return ok && (p == 0 || id.Pos() < p)
}

// ---------------------------------------------------------------------------

func (w *walker) expr(e ast.Expr) {
	switch e := e.(type) {
	case nil:
	case *ast.Ident:
		w.escape(e)
		w.useIdent(e)
	case *ast.BasicLit:
	case *ast.SelectorExpr:
		sel := w.info.Selections[e]
		switch {
		case sel != nil && sel.Kind() == types.FieldVal:
			w.access(e, "read", "")
			w.base(e.X)
		case sel != nil:
			w.base(e.X)
			if sel.Kind() == types.MethodVal {
				w.methodValue(e, sel)
			}
		default:
			if v, pi := w.globalIdent(e); v != nil {
				w.globalAccess(v, pi, "read", "", e.Pos()) // otherpkg.Var
			}
		}
	case *ast.CallExpr:
		w.call(e)
	case *ast.FuncLit:
		w.lit(e, "stored")
	case *ast.UnaryExpr:
		if e.Op == token.AND {
			w.globalWrite(e.X, false, "address-taken")
			if s, ok := e.X.(*ast.SelectorExpr); ok {
				if sel := w.info.Selections[s]; sel != nil && sel.Kind() == types.FieldVal {
					if st, ok := sel.Obj().Type().Underlying().(*types.Struct); ok && st != nil {
						// address of an embedded struct value: accesses are seen where its fields are used
						w.base(s.X)

						return
					}
					w.access(s, "write", "address-taken")
					w.base(s.X)

					return
				}
			}
		}
		w.expr(e.X)
	case *ast.BinaryExpr:
		w.expr(e.X)
		w.expr(e.Y)
	case *ast.ParenExpr:
		w.expr(e.X)
	case *ast.StarExpr:
		w.expr(e.X)
	case *ast.IndexExpr:
		w.expr(e.X)
		w.expr(e.Index)
	case *ast.SliceExpr:
		w.expr(e.X)
		w.expr(e.Low)
		w.expr(e.High)
		w.expr(e.Max)
	case *ast.TypeAssertExpr:
		w.expr(e.X)
	case *ast.KeyValueExpr:
		w.expr(e.Value)
	case *ast.CompositeLit:
		w.composite(e)
	}
}

// base handles the operand of a selector: an identifier used as a base does not escape.
func (w *walker) base(x ast.Expr) {
	switch x := x.(type) {
	case *ast.Ident:
		w.useIdent(x)
	case *ast.ParenExpr:
		w.base(x.X)
	case *ast.StarExpr:
		w.base(x.X)
	case *ast.SelectorExpr:
		sel := w.info.Selections[x]
		if sel != nil && sel.Kind() == types.FieldVal {
			if _, ok := sel.Obj().Type().Underlying().(*types.Struct); ok {
				// value struct field: the access is to the inner field only
				w.base(x.X)

				return
			}
		}
		w.expr(x)
	default:
		w.expr(x)
	}
}

func (w *walker) composite(e *ast.CompositeLit) {
	si := w.sc.structOf(w.info.TypeOf(e))
	for _, el := range e.Elts {
		kv, ok := el.(*ast.KeyValueExpr)
		if !ok {
			w.expr(el)

			continue
		}
		w.expr(kv.Value)
		if si == nil {
			continue
		}
		if key, ok := kv.Key.(*ast.Ident); ok {
			for i := 0; i < si.st.NumFields(); i++ {
				f := si.st.Field(i)
				if f.Name() == key.Name && !isSyncType(f.Type()) {
					w.emit(si, f.Name(), "write", nil, "constructor", classSetup, nil, nil, "composite literal", key.Pos())
				}
			}
		}
	}
}

func (w *walker) write(l ast.Expr, rmw bool) {
	kind := "write"
	if rmw {
		kind = "rmw"
	}
	w.globalWrite(l, rmw, "")
	switch l := l.(type) {
	case nil:
	case *ast.Ident:
	case *ast.SelectorExpr:
		sel := w.info.Selections[l]
		if sel != nil && sel.Kind() == types.FieldVal {
			w.access(l, kind, "")
			w.base(l.X)

			return
		}
		w.expr(l)
	case *ast.IndexExpr:
		// element of a map / slice / array held in a field: a write to that field's contents
		w.expr(l.Index)
		w.write(l.X, rmw)
	case *ast.StarExpr:
		w.expr(l.X)
	case *ast.ParenExpr:
		w.write(l.X, rmw)
	default:
		w.expr(l)
	}
}

func (w *walker) lockName(x ast.Expr) (owner, name string, ok bool) {
	if o, n, isGlobal := w.globalLockName(x); isGlobal {
		return o, n, true
	}
	s, isSel := x.(*ast.SelectorExpr)
	if !isSel {
		return w.canon(x), "local." + w.canon(x), true
	}
	sel := w.info.Selections[s]
	if sel == nil || sel.Kind() != types.FieldVal {
		return "", "", false
	}
	fv := sel.Obj().(*types.Var)
	si := w.sc.fieldOwner[fv]
	if si == nil {
		return w.canon(s.X), "ext." + fv.Name(), true
	}

	return w.canon(s.X), si.name + "." + fv.Name(), true
}

func (w *walker) lockOp(call *ast.CallExpr, deferred bool) bool {
	fs, ok := call.Fun.(*ast.SelectorExpr)
	if !ok {
		return false
	}
	t := w.info.TypeOf(fs.X)
	if t == nil || !isMutexType(t) {
		return false
	}
	owner, name, ok := w.lockName(fs.X)
	if !ok {
		return false
	}
	switch fs.Sel.Name {
	case "Lock", "RLock":
		mode := byte('W')
		if fs.Sel.Name == "RLock" {
			mode = 'R'
		}
		for _, h := range w.held {
			k := h.name + "->" + name
			if _, ok := w.sc.edges[k]; !ok {
				w.sc.edges[k] = &edge{from: h.name, to: name, pos: w.sc.pos(call.Pos())}
			}
		}
		w.held = append(w.held, heldLock{owner, name, mode})
		w.noteAcquire(owner, name)
	case "Unlock", "RUnlock":
		if deferred {
			return true // held until the function returns
		}
		for i := len(w.held) - 1; i >= 0; i-- {
			if w.held[i].owner == owner && w.held[i].name == name {
				w.held = append(cloneLocks(w.held[:i]), w.held[i+1:]...)

				break
			}
		}
	}

	return true
}

func (w *walker) deferStmt(s *ast.DeferStmt) {
	if w.lockOp(s.Call, true) {
		return
	}
	if lit, ok := s.Call.Fun.(*ast.FuncLit); ok {
		for _, a := range s.Call.Args {
			w.expr(a)
		}
		w.lit(lit, "sync")

		return
	}
	w.rs().inDefer = true
	w.call(s.Call)
	w.rs().inDefer = false
}

func (w *walker) goStmt(s *ast.GoStmt) {
	w.goRules(s)
	id := w.sc.goIDs[s]
	sp := w.sc.spawns[id]
	single := w.c.class != classAny && !w.loopGo[s] && w.inLoop == 0
	nc := ctx{phase: "loop-goroutine", class: classAny, anns: w.c.anns}
	if single {
		sp.single = true
		nc.class = id
		nc.home = w.c.home
		if nc.home == "" && w.u.recvInfo != nil {
			nc.home = w.u.recvInfo.name
		}
		if nc.home == "" {
			nc.home = w.ctorHome()
		}
	} else {
		sp.multi = true
	}
	for _, a := range s.Call.Args {
		w.expr(a)
	}
	if lit, ok := s.Call.Fun.(*ast.FuncLit); ok {
		u := w.sc.litUnit(w.u, lit)
		w.sc.analyze(u, nc)

		return
	}
	w.callWith(s.Call, &nc)
}

// ctorHome: the type a constructor function builds (its first result).
func (w *walker) ctorHome() string {
	u := w.u
	for u.parent != nil {
		u = u.parent
	}
	if u.decl == nil || u.decl.Type.Results == nil {
		return ""
	}
	for _, r := range u.decl.Type.Results.List {
		if si := w.sc.structOf(w.info.TypeOf(r.Type)); si != nil {
			return si.name
		}
	}

	return ""
}

func (w *walker) returnedLitRole() string {
	u := w.u
	if u.decl == nil {
		return "stored"
	}
	if u.decl.Type.Results != nil && len(u.decl.Type.Results.List) == 1 {
		t := w.info.TypeOf(u.decl.Type.Results.List[0].Type)
		if n, ok := t.(*types.Named); ok {
			if a := w.sc.own.find("option-suffix", "Option", ""); a != nil && strings.HasSuffix(n.Obj().Name(), a.subject) {
				a.used++

				return "option"
			}
			if n.Obj().Pkg() != nil && n.Obj().Pkg().Path() == modulePath && strings.HasSuffix(n.Obj().Name(), "Func") {
				return "traffic"
			}
		}
	}

	return "stored"
}

func (w *walker) lit(lit *ast.FuncLit, role string) {
	u := w.sc.litUnit(w.u, lit)
	// a literal captures its free variables: fresh locals escape here
	ast.Inspect(lit.Body, func(n ast.Node) bool {
		if id, ok := n.(*ast.Ident); ok {
			if obj := w.info.Uses[id]; obj != nil {
				if p, ok := w.fresh[obj]; ok && p == 0 && role != "sync" && !w.ctorArg {
					w.fresh[obj] = lit.Pos()
				}
			}
		}

		return true
	})
	switch role {
	case "traffic":
		w.sc.analyze(u, ctx{phase: "traffic-closure", class: classAny})
	case "sync":
		c := w.c
		c.ctorRoot = w.c.ctorRoot
		c.inh = cloneLocks(w.held)
		w.sc.analyzeWithFresh(u, c, w.fresh)
	case "option":
		a := w.sc.own.find("option-suffix", "Option", "")
		w.sc.analyze(u, ctx{phase: "constructor", class: classSetup, anns: []int{a.idx}})
	default:
		w.sc.analyze(u, ctx{phase: "getter", class: classAny})
	}
}

func (sc *scanner) analyzeWithFresh(u *unit, c ctx, fresh map[types.Object]token.Pos) {
	k := fmt.Sprintf("%d|%s", u.id, c.key())
	if sc.done[k] {
		return
	}
	sc.done[k] = true
	w := &walker{sc: sc, u: u, c: c, info: u.pkg.info, fresh: map[types.Object]token.Pos{}}
	for o, p := range fresh {
		w.fresh[o] = p
	}
	w.held = append(w.held, c.inh...)
	w.collectGo(u.body, false)
	// a synchronous callback may run many times
	for _, g := range w.topGo {
		w.loopGo[g] = true
	}
	w.block(u.body.List)
}

// methodValue: x.m used as a value (callback). Whoever holds it may call it from any goroutine, so the
// method is analysed as an entry point without locks, unless an annotation ties it to one goroutine.
func (w *walker) methodValue(e *ast.SelectorExpr, sel *types.Selection) {
	fn, _ := sel.Obj().(*types.Func)
	if fn == nil {
		return
	}
	var targets []*unit
	if u, ok := w.sc.funcs[fn]; ok {
		targets = append(targets, u)
	} else if it, ok := w.info.TypeOf(e.X).Underlying().(*types.Interface); ok {
		targets = w.sc.implementers(it, fn.Name())
	}
	for _, t := range targets {
		c := ctx{phase: "getter", class: classAny}
		if w.c.class == classSetup && !w.c.ctorRoot {
			c = ctx{phase: w.c.phase, class: classSetup, anns: w.c.anns}
		}
		if a := w.sc.own.find("callback-on", t.name, "*"); a != nil {
			if id, ok := w.sc.spawnByUnit(a.by); ok {
				a.used++
				c = ctx{phase: "loop-goroutine", class: id, anns: []int{a.idx}}
				if t.recvInfo != nil {
					c.home = t.recvInfo.name
				}
			} else {
				w.sc.warnings = append(w.sc.warnings, "callback-on "+t.name+": no single go statement in "+a.by)
			}
		}
		w.sc.analyze(t, c)
	}
}

var trafficFuncTypes = map[string]bool{"RTPWriterFunc": true, "RTPReaderFunc": true, "RTCPWriterFunc": true, "RTCPReaderFunc": true}

func (w *walker) call(e *ast.CallExpr) { w.callWith(e, nil) }

// callWith handles a call; goCtx != nil means the callee runs in a new goroutine with that context.
func (w *walker) callWith(e *ast.CallExpr, goCtx *ctx) {
	// conversions
	if tv, ok := w.info.Types[e.Fun]; ok && tv.IsType() {
		if n, ok := tv.Type.(*types.Named); ok && n.Obj().Pkg() != nil && n.Obj().Pkg().Path() == modulePath &&
			trafficFuncTypes[n.Obj().Name()] && len(e.Args) == 1 {
			if lit, ok := e.Args[0].(*ast.FuncLit); ok {
				w.lit(lit, "traffic")

				return
			}
		}
		for _, a := range e.Args {
			w.expr(a)
		}

		return
	}
	// builtins
	if id, ok := e.Fun.(*ast.Ident); ok {
		if _, isB := w.info.Uses[id].(*types.Builtin); isB {
			switch id.Name {
			case "delete":
				w.write(e.Args[0], false)
				w.expr(e.Args[1])
			case "copy":
				w.write(e.Args[0], false)
				w.expr(e.Args[1])
			case "clear":
				w.write(e.Args[0], false)
				w.expr(e.Args[0])
			case "close":
				w.expr(e.Args[0])
				if s, ok := e.Args[0].(*ast.SelectorExpr); ok && w.inIf > 0 {
					if sel := w.info.Selections[s]; sel != nil && sel.Kind() == types.FieldVal {
						w.accessNamed(s, s.Sel.Name+"#closed", "rmw", "close(ch) must happen once: check-then-close needs mutual exclusion")
					}
				}
			default:
				for _, a := range e.Args {
					w.expr(a)
				}
			}

			return
		}
	}
	if goCtx == nil && w.lockOp(e, false) {
		return
	}
	fs, isSel := e.Fun.(*ast.SelectorExpr)
	// sync/atomic functions
	if isSel {
		if pid, ok := fs.X.(*ast.Ident); ok {
			if pn, ok := w.info.Uses[pid].(*types.PkgName); ok && pn.Imported().Path() == "sync/atomic" && len(e.Args) > 0 {
				kind := "armw"
				switch {
				case strings.HasPrefix(fs.Sel.Name, "Load"):
					kind = "aread"
				case strings.HasPrefix(fs.Sel.Name, "Store"):
					kind = "awrite"
				}
				if u, ok := e.Args[0].(*ast.UnaryExpr); ok && u.Op == token.AND {
					if v, pi, _ := w.globalRoot(u.X); v != nil {
						w.globalAccess(v, pi, kind, "sync/atomic", u.X.Pos())
						for _, a := range e.Args[1:] {
							w.expr(a)
						}

						return
					}
					if s, ok := u.X.(*ast.SelectorExpr); ok {
						if sel := w.info.Selections[s]; sel != nil && sel.Kind() == types.FieldVal {
							w.access(s, kind, "sync/atomic")
							w.base(s.X)
							if kind == "awrite" {
								w.atomicStoreRules(e)
							}
							for _, a := range e.Args[1:] {
								w.expr(a)
							}

							return
						}
					}
				}
			}
		}
	}
	// arguments (function literals passed to a call run synchronously, except time.AfterFunc)
	argLitRole := "stored"
	if isSel {
		switch fs.Sel.Name {
		case "Range", "Do", "Slice", "SliceStable", "Sort", "Walk", "Each", "ForEach":
			argLitRole = "sync" // iteration helpers call the literal before returning
		}
	}
	calleeName := ""
	switch f := e.Fun.(type) {
	case *ast.Ident:
		calleeName = f.Name
	case *ast.SelectorExpr:
		calleeName = f.Sel.Name
	}
	for _, a := range e.Args {
		if lit, ok := a.(*ast.FuncLit); ok {
			// a literal handed to a constructor is stored in the new, still unpublished object
			w.ctorArg = strings.HasPrefix(calleeName, "new") || strings.HasPrefix(calleeName, "New")
			w.lit(lit, argLitRole)
			w.ctorArg = false

			continue
		}
		if id, bare := a.(*ast.Ident); bare {
			w.useIdent(id)

			continue // passing a fresh local to a callee is not publication; static callees are followed
		}
		w.expr(a)
	}
	if isSel && goCtx == nil {
		w.callRules(e, fs)
	}
	// callee
	var callee *types.Func
	var recvExpr ast.Expr
	switch f := e.Fun.(type) {
	case *ast.Ident:
		callee, _ = w.info.Uses[f].(*types.Func)
		if callee == nil {
			w.expr(f) // call through a function value
			if goCtx == nil {
				w.noteForeignCall(e, "function-value")
			}
		}
	case *ast.SelectorExpr:
		if sel := w.info.Selections[f]; sel != nil {
			switch sel.Kind() {
			case types.MethodVal:
				callee, _ = sel.Obj().(*types.Func)
				recvExpr = f.X
			case types.FieldVal:
				w.expr(f) // func-typed field
				if goCtx == nil {
					w.noteForeignCall(e, "function-value")
				}

				return
			}
		} else {
			callee, _ = w.info.Uses[f.Sel].(*types.Func) // pkg.Func
		}
	case *ast.FuncLit:
		w.lit(f, "sync")

		return
	default:
		w.expr(e.Fun)
		if goCtx == nil {
			w.noteForeignCall(e, "function-value")
		}

		return
	}
	if callee == nil {
		return
	}
	var targets []*unit
	if u, ok := w.sc.funcs[callee]; ok {
		targets = append(targets, u)
	} else if recvExpr != nil {
		if it, ok := w.info.TypeOf(recvExpr).Underlying().(*types.Interface); ok && w.localIface(w.info.TypeOf(recvExpr)) {
			targets = w.sc.implementers(it, callee.Name())
		} else if goCtx == nil && w.foreignIface(w.info.TypeOf(recvExpr)) {
			w.noteForeignCall(e, "interface-method")
		}
	}
	if recvExpr != nil {
		w.recvAccess(recvExpr, callee, len(targets) > 0)
	}
	for _, t := range targets {
		nc := w.calleeCtx(t, recvExpr, e.Args)
		if goCtx != nil {
			nc = *goCtx
		}
		w.sc.analyze(t, nc)
	}
}

// recvAccess records what evaluating the receiver expression of a method call touches.
func (w *walker) recvAccess(x ast.Expr, callee *types.Func, tracked bool) {
	s, ok := x.(*ast.SelectorExpr)
	if v, pi := w.globalIdent(x); v != nil {
		// method called on a package-level variable
		kind := "read"
		if sig, _ := callee.Type().(*types.Signature); sig != nil && sig.Recv() != nil && !tracked {
			_, ptrRecv := sig.Recv().Type().(*types.Pointer)
			_, ptrVar := v.Type().Underlying().(*types.Pointer)
			if ptrRecv && !ptrVar {
				kind = "write" // pointer-receiver method on a value of a foreign type: may mutate it
			}
		}
		w.globalAccess(v, pi, kind, "method "+callee.Name()+" called on it", x.Pos())

		return
	}
	if !ok {
		if _, isId := x.(*ast.Ident); !isId {
			w.expr(x)
		}

		return
	}
	sel := w.info.Selections[s]
	if sel == nil || sel.Kind() != types.FieldVal {
		w.expr(x)

		return
	}
	ft := sel.Obj().Type()
	if isSyncType(ft) {
		w.base(s.X)

		return
	}
	switch ft.Underlying().(type) {
	case *types.Struct:
		if tracked {
			// value field of a tracked struct type: the callee's accesses are recorded with this base
			w.base(s.X)

			return
		}
		sig, _ := callee.Type().(*types.Signature)
		if sig != nil && sig.Recv() != nil {
			if _, ptr := sig.Recv().Type().(*types.Pointer); ptr {
				w.access(s, "write", "method with pointer receiver on a value of a foreign type")
				w.base(s.X)

				return
			}
		}
	}
	w.expr(x)
}

// localIface: class-hierarchy resolution is applied to interfaces declared in the scanned packages only;
// who implements interceptor.RTPWriter etc. further down the chain is outside this analysis.
func (w *walker) localIface(t types.Type) bool {
	n, ok := t.(*types.Named)
	if !ok {
		return true
	}

	return n.Obj().Pkg() != nil && isTarget(n.Obj().Pkg().Path())
}

func (sc *scanner) implementers(it *types.Interface, method string) []*unit {
	var out []*unit
	names := make([]*types.TypeName, 0, len(sc.structs))
	for tn := range sc.structs {
		names = append(names, tn)
	}
	sort.Slice(names, func(i, j int) bool { return sc.structs[names[i]].name < sc.structs[names[j]].name })
	for _, tn := range names {
		si := sc.structs[tn]
		for _, t := range []types.Type{si.named, types.NewPointer(si.named)} {
			if !types.Implements(t, it) {
				continue
			}
			obj, _, _ := types.LookupFieldOrMethod(t, true, si.pkg.tpkg, method)
			if fn, ok := obj.(*types.Func); ok {
				if u, ok := sc.funcs[fn]; ok {
					out = append(out, u)
				}
			}

			break
		}
	}

	return out
}

// calleeCtx derives the context of a callee from the call site: the locks held
// here are passed on, renamed to the callee's receiver / parameters where they
// belong to an argument.
func (w *walker) calleeCtx(t *unit, recvExpr ast.Expr, args []ast.Expr) ctx {
	nc := ctx{phase: w.c.phase, class: w.c.class, home: w.c.home, anns: w.c.anns}
	freshArg := false
	for _, a := range append([]ast.Expr{recvExpr}, args...) {
		if a == nil {
			continue
		}
		if id := rootIdent(a); id != nil && w.isFresh(id) {
			freshArg = true
		}
	}
	if recvExpr != nil {
		if id := rootIdent(recvExpr); id != nil && w.isFresh(id) {
			// method of an object this function has allocated and not yet published
			nc.class, nc.phase, nc.home = classSetup, "constructor", ""
		}
		if id := rootIdent(recvExpr); id != nil && w.isLocalVar(id) && w.valuePath(recvExpr) {
			nc.localRecv = true // receiver points into a struct value held in a local variable
		}
		if id, ok := recvExpr.(*ast.Ident); ok && w.c.localRecv && w.u.recv != nil && w.canon(id) == varCanon(w.u.recv) {
			nc.localRecv = true
		}
	}
	if w.c.ctorRoot && !freshArg && (recvExpr != nil || len(args) > 0) {
		// constructor body: the callee works on a fresh object only if one is passed
		nc.class = classAny
		nc.phase = "getter"
	}
	type ren struct{ from, to string }
	var rens []ren
	if recvExpr != nil && t.recv != nil {
		rens = append(rens, ren{w.canon(recvExpr), varCanon(t.recv)})
	}
	if sig := t.ftype; sig != nil && sig.Params != nil {
		i := 0
		for _, f := range sig.Params.List {
			for _, n := range f.Names {
				if i < len(args) {
					if obj, ok := t.pkg.info.Defs[n].(*types.Var); ok {
						rens = append(rens, ren{w.canon(args[i]), varCanon(obj)})
					}
				}
				i++
			}
			if len(f.Names) == 0 {
				i++
			}
		}
	}
	if id, ok := recvExpr.(*ast.Ident); ok && w.c.embOwner != "" && w.u.recv != nil && w.canon(id) == varCanon(w.u.recv) {
		nc.embOwner, nc.embPref = w.c.embOwner, w.c.embPref
	}
	if ix, ok := recvExpr.(*ast.IndexExpr); ok {
		if t2 := w.info.TypeOf(ix.X); t2 != nil {
			if _, isArr := t2.Underlying().(*types.Array); isArr {
				recvExpr = ix.X // element of an array VALUE: part of the same memory object
			}
		}
	}
	if rs, ok := recvExpr.(*ast.SelectorExpr); ok && t.recv != nil {
		if sel := w.info.Selections[rs]; sel != nil && sel.Kind() == types.FieldVal {
			ft := sel.Obj().Type().Underlying()
			if at, isArr := ft.(*types.Array); isArr {
				ft = at.Elem().Underlying()
			}
			_, isStruct := ft.(*types.Struct)
			if osi := w.sc.fieldOwner[sel.Obj().(*types.Var)]; osi != nil && !isStruct {
				if a := w.sc.own.find("private-field", osi.name+"."+rs.Sel.Name, ""); a != nil {
					a.used++
					nc.anns = append(append([]int{}, nc.anns...), a.idx)
					isStruct = true // the pointed-to object is private to the container (annotation)
				}
			}
			if isStruct {
				if osi := w.sc.fieldOwner[sel.Obj().(*types.Var)]; osi != nil {
					// receiver is a struct value inside rs.X: same memory object, the container's locks protect it
					nc.embOwner, nc.embPref = osi.name, rs.Sel.Name
					if w.c.embOwner != "" && w.u.recv != nil && w.canon(rs.X) == varCanon(w.u.recv) {
						nc.embOwner, nc.embPref = w.c.embOwner, w.c.embPref+"."+rs.Sel.Name
					}
					rens = append(rens, ren{w.canon(rs.X), varCanon(t.recv)})
				}
			}
		}
	}
	for _, h := range w.held {
		nh := heldLock{owner: "", name: h.name, mode: h.mode}
		if strings.HasPrefix(h.name, "global.") {
			nh.owner = h.owner // a package-level lock is the same lock in every function
		}
		for _, r := range rens {
			if h.owner == r.from {
				nh.owner = r.to
			} else if strings.HasPrefix(h.owner, r.from+".") {
				nh.owner = r.to + h.owner[len(r.from):]
			}
		}
		dup := false
		for i, o := range nc.inh {
			if o.owner == nh.owner && o.name == nh.name {
				dup = true
				if nh.mode == 'W' {
					nc.inh[i].mode = 'W'
				}
			}
		}
		if !dup {
			nc.inh = append(nc.inh, nh)
		}
	}
	sort.Slice(nc.inh, func(i, j int) bool {
		if nc.inh[i].name != nc.inh[j].name {
			return nc.inh[i].name < nc.inh[j].name
		}

		return nc.inh[i].owner < nc.inh[j].owner
	})

	return nc
}

// access records one field access.
func (w *walker) access(s *ast.SelectorExpr, kind, note string) {
	w.accessNamed(s, "", kind, note)
}

func (w *walker) accessNamed(s *ast.SelectorExpr, pseudo, kind, note string) {
	sel := w.info.Selections[s]
	fv := sel.Obj().(*types.Var)
	si := w.sc.fieldOwner[fv]
	if si == nil {
		return
	}
	if pseudo == "" && isSyncType(fv.Type()) {
		return
	}
	field := fv.Name()
	if pseudo != "" {
		field = pseudo
	}
	// structural containment: a field of a struct VALUE stored in a field of another tracked struct is
	// part of that object's memory; the row is attributed to the container (type, "outer.inner")
	baseExpr := ast.Expr(s.X)
	var relAnns []int
	for {
		be := ast.Unparen(baseExpr)
		if ix, ok := be.(*ast.IndexExpr); ok {
			if t2 := w.info.TypeOf(ix.X); t2 != nil {
				if _, isArr := t2.Underlying().(*types.Array); isArr {
					be = ast.Unparen(ix.X)
				}
			}
		}
		se, ok := be.(*ast.SelectorExpr)
		if !ok {
			break
		}
		sel2 := w.info.Selections[se]
		if sel2 == nil || sel2.Kind() != types.FieldVal {
			break
		}
		ft := sel2.Obj().Type().Underlying()
		if at, isArr := ft.(*types.Array); isArr {
			ft = at.Elem().Underlying()
		}
		_, isStruct := ft.(*types.Struct)
		if !isStruct {
			if osi := w.sc.fieldOwner[sel2.Obj().(*types.Var)]; osi != nil {
				if a := w.sc.own.find("private-field", osi.name+"."+se.Sel.Name, ""); a != nil {
					a.used++
					relAnns = append(relAnns, a.idx)
					isStruct = true
				}
			}
		}
		if !isStruct {
			break
		}
		osi := w.sc.fieldOwner[sel2.Obj().(*types.Var)]
		if osi == nil {
			break
		}
		si, field, baseExpr = osi, se.Sel.Name+"."+field, se.X
	}
	if w.c.embOwner != "" && w.u.recv != nil {
		if id, ok := ast.Unparen(baseExpr).(*ast.Ident); ok && w.canon(id) == varCanon(w.u.recv) {
			if osi := w.sc.byName[w.c.embOwner]; osi != nil {
				si, field = osi, w.c.embPref+"."+field
			}
		}
	}
	root := rootIdent(s.X)
	if w.c.localRecv && w.u.recv != nil && w.u.lit == nil {
		if id, ok := ast.Unparen(baseExpr).(*ast.Ident); ok && w.canon(id) == varCanon(w.u.recv) {
			w.sc.skippedLocal++

			return
		}
	}
	if root != nil && w.isLocalVar(root) && w.valuePath(s.X) && !sel.Indirect() {
		w.sc.skippedLocal++ // a struct value held in a local variable: thread-local copy

		return
	}
	phase, class := w.c.phase, w.c.class
	var anns []int
	anns = append(anns, w.c.anns...)
	anns = append(anns, relAnns...)
	freshBase := root != nil && w.isFresh(root)
	switch {
	case freshBase:
		phase, class = "constructor", classSetup
	case w.c.ctorRoot:
		phase, class = "getter", classAny
	}
	owners, oanns := w.sc.owners(si.name)
	if class >= 0 && si.name != w.c.home {
		ok := false
		for i, o := range owners {
			if o == w.c.home {
				ok = true
				for _, a := range oanns[:min(i+1, len(oanns))] {
					a.used++
					anns = append(anns, a.idx)
				}
			}
		}
		for i, o := range append([]string{si.name}, owners...) {
			if ok {
				break
			}
			if a := w.sc.own.find("goroutine-confined", o, ""); a != nil {
				ok = true
				a.used++
				anns = append(anns, a.idx)
				for _, pa := range oanns[:min(i, len(oanns))] {
					pa.used++
					anns = append(anns, pa.idx)
				}
			}
		}
		if !ok {
			class = classAny
		}
	}
	base := w.canon(baseExpr)
	var locks []rowLock
	for _, h := range w.held {
		own := false
		switch {
		case h.owner != "" && h.owner == base:
			own = true
		case h.owner != "" && (strings.HasPrefix(base, h.owner+".") || strings.HasPrefix(base, h.owner+"[")):
			own = !w.hasPtrHop(baseExpr, h.owner)
		}
		if !own {
			// a lock of an object this one is part of (ownership annotation)
			lt := h.name[:strings.LastIndex(h.name, ".")]
			found := false
			for i, o := range owners {
				if o == lt {
					found = true
					for _, a := range oanns[:min(i+1, len(oanns))] {
						a.used++
						anns = append(anns, a.idx)
					}
				}
			}
			if !found {
				continue
			}
		}
		locks = append(locks, rowLock{h.name, string(h.mode)})
	}
	if a := w.sc.own.find("virtual-lock", si.name, ""); a != nil && class != classSetup {
		a.used++
		anns = append(anns, a.idx)
		if p, rel := w.releasedBase(baseExpr); rel {
			// the annotation is honoured only between Retain/creation and Release (rules.go)
			class = classAny
			note = fmt.Sprintf("USE AFTER RELEASE: field access after Release() at line %d", w.sc.ld.fset.Position(p).Line)
		} else {
			m := "R"
			if kind == "write" || kind == "rmw" {
				m = "W"
			}
			locks = append(locks, rowLock{si.name + "#owner", m})
		}
	}
	var before []int
	if class >= 0 {
		for _, g := range w.topGo {
			if g.Pos() > s.Pos() && w.u.lit == nil {
				before = append(before, w.sc.goIDs[g])
			}
		}
	}
	w.emit(si, field, kind, locks, phase, class, before, anns, note, s.Pos())
}

func (w *walker) emit(si *structInfo, field, kind string, locks []rowLock, phase string, class int,
	before, anns []int, note string, pos token.Pos,
) {
	sort.Slice(locks, func(i, j int) bool { return locks[i].Name < locks[j].Name })
	// the same lock may be held twice on paper (inherited + local): keep the stronger
	var ls []rowLock
	for _, l := range locks {
		if n := len(ls); n > 0 && ls[n-1].Name == l.Name {
			if l.Mode == "W" {
				ls[n-1].Mode = "W"
			}

			continue
		}
		ls = append(ls, l)
	}
	sort.Ints(before)
	sort.Ints(anns)
	anns = uniqInts(anns)
	parts := strings.SplitN(si.name, ".", 2)
	r := &row{Pkg: parts[0], Type: parts[1], Field: field, Func: w.u.name, Kind: kind, Locks: ls, Phase: phase,
		Class: class, Before: before, Anns: anns, Note: note, Pos: w.sc.pos(pos), Count: 1}
	k := fmt.Sprintf("%s|%s|%s|%v|%s|%d|%v", r.loc(), r.Func, r.Kind, r.Locks, r.Phase, r.Class, r.Before)
	if old, ok := w.sc.rows[k]; ok {
		old.Count++
		if r.Pos < old.Pos {
			old.Pos = r.Pos
		}

		return
	}
	w.sc.rows[k] = r
}

func uniqInts(a []int) []int {
	var out []int
	for i, x := range a {
		if i == 0 || x != a[i-1] {
			out = append(out, x)
		}
	}

	return out
}
