package main

// Rule PACKAGE-LEVEL-STATE (round 5).
//
// The table's locations are fields of objects, and a mutex "protects" a field when it belongs to the same
// object (or to an object the accessed one is part of). A package-level variable belongs to no object: it
// is one memory location for every stream, every interceptor and every chain of the process. A mutex that
// is a field of a stream or of an interceptor exists once per stream / interceptor, so two goroutines that
// each hold "the" stream mutex hold two different mutexes - it excludes nothing on a global. Only a lock
// that is global too (a package-level sync.Mutex / RWMutex, or a mutex field reached from a package-level
// variable) is the same lock for everybody.
//
// For every function reachable from the entry points the walker therefore records reads and writes of
// package-level variables of the scanned packages as rows of pseudo-type "<pkg>.(package-level)":
//   - kind: read | write | rmw (assignment, op-assignment, ++/--, element / field of the variable's value,
//     delete, copy, clear, &v, pointer-receiver method on a value of a foreign type), also through a local
//     alias of a slice / map / pointer-typed global (`buf := scratch`, `buf := scratch[:n]`);
//   - locks: ONLY the held locks that are global themselves; per-object mutexes held at the access are
//     listed in the row's note, not in its lock set;
//   - class: any thread, in every phase (two constructors may run on two goroutines: the constructor
//     phase makes an OBJECT private, not a global); no happens-before facts.
// Variables of sync / sync/atomic types (sync.Pool, sync.Once, atomic.Uint32 ...) are synchronisation
// objects, not locations. Rows of variables that no reachable function writes (error values, constant
// tables) are dropped: read-only state cannot race.
//
// Limits (lexical, like the rest): writes through an alias that has been passed to a callee or stored in
// a field, and init-time-only writes (init functions are no entry points), are not seen.

import (
	"fmt"
	"go/ast"
	"go/token"
	"go/types"
	"strings"
)

const globalType = "(package-level)"

// pkgVarOf: the package-level variable of a scanned package that obj is, or nil.
func (sc *scanner) pkgVarOf(obj types.Object) (*types.Var, *pkgInfo) {
	v, ok := obj.(*types.Var)
	if !ok || v.IsField() || v.Pkg() == nil || v.Parent() != v.Pkg().Scope() {
		return nil, nil
	}
	pi := sc.ld.targets[v.Pkg().Path()]
	if pi == nil {
		return nil, nil
	}

	return v, pi
}

func (w *walker) identObj(id *ast.Ident) types.Object {
	if o := w.info.Uses[id]; o != nil {
		return o
	}

	return w.info.Defs[id]
}

// globalIdent: e is an identifier (or pkg.Name) denoting a package-level variable of a scanned package.
func (w *walker) globalIdent(e ast.Expr) (*types.Var, *pkgInfo) {
	switch x := ast.Unparen(e).(type) {
	case *ast.Ident:
		return w.sc.pkgVarOf(w.identObj(x))
	case *ast.SelectorExpr:
		if w.info.Selections[x] == nil { // qualified identifier
			return w.sc.pkgVarOf(w.info.Uses[x.Sel])
		}
	}

	return nil, nil
}

// globalRoot: e denotes storage that is part of (or directly reachable from) a package-level variable:
// the variable, a field of its struct value, an element of its array / slice / map, what it points to.
// alias != nil when the root is a local alias of the global.
func (w *walker) globalRoot(e ast.Expr) (v *types.Var, pi *pkgInfo, alias *ast.Ident) {
	for {
		e = ast.Unparen(e)
		if gv, gp := w.globalIdent(e); gv != nil {
			return gv, gp, nil
		}
		switch x := e.(type) {
		case *ast.Ident:
			if a := w.globalAlias[w.identObj(x)]; a != nil {
				return a.v, a.pi, x
			}

			return nil, nil, nil
		case *ast.SelectorExpr:
			sel := w.info.Selections[x]
			if sel == nil || sel.Kind() != types.FieldVal || sel.Indirect() {
				return nil, nil, nil
			}
			e = x.X
		case *ast.IndexExpr:
			e = x.X
		case *ast.SliceExpr:
			e = x.X
		case *ast.StarExpr:
			e = x.X
		default:
			return nil, nil, nil
		}
	}
}

type globalAliasInfo struct {
	v  *types.Var
	pi *pkgInfo
}

// noteGlobalAlias: `l := g`, `l = g[:n]`, `l := &g` make the local l another name for the memory of global g.
func (w *walker) noteGlobalAlias(lhs ast.Expr, rhs ast.Expr) {
	id, ok := ast.Unparen(lhs).(*ast.Ident)
	if !ok || id.Name == "_" {
		return
	}
	obj := w.identObj(id)
	if obj == nil {
		return
	}
	if v, _ := w.sc.pkgVarOf(obj); v != nil {
		return // a global on the left: handled as a write
	}
	delete(w.globalAlias, obj)
	r := ast.Unparen(rhs)
	addr := false
	if u, ok := r.(*ast.UnaryExpr); ok && u.Op == token.AND {
		r, addr = ast.Unparen(u.X), true
	}
	for {
		if s, ok := r.(*ast.SliceExpr); ok {
			r = ast.Unparen(s.X)

			continue
		}

		break
	}
	v, pi, via := w.globalRoot(r)
	if v == nil {
		return
	}
	if !addr {
		// a copy of a value is private; only reference types share the global's memory
		t := w.info.TypeOf(rhs)
		if t == nil {
			return
		}
		switch t.Underlying().(type) {
		case *types.Slice, *types.Map, *types.Pointer:
		default:
			return
		}
		_ = via
	}
	if w.globalAlias == nil {
		w.globalAlias = map[types.Object]*globalAliasInfo{}
	}
	w.globalAlias[obj] = &globalAliasInfo{v, pi}
}

func globalNote(held []heldLock, extra string) string {
	var other []string
	for _, h := range held {
		if !strings.HasPrefix(h.name, "global.") {
			other = append(other, h.name)
		}
	}
	n := "PACKAGE-LEVEL VARIABLE: one location for all streams and interceptors of the process"
	if len(other) > 0 {
		n += "; held here but per object, so no protection: " + strings.Join(other, ", ")
	}
	if extra != "" {
		n += "; " + extra
	}

	return n
}

// globalAccess emits the row of one access to a package-level variable.
func (w *walker) globalAccess(v *types.Var, pi *pkgInfo, kind, extra string, pos token.Pos) {
	if v == nil || isSyncType(v.Type()) {
		return
	}
	var locks []rowLock
	for _, h := range w.held {
		if strings.HasPrefix(h.name, "global.") {
			locks = append(locks, rowLock{h.name, string(h.mode)})
		}
	}
	w.emit(&structInfo{name: pi.name + "." + globalType}, v.Name(), kind, locks, w.c.phase, classAny, nil, nil,
		globalNote(w.held, extra), pos)
}

// globalRead is called for every identifier used as a value.
func (w *walker) globalRead(id *ast.Ident) {
	if v, pi := w.sc.pkgVarOf(w.identObj(id)); v != nil {
		w.globalAccess(v, pi, "read", "", id.Pos())
	}
}

// globalWrite is called for every assignment target / mutated operand; reports whether it was a global.
func (w *walker) globalWrite(l ast.Expr, rmw bool, how string) bool {
	if l == nil {
		return false
	}
	v, pi, alias := w.globalRoot(l)
	if v == nil {
		return false
	}
	if alias != nil {
		if id, bare := ast.Unparen(l).(*ast.Ident); bare && id == alias {
			return false // re-binding the local itself
		}
		how = strings.TrimSpace(how + fmt.Sprintf(" through the local alias %s", alias.Name))
	}
	kind := "write"
	if rmw {
		kind = "rmw"
	}
	w.globalAccess(v, pi, kind, how, l.Pos())

	return true
}

// globalLockName: a mutex that is (a field reached by value from) a package-level variable is the same
// mutex for every goroutine; its name carries the prefix "global." and its owner survives calls.
func (w *walker) globalLockName(x ast.Expr) (owner, name string, ok bool) {
	e := ast.Unparen(x)
	if u, isU := e.(*ast.UnaryExpr); isU && u.Op == token.AND {
		e = ast.Unparen(u.X)
	}
	path := ""
	for {
		if v, pi := w.globalIdent(e); v != nil {
			return w.canon(x), "global." + pi.name + "." + v.Name() + path, true
		}
		s, isSel := e.(*ast.SelectorExpr)
		if !isSel {
			return "", "", false
		}
		sel := w.info.Selections[s]
		if sel == nil || sel.Kind() != types.FieldVal {
			return "", "", false
		}
		path = "." + s.Sel.Name + path
		e = ast.Unparen(s.X)
	}
}

// dropReadOnlyGlobals removes the rows of package-level variables nobody writes.
func (sc *scanner) dropReadOnlyGlobals() {
	written := map[string]bool{}
	for _, r := range sc.rows {
		if r.Type == globalType && r.Kind != "read" && r.Kind != "aread" {
			written[r.loc()] = true
		}
	}
	for k, r := range sc.rows {
		if r.Type == globalType && !written[r.loc()] {
			delete(sc.rows, k)
		}
	}
}
