// Command lockscan re-extracts the lock/access table of the interceptor
// packages from the Go sources (property C10).
//
//	lockscan -repo /repo -out coq/Generated/AccessTable.v [-json table.json] [-own ownership.txt]
//
// For every struct type of the packages under pkg/ and internal/ it lists every
// access to a non-synchronisation field: where (function or closure), how
// (read | write | rmw | atomic read/write/rmw), which mutexes of the same object
// are held lexically (R/W), in which phase, by which class of thread, and which
// goroutine starts it is ordered before. The analysis is lexical and
// conservative: an access it cannot justify is printed without locks and with
// thread class "any", so that the Coq checker drf_ok rejects the table.
package main

import (
	"crypto/sha256"
	"encoding/hex"
	"encoding/json"
	"flag"
	"fmt"
	"hash/fnv"
	"os"
	"path/filepath"
	"sort"
	"strings"
)

type output struct {
	Repo        string            `json:"repo"`
	Rows        []*row            `json:"rows"`
	Locs        []string          `json:"locs"`
	LocCodes    map[string]int    `json:"loc_codes"`
	Locks       []string          `json:"locks"`
	Spawns      []spawnOut        `json:"spawns"`
	Annotations []annOut          `json:"annotations"`
	Edges       [][2]string       `json:"edges"`
	EdgePos     []string          `json:"edge_pos"`
	PkgHash     map[string]string `json:"pkg_hash"`
	Skipped     int               `json:"skipped_thread_local_values"`
	Warnings    []string          `json:"warnings"`
	CoqRows     []string          `json:"coq_rows"`
	Foreign     []*foreignSite    `json:"foreign_calls"` // calls that leave the scanned code while a mutex is held (reentry.go)
	Queries     []queryOut        `json:"public_getters"`
}

type spawnOut struct {
	ID     int    `json:"id"`
	Pos    string `json:"pos"`
	What   string `json:"what"`
	Single bool   `json:"single"`
	Multi  bool   `json:"multi"`
}

type annOut struct {
	Idx     int    `json:"idx"`
	Kind    string `json:"kind"`
	Subject string `json:"subject"`
	By      string `json:"by,omitempty"`
	Why     string `json:"why"`
	Used    int    `json:"used"`
}

func locCode(name string) int {
	h := fnv.New32a()
	_, _ = h.Write([]byte(name))

	return int(h.Sum32()%99991) + 1
}

func main() {
	repo := flag.String("repo", "", "repository to scan (default $VERIF_REPO or /repo)")
	out := flag.String("out", "", "Coq file to write (only rewritten when its content changes)")
	jsonOut := flag.String("json", "", "also write the table as JSON")
	ownPath := flag.String("own", "", "ownership annotations (default: ownership.txt next to the sources)")
	flag.Parse()
	if *repo == "" {
		*repo = os.Getenv("VERIF_REPO")
	}
	if *repo == "" {
		*repo = "/repo"
	}
	if *ownPath == "" {
		*ownPath = "ownership.txt"
		if _, err := os.Stat(*ownPath); err != nil {
			if exe, err2 := os.Executable(); err2 == nil {
				*ownPath = filepath.Join(filepath.Dir(exe), "ownership.txt")
			}
		}
	}
	own, err := loadOwnership(*ownPath)
	if err != nil {
		fmt.Fprintln(os.Stderr, "lockscan:", err)
		os.Exit(2)
	}
	ld, err := load(*repo)
	if err != nil {
		fmt.Fprintln(os.Stderr, "lockscan:", err)
		os.Exit(2)
	}
	sc := newScanner(ld, own)
	sc.roots()
	o := sc.result(*repo)
	coq := renderCoq(o)
	if *out != "" {
		old, _ := os.ReadFile(*out)
		if string(old) != coq {
			if err := os.MkdirAll(filepath.Dir(*out), 0o755); err != nil {
				fmt.Fprintln(os.Stderr, "lockscan:", err)
				os.Exit(2)
			}
			if err := os.WriteFile(*out, []byte(coq), 0o644); err != nil {
				fmt.Fprintln(os.Stderr, "lockscan:", err)
				os.Exit(2)
			}
			fmt.Fprintf(os.Stderr, "lockscan: %s rewritten (%d rows)\n", *out, len(o.Rows))
		} else {
			fmt.Fprintf(os.Stderr, "lockscan: %s unchanged (%d rows)\n", *out, len(o.Rows))
		}
	}
	if *jsonOut != "" {
		js, _ := json.MarshalIndent(o, "", " ")
		if err := os.WriteFile(*jsonOut, js, 0o644); err != nil {
			fmt.Fprintln(os.Stderr, "lockscan:", err)
			os.Exit(2)
		}
	}
	if *out == "" && *jsonOut == "" {
		fmt.Print(coq)
	}
	for _, a := range own.anns {
		if a.used == 0 {
			fmt.Fprintf(os.Stderr, "lockscan: warning: annotation %d (%s %s) is not used by any row\n", a.idx, a.kind, a.subject)
		}
	}
}

func (sc *scanner) result(repo string) *output {
	sc.dropReadOnlyGlobals()
	o := &output{Repo: repo, LocCodes: map[string]int{}, PkgHash: map[string]string{}, Skipped: sc.skippedLocal, Warnings: sc.warnings}
	for _, r := range sc.rows {
		o.Rows = append(o.Rows, r)
	}
	sort.Slice(o.Rows, func(i, j int) bool {
		a, b := o.Rows[i], o.Rows[j]
		if a.loc() != b.loc() {
			return a.loc() < b.loc()
		}
		if a.Func != b.Func {
			return a.Func < b.Func
		}
		if a.Kind != b.Kind {
			return a.Kind < b.Kind
		}
		if a.Class != b.Class {
			return a.Class < b.Class
		}

		return fmt.Sprint(a.Locks, a.Before, a.Phase) < fmt.Sprint(b.Locks, b.Before, b.Phase)
	})
	locs, locks := map[string]bool{}, map[string]bool{}
	for _, r := range o.Rows {
		locs[r.loc()] = true
		for _, l := range r.Locks {
			locks[l.Name] = true
		}
	}
	for _, e := range sc.edges {
		locks[e.from] = true
		locks[e.to] = true
	}
	o.Foreign = sc.foreignSites()
	o.Queries = sc.queries
	for _, f := range o.Foreign {
		for _, l := range append(append([]string{}, f.Held...), f.Pub...) {
			locks[l] = true
		}
	}
	for l := range locs {
		o.Locs = append(o.Locs, l)
	}
	sort.Strings(o.Locs)
	usedCodes := map[int]bool{}
	for _, l := range o.Locs {
		c := locCode(l)
		for usedCodes[c] {
			c = c%99991 + 1 // deterministic probing keeps codes distinct
		}
		usedCodes[c] = true
		o.LocCodes[l] = c
	}
	for l := range locks {
		o.Locks = append(o.Locks, l)
	}
	sort.Strings(o.Locks)
	for _, s := range sc.spawns {
		o.Spawns = append(o.Spawns, spawnOut{s.id, s.pos, s.what, s.single, s.multi})
	}
	for _, a := range sc.own.anns {
		o.Annotations = append(o.Annotations, annOut{a.idx, a.kind, a.subject, a.by, a.why, a.used})
	}
	keys := make([]string, 0, len(sc.edges))
	for k := range sc.edges {
		keys = append(keys, k)
	}
	sort.Strings(keys)
	for _, k := range keys {
		e := sc.edges[k]
		o.Edges = append(o.Edges, [2]string{e.from, e.to})
		o.EdgePos = append(o.EdgePos, e.pos)
	}
	locID, lockID := index(o.Locs), index(o.Locks)
	perPkg := map[string][]string{}
	for _, r := range o.Rows {
		c := coqRow(r, locID, lockID, o.LocCodes)
		o.CoqRows = append(o.CoqRows, c)
		perPkg[r.Pkg] = append(perPkg[r.Pkg], c)
	}
	for p, rs := range perPkg {
		h := sha256.Sum256([]byte(strings.Join(rs, "\n")))
		o.PkgHash[p] = hex.EncodeToString(h[:8])
	}

	return o
}

func index(xs []string) map[string]int {
	m := map[string]int{}
	for i, x := range xs {
		m[x] = i
	}

	return m
}

func coqStr(s string) string { return "\"" + strings.ReplaceAll(s, "\"", "\"\"") + "\"" }

func coqZList(xs []int) string {
	ss := make([]string, len(xs))
	for i, x := range xs {
		ss[i] = fmt.Sprint(x)
	}

	return "[" + strings.Join(ss, "; ") + "]"
}

var kindCoq = map[string]string{"read": "KRead", "write": "KWrite", "rmw": "KRmw", "aread": "KARead", "awrite": "KAWrite", "armw": "KARmw"}
var phaseCoq = map[string]string{"constructor": "PCtor", "bind": "PBind", "traffic-closure": "PTraffic", "loop-goroutine": "PLoop", "getter": "PGetter", "close": "PClose"}

func coqRow(r *row, locID, lockID map[string]int, codes map[string]int) string {
	ls := make([]string, len(r.Locks))
	for i, l := range r.Locks {
		ls[i] = fmt.Sprintf("(%d, L%s)", lockID[l.Name], l.Mode)
	}
	class := "CAny"
	switch {
	case r.Class == classSetup:
		class = "CSetup"
	case r.Class >= 0:
		class = fmt.Sprintf("(COne %d)", r.Class)
	}
	name := fmt.Sprintf("%s %s in %s (%s)", r.loc(), r.Kind, r.Func, r.Pos)
	if r.Note != "" {
		name += " [" + r.Note + "]"
	}

	return fmt.Sprintf("mkRow %d %d %s [%s] %s %s %s %s %s", locID[r.loc()], codes[r.loc()], kindCoq[r.Kind],
		strings.Join(ls, "; "), class, coqZList(r.Before), phaseCoq[r.Phase], coqZList(r.Anns), coqStr(name))
}

func renderCoq(o *output) string {
	var sb strings.Builder
	sb.WriteString("(* GENERATED by tools/lockscan from the Go sources on every run of the C10 check. Do not edit. *)\n")
	sb.WriteString("From Coq Require Import ZArith List String.\nFrom IV Require Import Model.LockTable.\nImport ListNotations.\nOpen Scope Z_scope.\nOpen Scope string_scope.\n\n")
	sb.WriteString("Definition loc_names : list (Z * string) := [\n")
	for i, l := range o.Locs {
		fmt.Fprintf(&sb, "  (%d, %s)%s\n", i, coqStr(l), sep(i, len(o.Locs)))
	}
	sb.WriteString("].\n\nDefinition lock_names : list (Z * string) := [\n")
	for i, l := range o.Locks {
		fmt.Fprintf(&sb, "  (%d, %s)%s\n", i, coqStr(l), sep(i, len(o.Locks)))
	}
	sb.WriteString("].\n\n(* singleton thread classes: a goroutine started once per object, or the single call of a called-once function *)\n")
	sb.WriteString("Definition class_names : list (Z * string) := [\n")
	for i, s := range o.Spawns {
		fmt.Fprintf(&sb, "  (%d, %s)%s\n", s.ID, coqStr(s.What+" ("+s.Pos+")"), sep(i, len(o.Spawns)))
	}
	sb.WriteString("].\n\n(* ownership annotations used (tools/lockscan/ownership.txt, trusted) *)\n")
	sb.WriteString("Definition annotations : list (Z * string) := [\n")
	for i, a := range o.Annotations {
		t := a.Kind + " " + a.Subject
		if a.By != "" {
			t += " by " + a.By
		}
		fmt.Fprintf(&sb, "  (%d, %s)%s\n", a.Idx, coqStr(t+" -- "+a.Why), sep(i, len(o.Annotations)))
	}
	sb.WriteString("].\n\nDefinition table : list row := [\n")
	for i, c := range o.CoqRows {
		fmt.Fprintf(&sb, "  %s%s\n", c, sep(i, len(o.CoqRows)))
	}
	sb.WriteString("].\n\n(* lock-order edges: (held, acquired) *)\nDefinition lock_edges : list (Z * Z) := [\n")
	lockID := index(o.Locks)
	for i, e := range o.Edges {
		fmt.Fprintf(&sb, "  (%d, %d)%s (* %s -> %s at %s *)\n", lockID[e[0]], lockID[e[1]], sep(i, len(o.Edges)), e[0], e[1], o.EdgePos[i])
	}
	sb.WriteString("].\n\n(* calls that leave the scanned code (user callbacks: function values; the next element of the chain:\n   interceptor.* interfaces) made while a mutex is held: (mutexes held at the call, mutexes the public methods\n   of the object - which that code may call - acquire).  See tools/lockscan/reentry.go, Properties/C10d.v. *)\n")
	for pass := 0; pass < 2; pass++ {
		var sites []*foreignSite
		for _, f := range o.Foreign {
			if (f.Pending != "") == (pass == 1) {
				sites = append(sites, f)
			}
		}
		if pass == 0 {
			sb.WriteString("Definition callback_sites : list (list Z * list Z) := [\n")
		} else {
			sb.WriteString("].\n\n(* sites under a pending-fix annotation (a filed finding whose repair awaits integration): reported by the\n   check as KNOWN-FINDING cases, not part of the obligation C10d_callback_sites_ok *)\n")
			sb.WriteString("Definition pending_callback_sites : list (list Z * list Z) := [\n")
		}
		for i, f := range sites {
			var hs, ps []int
			for _, l := range f.Held {
				hs = append(hs, lockID[l])
			}
			for _, l := range f.Pub {
				ps = append(ps, lockID[l])
			}
			fmt.Fprintf(&sb, "  (%s, %s)%s (* %s in %s at %s, holding %s *)\n", coqZList(hs), coqZList(ps), sep(i, len(sites)),
				f.What, f.Func, f.Pos, strings.Join(f.Held, ", "))
		}
	}
	sb.WriteString("].\n")

	return sb.String()
}

func sep(i, n int) string {
	if i+1 < n {
		return ";"
	}

	return ""
}
