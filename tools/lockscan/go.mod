module lockscan

go 1.24.0
