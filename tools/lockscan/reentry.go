package main

// Rule FOREIGN-CALL-UNDER-LOCK (round 4 of property C10).
//
// sync.Mutex / sync.RWMutex are not re-entrant. A call that leaves the scanned code while a
// mutex is held - a call through a function VALUE that the user supplied (a registered
// callback) or through a method of an interface of the interceptor API (interceptor.RTPWriter,
// RTCPWriter, RTPReader, RTCPReader ...: the next element of the chain, supplied by the user) -
// hands the thread, WITH the mutex, to code this analysis cannot see. That code is permitted to
// call the public getters of the object it was registered on ("an observer calling public
// getters" and "statistics queries" are part of the property's quantifier; a bitrate callback
// that reads GetStats() is the obvious use). If one of those getters acquires the mutex that is
// held at the call, the thread waits for itself: the callback never returns, the mutex is never
// released, and every later caller of a getter or of the traffic path blocks behind it.
//
// What is recorded. Every such call site with the mutexes held there (the walker's lock set,
// including locks inherited from static callers; `local.` / `ext.` locks are ignored).
//
// Which function values are user code (provenance, end of this file). A value is INTERNAL when
// everything that can flow into it is scanned or concrete code: function literals, method values,
// declared functions (time.Now), nil - directly, through a func-typed field all of whose assignments
// are internal, or through parameters of unexported functions all of whose call sites pass internal
// values. Everything else (a parameter of an exported function or method - also when captured by an
// option closure -, an exported func-typed field, what this one-pass analysis cannot follow) is
// FOREIGN. Values of the packages' own ...Option types are internal (annotation option-suffix).
//
// Which methods the foreign code may call (queryMethods): the "public getters" - exported methods
// of scanned struct types that, with everything they call statically, write no field outside the
// constructor phase, and that are not methods of the interceptor API itself (Bind* / Unbind* /
// Close / NewInterceptor / Write / Read of a type implementing an interface of the root package).
// Acq(M), the mutexes M may acquire, comes from a context-insensitive call graph (static callees,
// class-hierarchy resolution for interfaces declared in the scanned packages, synchronously run
// literals; go statements and returned / converted literals excluded). For a held mutex h the
// foreign code is taken to hold a handle on the type that owns h and on every type one of whose
// getters acquires h (the user's handle may be the outer object); pub(h) is the union of the Acq
// sets of the getters of those types.
//
// The site is printed as (held, pub) in Generated/AccessTable.v (`callback_sites`): in the lock-order
// machine the foreign code is the calling thread itself which, holding `held`, may request any lock
// of `pub`, i.e. the edges held x pub. Coq (Model/LockTable.v callbacks_ok) adds these edges to the
// recorded (held, acquired) edges and requires the graph to be acyclic; a mutex that is in both
// lists is a self-edge and is always rejected (Properties/C10d.v, Proofs/LockReentry.v).
//
// Annotations (tools/lockscan/ownership.txt, trusted): `supplier T.f` - the user-supplied value in
// field f only computes a result (clock, factory) and does not call back: the site is dropped;
// `pending-fix F:expr` - a filed finding whose repair awaits integration: the site is printed in
// `pending_callback_sites` (not part of the Coq obligation) and still reported as a case, under its
// own code, so that a `known:` line can name exactly it.
//
// Limits: setters are not counted among the methods a callback may call (only read-only getters);
// function values that travel through channels, maps of interfaces or other modules are treated as
// foreign only where they are called; an internal function value is not followed into its targets
// with the caller's lock set (method values are rooted as lock-free entry points, scan.go); calls
// into other modules through concrete types or through interfaces that are not part of the
// interceptor API (loggers, io.Writer) are not counted as foreign.

import (
	"fmt"
	"go/ast"
	"go/token"
	"go/types"
	"sort"
	"strings"
)

// foreignIfacePkgs: packages whose interfaces stand for user-supplied chain elements.
var foreignIfacePkgs = map[string]bool{modulePath: true}

type foreignSite struct {
	Pos     string   `json:"pos"`
	Func    string   `json:"func"`
	What    string   `json:"what"`              // the call expression
	Kind    string   `json:"kind"`              // function-value | interface-method
	Held    []string `json:"held"`              // mutexes held at the call (type-level names)
	Pub     []string `json:"pub"`               // mutexes the public methods reachable by the callee may acquire
	Reenter []string `json:"reenter,omitempty"` // held mutexes that are also in pub, with a method that takes them
	Code    int      `json:"code"`
	Why     string   `json:"why"`               // why the callee counts as user code
	Subject string   `json:"subject"`           // name under which ownership.txt can refer to the called value
	Pending string   `json:"pending,omitempty"` // pending-fix annotation: reported as a case, not part of the Coq obligation
	Anns    []int    `json:"anns,omitempty"`
}

// noteForeignCall records a call that leaves the scanned code, if a mutex is held.
func (w *walker) noteForeignCall(e *ast.CallExpr, kind string) {
	var held []string
	for _, h := range w.held {
		if strings.HasPrefix(h.name, "local.") || strings.HasPrefix(h.name, "ext.") {
			continue
		}
		held = append(held, h.name)
	}
	if len(held) == 0 {
		return
	}
	why := "method of " + types.TypeString(w.info.TypeOf(e.Fun), nil)
	subject := w.u.name + ":" + types.ExprString(e.Fun)
	if kind == "function-value" {
		if n, ok := w.info.TypeOf(e.Fun).(*types.Named); ok {
			if a := w.sc.own.find("option-suffix", "Option", ""); a != nil && strings.HasSuffix(n.Obj().Name(), a.subject) &&
				n.Obj().Pkg() != nil && isTarget(n.Obj().Pkg().Path()) {
				a.used++

				return // option values are the closures of the package's own option constructors (annotation)
			}
		}
		foreign, because := w.sc.prov().foreign(w.u.pkg, e.Fun, 0)
		if !foreign {
			return
		}
		why = because
		if s, ok := ast.Unparen(e.Fun).(*ast.SelectorExpr); ok {
			if sel := w.info.Selections[s]; sel != nil && sel.Kind() == types.FieldVal {
				if si := w.sc.fieldOwner[sel.Obj().(*types.Var)]; si != nil {
					subject = si.name + "." + s.Sel.Name
				}
			}
		}
	}
	if sel, ok := e.Fun.(*ast.SelectorExpr); ok && kind == "interface-method" {
		why = "method of " + types.TypeString(w.info.TypeOf(sel.X), func(p *types.Package) string { return p.Name() })
	}
	var anns []int
	if a := w.sc.own.find("supplier", subject, ""); a != nil {
		a.used++

		return // assumption: this function value only computes a result (clock, factory) and does not call back
	}
	pending := ""
	if a := w.sc.own.find("pending-fix", subject, ""); a != nil {
		a.used++
		anns = append(anns, a.idx)
		pending = a.why
	}
	sort.Strings(held)
	pos := w.sc.pos(e.Pos())
	fs := w.sc.foreign[pos]
	if fs == nil {
		fs = &foreignSite{Pos: pos, Func: w.u.name, What: types.ExprString(e.Fun), Kind: kind, Why: why, Subject: subject, Pending: pending, Anns: anns}
		w.sc.foreign[pos] = fs
	}
	for _, h := range held {
		dup := false
		for _, o := range fs.Held {
			dup = dup || o == h
		}
		if !dup {
			fs.Held = append(fs.Held, h)
		}
	}
	sort.Strings(fs.Held)
}

// foreignIface: is t an interface through which user-supplied code is called?
func (w *walker) foreignIface(t types.Type) bool {
	if t == nil {
		return false
	}
	if _, ok := t.Underlying().(*types.Interface); !ok {
		return false
	}
	n, ok := t.(*types.Named)
	if !ok {
		return false // anonymous interface: a type assertion on scanned objects (e.g. interface{ RemoveStream(uint32) })
	}
	if n.Obj().Pkg() == nil {
		return false // error
	}

	return foreignIfacePkgs[n.Obj().Pkg().Path()]
}

// ---------------------------------------------------------------------------
// what the exported methods acquire (context-insensitive)

type acqInfo struct {
	direct  map[*unit]map[string]bool
	callees map[*unit]map[*unit]bool
	acq     map[*unit]map[string]bool
}

func (sc *scanner) lockNameOf(info *types.Info, x ast.Expr) string {
	s, ok := x.(*ast.SelectorExpr)
	if !ok {
		return ""
	}
	sel := info.Selections[s]
	if sel == nil || sel.Kind() != types.FieldVal {
		return ""
	}
	fv, _ := sel.Obj().(*types.Var)
	si := sc.fieldOwner[fv]
	if si == nil {
		return ""
	}

	return si.name + "." + fv.Name()
}

func (sc *scanner) buildAcq() *acqInfo {
	a := &acqInfo{direct: map[*unit]map[string]bool{}, callees: map[*unit]map[*unit]bool{}, acq: map[*unit]map[string]bool{}}
	var decls []*unit
	for _, u := range sc.units {
		if u.decl != nil {
			decls = append(decls, u)
		}
	}
	for _, u := range decls {
		info := u.pkg.info
		a.direct[u], a.callees[u] = map[string]bool{}, map[*unit]bool{}
		var visit func(n ast.Node)
		visit = func(n ast.Node) {
			ast.Inspect(n, func(m ast.Node) bool {
				switch m := m.(type) {
				case *ast.GoStmt:
					for _, arg := range m.Call.Args {
						visit(arg)
					}

					return false // runs in another goroutine
				case *ast.ReturnStmt:
					for _, r := range m.Results {
						if _, isLit := r.(*ast.FuncLit); !isLit {
							visit(r)
						}
					}

					return false // a returned literal is not run by this call
				case *ast.CallExpr:
					if tv, ok := info.Types[m.Fun]; ok && tv.IsType() {
						for _, arg := range m.Args {
							if _, isLit := arg.(*ast.FuncLit); !isLit {
								visit(arg)
							}
						}

						return false // conversion of a literal to a traffic func type: stored, not run
					}
					fs, isSel := m.Fun.(*ast.SelectorExpr)
					if isSel {
						if t := info.TypeOf(fs.X); t != nil && isMutexType(t) && (fs.Sel.Name == "Lock" || fs.Sel.Name == "RLock") {
							if n := sc.lockNameOf(info, fs.X); n != "" {
								a.direct[u][n] = true
							}
						}
					}
					var callee *types.Func
					var recvT types.Type
					switch f := m.Fun.(type) {
					case *ast.Ident:
						callee, _ = info.Uses[f].(*types.Func)
					case *ast.SelectorExpr:
						if sel := info.Selections[f]; sel != nil {
							if sel.Kind() == types.MethodVal {
								callee, _ = sel.Obj().(*types.Func)
								recvT = info.TypeOf(f.X)
							}
						} else {
							callee, _ = info.Uses[f.Sel].(*types.Func)
						}
					}
					if callee != nil {
						if t, ok := sc.funcs[callee]; ok {
							a.callees[u][t] = true
						} else if recvT != nil {
							if it, ok := recvT.Underlying().(*types.Interface); ok {
								if n, named := recvT.(*types.Named); !named || (n.Obj().Pkg() != nil && isTarget(n.Obj().Pkg().Path())) {
									for _, t := range sc.implementers(it, callee.Name()) {
										a.callees[u][t] = true
									}
								}
							}
						}
					}
				}

				return true
			})
		}
		visit(u.body)
	}
	for _, u := range decls {
		a.acq[u] = map[string]bool{}
		for l := range a.direct[u] {
			a.acq[u][l] = true
		}
	}
	for changed := true; changed; {
		changed = false
		for _, u := range decls {
			for c := range a.callees[u] {
				for l := range a.acq[c] {
					if !a.acq[u][l] {
						a.acq[u][l] = true
						changed = true
					}
				}
			}
		}
	}

	return a
}

func lockType(lock string) string {
	if i := strings.LastIndex(lock, "."); i >= 0 {
		return lock[:i]
	}

	return lock
}

// queryMethods: the exported methods foreign code is taken to call back - the "public getters" / "statistics
// queries" of the property text: exported methods of scanned struct types that (with everything they call
// statically) write no field outside the constructor phase, and that are not methods of the interceptor API
// itself (Bind* / Unbind* / Close / NewInterceptor / Write / Read of a type implementing an interface of the root
// package: a callback re-binding or closing the interceptor it is called from is not a use the property permits).
func (sc *scanner) queryMethods(a *acqInfo) map[string][]*unit {
	writes := map[string]bool{}
	for _, r := range sc.rows {
		if r.Class == classSetup {
			continue
		}
		switch r.Kind {
		case "write", "rmw", "awrite", "armw":
			name := r.Func
			if i := strings.Index(name, "$"); i >= 0 {
				name = name[:i]
			}
			writes[name] = true
		}
	}
	memo := map[*unit]int{} // 1 = being visited / writes nothing so far, 2 = writes, 3 = writes nothing
	var mayWrite func(u *unit) bool
	mayWrite = func(u *unit) bool {
		switch memo[u] {
		case 1, 3:
			return false
		case 2:
			return true
		}
		memo[u] = 1
		res := writes[u.name]
		for c := range a.callees[u] {
			if mayWrite(c) {
				res = true
			}
		}
		if res {
			memo[u] = 2
		} else {
			memo[u] = 3
		}

		return res
	}
	var apiIfaces []*types.Interface
	if ip, err := sc.ld.gc.Import(modulePath); err == nil {
		for _, n := range ip.Scope().Names() {
			if tn, ok := ip.Scope().Lookup(n).(*types.TypeName); ok {
				if it, ok := tn.Type().Underlying().(*types.Interface); ok && it.NumMethods() > 0 {
					apiIfaces = append(apiIfaces, it)
				}
			}
		}
	}
	isAPI := func(u *unit) bool {
		name := u.decl.Name.Name
		if strings.HasPrefix(name, "Bind") || strings.HasPrefix(name, "Unbind") || name == "Close" || name == "NewInterceptor" {
			return true
		}
		for _, it := range apiIfaces {
			has := false
			for i := 0; i < it.NumMethods(); i++ {
				has = has || it.Method(i).Name() == name
			}
			if has && (types.Implements(u.recvInfo.named, it) || types.Implements(types.NewPointer(u.recvInfo.named), it)) {
				return true
			}
		}

		return false
	}
	out := map[string][]*unit{}
	for _, u := range sc.units {
		if u.decl == nil || u.recvInfo == nil || !ast.IsExported(u.decl.Name.Name) {
			continue
		}
		if sc.own.find("setup-setter", u.recvInfo.name+"."+u.decl.Name.Name, "") != nil {
			continue
		}
		if isAPI(u) || mayWrite(u) {
			continue
		}
		out[u.recvInfo.name] = append(out[u.recvInfo.name], u)
	}

	return out
}

// foreignSites completes the recorded sites with pub(h) and returns them sorted by position.
func (sc *scanner) foreignSites() []*foreignSite {
	if len(sc.foreign) == 0 {
		return nil
	}
	a := sc.buildAcq()
	pubMethods := sc.queryMethods(a)
	sc.queries = nil
	for _, ms := range pubMethods {
		for _, m := range ms {
			var ls []string
			for l := range a.acq[m] {
				ls = append(ls, l)
			}
			sort.Strings(ls)
			sc.queries = append(sc.queries, queryOut{Method: m.name, Acquires: ls})
		}
	}
	sort.Slice(sc.queries, func(i, j int) bool { return sc.queries[i].Method < sc.queries[j].Method })
	var out []*foreignSite
	for _, fs := range sc.foreign {
		pub := map[string]bool{}
		takes := map[string]string{}
		for _, h := range fs.Held {
			exposing := map[string]bool{lockType(h): true}
			for tn, ms := range pubMethods {
				for _, m := range ms {
					if a.acq[m][h] {
						exposing[tn] = true
					}
				}
			}
			for tn := range exposing {
				for _, m := range pubMethods[tn] {
					for l := range a.acq[m] {
						pub[l] = true
						if l == h && (takes[h] == "" || m.name < takes[h]) {
							takes[h] = m.name
						}
					}
				}
			}
		}
		fs.Pub = fs.Pub[:0]
		for l := range pub {
			fs.Pub = append(fs.Pub, l)
		}
		sort.Strings(fs.Pub)
		fs.Reenter = nil
		for _, h := range fs.Held {
			if pub[h] {
				fs.Reenter = append(fs.Reenter, fmt.Sprintf("%s (taken by the public getter %s)", h, takes[h]))
			}
		}
		fs.Code = locCode("foreign-call " + fs.Func + " " + fs.What)
		out = append(out, fs)
	}
	sort.Slice(out, func(i, j int) bool { return out[i].Pos < out[j].Pos })

	return out
}

type queryOut struct {
	Method   string   `json:"method"`
	Acquires []string `json:"acquires"`
}

var _ = token.NoPos

// ---------------------------------------------------------------------------
// provenance of function values: is the called value supplied through the exported API?
//
// A function value is INTERNAL when every value that can flow into it is scanned or concrete code: a function
// literal, a method value, a declared function (time.Now), nil - directly, through a func-typed field all of
// whose assignments are internal, or through a parameter of an unexported function all of whose call sites in the
// scanned packages pass internal values. Everything else (a parameter of an exported function or method - also
// when captured by an option closure -, an exported field of func type, values read from maps / slices filled
// from such parameters, anything this one-pass analysis cannot follow) is FOREIGN: user code.

type provenance struct {
	sc        *scanner
	paramOf   map[types.Object]*paramSite
	fieldRHS  map[*types.Var][]provRHS // func-typed (or slice/map of func) field -> assigned values
	callArgs  map[*types.Func][][]provRHS
	rangeOf   map[types.Object]provRHS // range value variable -> ranged expression
	localRHS  map[types.Object][]provRHS
	memoField map[*types.Var]int // 1 = in progress (assume internal), 2 = internal, 3 = foreign
	memoParam map[types.Object]int
}

type provRHS struct {
	pkg *pkgInfo
	e   ast.Expr
}

type paramSite struct {
	fn       *types.Func // nil for a literal
	exported bool
	index    int
	variadic bool
}

func (sc *scanner) prov() *provenance {
	if sc.provCache != nil {
		return sc.provCache
	}
	p := &provenance{sc: sc, paramOf: map[types.Object]*paramSite{}, fieldRHS: map[*types.Var][]provRHS{},
		callArgs: map[*types.Func][][]provRHS{}, rangeOf: map[types.Object]provRHS{}, localRHS: map[types.Object][]provRHS{},
		memoField: map[*types.Var]int{}, memoParam: map[types.Object]int{}}
	sc.provCache = p
	paths := make([]string, 0, len(sc.ld.targets))
	for path := range sc.ld.targets {
		paths = append(paths, path)
	}
	sort.Strings(paths)
	for _, path := range paths {
		pi := sc.ld.targets[path]
		info := pi.info
		fieldOfLHS := func(l ast.Expr) *types.Var {
			for {
				switch x := l.(type) {
				case *ast.IndexExpr:
					l = x.X
				case *ast.ParenExpr:
					l = x.X
				case *ast.SelectorExpr:
					if sel := info.Selections[x]; sel != nil && sel.Kind() == types.FieldVal {
						fv, _ := sel.Obj().(*types.Var)

						return fv
					}

					return nil
				default:
					return nil
				}
			}
		}
		for _, f := range pi.files {
			for _, d := range f.Decls {
				fd, ok := d.(*ast.FuncDecl)
				if !ok {
					continue
				}
				fn, _ := info.Defs[fd.Name].(*types.Func)
				idx := 0
				if fd.Type.Params != nil {
					for _, fl := range fd.Type.Params.List {
						_, variadic := fl.Type.(*ast.Ellipsis)
						for _, n := range fl.Names {
							if o := info.Defs[n]; o != nil {
								p.paramOf[o] = &paramSite{fn: fn, exported: ast.IsExported(fd.Name.Name), index: idx, variadic: variadic}
							}
							idx++
						}
						if len(fl.Names) == 0 {
							idx++
						}
					}
				}
			}
			ast.Inspect(f, func(n ast.Node) bool {
				switch s := n.(type) {
				case *ast.FuncLit:
					if s.Type.Params != nil {
						for _, fl := range s.Type.Params.List {
							for _, nm := range fl.Names {
								if o := info.Defs[nm]; o != nil {
									p.paramOf[o] = &paramSite{exported: true} // who calls a literal is not followed
								}
							}
						}
					}
				case *ast.AssignStmt:
					for i, l := range s.Lhs {
						var rhs ast.Expr
						switch {
						case len(s.Rhs) == len(s.Lhs):
							rhs = s.Rhs[i]
						case len(s.Rhs) == 1:
							rhs = s.Rhs[0]
						}
						if rhs == nil {
							continue
						}
						if fv := fieldOfLHS(l); fv != nil {
							p.fieldRHS[fv] = append(p.fieldRHS[fv], provRHS{pi, rhs})
						} else if id, ok := l.(*ast.Ident); ok {
							o := info.Defs[id]
							if o == nil {
								o = info.Uses[id]
							}
							if o != nil {
								p.localRHS[o] = append(p.localRHS[o], provRHS{pi, rhs})
							}
						}
					}
				case *ast.ValueSpec:
					for i, nm := range s.Names {
						if i < len(s.Values) && len(s.Values) == len(s.Names) {
							if o := info.Defs[nm]; o != nil {
								p.localRHS[o] = append(p.localRHS[o], provRHS{pi, s.Values[i]})
							}
						}
					}
				case *ast.RangeStmt:
					if id, ok := s.Value.(*ast.Ident); ok && s.Tok == token.DEFINE {
						if o := info.Defs[id]; o != nil {
							p.rangeOf[o] = provRHS{pi, s.X}
						}
					}
				case *ast.CompositeLit:
					si := sc.structOf(info.TypeOf(s))
					if si == nil {
						return true
					}
					for _, el := range s.Elts {
						kv, ok := el.(*ast.KeyValueExpr)
						if !ok {
							continue
						}
						key, ok := kv.Key.(*ast.Ident)
						if !ok {
							continue
						}
						for i := 0; i < si.st.NumFields(); i++ {
							if fv := si.st.Field(i); fv.Name() == key.Name {
								p.fieldRHS[fv] = append(p.fieldRHS[fv], provRHS{pi, kv.Value})
							}
						}
					}
				case *ast.CallExpr:
					var callee *types.Func
					switch fx := s.Fun.(type) {
					case *ast.Ident:
						callee, _ = info.Uses[fx].(*types.Func)
					case *ast.SelectorExpr:
						if sel := info.Selections[fx]; sel != nil {
							if sel.Kind() == types.MethodVal {
								callee, _ = sel.Obj().(*types.Func)
							}
						} else {
							callee, _ = info.Uses[fx.Sel].(*types.Func)
						}
					}
					if callee != nil {
						if _, scanned := sc.funcs[callee]; scanned {
							args := make([]provRHS, len(s.Args))
							for i, a := range s.Args {
								args[i] = provRHS{pi, a}
							}
							p.callArgs[callee] = append(p.callArgs[callee], args)
						}
					}
				}

				return true
			})
		}
	}

	return p
}

// foreign reports whether the function value e (evaluated in package pi) may be user code, and why.
func (p *provenance) foreign(pi *pkgInfo, e ast.Expr, depth int) (bool, string) {
	if depth > 12 {
		return true, "value not followed further"
	}
	info := pi.info
	switch x := e.(type) {
	case *ast.FuncLit:
		return false, ""
	case *ast.ParenExpr:
		return p.foreign(pi, x.X, depth+1)
	case *ast.CallExpr:
		if tv, ok := info.Types[x.Fun]; ok && tv.IsType() && len(x.Args) == 1 {
			return p.foreign(pi, x.Args[0], depth+1) // conversion
		}
		if id, ok := x.Fun.(*ast.Ident); ok && (id.Name == "make" || id.Name == "new") {
			if _, isB := info.Uses[id].(*types.Builtin); isB {
				return false, "" // an empty container
			}
		}
		if id, ok := x.Fun.(*ast.Ident); ok && id.Name == "append" {
			for _, a := range x.Args {
				if f, why := p.foreign(pi, a, depth+1); f {
					return true, why
				}
			}

			return false, ""
		}

		return true, "result of a call"
	case *ast.IndexExpr:
		return p.foreign(pi, x.X, depth+1)
	case *ast.Ident:
		if x.Name == "nil" {
			return false, ""
		}
		obj := info.Uses[x]
		if obj == nil {
			obj = info.Defs[x]
		}
		switch o := obj.(type) {
		case *types.Func:
			return false, ""
		case *types.Nil:
			return false, ""
		case *types.Var:
			if ps, ok := p.paramOf[o]; ok {
				return p.paramForeign(o, ps, depth)
			}
			if r, ok := p.rangeOf[o]; ok {
				return p.foreign(r.pkg, r.e, depth+1)
			}
			if rs, ok := p.localRHS[o]; ok && !o.IsField() && o.Parent() != o.Pkg().Scope() {
				for _, r := range rs {
					if f, why := p.foreign(r.pkg, r.e, depth+1); f {
						return true, why
					}
				}

				return false, ""
			}
		}

		return true, "variable " + x.Name + " is not followed"
	case *ast.SelectorExpr:
		sel := info.Selections[x]
		if sel == nil {
			if _, ok := info.Uses[x.Sel].(*types.Func); ok {
				return false, "" // pkg.Func
			}

			return true, "package-level variable " + types.ExprString(x)
		}
		switch sel.Kind() {
		case types.MethodVal:
			if _, isIface := info.TypeOf(x.X).Underlying().(*types.Interface); isIface {
				return true, "method value of an interface"
			}

			return false, ""
		case types.FieldVal:
			fv, _ := sel.Obj().(*types.Var)

			return p.fieldForeign(fv, depth)
		}
	}

	return true, "expression " + types.ExprString(e) + " is not followed"
}

func (p *provenance) fieldForeign(fv *types.Var, depth int) (bool, string) {
	si := p.sc.fieldOwner[fv]
	if si == nil {
		return true, "field of a type outside the scanned packages"
	}
	if fv.Exported() && si.named.Obj().Exported() {
		return true, "exported field " + si.name + "." + fv.Name() + " can be set by the user"
	}
	switch p.memoField[fv] {
	case 1, 2:
		return false, ""
	case 3:
		return true, "field " + si.name + "." + fv.Name() + " is assigned a user-supplied value"
	}
	p.memoField[fv] = 1
	for _, r := range p.fieldRHS[fv] {
		if f, why := p.foreign(r.pkg, r.e, depth+1); f {
			p.memoField[fv] = 3

			return true, "field " + si.name + "." + fv.Name() + ": " + why
		}
	}
	p.memoField[fv] = 2

	return false, ""
}

func (p *provenance) paramForeign(o types.Object, ps *paramSite, depth int) (bool, string) {
	if ps.fn == nil {
		return true, "parameter " + o.Name() + " of a function literal"
	}
	if ps.exported {
		return true, "parameter " + o.Name() + " of the exported " + ps.fn.Name()
	}
	switch p.memoParam[o] {
	case 1, 2:
		return false, ""
	case 3:
		return true, "parameter " + o.Name() + " of " + ps.fn.Name() + " receives a user-supplied value"
	}
	p.memoParam[o] = 1
	for _, args := range p.callArgs[ps.fn] {
		for i, a := range args {
			if i == ps.index || (ps.variadic && i > ps.index) {
				if f, why := p.foreign(a.pkg, a.e, depth+1); f {
					p.memoParam[o] = 3

					return true, "parameter " + o.Name() + " of " + ps.fn.Name() + ": " + why
				}
			}
		}
	}
	p.memoParam[o] = 2

	return false, ""
}
