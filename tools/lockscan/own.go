package main

import (
	"bufio"
	"fmt"
	"os"
	"strings"
)

// annotation is one line of ownership.txt (part of the trusted base).
type annotation struct {
	idx     int
	kind    string // called-once | goroutine-confined | confined | setup-setter | virtual-lock | option-suffix
	subject string
	by      string
	why     string
	used    int
}

type ownership struct {
	anns []*annotation
}

func loadOwnership(path string) (*ownership, error) {
	f, err := os.Open(path)
	if err != nil {
		return nil, err
	}
	defer f.Close()
	own := &ownership{}
	sc := bufio.NewScanner(f)
	ln := 0
	for sc.Scan() {
		ln++
		line := strings.TrimSpace(sc.Text())
		if line == "" || strings.HasPrefix(line, "#") {
			continue
		}
		parts := strings.SplitN(line, " -- ", 2)
		if len(parts) != 2 || strings.TrimSpace(parts[1]) == "" {
			return nil, fmt.Errorf("%s:%d: annotation without justification (want: kind subject [by lock] -- why)", path, ln)
		}
		fs := strings.Fields(parts[0])
		a := &annotation{idx: len(own.anns), why: strings.TrimSpace(parts[1])}
		switch {
		case len(fs) == 2:
			a.kind, a.subject = fs[0], fs[1]
		case len(fs) == 4 && (fs[2] == "by" || fs[2] == "of" || fs[2] == "on"):
			a.kind, a.subject, a.by = fs[0], fs[1], fs[3]
		default:
			return nil, fmt.Errorf("%s:%d: cannot parse %q", path, ln, parts[0])
		}
		switch a.kind {
		case "called-once", "goroutine-confined", "part-of", "private-field", "callback-on", "setup-setter", "virtual-lock", "option-suffix", "supplier", "pending-fix":
		default:
			return nil, fmt.Errorf("%s:%d: unknown annotation kind %q", path, ln, a.kind)
		}
		own.anns = append(own.anns, a)
	}

	return own, sc.Err()
}

func (o *ownership) find(kind, subject, by string) *annotation {
	for _, a := range o.anns {
		if a.kind != kind {
			continue
		}
		if a.subject != subject {
			if !(strings.HasPrefix(a.subject, "*.") && strings.HasSuffix(subject, a.subject[1:])) {
				continue
			}
		}
		if a.by != by && by != "*" {
			continue
		}

		return a
	}

	return nil
}
