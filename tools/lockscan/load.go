package main

import (
	"bytes"
	"encoding/json"
	"fmt"
	"go/ast"
	"go/importer"
	"go/parser"
	"go/token"
	"go/types"
	"io"
	"os"
	"os/exec"
	"path/filepath"
	"sort"
	"strings"
)

// listPkg is the part of `go list -json` we use.
type listPkg struct {
	ImportPath string
	Dir        string
	Export     string
	GoFiles    []string
	Standard   bool
}

// pkgInfo is one source-checked target package.
type pkgInfo struct {
	path  string // import path
	short string // path relative to the module, e.g. pkg/nack
	name  string // short name used in the table, e.g. nack, internal/cc -> icc
	files []*ast.File
	tpkg  *types.Package
	info  *types.Info
}

type loader struct {
	fset    *token.FileSet
	list    map[string]*listPkg
	targets map[string]*pkgInfo
	gc      types.Importer
	module  string
	busy    map[string]bool
}

const modulePath = "github.com/pion/interceptor"

// isTarget says which packages of the module are scanned.
func isTarget(path string) bool {
	if !strings.HasPrefix(path, modulePath+"/") {
		return false
	}
	rel := strings.TrimPrefix(path, modulePath+"/")
	if !(strings.HasPrefix(rel, "pkg/") || strings.HasPrefix(rel, "internal/")) {
		return false
	}
	switch rel {
	case "pkg/mock", "internal/test", "pkg/verifhooks":
		return false
	}

	return true
}

func shortName(rel string) string {
	base := filepath.Base(rel)
	if strings.HasPrefix(rel, "internal/") {
		return "i" + base // internal/cc -> icc (pkg/cc also exists)
	}
	if strings.HasPrefix(rel, "pkg/flexfec/") {
		return "flexfec_" + base
	}

	return base
}

func load(repo string) (*loader, error) {
	cmd := exec.Command("go", "list", "-export", "-deps", "-json=ImportPath,Dir,Export,GoFiles,Standard",
		"./pkg/...", "./internal/...")
	cmd.Dir = repo
	cmd.Env = append(os.Environ(), "GOFLAGS=-mod=mod", "GOPROXY=off")
	var stderr bytes.Buffer
	cmd.Stderr = &stderr
	out, err := cmd.Output()
	if err != nil {
		return nil, fmt.Errorf("go list failed: %v\n%s", err, stderr.String())
	}
	ld := &loader{fset: token.NewFileSet(), list: map[string]*listPkg{}, targets: map[string]*pkgInfo{}, busy: map[string]bool{}}
	dec := json.NewDecoder(bytes.NewReader(out))
	for {
		var p listPkg
		if err := dec.Decode(&p); err == io.EOF {
			break
		} else if err != nil {
			return nil, err
		}
		pp := p
		ld.list[p.ImportPath] = &pp
	}
	ld.gc = importer.ForCompiler(ld.fset, "gc", func(path string) (io.ReadCloser, error) {
		p, ok := ld.list[path]
		if !ok || p.Export == "" {
			return nil, fmt.Errorf("no export data for %s", path)
		}

		return os.Open(p.Export)
	})
	paths := []string{}
	for path := range ld.list {
		if isTarget(path) {
			paths = append(paths, path)
		}
	}
	sort.Strings(paths)
	for _, path := range paths {
		if _, err := ld.check(path); err != nil {
			return nil, err
		}
	}

	return ld, nil
}

// Import implements types.Importer: target packages are checked from source
// (shared object identity), everything else comes from export data.
func (ld *loader) Import(path string) (*types.Package, error) {
	if isTarget(path) {
		pi, err := ld.check(path)
		if err != nil {
			return nil, err
		}

		return pi.tpkg, nil
	}

	return ld.gc.Import(path)
}

func (ld *loader) check(path string) (*pkgInfo, error) {
	if pi, ok := ld.targets[path]; ok {
		return pi, nil
	}
	if ld.busy[path] {
		return nil, fmt.Errorf("import cycle at %s", path)
	}
	ld.busy[path] = true
	lp, ok := ld.list[path]
	if !ok {
		return nil, fmt.Errorf("package %s not listed", path)
	}
	rel := strings.TrimPrefix(path, modulePath+"/")
	pi := &pkgInfo{path: path, short: rel, name: shortName(rel)}
	for _, f := range lp.GoFiles {
		af, err := parser.ParseFile(ld.fset, filepath.Join(lp.Dir, f), nil, parser.SkipObjectResolution)
		if err != nil {
			return nil, err
		}
		pi.files = append(pi.files, af)
	}
	pi.info = &types.Info{
		Types:      map[ast.Expr]types.TypeAndValue{},
		Defs:       map[*ast.Ident]types.Object{},
		Uses:       map[*ast.Ident]types.Object{},
		Selections: map[*ast.SelectorExpr]*types.Selection{},
		Implicits:  map[ast.Node]types.Object{},
	}
	conf := types.Config{Importer: ld, Error: func(err error) {}}
	tp, err := conf.Check(path, ld.fset, pi.files, pi.info)
	if err != nil {
		return nil, fmt.Errorf("type-check %s: %v", path, err)
	}
	pi.tpkg = tp
	ld.targets[path] = pi

	return pi, nil
}
