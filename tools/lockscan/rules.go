package main

// Two lexical rules added in the deepening round of property C10. Both produce ordinary
// table rows; the Coq checker drf_ok needs no new clause (theorems about what the rows
// mean on the abstract machine: coq/Proofs/LockTableMore.v, coq/Properties/C10b.v).
//
// Rule SPLIT-RMW. Within one function, a value read from field X (also a whole-struct copy
// `v := *x.f`) inside a critical section of mutex M, carried in local variables (through any
// chain of local assignments / calls `v = g(v, ..)`), and written back to X inside a LATER,
// separate critical section of M with M released in between, is a read-modify-write that
// is not atomic: every single access is locked, yet updates made by other threads between
// the two sections are overwritten. The analyser emits one `rmw` row for X whose lock set
// is the set of locks held CONTINUOUSLY from the read to the write (so M is not in it).
// On the machine of LockTableMore.v a thread may drop and re-take any lock the active row
// does not name, which is exactly this behaviour; drf_ok accepts such a row only if some
// other lock / thread class makes it atomic. The same row is printed for an atomic Load* of
// X whose value reaches an atomic Store* to X (two atomic operations are not one: no data race,
// but increments are lost and sequence numbers are handed out twice).
//
// Rule USE-AFTER-RELEASE. For a type T under a `virtual-lock` annotation (reference-count
// protocol) the annotation is honoured only while the function owns a reference. After
// `p.Release()` (not deferred), a call of a method of T on p, a direct access to p's
// fields, or a use of a local variable that was assigned from such a call (p.Header(),
// p.Payload(), ...) is recorded as a read of the fields the accessor returns WITHOUT the
// virtual lock and with thread class `any`; it then conflicts with the write rows of the
// recycling path in Release and drf_ok rejects the table.
//
// Rule ESCAPING-CALLER-MEMORY. In a traffic closure (RTPWriterFunc / RTPReaderFunc / RTCPWriterFunc /
// RTCPReaderFunc literal) the pointer / slice / map parameters (header, payload, read buffer, packets,
// attributes) belong to the caller, who may overwrite them as soon as the call returns. A parameter (or a
// local alias / re-slice of it) that is sent on a channel, stored in a field / map / slice of a tracked
// struct, or captured by a go statement - directly or as an element of a composite literal, i.e. without a
// copy - outlives the call. The analyser prints a `write` row (the caller's next write: any thread, no
// lock the interceptor knows of) on the pseudo-location <Type>.<param>#caller-memory; it conflicts with
// itself and drf_ok rejects the table. Values that pass through a call (Clone, append([]byte{}, p...),
// helper methods) are not followed.
//
// Limits (lexical, one pass): values carried through struct fields, channels, closures or
// callee-internal critical sections are not tracked; a split across loop iterations (read at
// the end of one iteration, write at the start of the next) is not seen; branches are merged
// by "may" (a Release in one branch counts after the join).

import (
	"fmt"
	"go/ast"
	"go/token"
	"go/types"
	"sort"
	"strings"
)

// taint: the local variable holds a value computed from field `field` read at `pos`,
// when the locks in heldAt were held (lock key -> critical section number).
type taint struct {
	field  string // canonical expression of the field, e.g. r#123.latestStats
	pos    token.Pos
	heldAt map[string]int
	atomic bool // read by sync/atomic Load*
}

// derived: the local variable was assigned from an accessor of a virtual-lock object.
type derivedVal struct {
	recv     string // canonical expression of the object ("" once the variable naming it was reassigned)
	si       *structInfo
	fields   []string
	what     string    // e.g. p.Header()
	dangling token.Pos // position of the Release() after which the value is stale (0: still owned)
}

type ruleState struct {
	csSeq    map[string]int // lock key -> number of acquisitions seen
	curCS    map[string]int // lock key -> critical section number of the current acquisition
	taints   map[types.Object][]taint
	released map[string]token.Pos // canonical expression of a virtual-lock object -> position of Release()
	derived  map[types.Object]*derivedVal
	inDefer  bool
	params   map[types.Object]string // caller-owned pointer/slice/map parameters of a traffic closure (and aliases) -> parameter name
}

func (w *walker) rs() *ruleState {
	if w.rules == nil {
		w.rules = &ruleState{csSeq: map[string]int{}, curCS: map[string]int{}, taints: map[types.Object][]taint{},
			released: map[string]token.Pos{}, derived: map[types.Object]*derivedVal{}, params: map[types.Object]string{}}
		w.callerParams()
	}

	return w.rules
}

func lockKey(owner, name string) string { return owner + "|" + name }

// noteAcquire is called for every Lock / RLock.
func (w *walker) noteAcquire(owner, name string) {
	r := w.rs()
	k := lockKey(owner, name)
	r.csSeq[k]++
	r.curCS[k] = r.csSeq[k]
}

func (w *walker) heldSnapshot() map[string]int {
	r := w.rs()
	m := map[string]int{}
	for _, h := range w.held {
		m[lockKey(h.owner, h.name)] = r.curCS[lockKey(h.owner, h.name)] // 0 for locks inherited from the caller
	}

	return m
}

func (w *walker) objOf(id *ast.Ident) types.Object {
	if o := w.info.Defs[id]; o != nil {
		return o
	}

	return w.info.Uses[id]
}

// fieldSelectors lists the tracked (non-sync) field selectors read in e, not descending into function literals.
func (w *walker) fieldSelectors(e ast.Expr) []*ast.SelectorExpr {
	var out []*ast.SelectorExpr
	if e == nil {
		return nil
	}
	ast.Inspect(e, func(n ast.Node) bool {
		switch x := n.(type) {
		case *ast.FuncLit:
			return false
		case *ast.SelectorExpr:
			if sel := w.info.Selections[x]; sel != nil && sel.Kind() == types.FieldVal {
				if fv, ok := sel.Obj().(*types.Var); ok && w.sc.fieldOwner[fv] != nil && !isSyncType(fv.Type()) {
					out = append(out, x)
				}
			}
		}

		return true
	})

	return out
}

func (w *walker) identsIn(e ast.Expr) []*ast.Ident {
	var out []*ast.Ident
	if e == nil {
		return nil
	}
	ast.Inspect(e, func(n ast.Node) bool {
		switch x := n.(type) {
		case *ast.FuncLit:
			return false
		case *ast.SelectorExpr:
			// only the base can be a local variable
			ast.Inspect(x.X, func(m ast.Node) bool {
				if id, ok := m.(*ast.Ident); ok {
					out = append(out, id)
				}
				_, lit := m.(*ast.FuncLit)

				return !lit
			})

			return false
		case *ast.Ident:
			out = append(out, x)
		}

		return true
	})

	return out
}

// targetField: the field selector an assignment target writes to (x.f, *x.f, x.f[i], x.f.g for value structs ...).
func (w *walker) targetField(l ast.Expr) *ast.SelectorExpr {
	for {
		switch x := l.(type) {
		case *ast.ParenExpr:
			l = x.X
		case *ast.StarExpr:
			l = x.X
		case *ast.IndexExpr:
			l = x.X
		case *ast.SelectorExpr:
			if sel := w.info.Selections[x]; sel != nil && sel.Kind() == types.FieldVal {
				if fv, ok := sel.Obj().(*types.Var); ok && w.sc.fieldOwner[fv] != nil && !isSyncType(fv.Type()) {
					return x
				}
			}

			return nil
		default:
			return nil
		}
	}
}

// assignRules is called for `lhs[i] (=|:=|op=) rhs` after the ordinary processing of the statement.
// rhs may be shared by several lhs (multi-value call).
// keep: the old value of lhs is part of the new one (op-assignment).
func (w *walker) assignRules(lhs ast.Expr, rhs ast.Expr, keep bool) {
	r := w.rs()
	// 1. a tracked field is written: is the value derived from an earlier read of the same field in another critical section?
	if tf := w.targetField(lhs); tf != nil {
		w.checkSplit(tf, rhs, false)
		if pn := w.callerMem(rhs, true); pn != "" {
			w.emitEscape(pn, rhs.Pos(), "stored in "+types.ExprString(tf))
		}
	}
	id, ok := lhs.(*ast.Ident)
	if !ok || id.Name == "_" {
		return
	}
	obj := w.objOf(id)
	if obj == nil {
		return
	}
	// 2. taints of the local variable: field reads in rhs + taints of the locals rhs mentions
	var ts []taint
	if keep {
		ts = append(ts, r.taints[obj]...)
	}
	if len(w.held) > 0 {
		snap := w.heldSnapshot()
		for _, s := range w.fieldSelectors(rhs) {
			ts = append(ts, taint{field: w.canon(s), pos: s.Pos(), heldAt: snap})
		}
	}
	if call, ok := ast.Unparen(rhs).(*ast.CallExpr); ok {
		if s := w.atomicTarget(call, "Load"); s != nil {
			ts = append(ts, taint{field: w.canon(s), pos: s.Pos(), heldAt: w.heldSnapshot(), atomic: true})
		}
	}
	for _, u := range w.identsIn(rhs) {
		if uo := w.info.Uses[u]; uo != nil {
			ts = append(ts, r.taints[uo]...)
		}
	}
	if len(ts) > 16 {
		ts = ts[:16]
	}
	if len(ts) > 0 {
		r.taints[obj] = ts
	} else {
		delete(r.taints, obj)
	}
	if keep {
		return
	}
	// aliases of caller-owned parameters: v := payload, v := buf[:n]
	if pn := w.callerMem(rhs, false); pn != "" {
		r.params[obj] = pn
	} else {
		delete(r.params, obj)
	}
	// 3. use-after-release bookkeeping
	c := w.canon(id)
	delete(r.released, c) // the variable names another object from here on
	for _, d := range r.derived {
		if d.recv == c && d.dangling == 0 {
			d.recv = ""
		}
	}
	delete(r.derived, obj)
	if call, ok := ast.Unparen(rhs).(*ast.CallExpr); ok {
		if fs, ok := call.Fun.(*ast.SelectorExpr); ok {
			if si, fields := w.virtualAccessor(fs); si != nil && len(fields) > 0 {
				d := &derivedVal{recv: w.canon(fs.X), si: si, fields: fields, what: types.ExprString(call)}
				if p, rel := r.released[d.recv]; rel {
					d.dangling = p
				}
				r.derived[obj] = d
			}
		}
	}
	// copies of a derived value are derived values
	if rid, ok := ast.Unparen(rhs).(*ast.Ident); ok {
		if d := r.derived[w.info.Uses[rid]]; d != nil {
			cp := *d
			r.derived[obj] = &cp
		}
	}
}

// checkSplit reports a split read-modify-write of the field written through tf.
// atomicStore: the write is a sync/atomic Store* (then an atomic Load* of the same field is the split read).
func (w *walker) checkSplit(tf *ast.SelectorExpr, rhs ast.Expr, atomicStore bool) {
	r := w.rs()
	field := w.canon(tf)
	now := w.heldSnapshot()
	for _, u := range w.identsIn(rhs) {
		uo := w.info.Uses[u]
		if uo == nil {
			continue
		}
		for _, t := range r.taints[uo] {
			if t.field != field {
				continue
			}
			// a lock M held at the read and held now, but in a later critical section
			var split []string
			for k, cs := range t.heldAt {
				if cur, held := now[k]; held && cur != cs {
					split = append(split, k[strings.Index(k, "|")+1:])
				}
			}
			atomicSplit := t.atomic && atomicStore
			if len(split) == 0 && !atomicSplit {
				continue
			}
			sort.Strings(split)
			// the locks held continuously from the read to the write
			var cont []heldLock
			for _, h := range w.held {
				k := lockKey(h.owner, h.name)
				if cs, was := t.heldAt[k]; was && cs == now[k] {
					cont = append(cont, h)
				}
			}
			saved := w.held
			w.held = cont
			note := fmt.Sprintf("SPLIT READ-MODIFY-WRITE: read at line %d under %s, lock released, written back in a later critical section (via %s)",
				w.sc.ld.fset.Position(t.pos).Line, strings.Join(split, ","), u.Name)
			if len(split) == 0 {
				note = fmt.Sprintf("SPLIT READ-MODIFY-WRITE: atomic load at line %d, atomic store of a value derived from it (via %s): two atomic operations are not one",
					w.sc.ld.fset.Position(t.pos).Line, u.Name)
			}
			w.accessNamed(tf, "", "rmw", note)
			w.held = saved

			return
		}
	}
}

// virtualAccessor: fs is `x.M` where x is an object of a type under a virtual-lock annotation and M one of
// its methods other than Retain/Release; returns the type and the fields M reads.
func (w *walker) virtualAccessor(fs *ast.SelectorExpr) (*structInfo, []string) {
	sel := w.info.Selections[fs]
	if sel == nil || sel.Kind() != types.MethodVal {
		return nil, nil
	}
	si := w.sc.structOf(w.info.TypeOf(fs.X))
	if si == nil || w.sc.own.find("virtual-lock", si.name, "") == nil {
		return nil, nil
	}
	if fs.Sel.Name == "Retain" || fs.Sel.Name == "Release" {
		return si, nil
	}
	fn, _ := sel.Obj().(*types.Func)
	u := w.sc.funcs[fn]
	if u == nil {
		return si, nil
	}
	seen := map[string]bool{}
	var fields []string
	ast.Inspect(u.body, func(n ast.Node) bool {
		if s, ok := n.(*ast.SelectorExpr); ok {
			if sl := u.pkg.info.Selections[s]; sl != nil && sl.Kind() == types.FieldVal {
				if fv, ok := sl.Obj().(*types.Var); ok && w.sc.fieldOwner[fv] == si && !isSyncType(fv.Type()) && !seen[fv.Name()] {
					seen[fv.Name()] = true
					fields = append(fields, fv.Name())
				}
			}
		}

		return true
	})
	sort.Strings(fields)

	return si, fields
}

// callRules is called for every method call x.M(..) (not for go statements).
func (w *walker) callRules(e *ast.CallExpr, fs *ast.SelectorExpr) {
	si, fields := w.virtualAccessor(fs)
	if si == nil {
		return
	}
	r := w.rs()
	c := w.canon(fs.X)
	switch fs.Sel.Name {
	case "Release":
		if r.inDefer {
			return // runs when the function returns
		}
		r.released[c] = e.Pos()
		for _, d := range r.derived {
			if d.recv == c && d.dangling == 0 {
				d.dangling = e.Pos()
			}
		}
	case "Retain":
		delete(r.released, c)
	default:
		if p, rel := r.released[c]; rel {
			w.emitAfterRelease(si, fields, e.Pos(), fmt.Sprintf("USE AFTER RELEASE: %s called after Release() at line %d",
				types.ExprString(e), w.sc.ld.fset.Position(p).Line))
		}
	}
}

// useIdent is called for every use of a local variable as a value.
func (w *walker) useIdent(id *ast.Ident) {
	w.globalRead(id)
	if w.rules == nil {
		return
	}
	d := w.rules.derived[w.info.Uses[id]]
	if d == nil || d.dangling == 0 || id.Pos() < d.dangling {
		return
	}
	w.emitAfterRelease(d.si, d.fields, id.Pos(), fmt.Sprintf("USE AFTER RELEASE: %s = %s used after Release() at line %d",
		id.Name, d.what, w.sc.ld.fset.Position(d.dangling).Line))
}

// releasedBase: direct field access x.f on an object that has been released.
func (w *walker) releasedBase(base ast.Expr) (token.Pos, bool) {
	if w.rules == nil {
		return 0, false
	}
	p, ok := w.rules.released[w.canon(base)]

	return p, ok
}

func (w *walker) emitAfterRelease(si *structInfo, fields []string, pos token.Pos, note string) {
	var anns []int
	if a := w.sc.own.find("virtual-lock", si.name, ""); a != nil {
		a.used++
		anns = append(anns, a.idx)
	}
	for _, f := range fields {
		// no lock, any thread: holding no reference, the function has no claim on the object
		w.emit(si, f, "read", nil, w.c.phase, classAny, nil, anns, note, pos)
	}
}

// atomicTarget: call is sync/atomic.<prefix>*(&x.f, ..) on a tracked field; returns x.f.
func (w *walker) atomicTarget(call *ast.CallExpr, prefix string) *ast.SelectorExpr {
	fs, ok := call.Fun.(*ast.SelectorExpr)
	if !ok || len(call.Args) == 0 || !strings.HasPrefix(fs.Sel.Name, prefix) {
		return nil
	}
	pid, ok := fs.X.(*ast.Ident)
	if !ok {
		return nil
	}
	if pn, ok := w.info.Uses[pid].(*types.PkgName); !ok || pn.Imported().Path() != "sync/atomic" {
		return nil
	}
	u, ok := call.Args[0].(*ast.UnaryExpr)
	if !ok || u.Op != token.AND {
		return nil
	}

	return w.targetField(u.X)
}

// atomicStoreRules is called for sync/atomic.Store*(&x.f, v).
func (w *walker) atomicStoreRules(call *ast.CallExpr) {
	if s := w.atomicTarget(call, "Store"); s != nil && len(call.Args) > 1 {
		w.checkSplit(s, call.Args[1], true)
	}
}

// callerParams: the unit is a traffic closure analysed as such: its pointer / slice / map parameters are caller memory.
func (w *walker) callerParams() {
	if w.u.lit == nil || w.c.phase != "traffic-closure" || w.u.ftype == nil || w.u.ftype.Params == nil || len(w.c.inh) > 0 {
		return
	}
	for _, f := range w.u.ftype.Params.List {
		for _, n := range f.Names {
			obj := w.info.Defs[n]
			if obj == nil || n.Name == "_" {
				continue
			}
			switch obj.Type().Underlying().(type) {
			case *types.Pointer, *types.Slice, *types.Map:
				w.rules.params[obj] = n.Name
			}
		}
	}
}

// callerMem: does e denote caller memory without a copy? The parameter itself, an alias, a re-slice, its address-of
// / dereference-free forms, and (deep) an element of a composite literal or a non-variadic append argument.
func (w *walker) callerMem(e ast.Expr, deep bool) string {
	if w.rules == nil || len(w.rules.params) == 0 || e == nil {
		return ""
	}
	switch x := ast.Unparen(e).(type) {
	case *ast.Ident:
		return w.rules.params[w.info.Uses[x]]
	case *ast.SliceExpr:
		return w.callerMem(x.X, false)
	case *ast.UnaryExpr:
		if x.Op == token.AND && deep {
			return w.callerMem(x.X, deep)
		}
	case *ast.CompositeLit:
		if !deep {
			return ""
		}
		for _, el := range x.Elts {
			v := el
			if kv, ok := el.(*ast.KeyValueExpr); ok {
				v = kv.Value
			}
			if pn := w.callerMem(v, true); pn != "" {
				return pn
			}
		}
	case *ast.CallExpr:
		if id, ok := x.Fun.(*ast.Ident); ok && id.Name == "append" && deep && x.Ellipsis == token.NoPos {
			if _, isB := w.info.Uses[id].(*types.Builtin); isB {
				for _, a := range x.Args[1:] {
					if pn := w.callerMem(a, true); pn != "" {
						return pn
					}
				}
			}
		}
	}

	return ""
}

// sendRules is called for `ch <- v`.
func (w *walker) sendRules(s *ast.SendStmt) {
	w.rs()
	if pn := w.callerMem(s.Value, true); pn != "" {
		w.emitEscape(pn, s.Value.Pos(), "sent on channel "+types.ExprString(s.Chan))
	}
}

// goRules is called for a go statement: arguments and captured variables outlive the call.
func (w *walker) goRules(g *ast.GoStmt) {
	w.rs()
	if len(w.rules.params) == 0 {
		return
	}
	for _, a := range g.Call.Args {
		if pn := w.callerMem(a, true); pn != "" {
			w.emitEscape(pn, a.Pos(), "passed to a go statement")

			return
		}
	}
	if lit, ok := g.Call.Fun.(*ast.FuncLit); ok {
		ast.Inspect(lit.Body, func(n ast.Node) bool {
			if id, ok := n.(*ast.Ident); ok {
				if pn := w.rules.params[w.info.Uses[id]]; pn != "" {
					w.emitEscape(pn, id.Pos(), "captured by a go statement")

					return false
				}
			}

			return true
		})
	}
}

func (w *walker) emitEscape(param string, pos token.Pos, how string) {
	si := w.u.recvInfo
	if si == nil {
		return
	}
	w.emit(si, param+"#caller-memory", "write", nil, "traffic-closure", classAny, nil, nil,
		"ESCAPING CALLER MEMORY: parameter "+param+" "+how+" without a copy; the caller may overwrite it after the call returns", pos)
}
