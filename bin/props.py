"""Per-property configuration of bin/check: one JSON file per property in bin/props/."""
import glob
import json
import os

HERE = os.path.dirname(os.path.abspath(__file__))

COMMON_TB = [
    "Coq 8.16.1 kernel (coqc); vm_compute for evaluating the model on generated cases; no native_compute",
    "hand-written Gallina model tied to /repo by the correspondence check (Go harness built with -tags verif from the working tree; implementation outputs compared with the model and with the specification oracle inside Coq)",
    "Go harness + generators (harness/), Coq term printer (harness/internal/cq), result parser and classifier (bin/check)",
]

PROPS = {}
for f in sorted(glob.glob(os.path.join(HERE, "props", "C*.json"))):
    c = json.load(open(f))
    if not c.get("enabled", True):
        continue
    c["trusted_base"] = COMMON_TB + c.get("trusted_base", [])
    PROPS[os.path.basename(f)[:-5]] = c

# properties whose hooks/fixes are committed in /repo and whose check passed there (coordinator-maintained)
_ip = os.path.join(HERE, "integrated.txt")
INTEGRATED = [l.strip() for l in open(_ip)] if os.path.exists(_ip) else sorted(PROPS)
INTEGRATED = [p for p in INTEGRATED if p in PROPS]
