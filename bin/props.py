"""Per-property configuration of bin/check."""

COMMON_TB = [
    "Coq 8.16.1 kernel (coqc); vm_compute for evaluating the model on generated cases; no native_compute",
    "hand-written Gallina model tied to /repo by the correspondence check (Go harness built with -tags verif from the working tree; implementation outputs compared with the model and with the specification oracle inside Coq)",
    "Go harness + generators (harness/), Coq term printer (harness/internal/cq), result parser and classifier (bin/check)",
]

PROPS = {
    "C20": {
        "gen": "c20",
        "coq_targets": ["Properties/C20.v", "Check/C20Check.v"],
        "property_files": ["Properties/C20.v"],
        "trusted_base": COMMON_TB + [
            "NTP float kernels are executed with Coq primitive floats (hardware binary64) and compared bit-for-bit with Go; "
            "float-level claims (monotone, 1 us) are validated on sampled instants, not proved; the integer/bit layer is proved for every kernel",
            "int64 modelled as unbounded Z (no overflow below 2^47 wraps)",
        ],
        "assumptions": ["pkg/verifhooks (build tag verif) re-exports internal/sequencenumber and internal/ntp unchanged"],
        "explanation": "unwrapper: theorems for all input sequences; NTP: bit layer proved for all values and kernels, float layer validated",
    },
}
