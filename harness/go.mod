module verifharness

go 1.24.0

require github.com/pion/interceptor v0.0.0

replace github.com/pion/interceptor => /repo
