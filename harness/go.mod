module verifharness

go 1.24.0

require (
	github.com/pion/interceptor v0.0.0
	github.com/pion/logging v0.2.4
	github.com/pion/rtcp v1.2.17
	github.com/pion/rtp v1.10.5
)

require (
	github.com/pion/randutil v0.1.0 // indirect
	golang.org/x/time v0.14.0 // indirect
)

replace github.com/pion/interceptor => /repo
