// Command c10 is the generator of property C10 (data-race freedom).
//
//  1. runs tools/lockscan on the repository ($VERIF_REPO or /repo) and rewrites
//     coq/Generated/AccessTable.v when its content changed (bin/check's pre_cmd has
//     normally done this already, before the Coq build);
//  2. prints one case per struct type (the rows extracted for it) for the checker
//     table_failures, plus one case holding the lock-order edges for order_failures,
//     so the evidence shows what was covered and a broken table names the field;
//  3. builds cmd/c10race with -race against the same tree and runs the stress of the real
//     interceptors; a race report (or a stall) becomes an ImplFailure whose detail is the
//     report text: that is the concrete replay of a C10 violation.
//
// -replay re-runs the stress for the package named in the replay file.
package main

import (
	"bytes"
	"encoding/json"
	"fmt"
	"os"
	"os/exec"
	"path/filepath"
	"regexp"
	"sort"
	"strings"
	"time"

	"verifharness/internal/cq"
)

type rowLock struct {
	Name string `json:"name"`
	Mode string `json:"mode"`
}

type row struct {
	Pkg    string    `json:"pkg"`
	Type   string    `json:"type"`
	Field  string    `json:"field"`
	Func   string    `json:"func"`
	Kind   string    `json:"kind"`
	Locks  []rowLock `json:"locks"`
	Phase  string    `json:"phase"`
	Class  int       `json:"class"`
	Before []int     `json:"before"`
	Anns   []int     `json:"anns"`
	Note   string    `json:"note,omitempty"`
	Pos    string    `json:"pos"`
	Count  int       `json:"count"`
}

type annotation struct {
	Idx     int    `json:"idx"`
	Kind    string `json:"kind"`
	Subject string `json:"subject"`
	By      string `json:"by,omitempty"`
	Why     string `json:"why"`
	Used    int    `json:"used"`
}

type table struct {
	Repo        string            `json:"repo"`
	Rows        []row             `json:"rows"`
	Locs        []string          `json:"locs"`
	LocCodes    map[string]int    `json:"loc_codes"`
	Locks       []string          `json:"locks"`
	Annotations []annotation      `json:"annotations"`
	Edges       [][2]string       `json:"edges"`
	PkgHash     map[string]string `json:"pkg_hash"`
	Skipped     int               `json:"skipped_thread_local_values"`
	Warnings    []string          `json:"warnings"`
	CoqRows     []string          `json:"coq_rows"`
	Foreign     []foreignSite     `json:"foreign_calls"`
	Queries     []struct {
		Method   string   `json:"method"`
		Acquires []string `json:"acquires"`
	} `json:"public_getters"`
}

// foreignSite: a call that leaves the scanned code while a mutex is held (tools/lockscan/reentry.go).
type foreignSite struct {
	Pos     string   `json:"pos"`
	Func    string   `json:"func"`
	What    string   `json:"what"`
	Kind    string   `json:"kind"`
	Held    []string `json:"held"`
	Pub     []string `json:"pub"`
	Reenter []string `json:"reenter"`
	Code    int      `json:"code"`
	Why     string   `json:"why"`
	Subject string   `json:"subject"`
	Pending string   `json:"pending"`
}

func repoPath() string {
	if r := os.Getenv("VERIF_REPO"); r != "" {
		return r
	}

	return "/repo"
}

func run(dir string, timeout time.Duration, env []string, name string, args ...string) (string, error) {
	cmd := exec.Command(name, args...)
	cmd.Dir = dir
	cmd.Env = append(os.Environ(), env...)
	var out bytes.Buffer
	cmd.Stdout, cmd.Stderr = &out, &out
	if err := cmd.Start(); err != nil {
		return "", err
	}
	done := make(chan error, 1)
	go func() { done <- cmd.Wait() }()
	select {
	case err := <-done:
		return out.String(), err
	case <-time.After(timeout):
		_ = cmd.Process.Kill()
		<-done

		return out.String(), fmt.Errorf("timeout after %v", timeout)
	}
}

var nameRe = regexp.MustCompile(`"[^"]*"$`)

func main() {
	o := cq.ParseFlags()
	root, _ := filepath.Abs("..") // cwd is harness/
	repo := repoPath()
	outAbs, _ := filepath.Abs(o.Out)
	var fails []cq.ImplFailure
	extra := map[string]interface{}{"repo": repo}

	// 1. regenerate the table
	tjson := filepath.Join(outAbs, "table.json")
	log, err := run(filepath.Join(root, "tools", "lockscan"), 5*time.Minute, nil, "go", "run", ".",
		"-repo", repo, "-own", "ownership.txt", "-json", tjson, "-out", filepath.Join(root, "coq", "Generated", "AccessTable.v"))
	if err != nil {
		fmt.Fprintln(os.Stderr, "lockscan failed:", err, log)
		os.Exit(1)
	}
	extra["lockscan"] = strings.TrimSpace(log)
	var t table
	raw, err := os.ReadFile(tjson)
	if err != nil {
		panic(err)
	}
	if err := json.Unmarshal(raw, &t); err != nil {
		panic(err)
	}

	// 2. cases: one per struct type
	type group struct {
		rows []int
	}
	groups := map[string]*group{}
	var names []string
	for i, r := range t.Rows {
		k := r.Pkg + "." + r.Type
		if groups[k] == nil {
			groups[k] = &group{}
			names = append(names, k)
		}
		groups[k].rows = append(groups[k].rows, i)
	}
	sort.Strings(names)
	tset := &cq.Set{Name: "c10table", Import: "IV.Check.C10Check", CaseType: "tcase", Checks: []string{"table_failures"}}
	phases, kinds := map[string]int{}, map[string]int{}
	for id, n := range names {
		g := groups[n]
		var coq []string
		var js []map[string]interface{}
		b := map[string]bool{}
		nontrivial := false
		for _, i := range g.rows {
			r := t.Rows[i]
			// names are documentation: cases carry the empty string, the JSON carries the text
			coq = append(coq, nameRe.ReplaceAllString(t.CoqRows[i], "String.EmptyString"))
			locks := []string{}
			for _, l := range r.Locks {
				locks = append(locks, l.Name+":"+l.Mode)
			}
			js = append(js, map[string]interface{}{"field": r.Field, "code": t.LocCodes[r.Pkg+"."+r.Type+"."+r.Field],
				"func": r.Func, "kind": r.Kind, "locks": locks, "phase": r.Phase, "class": r.Class,
				"before": r.Before, "anns": r.Anns, "pos": r.Pos, "note": r.Note})
			b["phase:"+r.Phase] = true
			b["kind:"+r.Kind] = true
			phases[r.Phase] += r.Count
			kinds[r.Kind] += r.Count
			if len(r.Locks) > 0 {
				b["locked"] = true
			}
			if len(r.Anns) > 0 {
				b["uses-ownership-annotation"] = true
			}
			switch {
			case r.Class >= 0:
				b["class:singleton"] = true
			case r.Class == -2:
				b["class:setup"] = true
			default:
				b["class:any"] = true
			}
			if r.Class != -2 && r.Kind != "read" && r.Kind != "aread" {
				nontrivial = true
			}
		}
		var buckets []string
		for k := range b {
			buckets = append(buckets, k)
		}
		sort.Strings(buckets)
		tset.Cases = append(tset.Cases, cq.Case{
			Coq:     cq.T(cq.Z(int64(id)), cq.L(coq)),
			JSON:    map[string]interface{}{"type": n, "rows": js, "stress_pkg": strings.SplitN(n, ".", 2)[0]},
			Buckets: buckets, Trivial: !nontrivial,
		})
	}
	lockID := map[string]int{}
	for i, l := range t.Locks {
		lockID[l] = i
	}
	var es []string
	for _, e := range t.Edges {
		es = append(es, cq.T(cq.Z(int64(lockID[e[0]])), cq.Z(int64(lockID[e[1]]))))
	}
	oset := &cq.Set{Name: "c10order", Import: "IV.Check.C10Check", CaseType: "list (Z * Z)", Checks: []string{"order_failures"},
		Cases: []cq.Case{{Coq: cq.L(es), JSON: map[string]interface{}{"edges": t.Edges}, Buckets: []string{"lock-order"}}}}
	// calls to foreign code under a mutex: one case per site (fails with the site's code) + one case with all sites
	cset := &cq.Set{Name: "c10callback", Import: "IV.Check.C10Check", CaseType: "ccase", Checks: []string{"callback_failures"}}
	siteCoq := func(f foreignSite) string {
		var hs, ps []int64
		for _, l := range f.Held {
			hs = append(hs, int64(lockID[l]))
		}
		for _, l := range f.Pub {
			ps = append(ps, int64(lockID[l]))
		}

		return cq.T(cq.LZ(hs), cq.LZ(ps))
	}
	var allSites []string
	var allJS []foreignSite
	for _, f := range t.Foreign {
		b := []string{"foreign-call:" + f.Kind}
		if len(f.Pub) > 0 {
			b = append(b, "public-getters-take-a-lock")
		}
		if f.Pending != "" {
			b = append(b, "pending-fix")
		} else {
			allSites = append(allSites, siteCoq(f))
			allJS = append(allJS, f)
		}
		cset.Cases = append(cset.Cases, cq.Case{
			Coq: cq.T(cq.Z(int64(f.Code)), cq.T(cq.L(es), cq.L([]string{siteCoq(f)}))),
			JSON: map[string]interface{}{"site": f, "edges": t.Edges, "stress_pkg": strings.SplitN(f.Func, ".", 2)[0],
				"meaning": "the call `" + f.What + "` in " + f.Func + " (" + f.Pos + ") runs user code (" + f.Why + ") while " + strings.Join(f.Held, ", ") +
					" is held; that code may call the public getters, which acquire " + strings.Join(f.Pub, ", ") + "; re-entrant: " + strings.Join(f.Reenter, "; ")},
			Buckets: b, Trivial: len(f.Pub) == 0,
		})
	}
	cset.Cases = append(cset.Cases, cq.Case{
		Coq:     cq.T(cq.Z(1), cq.T(cq.L(es), cq.L(allSites))),
		JSON:    map[string]interface{}{"sites": allJS, "edges": t.Edges, "meaning": "recorded lock-order edges plus the edges held x pub of every site must be acyclic"},
		Buckets: []string{"all-sites"}, Trivial: len(allSites) == 0,
	})
	extra["foreign_calls_under_lock"] = t.Foreign
	extra["public_getters"] = t.Queries
	extra["rows"] = len(t.Rows)
	extra["locations"] = len(t.Locs)
	extra["struct_types"] = len(names)
	extra["locks"] = t.Locks
	extra["lock_order_edges"] = t.Edges
	extra["rows_by_phase"] = phases
	extra["rows_by_kind"] = kinds
	extra["thread_local_value_accesses_skipped"] = t.Skipped
	extra["ownership_annotations"] = t.Annotations
	extra["lockscan_warnings"] = t.Warnings

	// 3. -race stress of the real interceptors
	pkgs := ""
	if o.Replay != "" {
		var c struct {
			StressPkg string `json:"stress_pkg"`
			Pkgs      string `json:"pkgs"`
		}
		cq.LoadReplay(o.Replay, &c)
		pkgs = c.StressPkg
		if c.Pkgs != "" {
			pkgs = c.Pkgs
		}
	}
	per := 400 * time.Millisecond // x 16 interceptors: about 7 s of stress, 10-20 s with build
	if o.Tier == "thorough" {
		per = 6 * time.Second
	}
	if o.Replay != "" {
		per = 3 * time.Second
	}
	mod, err := os.ReadFile("go.mod")
	if err != nil {
		panic(err)
	}
	modfile := filepath.Join(outAbs, "c10race.mod")
	_ = os.WriteFile(modfile, []byte(strings.ReplaceAll(string(mod), "=> /repo", "=> "+repo)), 0o644)
	if sum, err := os.ReadFile(filepath.Join(repo, "go.sum")); err == nil {
		_ = os.WriteFile(filepath.Join(outAbs, "c10race.sum"), sum, 0o644)
	}
	exe := filepath.Join(outAbs, "c10race")
	blog, err := run(".", 10*time.Minute, nil, "go", "build", "-race", "-modfile="+modfile, "-tags", "verif", "-o", exe, "./cmd/c10race")
	if err != nil {
		fails = append(fails, cq.ImplFailure{Kind: "race-stress-does-not-build", Detail: blog,
			Case: map[string]interface{}{"pkgs": pkgs}})
	} else {
		t0 := time.Now()
		args := []string{"-d", per.String()}
		if o.Tier == "thorough" || o.Replay != "" {
			args = append(args, "-scale", "4")
		}
		if pkgs != "" {
			args = append(args, "-pkgs", pkgs)
		}
		slog, err := run(outAbs, 20*time.Minute, []string{"GORACE=halt_on_error=0"}, exe, args...)
		// packages whose table rows changed since the previous run get a longer, denser stress
		if changed := changedPkgs(root, repo, t.PkgHash); len(changed) > 0 && o.Replay == "" && err == nil {
			extra["focused_stress_pkgs"] = changed
			flog, ferr := run(outAbs, 20*time.Minute, []string{"GORACE=halt_on_error=0"}, exe,
				"-d", "3s", "-rtcp", "6", "-writers", "4", "-readers", "4", "-scale", "4", "-pkgs", strings.Join(changed, ","))
			slog += flog
			err = ferr
		}
		extra["race_stress_s"] = time.Since(t0).Seconds()
		extra["race_stress_per_interceptor"] = per.String()
		cur, races, stalls, begun := "", 0, 0, 0
		lostUpdates, uars, scen := 0, 0, 0
		interferences := 0
		reenters, reenterSeen := 0, map[string]bool{}
		var vacuous []string
		// findings of the conservation / use-after-release scenarios (cmd/c10race/conserve.go): one JSON object per line
		scenarioFinding := func(line, tag, kind string, seen *int) {
			*seen++
			if *seen > 3 {
				return
			}
			var v map[string]interface{}
			_ = json.Unmarshal([]byte(strings.TrimPrefix(line, tag+" ")), &v)
			detail := strings.TrimPrefix(line, tag+" ")
			if kind == "lost-update" && v != nil {
				detail = fmt.Sprintf("%v: %v = %v after the run, want %v (updates lost; no unsynchronised access is needed for this)\n%v",
					v["scenario"], v["counter"], v["got"], v["want"], v["detail"])
			}
			if kind == "stream-interference" && v != nil {
				detail = fmt.Sprintf("%v: %v\n%s", v["scenario"], v["what"], detail)
			}
			if kind == "use-after-release" && v != nil {
				detail = fmt.Sprintf("%v: %v\n%s", v["scenario"], v["what"], detail)
			}
			fails = append(fails, cq.ImplFailure{Kind: kind, Detail: detail,
				Case: map[string]interface{}{"interceptor": cur, "pkgs": pkgOf(cur), "finding": v,
					"how": "go build -race ./cmd/c10race; c10race -mode scenarios -scale 4 -pkgs <pkg>"}})
		}
		var block []string
		inRace := false
		flush := func() {
			if len(block) > 0 && len(fails) < 6 {
				fails = append(fails, cq.ImplFailure{Kind: "data-race", Detail: strings.Join(block, "\n"),
					Case: map[string]interface{}{"interceptor": cur, "pkgs": pkgOf(cur), "how": "go build -race ./cmd/c10race; c10race -pkgs <pkg>"}})
			}
			block = nil
		}
		for _, line := range strings.Split(slog, "\n") {
			switch {
			case strings.HasPrefix(line, "C10RACE-BEGIN "):
				cur = strings.TrimPrefix(line, "C10RACE-BEGIN ")
				if strings.Contains(cur, "/") {
					scen++
				} else {
					begun++
				}
			case strings.HasPrefix(line, "C10RACE-LOSTUPDATE "):
				scenarioFinding(line, "C10RACE-LOSTUPDATE", "lost-update", &lostUpdates)
			case strings.HasPrefix(line, "C10RACE-UAR "):
				scenarioFinding(line, "C10RACE-UAR", "use-after-release", &uars)
			case strings.HasPrefix(line, "C10RACE-ISOLATION "):
				// round 5: a stream's downstream packets depend on what OTHER streams / interceptors did in parallel
				scenarioFinding(line, "C10RACE-ISOLATION", "stream-interference", &interferences)
			case strings.HasPrefix(line, "C10RACE-REENTER "):
				// user code (callback / downstream writer / upstream reader) that called a public getter never returned
				var v map[string]interface{}
				_ = json.Unmarshal([]byte(strings.TrimPrefix(line, "C10RACE-REENTER ")), &v)
				reenters++
				cb := strings.NewReplacer(" ", "-", "/", "-").Replace(fmt.Sprint(v["callback"]))
				if !reenterSeen[cb] && len(reenterSeen) < 4 {
					reenterSeen[cb] = true
					fails = append(fails, cq.ImplFailure{Kind: "callback-deadlock." + cb,
						Detail: fmt.Sprintf("%v: %v (entered %v, returned %v)\n%v", v["scenario"], v["what"], v["entered"], v["returned"], v["stacks"]),
						Case: map[string]interface{}{"interceptor": cur, "pkgs": pkgOf(cur), "finding": v,
							"how": "go build -race ./cmd/c10race; c10race -mode scenarios -pkgs <pkg>"}})
				}
			case strings.HasPrefix(line, "C10RACE-INFO ") && strings.Contains(line, "never invoked"):
				vacuous = append(vacuous, strings.TrimPrefix(line, "C10RACE-INFO "))
			case strings.HasPrefix(line, "WARNING: DATA RACE"):
				races++
				inRace = true
				block = []string{line}
			case inRace && strings.HasPrefix(line, "=================="):
				inRace = false
				flush()
			case inRace:
				if len(block) < 60 {
					block = append(block, line)
				}
			case strings.HasPrefix(line, "C10RACE-ERROR "):
				stalls++
				i := strings.Index(slog, line)
				d := slog[i:]
				if len(d) > 6000 {
					d = d[:6000]
				}
				fails = append(fails, cq.ImplFailure{Kind: "stall", Detail: d,
					Case: map[string]interface{}{"interceptor": cur, "pkgs": pkgOf(cur)}})
			}
		}
		extra["race_reports"] = races
		extra["stalls"] = stalls
		extra["interceptors_stressed"] = begun
		extra["conservation_and_release_scenarios_run"] = scen
		extra["lost_update_findings"] = lostUpdates
		extra["use_after_release_findings"] = uars
		extra["stream_interference_findings"] = interferences
		extra["callback_deadlock_findings"] = reenters
		extra["reenter_scenarios_vacuous_for"] = vacuous
		if err != nil && races == 0 && stalls == 0 {
			tail := slog
			if len(tail) > 4000 {
				tail = tail[len(tail)-4000:]
			}
			fails = append(fails, cq.ImplFailure{Kind: "stress-crash", Detail: fmt.Sprintf("%v\n%s", err, tail),
				Case: map[string]interface{}{"interceptor": cur, "pkgs": pkgOf(cur)}})
		}
	}
	cq.Write(o, "a struct type counts as non-trivial when some row outside the constructor phase writes one of its fields",
		[]*cq.Set{tset, oset, cset}, extra, fails)
}

// stressPkg maps a package name of the table to the package name c10race knows.
var stressPkg = map[string]string{"icc": "gcc", "cc": "gcc", "irtpbuffer": "nack", "flexfec_util": "flexfec",
	"isequencenumber": "twcc", "intp": "report"}

// changedPkgs compares the per-package hashes of the table rows with those of the previous run on the same tree.
func changedPkgs(root, repo string, cur map[string]string) []string {
	f := filepath.Join(root, "run", "c10-pkghash-"+strings.NewReplacer("/", "_").Replace(repo)+".json")
	prev := map[string]string{}
	if raw, err := os.ReadFile(f); err == nil {
		_ = json.Unmarshal(raw, &prev)
	}
	if js, err := json.Marshal(cur); err == nil {
		_ = os.WriteFile(f, js, 0o644)
	}
	if len(prev) == 0 {
		return nil
	}
	set := map[string]bool{}
	for p, h := range cur {
		if prev[p] != h {
			if m, ok := stressPkg[p]; ok {
				p = m
			}
			set[p] = true
		}
	}
	var out []string
	for p := range set {
		out = append(out, p)
	}
	sort.Strings(out)
	if len(out) > 4 {
		out = out[:4]
	}

	return out
}

func pkgOf(name string) string {
	if i := strings.Index(name, "/"); i >= 0 {
		name = name[i+1:] // scenario names: conserve/<interceptor>, uar/<interceptor>
	}
	p := strings.SplitN(name, ".", 2)[0]
	if p == "cc+gcc" {
		return "gcc"
	}

	return p
}
