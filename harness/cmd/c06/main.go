// Generator for C06: receiver reports (pkg/report receiverStream through the
// verif hook, ReceiverInterceptor through the public API with an injected
// clock; the interceptor's real 1 ms ticker is gated through the clock).
package main

import (
	"fmt"
	"math/rand"
	"runtime"
	"sort"
	"strconv"
	"strings"
	"sync/atomic"
	"time"

	"github.com/pion/interceptor"
	"github.com/pion/interceptor/pkg/report"
	"github.com/pion/rtcp"
	"github.com/pion/rtp"

	"verifharness/internal/cq"
)

// ---- core set ----

type coreOp struct {
	K   string `json:"k"` // rtp | sr | rep
	Now int64  `json:"now"`
	Seq uint16 `json:"seq,omitempty"`
	TS  uint32 `json:"ts,omitempty"`
	NTP uint64 `json:"ntp,omitempty"`
	// implementation outputs (rep)
	Ext    uint32 `json:"ext,omitempty"`
	LSR    uint32 `json:"lsr,omitempty"`
	Frac   uint8  `json:"frac,omitempty"`
	Total  uint32 `json:"total,omitempty"`
	Delay  uint32 `json:"delay,omitempty"`
	Jitter uint32 `json:"jitter,omitempty"`
}

type coreCase struct {
	Rate   uint32   `json:"rate"`
	Total0 uint32   `json:"total0,omitempty"` // PresetTotalLost before the first op
	Ops    []coreOp `json:"ops"`
}

func runCore(c *coreCase) {
	s := report.NewVerifReceiverStream(0x1234, c.Rate)
	if c.Total0 != 0 {
		s.PresetTotalLost(c.Total0)
	}
	for i := range c.Ops {
		op := &c.Ops[i]
		switch op.K {
		case "rtp":
			s.ProcessRTP(time.Unix(0, op.Now), &rtp.Header{SequenceNumber: op.Seq, Timestamp: op.TS})
		case "sr":
			s.ProcessSenderReport(time.Unix(0, op.Now), &rtcp.SenderReport{SSRC: 0x1234, NTPTime: op.NTP})
		case "rep":
			rr := s.GenerateReport(time.Unix(0, op.Now))
			rp := rr.Reports[0]
			op.Ext, op.LSR, op.Frac, op.Total, op.Delay, op.Jitter = rp.LastSequenceNumber, rp.LastSenderReport,
				rp.FractionLost, rp.TotalLost, rp.Delay, rp.Jitter
		}
	}
}

func coqRep(ext, lsr uint32, frac uint8, total, delay, jitter uint32) []string {
	return []string{
		cq.ZU(uint64(ext)), cq.ZU(uint64(lsr)), cq.ZU(uint64(frac)), cq.ZU(uint64(total)),
		cq.ZU(uint64(delay)), cq.ZU(uint64(jitter)),
	}
}

// scopeOf recomputes (for the bucket histogram only) whether a history stays
// within the 8192 scope.
type scopeTrack struct {
	started  bool
	hi, prev int64
	ok       bool
}

func (s *scopeTrack) rtp(seq uint16) {
	if !s.started {
		s.started, s.hi, s.prev, s.ok = true, int64(seq), int64(seq)-1, true

		return
	}
	v := s.hi + int64(int16(seq-uint16(s.hi)))
	if v <= s.hi-8192 || v > s.hi+8192 {
		s.ok = false
	}
	if v > s.hi {
		s.hi = v
	}
}

func (s *scopeTrack) rep() {
	if s.started {
		if s.hi-s.prev > 8192 {
			s.ok = false
		}
		s.prev = s.hi
	}
}

func (c *coreCase) toCase(buckets ...string) cq.Case {
	ops := make([]string, len(c.Ops))
	var sc scopeTrack
	sc.ok = true
	npk, useful := 0, false
	for i, op := range c.Ops {
		switch op.K {
		case "rtp":
			ops[i] = cq.C("CRRtp", cq.Z(op.Now), cq.ZU(uint64(op.Seq)), cq.ZU(uint64(op.TS)))
			sc.rtp(op.Seq)
			npk++
		case "sr":
			ops[i] = cq.C("CRSr", cq.Z(op.Now), cq.ZU(op.NTP))
		default:
			ops[i] = cq.C("CRRep", append([]string{cq.Z(op.Now)}, coqRep(op.Ext, op.LSR, op.Frac, op.Total, op.Delay, op.Jitter)...)...)
			sc.rep()
			if npk >= 2 {
				useful = true
			}
		}
	}
	if sc.ok {
		buckets = append(buckets, "in-scope")
	} else {
		buckets = append(buckets, "out-of-scope")
	}

	if c.Total0 != 0 {
		buckets = append(buckets, "cumulative-near-saturation")
	}

	return cq.Case{Coq: cq.T(cq.ZU(uint64(c.Rate)), cq.ZU(uint64(c.Total0)), cq.L(ops)), JSON: c, Buckets: buckets, Trivial: !useful}
}

var rates = []uint32{8000, 48000, 90000, 1, 0xFFFFFFFF, 44100, 1000}

const (
	ms     = int64(1000000)
	sec    = int64(1000000000)
	recent = int64(1700000000) * sec
)

func pickRate(r *rand.Rand) uint32 {
	if r.Intn(8) == 0 {
		return r.Uint32()
	}

	return rates[r.Intn(len(rates))]
}

type arrival struct {
	v  int64  // true sequence number
	ts uint32 // rtp timestamp
}

// genCore builds a reception history from a true send order by dropping,
// duplicating, delaying and jumping, then places SRs and report ticks.
func genCore(r *rand.Rand, maxOps int) (*coreCase, []string) {
	c := &coreCase{Rate: pickRate(r)}
	var b []string
	v := int64(r.Intn(65536))
	switch r.Intn(4) {
	case 0:
		v = 65535 - int64(r.Intn(30))
		b = append(b, "seq-near-wrap")
	case 1:
		v = int64(r.Intn(3))
		b = append(b, "seq-small")
	}
	ts := r.Uint32()
	switch r.Intn(4) {
	case 0:
		ts = 0xFFFFFFFF - uint32(r.Intn(int(c.Rate/8+10)))
		b = append(b, "ts-near-wrap")
	case 1:
		ts = uint32(r.Intn(3))
		b = append(b, "ts-small")
	}
	tsStep := c.Rate / 50
	if r.Intn(5) == 0 {
		tsStep = r.Uint32() >> uint(r.Intn(32))
		b = append(b, "ts-step-random")
	}
	mode := []int{0, 0, 0, 0, 1, 1, 2, 2, 2, 3, 4, 5, 6, 7, 0, 2}[r.Intn(16)]
	modeName := []string{
		"inorder-loss", "dups", "reorder-small", "reorder-deep", "jump-8192-edge",
		"jump-out-of-scope", "many-cycles", "late-8192-edge",
	}[mode]
	b = append(b, modeName)
	n := 4 + r.Intn(maxOps)
	// histories with wide report intervals are kept short: the model walks
	// every sequence number of an interval through the whole update history
	switch mode {
	case 3:
		n = 4 + r.Intn(16)
	case 4, 7:
		n = 4 + r.Intn(10)
	case 5:
		n = 3 + r.Intn(8)
	case 6:
		n = 6 + r.Intn(20)
	}
	var arr []arrival
	var held []arrival // delayed packets
	for i := 0; i < n; i++ {
		a := arrival{v, ts}
		drop := r.Intn(6) == 0
		switch mode {
		case 1:
			if r.Intn(4) == 0 {
				arr = append(arr, a)
			}
		case 2:
			if r.Intn(4) == 0 {
				held = append(held, a)
				drop = true
			}
		case 3:
			if r.Intn(10) == 0 {
				held = append(held, a)
				drop = true
			}
		}
		if !drop {
			arr = append(arr, a)
		}
		if len(held) > 0 && r.Intn(3) == 0 {
			k := r.Intn(len(held))
			arr = append(arr, held[k])
			held = append(held[:k], held[k+1:]...)
		}
		step := int64(1)
		switch mode {
		case 3:
			if r.Intn(5) == 0 {
				step = int64(500 + r.Intn(3000))
			}
		case 4:
			if r.Intn(5) == 0 {
				step = int64(8190 + r.Intn(5))
			}
		case 5:
			if r.Intn(6) == 0 {
				step = []int64{8193, 8200, 16384, 20000, 32767, 32768, 32769, 40000, 65535, 65536}[r.Intn(10)]
			}
		case 6:
			if r.Intn(2) == 0 {
				step = int64(4000 + r.Intn(4192))
			}
		case 7:
			if r.Intn(5) == 0 {
				step = int64(8188 + r.Intn(4))
				held = append(held, arrival{v + int64(r.Intn(3)), ts})
			}
		}
		v += step
		ts += uint32(step) * tsStep //nolint:gosec
	}
	for _, h := range held {
		if r.Intn(2) == 0 {
			arr = append(arr, h)
		}
	}
	now := recent + r.Int63n(100000000)*ms
	if r.Intn(10) == 0 {
		c.Ops = append(c.Ops, coreOp{K: "rep", Now: now})
		b = append(b, "report-before-first")
	}
	if r.Intn(8) == 0 {
		c.Ops = append(c.Ops, coreOp{K: "sr", Now: now, NTP: srNTP(r)})
		b = append(b, "sr-before-first")
	}
	repEvery := 2 + r.Intn(12)
	if mode >= 3 {
		repEvery = 5 + r.Intn(10)
	}
	srEvery := 3 + r.Intn(30)
	clockMode := r.Intn(6)
	for _, a := range arr {
		c.Ops = append(c.Ops, coreOp{K: "rtp", Now: now, Seq: uint16(a.v), TS: a.ts}) //nolint:gosec
		switch clockMode {
		case 0: // steady 20 ms
			now += 20 * ms
		case 1: // bursts
			if r.Intn(3) == 0 {
				now += int64(r.Intn(100)) * ms
			}
		case 2: // occasionally long gaps
			now += int64(r.Intn(40)) * ms
			if r.Intn(15) == 0 {
				now += int64(r.Intn(70000)) * sec / 10
				b = append(b, "long-gap")
			}
		case 3: // clock steps backwards now and then
			now += int64(r.Intn(40)) * ms
			if r.Intn(10) == 0 {
				now -= int64(r.Intn(30)) * ms
				b = append(b, "clock-back")
			}
		default:
			now += int64(r.Intn(40000)) * 1000
		}
		if r.Intn(srEvery) == 0 {
			c.Ops = append(c.Ops, coreOp{K: "sr", Now: now, NTP: srNTP(r)})
		}
		if r.Intn(repEvery) == 0 {
			c.Ops = append(c.Ops, coreOp{K: "rep", Now: now})
			if r.Intn(6) == 0 {
				c.Ops = append(c.Ops, coreOp{K: "rep", Now: now + int64(r.Intn(5))*ms})
				b = append(b, "back-to-back-reports")
			}
		}
	}
	c.Ops = append(c.Ops, coreOp{K: "rep", Now: now + int64(r.Intn(2000))*ms})

	return c, dedup(b)
}

// genBackClock: non-monotone clocks. Arrivals whose clock steps back (negative
// arrival difference in the jitter update: ns .. seconds, rarely hours), and
// reports taken before the arrival instant of the latest sender report
// (negative delay since last SR).
func genBackClock(r *rand.Rand) (*coreCase, []string) {
	c := &coreCase{Rate: pickRate(r)}
	b := []string{"nonmonotone-clock"}
	v := int64(r.Intn(65536))
	ts := r.Uint32()
	if r.Intn(4) == 0 {
		ts = 0xFFFFFFFF - uint32(r.Intn(int(c.Rate/8+10)))
		b = append(b, "ts-near-wrap")
	}
	tsStep := c.Rate / 50
	now := recent + r.Int63n(100000000)*ms
	lastSR := int64(-1)
	n := 4 + r.Intn(30)
	for i := 0; i < n; i++ {
		c.Ops = append(c.Ops, coreOp{K: "rtp", Now: now, Seq: uint16(v), TS: ts}) //nolint:gosec
		step := int64(1)
		if r.Intn(6) == 0 {
			step = int64(2 + r.Intn(4))
		}
		v += step
		ts += uint32(step) * tsStep //nolint:gosec
		switch r.Intn(8) {
		case 0:
			now -= 1 + int64(r.Intn(3)) // a few ns back
			b = append(b, "arrival-ns-back")
		case 1:
			now -= int64(r.Intn(200)) * ms
			b = append(b, "arrival-ms-back")
		case 2:
			now -= int64(r.Intn(20000)) * ms
			b = append(b, "arrival-seconds-back")
		case 3:
			if r.Intn(6) == 0 {
				now -= int64(1+r.Intn(30)) * 3600 * sec
				b = append(b, "arrival-hours-back")
			}
		default:
			now += int64(r.Intn(40)) * ms
		}
		if r.Intn(5) == 0 {
			c.Ops = append(c.Ops, coreOp{K: "sr", Now: now, NTP: srNTP(r)})
			lastSR = now
		}
		if r.Intn(4) == 0 {
			rn := now
			if lastSR >= 0 && r.Intn(2) == 0 {
				switch r.Intn(6) {
				case 0:
					rn = lastSR - 1 - int64(r.Intn(3))
				case 1:
					rn = lastSR - 15257 - int64(r.Intn(4)) // first unit of 1/65536 s
				case 2:
					rn = lastSR - int64(r.Intn(5000))*ms
				case 3:
					rn = lastSR - int64(1+r.Intn(40))*3600*sec // beyond 18.2 h the negative delay wraps 2^32
					b = append(b, "report-hours-before-sr")
				default:
					rn = lastSR - r.Int63n(100*sec)
				}
				b = append(b, "report-before-sr")
			}
			c.Ops = append(c.Ops, coreOp{K: "rep", Now: rn})
		}
	}
	c.Ops = append(c.Ops, coreOp{K: "rep", Now: now})

	return c, dedup(b)
}

// genSaturationReal (thorough tier only): the 24-bit saturation of the
// cumulative loss counter reached by REAL losses, no hook. generateReport counts
// at most one loss per loop iteration, so 2^24 losses need 2^24 iterations of the
// counting loop, in Go and in the model alike; the widest interval the 16-bit
// arithmetic allows (a jump of 32767, every number in between lost) needs 513
// packets with a report after each. Such intervals are outside the 8192 scope
// (the bitmap aliases), so the loss fields are compared with the model
// bit-for-bit, not with the recount oracle; within the scope the saturation
// stays covered by the preset hook + theorem C06_reports_are_the_recount_preset.
func genSaturationReal(r *rand.Rand) (*coreCase, []string) {
	c := &coreCase{Rate: 90000}
	v := uint16(r.Intn(65536))
	ts := r.Uint32()
	now := recent + r.Int63n(1000000)*ms
	c.Ops = append(c.Ops, coreOp{K: "rtp", Now: now, Seq: v, TS: ts})
	c.Ops = append(c.Ops, coreOp{K: "rep", Now: now})
	for i := 0; i < 516; i++ {
		v += 32767
		ts += 3000
		now += 33 * ms
		c.Ops = append(c.Ops, coreOp{K: "rtp", Now: now, Seq: v, TS: ts})
		c.Ops = append(c.Ops, coreOp{K: "rep", Now: now})
	}

	return c, []string{"saturation-real-losses"}
}

func dedup(b []string) []string {
	m := map[string]bool{}
	out := b[:0]
	for _, x := range b {
		if !m[x] {
			m[x] = true
			out = append(out, x)
		}
	}

	return out
}

// ---- interceptor set ----

type apiRep struct {
	SSRC   uint32 `json:"ssrc"`
	Ext    uint32 `json:"ext"`
	LSR    uint32 `json:"lsr"`
	Frac   uint8  `json:"frac"`
	Total  uint32 `json:"total"`
	Delay  uint32 `json:"delay"`
	Jitter uint32 `json:"jitter"`
}

type apiOp struct {
	K    string   `json:"k"` // bind | unbind | rtp | sr | tick
	SSRC uint32   `json:"ssrc,omitempty"`
	Rate uint32   `json:"rate,omitempty"`
	Now  int64    `json:"now,omitempty"`
	Seq  uint16   `json:"seq,omitempty"`
	TS   uint32   `json:"ts,omitempty"`
	NTP  uint64   `json:"ntp,omitempty"`
	// Grp != 0: consecutive "sr" ops with the same Grp travel in ONE compound RTCP packet (in this
	// order, mixed with receiver reports / PLIs); every SR of the compound that names a bound
	// stream must be processed, so the Coq case lists them as individual CRASr ops
	Grp  int      `json:"grp,omitempty"`
	Reps []apiRep `json:"reps,omitempty"`
}

type apiCase struct {
	Ops []apiOp `json:"ops"`
}

func goid() uint64 {
	var buf [64]byte
	n := runtime.Stack(buf[:], false)
	f := strings.Fields(string(buf[:n]))
	id, _ := strconv.ParseUint(f[1], 10, 64)

	return id
}

func runAPI(c *apiCase) error {
	var nowNs atomic.Int64
	var closing atomic.Bool
	me := goid()
	allow := make(chan struct{})
	out := make(chan apiRep, 256)
	f, err := report.NewReceiverInterceptor(
		report.ReceiverInterval(time.Millisecond),
		report.ReceiverNow(func() time.Time {
			if goid() != me {
				// the interceptor's ticker goroutine: one tick per permission
				<-allow
			}

			return time.Unix(0, nowNs.Load())
		}),
	)
	if err != nil {
		return err
	}
	ic, err := f.NewInterceptor("")
	if err != nil {
		return err
	}
	defer func() {
		closing.Store(true)
		close(allow)
		_ = ic.Close()
	}()
	ic.BindRTCPWriter(interceptor.RTCPWriterFunc(func(pkts []rtcp.Packet, _ interceptor.Attributes) (int, error) {
		if closing.Load() {
			return 0, nil
		}
		for _, p := range pkts {
			if rr, ok := p.(*rtcp.ReceiverReport); ok {
				for _, rp := range rr.Reports {
					select {
					case out <- apiRep{rp.SSRC, rp.LastSequenceNumber, rp.LastSenderReport, rp.FractionLost, rp.TotalLost, rp.Delay, rp.Jitter}:
					default:
					}
				}
			}
		}

		return 0, nil
	}))
	var rtcpIn []byte
	rtcpReader := ic.BindRTCPReader(interceptor.RTCPReaderFunc(func(b []byte, a interceptor.Attributes) (int, interceptor.Attributes, error) {
		return copy(b, rtcpIn), a, nil
	}))
	readers := map[uint32]interceptor.RTPReader{}
	infos := map[uint32]*interceptor.StreamInfo{}
	var rtpIn []byte
	buf := make([]byte, 1500)
	for i := range c.Ops {
		op := &c.Ops[i]
		switch op.K {
		case "bind":
			info := &interceptor.StreamInfo{SSRC: op.SSRC, ClockRate: op.Rate}
			infos[op.SSRC] = info
			readers[op.SSRC] = ic.BindRemoteStream(info, interceptor.RTPReaderFunc(
				func(b []byte, a interceptor.Attributes) (int, interceptor.Attributes, error) {
					return copy(b, rtpIn), a, nil
				}))
		case "unbind":
			if info, ok := infos[op.SSRC]; ok {
				ic.UnbindRemoteStream(info)
				delete(infos, op.SSRC)
				delete(readers, op.SSRC)
			}
		case "rtp":
			if rd, ok := readers[op.SSRC]; ok {
				nowNs.Store(op.Now)
				pkt := rtp.Packet{Header: rtp.Header{Version: 2, SSRC: op.SSRC, SequenceNumber: op.Seq, Timestamp: op.TS}, Payload: []byte{1, 2, 3}}
				raw, err := pkt.Marshal()
				if err != nil {
					return err
				}
				rtpIn = raw
				if _, _, err := rd.Read(buf, nil); err != nil {
					return err
				}
			}
		case "sr":
			if op.Grp != 0 && i > 0 && c.Ops[i-1].K == "sr" && c.Ops[i-1].Grp == op.Grp {
				continue // delivered with the first SR of its compound
			}
			nowNs.Store(op.Now)
			var pkts []rtcp.Packet
			if op.Grp == 0 {
				pkts = []rtcp.Packet{&rtcp.SenderReport{SSRC: op.SSRC, NTPTime: op.NTP, RTPTime: 1, PacketCount: 2, OctetCount: 3}}
				if op.NTP&1 == 1 { // compound with something else in front
					pkts = append([]rtcp.Packet{&rtcp.ReceiverReport{SSRC: 99}}, pkts...)
				}
			} else {
				for k := i; k < len(c.Ops) && c.Ops[k].K == "sr" && c.Ops[k].Grp == op.Grp; k++ {
					o2 := &c.Ops[k]
					switch (o2.NTP >> 1) % 3 { // other packets in between
					case 0:
						pkts = append(pkts, &rtcp.ReceiverReport{SSRC: 99})
					case 1:
						pkts = append(pkts, &rtcp.PictureLossIndication{SenderSSRC: 5, MediaSSRC: o2.SSRC})
					}
					pkts = append(pkts, &rtcp.SenderReport{SSRC: o2.SSRC, NTPTime: o2.NTP, RTPTime: 1, PacketCount: 2, OctetCount: 3})
				}
			}
			raw, err := rtcp.Marshal(pkts)
			if err != nil {
				return err
			}
			rtcpIn = raw
			if _, _, err := rtcpReader.Read(buf, nil); err != nil {
				return err
			}
		case "tick":
			nowNs.Store(op.Now)
			select {
			case allow <- struct{}{}:
			case <-time.After(5 * time.Second):
				return fmt.Errorf("ticker goroutine never asked for the time")
			}
			op.Reps = nil
			want := len(infos)
			for len(op.Reps) < want {
				select {
				case rp := <-out:
					op.Reps = append(op.Reps, rp)
				case <-time.After(5 * time.Second):
					return fmt.Errorf("tick produced %d of %d reports", len(op.Reps), want)
				}
			}
			grace := 100 * time.Microsecond
			if want == 0 {
				grace = 500 * time.Microsecond
			}
			select {
			case rp := <-out:
				op.Reps = append(op.Reps, rp)
			case <-time.After(grace):
			}
			sort.SliceStable(op.Reps, func(a, b int) bool { return op.Reps[a].SSRC < op.Reps[b].SSRC })
		}
	}

	return nil
}

func (c *apiCase) toCase(buckets ...string) cq.Case {
	ops := make([]string, len(c.Ops))
	useful := false
	for i, op := range c.Ops {
		switch op.K {
		case "bind":
			ops[i] = cq.C("CRABind", cq.ZU(uint64(op.SSRC)), cq.ZU(uint64(op.Rate)))
		case "unbind":
			ops[i] = cq.C("CRAUnbind", cq.ZU(uint64(op.SSRC)))
		case "rtp":
			ops[i] = cq.C("CRARtp", cq.ZU(uint64(op.SSRC)), cq.Z(op.Now), cq.ZU(uint64(op.Seq)), cq.ZU(uint64(op.TS)))
		case "sr":
			ops[i] = cq.C("CRASr", cq.ZU(uint64(op.SSRC)), cq.Z(op.Now), cq.ZU(op.NTP))
		default:
			reps := make([]string, len(op.Reps))
			for k, rp := range op.Reps {
				reps[k] = cq.T(cq.ZU(uint64(rp.SSRC)), cq.T(coqRep(rp.Ext, rp.LSR, rp.Frac, rp.Total, rp.Delay, rp.Jitter)...))
				if rp.Ext != 0 {
					useful = true
				}
			}
			ops[i] = cq.C("CRATick", cq.Z(op.Now), cq.L(reps))
		}
	}

	return cq.Case{Coq: cq.L(ops), JSON: c, Buckets: buckets, Trivial: !useful}
}

func genAPI(r *rand.Rand) (*apiCase, []string) {
	c := &apiCase{}
	var b []string
	ssrcs := []uint32{1, 7, 0xFFFFFFFF, 0x80000000}
	r.Shuffle(len(ssrcs), func(i, j int) { ssrcs[i], ssrcs[j] = ssrcs[j], ssrcs[i] })
	ns := 1 + r.Intn(3)
	type st struct {
		bound bool
		v     int64
		ts    uint32
		step  uint32
	}
	sts := make([]st, ns)
	now := recent + r.Int63n(1000000)*ms
	grp := 0
	if r.Intn(8) == 0 {
		c.Ops = append(c.Ops, apiOp{K: "tick", Now: now})
		b = append(b, "tick-no-streams")
	}
	n := 10 + r.Intn(40)
	for i := 0; i < n; i++ {
		k := r.Intn(ns)
		s := &sts[k]
		x := r.Intn(24)
		switch {
		case !s.bound || x == 0:
			if s.bound {
				b = append(b, "rebind")
			}
			rate := pickRate(r)
			c.Ops = append(c.Ops, apiOp{K: "bind", SSRC: ssrcs[k], Rate: rate})
			s.bound = true
			s.v = int64(r.Intn(65536))
			if r.Intn(3) == 0 {
				s.v = 65535 - int64(r.Intn(10))
			}
			s.ts = r.Uint32()
			if r.Intn(3) == 0 {
				s.ts = 0xFFFFFFFF - uint32(r.Intn(int(rate/10+10)))
			}
			s.step = rate / 50
		case x == 1:
			c.Ops = append(c.Ops, apiOp{K: "unbind", SSRC: ssrcs[k]})
			s.bound = false
			b = append(b, "unbind")
		case x <= 4:
			c.Ops = append(c.Ops, apiOp{K: "tick", Now: now})
		case x <= 6:
			ss := ssrcs[k]
			if r.Intn(6) == 0 {
				ss = 4242 // an SSRC that is not bound
				b = append(b, "sr-unknown-ssrc")
			}
			if r.Intn(3) == 0 {
				// one compound RTCP packet with 2-3 SRs: usually an SSRC that is not bound first,
				// then bound streams (possibly the same stream twice: the later SR wins)
				grp++
				var list []uint32
				if r.Intn(4) != 0 {
					u := uint32(4242)
					for q := range sts {
						if !sts[q].bound && r.Intn(2) == 0 {
							u = ssrcs[q]
						}
					}
					list = append(list, u)
					b = append(b, "sr-compound-unbound-first")
				}
				list = append(list, ssrcs[k])
				if r.Intn(2) == 0 {
					list = append(list, ssrcs[r.Intn(ns)])
				}
				if len(list) < 2 {
					list = append(list, 4243)
				}
				for _, x := range list {
					c.Ops = append(c.Ops, apiOp{K: "sr", SSRC: x, Now: now, NTP: srNTP(r), Grp: grp})
				}
				b = append(b, "sr-compound")

				break
			}
			c.Ops = append(c.Ops, apiOp{K: "sr", SSRC: ss, Now: now, NTP: srNTP(r)})
		default:
			v, t := s.v, s.ts
			switch r.Intn(8) {
			case 0: // late packet
				d := int64(1 + r.Intn(6))
				v -= d
				t -= uint32(d) * s.step //nolint:gosec
				b = append(b, "reordered")
			case 1: // loss
				d := int64(1 + r.Intn(5))
				s.v += d
				s.ts += uint32(d) * s.step //nolint:gosec
				v, t = s.v, s.ts
				s.v++
				s.ts += s.step
			default:
				s.v++
				s.ts += s.step
			}
			c.Ops = append(c.Ops, apiOp{K: "rtp", SSRC: ssrcs[k], Now: now, Seq: uint16(v), TS: t}) //nolint:gosec
		}
		switch r.Intn(5) {
		case 0:
			now += int64(r.Intn(3000)) * ms
		case 1:
		default:
			now += int64(r.Intn(30)) * ms
		}
	}
	if r.Intn(3) == 0 {
		// freshness: SR, tick, Unbind, an SR for the SSRC while it is not bound, tick, Bind again;
		// the final tick must report a fresh stream (LSR 0, delay 0, nothing received)
		k := r.Intn(ns)
		if sts[k].bound {
			c.Ops = append(c.Ops,
				apiOp{K: "sr", SSRC: ssrcs[k], Now: now, NTP: srNTP(r)},
				apiOp{K: "tick", Now: now + ms},
				apiOp{K: "unbind", SSRC: ssrcs[k]},
				apiOp{K: "sr", SSRC: ssrcs[k], Now: now + 2*ms, NTP: srNTP(r)},
				apiOp{K: "tick", Now: now + 3*ms},
				apiOp{K: "bind", SSRC: ssrcs[k], Rate: pickRate(r)})
			now += 5 * ms
			b = append(b, "sr-unbind-sr-rebind")
		}
	}
	c.Ops = append(c.Ops, apiOp{K: "tick", Now: now})
	b = append(b, fmt.Sprintf("streams-%d", ns))

	return c, dedup(b)
}

// srNTP draws a sender-report NTP timestamp: mostly random, sometimes with the middle 32 bits
// (the LSR field) all zero or all one - LSR 0 must not be confused with "no SR yet".
func srNTP(r *rand.Rand) uint64 {
	switch r.Intn(6) {
	case 0:
		return r.Uint64() & 0xFFFF00000000FFFF
	case 1:
		return r.Uint64() | 0x0000FFFFFFFF0000
	default:
		return r.Uint64()
	}
}

func main() {
	o := cq.ParseFlags()
	r := o.Rand()
	core := &cq.Set{
		Name: "c06core", Import: "IV.Check.C06Check", CaseType: "c06core_case",
		Checks: []string{"c06core_mismatches", "c06core_spec_failures"},
	}
	api := &cq.Set{
		Name: "c06api", Import: "IV.Check.C06Check", CaseType: "c06api_case",
		Checks: []string{"c06api_mismatches", "c06api_spec_failures"},
	}
	var fails []cq.ImplFailure
	addReplay := func(path, bucket string) {
		var probe map[string]interface{}
		set := cq.LoadReplay(path, &probe)
		if set == "c06api" {
			var c apiCase
			cq.LoadReplay(path, &c)
			if err := runAPI(&c); err != nil {
				fails = append(fails, cq.ImplFailure{Kind: "api-run", Detail: err.Error(), Case: c})

				return
			}
			api.Cases = append(api.Cases, c.toCase(bucket))
		} else {
			var c coreCase
			cq.LoadReplay(path, &c)
			runCore(&c)
			core.Cases = append(core.Cases, c.toCase(bucket))
		}
	}
	if o.Replay != "" {
		addReplay(o.Replay, "replay")
		cq.Write(o, "replay", []*cq.Set{core, api}, nil, fails)

		return
	}
	for _, f := range o.CorpusFiles() {
		addReplay(f, "corpus")
	}
	ncore := o.Scale(1400, 10000)
	for i := 0; i < ncore; i++ {
		c, b := genCore(r, 60)
		if i%10 == 7 {
			c, b = genBackClock(r)
		}
		if i%20 == 19 { // cumulative loss counter just below 2^24-1
			c.Total0 = 0xFFFFFF - uint32(r.Intn(40))
		}
		runCore(c)
		core.Cases = append(core.Cases, c.toCase(b...))
	}
	if o.Tier == "thorough" {
		// one real run up to the 24-bit saturation of the cumulative loss counter (no hook)
		c, b := genSaturationReal(r)
		runCore(c)
		core.Cases = append(core.Cases, c.toCase(b...))
	}
	napi := o.Scale(400, 2000)
	for i := 0; i < napi; i++ {
		c, b := genAPI(r)
		if err := runAPI(c); err != nil {
			fails = append(fails, cq.ImplFailure{Kind: "api-run", Detail: err.Error(), Case: c})

			continue
		}
		api.Cases = append(api.Cases, c.toCase(b...))
	}
	cq.Write(o, "core: one receiver stream, 4..64 sent packets turned into a reception history (loss, duplicates, shallow/deep "+
		"reordering, jumps at the 8192 edge and beyond, many 2^16 cycles, RTP timestamp wrap, clock steps) with sender reports "+
		"and report ticks anywhere, non-trivial = a report after at least two packets; api: ReceiverInterceptor with 1..3 SSRCs, "+
		"bind/unbind/rebind, SRs through BindRTCPReader, real 1 ms ticker gated through ReceiverNow, non-trivial = a report with a non-zero highest sequence number",
		[]*cq.Set{core, api}, nil, fails)
}
