// Lifecycle / multi-instance histories for C15: several factories, several interceptor instances
// (factory.NewInterceptor, interceptor.Registry.Build, zero value), streams bound, unbound, re-bound,
// written to through current and held writers, Close and the other Interceptor methods in between.
package main

import (
	"fmt"
	"math/rand"
	"runtime"
	"sort"
	"sync"

	"github.com/pion/interceptor"
	"github.com/pion/interceptor/pkg/twcc"
	"github.com/pion/rtcp"
	"github.com/pion/rtp"

	"verifharness/internal/cq"
)

type lifeInst struct {
	Factory int64  `json:"factory"`
	Mode    string `json:"mode"` // factory: factory.NewInterceptor | registry: Registry{factory}.Build | zero: &twcc.HeaderExtensionInterceptor{}
}

type lifeStream struct {
	Inst int64   `json:"inst"`
	IDs  []int64 `json:"ids"`
}

// lifeOp kinds: new (I), bind (S), unbind (S), write (S, H, PayLen), close (I), other (I, X).
type lifeOp struct {
	K      string `json:"k"`
	I      int64  `json:"i,omitempty"`
	S      int64  `json:"s,omitempty"`
	X      int64  `json:"x,omitempty"`
	H      *hdr   `json:"h,omitempty"`
	PayLen int    `json:"paylen,omitempty"`
}

type lifeCase struct {
	Insts   []lifeInst   `json:"insts"`
	Streams []lifeStream `json:"streams"`
	Ops     []lifeOp     `json:"ops"`
	Outs    []res        `json:"outs"`
}

// factories builds the objects instances are made from: one factory (and one registry holding it) per factory index.
type factories struct {
	f   []*twcc.HeaderExtensionInterceptorFactory
	reg []*interceptor.Registry
}

func (fs *factories) make(in lifeInst, name string) interceptor.Interceptor {
	for int(in.Factory) >= len(fs.f) {
		f, err := twcc.NewHeaderExtensionInterceptor()
		if err != nil {
			panic(err)
		}
		reg := &interceptor.Registry{}
		reg.Add(f)
		fs.f = append(fs.f, f)
		fs.reg = append(fs.reg, reg)
	}
	var ic interceptor.Interceptor
	var err error
	switch in.Mode {
	case "zero":
		ic = &twcc.HeaderExtensionInterceptor{}
	case "registry":
		ic, err = fs.reg[in.Factory].Build(name)
	default:
		ic, err = fs.f[in.Factory].NewInterceptor(name)
	}
	if err != nil {
		panic(err)
	}

	return ic
}

// otherCall is one of the Interceptor methods the header extension interceptor inherits from NoOp.
func otherCall(ic interceptor.Interceptor, x int64, info *interceptor.StreamInfo) {
	switch x % 4 {
	case 0:
		ic.BindRemoteStream(info, interceptor.RTPReaderFunc(
			func([]byte, interceptor.Attributes) (int, interceptor.Attributes, error) { return 0, nil, nil }))
	case 1:
		ic.UnbindRemoteStream(info)
	case 2:
		ic.BindRTCPReader(interceptor.RTCPReaderFunc(
			func([]byte, interceptor.Attributes) (int, interceptor.Attributes, error) { return 0, nil, nil }))
	default:
		ic.BindRTCPWriter(interceptor.RTCPWriterFunc(
			func([]rtcp.Packet, interceptor.Attributes) (int, error) { return 0, nil }))
	}
}

// runLife executes the history on the real code. Calls that have no meaning (instance not created yet or
// created twice, write on a stream that never got a writer) are dropped from the case, so the recorded
// history is exactly what ran.
func runLife(c lifeCase, r *rand.Rand, fails *[]cq.ImplFailure) lifeCase {
	fs := &factories{}
	insts := make([]interceptor.Interceptor, len(c.Insts))
	infos := make([]*interceptor.StreamInfo, len(c.Streams))
	sinks := make([]*sink, len(c.Streams))
	writers := make([]interceptor.RTPWriter, len(c.Streams))
	for i, s := range c.Streams {
		infos[i] = streamInfo(s.IDs, r)
		sinks[i] = &sink{ret: 7 + i}
	}
	ops := c.Ops
	c.Ops, c.Outs = nil, nil
	validInst := func(i int64) bool { return i >= 0 && int(i) < len(insts) && insts[i] != nil }
	validStream := func(s int64) bool {
		return s >= 0 && int(s) < len(c.Streams) && c.Streams[s].Inst >= 0 && int(c.Streams[s].Inst) < len(insts)
	}
	for _, o := range ops {
		switch o.K {
		case "new":
			if o.I < 0 || int(o.I) >= len(insts) || insts[o.I] != nil {
				continue
			}
			insts[o.I] = fs.make(c.Insts[o.I], fmt.Sprintf("pc-%d", o.I))
		case "bind":
			if !validStream(o.S) || !validInst(c.Streams[o.S].Inst) {
				continue
			}
			writers[o.S] = insts[c.Streams[o.S].Inst].BindLocalStream(infos[o.S], sinks[o.S])
		case "unbind":
			if !validStream(o.S) || !validInst(c.Streams[o.S].Inst) {
				continue
			}
			insts[c.Streams[o.S].Inst].UnbindLocalStream(infos[o.S])
		case "close":
			if !validInst(o.I) {
				continue
			}
			if err := insts[o.I].Close(); err != nil {
				*fails = append(*fails, cq.ImplFailure{Kind: "close-error", Detail: err.Error(), Case: c})
			}
		case "other":
			if !validInst(o.I) {
				continue
			}
			otherCall(insts[o.I], o.X, &interceptor.StreamInfo{SSRC: uint32(o.X)}) //nolint:gosec
		case "write":
			if !validStream(o.S) || writers[o.S] == nil || o.H == nil {
				continue
			}
			c.Ops = append(c.Ops, o)
			if _, pass := writers[o.S].(*sink); pass {
				c.Outs = append(c.Outs, res{Kind: "pass"})
			} else {
				c.Outs = append(c.Outs, observeWrite(writers[o.S], sinks[o.S], *o.H, o.PayLen, len(c.Outs), c, fails))
			}

			continue
		default:
			continue
		}
		c.Ops = append(c.Ops, o)
	}

	return c
}

func (c lifeCase) toCase(b ...string) cq.Case {
	ops := make([]string, len(c.Ops))
	for i, o := range c.Ops {
		switch o.K {
		case "new":
			ops[i] = cq.C("LNew", cq.Z(c.Insts[o.I].Factory), cq.Z(o.I))
		case "bind":
			ops[i] = cq.C("LBind", cq.Z(c.Streams[o.S].Inst), cq.Z(o.S), cq.LZ(c.Streams[o.S].IDs))
		case "unbind":
			ops[i] = cq.C("LUnbind", cq.Z(c.Streams[o.S].Inst), cq.Z(o.S))
		case "write":
			ops[i] = cq.C("LWrite", cq.Z(o.S), coqHdrOpt(*o.H))
		case "close":
			ops[i] = cq.C("LClose", cq.Z(o.I))
		default:
			ops[i] = cq.C("LOther", cq.Z(o.I), cq.Z(o.X))
		}
	}
	outs := make([]string, len(c.Outs))
	nfwd := 0
	for i, o := range c.Outs {
		switch o.Kind {
		case "forward":
			outs[i] = cq.C("Forward", coqHdr(*o.H))
			nfwd++
		case "pass":
			outs[i] = "PassThrough"
		default:
			outs[i] = "WErr"
		}
	}

	return cq.Case{Coq: cq.T(cq.L(ops), cq.L(outs)), JSON: c, Buckets: b, Trivial: nfwd < 2}
}

func genIDs(r *rand.Rand) []int64 {
	switch r.Intn(8) {
	case 0: // not negotiated
		return nil
	case 1:
		return []int64{int64(1 + r.Intn(14)), int64(1 + r.Intn(14))}
	case 2:
		return []int64{[]int64{0, 15, 16, 255, 256, 261}[r.Intn(6)]}
	default:
		return []int64{int64(1 + r.Intn(14))}
	}
}

// genLife builds one history. Half of the cases follow a scenario that pins a corner of the lifecycle
// (the rest of the history is random around it), the others are a free random walk over all calls.
func genLife(r *rand.Rand) (lifeCase, []string) {
	c := lifeCase{}
	bs := map[string]bool{}
	nf := 1
	if r.Intn(4) == 0 {
		nf = 2
	}
	ni := 1 + r.Intn(3)
	scenario := r.Intn(12)
	if scenario == 0 || scenario == 1 {
		ni = 2 + r.Intn(2) // instances of one factory, interleaved
		nf = 1
	}
	for i := 0; i < ni; i++ {
		in := lifeInst{Factory: int64(r.Intn(nf)), Mode: []string{"factory", "factory", "registry", "registry", "zero"}[r.Intn(5)]}
		if scenario <= 1 && in.Mode == "zero" {
			in.Mode = "factory"
		}
		c.Insts = append(c.Insts, in)
	}
	shared := map[int64]int{}
	for _, in := range c.Insts {
		if in.Mode != "zero" {
			shared[in.Factory]++
		}
	}
	for _, n := range shared {
		if n > 1 {
			bs["instances-sharing-a-factory"] = true
		}
	}
	if ni > 1 {
		bs["multi-instance"] = true
	}
	ns := ni + r.Intn(4)
	for s := 0; s < ns; s++ {
		st := lifeStream{Inst: int64(s % ni), IDs: genIDs(r)}
		if s >= ni {
			st.Inst = int64(r.Intn(ni))
		}
		if scenario < 8 && s < ni { // scenarios want every instance to own a negotiated stream
			st.IDs = []int64{int64(1 + r.Intn(14))}
		}
		c.Streams = append(c.Streams, st)
	}
	sidOf := func(s int64) int64 {
		if len(c.Streams[s].IDs) == 0 {
			return 0
		}

		return c.Streams[s].IDs[0] % 256
	}
	write := func(s int64) {
		h, b := genHdr(r, sidOf(s))
		bs[b] = true
		c.Ops = append(c.Ops, lifeOp{K: "write", S: s, H: &h, PayLen: []int{0, 1, 50, 1200}[r.Intn(4)]})
	}
	writes := func(s int64, n int) {
		for ; n > 0; n-- {
			write(s)
		}
	}
	streamsOf := func(i int64) []int64 {
		var out []int64
		for s, st := range c.Streams {
			if st.Inst == i {
				out = append(out, int64(s))
			}
		}

		return out
	}
	created := make([]bool, ni)
	bound := make([]int, ns)   // 0 never, 1 bound, 2 unbound (writer still held)
	newInst := func(i int64) { c.Ops = append(c.Ops, lifeOp{K: "new", I: i}); created[i] = true }
	bind := func(s int64) {
		if !created[c.Streams[s].Inst] {
			newInst(c.Streams[s].Inst)
		}
		c.Ops = append(c.Ops, lifeOp{K: "bind", S: s})
		bound[s] = 1
	}
	unbind := func(s int64) { c.Ops = append(c.Ops, lifeOp{K: "unbind", S: s}); bound[s] = 2 }
	// random walk of n calls over everything that exists
	walk := func(n int) {
		for ; n > 0; n-- {
			s := int64(r.Intn(ns))
			i := int64(r.Intn(ni))
			switch x := r.Intn(100); {
			case x < 58:
				if bound[s] == 0 {
					bind(s)
				}
				if bound[s] == 2 {
					bs["write-through-held-writer-after-unbind"] = true
				}
				write(s)
			case x < 68:
				if bound[s] == 1 {
					bs["re-bind-while-bound"] = true
				} else if bound[s] == 2 {
					bs["re-bind-after-unbind"] = true
				}
				bind(s)
			case x < 80:
				if !created[c.Streams[s].Inst] {
					continue
				}
				if bound[s] != 1 {
					bs["unbind-not-bound"] = true
				}
				unbind(s)
			case x < 84:
				if created[i] {
					c.Ops = append(c.Ops, lifeOp{K: "close", I: i})
					bs["close"] = true
				}
			case x < 94:
				if created[i] {
					c.Ops = append(c.Ops, lifeOp{K: "other", I: i, X: int64(r.Intn(1000))})
				}
			default:
				if !created[i] {
					newInst(i)
					bs["instance-created-mid-history"] = true
				}
			}
		}
	}
	switch scenario {
	case 0, 1: // instances made by one factory, traffic interleaved packet by packet
		bs["scenario:one-factory-interleaved-instances"] = true
		for i := 0; i < ni; i++ {
			bind(int64(i))
		}
		for k := 2 + r.Intn(25); k > 0; k-- {
			for i := 0; i < ni; i++ {
				if i == 0 || r.Intn(3) != 0 {
					write(int64(i))
				}
			}
		}
		walk(r.Intn(15))
	case 2, 3: // every negotiated stream of an instance unbound, then a new / re-bound stream continues
		bs["scenario:unbind-all-then-bind-again"] = true
		i := int64(r.Intn(ni))
		own := streamsOf(i)
		for _, s := range own {
			bind(s)
			writes(s, 1+r.Intn(6))
		}
		walk(r.Intn(6))
		for _, s := range own {
			if bound[s] == 1 {
				unbind(s)
			}
		}
		if r.Intn(2) == 0 { // a stream that did not negotiate comes and goes
			c.Streams = append(c.Streams, lifeStream{Inst: i})
			bound = append(bound, 0)
			ns++
			bind(int64(ns - 1))
			unbind(int64(ns - 1))
		}
		s := own[r.Intn(len(own))]
		if r.Intn(2) == 0 {
			c.Streams = append(c.Streams, lifeStream{Inst: i, IDs: []int64{int64(1 + r.Intn(14))}})
			bound = append(bound, 0)
			ns++
			s = int64(ns - 1)
		}
		bind(s)
		writes(s, 2+r.Intn(8))
		walk(r.Intn(12))
	case 4, 5: // every stream unbound, the held writers keep sending
		bs["scenario:unbind-all-then-held-writers"] = true
		i := int64(r.Intn(ni))
		own := streamsOf(i)
		for _, s := range own {
			bind(s)
			writes(s, 1+r.Intn(6))
		}
		for _, s := range own {
			unbind(s)
		}
		for k := 2 + r.Intn(10); k > 0; k-- {
			write(own[r.Intn(len(own))])
		}
		bs["write-through-held-writer-after-unbind"] = true
		walk(r.Intn(12))
	case 6: // Close in the middle of traffic
		bs["scenario:close-then-write"] = true
		bs["close"] = true
		i := int64(r.Intn(ni))
		own := streamsOf(i)
		bind(own[0])
		writes(own[0], 1+r.Intn(8))
		c.Ops = append(c.Ops, lifeOp{K: "close", I: i})
		writes(own[0], 1+r.Intn(8))
		walk(r.Intn(12))
	case 7: // bind / unbind churn of one stream while another one sends
		bs["scenario:bind-unbind-churn"] = true
		i := int64(r.Intn(ni))
		own := streamsOf(i)
		bind(own[0])
		c.Streams = append(c.Streams, lifeStream{Inst: i, IDs: []int64{int64(1 + r.Intn(14))}})
		bound = append(bound, 0)
		ns++
		t := int64(ns - 1)
		for k := 2 + r.Intn(8); k > 0; k-- {
			bind(t)
			if r.Intn(2) == 0 {
				write(t)
			}
			write(own[0])
			unbind(t)
			if r.Intn(3) == 0 {
				unbind(own[0])
				bind(own[0])
			}
			write(own[0])
		}
		walk(r.Intn(8))
	default:
		bs["random-walk"] = true
		walk(5 + r.Intn(60))
	}
	keys := []string{}
	for k := range bs {
		keys = append(keys, k)
	}
	sort.Strings(keys)

	return c, keys
}

// ---- concurrent writers on several instances, with lifecycle calls going on ----

type mconcCase struct {
	Instances int     `json:"instances"` // all made by ONE factory
	Writers   int     `json:"writers"`   // goroutines per instance
	Streams   int     `json:"streams"`   // negotiated streams per instance
	Per       int64   `json:"per"`       // writes per goroutine
	Churn     bool    `json:"churn"`     // per instance one goroutine unbinds the streams and binds / unbinds transient ones meanwhile
	Instance  int     `json:"instance"`  // which instance's numbers this case holds
	N         int64   `json:"n"`         // writes performed on the instance (writers*per + packets sent on transient streams)
	Head      []int64 `json:"head"`
	Sorted    []int64 `json:"-"`
}

type mcInst struct {
	ic    interceptor.Interceptor
	mu    sync.Mutex
	got   []int64
	ws    []interceptor.RTPWriter
	infos []*interceptor.StreamInfo
	extra int64 // packets the churn goroutine sent on its transient streams
}

// record is the downstream writer of a stream bound with extension id sid: it notes the transport number it sees.
func (in *mcInst) record(sid uint8) interceptor.RTPWriter {
	return interceptor.RTPWriterFunc(func(h *rtp.Header, _ []byte, _ interceptor.Attributes) (int, error) {
		p := h.GetExtension(sid)
		v := int64(-1)
		if len(p) == 2 {
			v = int64(p[0])*256 + int64(p[1])
		}
		in.mu.Lock()
		in.got = append(in.got, v)
		in.mu.Unlock()

		return 0, nil
	})
}

// runMConc returns one case per instance: the numbers emitted on the instance's streams, sorted.
func runMConc(c mconcCase, r *rand.Rand) []mconcCase {
	f, _ := twcc.NewHeaderExtensionInterceptor()
	reg := &interceptor.Registry{}
	reg.Add(f)
	insts := make([]*mcInst, c.Instances)
	for i := range insts {
		in := &mcInst{}
		if i%2 == 0 {
			in.ic, _ = f.NewInterceptor(fmt.Sprintf("pc-%d", i))
		} else {
			in.ic, _ = reg.Build(fmt.Sprintf("pc-%d", i))
		}
		for s := 0; s < c.Streams; s++ {
			sid := uint8(1 + r.Intn(14)) //nolint:gosec
			info := streamInfo([]int64{int64(sid)}, r)
			in.infos = append(in.infos, info)
			in.ws = append(in.ws, in.ic.BindLocalStream(info, in.record(sid)))
		}
		insts[i] = in
	}
	var wg sync.WaitGroup
	stop := make(chan struct{})
	var churn sync.WaitGroup
	for _, in := range insts {
		for w := 0; w < c.Writers; w++ {
			wg.Add(1)
			go func(in *mcInst, w int) {
				defer wg.Done()
				for i := int64(0); i < c.Per; i++ {
					_, _ = in.ws[(w+int(i))%len(in.ws)].Write(&rtp.Header{Version: 2}, nil, nil)
				}
			}(in, w)
		}
		if c.Churn {
			churn.Add(1)
			go func(in *mcInst) {
				defer churn.Done()
				for _, info := range in.infos { // the tracks are removed; their writers are still in use
					in.ic.UnbindLocalStream(info)
				}
				tmp := &interceptor.StreamInfo{SSRC: 77, RTPHeaderExtensions: []interceptor.RTPHeaderExtension{{URI: uri, ID: 9}}}
				for k := int64(0); ; k++ {
					select {
					case <-stop:
						return
					default:
					}
					w := in.ic.BindLocalStream(tmp, in.record(9))
					if in.extra < 3000 { // a short-lived stream sends a packet: it takes its number from the same run
						_, _ = w.Write(&rtp.Header{Version: 2}, nil, nil)
						in.extra++
					}
					otherCall(in.ic, k, tmp)
					in.ic.UnbindLocalStream(tmp)
					runtime.Gosched()
				}
			}(in)
		}
	}
	wg.Wait()
	close(stop)
	churn.Wait()
	out := make([]mconcCase, len(insts))
	for i, in := range insts {
		sort.Slice(in.got, func(a, b int) bool { return in.got[a] < in.got[b] })
		o := c
		o.Instance, o.N, o.Sorted, o.Head = i, int64(c.Writers)*c.Per+in.extra, in.got, in.got
		if len(o.Head) > 8 {
			o.Head = o.Head[:8]
		}
		out[i] = o
	}

	return out
}

func (c mconcCase) toCase() cq.Case {
	b := fmt.Sprintf("instances-%d-writers-%d", c.Instances, c.Writers)
	if c.Churn {
		b += "-churn"
	}

	return cq.Case{Coq: cq.T(cq.Z(c.N), segs(c.Sorted)), JSON: c, Buckets: []string{b}}
}
