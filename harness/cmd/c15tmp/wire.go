// Set c15wire: the marshalled header (rtp.Header.Marshal) of every packet before the interceptor and as it reaches
// the downstream writer. "Nothing else in the header changes" is checked on the wire image: a packet that already
// carries an element under the negotiated id must leave with the same bytes except the two value bytes.
package main

import (
	"math/rand"
	"sort"

	"github.com/pion/interceptor"
	"github.com/pion/interceptor/pkg/twcc"
	"github.com/pion/rtp"

	"verifharness/internal/cq"
)

type wireCase struct {
	SID     int64     `json:"sid"`
	Ops     []op      `json:"ops"`
	InWire  [][]int64 `json:"-"`
	Outs    []res     `json:"-"`
	OutWire [][]int64 `json:"-"`
}

// wireOf is the real marshalling of the header; empty when the header is nil or does not marshal.
func wireOf(h *rtp.Header) []int64 {
	if h == nil {
		return []int64{}
	}
	b, err := h.Marshal()
	if err != nil {
		return []int64{}
	}
	out := make([]int64, len(b))
	for i, x := range b {
		out[i] = int64(x)
	}

	return out
}

// wireSink keeps the marshalled image of what it is given (taken inside the call: the header belongs to the caller).
type wireSink struct {
	sink
	wires [][]int64
}

func (s *wireSink) Write(h *rtp.Header, p []byte, a interceptor.Attributes) (int, error) {
	s.wires = append(s.wires, wireOf(h))

	return s.sink.Write(h, p, a)
}

func runWire(c wireCase, r *rand.Rand, fails *[]cq.ImplFailure) wireCase {
	f, _ := twcc.NewHeaderExtensionInterceptor()
	ic, _ := f.NewInterceptor("")
	s := &wireSink{sink: sink{ret: 3}}
	w := ic.BindLocalStream(streamInfo([]int64{c.SID}, r), s)
	c.InWire, c.Outs, c.OutWire = nil, nil, nil
	for k, o := range c.Ops {
		c.InWire = append(c.InWire, wireOf(toHeader(o.H)))
		before := len(s.wires)
		out := observeWrite(w, &s.sink, o.H, o.PayLen, k, c, fails)
		c.Outs = append(c.Outs, out)
		if out.Kind == "forward" && len(s.wires) == before+1 {
			c.OutWire = append(c.OutWire, s.wires[before])
		} else {
			c.OutWire = append(c.OutWire, []int64{})
		}
	}

	return c
}

func genWire(r *rand.Rand) (wireCase, []string) {
	c := wireCase{SID: int64(1 + r.Intn(14))}
	bs := map[string]bool{}
	n := 1 + r.Intn(10)
	for i := 0; i < n; i++ {
		var h hdr
		var b string
		if r.Intn(2) == 0 {
			base, _ := genHdr(r, 0) // only the fixed part is used
			for base.Nil {
				base, _ = genHdr(r, 0)
			}
			base.Exts = []ext{}
			h, b = genSameID(r, base, c.SID)
		} else {
			h, b = genHdr(r, c.SID)
			for h.Nil {
				h, b = genHdr(r, c.SID)
			}
		}
		bs[b] = true
		c.Ops = append(c.Ops, op{Stream: 0, H: h, PayLen: []int{0, 1, 50, 1200}[r.Intn(4)]})
	}
	keys := []string{}
	for k := range bs {
		keys = append(keys, k)
	}
	sort.Strings(keys)

	return c, keys
}

func (c wireCase) toCase(b ...string) cq.Case {
	evs := make([]string, len(c.Ops))
	nfwd := 0
	for i, o := range c.Ops {
		out := cq.None
		if c.Outs[i].Kind == "forward" {
			out = cq.Some(cq.T(coqHdr(*c.Outs[i].H), cq.LZ(c.OutWire[i])))
			nfwd++
		}
		evs[i] = cq.T(coqHdr(o.H), cq.LZ(c.InWire[i]), out)
	}

	return cq.Case{Coq: cq.T(cq.Z(c.SID), cq.L(evs)), JSON: c, Buckets: b, Trivial: nfwd < 1}
}
