// C16: feedback that rtcp.Unmarshal accepts (or that a caller can hand to WriteRTCP as a struct)
// but that is internally inconsistent.  WriteRTCP must return (nil or an error), never panic,
// and the bounds / consistency oracle of the e2e set must still hold afterwards.
package main

import (
	"encoding/binary"
	"math/rand"

	"github.com/pion/rtcp"
)

const e2eSSRC = 77

// twccRaw builds the bytes of a TWCC feedback packet (byte builder after harness/cmd/c02).
func twccRaw(base, count uint16, refTime uint32, chunks []uint16, deltas []byte) []byte {
	body := make([]byte, 0, 64)
	b4 := make([]byte, 4)
	binary.BigEndian.PutUint32(b4, 5)
	body = append(body, b4...) // sender ssrc
	binary.BigEndian.PutUint32(b4, e2eSSRC)
	body = append(body, b4...) // media ssrc
	body = append(body, byte(base>>8), byte(base), byte(count>>8), byte(count),
		byte(refTime>>16), byte(refTime>>8), byte(refTime), 7)
	for _, c := range chunks {
		body = append(body, byte(c>>8), byte(c))
	}
	body = append(body, deltas...)
	pad := 0
	for (len(body)+4+pad)%4 != 0 {
		pad++
	}
	for i := 0; i < pad; i++ {
		if i == pad-1 {
			body = append(body, byte(pad))
		} else {
			body = append(body, 0)
		}
	}
	hdr := []byte{0x80 | 15, 205, 0, 0}
	if pad > 0 {
		hdr[0] |= 0x20
	}
	binary.BigEndian.PutUint16(hdr[2:], uint16((len(body)+4)/4-1)) //nolint:gosec

	return append(hdr, body...)
}

// ccfbRaw builds the bytes of an RFC 8888 report: blocks of (ssrc, begin_seq, num_reports, metric blocks).
func ccfbRaw(blocks [][3]int, r *rand.Rand) []byte {
	body := []byte{0, 0, 0, 5}
	for _, b := range blocks {
		h := make([]byte, 8)
		binary.BigEndian.PutUint32(h, uint32(b[0]))    //nolint:gosec
		binary.BigEndian.PutUint16(h[4:], uint16(b[1])) //nolint:gosec
		binary.BigEndian.PutUint16(h[6:], uint16(b[2])) //nolint:gosec
		body = append(body, h...)
		n := b[2]
		for k := 0; k < n+(n%2); k++ {
			body = append(body, byte(r.Intn(256)), byte(r.Intn(256)))
		}
	}
	ts := r.Uint32()
	body = append(body, byte(ts>>24), byte(ts>>16), byte(ts>>8), byte(ts))
	hdr := []byte{0x80 | 11, 205, 0, 0}
	binary.BigEndian.PutUint16(hdr[2:], uint16((len(body)+4)/4-1)) //nolint:gosec

	return append(hdr, body...)
}

func rlChunk(symbol, run int) uint16 { return uint16(symbol&3)<<13 | uint16(run&0x1fff) } //nolint:gosec

func svChunk2(symbols []int) uint16 { // two-bit symbols, 7 per chunk
	c := uint16(0xC000)
	for i := 0; i < 7; i++ {
		s := 0
		if i < len(symbols) {
			s = symbols[i] & 3
		}
		c |= uint16(s) << (12 - 2*i) //nolint:gosec
	}

	return c
}

func svChunk1(bits int) uint16 { return 0x8000 | uint16(bits&0x3fff) } //nolint:gosec

// malformedFeedback returns inconsistent feedback packets around the sequence numbers [first, next)
// the stream has sent, with the name of the shape of each.
//
//nolint:gocognit,cyclop,maintidx
func malformedFeedback(r *rand.Rand, first, next uint16, kind string) ([]rtcp.Packet, []string) {
	var pkts []rtcp.Packet
	var shapes []string
	parse := func(shape string, raw []byte) {
		ps, err := rtcp.Unmarshal(raw)
		if err != nil {
			shapes = append(shapes, "rejected-by-unmarshal")

			return
		}
		pkts = append(pkts, ps...)
		shapes = append(shapes, shape)
	}
	deltas := func(n int, large bool) []byte {
		var d []byte
		for i := 0; i < n; i++ {
			if large {
				d = append(d, byte(r.Intn(256)), byte(r.Intn(256)))
			} else {
				d = append(d, byte(r.Intn(256)))
			}
		}

		return d
	}
	span := int(next - first)
	if span <= 0 {
		span = 1
	}
	base := first + uint16(r.Intn(span)) //nolint:gosec
	ref := uint32(r.Intn(1 << 24))       //nolint:gosec
	twcc := kind != "malformed-ccfb"
	ccfb := kind != "malformed-twcc"
	if twcc {
		// raw bytes through rtcp.Unmarshal
		n := 1 + r.Intn(6)
		// run length beyond the status count: Unmarshal creates deltas for the count only, the chunk keeps its run
		parse("raw:run-beyond-status-count", twccRaw(base, uint16(n), ref, []uint16{rlChunk(1, n+1+r.Intn(30))}, deltas(n, false))) //nolint:gosec
		parse("raw:large-run-beyond-status-count", twccRaw(base, uint16(n), ref, []uint16{rlChunk(2, n+1+r.Intn(30))}, deltas(n, true)))
		// status vector carrying more received symbols than the status count
		parse("raw:vector-beyond-status-count", twccRaw(base, uint16(n), ref, []uint16{svChunk2([]int{1, 2, 1, 1, 2, 1, 1})}, append(deltas(5, false), deltas(2, true)...)))
		parse("raw:onebit-vector-beyond-status-count", twccRaw(base, 3, ref, []uint16{svChunk1(0x3fff)}, deltas(14, false)))
		// run of received packets followed by a vector, deltas only for part
		parse("raw:too-few-delta-bytes", twccRaw(base, 20, ref, []uint16{rlChunk(1, 13), svChunk2([]int{1, 1, 1, 1, 1, 1, 1})}, deltas(r.Intn(12), false)))
		// zero packets, zero-length run
		parse("raw:zero-status-count", twccRaw(base, 0, ref, nil, nil))
		parse("raw:zero-run-length", twccRaw(base, 1, ref, []uint16{rlChunk(1, 0), rlChunk(1, 1)}, deltas(1, false)))
		// status count larger than the chunks cover
		parse("raw:status-count-beyond-chunks", twccRaw(base, 500, ref, []uint16{rlChunk(1, 3)}, deltas(3, false)))
		// maximal run of lost packets, wrapping the sequence space
		parse("raw:max-lost-run", twccRaw(65000, 8191, ref, []uint16{rlChunk(0, 8191)}, nil))
		parse("raw:received-without-delta-symbols", twccRaw(base, 7, ref, []uint16{svChunk2([]int{3, 3, 1, 3, 0, 3, 3})}, deltas(1, false)))
		// struct level: what a caller of WriteRTCP can pass without going through Unmarshal
		mk := func(chunks []rtcp.PacketStatusChunk, nd int, cnt uint16) *rtcp.TransportLayerCC {
			t := &rtcp.TransportLayerCC{
				SenderSSRC: 5, MediaSSRC: e2eSSRC, BaseSequenceNumber: base, PacketStatusCount: cnt,
				ReferenceTime: ref, FbPktCount: 3, PacketChunks: chunks,
			}
			for i := 0; i < nd; i++ {
				t.RecvDeltas = append(t.RecvDeltas, &rtcp.RecvDelta{Type: rtcp.TypeTCCPacketReceivedSmallDelta, Delta: int64(r.Intn(64000))})
			}

			return t
		}
		sv := func(syms ...uint16) *rtcp.StatusVectorChunk {
			return &rtcp.StatusVectorChunk{Type: rtcp.TypeTCCStatusVectorChunk, SymbolSize: rtcp.TypeTCCSymbolSizeTwoBit, SymbolList: syms}
		}
		rl := func(sym uint16, run uint16) *rtcp.RunLengthChunk {
			return &rtcp.RunLengthChunk{Type: rtcp.TypeTCCRunLengthChunk, PacketStatusSymbol: sym, RunLength: run}
		}
		const rs, rlg, lost = rtcp.TypeTCCPacketReceivedSmallDelta, rtcp.TypeTCCPacketReceivedLargeDelta, rtcp.TypeTCCPacketNotReceived
		for nd := 0; nd <= 4; nd++ { // status vector with 0..4 deltas for 5 received symbols (incl. exactly one / two short)
			pkts = append(pkts, mk([]rtcp.PacketStatusChunk{sv(rs, rs, lost, rlg, rs, rs, lost)}, nd, 7))
			shapes = append(shapes, "struct:vector-fewer-deltas-than-received")
		}
		for nd := 0; nd <= 3; nd++ {
			pkts = append(pkts, mk([]rtcp.PacketStatusChunk{rl(rs, 4)}, nd, 4))
			shapes = append(shapes, "struct:run-fewer-deltas-than-received")
		}
		pkts = append(pkts,
			mk([]rtcp.PacketStatusChunk{rl(rs, 3), sv(rs, rs, rs)}, 5, 6), // the vector finds 2 of 3
			mk([]rtcp.PacketStatusChunk{rl(lost, 5), sv(rs, lost, rs)}, 1, 8),
			mk([]rtcp.PacketStatusChunk{sv()}, 0, 0),
			mk(nil, 3, 9),
			mk([]rtcp.PacketStatusChunk{rl(rs, 2)}, 40, 2), // more deltas than symbols
			mk([]rtcp.PacketStatusChunk{rl(rs, 8191), rl(rs, 8191)}, 16382, 16382))
		shapes = append(shapes, "struct:run-then-vector-short", "struct:lost-run-then-vector-short", "struct:empty-vector",
			"struct:no-chunks", "struct:surplus-deltas", "struct:two-max-runs")
		// duplicated / overlapping: the same report twice and a report overlapping it by half
		dup := mk([]rtcp.PacketStatusChunk{rl(rs, 6)}, 6, 6)
		ov := mk([]rtcp.PacketStatusChunk{rl(rs, 6)}, 6, 6)
		ov.BaseSequenceNumber = base + 3
		pkts = append(pkts, dup, dup, ov)
		shapes = append(shapes, "struct:duplicate", "struct:duplicate", "struct:overlap")
	}
	if ccfb {
		// RFC 8888 raw: ranges wrapping 65535 -> 0, zero reports, odd counts, foreign ssrc, repeated blocks
		parse("raw8888:wrapped-range", ccfbRaw([][3]int{{e2eSSRC, 65530, 12}}, r))
		parse("raw8888:zero-reports", ccfbRaw([][3]int{{e2eSSRC, int(base), 0}}, r))
		parse("raw8888:odd-count", ccfbRaw([][3]int{{e2eSSRC, int(base), 1 + 2*r.Intn(5)}}, r))
		parse("raw8888:overlapping-blocks", ccfbRaw([][3]int{{e2eSSRC, int(base), 8}, {e2eSSRC, int(base) + 4, 8}, {e2eSSRC, int(base), 8}}, r))
		parse("raw8888:foreign-ssrc", ccfbRaw([][3]int{{e2eSSRC + 1, int(base), 6}}, r))
		parse("raw8888:no-blocks", ccfbRaw(nil, r))
		parse("raw8888:large-range", ccfbRaw([][3]int{{e2eSSRC, int(first), 16384}}, r))
		// struct level
		mb := make([]rtcp.CCFeedbackMetricBlock, 40)
		for i := range mb {
			mb[i] = rtcp.CCFeedbackMetricBlock{Received: r.Intn(2) == 0, ECN: rtcp.ECN(r.Intn(4)), ArrivalTimeOffset: uint16(r.Intn(65536))} //nolint:gosec
		}
		pkts = append(pkts,
			&rtcp.CCFeedbackReport{SenderSSRC: 5, ReportTimestamp: r.Uint32(), ReportBlocks: []rtcp.CCFeedbackReportBlock{
				{MediaSSRC: 0, BeginSequence: 65520, MetricBlocks: mb}, {MediaSSRC: e2eSSRC, BeginSequence: next - 20, MetricBlocks: mb},
			}},
			&rtcp.CCFeedbackReport{SenderSSRC: 5, ReportTimestamp: 0},
			&rtcp.CCFeedbackReport{SenderSSRC: 5, ReportTimestamp: 0xffffffff, ReportBlocks: []rtcp.CCFeedbackReportBlock{{MediaSSRC: 0, BeginSequence: first}}})
		shapes = append(shapes, "struct8888:wrapped-and-beyond-sent", "struct8888:empty", "struct8888:block-without-metrics")
	}

	return pkts, shapes
}
