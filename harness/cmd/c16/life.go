// C16 round-4 strengthening: sequential life-cycle histories (set c16life) of one SendSideBWE with a
// user-supplied pacer whose Close reports an error according to a script, and the scripted pacer used by
// the other sets (e2e, conc) as one more configuration dimension.
package main

import (
	"errors"
	"fmt"
	"math/rand"
	"sync"
	"sync/atomic"
	"time"

	"github.com/pion/interceptor"
	"github.com/pion/interceptor/pkg/gcc"
	"github.com/pion/interceptor/pkg/twcc"
	"github.com/pion/rtcp"
	"github.com/pion/rtp"

	"verifharness/internal/cq"
)

var errPacerClose = errors.New("verif: the user-supplied pacer failed to close")

// scriptedPacer is a user-supplied gcc.Pacer (option SendSideBWEPacer): everything is forwarded to a real
// pacer (the NoOp or the leaky bucket pacer) and recorded; the k-th call of Close closes the inner pacer and
// then reports errPacerClose when script[k] says so (calls beyond the script: what the inner pacer returned).
type scriptedPacer struct {
	inner  gcc.Pacer
	script []bool
	mu     sync.Mutex
	log    []int64
	calls  atomic.Int64
}

func (p *scriptedPacer) Write(h *rtp.Header, b []byte, a interceptor.Attributes) (int, error) {
	return p.inner.Write(h, b, a)
}

func (p *scriptedPacer) AddStream(ssrc uint32, w interceptor.RTPWriter) { p.inner.AddStream(ssrc, w) }

func (p *scriptedPacer) SetTargetBitrate(r int) {
	p.mu.Lock()
	p.log = append(p.log, int64(r))
	p.mu.Unlock()
	p.inner.SetTargetBitrate(r)
}

func (p *scriptedPacer) Close() error {
	k := int(p.calls.Add(1)) - 1
	err := p.inner.Close()
	if k < len(p.script) && p.script[k] {
		return errPacerClose
	}

	return err
}

func (p *scriptedPacer) snapshot() []int64 {
	p.mu.Lock()
	defer p.mu.Unlock()

	return append([]int64{}, p.log...)
}

// willFail: what the next call of Close would report.
func (p *scriptedPacer) willFail() bool {
	k := int(p.calls.Load())

	return k < len(p.script) && p.script[k]
}

func newScriptedPacer(leaky bool, initial int, script []bool) *scriptedPacer {
	var inner gcc.Pacer = gcc.NewNoOpPacer()
	if leaky {
		inner = gcc.NewLeakyBucketPacer(initial)
	}

	return &scriptedPacer{inner: inner, script: script}
}

// ---- c16life ----

type lifeOp struct {
	Kind  string `json:"kind"`            // write | close | get
	N     int    `json:"n,omitempty"`     // write: number of feedback packets (TWCC / RFC 8888) handed to WriteRTCP
	Shape string `json:"shape,omitempty"` // write: twcc | ccfb-empty | mixed | none | other-rtcp
	// observed
	PErr   bool   `json:"perr"`   // close: what the pacer's Close would report if this call gets to call it
	Res    int64  `json:"res"`    // 0 nil / returned, 1 closed error, 2 the pacer's error, 3 other error, 4 panic, 5 no return
	PCalls int64  `json:"pcalls"` // calls of the pacer's Close so far
	Detail string `json:"detail,omitempty"`
}

type lifeCase struct {
	Seed           int64
	Min, Max, Init int64
	Leaky          bool   // inner pacer: leaky bucket (own goroutine) instead of NoOp
	Script         []bool // result of the k-th call of the pacer's Close: true = error
	NoCB           bool
	Pattern        string
	Ops            []lifeOp
}

//nolint:gocognit,cyclop
func runLife(c lifeCase, fails *[]cq.ImplFailure) lifeCase {
	r := rand.New(rand.NewSource(c.Seed)) //nolint:gosec
	p := newScriptedPacer(c.Leaky, int(c.Init), c.Script)
	bwe, err := gcc.NewSendSideBWE(gcc.SendSideBWEInitialBitrate(int(c.Init)), gcc.SendSideBWEMinBitrate(int(c.Min)),
		gcc.SendSideBWEMaxBitrate(int(c.Max)), gcc.SendSideBWEPacer(p))
	if err != nil {
		panic(err)
	}
	if !c.NoCB {
		bwe.OnTargetBitrateChange(func(int) { _ = bwe.GetTargetBitrate() })
	}
	var forwarded atomic.Int64
	info := &interceptor.StreamInfo{SSRC: 77, RTPHeaderExtensions: []interceptor.RTPHeaderExtension{{URI: twccURI, ID: 1}}}
	w := bwe.AddStream(info, interceptor.RTPWriterFunc(func(*rtp.Header, []byte, interceptor.Attributes) (int, error) {
		forwarded.Add(1)

		return 0, nil
	}))
	// the feedback of every write is built up front by the real recorder from packets really sent
	rec := twcc.NewRecorder(5)
	seq := uint16(r.Intn(65536)) //nolint:gosec
	arrival := int64(1000000)
	oneTWCC := func() []rtcp.Packet {
		n := 3 + r.Intn(10)
		sent := forwarded.Load()
		first := seq
		for i := 0; i < n; i++ {
			h := &rtp.Header{Version: 2, SSRC: 77, SequenceNumber: seq}
			tcc, _ := (&rtp.TransportCCExtension{TransportSequence: seq}).Marshal()
			_ = h.SetExtension(1, tcc)
			_, _ = w.Write(h, make([]byte, 200), nil)
			seq++
		}
		for dl := time.Now().Add(2 * time.Second); forwarded.Load() < sent+int64(n) && time.Now().Before(dl); {
			time.Sleep(time.Millisecond)
		}
		for i := 0; i < n; i++ {
			switch c.Pattern {
			case "overuse":
				arrival += int64(20000 + i*4000)
			case "identical":
			case "lossy":
				arrival += int64(r.Intn(20000))
				if r.Intn(2) == 0 {
					continue
				}
			default:
				arrival += int64(r.Intn(20000))
			}
			rec.Record(77, first+uint16(i), arrival) //nolint:gosec
		}

		return rec.BuildFeedbackPacket()
	}
	feedback := make([][]rtcp.Packet, len(c.Ops))
	for i := range c.Ops {
		o := &c.Ops[i]
		if o.Kind != "write" {
			continue
		}
		var pkts []rtcp.Packet
		switch o.Shape {
		case "none":
		case "other-rtcp":
			pkts = []rtcp.Packet{&rtcp.ReceiverReport{SSRC: 5}, &rtcp.PictureLossIndication{SenderSSRC: 5, MediaSSRC: 77}}
		case "ccfb-empty":
			pkts = []rtcp.Packet{&rtcp.CCFeedbackReport{SenderSSRC: 5, ReportTimestamp: r.Uint32()}}
		case "mixed":
			pkts = append([]rtcp.Packet{&rtcp.ReceiverReport{SSRC: 5}}, oneTWCC()...)
			pkts = append(pkts, &rtcp.CCFeedbackReport{SenderSSRC: 5, ReportTimestamp: r.Uint32()})
			pkts = append(pkts, oneTWCC()...)
		default:
			pkts = oneTWCC()
		}
		feedback[i] = pkts
		o.N = 0
		for _, pk := range pkts {
			switch pk.(type) {
			case *rtcp.TransportLayerCC, *rtcp.CCFeedbackReport:
				o.N++
			}
		}
	}
	code := func(err error) int64 {
		switch {
		case err == nil:
			return 0
		case errors.Is(err, gcc.ErrSendSideBWEClosed):
			return 1
		case errors.Is(err, errPacerClose):
			return 2
		default:
			return 3
		}
	}
	for i := range c.Ops {
		o := &c.Ops[i]
		o.PErr, o.Detail = false, ""
		if o.Kind == "close" {
			o.PErr = p.willFail()
		}
		type out struct {
			res    int64
			detail string
		}
		done := make(chan out, 1)
		go func() {
			defer func() {
				if x := recover(); x != nil {
					done <- out{4, fmt.Sprintf("panic: %v", x)}
				}
			}()
			switch o.Kind {
			case "write":
				err := bwe.WriteRTCP(feedback[i], nil)
				d := ""
				if err != nil {
					d = err.Error()
				}
				done <- out{code(err), d}
			case "close":
				err := bwe.Close()
				d := ""
				if err != nil {
					d = err.Error()
				}
				done <- out{code(err), d}
			default:
				_ = bwe.GetTargetBitrate()
				_ = bwe.GetStats()
				done <- out{0, ""}
			}
		}()
		select {
		case x := <-done:
			o.Res, o.Detail = x.res, x.detail
		case <-time.After(3 * time.Second):
			o.Res, o.Detail = 5, "did not return within 3s"
		}
		o.PCalls = p.calls.Load()
		if o.Res == 5 {
			// the call is stuck: what follows would only wait behind it
			for k := i + 1; k < len(c.Ops); k++ {
				c.Ops[k].Res, c.Ops[k].PCalls, c.Ops[k].Detail = 5, o.PCalls, "not attempted: an earlier call did not return"
			}

			break
		}
	}
	// leave nothing behind whatever happened above (the inner pacer is closed by the scripted one)
	cleaned := make(chan struct{})
	go func() {
		defer close(cleaned)
		defer func() { _ = recover() }()
		_ = bwe.Close()
	}()
	select {
	case <-cleaned:
	case <-time.After(3 * time.Second):
	}
	if p.calls.Load() == 0 {
		_ = p.inner.Close()
	}
	_ = fails

	return c
}

func (c lifeCase) toCase(extra ...string) cq.Case {
	obs := make([]string, len(c.Ops))
	seen := map[string]bool{}
	closed, failedClose := false, false
	for i, o := range c.Ops {
		var op string
		switch o.Kind {
		case "write":
			op = cq.C("LWrite", fmt.Sprintf("%d%%nat", o.N))
			switch {
			case closed && failedClose && o.N > 0:
				seen["feedback-after-failed-close"] = true
			case closed && failedClose:
				seen["empty-write-after-failed-close"] = true
			case closed:
				seen["write-after-close"] = true
			default:
				seen["write-before-close"] = true
			}
			seen["shape="+o.Shape] = true
		case "close":
			op = cq.C("LClose", cq.B(o.PErr))
			switch {
			case !closed && o.PErr:
				seen["first-close-pacer-fails"] = true
				failedClose = true
			case !closed:
				seen["first-close-pacer-ok"] = true
			case failedClose:
				seen["close-again-after-failed-close"] = true
			default:
				seen["close-again"] = true
			}
			closed = true
		default:
			op = "LGet"
		}
		obs[i] = cq.T(op, cq.Z(o.Res), cq.Z(o.PCalls))
	}
	if !closed {
		seen["never-closed"] = true
	}
	if c.Leaky {
		seen["inner=leaky"] = true
	} else {
		seen["inner=noop"] = true
	}
	b := append([]string{}, extra...)
	for k := range seen {
		b = append(b, k)
	}

	return cq.Case{
		Coq: cq.L(obs), JSON: c, Buckets: b,
		// non-trivial: a WriteRTCP or a Close follows a Close
		Trivial: !(seen["feedback-after-failed-close"] || seen["empty-write-after-failed-close"] || seen["write-after-close"] ||
			seen["close-again-after-failed-close"] || seen["close-again"]),
	}
}

func genLife(r *rand.Rand, i int) lifeCase {
	c := lifeCase{Seed: r.Int63(), Leaky: i%3 == 1, NoCB: i%5 == 4, Pattern: []string{"normal", "overuse", "identical", "lossy"}[i%4]}
	switch i % 3 {
	case 0:
		c.Min, c.Max, c.Init = 5000, 50000000, 10000
	case 1:
		c.Min, c.Max, c.Init = 300000, 20000000, 1000000
	default:
		c.Min = 1 + int64(r.Intn(500000))
		c.Max = c.Min + int64(r.Intn(3000000))
		c.Init = c.Min + r.Int63n(c.Max-c.Min+1)
	}
	// what the pacer's Close reports: fails the first time / every time / never / at random
	switch r.Intn(4) {
	case 0:
		c.Script = []bool{true}
	case 1:
		c.Script = []bool{true, true, true, true, true, true, true, true}
	case 2:
		c.Script = nil
	default:
		for k := 0; k < 4; k++ {
			c.Script = append(c.Script, r.Intn(2) == 0)
		}
	}
	shapes := []string{"twcc", "twcc", "twcc", "mixed", "ccfb-empty", "none", "other-rtcp"}
	n := 2 + r.Intn(9)
	closeAt := r.Intn(n + 1) // n: never closed
	for k := 0; k < n; k++ {
		switch {
		case k == closeAt || (k > closeAt && r.Intn(4) == 0):
			c.Ops = append(c.Ops, lifeOp{Kind: "close"})
		case r.Intn(6) == 0:
			c.Ops = append(c.Ops, lifeOp{Kind: "get"})
		default:
			c.Ops = append(c.Ops, lifeOp{Kind: "write", Shape: shapes[r.Intn(len(shapes))]})
		}
	}

	return c
}
