// Generator for C16: GCC send-side bandwidth estimator, decision layer + end-to-end.
package main

import (
	"errors"
	"fmt"
	"math/rand"
	"sort"
	"strings"
	"sync"
	"time"

	"github.com/pion/interceptor"
	"github.com/pion/interceptor/pkg/gcc"
	"github.com/pion/interceptor/pkg/twcc"
	"github.com/pion/rtcp"
	"github.com/pion/rtp"

	"verifharness/internal/cq"
)

const twccURI = "http://www.ietf.org/id/draft-holmer-rmcat-transport-wide-cc-extensions-01"

type pacer struct {
	*gcc.NoOpPacer
	mu  sync.Mutex
	log []int64
}

func (p *pacer) SetTargetBitrate(r int) {
	p.mu.Lock()
	p.log = append(p.log, int64(r))
	p.mu.Unlock()
}

func (p *pacer) snapshot() []int64 {
	p.mu.Lock()
	defer p.mu.Unlock()

	return append([]int64{}, p.log...)
}

type dop struct {
	Kind  string `json:"kind"` // delay | loss | rate
	Use   int    `json:"use,omitempty"`
	St    int    `json:"st,omitempty"`
	N     int    `json:"n,omitempty"`
	Lost  int    `json:"lost,omitempty"`
	Rearm bool   `json:"rearm,omitempty"`
	Rate  int64  `json:"rate,omitempty"`
	// observed
	Raw     int64 `json:"raw"`
	Changed bool  `json:"changed"`
}

type decCase struct {
	NoCB           bool // no OnTargetBitrateChange callback registered
	Min, Max, Init int64
	Ops            []dop
	Obs            [][4]int64
	Pacer          []int64
	CB             []int64
}

func runDec(c decCase, fails *[]cq.ImplFailure) decCase {
	p := &pacer{NoOpPacer: gcc.NewNoOpPacer()}
	bwe, err := gcc.NewSendSideBWE(gcc.SendSideBWEInitialBitrate(int(c.Init)), gcc.SendSideBWEMinBitrate(int(c.Min)),
		gcc.SendSideBWEMaxBitrate(int(c.Max)), gcc.SendSideBWEPacer(p))
	if err != nil {
		panic(err)
	}
	cbCh := make(chan int64, 1024)
	if !c.NoCB {
		bwe.OnTargetBitrateChange(func(b int) { cbCh <- int64(b) })
	}
	c.Obs, c.CB = nil, nil
	hung := false
	lossBitrate := c.Init
	for i := range c.Ops {
		o := &c.Ops[i]
		nBefore := len(p.snapshot())
		var target int64
		opDone := make(chan struct{})
		go func() {
			defer close(opDone)
			switch o.Kind {
			case "delay":
				target = int64(gcc.VerifOnDelayStats(bwe, o.Use, o.St))
				o.Raw = target
			case "loss":
				b, a := gcc.VerifLossUpdate(bwe, o.N, o.Lost, o.Rearm)
				o.Changed = a != b
				o.Raw = int64(a)
				target = -1
			default:
				gcc.VerifSetReceivedRate(bwe, int(o.Rate))
				target = -1
			}
		}()
		select {
		case <-opDone:
		case <-time.After(3 * time.Second):
			*fails = append(*fails, cq.ImplFailure{Kind: "hang", Detail: fmt.Sprintf("op %d (%s) did not return within 3s", i, o.Kind), Case: c})
			hung = true
		}
		if hung {
			break
		}
		logNow := p.snapshot()
		for k := nBefore; k < len(logNow) && !c.NoCB; k++ {
			select {
			case v := <-cbCh:
				c.CB = append(c.CB, v)
			case <-time.After(2 * time.Second):
				*fails = append(*fails, cq.ImplFailure{Kind: "callback-missing", Detail: "pacer was told a rate but the callback was not invoked", Case: c})
			}
		}
		if o.Kind == "rate" {
			continue
		}
		// loss bitrate as the estimator reports it: VerifLossUpdate with zero acks returns it unchanged
		_, lb := gcc.VerifLossUpdate(bwe, 0, 0, false)
		lossBitrate = int64(lb)
		if target < 0 {
			target = int64(gcc.VerifOnDelayStatsPeek(bwe))
		}
		c.Obs = append(c.Obs, [4]int64{target, lossBitrate, int64(bwe.GetTargetBitrate()), int64(len(logNow))})
	}
	select {
	case v := <-cbCh:
		*fails = append(*fails, cq.ImplFailure{Kind: "callback-extra", Detail: fmt.Sprintf("callback %d without pacer call", v), Case: c})
	default:
	}
	c.Pacer = p.snapshot()
	if c.NoCB {
		c.CB = c.Pacer // nothing to compare: the callback log is defined as the pacer log
	}
	if hung {
		return c
	}
	done := make(chan error, 1)
	go func() { done <- bwe.Close() }()
	select {
	case <-done:
	case <-time.After(3 * time.Second):
		*fails = append(*fails, cq.ImplFailure{Kind: "close-blocks", Detail: "Close did not return", Case: c})
	}

	return c
}

func (c decCase) toCase(b ...string) cq.Case {
	ops := []string{}
	for _, o := range c.Ops {
		switch o.Kind {
		case "delay":
			ops = append(ops, cq.C("DelayStats", cq.Z(int64(o.Use)), cq.Z(int64(o.St)), cq.Z(o.Raw)))
		case "loss":
			if o.Changed {
				ops = append(ops, cq.C("LossUpdate", cq.Some(cq.Z(o.Raw))))
			} else {
				ops = append(ops, cq.C("LossUpdate", cq.None))
			}
		}
	}
	obs := make([]string, len(c.Obs))
	for i, q := range c.Obs {
		obs[i] = cq.T(cq.Z(q[0]), cq.Z(q[1]), cq.Z(q[2]), cq.Z(q[3]))
	}

	return cq.Case{
		Coq:  cq.T(cq.Z(c.Min), cq.Z(c.Max), cq.Z(c.Init), cq.L(ops), cq.L(obs), cq.LZ(c.Pacer), cq.LZ(c.CB)),
		JSON: c, Buckets: b, Trivial: len(c.Pacer) < 1,
	}
}

func genDec(r *rand.Rand) (decCase, []string) {
	c := decCase{}
	bucket := ""
	switch r.Intn(5) {
	case 0:
		bucket = "default-config"
		c.Min, c.Max, c.Init = 5000, 50000000, 10000
	case 1:
		bucket = "min-above-loss-floor"
		c.Min = 100001 + int64(r.Intn(900000))
		c.Max = c.Min + int64(r.Intn(5000000))
		c.Init = c.Min + r.Int63n(c.Max-c.Min+1)
	case 2:
		bucket = "narrow"
		c.Min = 1 + int64(r.Intn(300000))
		c.Max = c.Min + int64(r.Intn(3))
		c.Init = c.Min + r.Int63n(c.Max-c.Min+1)
	case 3:
		bucket = "max-above-loss-ceiling"
		c.Min = 50000
		c.Max = 100000000 + int64(r.Intn(1000000000))
		c.Init = c.Min + r.Int63n(c.Max-c.Min+1)
	default:
		bucket = "random"
		c.Min = 1 + int64(r.Intn(2000000))
		c.Max = c.Min + int64(r.Intn(20000000))
		c.Init = c.Min + r.Int63n(c.Max-c.Min+1)
	}
	if r.Intn(4) == 0 {
		c.NoCB = true
		bucket += "+no-callback"
	}
	n := 3 + r.Intn(30)
	for i := 0; i < n; i++ {
		switch r.Intn(7) {
		case 0, 1, 2:
			c.Ops = append(c.Ops, dop{Kind: "delay", Use: r.Intn(3), St: []int{0, 0, 0, 1, 2, 7}[r.Intn(6)]})
		case 3, 4:
			nn := 1 + r.Intn(50)
			lost := 0
			switch r.Intn(3) {
			case 0:
				lost = nn
			case 1:
				lost = r.Intn(nn + 1)
			}
			c.Ops = append(c.Ops, dop{Kind: "loss", N: nn, Lost: lost, Rearm: r.Intn(3) != 0})
		default:
			rates := []int64{0, 1, 1000, 100000, 1000000, 50000000, 4000000000, 9000000000000000000, -5}
			c.Ops = append(c.Ops, dop{Kind: "rate", Rate: rates[r.Intn(len(rates))]})
		}
	}

	return c, []string{bucket}
}

type e2eCase struct {
	NoCB           bool
	Min, Max, Init int64
	Seed           int64
	Pattern        string
	Pacer          []int64
	CB             []int64
	Final          int64
	ClosedOK       int64
	Shapes         []string `json:",omitempty"` // malformed feedback shapes fed (malformed-* patterns)
	PacerCloseErr  bool     `json:",omitempty"` // the user-supplied pacer's Close reports an error
}

// recPacer is what the sets need of the pacer they inject.
type recPacer interface {
	gcc.Pacer
	snapshot() []int64
}

func runE2E(c e2eCase, fails *[]cq.ImplFailure) e2eCase {
	r := rand.New(rand.NewSource(c.Seed)) //nolint:gosec
	var p recPacer = &pacer{NoOpPacer: gcc.NewNoOpPacer()}
	if c.PacerCloseErr {
		p = newScriptedPacer(false, int(c.Init), []bool{true})
	}
	bwe, err := gcc.NewSendSideBWE(gcc.SendSideBWEInitialBitrate(int(c.Init)), gcc.SendSideBWEMinBitrate(int(c.Min)),
		gcc.SendSideBWEMaxBitrate(int(c.Max)), gcc.SendSideBWEPacer(p))
	if err != nil {
		panic(err)
	}
	var cbMu sync.Mutex
	var cbs []int64
	var cbWG sync.WaitGroup
	if !c.NoCB {
		bwe.OnTargetBitrateChange(func(b int) {
			cbMu.Lock()
			cbs = append(cbs, int64(b))
			cbMu.Unlock()
		})
	}
	_ = cbWG
	info := &interceptor.StreamInfo{SSRC: 77, RTPHeaderExtensions: []interceptor.RTPHeaderExtension{{URI: twccURI, ID: 1}}}
	w := bwe.AddStream(info, interceptor.RTPWriterFunc(func(*rtp.Header, []byte, interceptor.Attributes) (int, error) { return 0, nil }))
	rec := twcc.NewRecorder(5)
	seq := uint16(r.Intn(65536)) //nolint:gosec
	arrival := int64(1000000)
	feedPkts := func(pkts []rtcp.Packet, what string) bool {
		done := make(chan error, 1)
		go func() {
			defer func() {
				if x := recover(); x != nil {
					*fails = append(*fails, cq.ImplFailure{Kind: "panic", Detail: fmt.Sprintf("WriteRTCP panicked on %s: %v", what, x), Case: c})
					done <- nil
				}
			}()
			done <- bwe.WriteRTCP(pkts, nil)
		}()
		select {
		case <-done:
			return true
		case <-time.After(3 * time.Second):
			*fails = append(*fails, cq.ImplFailure{Kind: "feedback-blocks", Detail: "WriteRTCP did not return within 3s on " + what, Case: c})

			return false
		}
	}
	shapesSeen := map[string]bool{}
	firstSeq := seq
	feed := func() bool {
		pkts := rec.BuildFeedbackPacket()
		if strings.HasPrefix(c.Pattern, "malformed") {
			bad, shapes := malformedFeedback(r, firstSeq, seq, c.Pattern)
			for _, sh := range shapes {
				shapesSeen[sh] = true
			}
			for i, pk := range bad {
				if !feedPkts([]rtcp.Packet{pk}, fmt.Sprintf("%T #%d of the round", pk, i)) {
					return false
				}
			}
			if !feedPkts(append(append([]rtcp.Packet{}, bad...), pkts...), "the malformed batch followed by the real feedback") {
				return false
			}
		}
		done := make(chan error, 1)
		go func() { done <- bwe.WriteRTCP(pkts, nil) }()
		select {
		case <-done:
			return true
		case <-time.After(3 * time.Second):
			*fails = append(*fails, cq.ImplFailure{Kind: "feedback-blocks", Detail: "WriteRTCP did not return within 3s", Case: c})

			return false
		}
	}
	rounds := 12
	for round := 0; round < rounds; round++ {
		n := 5 + r.Intn(40)
		for i := 0; i < n; i++ {
			h := &rtp.Header{Version: 2, SSRC: 77, SequenceNumber: seq}
			tcc, _ := (&rtp.TransportCCExtension{TransportSequence: seq}).Marshal()
			_ = h.SetExtension(1, tcc)
			_, _ = w.Write(h, make([]byte, 1200), nil)
			lost := false
			switch c.Pattern {
			case "all-lost":
				lost = true
			case "half-lost":
				lost = r.Intn(2) == 0
			case "identical-arrivals":
			case "decreasing":
				arrival -= int64(r.Intn(3000))
			case "huge-gaps":
				arrival += int64(r.Intn(2000000))
			case "overuse":
				arrival += int64(20000 + i*4000)
			default:
				arrival += int64(r.Intn(20000))
			}
			if !lost {
				rec.Record(77, seq, arrival)
			}
			if c.Pattern == "duplicated" && r.Intn(3) == 0 {
				rec.Record(77, seq, arrival+int64(r.Intn(500)))
			}
			seq++
		}
		if !feed() {
			break
		}
		time.Sleep(2 * time.Millisecond)
	}
	time.Sleep(30 * time.Millisecond)
	done := make(chan error, 1)
	go func() { done <- bwe.Close() }()
	select {
	case cerr := <-done:
		// Close returns what the pacer's Close reported: nil, or the injected error of the scripted pacer
		if c.PacerCloseErr != errors.Is(cerr, errPacerClose) || (!c.PacerCloseErr && cerr != nil) {
			*fails = append(*fails, cq.ImplFailure{Kind: "close-error", Detail: fmt.Sprintf("Close returned %v (pacer's Close reports an error: %v)", cerr, c.PacerCloseErr), Case: c})
		}
	case <-time.After(3 * time.Second):
		*fails = append(*fails, cq.ImplFailure{Kind: "close-blocks", Detail: "Close did not return", Case: c})
	}
	time.Sleep(5 * time.Millisecond)
	// after Close - whatever it returned - feedback fails with the closed error (never a panic, never a hang)
	after := make(chan error, 1)
	go func() {
		defer func() {
			if x := recover(); x != nil {
				after <- fmt.Errorf("panic: %v", x) //nolint:err113
			}
		}()
		after <- bwe.WriteRTCP(rec.BuildFeedbackPacket(), nil)
	}()
	select {
	case aerr := <-after:
		if errors.Is(aerr, gcc.ErrSendSideBWEClosed) {
			c.ClosedOK = 1
		}
	case <-time.After(3 * time.Second):
	}
	c.Pacer = p.snapshot()
	cbMu.Lock()
	c.CB = append([]int64{}, cbs...)
	cbMu.Unlock()
	if c.NoCB {
		c.CB = c.Pacer
	}
	c.Final = int64(bwe.GetTargetBitrate())
	c.Shapes = nil
	for sh := range shapesSeen {
		c.Shapes = append(c.Shapes, sh)
	}
	sort.Strings(c.Shapes)

	return c
}

func sorted(xs []int64) []int64 {
	ys := append([]int64{}, xs...)
	sort.Slice(ys, func(i, j int) bool { return ys[i] < ys[j] })

	return ys
}

func (c e2eCase) toCase() cq.Case {
	return cq.Case{
		Coq: cq.T(cq.Z(c.Min), cq.Z(c.Max), cq.Z(c.Init), cq.LZ(c.Pacer), cq.LZ(sorted(c.CB)), cq.LZ(sorted(c.Pacer)),
			cq.Z(c.Final), cq.Z(c.ClosedOK)),
		JSON: c, Buckets: append(append([]string{c.Pattern}, c.Shapes...), map[bool]string{true: "pacer-close-fails", false: "pacer-close-ok"}[c.PacerCloseErr]),
		Trivial: len(c.Pacer) == 0,
	}
}

func main() {
	o := cq.ParseFlags()
	r := o.Rand()
	var fails []cq.ImplFailure
	dec := &cq.Set{
		Name: "c16dec", Import: "IV.Check.C16Check", CaseType: "dec_case",
		Checks: []string{"dec_mismatches", "dec_spec_failures"},
	}
	e2e := &cq.Set{Name: "c16e2e", Import: "IV.Check.C16Check", CaseType: "e2e_case", Checks: []string{"e2e_spec_failures"}}
	fn := &cq.Set{Name: "c16fn", Import: "IV.Check.C16Check", CaseType: "fn_case", Checks: []string{"fn_mismatches"}}
	conc := &cq.Set{Name: "c16conc", Import: "IV.Check.C16bCheck", CaseType: "conc_case", Checks: []string{"conc_spec_failures"}}
	loss := &cq.Set{
		Name: "c16loss", Import: "IV.Check.C16bCheck", CaseType: "loss_case",
		Checks: []string{"loss_mismatches", "loss_spec_failures"},
	}
	life := &cq.Set{
		Name: "c16life", Import: "IV.Check.C16dCheck", CaseType: "life_case",
		Checks: []string{"life_mismatches", "life_spec_failures"},
	}
	cfg := &cq.Set{
		Name: "c16cfg", Import: "IV.Check.C16eCheck", CaseType: "cfg_case",
		Checks: []string{"cfg_mismatches", "cfg_spec_failures"},
	}
	extra := map[string]interface{}{}
	if o.Replay != "" {
		var probe map[string]interface{}
		switch set := cq.LoadReplay(o.Replay, &probe); {
		case set == "c16cfg" || strings.HasPrefix(set, "impl-") && probe["Opts"] != nil && probe["PX"] != nil:
			var c cfgCase
			cq.LoadReplay(o.Replay, &c)
			cfg.Cases = append(cfg.Cases, runCfg(c, &fails).toCase("replay"))
		case set == "c16life" || strings.HasPrefix(set, "impl-") && probe["Script"] != nil && probe["Ops"] != nil && probe["Writers"] == nil:
			var c lifeCase
			cq.LoadReplay(o.Replay, &c)
			life.Cases = append(life.Cases, runLife(c, &fails).toCase("replay"))
		case set == "c16e2e" || strings.HasPrefix(set, "impl-") && probe["Writers"] == nil && probe["Pattern"] != nil:
			var c e2eCase
			cq.LoadReplay(o.Replay, &c)
			e2e.Cases = append(e2e.Cases, runE2E(c, &fails).toCase())
		case set == "c16conc" || strings.HasPrefix(set, "impl-") && probe["Writers"] != nil:
			var c concCase
			if probe["Cfg"] != nil {
				cq.LoadReplay(o.Replay, &c)
			} else {
				cq.LoadReplay(o.Replay, &c.Cfg)
			}
			// interleavings are not reproducible: repeat the scenario (same configuration, varied close delay) until it fails again
			for k := 0; k < 60 && len(fails) == 0; k++ {
				cfg := c.Cfg
				if k > 0 {
					cfg.Seed += int64(k)
					cfg.CloseDelayUs = (c.Cfg.CloseDelayUs * (3 + k%5)) / 5
				}
				conc.Cases = append(conc.Cases, runConc(cfg, &fails).toCase())
			}
		case set == "c16loss":
			var c lossCase
			cq.LoadReplay(o.Replay, &c)
			if rc, ok := runLoss(c); ok {
				loss.Cases = append(loss.Cases, rc.toCase())
			}
		default:
			var c decCase
			cq.LoadReplay(o.Replay, &c)
			dec.Cases = append(dec.Cases, runDec(c, &fails).toCase("replay"))
		}
		cq.Write(o, "replay", []*cq.Set{cfg, life, dec, e2e, fn, conc, loss}, nil, fails)

		return
	}
	var cfgCorpus []cfgCase
	for _, f := range o.CorpusFiles() {
		var probe map[string]interface{}
		switch cq.LoadReplay(f, &probe) {
		case "c16dec":
			var c decCase
			cq.LoadReplay(f, &c)
			dec.Cases = append(dec.Cases, runDec(c, &fails).toCase("corpus"))
		case "c16life":
			var c lifeCase
			cq.LoadReplay(f, &c)
			life.Cases = append(life.Cases, runLife(c, &fails).toCase("corpus"))
		case "c16cfg":
			var c cfgCase
			cq.LoadReplay(f, &c)
			cfgCorpus = append(cfgCorpus, c) // run with the cfg set, after the older sets
		}
	}
	n := o.Scale(1500, 30000)
	for i := 0; i < n; i++ {
		c, b := genDec(r)
		dec.Cases = append(dec.Cases, runDec(c, &fails).toCase(b...))
	}
	pats := []string{
		"normal", "all-lost", "half-lost", "identical-arrivals", "decreasing", "huge-gaps", "overuse", "duplicated",
		"malformed-twcc", "malformed-ccfb", "malformed-mixed",
	}
	ne := o.Scale(33, 440)
	var wg sync.WaitGroup
	var mu sync.Mutex
	res := make([]e2eCase, ne)
	sem := make(chan struct{}, 12)
	for i := 0; i < ne; i++ {
		c := e2eCase{Seed: r.Int63(), Pattern: pats[i%len(pats)], NoCB: i%4 == 3, PacerCloseErr: i%5 == 2}
		switch i % 3 {
		case 0:
			c.Min, c.Max, c.Init = 5000, 50000000, 10000
		case 1:
			c.Min, c.Max, c.Init = 300000, 2000000, 1000000
		default:
			c.Min = 1 + int64(r.Intn(500000))
			c.Max = c.Min + int64(r.Intn(3000000))
			c.Init = c.Min + r.Int63n(c.Max-c.Min+1)
		}
		wg.Add(1)
		sem <- struct{}{}
		go func(i int, c e2eCase) {
			defer wg.Done()
			var lf []cq.ImplFailure
			res[i] = runE2E(c, &lf)
			mu.Lock()
			fails = append(fails, lf...)
			mu.Unlock()
			<-sem
		}(i, c)
	}
	wg.Wait()
	for _, c := range res {
		e2e.Cases = append(e2e.Cases, c.toCase())
	}
	// concurrent scenarios, one at a time (the goroutine census needs a quiet process)
	nc := o.Scale(60, 1200)
	for i := 0; i < nc; i++ {
		conc.Cases = append(conc.Cases, runConc(genConc(r, i), &fails).toCase())
	}
	// sequential life cycles with a user-supplied pacer whose Close reports errors
	nlife := o.Scale(240, 4000)
	{
		lres := make([]lifeCase, nlife)
		lsem := make(chan struct{}, 8)
		var lwg sync.WaitGroup
		for i := 0; i < nlife; i++ {
			c := genLife(r, i)
			lwg.Add(1)
			lsem <- struct{}{}
			go func(i int, c lifeCase) {
				defer lwg.Done()
				lres[i] = runLife(c, nil)
				<-lsem
			}(i, c)
		}
		lwg.Wait()
		for _, c := range lres {
			life.Cases = append(life.Cases, c.toCase())
		}
	}
	// structured loss updates (needs the hook method VerifLossStep; skipped when the tree does not have it)
	nl := o.Scale(400, 8000)
	hook := true
	for i := 0; i < nl && hook; i++ {
		var rc lossCase
		if rc, hook = runLoss(genLoss(r)); hook {
			loss.Cases = append(loss.Cases, rc.toCase())
		}
	}
	extra["loss_hook_present"] = hook
	// construction from the options in every order, default pacer / caller's leaky bucket pacer (after the older sets:
	// the default pacers' tickers would keep the runtime's deadlock detection from ending a run that an older set hangs in)
	{
		probeBWE, err := gcc.NewSendSideBWE()
		if err != nil {
			panic(err)
		}
		_, cfgHook := interface{}(probeBWE).(pacerTargeter)
		_ = probeBWE.Close()
		extra["pacer_target_hook_present"] = cfgHook
		for _, c := range cfgCorpus {
			cfg.Cases = append(cfg.Cases, runCfg(c, &fails).toCase("corpus"))
		}
		ncfg := o.Scale(320, 6000)
		cres := make([]cfgCase, ncfg)
		cbs := make([][]string, ncfg)
		csem := make(chan struct{}, 8)
		var cwg sync.WaitGroup
		var cmu sync.Mutex
		for i := 0; i < ncfg; i++ {
			c, b := genCfg(r, i, cfgHook)
			cbs[i] = b
			cwg.Add(1)
			csem <- struct{}{}
			go func(i int, c cfgCase) {
				defer cwg.Done()
				var lf []cq.ImplFailure
				cres[i] = runCfg(c, &lf)
				cmu.Lock()
				fails = append(fails, lf...)
				cmu.Unlock()
				<-csem
			}(i, c)
		}
		cwg.Wait()
		for i, c := range cres {
			cfg.Cases = append(cfg.Cases, c.toCase(cbs[i]...))
		}
	}
	// pure functions
	vals := []int64{-9000000000000000000, -1, 0, 1, 5000, 100000, 50000000, 9000000000000000000}
	for _, a := range vals {
		for _, lo := range vals {
			for _, hi := range vals {
				fn.Cases = append(fn.Cases, cq.Case{
					Coq:  cq.T("0", cq.Z(a), cq.Z(lo), cq.Z(hi), cq.Z(int64(gcc.VerifClampInt(int(a), int(lo), int(hi))))),
					JSON: []int64{0, a, lo, hi}, Buckets: []string{"clampInt"},
				})
			}
		}
	}
	for s := -1; s <= 4; s++ {
		for u := -1; u <= 4; u++ {
			fn.Cases = append(fn.Cases, cq.Case{
				Coq:  cq.T("1", cq.Z(int64(s)), cq.Z(int64(u)), "0", cq.Z(int64(gcc.VerifTransition(s, u)))),
				JSON: []int{1, s, u}, Buckets: []string{"transition"},
			})
		}
	}
	cq.Write(o, "dec: configurations (default, min above the loss floor, narrow, max above the loss ceiling, random) x 3..32 ops "+
		"(delay statistics with usage/state incl. invalid states, loss updates 0..100% loss with re-armed timers, received-rate changes incl. overflowing values) "+
		"driven through the real rateController/lossController/onDelayUpdate; non-trivial = at least one rate change published; "+
		"e2e: real SendSideBWE fed with TWCC feedback built by the real recorder under 8 arrival patterns, and with internally inconsistent TWCC / RFC 8888 feedback (raw bytes through rtcp.Unmarshal and structs: fewer deltas than received symbols, runs beyond the status count, zero-length, duplicated / overlapping, wrapped ranges) which must neither panic nor disturb the oracle; fn: clampInt/transition tables; "+
		"conc: 1..6 goroutines x 1..5 WriteRTCP calls with real TWCC feedback, 0..2 getter goroutines, 1..3 Close callers at a random point, "+
		"then a further Close and two more WriteRTCP calls; call/return events stamped by one atomic counter and checked against what the LTS allows; "+
		"non-trivial = feedback accepted before and refused after the Close within one scenario; "+
		"loss: updateLossEstimate sequences (0..100% loss, thresholds, empty updates, timers armed / disarmed / as the code left them); non-trivial = a branch was taken; "+
		"life: one caller's WriteRTCP (TWCC, RFC 8888, mixed, no feedback packet) / Close / getter calls in any order on an estimator with a user-supplied pacer "+
		"(around the NoOp or the leaky bucket pacer) whose Close reports an error the first time / every time / never / at random; results and the number of pacer Close calls per call; "+
		"non-trivial = a WriteRTCP or a Close follows a Close; e2e (every 5th) and conc (every 3rd) run with such a failing pacer as well; "+
		"cfg: NewSendSideBWE from its options in every order (kinds left at their default, kinds given twice, with / without logger factory), DEFAULT pacer or a caller's leaky bucket pacer, "+
		"the rate that pacer holds after construction and after each of 0..12 decision-layer ops (hook VerifC16PacerTarget if the tree has it, and the pacer's own log line through the logger-factory option); "+
		"non-trivial = the pacer's rate was observed",
		[]*cq.Set{cfg, life, dec, e2e, fn, conc, loss}, extra, fails)
}
