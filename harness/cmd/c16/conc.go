// C16 deepening round: concurrent scenarios (set c16conc) and structured loss updates (set c16loss).
package main

import (
	"errors"
	"fmt"
	"math/rand"
	"runtime"
	"sort"
	"strings"
	"sync"
	"sync/atomic"
	"time"

	"github.com/pion/interceptor"
	"github.com/pion/interceptor/pkg/gcc"
	"github.com/pion/interceptor/pkg/twcc"
	"github.com/pion/rtcp"
	"github.com/pion/rtp"

	"verifharness/internal/cq"
)

// ---- c16conc ----

type concCfg struct {
	Seed           int64
	Writers        int // goroutines calling WriteRTCP
	CallsPerWriter int
	Getters        int // goroutines calling GetTargetBitrate / GetStats in a loop
	Closers        int // goroutines calling Close (the first after CloseDelayUs, the others shortly after / concurrently)
	CloseDelayUs   int
	Leaky          bool // the default LeakyBucketPacer instead of the recording NoOp pacer
	NoCB           bool
	Pattern        string // arrival pattern of the feedback (overuse makes the delay controller publish)
	PacerCloseErr  bool   `json:",omitempty"` // user-supplied pacer (around the NoOp / leaky bucket pacer) whose Close reports an error
}

type concEv struct {
	Stamp int64  `json:"stamp"`
	Kind  string `json:"kind"` // callW retW callC retC
	ID    int    `json:"id"`
	Res   string `json:"res,omitempty"` // ok closed err
}

type concCase struct {
	Cfg          concCfg
	Events       []concEv
	Left         int64 // estimator goroutines still alive after the last Close returned
	NAfter       int64 // WriteRTCP calls made after every Close had returned
	NAfterClosed int64 // ... that returned ErrSendSideBWEClosed
}

// gccGoroutines counts the goroutines started by newDelayController / newLeakyBucketPacer that are alive.
func gccGoroutines() int {
	buf := make([]byte, 1<<21)
	n := runtime.Stack(buf, true)
	cnt := 0
	for _, g := range strings.Split(string(buf[:n]), "\n\n") {
		frames := g
		if i := strings.Index(g, "created by "); i >= 0 {
			frames = g[:i]
		}
		if strings.Contains(frames, "pkg/gcc.newDelayController.func") || strings.Contains(frames, "pkg/gcc.newLeakyBucketPacer.func") ||
			strings.Contains(frames, "pkg/gcc.(*LeakyBucketPacer).Run") || strings.Contains(frames, "pkg/gcc.(*rateCalculator).run") ||
			strings.Contains(frames, "pkg/gcc.(*arrivalGroupAccumulator).run") {
			cnt++
		}
	}

	return cnt
}

//nolint:gocognit,cyclop,maintidx
func runConc(cfg concCfg, fails *[]cq.ImplFailure) concCase {
	c := concCase{Cfg: cfg}
	r := rand.New(rand.NewSource(cfg.Seed)) //nolint:gosec
	base := gccGoroutines()
	opts := []gcc.Option{}
	p := &pacer{NoOpPacer: gcc.NewNoOpPacer()}
	var sp *scriptedPacer
	switch {
	case cfg.PacerCloseErr:
		sp = newScriptedPacer(cfg.Leaky, 20_000_000, []bool{true, true, true, true, true, true, true, true})
		opts = append(opts, gcc.SendSideBWEPacer(sp))
		if cfg.Leaky {
			opts = append(opts, gcc.SendSideBWEInitialBitrate(20_000_000))
		}
	case cfg.Leaky:
		opts = append(opts, gcc.SendSideBWEInitialBitrate(20_000_000))
	default:
		opts = append(opts, gcc.SendSideBWEPacer(p))
	}
	var pacerErrs atomic.Int64 // Close calls that returned the pacer's error
	bwe, err := gcc.NewSendSideBWE(opts...)
	if err != nil {
		panic(err)
	}
	if !cfg.NoCB {
		bwe.OnTargetBitrateChange(func(int) { _ = bwe.GetTargetBitrate() }) // the callback is an arbitrary thread: here a getter
	}
	var forwarded atomic.Int64
	info := &interceptor.StreamInfo{SSRC: 77, RTPHeaderExtensions: []interceptor.RTPHeaderExtension{{URI: twccURI, ID: 1}}}
	w := bwe.AddStream(info, interceptor.RTPWriterFunc(func(*rtp.Header, []byte, interceptor.Attributes) (int, error) {
		forwarded.Add(1)

		return 0, nil
	}))
	// feedback for every planned call, built serially by the real recorder
	nCalls := cfg.Writers*cfg.CallsPerWriter + 2
	rec := twcc.NewRecorder(5)
	seq := uint16(r.Intn(65536)) //nolint:gosec
	arrival := int64(1000000)
	feedback := make([][]rtcp.Packet, nCalls)
	for k := 0; k < nCalls; k++ {
		n := 3 + r.Intn(12)
		sent := forwarded.Load()
		first := seq
		for i := 0; i < n; i++ {
			h := &rtp.Header{Version: 2, SSRC: 77, SequenceNumber: seq}
			tcc, _ := (&rtp.TransportCCExtension{TransportSequence: seq}).Marshal()
			_ = h.SetExtension(1, tcc)
			_, _ = w.Write(h, make([]byte, 200), nil)
			seq++
		}
		for dl := time.Now().Add(2 * time.Second); forwarded.Load() < sent+int64(n) && time.Now().Before(dl); {
			time.Sleep(time.Millisecond)
		}
		for i := 0; i < n; i++ {
			switch cfg.Pattern {
			case "overuse":
				arrival += int64(20000 + i*4000)
			case "identical":
			case "lossy":
				arrival += int64(r.Intn(20000))
				if r.Intn(2) == 0 {
					continue
				}
			default:
				arrival += int64(r.Intn(20000))
			}
			rec.Record(77, first+uint16(i), arrival) //nolint:gosec
		}
		feedback[k] = rec.BuildFeedbackPacket()
	}

	var stamp atomic.Int64
	var mu sync.Mutex
	add := func(evs ...concEv) {
		mu.Lock()
		c.Events = append(c.Events, evs...)
		mu.Unlock()
	}
	res := func(err error) string {
		switch {
		case err == nil:
			return "ok"
		case errors.Is(err, gcc.ErrSendSideBWEClosed):
			return "closed"
		default:
			return "err"
		}
	}
	callW := func(id int, pkts []rtcp.Packet) string {
		add(concEv{Stamp: stamp.Add(1), Kind: "callW", ID: id})
		var err error
		func() {
			defer func() {
				if x := recover(); x != nil {
					mu.Lock()
					*fails = append(*fails, cq.ImplFailure{Kind: "panic", Detail: fmt.Sprintf("WriteRTCP panicked: %v", x), Case: c.Cfg})
					mu.Unlock()
					err = fmt.Errorf("panic: %v", x) //nolint:err113
				}
			}()
			err = bwe.WriteRTCP(pkts, nil)
		}()
		add(concEv{Stamp: stamp.Add(1), Kind: "retW", ID: id, Res: res(err)})

		return res(err)
	}
	callC := func(id int) {
		add(concEv{Stamp: stamp.Add(1), Kind: "callC", ID: id})
		var err error
		func() {
			defer func() {
				if x := recover(); x != nil {
					mu.Lock()
					*fails = append(*fails, cq.ImplFailure{Kind: "panic", Detail: fmt.Sprintf("Close panicked: %v", x), Case: c.Cfg})
					mu.Unlock()
				}
			}()
			err = bwe.Close()
		}()
		s1 := stamp.Add(1)
		add(concEv{Stamp: s1, Kind: "retC", ID: id})
		if cfg.PacerCloseErr && errors.Is(err, errPacerClose) {
			pacerErrs.Add(1) // the one Close that closed the pacer reports the pacer's error
			err = nil
		}
		if err != nil {
			mu.Lock()
			*fails = append(*fails, cq.ImplFailure{Kind: "close-error", Detail: "Close returned " + err.Error(), Case: c.Cfg})
			mu.Unlock()
		}
	}

	var wg sync.WaitGroup
	var stop atomic.Bool
	start := make(chan struct{})
	for wi := 0; wi < cfg.Writers; wi++ {
		wg.Add(1)
		go func(wi int) {
			defer wg.Done()
			<-start
			for k := 0; k < cfg.CallsPerWriter; k++ {
				id := wi*cfg.CallsPerWriter + k
				callW(id, feedback[id])
			}
		}(wi)
	}
	var gwg sync.WaitGroup
	for gi := 0; gi < cfg.Getters; gi++ {
		gwg.Add(1)
		go func() {
			defer gwg.Done()
			<-start
			for !stop.Load() {
				_ = bwe.GetTargetBitrate()
				_ = bwe.GetStats()
				runtime.Gosched()
			}
		}()
	}
	for ci := 0; ci < cfg.Closers; ci++ {
		wg.Add(1)
		delay := time.Duration(cfg.CloseDelayUs) * time.Microsecond
		if ci > 0 {
			delay += time.Duration(r.Intn(200)) * time.Microsecond
		}
		go func(ci int, delay time.Duration) {
			defer wg.Done()
			<-start
			time.Sleep(delay)
			callC(ci)
		}(ci, delay)
	}
	close(start)
	done := make(chan struct{})
	go func() {
		wg.Wait()
		close(done)
	}()
	hung := false
	select {
	case <-done:
	case <-time.After(5 * time.Second):
		hung = true
		mu.Lock()
		*fails = append(*fails, cq.ImplFailure{Kind: "hang", Detail: "concurrent WriteRTCP / Close did not all return within 5s", Case: c.Cfg})
		mu.Unlock()
	}
	stop.Store(true)
	if !hung {
		gwg.Wait()
		// every Close has returned: a further Close returns nil, further feedback fails with the closed error
		callC(cfg.Closers)
		for k := 0; k < 2; k++ {
			c.NAfter++
			if callW(cfg.Writers*cfg.CallsPerWriter+k, feedback[cfg.Writers*cfg.CallsPerWriter+k]) == "closed" {
				c.NAfterClosed++
			}
		}
		if sp != nil && (sp.calls.Load() != 1 || pacerErrs.Load() != 1) {
			mu.Lock()
			*fails = append(*fails, cq.ImplFailure{Kind: "pacer-close-count", Detail: fmt.Sprintf(
				"%d Close calls: the pacer's Close (which reports an error) was called %d times and %d Close calls returned its error; expected 1 and 1",
				cfg.Closers+1, sp.calls.Load(), pacerErrs.Load()), Case: c.Cfg})
			mu.Unlock()
		}
		left := gccGoroutines() - base
		for dl := time.Now().Add(300 * time.Millisecond); left > 0 && time.Now().Before(dl); left = gccGoroutines() - base {
			time.Sleep(5 * time.Millisecond)
		}
		if left < 0 {
			left = 0
		}
		c.Left = int64(left)
	}
	mu.Lock()
	sort.Slice(c.Events, func(i, j int) bool { return c.Events[i].Stamp < c.Events[j].Stamp })
	mu.Unlock()

	return c
}

func (c concCase) toCase() cq.Case {
	evs := make([]string, len(c.Events))
	nOK, nClosed := 0, 0
	for i, e := range c.Events {
		id := fmt.Sprintf("%d%%nat", e.ID)
		switch e.Kind {
		case "callW":
			evs[i] = cq.C("LCallW", id)
		case "retW":
			r := map[string]string{"ok": "ROk", "closed": "RClosed", "err": "RErr"}[e.Res]
			evs[i] = cq.C("LRetW", id, r)
			if e.Res == "ok" {
				nOK++
			}
			if e.Res == "closed" {
				nClosed++
			}
		case "callC":
			evs[i] = cq.C("LCallC", id)
		default:
			evs[i] = cq.C("LRetC", id)
		}
	}
	b := []string{"closers=" + fmt.Sprint(c.Cfg.Closers), "pattern=" + c.Cfg.Pattern}
	if c.Cfg.Leaky {
		b = append(b, "leaky-pacer")
	} else {
		b = append(b, "noop-pacer")
	}
	if c.Cfg.PacerCloseErr {
		b = append(b, "pacer-close-fails")
	}
	if nOK > 0 && nClosed > 2 {
		b = append(b, "close-overtook-some-feedback")
	}

	return cq.Case{
		Coq:  cq.T(cq.L(evs), cq.Z(c.Left), cq.Z(c.NAfter), cq.Z(c.NAfterClosed)),
		JSON: c, Buckets: b,
		// non-trivial: feedback was accepted before the Close and refused after it within one scenario
		Trivial: !(nOK > 0 && nClosed > 0),
	}
}

func genConc(r *rand.Rand, i int) concCfg {
	pats := []string{"normal", "overuse", "identical", "lossy"}

	return concCfg{
		Seed: r.Int63(), Writers: 1 + r.Intn(6), CallsPerWriter: 1 + r.Intn(5), Getters: r.Intn(3),
		Closers: 1 + r.Intn(3), CloseDelayUs: []int{0, 20, 100, 300, 1000, 3000}[r.Intn(6)],
		Leaky: i%4 == 1, NoCB: i%5 == 4, Pattern: pats[i%len(pats)], PacerCloseErr: i%3 == 2,
	}
}

// ---- c16loss ----

type lossStepper interface {
	VerifLossStep(n, lost, incMode, decMode int) []int64
}

type lossOp struct {
	N, Lost, IncMode, DecMode int
	SleepMs                   int
	Obs                       []int64 // hook result
}

type lossCase struct {
	Init int64
	Ops  []lossOp
}

func runLoss(c lossCase) (lossCase, bool) {
	bwe, err := gcc.NewSendSideBWE(gcc.SendSideBWEInitialBitrate(int(c.Init)), gcc.SendSideBWEPacer(gcc.NewNoOpPacer()))
	if err != nil {
		panic(err)
	}
	defer func() { _ = bwe.Close() }()
	ls, ok := interface{}(bwe).(lossStepper)
	if !ok {
		return c, false
	}
	for i := range c.Ops {
		o := &c.Ops[i]
		if o.SleepMs > 0 {
			time.Sleep(time.Duration(o.SleepMs) * time.Millisecond)
		}
		o.Obs = ls.VerifLossStep(o.N, o.Lost, o.IncMode, o.DecMode)
	}

	return c, true
}

func (c lossCase) toCase() cq.Case {
	steps := make([]string, len(c.Ops))
	seen := map[string]bool{}
	for i, o := range c.Ops {
		v := o.Obs
		bb := func(k int) string { return cq.B(v[k] != 0) }
		steps[i] = cq.T(cq.C("mkLobs", bb(0), bb(1), bb(2), bb(3), bb(4)), cq.Z(v[5]), cq.Z(v[7]), bb(8), bb(9))
		switch {
		case v[8] != 0:
			seen["increase-taken"] = true
		case v[9] != 0:
			seen["decrease-taken"] = true
		case v[0] != 0 && (v[1] != 0 || v[3] != 0):
			seen["loss-condition-but-timer-not-expired"] = true
		case v[0] == 0:
			seen["empty-update"] = true
		default:
			seen["between-thresholds"] = true
		}
		if v[1] != 0 && v[2] != 0 && v[3] != 0 && v[4] != 0 {
			seen["both-conditions"] = true
		}
		if (v[8] != 0 || v[9] != 0) && (v[7] == 100000 || v[7] == 100000000) {
			seen["clamped"] = true
		}
	}
	b := []string{}
	for k := range seen {
		b = append(b, k)
	}
	sort.Strings(b)
	init := c.Init
	if len(c.Ops) > 0 {
		init = c.Ops[0].Obs[6]
	}

	return cq.Case{
		Coq: cq.T(cq.Z(init), cq.L(steps)), JSON: c, Buckets: b,
		Trivial: !(seen["increase-taken"] || seen["decrease-taken"]),
	}
}

func genLoss(r *rand.Rand) lossCase {
	inits := []int64{1, 5000, 99999, 100000, 100001, 300000, 5000000, 99999999, 100000000, 100000001, 2000000000}
	c := lossCase{Init: inits[r.Intn(len(inits))]}
	if r.Intn(3) == 0 {
		c.Init = 1 + r.Int63n(200000000)
	}
	n := 4 + r.Intn(24)
	for i := 0; i < n; i++ {
		o := lossOp{N: r.Intn(40), IncMode: r.Intn(3), DecMode: r.Intn(3)}
		if r.Intn(6) == 0 {
			o.N = 0
		}
		if o.N > 0 {
			switch r.Intn(4) {
			case 0:
				o.Lost = 0
			case 1:
				o.Lost = o.N
			case 2:
				o.Lost = r.Intn(o.N + 1)
			default:
				o.Lost = o.N / (5 + r.Intn(60)) // around the 2% / 10% thresholds
			}
		}
		if r.Intn(40) == 0 {
			o.SleepMs = 1 + r.Intn(3)
		}
		c.Ops = append(c.Ops, o)
	}

	return c
}
