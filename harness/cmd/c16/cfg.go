// C16 round-5 strengthening: construction of the estimator from its options in every order, with the DEFAULT
// pacer (no SendSideBWEPacer option) or a caller's leaky bucket pacer, and the rate that pacer holds right after
// construction and after each decision-layer op (set c16cfg).
package main

import (
	"fmt"
	"math/rand"
	"strconv"
	"strings"
	"time"

	"github.com/pion/interceptor"
	"github.com/pion/interceptor/pkg/gcc"
	"github.com/pion/logging"
	"github.com/pion/rtp"

	"verifharness/internal/cq"
)

// capFactory is a logging.LoggerFactory (option WithLoggerFactory) that captures the value of
// "targetBitrate=" in the log line the leaky bucket pacer writes when it releases a packet.
type capFactory struct{ ch chan int64 }

func (f *capFactory) NewLogger(scope string) logging.LeveledLogger {
	return &capLogger{f: f, scope: scope}
}

type capLogger struct {
	f     *capFactory
	scope string
}

func (l *capLogger) see(format string, args ...interface{}) {
	if l.scope != "pacer" || !strings.Contains(format, "targetBitrate=") {
		return
	}
	s := fmt.Sprintf(format, args...)
	s = s[strings.Index(s, "targetBitrate=")+len("targetBitrate="):]
	end := 0
	for end < len(s) && (s[end] == '-' || (s[end] >= '0' && s[end] <= '9')) {
		end++
	}
	if v, err := strconv.ParseInt(s[:end], 10, 64); err == nil {
		select {
		case l.f.ch <- v:
		default:
		}
	}
}

func (l *capLogger) Trace(string)                      {}
func (l *capLogger) Tracef(f string, a ...interface{}) { l.see(f, a...) }
func (l *capLogger) Debug(string)                      {}
func (l *capLogger) Debugf(f string, a ...interface{}) { l.see(f, a...) }
func (l *capLogger) Info(string)                       {}
func (l *capLogger) Infof(f string, a ...interface{})  { l.see(f, a...) }
func (l *capLogger) Warn(string)                       {}
func (l *capLogger) Warnf(string, ...interface{})      {}
func (l *capLogger) Error(string)                      {}
func (l *capLogger) Errorf(string, ...interface{})     {}

type cfgOpt struct {
	Kind string `json:"kind"` // init | min | max | pacer | logger
	Rate int64  `json:"rate,omitempty"`
}

type cfgCase struct {
	Opts []cfgOpt
	PX   int64 // rate the caller's leaky bucket pacer (option pacer) is constructed with; -1 = default pacer
	Ops  []dop
	// observed
	G0, L0, D0 int64
	TH, TL     int64 // pacer's targetBitrate after construction: by hook / by log, -1 = not observed
	Obs        [][3]int64
	HookSeen   bool
}

// logObservable: the pacer releases a packet (and writes its log line) every 5 ms tick only if the tick's
// budget ms*rate/8000 is positive; below this rate the log observation is best effort (40 ms, silence is not judged).
const logObservable = 4000

type pacerTargeter interface {
	VerifC16PacerTarget() (int, int)
}

//nolint:gocognit,cyclop
func runCfg(c cfgCase, fails *[]cq.ImplFailure) cfgCase {
	fac := &capFactory{ch: make(chan int64, 64)}
	hasLogger, hasPacer := false, false
	opts := []gcc.Option{}
	var userPacer *gcc.LeakyBucketPacer
	for _, o := range c.Opts {
		switch o.Kind {
		case "init":
			opts = append(opts, gcc.SendSideBWEInitialBitrate(int(o.Rate)))
		case "min":
			opts = append(opts, gcc.SendSideBWEMinBitrate(int(o.Rate)))
		case "max":
			opts = append(opts, gcc.SendSideBWEMaxBitrate(int(o.Rate)))
		case "pacer":
			if userPacer == nil {
				userPacer = gcc.NewLeakyBucketPacer(int(c.PX))
			}
			hasPacer = true
			opts = append(opts, gcc.SendSideBWEPacer(userPacer))
		case "logger":
			hasLogger = true
			opts = append(opts, gcc.WithLoggerFactory(fac))
		}
	}
	if !hasPacer {
		c.PX = -1
	}
	bwe, err := gcc.NewSendSideBWE(opts...)
	if err != nil {
		panic(err)
	}
	info := &interceptor.StreamInfo{SSRC: 77, RTPHeaderExtensions: []interceptor.RTPHeaderExtension{{URI: twccURI, ID: 1}}}
	w := bwe.AddStream(info, interceptor.RTPWriterFunc(func(*rtp.Header, []byte, interceptor.Attributes) (int, error) { return 0, nil }))
	seq := uint16(0)
	byHook := func() int64 {
		if h, ok := interface{}(bwe).(pacerTargeter); ok {
			c.HookSeen = true
			if kind, t := h.VerifC16PacerTarget(); kind == 1 {
				return int64(t)
			}
		}

		return -1
	}
	// one packet through the estimator's pacer; the pacer logs the rate it holds when it releases the packet
	byLog := func(expect int64) int64 {
		if !hasLogger || hasPacer {
			return -1
		}
		wait := 3 * time.Second
		if expect < logObservable {
			wait = 40 * time.Millisecond
		}
		for len(fac.ch) > 0 {
			<-fac.ch
		}
		h := &rtp.Header{Version: 2, SSRC: 77, SequenceNumber: seq}
		tcc, _ := (&rtp.TransportCCExtension{TransportSequence: seq}).Marshal()
		_ = h.SetExtension(1, tcc)
		seq++
		if _, err := w.Write(h, make([]byte, 200), nil); err != nil {
			*fails = append(*fails, cq.ImplFailure{Kind: "pacer-write", Detail: fmt.Sprintf("write through the default pacer failed: %v", err), Case: c})

			return -1
		}
		select {
		case v := <-fac.ch:
			return v
		case <-time.After(wait):
			if expect < logObservable {
				return -1
			}
			*fails = append(*fails, cq.ImplFailure{
				Kind:   "pacer-silent",
				Detail: fmt.Sprintf("the default pacer released nothing within 3 s although the estimator reports %d bit/s", expect), Case: c,
			})

			return -1
		}
	}
	c.TH, c.TL = -1, -1
	first := make(chan struct{})
	go func() {
		defer close(first)
		c.G0 = int64(bwe.GetTargetBitrate())
		_, lb := gcc.VerifLossUpdate(bwe, 0, 0, false)
		c.L0 = int64(lb)
		c.D0 = int64(gcc.VerifOnDelayStatsPeek(bwe))
		c.TH = byHook()
		c.TL = byLog(c.G0)
	}()
	select {
	case <-first:
	case <-time.After(8 * time.Second):
		*fails = append(*fails, cq.ImplFailure{Kind: "hang", Detail: "getters of a freshly constructed estimator did not return within 8s", Case: c})

		return c
	}
	c.Obs = nil
	hung := false
	for i := range c.Ops {
		o := &c.Ops[i]
		opDone := make(chan struct{})
		go func() {
			defer close(opDone)
			switch o.Kind {
			case "delay":
				o.Raw = int64(gcc.VerifOnDelayStats(bwe, o.Use, o.St))
			case "loss":
				b, a := gcc.VerifLossUpdate(bwe, o.N, o.Lost, o.Rearm)
				o.Changed = a != b
				o.Raw = int64(a)
			default:
				gcc.VerifSetReceivedRate(bwe, int(o.Rate))
			}
		}()
		select {
		case <-opDone:
		case <-time.After(3 * time.Second):
			*fails = append(*fails, cq.ImplFailure{Kind: "hang", Detail: fmt.Sprintf("op %d (%s) did not return within 3s", i, o.Kind), Case: c})
			hung = true
		}
		if hung {
			break
		}
		if o.Kind == "rate" {
			continue
		}
		g := int64(bwe.GetTargetBitrate())
		c.Obs = append(c.Obs, [3]int64{g, byHook(), byLog(g)})
	}
	if hung {
		return c
	}
	done := make(chan error, 1)
	go func() { done <- bwe.Close() }()
	select {
	case cerr := <-done:
		if cerr != nil {
			*fails = append(*fails, cq.ImplFailure{Kind: "close-error", Detail: fmt.Sprintf("Close returned %v", cerr), Case: c})
		}
	case <-time.After(3 * time.Second):
		*fails = append(*fails, cq.ImplFailure{Kind: "close-blocks", Detail: "Close did not return", Case: c})
	}

	return c
}

func opsToCoq(dops []dop) []string {
	ops := []string{}
	for _, o := range dops {
		switch o.Kind {
		case "delay":
			ops = append(ops, cq.C("DelayStats", cq.Z(int64(o.Use)), cq.Z(int64(o.St)), cq.Z(o.Raw)))
		case "loss":
			if o.Changed {
				ops = append(ops, cq.C("LossUpdate", cq.Some(cq.Z(o.Raw))))
			} else {
				ops = append(ops, cq.C("LossUpdate", cq.None))
			}
		}
	}

	return ops
}

func (c cfgCase) toCase(b ...string) cq.Case {
	opts := make([]string, len(c.Opts))
	for i, o := range c.Opts {
		switch o.Kind {
		case "init":
			opts[i] = cq.C("OInit", cq.Z(o.Rate))
		case "min":
			opts[i] = cq.C("OMin", cq.Z(o.Rate))
		case "max":
			opts[i] = cq.C("OMax", cq.Z(o.Rate))
		case "pacer":
			opts[i] = "OPacer"
		default:
			opts[i] = "OLogger"
		}
	}
	obs := make([]string, len(c.Obs))
	seen := c.TH >= 0 || c.TL >= 0
	changed := false
	for i, q := range c.Obs {
		obs[i] = cq.T(cq.Z(q[0]), cq.Z(q[1]), cq.Z(q[2]))
		if q[0] != c.G0 {
			changed = true
		}
	}
	if c.PX < 0 {
		b = append(b, "default-pacer")
		if c.G0 != 10000 {
			b = append(b, "default-pacer+non-default-initial")
		}
	} else {
		b = append(b, "callers-leaky-bucket")
	}
	if c.TH >= 0 {
		b = append(b, "pacer-rate-by-hook")
	}
	if c.TL >= 0 {
		b = append(b, "pacer-rate-by-log")
	}
	if !seen {
		b = append(b, "pacer-rate-unobserved")
	}
	if changed {
		b = append(b, "rate-changed-after-construction")
	} else if len(c.Obs) > 0 {
		b = append(b, "ops-without-rate-change")
	}

	return cq.Case{
		Coq: cq.T(cq.L(opts), cq.Z(c.PX), cq.L(opsToCoq(c.Ops)), cq.T(cq.Z(c.G0), cq.Z(c.L0), cq.Z(c.D0)),
			cq.T(cq.Z(c.TH), cq.Z(c.TL)), cq.L(obs)),
		JSON: c, Buckets: b, Trivial: !seen,
	}
}

// genCfg: a configuration min <= initial <= max given as options in a random order (every order of the kinds
// comes up), some kinds left at their default, some given twice (the last one counts), with or without the
// logger factory, with the default pacer (5 of 6) or a caller's leaky bucket pacer; then 0..12 ops.
//
//nolint:gocognit,cyclop
func genCfg(r *rand.Rand, i int, hookPresent bool) (cfgCase, []string) {
	c := cfgCase{PX: -1}
	var cmin, cmax, cinit int64
	bucket := ""
	giveInit, giveMin, giveMax := true, true, true
	switch i % 8 {
	case 0:
		bucket = "only-initial"
		cmin, cmax = 5000, 50000000
		cinit = []int64{5000, 8000000, 50000000, 20000 + r.Int63n(40000000), 9999, 10001}[r.Intn(6)]
		giveMin, giveMax = false, false
	case 1:
		bucket = "min-above-loss-floor"
		cmin = 100001 + int64(r.Intn(900000))
		cmax = cmin + int64(r.Intn(5000000))
		cinit = cmin + r.Int63n(cmax-cmin+1)
	case 2:
		bucket = "narrow"
		cmin = 20000 + int64(r.Intn(300000))
		cmax = cmin + int64(r.Intn(3))
		cinit = cmin + r.Int63n(cmax-cmin+1)
	case 3:
		bucket = "max-above-loss-ceiling"
		cmin = 50000
		cmax = 100000000 + int64(r.Intn(1000000000))
		cinit = cmin + r.Int63n(cmax-cmin+1)
	case 4:
		bucket = "initial-at-bound"
		cmin = 20000 + int64(r.Intn(2000000))
		cmax = cmin + int64(r.Intn(20000000))
		cinit = []int64{cmin, cmax}[r.Intn(2)]
	case 5:
		bucket = "default-initial"
		cinit = 10000
		cmin = 1 + int64(r.Intn(10000))
		cmax = 10000 + int64(r.Intn(20000000))
		giveInit = false
		if r.Intn(3) == 0 {
			bucket = "all-defaults"
			cmin, cmax = 5000, 50000000
			giveMin, giveMax = false, false
		}
	case 6:
		bucket = "small-rates"
		cmin = 1 + int64(r.Intn(3000))
		cmax = cmin + int64(r.Intn(20000))
		cinit = cmin + r.Int63n(cmax-cmin+1)
	default:
		bucket = "random"
		cmin = 20000 + int64(r.Intn(2000000))
		cmax = cmin + int64(r.Intn(20000000))
		cinit = cmin + r.Int63n(cmax-cmin+1)
	}
	if giveInit {
		c.Opts = append(c.Opts, cfgOpt{Kind: "init", Rate: cinit})
	}
	if giveMin {
		c.Opts = append(c.Opts, cfgOpt{Kind: "min", Rate: cmin})
	}
	if giveMax {
		c.Opts = append(c.Opts, cfgOpt{Kind: "max", Rate: cmax})
	}
	// without the hook the log line is the only view on the default pacer: always give the logger factory then
	if !hookPresent || r.Intn(3) != 0 {
		c.Opts = append(c.Opts, cfgOpt{Kind: "logger"})
	}
	if r.Intn(6) == 0 {
		c.PX = []int64{cinit, 10000, 1 + r.Int63n(30000000)}[r.Intn(3)]
		c.Opts = append(c.Opts, cfgOpt{Kind: "pacer"})
		bucket += "+pacer-option"
	}
	r.Shuffle(len(c.Opts), func(a, b int) { c.Opts[a], c.Opts[b] = c.Opts[b], c.Opts[a] })
	order := ""
	for _, o := range c.Opts {
		order += o.Kind[:1]
	}
	// a kind given twice: an earlier value that must be overridden by the last one (decoys anywhere in front of it)
	if len(c.Opts) > 0 && r.Intn(3) == 0 {
		k := r.Intn(len(c.Opts))
		if o := c.Opts[k]; o.Kind == "init" || o.Kind == "min" || o.Kind == "max" {
			decoy := cfgOpt{Kind: o.Kind, Rate: []int64{10000, 1, o.Rate + 1, 1 + r.Int63n(60000000)}[r.Intn(4)]}
			at := r.Intn(k + 1)
			c.Opts = append(c.Opts[:at], append([]cfgOpt{decoy}, c.Opts[at:]...)...)
			bucket += "+overridden-option"
		}
	}
	nops := 0
	if r.Intn(3) != 0 {
		nops = 1 + r.Intn(12)
	}
	for j := 0; j < nops; j++ {
		switch r.Intn(7) {
		case 0, 1, 2:
			c.Ops = append(c.Ops, dop{Kind: "delay", Use: r.Intn(3), St: []int{0, 0, 0, 1, 2, 7}[r.Intn(6)]})
		case 3, 4:
			nn := 1 + r.Intn(50)
			lost := 0
			switch r.Intn(3) {
			case 0:
				lost = nn
			case 1:
				lost = r.Intn(nn + 1)
			}
			c.Ops = append(c.Ops, dop{Kind: "loss", N: nn, Lost: lost, Rearm: r.Intn(3) != 0})
		default:
			rates := []int64{0, 1, 1000, 100000, 1000000, 50000000, 4000000000}
			c.Ops = append(c.Ops, dop{Kind: "rate", Rate: rates[r.Intn(len(rates))]})
		}
	}

	return c, []string{bucket, "order:" + order}
}
