// Generator for C15: transport-wide sequence numbers (twcc.HeaderExtensionInterceptor).
package main

import (
	"errors"
	"fmt"
	"math/rand"
	"sort"
	"strings"
	"sync"

	"github.com/pion/interceptor"
	"github.com/pion/interceptor/pkg/twcc"
	"github.com/pion/rtp"

	"verifharness/internal/cq"
)

const uri = "http://www.ietf.org/id/draft-holmer-rmcat-transport-wide-cc-extensions-01"

type ext struct {
	ID      int64   `json:"id"`
	Payload []int64 `json:"payload"`
}

type hdr struct {
	Nil     bool    `json:"nil,omitempty"`
	Fixed   []int64 `json:"fixed"`
	Ext     bool    `json:"ext"`
	Profile int64   `json:"profile"`
	Exts    []ext   `json:"exts"`
}

type op struct {
	Stream int64 `json:"stream"`
	H      hdr   `json:"h"`
	PayLen int   `json:"paylen"`
}

type res struct {
	Kind string `json:"kind"` // forward | pass | err
	H    *hdr   `json:"h,omitempty"`
}

type seqCase struct {
	Streams [][]int64 `json:"streams"` // per stream: ids of the entries whose URI matches, in order
	Ops     []op      `json:"ops"`
	Outs    []res     `json:"outs"`
}

func toHeader(h hdr) *rtp.Header {
	if h.Nil {
		return nil
	}
	out := &rtp.Header{
		Version: uint8(h.Fixed[0]), Padding: h.Fixed[1] == 1, Marker: h.Fixed[2] == 1, PayloadType: uint8(h.Fixed[3]), //nolint:gosec
		SequenceNumber: uint16(h.Fixed[4]), Timestamp: uint32(h.Fixed[5]), SSRC: uint32(h.Fixed[6]), //nolint:gosec
		PaddingSize: uint8(h.Fixed[7]), //nolint:gosec
	}
	for _, c := range h.Fixed[8:] {
		out.CSRC = append(out.CSRC, uint32(c)) //nolint:gosec
	}
	// build the extension block through the public API so rtp.Header invariants hold
	for i, e := range h.Exts {
		p := make([]byte, len(e.Payload))
		for j, b := range e.Payload {
			p[j] = byte(b)
		}
		if i == 0 {
			out.Extension = true
			out.ExtensionProfile = uint16(h.Profile) //nolint:gosec
		}
		if err := out.SetExtension(uint8(e.ID), p); err != nil { //nolint:gosec
			panic(fmt.Sprintf("generator built an invalid header: %v", err))
		}
	}
	if len(h.Exts) == 0 && h.Ext {
		out.Extension = true
		out.ExtensionProfile = uint16(h.Profile) //nolint:gosec
	}

	return out
}

func fromHeader(h *rtp.Header) hdr {
	if h == nil {
		return hdr{Nil: true}
	}
	b := func(x bool) int64 {
		if x {
			return 1
		}

		return 0
	}
	out := hdr{
		Fixed: []int64{
			int64(h.Version), b(h.Padding), b(h.Marker), int64(h.PayloadType), int64(h.SequenceNumber),
			int64(h.Timestamp), int64(h.SSRC), int64(h.PaddingSize),
		},
		Ext: h.Extension, Profile: int64(h.ExtensionProfile), Exts: []ext{},
	}
	for _, c := range h.CSRC {
		out.Fixed = append(out.Fixed, int64(c))
	}
	for _, id := range h.GetExtensionIDs() {
		p := h.GetExtension(id)
		e := ext{ID: int64(id), Payload: make([]int64, len(p))}
		for j, x := range p {
			e.Payload[j] = int64(x)
		}
		out.Exts = append(out.Exts, e)
	}

	return out
}

func coqHdr(h hdr) string {
	es := make([]string, len(h.Exts))
	for i, e := range h.Exts {
		es[i] = cq.T(cq.Z(e.ID), cq.LZ(e.Payload))
	}

	return cq.C("mkH", cq.LZ(h.Fixed), cq.B(h.Ext), cq.Z(h.Profile), cq.L(es))
}

func coqHdrOpt(h hdr) string {
	if h.Nil {
		return cq.None
	}

	return cq.Some(coqHdr(h))
}

type sink struct {
	mu    sync.Mutex
	calls []*rtp.Header
	pay   [][]byte
	attr  []interceptor.Attributes
	ret   int
	err   error
}

func (s *sink) Write(h *rtp.Header, p []byte, a interceptor.Attributes) (int, error) {
	s.mu.Lock()
	defer s.mu.Unlock()
	var c *rtp.Header
	if h != nil {
		cl := h.Clone()
		c = &cl
	}
	s.calls = append(s.calls, c)
	s.pay = append(s.pay, p)
	s.attr = append(s.attr, a)

	return s.ret, s.err
}

func streamInfo(ids []int64, r *rand.Rand) *interceptor.StreamInfo {
	info := &interceptor.StreamInfo{SSRC: r.Uint32()}
	// interleave unrelated and look-alike URIs (only the exact transport-cc -01 URI negotiates the extension)
	if r.Intn(2) == 0 {
		info.RTPHeaderExtensions = append(info.RTPHeaderExtensions, interceptor.RTPHeaderExtension{URI: "urn:other", ID: 3})
	}
	if r.Intn(2) == 0 {
		decoys := []string{uri[:len(uri)-1] + "2", uri + "x", strings.ToUpper(uri), uri[:len(uri)-3], " " + uri, ""}
		info.RTPHeaderExtensions = append(info.RTPHeaderExtensions,
			interceptor.RTPHeaderExtension{URI: decoys[r.Intn(len(decoys))], ID: 1 + r.Intn(14)})
	}
	for _, id := range ids {
		info.RTPHeaderExtensions = append(info.RTPHeaderExtensions, interceptor.RTPHeaderExtension{URI: uri, ID: int(id)})
	}

	return info
}

var errSink = errors.New("sink error")

// observeWrite performs one Write through w (whose downstream writer is s) and reports what the downstream
// writer saw; payload identity, attributes and the returned values are checked here.
func observeWrite(w interceptor.RTPWriter, s *sink, hd hdr, payLen, k int, c interface{}, fails *[]cq.ImplFailure) res {
	h := toHeader(hd)
	payload := make([]byte, payLen)
	for i := range payload {
		payload[i] = byte(i*7 + k)
	}
	keep := append([]byte{}, payload...)
	attr := interceptor.Attributes{"k": k}
	s.err = nil
	if k%11 == 10 {
		s.err = errSink
	}
	before := len(s.calls)
	n, err := w.Write(h, payload, attr)
	switch {
	case len(s.calls) == before:
		if err == nil {
			*fails = append(*fails, cq.ImplFailure{Kind: "dropped", Detail: "no error and next writer not called", Case: c})
		}

		return res{Kind: "err"}
	case len(s.calls) == before+1:
		got := fromHeader(s.calls[before])
		if n != s.ret || !errors.Is(err, s.err) || (s.err == nil && err != nil) {
			*fails = append(*fails, cq.ImplFailure{Kind: "result-changed", Detail: fmt.Sprintf("n=%d err=%v", n, err), Case: c})
		}
		p := s.pay[before]
		if len(p) != len(keep) || (len(p) > 0 && &p[0] != &payload[0]) || string(p) != string(keep) || string(payload) != string(keep) {
			*fails = append(*fails, cq.ImplFailure{Kind: "payload-changed", Detail: "payload differs from the caller's", Case: c})
		}
		if s.attr[before]["k"] != k {
			*fails = append(*fails, cq.ImplFailure{Kind: "attributes-changed", Detail: "attributes differ", Case: c})
		}

		return res{Kind: "forward", H: &got}
	default:
		*fails = append(*fails, cq.ImplFailure{Kind: "duplicated", Detail: "next writer called more than once", Case: c})

		return res{Kind: "err"}
	}
}

func runSeq(c seqCase, r *rand.Rand, fails *[]cq.ImplFailure) seqCase {
	f, _ := twcc.NewHeaderExtensionInterceptor()
	ic, _ := f.NewInterceptor("")
	sinks := make([]*sink, len(c.Streams))
	writers := make([]interceptor.RTPWriter, len(c.Streams))
	pass := make([]bool, len(c.Streams))
	for i, ids := range c.Streams {
		sinks[i] = &sink{ret: 7 + i}
		writers[i] = ic.BindLocalStream(streamInfo(ids, r), sinks[i])
		_, pass[i] = writers[i].(*sink)
	}
	c.Outs = nil
	for k, o := range c.Ops {
		s := sinks[o.Stream]
		if pass[o.Stream] {
			c.Outs = append(c.Outs, res{Kind: "pass"})

			continue
		}
		c.Outs = append(c.Outs, observeWrite(writers[o.Stream], s, o.H, o.PayLen, k, c, fails))
	}

	return c
}

func (c seqCase) toCase(b ...string) cq.Case {
	ss := make([]string, len(c.Streams))
	for i, s := range c.Streams {
		ss[i] = cq.LZ(s)
	}
	ops := make([]string, len(c.Ops))
	for i, o := range c.Ops {
		ops[i] = cq.T(cq.Z(o.Stream), coqHdrOpt(o.H))
	}
	outs := make([]string, len(c.Outs))
	nfwd := 0
	for i, o := range c.Outs {
		switch o.Kind {
		case "forward":
			outs[i] = cq.C("Forward", coqHdr(*o.H))
			nfwd++
		case "pass":
			outs[i] = "PassThrough"
		default:
			outs[i] = "WErr"
		}
	}

	return cq.Case{Coq: cq.T(cq.L(ss), cq.L(ops), cq.L(outs)), JSON: c, Buckets: b, Trivial: nfwd < 2}
}

func genHdr(r *rand.Rand, sid int64) (hdr, string) {
	h := hdr{Fixed: []int64{
		2, int64(r.Intn(2)), int64(r.Intn(2)), int64(r.Intn(128)), int64(r.Intn(65536)),
		int64(r.Uint32()), int64(r.Uint32()), int64(r.Intn(4)),
	}, Exts: []ext{}}
	for i := r.Intn(4); i > 0 && r.Intn(2) == 0; i-- {
		h.Fixed = append(h.Fixed, int64(r.Uint32()))
	}
	pay := func(max int) []int64 {
		p := make([]int64, 1+r.Intn(max))
		for i := range p {
			p[i] = int64(r.Intn(256))
		}

		return p
	}
	k := r.Intn(12)
	if k >= 9 { // an element under the stream's own id is already there: first / middle / last / sole, both profiles
		return genSameID(r, h, sid)
	}
	switch k {
	case 0:
		return hdr{Nil: true}, "nil-header"
	case 1, 2:
		return h, "no-extension"
	case 3: // one-byte profile, other ids
		h.Ext, h.Profile = true, 0xBEDE
		for _, id := range r.Perm(14)[:1+r.Intn(3)] {
			if int64(id+1) != sid {
				h.Exts = append(h.Exts, ext{ID: int64(id + 1), Payload: pay(16)})
			}
		}

		return h, "one-byte-others"
	case 4: // one-byte profile with the same id already present
		h.Ext, h.Profile = true, 0xBEDE
		if sid >= 1 && sid <= 14 {
			h.Exts = append(h.Exts, ext{ID: 1 + (sid % 14), Payload: pay(4)}, ext{ID: sid, Payload: pay(2)})
			if h.Exts[0].ID == sid {
				h.Exts = h.Exts[1:]
			}
		}

		return h, "one-byte-same-id"
	case 5: // two-byte profile
		h.Ext, h.Profile = true, 0x1000
		h.Exts = append(h.Exts, ext{ID: 20, Payload: pay(40)})
		if r.Intn(2) == 0 && sid > 0 {
			h.Exts = append(h.Exts, ext{ID: sid, Payload: pay(3)})
		}

		return h, "two-byte"
	case 6: // RFC 3550 profile: SetExtension must fail for id != 0
		h.Ext, h.Profile = true, 0x1234
		h.Exts = append(h.Exts, ext{ID: 0, Payload: pay(8)})

		return h, "rfc3550-profile"
	case 7: // extension flag set, empty list
		h.Ext, h.Profile = true, 0xBEDE

		return h, "empty-block"
	default:
		h.Ext, h.Profile = true, 0x1000

		return h, "empty-two-byte"
	}
}

// genSameID fills h with an extension block that ALREADY carries an element under id (a forwarded / re-sent
// packet): the element is the first, a middle, the last or the sole element, in the one- or the two-byte profile;
// its old value has the length of the transport-cc value (2) or another length.
func genSameID(r *rand.Rand, h hdr, sid int64) (hdr, string) {
	id := sid
	if id == 0 {
		id = int64(1 + r.Intn(14)) // not negotiated: any element will do
	}
	two := id > 14 || r.Intn(2) == 0
	h.Ext, h.Profile = true, 0xBEDE
	prof := "one-byte"
	maxLen, maxID := 16, 14
	if two {
		h.Profile, prof = 0x1000, "two-byte"
		maxLen, maxID = 40, 14
		if r.Intn(2) == 0 {
			maxID = 255
		}
	}
	pay := func(n int) []int64 {
		p := make([]int64, n)
		for i := range p {
			p[i] = int64(r.Intn(256))
		}

		return p
	}
	own := ext{ID: id, Payload: pay(2)}
	if r.Intn(4) == 0 {
		own.Payload = pay([]int{1, 3, 4, 2 + r.Intn(maxLen-1)}[r.Intn(4)])
	}
	pos := []string{"first", "middle", "last", "sole"}[r.Intn(4)]
	used := map[int64]bool{id: true}
	other := func(n int) []ext {
		var out []ext
		for len(out) < n {
			x := int64(1 + r.Intn(maxID))
			if used[x] {
				continue
			}
			used[x] = true
			out = append(out, ext{ID: x, Payload: pay(1 + r.Intn(maxLen))})
		}

		return out
	}
	switch pos {
	case "first":
		h.Exts = append([]ext{own}, other(1+r.Intn(3))...)
	case "middle":
		h.Exts = append(append(other(1+r.Intn(2)), own), other(1+r.Intn(2))...)
	case "last":
		h.Exts = append(other(1+r.Intn(3)), own)
	default:
		h.Exts = []ext{own}
	}

	return h, "same-id-" + pos + "-" + prof
}

func genSeq(r *rand.Rand) (seqCase, []string) {
	c := seqCase{}
	ns := 1 + r.Intn(4)
	for i := 0; i < ns; i++ {
		var ids []int64
		switch r.Intn(6) {
		case 0: // not negotiated
		case 1:
			ids = []int64{int64(1 + r.Intn(14)), int64(1 + r.Intn(14))}
		case 2:
			ids = []int64{[]int64{0, 15, 16, 255, 256, 261}[r.Intn(6)]}
		default:
			ids = []int64{int64(1 + r.Intn(14))}
		}
		c.Streams = append(c.Streams, ids)
	}
	bs := map[string]bool{}
	n := 1 + r.Intn(40)
	for i := 0; i < n; i++ {
		s := int64(r.Intn(ns))
		sid := int64(0)
		if len(c.Streams[s]) > 0 {
			sid = c.Streams[s][0] % 256
		}
		h, b := genHdr(r, sid)
		bs[b] = true
		c.Ops = append(c.Ops, op{Stream: s, H: h, PayLen: []int{0, 1, 50, 1200, 1460}[r.Intn(5)]})
	}
	keys := []string{}
	for k := range bs {
		keys = append(keys, k)
	}
	sort.Strings(keys)

	return c, keys
}

// segs prints a number list run-length compressed as (start, len) segments of +1 runs.
func segs(xs []int64) string {
	var out []string
	for i := 0; i < len(xs); {
		j := i + 1
		for j < len(xs) && xs[j] == xs[j-1]+1 {
			j++
		}
		out = append(out, cq.T(cq.Z(xs[i]), cq.Z(int64(j-i))))
		i = j
	}

	return cq.L(out)
}

type longCase struct {
	IDs []int64 `json:"ids"`
	H   hdr     `json:"h"`
	N   int64   `json:"n"`
	Obs []int64 `json:"-"`
}

func runLong(c longCase, r *rand.Rand) longCase {
	f, _ := twcc.NewHeaderExtensionInterceptor()
	ic, _ := f.NewInterceptor("")
	sid := uint8(c.IDs[0]) //nolint:gosec
	c.Obs = make([]int64, 0, c.N)
	w := ic.BindLocalStream(streamInfo(c.IDs, r), interceptor.RTPWriterFunc(
		func(h *rtp.Header, _ []byte, _ interceptor.Attributes) (int, error) {
			p := h.GetExtension(sid)
			if len(p) != 2 {
				c.Obs = append(c.Obs, -1)
			} else {
				c.Obs = append(c.Obs, int64(p[0])*256+int64(p[1]))
			}

			return 0, nil
		}))
	for i := int64(0); i < c.N; i++ {
		_, _ = w.Write(toHeader(c.H), nil, nil)
	}

	return c
}

type concCase struct {
	Writers int     `json:"writers"`
	Streams int     `json:"streams"`
	N       int64   `json:"n"`
	Sorted  []int64 `json:"-"`
	Head    []int64 `json:"head"`
}

func runConc(writers, streams int, per int64, r *rand.Rand) concCase {
	f, _ := twcc.NewHeaderExtensionInterceptor()
	ic, _ := f.NewInterceptor("")
	var mu sync.Mutex
	var got []int64
	ws := make([]interceptor.RTPWriter, streams)
	for i := range ws {
		sid := uint8(1 + r.Intn(14)) //nolint:gosec
		ws[i] = ic.BindLocalStream(streamInfo([]int64{int64(sid)}, r), interceptor.RTPWriterFunc(
			func(h *rtp.Header, _ []byte, _ interceptor.Attributes) (int, error) {
				p := h.GetExtension(sid)
				v := int64(-1)
				if len(p) == 2 {
					v = int64(p[0])*256 + int64(p[1])
				}
				mu.Lock()
				got = append(got, v)
				mu.Unlock()

				return 0, nil
			}))
	}
	var wg sync.WaitGroup
	for w := 0; w < writers; w++ {
		wg.Add(1)
		go func(w int) {
			defer wg.Done()
			for i := int64(0); i < per; i++ {
				_, _ = ws[(w+int(i))%streams].Write(&rtp.Header{Version: 2}, nil, nil)
			}
		}(w)
	}
	wg.Wait()
	sort.Slice(got, func(i, j int) bool { return got[i] < got[j] })
	c := concCase{Writers: writers, Streams: streams, N: int64(writers) * per, Sorted: got}
	c.Head = got
	if len(got) > 8 {
		c.Head = got[:8]
	}

	return c
}

func main() {
	o := cq.ParseFlags()
	r := o.Rand()
	var fails []cq.ImplFailure
	seq := &cq.Set{
		Name: "c15seq", Import: "IV.Check.C15WireCheck", CaseType: "seq_case",
		Checks: []string{"seq_mismatches", "seq_spec_failures", "seq_order_failures"},
	}
	long := &cq.Set{
		Name: "c15long", Import: "IV.Check.C15Check", CaseType: "long_case",
		Checks: []string{"long_mismatches", "long_spec_failures"},
	}
	conc := &cq.Set{
		Name: "c15conc", Import: "IV.Check.C15Check", CaseType: "conc_case",
		Checks: []string{"conc_spec_failures"},
	}
	life := &cq.Set{
		Name: "c15life", Import: "IV.Check.C15WireCheck", CaseType: "life_case",
		Checks: []string{"life_mismatches", "life_spec_failures", "life_order_failures"},
	}
	mconc := &cq.Set{
		Name: "c15mconc", Import: "IV.Check.C15Check", CaseType: "conc_case",
		Checks: []string{"conc_spec_failures"},
	}
	wire := &cq.Set{
		Name: "c15wire", Import: "IV.Check.C15WireCheck", CaseType: "wire_case",
		Checks: []string{"wire_mismatches", "wire_spec_failures"},
	}
	all := []*cq.Set{seq, long, conc, life, mconc, wire}
	if o.Replay != "" {
		var probe map[string]interface{}
		switch cq.LoadReplay(o.Replay, &probe) {
		case "c15life":
			var c lifeCase
			cq.LoadReplay(o.Replay, &c)
			life.Cases = append(life.Cases, runLife(c, r, &fails).toCase("replay"))
		case "c15wire":
			var c wireCase
			cq.LoadReplay(o.Replay, &c)
			wire.Cases = append(wire.Cases, runWire(c, r, &fails).toCase("replay"))
		case "c15mconc":
			var c mconcCase
			cq.LoadReplay(o.Replay, &c)
			for _, x := range runMConc(c, r) {
				mconc.Cases = append(mconc.Cases, x.toCase())
			}
		case "c15long":
			var c longCase
			cq.LoadReplay(o.Replay, &c)
			c = runLong(c, r)
			long.Cases = append(long.Cases, cq.Case{Coq: cq.T(cq.LZ(c.IDs), coqHdr(c.H), cq.Z(c.N), segs(c.Obs)), JSON: c})
		case "c15conc":
			var c concCase
			cq.LoadReplay(o.Replay, &c)
			c = runConc(c.Writers, c.Streams, c.N/int64(c.Writers), r)
			conc.Cases = append(conc.Cases, cq.Case{Coq: cq.T(cq.Z(c.N), segs(c.Sorted)), JSON: c})
		default:
			var c seqCase
			cq.LoadReplay(o.Replay, &c)
			seq.Cases = append(seq.Cases, runSeq(c, r, &fails).toCase("replay"))
		}
		cq.Write(o, "replay", all, nil, fails)

		return
	}
	for _, f := range o.CorpusFiles() {
		var probe map[string]interface{}
		switch cq.LoadReplay(f, &probe) {
		case "c15seq":
			var c seqCase
			cq.LoadReplay(f, &c)
			seq.Cases = append(seq.Cases, runSeq(c, r, &fails).toCase("corpus"))
		case "c15life":
			var c lifeCase
			cq.LoadReplay(f, &c)
			life.Cases = append(life.Cases, runLife(c, r, &fails).toCase("corpus"))
		case "c15wire":
			var c wireCase
			cq.LoadReplay(f, &c)
			wire.Cases = append(wire.Cases, runWire(c, r, &fails).toCase("corpus"))
		}
	}
	n := o.Scale(2500, 40000)
	for i := 0; i < n; i++ {
		c, bs := genSeq(r)
		seq.Cases = append(seq.Cases, runSeq(c, r, &fails).toCase(bs...))
	}
	// more than 2^16 packets through one interceptor
	nl := o.Scale(2, 12)
	for i := 0; i < nl; i++ {
		c := longCase{IDs: []int64{int64(1 + r.Intn(14))}, N: 65536 + int64(r.Intn(3000)) + 1}
		c.H, _ = genHdr(r, c.IDs[0])
		for c.H.Nil || c.H.Profile == 0x1234 {
			c.H, _ = genHdr(r, c.IDs[0])
		}
		c = runLong(c, r)
		long.Cases = append(long.Cases, cq.Case{
			Coq: cq.T(cq.LZ(c.IDs), coqHdr(c.H), cq.Z(c.N), segs(c.Obs)), JSON: c, Buckets: []string{"over-2^16"},
		})
	}
	// concurrent writers: the emitted multiset must be one consecutive run
	nc := o.Scale(3, 40)
	for i := 0; i < nc; i++ {
		w := []int{2, 4, 16}[i%3]
		c := runConc(w, 1+r.Intn(4), int64(66000/w+r.Intn(100)), r)
		conc.Cases = append(conc.Cases, cq.Case{
			Coq: cq.T(cq.Z(c.N), segs(c.Sorted)), JSON: c, Buckets: []string{fmt.Sprintf("writers-%d", w)},
		})
	}
	// screened search for a wrap-time race: many more cheap rounds (one wrap each, 8 or 16 contending writers);
	// only rounds whose emitted multiset looks wrong here are handed to the Coq oracle (none on a correct tree)
	nsearch, hits := o.Scale(160, 800), 0
	for i := 0; i < nsearch && hits < 2; i++ {
		w := []int{8, 16}[i%2]
		c := runConc(w, 1+r.Intn(4), int64(66000/w+r.Intn(100)), r)
		clean := int64(len(c.Sorted)) == c.N
		for k := int64(0); clean && k < c.N; k++ {
			// sorted { k mod 2^16 | k < N } with 2^16 <= N < 2^17: values below N-2^16 twice, the others once
			lo := c.N - 65536
			var want int64
			if k < 2*lo {
				want = k / 2
			} else {
				want = k - lo
			}
			clean = c.Sorted[k] == want
		}
		if !clean {
			hits++
			conc.Cases = append(conc.Cases, cq.Case{
				Coq: cq.T(cq.Z(c.N), segs(c.Sorted)), JSON: c, Buckets: []string{"screened-wrap-race"},
			})
		}
	}
	// lifecycle histories over several factories / instances / stream handles
	nlife := o.Scale(500, 12000)
	for i := 0; i < nlife; i++ {
		c, bs := genLife(r)
		life.Cases = append(life.Cases, runLife(c, r, &fails).toCase(bs...))
	}
	// concurrent writers on several instances of one factory, each instance must have its own consecutive run
	nm := o.Scale(2, 12)
	for i := 0; i < nm; i++ {
		w := []int{2, 4, 8}[i%3]
		c := mconcCase{Instances: 2 + i%2, Writers: w, Streams: 1 + r.Intn(3), Per: int64(66000/w + r.Intn(100)), Churn: i%2 == 1}
		for _, x := range runMConc(c, r) {
			mconc.Cases = append(mconc.Cases, x.toCase())
		}
	}
	// wire image of the header before / after the interceptor, half of the packets already carrying the negotiated id
	nw := o.Scale(250, 8000)
	for i := 0; i < nw; i++ {
		c, bs := genWire(r)
		wire.Cases = append(wire.Cases, runWire(c, r, &fails).toCase(bs...))
	}
	cq.Write(o, "seq: 1..4 streams (negotiated ids 1..14, two entries, not negotiated, ids 0/15/16/255/256/261) x 1..40 writes over header shapes "+
		"(nil, no extension, one-byte others/same id, two-byte, RFC3550 profile, empty blocks, element under the stream's own id already present as first/middle/last/sole element in one-/two-byte profile), payload 0..1460, every 11th downstream write failing; "+
		"non-trivial = at least 2 forwarded packets; long: >2^16 writes on one stream; conc: 2/4/16 goroutines x >=70000 writes over 1..4 streams, plus up to 160 screened one-wrap rounds with 8/16 writers (a round is emitted only if its multiset looks wrong to the harness); "+
		"life: histories of API calls (NewInterceptor via factory / Registry.Build / zero value on 1..2 factories and 1..3 instances, BindLocalStream, "+
		"UnbindLocalStream, writes through current and held writers, Close, BindRemoteStream/UnbindRemoteStream/BindRTCPReader/BindRTCPWriter) over 1..7 stream handles, "+
		"scenarios (interleaved instances of one factory, unbind-all then bind again / held writers, close, bind-unbind churn) and free random walks; "+
		"mconc: 2..3 instances of one factory x 2/4/8 goroutines each x >2^16 writes per instance, with and without a lifecycle goroutine per instance; "+
		"wire: one negotiated stream, 1..10 packets, marshalled header before and after (half of the packets already carry an element under the negotiated id)",
		all, nil, fails)
}
