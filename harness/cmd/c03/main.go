// Generator for C03: NACK generator (pkg/nack receiveLog and GeneratorInterceptor).
//
// Two case sets:
//
//	c03core: the unexported receiveLog through the verif hook; every add,
//	         every missingSeqNumbers call and every get call is recorded.
//	c03api:  the real GeneratorInterceptor through its public API
//	         (NewGeneratorInterceptor, BindRemoteStream, the returned reader,
//	         UnbindRemoteStream, BindRTCPWriter, Close). The ticker loop is run
//	         one tick at a time: BindRTCPWriter starts the loop with a short
//	         interval, a sentinel stream that gains one new missing number
//	         before every tick tells the harness that the tick body has run,
//	         Close() waits for the loop (and so for all RTCP writes of the
//	         tick), and the hook VerifGenReopen re-arms the interceptor.
//	         Every tick runs against a writer plan (ops {2, mode, p, 0}): the
//	         RTCP writer records each packet handed to it and then returns an
//	         error for the Write calls the plan names (none / the p-th call of
//	         the tick / all / those for MediaSSRC p / all from the p-th on).
package main

import (
	"errors"
	"fmt"
	"math/rand"
	"sort"
	"strings"
	"sync"
	"time"

	"github.com/pion/interceptor"
	"github.com/pion/interceptor/pkg/nack"
	"github.com/pion/rtcp"
	"github.com/pion/rtp"

	"verifharness/internal/cq"
)

// ---------------------------------------------------------------- core stream

type coreCase struct {
	Size int64      `json:"size"`
	Ops  [][2]int64 `json:"ops"` // {0, seq} add, {1, skipLastN} missingSeqNumbers, {2, seq} get (output [1] / [0])
	Outs [][]int64  `json:"outs"`
}

func safeMissing(l *nack.VerifReceiveLog, skip uint16) (out []int64) {
	defer func() {
		if r := recover(); r != nil {
			out = []int64{-1}
		}
	}()
	res := l.MissingSeqNumbers(skip)
	out = make([]int64, len(res))
	for i, x := range res {
		out[i] = int64(x)
	}

	return out
}

func runCore(size int64, ops [][2]int64) coreCase {
	c := coreCase{Size: size, Ops: ops, Outs: [][]int64{}}
	l, err := nack.NewVerifReceiveLog(uint16(size)) //nolint:gosec
	if err != nil {
		panic(fmt.Sprintf("newReceiveLog(%d): %v", size, err))
	}
	for _, op := range ops {
		switch op[0] {
		case 0:
			l.Add(uint16(op[1])) //nolint:gosec
		case 2:
			if l.Get(uint16(op[1])) { //nolint:gosec
				c.Outs = append(c.Outs, []int64{1})
			} else {
				c.Outs = append(c.Outs, []int64{0})
			}
		default:
			c.Outs = append(c.Outs, safeMissing(l, uint16(op[1]))) //nolint:gosec
		}
	}

	return c
}

// runs prints a list of 16-bit numbers run-length compressed: (a, n) = a, a+1, ..., a+n-1 (mod 2^16);
// the panic marker [-1] is printed as (-1, 0).
func runs(xs []int64) string {
	var ps []string
	for i := 0; i < len(xs); {
		if xs[i] < 0 {
			ps = append(ps, cq.T(cq.Z(xs[i]), "0"))
			i++

			continue
		}
		j := i + 1
		for j < len(xs) && xs[j] == (xs[j-1]+1)&0xFFFF {
			j++
		}
		ps = append(ps, cq.T(cq.Z(xs[i]), cq.Z(int64(j-i))))
		i = j
	}

	return cq.L(ps)
}

func (c coreCase) toCase(buckets []string) cq.Case {
	ops := make([]string, len(c.Ops))
	for i, op := range c.Ops {
		ops[i] = cq.T(cq.Z(op[0]), cq.Z(op[1]))
	}
	outs := make([]string, len(c.Outs))
	triv := true
	qi := 0
	for _, op := range c.Ops { // non-trivial: a missingSeqNumbers query returned a non-empty list
		if op[0] == 0 {
			continue
		}
		if qi < len(c.Outs) && op[0] == 1 && len(c.Outs[qi]) > 0 {
			triv = false
		}
		qi++
	}
	for i, o := range c.Outs {
		outs[i] = runs(o)
	}

	return cq.Case{Coq: cq.T(cq.Z(c.Size), cq.L(ops), cq.L(outs)), JSON: c, Buckets: buckets, Trivial: triv}
}

// arrival generator shared by both sets: tracks the highest number by the
// half-range rule so that boundary distances can be aimed at.
type arrGen struct {
	r     *rand.Rand
	size  int64
	hi    int64 // unwrapped highest so far
	start bool
	bk    map[string]bool
}

func newArrGen(r *rand.Rand, size int64, bk map[string]bool) *arrGen {
	g := &arrGen{r: r, size: size, bk: bk}
	switch r.Intn(4) {
	case 0:
		g.hi = 65536 - int64(r.Intn(int(size)+40)) - 1 // wrap soon
		bk["start-near-wrap"] = true
	case 1:
		g.hi = int64(r.Intn(3))
	default:
		g.hi = int64(r.Intn(65536))
	}

	return g
}

// next returns the next 16-bit arrival. mode selects the traffic style.
func (g *arrGen) next(mode int) int64 {
	if !g.start {
		g.start = true

		return g.hi & 0xFFFF
	}
	r, sz := g.r, g.size
	var u int64
	p := r.Intn(100)
	fwd := func(d int64) int64 { g.hi += d; return g.hi }
	switch mode {
	case 0: // mostly in order: loss, duplicates, small reordering
		switch {
		case p < 55:
			u = fwd(1)
		case p < 75:
			u = fwd(2 + int64(r.Intn(4)))
			g.bk["loss"] = true
		case p < 85:
			u = g.hi - int64(r.Intn(6))
			g.bk["dup-or-late-small"] = true
		default:
			u = g.hi - int64(r.Intn(int(sz)))
			g.bk["late-in-window"] = true
		}
	case 1: // window edge: late packets and jumps at size-1, size, size+1
		edge := []int64{sz - 2, sz - 1, sz, sz + 1, sz + 2, 2*sz - 1, 2 * sz, 2*sz + 1}
		edgeName := []string{"size-2", "size-1", "size", "size+1", "size+2", "2size-1", "2size", "2size+1"}
		switch {
		case p < 35:
			u = fwd(1 + int64(r.Intn(3)))
		case p < 65:
			ei := r.Intn(len(edge))
			u = g.hi - edge[ei]
			g.bk["late-d="+edgeName[ei]] = true
		case p < 85:
			ei := r.Intn(len(edge))
			d := edge[ei]
			if d >= 32768 {
				d = 32767
			}
			u = fwd(d)
			g.bk["jump-d="+edgeName[ei]] = true
		default:
			u = g.hi - sz - int64(r.Intn(int(3*sz)))
			g.bk["late-behind-window"] = true
		}
	case 2: // half range: jumps and late packets near 2^15
		half := []int64{32766, 32767, 32768, 32769, 32770}
		switch {
		case p < 40:
			u = fwd(1 + int64(r.Intn(3)))
		case p < 60:
			d := half[r.Intn(len(half))]
			g.bk[fmt.Sprintf("delta=%d", d)] = true
			if d < 32768 {
				u = fwd(d)
			} else {
				u = g.hi + d - 65536 // the log reads this as a late packet
			}
		case p < 80:
			d := int64(16000 + r.Intn(16767))
			u = fwd(d)
			g.bk["jump-large"] = true
		default:
			u = g.hi - int64(1+r.Intn(32768))
			g.bk["late-any"] = true
		}
	default: // anything
		v := int64(r.Intn(65536))
		d := (v - g.hi) & 0xFFFF
		if d != 0 && d < 32768 {
			g.hi += d
		}
		g.bk["uniform"] = true

		return v
	}
	if u < g.hi-32768 { // too far back: would be read as forward; keep it in the late half
		u = g.hi - 32768
	}

	return u & 0xFFFF
}

func pickSkip(r *rand.Rand, size int64, bk map[string]bool) int64 {
	if r.Intn(100) < 65 {
		return 0
	}
	c := []int64{1, 2, 3, size / 2, size - 1, size, size + 1, 32767, 32768, 32769, 65535, int64(r.Intn(65536)), int64(r.Intn(int(size)))}
	s := c[r.Intn(len(c))]
	switch {
	case s >= 32768:
		bk["skip>=2^15"] = true
	case s > size:
		bk["skip>size"] = true
	case s == size:
		bk["skip=size"] = true
	case s == size-1:
		bk["skip=size-1"] = true
	default:
		bk["skip-small"] = true
	}

	return s
}

func genCore(r *rand.Rand) (int64, [][2]int64, []string) {
	bk := map[string]bool{}
	var size int64
	big := false
	switch p := r.Intn(100); {
	case p < 55:
		size = []int64{64, 128}[r.Intn(2)]
	case p < 88:
		size = []int64{256, 512, 1024}[r.Intn(3)]
	default:
		size = []int64{2048, 4096, 8192, 16384, 32768}[r.Intn(5)]
		big = true
	}
	bk[fmt.Sprintf("size=%d", size)] = true
	g := newArrGen(r, size, bk)
	mode := r.Intn(4)
	bk[fmt.Sprintf("mode=%d", mode)] = true
	n := 8 + r.Intn(50)
	qprob := 40
	maxq := 25
	if size >= 256 {
		n = 8 + r.Intn(30)
		qprob = 20
		maxq = 6
	}
	if big {
		n = 6 + r.Intn(16)
		qprob = 15
		maxq = 2
	}
	ops := [][2]int64{}
	q := 0
	if r.Intn(10) == 0 { // query before the first packet
		ops = append(ops, [2]int64{1, pickSkip(r, size, bk)})
		bk["query-unstarted"] = true
	}
	for i := 0; i < n; i++ {
		m := mode
		if r.Intn(8) == 0 {
			m = r.Intn(4)
		}
		seq := g.next(m)
		ops = append(ops, [2]int64{0, seq})
		if q < maxq && r.Intn(100) < qprob {
			ops = append(ops, [2]int64{1, pickSkip(r, size, bk)})
			q++
		}
		if r.Intn(100) < 30 { // receiveLog.get at the boundaries of its answer
			var t int64
			switch r.Intn(8) {
			case 0:
				t = seq
				bk["get-just-added"] = true
			case 1:
				t = g.hi - size + int64(r.Intn(3)) - 1 // window edge: hi-size-1, hi-size, hi-size+1
				bk["get-window-edge"] = true
			case 2:
				t = g.hi + 1 + int64(r.Intn(3))
				bk["get-ahead"] = true
			case 3:
				t = g.hi - 32767 - int64(r.Intn(3)) // half range behind
				bk["get-half-range"] = true
			case 4:
				t = g.hi - int64(r.Intn(int(size)))
				bk["get-in-window"] = true
			case 5:
				t = g.hi - size - int64(r.Intn(int(size))) // one window back: same slot as a live number
				bk["get-slot-alias"] = true
			case 6:
				t = g.hi
				bk["get-highest"] = true
			default:
				t = int64(r.Intn(65536))
				bk["get-uniform"] = true
			}
			ops = append(ops, [2]int64{2, t & 0xFFFF})
		}
	}
	if q < maxq+1 {
		ops = append(ops, [2]int64{1, 0})
	}
	bs := make([]string, 0, len(bk))
	for k := range bk {
		bs = append(bs, k)
	}
	sort.Strings(bs)

	return size, ops, bs
}

// ---------------------------------------------------------------- API stream

type nackOut struct {
	SSRC int64   `json:"ssrc"`
	Seqs []int64 `json:"seqs"`
}

type apiCase struct {
	Size     int64       `json:"size"`
	Skip     int64       `json:"skip"`
	Max      int64       `json:"max"`
	Sentinel int64       `json:"sentinel"` // SSRC whose NACK marks a tick; -1: blind (nothing can ever be sent)
	Ops      [][4]int64  `json:"ops"`
	Outs     [][]nackOut `json:"outs"`
}

type feed struct {
	next []byte
	err  error
}

var errRead = errors.New("read failed")

var errWrite = errors.New("transient rtcp write failure")

// writeFails is the writer plan of a tick (Model/NackSend.v, plan_writer): does the idx-th Write
// call of the tick (0-based) return an error? forSSRC: the call carries a NACK for MediaSSRC p.
func writeFails(mode, p, idx int64, forSSRC bool) bool {
	switch mode {
	case 1:
		return idx == p
	case 2:
		return true
	case 3:
		return forSSRC
	case 4:
		return idx >= p
	default:
		return false
	}
}

// runAPI drives the real interceptor. It returns ok=false when a cycle ran
// more than one tick (the caller retries with a longer interval).
func runAPI(in apiCase, interval time.Duration) (apiCase, bool) { //nolint:gocognit,cyclop
	c := apiCase{Size: in.Size, Skip: in.Skip, Max: in.Max, Sentinel: in.Sentinel, Ops: in.Ops, Outs: [][]nackOut{}}
	f, err := nack.NewGeneratorInterceptor(
		nack.GeneratorSize(uint16(in.Size)),             //nolint:gosec
		nack.GeneratorSkipLastN(uint16(in.Skip)),        //nolint:gosec
		nack.GeneratorMaxNacksPerPacket(uint16(in.Max)), //nolint:gosec
		nack.GeneratorInterval(interval),
	)
	if err != nil {
		panic(err)
	}
	ii, err := f.NewInterceptor("")
	if err != nil {
		panic(err)
	}
	gi, _ := ii.(*nack.GeneratorInterceptor)
	feeds := map[int64]*feed{}
	readers := map[int64]interceptor.RTPReader{}
	buf := make([]byte, 1500)

	var mu sync.Mutex
	var writes []nackOut
	var planMode, planP int64 // writer plan of the current cycle (see writeFails)
	calls := int64(0)         // Write calls seen in the current cycle
	sCh := make(chan struct{}, 64)
	writer := interceptor.RTCPWriterFunc(func(pkts []rtcp.Packet, _ interceptor.Attributes) (int, error) {
		mu.Lock()
		defer mu.Unlock()
		forSSRC := false
		for _, p := range pkts {
			nk, ok := p.(*rtcp.TransportLayerNack)
			if !ok {
				writes = append(writes, nackOut{SSRC: -1})

				continue
			}
			o := nackOut{SSRC: int64(nk.MediaSSRC), Seqs: []int64{}}
			for i := range nk.Nacks {
				for _, s := range nk.Nacks[i].PacketList() {
					o.Seqs = append(o.Seqs, int64(s))
				}
			}
			writes = append(writes, o)
			if o.SSRC == planP {
				forSSRC = true
			}
		}
		// the tick body has run (toSend is complete before the first Write): any Write call, failing
		// or not, tells the harness so; Close() then waits for the remaining Writes of the tick
		select {
		case sCh <- struct{}{}:
		default:
		}
		idx := calls
		calls++
		if writeFails(planMode, planP, idx, forSSRC) {
			return 0, errWrite
		}

		return len(pkts), nil
	})

	bind := func(ssrc int64, withNack bool) {
		fd := &feed{}
		feeds[ssrc] = fd
		under := interceptor.RTPReaderFunc(func(b []byte, a interceptor.Attributes) (int, interceptor.Attributes, error) {
			if fd.err != nil {
				return 0, nil, fd.err
			}

			return copy(b, fd.next), a, nil
		})
		fb := []interceptor.RTCPFeedback{{Type: "nack", Parameter: "pli"}, {Type: "goog-remb"}}
		if withNack {
			fb = append(fb, interceptor.RTCPFeedback{Type: "nack"})
		}
		readers[ssrc] = gi.BindRemoteStream(&interceptor.StreamInfo{SSRC: uint32(ssrc), RTCPFeedback: fb}, under) //nolint:gosec
	}

	for opi, op := range in.Ops {
		k, a, b, v := op[0], op[1], op[2], op[3]
		switch k {
		case 0, 1:
			fd, rd := feeds[a], readers[a]
			if rd == nil {
				continue
			}
			fd.err = nil
			if k == 1 {
				if opi%2 == 0 {
					fd.err = errRead
				} else {
					fd.next = []byte{0x80, 0x60, byte(b >> 8)} // truncated header
				}
			}
			if k == 0 {
				pkt := rtp.Packet{Header: rtp.Header{Version: 2, PayloadType: 96, SequenceNumber: uint16(b), SSRC: uint32(a), Timestamp: 1}, Payload: []byte{1, 2, 3}} //nolint:gosec
				raw, merr := pkt.Marshal()
				if merr != nil {
					panic(merr)
				}
				fd.next = raw
			}
			_, _, _ = rd.Read(buf, interceptor.Attributes{})
		case 2:
			mu.Lock()
			writes = nil
			planMode, planP, calls = a, b, 0
			mu.Unlock()
			for len(sCh) > 0 {
				<-sCh
			}
			gi.BindRTCPWriter(writer)
			if in.Sentinel >= 0 {
				select {
				case <-sCh:
				case <-time.After(300 * time.Millisecond): // no Write at all (the sentinel always has a new gap): recorded as is
				}
			} else {
				time.Sleep(3 * interval)
			}
			_ = gi.Close()
			nack.VerifGenReopen(gi)
			mu.Lock()
			ws := append([]nackOut{}, writes...)
			mu.Unlock()
			sCount := 0
			for _, w := range ws {
				if w.SSRC == in.Sentinel {
					sCount++
				}
			}
			if in.Sentinel >= 0 && sCount > 1 {
				return c, false
			}
			if in.Sentinel < 0 { // blind: several ticks may have run; keep the first packet per SSRC
				seen := map[int64]bool{}
				var first []nackOut
				for _, w := range ws {
					if !seen[w.SSRC] {
						seen[w.SSRC] = true
						first = append(first, w)
					}
				}
				ws = first
			}
			sort.SliceStable(ws, func(i, j int) bool { return ws[i].SSRC < ws[j].SSRC })
			c.Outs = append(c.Outs, ws)
		case 3:
			gi.UnbindRemoteStream(&interceptor.StreamInfo{SSRC: uint32(a)}) //nolint:gosec
		case 4:
			bind(a, true)
		case 5:
			bind(a, false)
		case 6:
			nack.VerifGenSetNackCount(gi, uint32(a), uint16(b), uint16(v)) //nolint:gosec
		}
	}
	_ = gi.Close()

	return c, true
}

func runAPIRetry(in apiCase) apiCase {
	iv := 1 * time.Millisecond
	for try := 0; try < 4; try++ {
		c, ok := runAPI(in, iv)
		if ok {
			return c
		}
		iv *= 6
	}
	panic("c03api: could not run one tick per cycle (machine overloaded?)")
}

func (c apiCase) toCase(buckets []string) cq.Case {
	ops := make([]string, len(c.Ops))
	for i, op := range c.Ops {
		ops[i] = cq.T(cq.Z(op[0]), cq.Z(op[1]), cq.Z(op[2]), cq.Z(op[3]))
	}
	outs := make([]string, len(c.Outs))
	triv := true
	for i, t := range c.Outs {
		ps := make([]string, len(t))
		for j, p := range t {
			ps[j] = cq.T(cq.Z(p.SSRC), runs(p.Seqs))
			if p.SSRC != c.Sentinel {
				triv = false
			}
		}
		outs[i] = cq.L(ps)
	}

	return cq.Case{
		Coq:  cq.T(cq.T(cq.Z(c.Size), cq.Z(c.Skip), cq.Z(c.Max)), cq.L(ops), cq.L(outs)),
		JSON: c, Buckets: buckets, Trivial: triv,
	}
}

// writerBuckets reports (after the run) whether a tick whose writer plan makes a Write fail had
// NACKs of several streams to hand over, and whether a limit was configured for it - the shape in
// which a failed Write for one stream could suppress or use up the request of another.
func (c apiCase) writerBuckets() []string {
	var bs []string
	seen := map[string]bool{}
	ti := 0
	for _, op := range c.Ops {
		if op[0] != 2 {
			continue
		}
		if ti < len(c.Outs) && op[1] != 0 {
			n, real := len(c.Outs[ti]), 0
			failed := false
			for i, p := range c.Outs[ti] {
				if p.SSRC != c.Sentinel {
					real++
				}
				// packets are sorted by SSRC here, the call order is the map order: count a tick as
				// "failing" when the plan fails some call index < n or names an SSRC that is present
				if writeFails(op[1], op[2], int64(i), p.SSRC == op[2]) {
					failed = true
				}
			}
			if failed && n >= 2 {
				seen["writer-error-tick-with->=2-packets"] = true
				if real >= 2 {
					seen["writer-error-tick-with->=2-stream-nacks"] = true
				}
				if c.Max > 0 {
					seen["writer-error-tick-with-limit"] = true
				}
			}
		}
		ti++
	}
	for k := range seen {
		bs = append(bs, k)
	}
	sort.Strings(bs)

	return bs
}

const sentinelSSRC = 999

func genAPI(r *rand.Rand) (apiCase, []string) { //nolint:gocognit,cyclop
	bk := map[string]bool{}
	c := apiCase{Sentinel: sentinelSSRC}
	c.Size = []int64{64, 64, 64, 64, 128, 128, 256, 512}[r.Intn(8)]
	c.Skip = []int64{0, 0, 0, 0, 1, 2, 3, 5, 10}[r.Intn(9)]
	c.Max = []int64{0, 0, 0, 1, 1, 2, 3, 5}[r.Intn(8)]
	if r.Intn(20) == 0 { // nothing can ever be requested: skipLastN >= size
		c.Skip = []int64{c.Size, c.Size + 1, 32768, 65535}[r.Intn(4)]
		c.Sentinel = -1
		bk["skip>=size(blind)"] = true
	}
	bk[fmt.Sprintf("max=%d", c.Max)] = true
	bk[fmt.Sprintf("skip=%d", c.Skip)] = true
	bk[fmt.Sprintf("size=%d", c.Size)] = true
	add := func(k, a, b, v int64) { c.Ops = append(c.Ops, [4]int64{k, a, b, v}) }

	nStreams := 1 + r.Intn(3)
	bk[fmt.Sprintf("streams=%d", nStreams)] = true
	type st struct {
		ssrc  int64
		g     *arrGen
		mode  int
		bound bool
		from  int
	}
	streams := []*st{}
	for i := 0; i < nStreams; i++ {
		s := &st{ssrc: int64(1111 * (i + 1)), mode: r.Intn(2)}
		if r.Intn(6) == 0 {
			s.mode = 2
		}
		s.g = newArrGen(r, c.Size, bk)
		if i > 0 && r.Intn(3) == 0 {
			s.from = 1 + r.Intn(4) // bound later
			bk["bind-late"] = true
		}
		streams = append(streams, s)
	}
	noNack := r.Intn(2) == 0
	var nn *arrGen
	if noNack {
		add(5, 7777, 0, 0)
		nn = newArrGen(r, c.Size, map[string]bool{})
		bk["stream-without-nack"] = true
	}
	sentSeq := int64(0)
	if c.Sentinel >= 0 {
		add(4, sentinelSSRC, 0, 0)
		add(0, sentinelSSRC, 0, 0)
		for sentSeq < c.Skip+2 {
			sentSeq += 2
			add(0, sentinelSSRC, sentSeq, 0)
		}
	}
	rounds := 4 + r.Intn(8)
	// RTCP writer plan of every tick: in 4 of 10 cases the downstream writer returns errors
	// (transient or persistent); the requests handed to it must be the same as with a healthy one
	writerErrs := r.Intn(10) < 4
	tickPlan := func() (int64, int64) {
		if !writerErrs || r.Intn(10) < 3 {
			return 0, 0
		}
		nPk := int64(nStreams + 1) // at most one packet per nack stream + the sentinel
		switch r.Intn(6) {
		case 0, 1:
			bk["writer-error:first-write"] = true

			return 1, 0
		case 2:
			bk["writer-error:kth-write"] = true

			return 1, 1 + r.Int63n(nPk)
		case 3:
			bk["writer-error:every-write"] = true

			return 2, 0
		case 4:
			bk["writer-error:writes-of-one-ssrc"] = true
			if r.Intn(3) == 0 {
				return 3, sentinelSSRC
			}

			return 3, streams[r.Intn(len(streams))].ssrc
		default:
			bk["writer-error:from-kth-write-on"] = true

			return 4, r.Int63n(nPk)
		}
	}
	fullCycleAt := -1
	if c.Max > 0 && r.Intn(12) == 0 {
		fullCycleAt = 1 + r.Intn(rounds-1)
	}
	for rd := 0; rd < rounds; rd++ {
		for _, s := range streams {
			if !s.bound && s.from == rd {
				add(4, s.ssrc, 0, 0)
				s.bound = true
			}
			if s.from > rd {
				continue
			}
			if s.bound && rd > 1 && r.Intn(25) == 0 {
				add(3, s.ssrc, 0, 0)
				add(0, s.ssrc, s.g.next(0), 0) // the old reader is still in use: goes to the orphaned log
				add(0, s.ssrc, s.g.next(0), 0)
				s.bound = false
				s.from = rd + 1 + r.Intn(3)
				s.g = newArrGen(r, c.Size, bk) // a re-bound stream starts afresh
				bk["unbind"] = true
			}
			if s.bound && rd > 0 && r.Intn(20) == 0 {
				// BindRemoteStream again without UnbindRemoteStream: the new stream starts afresh
				// (fresh log, no inherited NACK counts)
				add(4, s.ssrc, 0, 0)
				s.g = newArrGen(r, c.Size, bk)
				bk["rebind-without-unbind"] = true
			}
			n := r.Intn(9)
			if r.Intn(6) == 0 {
				n = 0
				bk["idle-round"] = true
			}
			if fullCycleAt == rd && s == streams[0] {
				// the same 16-bit numbers come back one full cycle later between two ticks
				for _, d := range []int64{21846, 21846, 21844} {
					s.g.hi += d
					add(0, s.ssrc, s.g.hi&0xFFFF, 0)
				}
				bk["full-cycle-between-ticks"] = true
			}
			for i := 0; i < n; i++ {
				seq := s.g.next(s.mode)
				if r.Intn(15) == 0 {
					add(1, s.ssrc, seq, 0) // read error / malformed: must not be recorded
					bk["read-error"] = true
					// the packet is lost: forget that the generator counted it
					continue
				}
				add(0, s.ssrc, seq, 0)
			}
		}
		if noNack {
			for i := 0; i < 3; i++ {
				add(0, 7777, (nn.next(0)+int64(2*i))&0xFFFF, 0)
			}
		}
		if c.Sentinel >= 0 {
			sentSeq += 2
			add(0, sentinelSSRC, sentSeq&0xFFFF, 0)
		}
		pm, pp := tickPlan()
		add(2, pm, pp, 0)
	}
	bs := make([]string, 0, len(bk))
	for k := range bk {
		bs = append(bs, k)
	}
	sort.Strings(bs)

	return c, bs
}

// ---------------------------------------------------------------- wrap stream (thorough tier only)

// wrapCase is the real-tick variant of the F3 witness: the real ticker loop
// runs free (interval of a few microseconds) for Cycles > 65536 cycles. A
// counting stream (SSRC 999) is unbound, re-bound and fed 0, 2 in every cycle,
// so exactly one tick per cycle NACKs 999:[1]; the harness waits for that NACK
// before it starts the next cycle, hence at least Cycles ticks run. Stream
// 1111 keeps 5 missing at its limit (max 1) for the whole run: it must be
// requested by the first tick and never again. Ticks that run in between send
// nothing; in the fixed code they change nothing either.
type wrapCase struct {
	Size       int64     `json:"size"`
	Skip       int64     `json:"skip"`
	Max        int64     `json:"max"`
	Cycles     int64     `json:"cycles"`
	IntervalNs int64     `json:"interval_ns"`
	Outs       []wrapOut `json:"outs"` // per-cycle outputs, run-length compressed
}

type wrapOut struct {
	Out []nackOut `json:"out"`
	N   int64     `json:"n"`
}

const wrapStream, wrapCounter = 1111, 999

func runWrap(in wrapCase) wrapCase { //nolint:gocognit,cyclop
	c := wrapCase{Size: in.Size, Skip: in.Skip, Max: in.Max, Cycles: in.Cycles, IntervalNs: in.IntervalNs}
	f, err := nack.NewGeneratorInterceptor(
		nack.GeneratorSize(uint16(in.Size)),             //nolint:gosec
		nack.GeneratorSkipLastN(uint16(in.Skip)),        //nolint:gosec
		nack.GeneratorMaxNacksPerPacket(uint16(in.Max)), //nolint:gosec
		nack.GeneratorInterval(time.Duration(in.IntervalNs)),
	)
	if err != nil {
		panic(err)
	}
	ii, err := f.NewInterceptor("")
	if err != nil {
		panic(err)
	}
	gi, _ := ii.(*nack.GeneratorInterceptor)
	buf := make([]byte, 1500)

	var mu sync.Mutex
	var writes []nackOut
	sCh := make(chan struct{}, 64)
	writer := interceptor.RTCPWriterFunc(func(pkts []rtcp.Packet, _ interceptor.Attributes) (int, error) {
		mu.Lock()
		defer mu.Unlock()
		for _, p := range pkts {
			nk, ok := p.(*rtcp.TransportLayerNack)
			if !ok {
				writes = append(writes, nackOut{SSRC: -1})

				continue
			}
			o := nackOut{SSRC: int64(nk.MediaSSRC), Seqs: []int64{}}
			for i := range nk.Nacks {
				for _, s := range nk.Nacks[i].PacketList() {
					o.Seqs = append(o.Seqs, int64(s))
				}
			}
			writes = append(writes, o)
			if o.SSRC == wrapCounter {
				select {
				case sCh <- struct{}{}:
				default:
				}
			}
		}

		return 0, nil
	})
	fb := []interceptor.RTCPFeedback{{Type: "nack"}}
	var next []byte
	under := interceptor.RTPReaderFunc(func(b []byte, a interceptor.Attributes) (int, interceptor.Attributes, error) {
		return copy(b, next), a, nil
	})
	feed := func(rd interceptor.RTPReader, ssrc, seq int64) {
		pkt := rtp.Packet{Header: rtp.Header{Version: 2, PayloadType: 96, SequenceNumber: uint16(seq), SSRC: uint32(ssrc), Timestamp: 1}, Payload: []byte{1}} //nolint:gosec
		raw, merr := pkt.Marshal()
		if merr != nil {
			panic(merr)
		}
		next = raw
		_, _, _ = rd.Read(buf, interceptor.Attributes{})
	}
	take := func() []nackOut {
		mu.Lock()
		ws := append([]nackOut{}, writes...)
		writes = nil
		mu.Unlock()
		sort.SliceStable(ws, func(i, j int) bool { return ws[i].SSRC < ws[j].SSRC })

		return ws
	}
	var outs [][]nackOut
	mainRd := gi.BindRemoteStream(&interceptor.StreamInfo{SSRC: wrapStream, RTCPFeedback: fb}, under)
	feed(mainRd, wrapStream, 4)
	feed(mainRd, wrapStream, 6)
	cycleOps := func() {
		gi.UnbindRemoteStream(&interceptor.StreamInfo{SSRC: wrapCounter})
		rd := gi.BindRemoteStream(&interceptor.StreamInfo{SSRC: wrapCounter, RTCPFeedback: fb}, under)
		feed(rd, wrapCounter, 0)
		feed(rd, wrapCounter, 2)
		feed(mainRd, wrapStream, 6) // duplicate of the highest: no effect on the log
	}
	wait := func(cy int64) {
		select {
		case <-sCh:
		case <-time.After(10 * time.Second):
			panic(fmt.Sprintf("c03wrap: no tick within 10 s in cycle %d", cy))
		}
	}
	// cycle 0 with the loop stopped afterwards (Close waits for every write of the ticks that ran),
	// so that the NACK of 1111 is attributed to the first cycle exactly
	cycleOps()
	gi.BindRTCPWriter(writer)
	wait(0)
	_ = gi.Close()
	nack.VerifGenReopen(gi)
	outs = append(outs, take())
	for len(sCh) > 0 {
		<-sCh
	}
	// the remaining cycles against the free-running loop
	gi.BindRTCPWriter(writer)
	for cy := int64(1); cy < in.Cycles; cy++ {
		cycleOps()
		wait(cy)
		outs = append(outs, take())
	}
	_ = gi.Close()
	if rest := take(); len(rest) > 0 { // writes of ticks after the last collection
		last := append(outs[len(outs)-1], rest...)
		sort.SliceStable(last, func(i, j int) bool { return last[i].SSRC < last[j].SSRC })
		outs[len(outs)-1] = last
	}
	for _, o := range outs {
		k := fmt.Sprint(o)
		if n := len(c.Outs); n > 0 && fmt.Sprint(c.Outs[n-1].Out) == k {
			c.Outs[n-1].N++
		} else {
			c.Outs = append(c.Outs, wrapOut{Out: o, N: 1})
		}
	}

	return c
}

func (c wrapCase) toCase(buckets []string) cq.Case {
	outs := make([]string, len(c.Outs))
	for i, t := range c.Outs {
		ps := make([]string, len(t.Out))
		for j, p := range t.Out {
			ps[j] = cq.T(cq.Z(p.SSRC), runs(p.Seqs))
		}
		outs[i] = cq.T(cq.L(ps), cq.Z(t.N))
	}

	return cq.Case{
		Coq:  cq.T(cq.T(cq.Z(c.Size), cq.Z(c.Skip), cq.Z(c.Max)), cq.Z(c.Cycles), cq.L(outs)),
		JSON: c, Buckets: buckets, Trivial: false,
	}
}

// ---------------------------------------------------------------- main

func main() {
	o := cq.ParseFlags()
	r := o.Rand()
	// several sets per stream so that the driver evaluates them in parallel (one coqc per set shard)
	const nCoreSets, nAPISets = 6, 4
	var cores, apis []*cq.Set
	for i := 0; i < nCoreSets; i++ {
		cores = append(cores, &cq.Set{
			Name: fmt.Sprintf("c03core%d", i), Import: "IV.Check.C03Check", CaseType: "core_case",
			Checks: []string{"core_mismatches", "core_spec_failures"},
		})
	}
	for i := 0; i < nAPISets; i++ {
		apis = append(apis, &cq.Set{
			Name: fmt.Sprintf("c03api%d", i), Import: "IV.Check.C03StreamCheck", CaseType: "api_case",
			Checks: []string{"api_mismatches", "api_spec_failures", "api_stream_failures"},
		})
	}
	core, api := cores[0], apis[0]
	wrap := &cq.Set{
		Name: "c03wrap", Import: "IV.Check.C03WrapCheck", CaseType: "wrap_case",
		Checks: []string{"wrap_mismatches", "wrap_spec_failures", "wrap_stream_failures"},
	}
	all := append(append([]*cq.Set{}, cores...), apis...)
	load := func(path, bucket string) {
		var raw map[string]interface{}
		set := cq.LoadReplay(path, &raw)
		if strings.HasPrefix(set, "c03core") {
			var c coreCase
			cq.LoadReplay(path, &c)
			core.Cases = append(core.Cases, runCore(c.Size, c.Ops).toCase([]string{bucket}))
		} else if strings.HasPrefix(set, "c03wrap") {
			var c wrapCase
			cq.LoadReplay(path, &c)
			wrap.Cases = append(wrap.Cases, runWrap(c).toCase([]string{bucket}))
		} else {
			var c apiCase
			cq.LoadReplay(path, &c)
			api.Cases = append(api.Cases, runAPIRetry(c).toCase([]string{bucket}))
		}
	}
	if o.Replay != "" {
		load(o.Replay, "replay")
		sets := []*cq.Set{core, api}
		if len(wrap.Cases) > 0 {
			sets = append(sets, wrap)
		}
		cq.Write(o, "replay", sets, nil, nil)

		return
	}
	for _, f := range o.CorpusFiles() {
		load(f, "corpus")
	}

	ncore := o.Scale(780, 20000)
	for i := 0; i < ncore; i++ {
		size, ops, bk := genCore(r)
		cs := cores[i%nCoreSets]
		cs.Cases = append(cs.Cases, runCore(size, ops).toCase(bk))
	}

	napi := o.Scale(168, 2400)
	type job struct {
		in apiCase
		bk []string
	}
	jobs := make([]job, napi)
	for i := range jobs {
		jobs[i].in, jobs[i].bk = genAPI(r)
	}
	res := make([]apiCase, napi)
	var wg sync.WaitGroup
	sem := make(chan struct{}, 6)
	for i := range jobs {
		wg.Add(1)
		sem <- struct{}{}
		go func(i int) {
			defer wg.Done()
			defer func() { <-sem }()
			res[i] = runAPIRetry(jobs[i].in)
		}(i)
	}
	wg.Wait()
	for i := range jobs {
		as := apis[i%nAPISets]
		as.Cases = append(as.Cases, res[i].toCase(append(jobs[i].bk, res[i].writerBuckets()...)))
	}
	extra := map[string]interface{}{"api_tick_method": "one loop iteration per BindRTCPWriter/Close cycle, sentinel stream marks the tick"}
	if o.Tier == "thorough" && o.N == 0 {
		// real-tick variant of the F3 witness: more than 2^16 ticks of the real ticker loop
		w := runWrap(wrapCase{Size: 64, Skip: 0, Max: 1, Cycles: 65600, IntervalNs: 5000})
		wrap.Cases = append(wrap.Cases, w.toCase([]string{"real-ticks>=65600", "limit-held-over-2^16-ticks"}))
		all = append(all, wrap)
		extra["wrap_tick_method"] = "free-running ticker loop (interval 5 us); a counting stream is NACKed once per cycle, " +
			"the harness waits for that NACK before the next cycle: at least 65600 real ticks"
	}
	cq.Write(o, "core: receiveLog histories (8..100 add calls with missingSeqNumbers and get queries in between, sizes 64..32768, "+
		"traffic modes in-order/window-edge/half-range/uniform), non-trivial = at least one query returned a non-empty list; "+
		"api: GeneratorInterceptor histories over 1..3 nack streams + optional non-nack stream + sentinel, 4..13 ticks, "+
		"non-trivial = at least one NACK for a non-sentinel stream; "+
		"wrap (thorough tier): one run of the free-running real ticker loop over more than 2^16 ticks",
		all, extra, nil)
}
