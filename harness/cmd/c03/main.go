// Generator for C03: NACK generator (pkg/nack receiveLog and GeneratorInterceptor).
//
// Two case sets:
//
//	c03core: the unexported receiveLog through the verif hook; every add,
//	         every missingSeqNumbers call and every get call is recorded.
//	c03api:  the real GeneratorInterceptor through its public API
//	         (NewGeneratorInterceptor, BindRemoteStream, the returned reader,
//	         UnbindRemoteStream, BindRTCPWriter, Close). The ticker loop is run
//	         one tick at a time: BindRTCPWriter starts the loop with a short
//	         interval, a sentinel stream that gains one new missing number
//	         before every tick tells the harness that the tick body has run,
//	         Close() waits for the loop (and so for all RTCP writes of the
//	         tick), and the hook VerifGenReopen re-arms the interceptor.
//	         Every tick runs against a writer plan (ops {2, mode, p, 0}): the
//	         RTCP writer records each packet handed to it and then returns an
//	         error for the Write calls the plan names (none / the p-th call of
//	         the tick / all / those for MediaSSRC p / all from the p-th on).
package main

import (
	"errors"
	"fmt"
	"math/rand"
	"sort"
	"strings"
	"sync"
	"time"

	"github.com/pion/interceptor"
	"github.com/pion/interceptor/pkg/nack"
	"github.com/pion/rtcp"
	"github.com/pion/rtp"

	"verifharness/internal/cq"
)

// ---------------------------------------------------------------- core stream

type coreCase struct {
	Size int64      `json:"size"`
	Ops  [][2]int64 `json:"ops"` // {0, seq} add, {1, skipLastN} missingSeqNumbers, {2, seq} get (output [1] / [0])
	Outs [][]int64  `json:"outs"`
}

func safeMissing(l *nack.VerifReceiveLog, skip uint16) (out []int64) {
	defer func() {
		if r := recover(); r != nil {
			out = []int64{-1}
		}
	}()
	res := l.MissingSeqNumbers(skip)
	out = make([]int64, len(res))
	for i, x := range res {
		out[i] = int64(x)
	}

	return out
}

func runCore(size int64, ops [][2]int64) coreCase {
	c := coreCase{Size: size, Ops: ops, Outs: [][]int64{}}
	l, err := nack.NewVerifReceiveLog(uint16(size)) //nolint:gosec
	if err != nil {
		panic(fmt.Sprintf("newReceiveLog(%d): %v", size, err))
	}
	for _, op := range ops {
		switch op[0] {
		case 0:
			l.Add(uint16(op[1])) //nolint:gosec
		case 2:
			if l.Get(uint16(op[1])) { //nolint:gosec
				c.Outs = append(c.Outs, []int64{1})
			} else {
				c.Outs = append(c.Outs, []int64{0})
			}
		default:
			c.Outs = append(c.Outs, safeMissing(l, uint16(op[1]))) //nolint:gosec
		}
	}

	return c
}

// runs prints a list of 16-bit numbers run-length compressed: (a, n) = a, a+1, ..., a+n-1 (mod 2^16);
// the panic marker [-1] is printed as (-1, 0).
func runs(xs []int64) string {
	var ps []string
	for i := 0; i < len(xs); {
		if xs[i] < 0 {
			ps = append(ps, cq.T(cq.Z(xs[i]), "0"))
			i++

			continue
		}
		j := i + 1
		for j < len(xs) && xs[j] == (xs[j-1]+1)&0xFFFF {
			j++
		}
		ps = append(ps, cq.T(cq.Z(xs[i]), cq.Z(int64(j-i))))
		i = j
	}

	return cq.L(ps)
}

func (c coreCase) toCase(buckets []string) cq.Case {
	ops := make([]string, len(c.Ops))
	for i, op := range c.Ops {
		ops[i] = cq.T(cq.Z(op[0]), cq.Z(op[1]))
	}
	outs := make([]string, len(c.Outs))
	triv := true
	qi := 0
	for _, op := range c.Ops { // non-trivial: a missingSeqNumbers query returned a non-empty list
		if op[0] == 0 {
			continue
		}
		if qi < len(c.Outs) && op[0] == 1 && len(c.Outs[qi]) > 0 {
			triv = false
		}
		qi++
	}
	for i, o := range c.Outs {
		outs[i] = runs(o)
	}

	return cq.Case{Coq: cq.T(cq.Z(c.Size), cq.L(ops), cq.L(outs)), JSON: c, Buckets: buckets, Trivial: triv}
}

// arrival generator shared by both sets: tracks the highest number by the
// half-range rule so that boundary distances can be aimed at.
type arrGen struct {
	r     *rand.Rand
	size  int64
	hi    int64 // unwrapped highest so far
	start bool
	bk    map[string]bool
}

func newArrGen(r *rand.Rand, size int64, bk map[string]bool) *arrGen {
	g := &arrGen{r: r, size: size, bk: bk}
	switch r.Intn(4) {
	case 0:
		g.hi = 65536 - int64(r.Intn(int(size)+40)) - 1 // wrap soon
		bk["start-near-wrap"] = true
	case 1:
		g.hi = int64(r.Intn(3))
	default:
		g.hi = int64(r.Intn(65536))
	}

	return g
}

// next returns the next 16-bit arrival. mode selects the traffic style.
func (g *arrGen) next(mode int) int64 {
	if !g.start {
		g.start = true

		return g.hi & 0xFFFF
	}
	r, sz := g.r, g.size
	var u int64
	p := r.Intn(100)
	fwd := func(d int64) int64 { g.hi += d; return g.hi }
	switch mode {
	case 0: // mostly in order: loss, duplicates, small reordering
		switch {
		case p < 55:
			u = fwd(1)
		case p < 75:
			u = fwd(2 + int64(r.Intn(4)))
			g.bk["loss"] = true
		case p < 85:
			u = g.hi - int64(r.Intn(6))
			g.bk["dup-or-late-small"] = true
		default:
			u = g.hi - int64(r.Intn(int(sz)))
			g.bk["late-in-window"] = true
		}
	case 1: // window edge: late packets and jumps at size-1, size, size+1
		edge := []int64{sz - 2, sz - 1, sz, sz + 1, sz + 2, 2*sz - 1, 2 * sz, 2*sz + 1}
		edgeName := []string{"size-2", "size-1", "size", "size+1", "size+2", "2size-1", "2size", "2size+1"}
		switch {
		case p < 35:
			u = fwd(1 + int64(r.Intn(3)))
		case p < 65:
			ei := r.Intn(len(edge))
			u = g.hi - edge[ei]
			g.bk["late-d="+edgeName[ei]] = true
		case p < 85:
			ei := r.Intn(len(edge))
			d := edge[ei]
			if d >= 32768 {
				d = 32767
			}
			u = fwd(d)
			g.bk["jump-d="+edgeName[ei]] = true
		default:
			u = g.hi - sz - int64(r.Intn(int(3*sz)))
			g.bk["late-behind-window"] = true
		}
	case 2: // half range: jumps and late packets near 2^15
		half := []int64{32766, 32767, 32768, 32769, 32770}
		switch {
		case p < 40:
			u = fwd(1 + int64(r.Intn(3)))
		case p < 60:
			d := half[r.Intn(len(half))]
			g.bk[fmt.Sprintf("delta=%d", d)] = true
			if d < 32768 {
				u = fwd(d)
			} else {
				u = g.hi + d - 65536 // the log reads this as a late packet
			}
		case p < 80:
			d := int64(16000 + r.Intn(16767))
			u = fwd(d)
			g.bk["jump-large"] = true
		default:
			u = g.hi - int64(1+r.Intn(32768))
			g.bk["late-any"] = true
		}
	default: // anything
		v := int64(r.Intn(65536))
		d := (v - g.hi) & 0xFFFF
		if d != 0 && d < 32768 {
			g.hi += d
		}
		g.bk["uniform"] = true

		return v
	}
	if u < g.hi-32768 { // too far back: would be read as forward; keep it in the late half
		u = g.hi - 32768
	}

	return u & 0xFFFF
}

func pickSkip(r *rand.Rand, size int64, bk map[string]bool) int64 {
	if r.Intn(100) < 65 {
		return 0
	}
	c := []int64{1, 2, 3, size / 2, size - 1, size, size + 1, 32767, 32768, 32769, 65535, int64(r.Intn(65536)), int64(r.Intn(int(size)))}
	s := c[r.Intn(len(c))]
	switch {
	case s >= 32768:
		bk["skip>=2^15"] = true
	case s > size:
		bk["skip>size"] = true
	case s == size:
		bk["skip=size"] = true
	case s == size-1:
		bk["skip=size-1"] = true
	default:
		bk["skip-small"] = true
	}

	return s
}

func genCore(r *rand.Rand) (int64, [][2]int64, []string) {
	bk := map[string]bool{}
	var size int64
	big := false
	switch p := r.Intn(100); {
	case p < 55:
		size = []int64{64, 128}[r.Intn(2)]
	case p < 88:
		size = []int64{256, 512, 1024}[r.Intn(3)]
	default:
		size = []int64{2048, 4096, 8192, 16384, 32768}[r.Intn(5)]
		big = true
	}
	bk[fmt.Sprintf("size=%d", size)] = true
	g := newArrGen(r, size, bk)
	mode := r.Intn(4)
	bk[fmt.Sprintf("mode=%d", mode)] = true
	n := 8 + r.Intn(50)
	qprob := 40
	maxq := 25
	if size >= 256 {
		n = 8 + r.Intn(30)
		qprob = 20
		maxq = 6
	}
	if big {
		n = 6 + r.Intn(16)
		qprob = 15
		maxq = 2
	}
	ops := [][2]int64{}
	q := 0
	if r.Intn(10) == 0 { // query before the first packet
		ops = append(ops, [2]int64{1, pickSkip(r, size, bk)})
		bk["query-unstarted"] = true
	}
	for i := 0; i < n; i++ {
		m := mode
		if r.Intn(8) == 0 {
			m = r.Intn(4)
		}
		seq := g.next(m)
		ops = append(ops, [2]int64{0, seq})
		if q < maxq && r.Intn(100) < qprob {
			ops = append(ops, [2]int64{1, pickSkip(r, size, bk)})
			q++
		}
		if r.Intn(100) < 30 { // receiveLog.get at the boundaries of its answer
			var t int64
			switch r.Intn(8) {
			case 0:
				t = seq
				bk["get-just-added"] = true
			case 1:
				t = g.hi - size + int64(r.Intn(3)) - 1 // window edge: hi-size-1, hi-size, hi-size+1
				bk["get-window-edge"] = true
			case 2:
				t = g.hi + 1 + int64(r.Intn(3))
				bk["get-ahead"] = true
			case 3:
				t = g.hi - 32767 - int64(r.Intn(3)) // half range behind
				bk["get-half-range"] = true
			case 4:
				t = g.hi - int64(r.Intn(int(size)))
				bk["get-in-window"] = true
			case 5:
				t = g.hi - size - int64(r.Intn(int(size))) // one window back: same slot as a live number
				bk["get-slot-alias"] = true
			case 6:
				t = g.hi
				bk["get-highest"] = true
			default:
				t = int64(r.Intn(65536))
				bk["get-uniform"] = true
			}
			ops = append(ops, [2]int64{2, t & 0xFFFF})
		}
	}
	if q < maxq+1 {
		ops = append(ops, [2]int64{1, 0})
	}
	bs := make([]string, 0, len(bk))
	for k := range bk {
		bs = append(bs, k)
	}
	sort.Strings(bs)

	return size, ops, bs
}

// ---------------------------------------------------------------- API stream

type nackOut struct {
	SSRC int64   `json:"ssrc"`
	Seqs []int64 `json:"seqs"`
}

type apiCase struct {
	// Size, Skip, Max: the configured values (what the caller asked for). Opts: the GeneratorOption
	// list in the order it is passed to NewGeneratorInterceptor: {0, v} GeneratorSize, {1, v}
	// GeneratorSkipLastN, {2, v} GeneratorMaxNacksPerPacket, {3, _} GeneratorInterval (the position of
	// the interval option; appended when absent). An option kind may be absent (default) or occur
	// several times (the last one counts). Empty (older replay files): Size, Skip, Max in that order.
	Size     int64       `json:"size"`
	Skip     int64       `json:"skip"`
	Max      int64       `json:"max"`
	Opts     [][2]int64  `json:"opts,omitempty"`
	Sentinel int64       `json:"sentinel"` // SSRC whose NACK marks a tick; -1: blind (nothing can ever be sent)
	Ops      [][4]int64  `json:"ops"`
	Outs     [][]nackOut `json:"outs"`
}

type feed struct {
	next []byte
	err  error
}

var errRead = errors.New("read failed")

var errWrite = errors.New("transient rtcp write failure")

// writeFails is the writer plan of a tick (Model/NackSend.v, plan_writer): does the idx-th Write
// call of the tick (0-based) return an error? forSSRC: the call carries a NACK for MediaSSRC p.
func writeFails(mode, p, idx int64, forSSRC bool) bool {
	switch mode {
	case 1:
		return idx == p
	case 2:
		return true
	case 3:
		return forSSRC
	case 4:
		return idx >= p
	default:
		return false
	}
}

// runAPI drives the real interceptor. It returns ok=false when a cycle ran
// more than one tick (the caller retries with a longer interval).
func runAPI(in apiCase, interval time.Duration) (apiCase, bool) { //nolint:gocognit,cyclop
	c := apiCase{Size: in.Size, Skip: in.Skip, Max: in.Max, Opts: in.optList(), Sentinel: in.Sentinel, Ops: in.Ops, Outs: [][]nackOut{}}
	var gopts []nack.GeneratorOption
	haveInterval := false
	for _, o := range c.Opts {
		switch o[0] {
		case 0:
			gopts = append(gopts, nack.GeneratorSize(uint16(o[1]))) //nolint:gosec
		case 1:
			gopts = append(gopts, nack.GeneratorSkipLastN(uint16(o[1]))) //nolint:gosec
		case 2:
			gopts = append(gopts, nack.GeneratorMaxNacksPerPacket(uint16(o[1]))) //nolint:gosec
		case 3:
			gopts = append(gopts, nack.GeneratorInterval(interval))
			haveInterval = true
		}
	}
	if !haveInterval {
		gopts = append(gopts, nack.GeneratorInterval(interval))
	}
	f, err := nack.NewGeneratorInterceptor(gopts...)
	if err != nil {
		panic(err)
	}
	ii, err := f.NewInterceptor("")
	if err != nil {
		panic(err)
	}
	gi, _ := ii.(*nack.GeneratorInterceptor)
	feeds := map[int64]*feed{}
	readers := map[int64]interceptor.RTPReader{}
	buf := make([]byte, 1500)

	var mu sync.Mutex
	var writes []nackOut
	var planMode, planP int64 // writer plan of the current cycle (see writeFails)
	calls := int64(0)         // Write calls seen in the current cycle
	sCh := make(chan struct{}, 64)
	writer := interceptor.RTCPWriterFunc(func(pkts []rtcp.Packet, _ interceptor.Attributes) (int, error) {
		mu.Lock()
		defer mu.Unlock()
		forSSRC := false
		for _, p := range pkts {
			nk, ok := p.(*rtcp.TransportLayerNack)
			if !ok {
				writes = append(writes, nackOut{SSRC: -1})

				continue
			}
			o := nackOut{SSRC: int64(nk.MediaSSRC), Seqs: []int64{}}
			for i := range nk.Nacks {
				for _, s := range nk.Nacks[i].PacketList() {
					o.Seqs = append(o.Seqs, int64(s))
				}
			}
			writes = append(writes, o)
			if o.SSRC == planP {
				forSSRC = true
			}
		}
		// the tick body has run (toSend is complete before the first Write): any Write call, failing
		// or not, tells the harness so; Close() then waits for the remaining Writes of the tick
		select {
		case sCh <- struct{}{}:
		default:
		}
		idx := calls
		calls++
		if writeFails(planMode, planP, idx, forSSRC) {
			return 0, errWrite
		}

		return len(pkts), nil
	})

	bind := func(ssrc int64, withNack bool) {
		fd := &feed{}
		feeds[ssrc] = fd
		under := interceptor.RTPReaderFunc(func(b []byte, a interceptor.Attributes) (int, interceptor.Attributes, error) {
			if fd.err != nil {
				return 0, nil, fd.err
			}

			return copy(b, fd.next), a, nil
		})
		fb := []interceptor.RTCPFeedback{{Type: "nack", Parameter: "pli"}, {Type: "goog-remb"}}
		if withNack {
			fb = append(fb, interceptor.RTCPFeedback{Type: "nack"})
		}
		readers[ssrc] = gi.BindRemoteStream(&interceptor.StreamInfo{SSRC: uint32(ssrc), RTCPFeedback: fb}, under) //nolint:gosec
	}

	for opi, op := range in.Ops {
		k, a, b, v := op[0], op[1], op[2], op[3]
		switch k {
		case 0, 1:
			fd, rd := feeds[a], readers[a]
			if rd == nil {
				continue
			}
			fd.err = nil
			if k == 1 {
				if opi%2 == 0 {
					fd.err = errRead
				} else {
					fd.next = []byte{0x80, 0x60, byte(b >> 8)} // truncated header
				}
			}
			if k == 0 {
				pkt := rtp.Packet{Header: rtp.Header{Version: 2, PayloadType: 96, SequenceNumber: uint16(b), SSRC: uint32(a), Timestamp: 1}, Payload: []byte{1, 2, 3}} //nolint:gosec
				raw, merr := pkt.Marshal()
				if merr != nil {
					panic(merr)
				}
				fd.next = raw
			}
			_, _, _ = rd.Read(buf, interceptor.Attributes{})
		case 2:
			mu.Lock()
			writes = nil
			planMode, planP, calls = a, b, 0
			mu.Unlock()
			for len(sCh) > 0 {
				<-sCh
			}
			gi.BindRTCPWriter(writer)
			if in.Sentinel >= 0 {
				select {
				case <-sCh:
				case <-time.After(300*time.Millisecond + 2*interval): // no Write at all (the sentinel always has a new gap): recorded as is
				}
			} else {
				time.Sleep(3 * interval)
			}
			_ = gi.Close()
			nack.VerifGenReopen(gi)
			mu.Lock()
			ws := append([]nackOut{}, writes...)
			mu.Unlock()
			sCount := 0
			for _, w := range ws {
				if w.SSRC == in.Sentinel {
					sCount++
				}
			}
			if in.Sentinel >= 0 && sCount > 1 {
				return c, false
			}
			if in.Sentinel < 0 { // blind: several ticks may have run; keep the first packet per SSRC
				seen := map[int64]bool{}
				var first []nackOut
				for _, w := range ws {
					if !seen[w.SSRC] {
						seen[w.SSRC] = true
						first = append(first, w)
					}
				}
				ws = first
			}
			sort.SliceStable(ws, func(i, j int) bool { return ws[i].SSRC < ws[j].SSRC })
			c.Outs = append(c.Outs, ws)
		case 3:
			gi.UnbindRemoteStream(&interceptor.StreamInfo{SSRC: uint32(a)}) //nolint:gosec
		case 4:
			bind(a, true)
		case 5:
			bind(a, false)
		case 6:
			nack.VerifGenSetNackCount(gi, uint32(a), uint16(b), uint16(v)) //nolint:gosec
		}
	}
	_ = gi.Close()

	return c, true
}

// optList is the option list of the case (older replay files: the three options in the order
// Size, SkipLastN, MaxNacksPerPacket).
func (c apiCase) optList() [][2]int64 {
	if len(c.Opts) > 0 {
		return c.Opts
	}

	return [][2]int64{{0, c.Size}, {1, c.Skip}, {2, c.Max}}
}

func runAPIRetry(in apiCase) apiCase {
	iv := 1 * time.Millisecond
	// the last, long interval is for tick bodies that take hundreds of milliseconds (an implementation
	// that requests tens of thousands of numbers with a limit: its pruning loop is quadratic)
	for try := 0; try < 5; try++ {
		c, ok := runAPI(in, iv)
		if ok {
			return c
		}
		iv *= 6
	}
	panic("c03api: could not run one tick per cycle (machine overloaded?)")
}

func (c apiCase) toCase(buckets []string) cq.Case {
	ops := make([]string, len(c.Ops))
	for i, op := range c.Ops {
		ops[i] = cq.T(cq.Z(op[0]), cq.Z(op[1]), cq.Z(op[2]), cq.Z(op[3]))
	}
	ol := c.optList()
	opts := make([]string, len(ol))
	for i, o := range ol {
		opts[i] = cq.T(cq.Z(o[0]), cq.Z(o[1]))
	}
	outs := make([]string, len(c.Outs))
	triv := true
	for i, t := range c.Outs {
		ps := make([]string, len(t))
		for j, p := range t {
			ps[j] = cq.T(cq.Z(p.SSRC), runs(p.Seqs))
			if p.SSRC != c.Sentinel {
				triv = false
			}
		}
		outs[i] = cq.L(ps)
	}

	return cq.Case{
		Coq:  cq.T(cq.L(opts), cq.L(ops), cq.L(outs)),
		JSON: c, Buckets: buckets, Trivial: triv,
	}
}

// writerBuckets reports (after the run) whether a tick whose writer plan makes a Write fail had
// NACKs of several streams to hand over, and whether a limit was configured for it - the shape in
// which a failed Write for one stream could suppress or use up the request of another.
func (c apiCase) writerBuckets() []string {
	var bs []string
	seen := map[string]bool{}
	ti := 0
	for _, op := range c.Ops {
		if op[0] != 2 {
			continue
		}
		if ti < len(c.Outs) && op[1] != 0 {
			n, real := len(c.Outs[ti]), 0
			failed := false
			for i, p := range c.Outs[ti] {
				if p.SSRC != c.Sentinel {
					real++
				}
				// packets are sorted by SSRC here, the call order is the map order: count a tick as
				// "failing" when the plan fails some call index < n or names an SSRC that is present
				if writeFails(op[1], op[2], int64(i), p.SSRC == op[2]) {
					failed = true
				}
			}
			if failed && n >= 2 {
				seen["writer-error-tick-with->=2-packets"] = true
				if real >= 2 {
					seen["writer-error-tick-with->=2-stream-nacks"] = true
				}
				if c.Max > 0 {
					seen["writer-error-tick-with-limit"] = true
				}
			}
		}
		ti++
	}
	for k := range seen {
		bs = append(bs, k)
	}
	sort.Strings(bs)

	return bs
}

const sentinelSSRC = 999

// sentinelInit binds the sentinel stream and feeds it until it has a missing number outside the
// skipLastN region; from then on every further arrival (+2) gives it a new one. Returns the last
// number fed.
func sentinelInit(c *apiCase) int64 {
	add := func(k, a, b, v int64) { c.Ops = append(c.Ops, [4]int64{k, a, b, v}) }
	add(4, sentinelSSRC, 0, 0)
	add(0, sentinelSSRC, 0, 0)
	sentSeq := int64(0)
	if c.Skip > 64 { // hop (forward jumps below 2^15) instead of thousands of arrivals
		for sentSeq < c.Skip+2 {
			sentSeq += min(c.Skip+2-sentSeq, 30000)
			add(0, sentinelSSRC, sentSeq, 0)
		}

		return sentSeq
	}
	for sentSeq < c.Skip+2 {
		sentSeq += 2
		add(0, sentinelSSRC, sentSeq, 0)
	}

	return sentSeq
}

// genOpts chooses how the configured values reach NewGeneratorInterceptor: the options in a
// random order (the interval option among them), an option whose value is the default possibly
// left out, and sometimes an earlier occurrence of an option that a later one overrides.
func genOpts(r *rand.Rand, c *apiCase, bk map[string]bool) {
	var opts [][2]int64
	if c.Size != 512 || r.Intn(2) == 0 {
		opts = append(opts, [2]int64{0, c.Size})
	} else {
		bk["opt-default-omitted"] = true
	}
	if c.Skip != 0 || r.Intn(2) == 0 {
		opts = append(opts, [2]int64{1, c.Skip})
	} else {
		bk["opt-default-omitted"] = true
	}
	if c.Max != 0 || r.Intn(2) == 0 {
		opts = append(opts, [2]int64{2, c.Max})
	} else {
		bk["opt-default-omitted"] = true
	}
	opts = append(opts, [2]int64{3, 0})
	r.Shuffle(len(opts), func(i, j int) { opts[i], opts[j] = opts[j], opts[i] })
	if r.Intn(8) == 0 { // an overridden earlier occurrence
		k := int64(r.Intn(3))
		last := -1
		for i, o := range opts {
			if o[0] == k {
				last = i
			}
		}
		if last >= 0 {
			var v int64
			switch k {
			case 0:
				v = []int64{64, 128, 512, 1024, 32768}[r.Intn(5)]
			case 1:
				v = []int64{0, 1, 7, 600, 40000, int64(r.Intn(65536))}[r.Intn(6)]
			default:
				v = int64(r.Intn(6))
			}
			at := r.Intn(last + 1)
			opts = append(opts[:at], append([][2]int64{{k, v}}, opts[at:]...)...)
			bk["opt-overridden-earlier-occurrence"] = true
		}
	}
	pos := map[int64]int{}
	for i, o := range opts {
		pos[o[0]] = i // last occurrence
	}
	name := []string{"size", "skip", "max", "interval"}
	for a := int64(0); a < 4; a++ {
		for b := int64(0); b < 4; b++ {
			pa, oka := pos[a]
			pb, okb := pos[b]
			if a != b && oka && okb && pa < pb {
				bk["opt-order:"+name[a]+"<"+name[b]] = true
			}
		}
	}
	if ps, ok := pos[1]; ok {
		if pz, ok2 := pos[0]; ok2 && ps < pz && c.Skip > 512 && c.Size > 512 && c.Skip < c.Size {
			bk["opt-order:skip(>512)<size(>512)"] = true
		}
	}
	c.Opts = opts
}

// genAPICycle: the history shape around the 16-bit keys of the per-number NACK counters. A limit is
// configured. A number X of stream 1111 is lost and requested at one or more ticks; then either it
// is recovered / ages out of the window and a tick finds NOTHING missing for the stream (the
// stream's counts are forgotten: X + 65536 is a new packet with a full budget), or it is recovered
// while another number is missing and requested (that tick forgets the count of X), or neither
// happens (known finding: the stale count is inherited). The stream then advances by exactly 65536
// (or, as a control, 65535 / 65537 / 131072) in hops: a forward jump below 2^15, after which the late
// packets of the whole window arrive in some order, so that a tick between two hops finds nothing
// missing (or one hole, which is requested). After the last hop X + 65536 is the only missing
// number (possibly next to a fresh one) and max+1 ticks follow.
func genAPICycle(r *rand.Rand) (apiCase, []string) { //nolint:gocognit,cyclop
	bk := map[string]bool{"cycle-shape": true}
	c := apiCase{Sentinel: sentinelSSRC}
	c.Size = []int64{64, 64, 128}[r.Intn(3)]
	c.Skip = []int64{0, 0, 0, 1, 3}[r.Intn(5)]
	c.Max = []int64{1, 1, 2, 3}[r.Intn(4)]
	genOpts(r, &c, bk)
	bk[fmt.Sprintf("max=%d", c.Max)] = true
	bk[fmt.Sprintf("skip=%d", c.Skip)] = true
	bk[fmt.Sprintf("size=%d", c.Size)] = true
	add := func(k, a, b, v int64) { c.Ops = append(c.Ops, [4]int64{k, a, b, v}) }
	sentSeq := sentinelInit(&c)
	tick := func() {
		sentSeq += 2
		add(0, sentinelSSRC, sentSeq&0xFFFF, 0)
		add(2, 0, 0, 0)
	}
	const ssrc = 1111
	add(4, ssrc, 0, 0)
	recv := func(u int64) { add(0, ssrc, u&0xFFFF, 0) }
	var hi int64
	switch r.Intn(3) {
	case 0:
		hi = 65536 - int64(r.Intn(100)) - 1
		bk["start-near-wrap"] = true
	case 1:
		hi = int64(r.Intn(3))
	default:
		hi = int64(r.Intn(65536))
	}
	recv(hi)
	hi++
	recv(hi)
	x := hi + 1 // the lost number
	hi += 2 + c.Skip
	for u := x + 1; u <= hi; u++ {
		recv(u)
	}
	t1 := 1 + r.Intn(int(c.Max)+1)
	for i := 0; i < t1; i++ {
		tick()
	}
	if int64(t1) >= c.Max {
		bk["cycle:x-at-limit"] = true
	} else {
		bk["cycle:x-below-limit"] = true
	}
	// fill: the late packets of the window behind hi, in some order, except the holes
	fill := func(holes map[int64]bool) {
		var us []int64
		for u := hi - c.Size + 1; u < hi; u++ {
			if !holes[u] {
				us = append(us, u)
			}
		}
		switch r.Intn(3) {
		case 0: // ascending
		case 1:
			for i, j := 0, len(us)-1; i < j; i, j = i+1, j-1 {
				us[i], us[j] = us[j], us[i]
			}
		default:
			r.Shuffle(len(us), func(i, j int) { us[i], us[j] = us[j], us[i] })
		}
		for _, u := range us {
			recv(u)
		}
	}
	reset := r.Intn(10)
	switch {
	case reset < 4:
		recv(x) // recovered
		tick()  // nothing missing
		bk["cycle:reset-by-recovery+empty-tick"] = true
	case reset < 6:
		for i := int64(0); i < c.Size+c.Skip+1; i++ { // x ages out of the window, loss free
			hi++
			recv(hi)
		}
		tick()
		bk["cycle:reset-by-ageing-out+empty-tick"] = true
	case reset < 8:
		// never a tick with nothing missing: another number y is lost, x is recovered, and the tick
		// that requests y forgets the count of x (it is no longer missing)
		y := hi + 1
		for hi = y + 1; hi <= y+1+c.Skip; hi++ {
			recv(hi)
		}
		hi--
		recv(x)
		tick()
		if r.Intn(2) == 0 {
			recv(y)
		}
		bk["cycle:count-pruned-by-sending-tick"] = true
	default:
		bk["cycle:no-empty-tick(known-finding-shape)"] = true
	}
	total := int64(65536)
	switch r.Intn(8) {
	case 0:
		total = 65535
		bk["cycle:advance=65535(control)"] = true
	case 1:
		total = 65537
		bk["cycle:advance=65537(control)"] = true
	case 2:
		total = 131072
		bk["cycle:advance=2*65536"] = true
	default:
		bk["cycle:advance=65536"] = true
	}
	// final position: x+total must be missing and outside the skipLastN region, inside the window
	k := c.Skip + 1 + r.Int63n(c.Size-c.Skip-2)
	target := x + total + k
	ticksBetween := r.Intn(3) // 0 never, 1 after every hop, 2 after some
	for hi < target {
		rem := target - hi
		var d int64
		switch {
		case rem <= 32767 && (rem <= 2*c.Size || r.Intn(2) == 0):
			d = rem
		case rem <= 32767:
			d = c.Size + 1 + r.Int63n(rem-c.Size)
		default:
			d = min(rem-c.Size-1, 20000+r.Int63n(12767))
		}
		hi += d
		recv(hi)
		last := hi == target
		holes := map[int64]bool{}
		if last {
			holes[x+total] = true
			if r.Intn(3) == 0 { // a fresh loss next to it
				h := hi - 1 - r.Int63n(c.Size-2)
				holes[h] = true
				bk["cycle:fresh-loss-next-to-alias"] = true
			}
		} else if r.Intn(6) == 0 {
			holes[hi-1-r.Int63n(c.Size-2)] = true // a hole on the way: requested, prunes the counters
			bk["cycle:hole-on-the-way"] = true
		}
		fill(holes)
		if !last && (ticksBetween == 1 || (ticksBetween == 2 && r.Intn(2) == 0)) {
			tick()
			bk["cycle:tick-between-hops"] = true
		}
	}
	for i := int64(0); i <= c.Max; i++ {
		tick()
	}
	if r.Intn(2) == 0 { // recovered at last, one more tick
		recv(x + total)
		tick()
	}
	bs := make([]string, 0, len(bk))
	for k := range bk {
		bs = append(bs, k)
	}
	sort.Strings(bs)

	return c, bs
}

func genAPI(r *rand.Rand) (apiCase, []string) { //nolint:gocognit,cyclop
	bk := map[string]bool{}
	c := apiCase{Sentinel: sentinelSSRC}
	c.Size = []int64{64, 64, 64, 64, 128, 128, 256, 512}[r.Intn(8)]
	c.Skip = []int64{0, 0, 0, 0, 1, 2, 3, 5, 10}[r.Intn(9)]
	c.Max = []int64{0, 0, 0, 1, 1, 2, 3, 5}[r.Intn(8)]
	scale := c.Size // distance scale of the traffic (window-edge jumps and late packets)
	big := r.Intn(5) == 0
	if big {
		// windows above the default size 512, skipLastN on both sides of 512 and of the window size
		c.Size = []int64{1024, 1024, 2048, 4096, 8192, 16384, 32768}[r.Intn(7)]
		sk := []int64{0, 3, 511, 512, 513, 600, c.Size / 2, c.Size - 1, 513 + r.Int63n(c.Size-513), 513 + r.Int63n(c.Size-513)}
		c.Skip = sk[r.Intn(len(sk))]
		// the traffic keeps its distances small: the checkers' counter maps are association lists
		// over the missing list (quadratic), so the missing lists of these cases stay in the low thousands;
		// the window edges of large windows are the core sets' business
		scale = []int64{64, 200, 400}[r.Intn(3)]
		bk["size>512"] = true
		if c.Skip > 512 {
			bk["skip>512"] = true
		}
	}
	if r.Intn(20) == 0 { // nothing can ever be requested: skipLastN >= size
		c.Skip = []int64{c.Size, c.Size + 1, 32768, 65535}[r.Intn(4)]
		c.Sentinel = -1
		bk["skip>=size(blind)"] = true
	}
	genOpts(r, &c, bk)
	bk[fmt.Sprintf("max=%d", c.Max)] = true
	if c.Skip <= 10 {
		bk[fmt.Sprintf("skip=%d", c.Skip)] = true
	}
	bk[fmt.Sprintf("size=%d", c.Size)] = true
	add := func(k, a, b, v int64) { c.Ops = append(c.Ops, [4]int64{k, a, b, v}) }

	nStreams := 1 + r.Intn(3)
	bk[fmt.Sprintf("streams=%d", nStreams)] = true
	type st struct {
		ssrc  int64
		g     *arrGen
		mode  int
		bound bool
		from  int
	}
	streams := []*st{}
	for i := 0; i < nStreams; i++ {
		s := &st{ssrc: int64(1111 * (i + 1)), mode: r.Intn(2)}
		if r.Intn(6) == 0 && !big { // half-range jumps fill a large window with tens of thousands of missing numbers
			s.mode = 2
		}
		s.g = newArrGen(r, scale, bk)
		if i > 0 && r.Intn(3) == 0 {
			s.from = 1 + r.Intn(4) // bound later
			bk["bind-late"] = true
		}
		streams = append(streams, s)
	}
	noNack := r.Intn(2) == 0
	var nn *arrGen
	if noNack {
		add(5, 7777, 0, 0)
		nn = newArrGen(r, scale, map[string]bool{})
		bk["stream-without-nack"] = true
	}
	sentSeq := int64(0)
	if c.Sentinel >= 0 {
		sentSeq = sentinelInit(&c)
	}
	rounds := 4 + r.Intn(8)
	if big {
		rounds = 3 + r.Intn(4)
	}
	// RTCP writer plan of every tick: in 4 of 10 cases the downstream writer returns errors
	// (transient or persistent); the requests handed to it must be the same as with a healthy one
	writerErrs := r.Intn(10) < 4
	tickPlan := func() (int64, int64) {
		if !writerErrs || r.Intn(10) < 3 {
			return 0, 0
		}
		nPk := int64(nStreams + 1) // at most one packet per nack stream + the sentinel
		switch r.Intn(6) {
		case 0, 1:
			bk["writer-error:first-write"] = true

			return 1, 0
		case 2:
			bk["writer-error:kth-write"] = true

			return 1, 1 + r.Int63n(nPk)
		case 3:
			bk["writer-error:every-write"] = true

			return 2, 0
		case 4:
			bk["writer-error:writes-of-one-ssrc"] = true
			if r.Intn(3) == 0 {
				return 3, sentinelSSRC
			}

			return 3, streams[r.Intn(len(streams))].ssrc
		default:
			bk["writer-error:from-kth-write-on"] = true

			return 4, r.Int63n(nPk)
		}
	}
	fullCycleAt := -1
	// not in the large-window cases: three jumps of 21846 leave ~20000 numbers missing in a window above 16384,
	// and with a limit the checkers' counter maps (association lists) go quadratic - one such case cost 45 GB and
	// 10 minutes of coqc in the thorough tier; the full-cycle shape with windows <= 512 is covered here and by genAPICycle
	if c.Max > 0 && !big && r.Intn(12) == 0 {
		fullCycleAt = 1 + r.Intn(rounds-1)
	}
	for rd := 0; rd < rounds; rd++ {
		for _, s := range streams {
			if !s.bound && s.from == rd {
				add(4, s.ssrc, 0, 0)
				s.bound = true
			}
			if s.from > rd {
				continue
			}
			if s.bound && rd > 1 && r.Intn(25) == 0 {
				add(3, s.ssrc, 0, 0)
				add(0, s.ssrc, s.g.next(0), 0) // the old reader is still in use: goes to the orphaned log
				add(0, s.ssrc, s.g.next(0), 0)
				s.bound = false
				s.from = rd + 1 + r.Intn(3)
				s.g = newArrGen(r, scale, bk) // a re-bound stream starts afresh
				bk["unbind"] = true
			}
			if s.bound && rd > 0 && r.Intn(20) == 0 {
				// BindRemoteStream again without UnbindRemoteStream: the new stream starts afresh
				// (fresh log, no inherited NACK counts)
				add(4, s.ssrc, 0, 0)
				s.g = newArrGen(r, scale, bk)
				bk["rebind-without-unbind"] = true
			}
			n := r.Intn(9)
			if big {
				n = r.Intn(6)
			}
			if big && c.Skip > 0 && rd == s.from && s.bound && r.Intn(2) == 0 {
				// a loss region that straddles the skipLastN boundary: first packet, then a jump of
				// skipLastN + a little, so that only the oldest few of the skipped numbers may be requested
				add(0, s.ssrc, s.g.next(s.mode), 0)
				d := min(c.Skip+int64(r.Intn(40)), 32767)
				s.g.hi += d
				add(0, s.ssrc, s.g.hi&0xFFFF, 0)
				bk["jump-past-skipLastN"] = true
			}
			if r.Intn(6) == 0 {
				n = 0
				bk["idle-round"] = true
			}
			if fullCycleAt == rd && s == streams[0] {
				// the same 16-bit numbers come back one full cycle later between two ticks
				for _, d := range []int64{21846, 21846, 21844} {
					s.g.hi += d
					add(0, s.ssrc, s.g.hi&0xFFFF, 0)
				}
				bk["full-cycle-between-ticks"] = true
			}
			for i := 0; i < n; i++ {
				seq := s.g.next(s.mode)
				if r.Intn(15) == 0 {
					add(1, s.ssrc, seq, 0) // read error / malformed: must not be recorded
					bk["read-error"] = true
					// the packet is lost: forget that the generator counted it
					continue
				}
				add(0, s.ssrc, seq, 0)
			}
		}
		if noNack {
			for i := 0; i < 3; i++ {
				add(0, 7777, (nn.next(0)+int64(2*i))&0xFFFF, 0)
			}
		}
		if c.Sentinel >= 0 {
			sentSeq += 2
			add(0, sentinelSSRC, sentSeq&0xFFFF, 0)
		}
		pm, pp := tickPlan()
		add(2, pm, pp, 0)
	}
	bs := make([]string, 0, len(bk))
	for k := range bk {
		bs = append(bs, k)
	}
	sort.Strings(bs)

	return c, bs
}

// ---------------------------------------------------------------- wrap stream (thorough tier only)

// wrapCase is the real-tick variant of the F3 witness: the real ticker loop
// runs free (interval of a few microseconds) for Cycles > 65536 cycles. A
// counting stream (SSRC 999) is unbound, re-bound and fed 0, 2 in every cycle,
// so exactly one tick per cycle NACKs 999:[1]; the harness waits for that NACK
// before it starts the next cycle, hence at least Cycles ticks run. Stream
// 1111 keeps 5 missing at its limit (max 1) for the whole run: it must be
// requested by the first tick and never again. Ticks that run in between send
// nothing; in the fixed code they change nothing either.
type wrapCase struct {
	Size       int64     `json:"size"`
	Skip       int64     `json:"skip"`
	Max        int64     `json:"max"`
	Cycles     int64     `json:"cycles"`
	IntervalNs int64     `json:"interval_ns"`
	Outs       []wrapOut `json:"outs"` // per-cycle outputs, run-length compressed
}

type wrapOut struct {
	Out []nackOut `json:"out"`
	N   int64     `json:"n"`
}

const wrapStream, wrapCounter = 1111, 999

func runWrap(in wrapCase) wrapCase { //nolint:gocognit,cyclop
	c := wrapCase{Size: in.Size, Skip: in.Skip, Max: in.Max, Cycles: in.Cycles, IntervalNs: in.IntervalNs}
	f, err := nack.NewGeneratorInterceptor(
		nack.GeneratorSize(uint16(in.Size)),             //nolint:gosec
		nack.GeneratorSkipLastN(uint16(in.Skip)),        //nolint:gosec
		nack.GeneratorMaxNacksPerPacket(uint16(in.Max)), //nolint:gosec
		nack.GeneratorInterval(time.Duration(in.IntervalNs)),
	)
	if err != nil {
		panic(err)
	}
	ii, err := f.NewInterceptor("")
	if err != nil {
		panic(err)
	}
	gi, _ := ii.(*nack.GeneratorInterceptor)
	buf := make([]byte, 1500)

	var mu sync.Mutex
	var writes []nackOut
	sCh := make(chan struct{}, 64)
	writer := interceptor.RTCPWriterFunc(func(pkts []rtcp.Packet, _ interceptor.Attributes) (int, error) {
		mu.Lock()
		defer mu.Unlock()
		for _, p := range pkts {
			nk, ok := p.(*rtcp.TransportLayerNack)
			if !ok {
				writes = append(writes, nackOut{SSRC: -1})

				continue
			}
			o := nackOut{SSRC: int64(nk.MediaSSRC), Seqs: []int64{}}
			for i := range nk.Nacks {
				for _, s := range nk.Nacks[i].PacketList() {
					o.Seqs = append(o.Seqs, int64(s))
				}
			}
			writes = append(writes, o)
			if o.SSRC == wrapCounter {
				select {
				case sCh <- struct{}{}:
				default:
				}
			}
		}

		return 0, nil
	})
	fb := []interceptor.RTCPFeedback{{Type: "nack"}}
	var next []byte
	under := interceptor.RTPReaderFunc(func(b []byte, a interceptor.Attributes) (int, interceptor.Attributes, error) {
		return copy(b, next), a, nil
	})
	feed := func(rd interceptor.RTPReader, ssrc, seq int64) {
		pkt := rtp.Packet{Header: rtp.Header{Version: 2, PayloadType: 96, SequenceNumber: uint16(seq), SSRC: uint32(ssrc), Timestamp: 1}, Payload: []byte{1}} //nolint:gosec
		raw, merr := pkt.Marshal()
		if merr != nil {
			panic(merr)
		}
		next = raw
		_, _, _ = rd.Read(buf, interceptor.Attributes{})
	}
	take := func() []nackOut {
		mu.Lock()
		ws := append([]nackOut{}, writes...)
		writes = nil
		mu.Unlock()
		sort.SliceStable(ws, func(i, j int) bool { return ws[i].SSRC < ws[j].SSRC })

		return ws
	}
	var outs [][]nackOut
	mainRd := gi.BindRemoteStream(&interceptor.StreamInfo{SSRC: wrapStream, RTCPFeedback: fb}, under)
	feed(mainRd, wrapStream, 4)
	feed(mainRd, wrapStream, 6)
	cycleOps := func() {
		gi.UnbindRemoteStream(&interceptor.StreamInfo{SSRC: wrapCounter})
		rd := gi.BindRemoteStream(&interceptor.StreamInfo{SSRC: wrapCounter, RTCPFeedback: fb}, under)
		feed(rd, wrapCounter, 0)
		feed(rd, wrapCounter, 2)
		feed(mainRd, wrapStream, 6) // duplicate of the highest: no effect on the log
	}
	wait := func(cy int64) {
		select {
		case <-sCh:
		case <-time.After(10 * time.Second):
			panic(fmt.Sprintf("c03wrap: no tick within 10 s in cycle %d", cy))
		}
	}
	// cycle 0 with the loop stopped afterwards (Close waits for every write of the ticks that ran),
	// so that the NACK of 1111 is attributed to the first cycle exactly
	cycleOps()
	gi.BindRTCPWriter(writer)
	wait(0)
	_ = gi.Close()
	nack.VerifGenReopen(gi)
	outs = append(outs, take())
	for len(sCh) > 0 {
		<-sCh
	}
	// the remaining cycles against the free-running loop
	gi.BindRTCPWriter(writer)
	for cy := int64(1); cy < in.Cycles; cy++ {
		cycleOps()
		wait(cy)
		outs = append(outs, take())
	}
	_ = gi.Close()
	if rest := take(); len(rest) > 0 { // writes of ticks after the last collection
		last := append(outs[len(outs)-1], rest...)
		sort.SliceStable(last, func(i, j int) bool { return last[i].SSRC < last[j].SSRC })
		outs[len(outs)-1] = last
	}
	for _, o := range outs {
		k := fmt.Sprint(o)
		if n := len(c.Outs); n > 0 && fmt.Sprint(c.Outs[n-1].Out) == k {
			c.Outs[n-1].N++
		} else {
			c.Outs = append(c.Outs, wrapOut{Out: o, N: 1})
		}
	}

	return c
}

func (c wrapCase) toCase(buckets []string) cq.Case {
	outs := make([]string, len(c.Outs))
	for i, t := range c.Outs {
		ps := make([]string, len(t.Out))
		for j, p := range t.Out {
			ps[j] = cq.T(cq.Z(p.SSRC), runs(p.Seqs))
		}
		outs[i] = cq.T(cq.L(ps), cq.Z(t.N))
	}

	return cq.Case{
		Coq:  cq.T(cq.T(cq.Z(c.Size), cq.Z(c.Skip), cq.Z(c.Max)), cq.Z(c.Cycles), cq.L(outs)),
		JSON: c, Buckets: buckets, Trivial: false,
	}
}

// ---------------------------------------------------------------- main

func main() {
	o := cq.ParseFlags()
	r := o.Rand()
	// several sets per stream so that the driver evaluates them in parallel (one coqc per set shard)
	const nCoreSets, nAPISets = 6, 4
	var cores, apis []*cq.Set
	for i := 0; i < nCoreSets; i++ {
		cores = append(cores, &cq.Set{
			Name: fmt.Sprintf("c03core%d", i), Import: "IV.Check.C03Check", CaseType: "core_case",
			Checks: []string{"core_mismatches", "core_spec_failures"},
		})
	}
	for i := 0; i < nAPISets; i++ {
		apis = append(apis, &cq.Set{
			Name: fmt.Sprintf("c03api%d", i), Import: "IV.Check.C03StreamCheck", CaseType: "api_case",
			Checks: []string{"api_mismatches", "api_spec_failures", "api_stream_failures"},
		})
	}
	core, api := cores[0], apis[0]
	wrap := &cq.Set{
		Name: "c03wrap", Import: "IV.Check.C03WrapCheck", CaseType: "wrap_case",
		Checks: []string{"wrap_mismatches", "wrap_spec_failures", "wrap_stream_failures"},
	}
	all := append(append([]*cq.Set{}, cores...), apis...)
	load := func(path, bucket string) {
		var raw map[string]interface{}
		set := cq.LoadReplay(path, &raw)
		if strings.HasPrefix(set, "c03core") {
			var c coreCase
			cq.LoadReplay(path, &c)
			core.Cases = append(core.Cases, runCore(c.Size, c.Ops).toCase([]string{bucket}))
		} else if strings.HasPrefix(set, "c03wrap") {
			var c wrapCase
			cq.LoadReplay(path, &c)
			wrap.Cases = append(wrap.Cases, runWrap(c).toCase([]string{bucket}))
		} else {
			var c apiCase
			cq.LoadReplay(path, &c)
			api.Cases = append(api.Cases, runAPIRetry(c).toCase([]string{bucket}))
		}
	}
	if o.Replay != "" {
		load(o.Replay, "replay")
		sets := []*cq.Set{core, api}
		if len(wrap.Cases) > 0 {
			sets = append(sets, wrap)
		}
		cq.Write(o, "replay", sets, nil, nil)

		return
	}
	for _, f := range o.CorpusFiles() {
		load(f, "corpus")
	}

	ncore := o.Scale(780, 20000)
	for i := 0; i < ncore; i++ {
		size, ops, bk := genCore(r)
		cs := cores[i%nCoreSets]
		cs.Cases = append(cs.Cases, runCore(size, ops).toCase(bk))
	}

	napi := o.Scale(168, 2400)
	type job struct {
		in apiCase
		bk []string
	}
	jobs := make([]job, napi)
	for i := range jobs {
		if i%8 == 5 {
			jobs[i].in, jobs[i].bk = genAPICycle(r)
		} else {
			jobs[i].in, jobs[i].bk = genAPI(r)
		}
	}
	res := make([]apiCase, napi)
	var wg sync.WaitGroup
	sem := make(chan struct{}, 6)
	for i := range jobs {
		wg.Add(1)
		sem <- struct{}{}
		go func(i int) {
			defer wg.Done()
			defer func() { <-sem }()
			res[i] = runAPIRetry(jobs[i].in)
		}(i)
	}
	wg.Wait()
	for i := range jobs {
		as := apis[i%nAPISets]
		as.Cases = append(as.Cases, res[i].toCase(append(jobs[i].bk, res[i].writerBuckets()...)))
	}
	extra := map[string]interface{}{"api_tick_method": "one loop iteration per BindRTCPWriter/Close cycle, sentinel stream marks the tick"}
	if o.Tier == "thorough" && o.N == 0 {
		// real-tick variant of the F3 witness: more than 2^16 ticks of the real ticker loop
		w := runWrap(wrapCase{Size: 64, Skip: 0, Max: 1, Cycles: 65600, IntervalNs: 5000})
		wrap.Cases = append(wrap.Cases, w.toCase([]string{"real-ticks>=65600", "limit-held-over-2^16-ticks"}))
		all = append(all, wrap)
		extra["wrap_tick_method"] = "free-running ticker loop (interval 5 us); a counting stream is NACKed once per cycle, " +
			"the harness waits for that NACK before the next cycle: at least 65600 real ticks"
	}
	cq.Write(o, "core: receiveLog histories (8..100 add calls with missingSeqNumbers and get queries in between, sizes 64..32768, "+
		"traffic modes in-order/window-edge/half-range/uniform), non-trivial = at least one query returned a non-empty list; "+
		"api: GeneratorInterceptor histories over 1..3 nack streams + optional non-nack stream + sentinel, 4..13 ticks, "+
		"non-trivial = at least one NACK for a non-sentinel stream; "+
		"wrap (thorough tier): one run of the free-running real ticker loop over more than 2^16 ticks",
		all, extra, nil)
}
