// Generator for C19: stream statistics equal a recount of the observed traffic.
//
// Two case sets:
//
//	c19rec: one recorder (pkg/stats newRecorder through the verif hook) driven
//	        synchronously through its Queue* entry points; GetStats() read
//	        after every event.
//	c19icp: the public interceptor (stats.NewInterceptor, SetNowFunc) with
//	        several bound streams; every event is fanned out by the interceptor
//	        and Getter.Get(ssrc) is read for every bound SSRC after every event.
//	        Each (stream, projected history) becomes one case of the same Coq
//	        case type, so both sets are decided by the same checkers.
package main

import (
	"fmt"
	"math"
	"math/rand"
	"os"
	"sort"
	"sync"
	"sync/atomic"
	"time"

	"github.com/pion/interceptor"
	"github.com/pion/interceptor/pkg/stats"
	"github.com/pion/interceptor/pkg/verifhooks"
	"github.com/pion/rtcp"
	"github.com/pion/rtp"

	"verifharness/internal/cq"
)

// ---- replayable inputs ----

type rep struct {
	SSRC    uint32 `json:"ssrc"`
	Frac    uint8  `json:"frac"`
	Lost    uint32 `json:"lost"`
	LastSeq uint32 `json:"lastseq"`
	Jitter  uint32 `json:"jitter"`
	LSR     uint32 `json:"lsr"`
	Delay   uint32 `json:"delay"`
}

type dl struct {
	SSRC   uint32 `json:"ssrc"`
	LastRR uint32 `json:"lastrr"`
	DLRR   uint32 `json:"dlrr"`
}

type xblock struct {
	Kind string `json:"kind"` // dlrr | rrtr | other
	Dlrr []dl   `json:"dlrr,omitempty"`
	NTP  uint64 `json:"ntp,omitempty"`
	SSRC uint32 `json:"ssrc,omitempty"`
}

type pkt struct {
	Kind    string   `json:"kind"` // sr rr xr nack pli fir sdes bye remb
	Sender  uint32   `json:"sender"`
	Media   uint32   `json:"media,omitempty"`
	NTP     uint64   `json:"ntp,omitempty"`
	RTPTs   uint32   `json:"rtpts,omitempty"`
	PC      uint32   `json:"pc,omitempty"`
	OC      uint32   `json:"oc,omitempty"`
	Reps    []rep    `json:"reps,omitempty"`
	Blocks  []xblock `json:"blocks,omitempty"`
	Entries []uint32 `json:"entries,omitempty"` // FIR FCI SSRCs
	Dests   []uint32 `json:"dests,omitempty"`   // sdes/bye/remb sources
}

type ev struct {
	Kind  string `json:"kind"` // inrtp outrtp inrtcp outrtcp
	TS    int64  `json:"ts"`
	SSRC  uint32 `json:"ssrc,omitempty"`
	Seq   uint16 `json:"seq,omitempty"`
	RTPTs uint32 `json:"rtpts,omitempty"`
	NCSRC int    `json:"ncsrc,omitempty"`
	Ext   int    `json:"ext,omitempty"` // one-byte header extension payload length, 0 = none
	Pay   int    `json:"pay,omitempty"`
	Pad   int    `json:"pad,omitempty"`
	Pkts  []pkt  `json:"pkts,omitempty"`
	// interceptor set only: which bound stream's reader/writer carries the RTP packet
	Via uint32 `json:"via,omitempty"`
}

type fnum struct {
	Class string `json:"c"` // nan inf zero fin
	Neg   bool   `json:"neg,omitempty"`
	M     uint64 `json:"m,omitempty"`
	E     int    `json:"e,omitempty"`
}

type obs struct {
	Recv, Lost                             int64
	Jit                                    fnum
	Last                                   *int64
	Hdr, Bytes, Fir, Pli, Nack             int64
	Sent, OBytes, OHdr, ONack, OFir, OPli  int64
	RRecv, RLost                           int64
	RJit                                   fnum
	RRtt, RTotal                           int64
	RFrac                                  fnum
	RMeas                                  int64
	ROSent, ROBytes                        int64
	ROTs                                   *int64
	Reports, RORtt, ROTotal, ROMeas        int64
}

type recCase struct {
	SSRC uint32 `json:"ssrc"`
	Rate uint32 `json:"rate"`
	Evs  []ev   `json:"evs"`
	Obs  []obs  `json:"obs"`
	// c19icp only: the interceptor-level history this case was projected from
	// (a replay goes through the interceptor again)
	Icp *icpCase `json:"icp,omitempty"`
}

// interceptor case: streams bound up front, then events
type stream struct {
	SSRC  uint32 `json:"ssrc"`
	Rate  uint32 `json:"rate"`
	Local bool   `json:"local"`
}

type icpCase struct {
	Streams []stream `json:"streams"`
	Evs     []ev     `json:"evs"`
}

// ---- building real packets ----

func hdrSize(e ev) int {
	n := 12 + 4*e.NCSRC
	if e.Ext > 0 {
		n += ((4 + 1 + e.Ext + 3) / 4) * 4
	}

	return n
}

func mkHeader(e ev) rtp.Header {
	h := rtp.Header{Version: 2, SSRC: e.SSRC, SequenceNumber: e.Seq, Timestamp: e.RTPTs, PayloadType: 96}
	for i := 0; i < e.NCSRC; i++ {
		h.CSRC = append(h.CSRC, uint32(1000+i)) //nolint:gosec
	}
	if e.Ext > 0 {
		if err := h.SetExtension(1, make([]byte, e.Ext)); err != nil {
			panic(err)
		}
	}
	if h.MarshalSize() != hdrSize(e) {
		panic(fmt.Sprintf("generator header size %d != MarshalSize %d", hdrSize(e), h.MarshalSize()))
	}

	return h
}

func mkReps(rs []rep) []rtcp.ReceptionReport {
	out := make([]rtcp.ReceptionReport, 0, len(rs))
	for _, r := range rs {
		out = append(out, rtcp.ReceptionReport{
			SSRC: r.SSRC, FractionLost: r.Frac, TotalLost: r.Lost, LastSequenceNumber: r.LastSeq,
			Jitter: r.Jitter, LastSenderReport: r.LSR, Delay: r.Delay,
		})
	}

	return out
}

func mkPkt(p pkt) rtcp.Packet {
	switch p.Kind {
	case "sr":
		return &rtcp.SenderReport{SSRC: p.Sender, NTPTime: p.NTP, RTPTime: p.RTPTs, PacketCount: p.PC, OctetCount: p.OC, Reports: mkReps(p.Reps)}
	case "rr":
		return &rtcp.ReceiverReport{SSRC: p.Sender, Reports: mkReps(p.Reps)}
	case "xr":
		x := &rtcp.ExtendedReport{SenderSSRC: p.Sender}
		for _, b := range p.Blocks {
			switch b.Kind {
			case "dlrr":
				blk := &rtcp.DLRRReportBlock{}
				for _, d := range b.Dlrr {
					blk.Reports = append(blk.Reports, rtcp.DLRRReport{SSRC: d.SSRC, LastRR: d.LastRR, DLRR: d.DLRR})
				}
				x.Reports = append(x.Reports, blk)
			case "rrtr":
				x.Reports = append(x.Reports, &rtcp.ReceiverReferenceTimeReportBlock{NTPTimestamp: b.NTP})
			default:
				x.Reports = append(x.Reports, &rtcp.StatisticsSummaryReportBlock{SSRC: b.SSRC, BeginSeq: 1, EndSeq: 2})
			}
		}

		return x
	case "nack":
		return &rtcp.TransportLayerNack{SenderSSRC: p.Sender, MediaSSRC: p.Media, Nacks: []rtcp.NackPair{{PacketID: 7, LostPackets: 1}}}
	case "pli":
		return &rtcp.PictureLossIndication{SenderSSRC: p.Sender, MediaSSRC: p.Media}
	case "fir":
		f := &rtcp.FullIntraRequest{SenderSSRC: p.Sender, MediaSSRC: p.Media}
		for i, s := range p.Entries {
			f.FIR = append(f.FIR, rtcp.FIREntry{SSRC: s, SequenceNumber: uint8(i)}) //nolint:gosec
		}

		return f
	case "bye":
		return &rtcp.Goodbye{Sources: p.Dests}
	case "remb":
		return &rtcp.ReceiverEstimatedMaximumBitrate{SenderSSRC: p.Sender, Bitrate: 1e6, SSRCs: p.Dests}
	default: // sdes
		s := &rtcp.SourceDescription{}
		for _, d := range p.Dests {
			s.Chunks = append(s.Chunks, rtcp.SourceDescriptionChunk{Source: d, Items: []rtcp.SourceDescriptionItem{{Type: rtcp.SDESCNAME, Text: "c"}}})
		}

		return s
	}
}

func mkPkts(ps []pkt) []rtcp.Packet {
	out := make([]rtcp.Packet, 0, len(ps))
	for _, p := range ps {
		out = append(out, mkPkt(p))
	}

	return out
}

// ---- projecting the observables ----

func fl(f float64) fnum {
	switch {
	case math.IsNaN(f):
		return fnum{Class: "nan"}
	case math.IsInf(f, 0):
		return fnum{Class: "inf", Neg: f < 0}
	case f == 0:
		return fnum{Class: "zero", Neg: math.Signbit(f)}
	}
	fr, ex := math.Frexp(math.Abs(f))

	return fnum{Class: "fin", Neg: f < 0, M: uint64(math.Ldexp(fr, 53)), E: ex - 53}
}

func tm(t time.Time) *int64 {
	if t.IsZero() {
		return nil
	}
	v := t.UnixNano()

	return &v
}

func project(s stats.Stats) obs {
	i, o, ri, ro := s.InboundRTPStreamStats, s.OutboundRTPStreamStats, s.RemoteInboundRTPStreamStats, s.RemoteOutboundRTPStreamStats

	return obs{
		Recv: int64(i.PacketsReceived), Lost: i.PacketsLost, Jit: fl(i.Jitter), Last: tm(i.LastPacketReceivedTimestamp), //nolint:gosec
		Hdr: int64(i.HeaderBytesReceived), Bytes: int64(i.BytesReceived), Fir: int64(i.FIRCount), Pli: int64(i.PLICount), Nack: int64(i.NACKCount), //nolint:gosec
		Sent: int64(o.PacketsSent), OBytes: int64(o.BytesSent), OHdr: int64(o.HeaderBytesSent), //nolint:gosec
		ONack: int64(o.NACKCount), OFir: int64(o.FIRCount), OPli: int64(o.PLICount),
		RRecv: int64(ri.PacketsReceived), RLost: ri.PacketsLost, RJit: fl(ri.Jitter), RRtt: int64(ri.RoundTripTime), //nolint:gosec
		RTotal: int64(ri.TotalRoundTripTime), RFrac: fl(ri.FractionLost), RMeas: int64(ri.RoundTripTimeMeasurements), //nolint:gosec
		ROSent: int64(ro.PacketsSent), ROBytes: int64(ro.BytesSent), ROTs: tm(ro.RemoteTimeStamp), Reports: int64(ro.ReportsSent), //nolint:gosec
		RORtt: int64(ro.RoundTripTime), ROTotal: int64(ro.TotalRoundTripTime), ROMeas: int64(ro.RoundTripTimeMeasurements), //nolint:gosec
	}
}

// ---- Coq printing ----

func cqF(f fnum) string {
	switch f.Class {
	case "nan":
		return "FNan"
	case "inf":
		return cq.C("FInf", cq.B(f.Neg))
	case "zero":
		return cq.C("FZero", cq.B(f.Neg))
	}

	return cq.C("FFin", cq.B(f.Neg), cq.ZU(f.M), cq.Z(int64(f.E)))
}

func cqOpt(p *int64) string {
	if p == nil {
		return cq.None
	}

	return cq.Some(cq.Z(*p))
}

// flat views of an obs in the index order of Check/C19Check.v
func (o obs) zs() []int64 {
	return []int64{
		o.Recv, o.Lost, o.Hdr, o.Bytes, o.Fir, o.Pli, o.Nack, o.Sent, o.OBytes, o.OHdr, o.ONack, o.OFir, o.OPli,
		o.RRecv, o.RLost, o.RRtt, o.RTotal, o.RMeas, o.ROSent, o.ROBytes, o.Reports, o.RORtt, o.ROTotal, o.ROMeas,
	}
}

func (o obs) fs() []fnum { return []fnum{o.Jit, o.RJit, o.RFrac} }

func (o obs) ts() []*int64 { return []*int64{o.Last, o.ROTs} }

// cqDiff prints the fields of cur that differ from prev.
func cqDiff(prev, cur obs) string {
	var us []string
	pz, cz := prev.zs(), cur.zs()
	for i := range cz {
		if pz[i] != cz[i] {
			us = append(us, cq.C("UZ", cq.Z(int64(i)), cq.Z(cz[i])))
		}
	}
	pf, cf := prev.fs(), cur.fs()
	for i := range cf {
		if pf[i] != cf[i] {
			us = append(us, cq.C("UF", cq.Z(int64(i)), cqF(cf[i])))
		}
	}
	pt, ct := prev.ts(), cur.ts()
	for i := range ct {
		if cqOpt(pt[i]) != cqOpt(ct[i]) {
			us = append(us, cq.C("UT", cq.Z(int64(i)), cqOpt(ct[i])))
		}
	}

	return cq.L(us)
}

func u(x uint32) string { return cq.ZU(uint64(x)) }

func lu(xs []uint32) string {
	s := make([]string, len(xs))
	for i, x := range xs {
		s[i] = u(x)
	}

	return cq.L(s)
}

func cqReps(rs []rep) string {
	s := make([]string, len(rs))
	for i, r := range rs {
		s[i] = cq.C("Rep", u(r.SSRC), u(uint32(r.Frac)), u(r.Lost), u(r.LastSeq), u(r.Jitter), u(r.LSR), u(r.Delay))
	}

	return cq.L(s)
}

func cqPkt(p pkt) string {
	switch p.Kind {
	case "sr":
		return cq.C("PSR", u(p.Sender), cq.ZU(p.NTP), u(p.RTPTs), u(p.PC), u(p.OC), cqReps(p.Reps))
	case "rr":
		return cq.C("PRR", u(p.Sender), cqReps(p.Reps))
	case "xr":
		bs := make([]string, len(p.Blocks))
		for i, b := range p.Blocks {
			switch b.Kind {
			case "dlrr":
				ds := make([]string, len(b.Dlrr))
				for j, d := range b.Dlrr {
					ds[j] = cq.C("Dl", u(d.SSRC), u(d.LastRR), u(d.DLRR))
				}
				bs[i] = cq.C("XDlrr", cq.L(ds))
			case "rrtr":
				bs[i] = cq.C("XRrtr", cq.ZU(b.NTP))
			default:
				bs[i] = cq.C("XOther", u(b.SSRC))
			}
		}

		return cq.C("PXR", u(p.Sender), cq.L(bs))
	case "nack":
		return cq.C("PNack", u(p.Sender), u(p.Media))
	case "pli":
		return cq.C("PPli", u(p.Sender), u(p.Media))
	case "fir":
		return cq.C("PFir", u(p.Sender), u(p.Media), lu(p.Entries))
	}

	return cq.C("POther", lu(p.Dests))
}

func cqEv(e ev) string {
	switch e.Kind {
	case "inrtp":
		return cq.C("InRTP", cq.Z(e.TS), u(e.SSRC), u(uint32(e.Seq)), u(e.RTPTs), cq.Z(int64(hdrSize(e))), cq.Z(int64(e.Pay+e.Pad)))
	case "outrtp":
		return cq.C("OutRTP", cq.Z(e.TS), u(e.SSRC), u(uint32(e.Seq)), cq.Z(int64(hdrSize(e))), cq.Z(int64(e.Pay)))
	}
	ps := make([]string, len(e.Pkts))
	for i, p := range e.Pkts {
		ps[i] = cqPkt(p)
	}
	if e.Kind == "inrtcp" {
		return cq.C("InRTCP", cq.Z(e.TS), cq.L(ps))
	}

	return cq.C("OutRTCP", cq.Z(e.TS), cq.L(ps))
}

func (c recCase) toCase(buckets []string) cq.Case {
	es := make([]string, len(c.Evs))
	for i, e := range c.Evs {
		es[i] = cqEv(e)
	}
	os := make([]string, len(c.Obs))
	prev := obs{Jit: fnum{Class: "zero"}, RJit: fnum{Class: "zero"}, RFrac: fnum{Class: "zero"}}
	for i, o := range c.Obs {
		os[i] = cqDiff(prev, o)
		prev = o
	}

	return cq.Case{
		Coq: cq.T(u(c.SSRC), u(c.Rate), cq.L(es), cq.L(os)), JSON: c, Buckets: buckets,
		Trivial: len(c.Evs) < 2,
	}
}

// ---- running the implementation ----

func marshalRTP(e ev) []byte {
	h := mkHeader(e)
	p := rtp.Packet{Header: h, Payload: make([]byte, e.Pay)}
	if e.Pad > 0 {
		p.Header.Padding = true
		p.Header.PaddingSize = byte(e.Pad) //nolint:gosec
		p.PaddingSize = byte(e.Pad)        //nolint:gosec
	}
	buf, err := p.Marshal()
	if err != nil {
		panic(err)
	}
	if len(buf) != hdrSize(e)+e.Pay+e.Pad {
		panic(fmt.Sprintf("marshalled RTP %d bytes, expected %d", len(buf), hdrSize(e)+e.Pay+e.Pad))
	}

	return buf
}

func marshalRTCP(ps []pkt) []byte {
	orig := mkPkts(ps)
	buf, err := rtcp.Marshal(orig)
	if err != nil {
		panic(err)
	}
	// the generator must only produce compounds that pion/rtcp parses back to
	// the same packets (parsing is modelled, not verified)
	back, err := rtcp.Unmarshal(buf)
	if err != nil || len(back) != len(orig) {
		panic(fmt.Sprintf("generator: compound does not round-trip: %v (%d/%d)", err, len(back), len(orig)))
	}
	for i := range back {
		if fmt.Sprint(back[i].DestinationSSRC()) != fmt.Sprint(orig[i].DestinationSSRC()) ||
			fmt.Sprintf("%T", back[i]) != fmt.Sprintf("%T", orig[i]) {
			panic(fmt.Sprintf("generator: packet %d does not round-trip: %v / %v", i, back[i], orig[i]))
		}
	}

	return buf
}

// runRec drives one recorder synchronously and reads the stats after every event.
func runRec(ssrc, rate uint32, evs []ev) recCase {
	r := stats.NewRecorderVerif(ssrc, float64(rate))
	r.Start()
	c := recCase{SSRC: ssrc, Rate: rate, Evs: evs}
	for _, e := range evs {
		ts := time.Unix(0, e.TS)
		switch e.Kind {
		case "inrtp":
			r.QueueIncomingRTP(ts, marshalRTP(e), nil)
		case "outrtp":
			h := mkHeader(e)
			r.QueueOutgoingRTP(ts, &h, make([]byte, e.Pay), nil)
		case "inrtcp":
			r.QueueIncomingRTCP(ts, marshalRTCP(e.Pkts), nil)
		default:
			r.QueueOutgoingRTCP(ts, mkPkts(e.Pkts), nil)
		}
		c.Obs = append(c.Obs, project(r.GetStats()))
	}

	return c
}

// runIcp drives the public interceptor; returns one recorder-shaped case per bound SSRC.
func runIcp(ic icpCase) []recCase {
	now := int64(0)
	f, err := stats.NewInterceptor(stats.SetNowFunc(func() time.Time { return time.Unix(0, now) }))
	if err != nil {
		panic(err)
	}
	var getter stats.Getter
	f.OnNewPeerConnection(func(_ string, g stats.Getter) { getter = g })
	ii, err := f.NewInterceptor("c19")
	if err != nil {
		panic(err)
	}
	icp, ok := ii.(*stats.Interceptor)
	if !ok {
		panic("not a stats interceptor")
	}
	// sinks / sources at the end of the chain
	var curRTP []byte
	var curRTCP []byte
	writers := map[uint32]interceptor.RTPWriter{}
	readers := map[uint32]interceptor.RTPReader{}
	order := []uint32{}
	rate := map[uint32]uint32{}
	for _, s := range ic.Streams {
		info := &interceptor.StreamInfo{SSRC: s.SSRC, ClockRate: s.Rate}
		if s.Local {
			writers[s.SSRC] = icp.BindLocalStream(info, interceptor.RTPWriterFunc(
				func(_ *rtp.Header, p []byte, _ interceptor.Attributes) (int, error) { return len(p), nil }))
		} else {
			readers[s.SSRC] = icp.BindRemoteStream(info, interceptor.RTPReaderFunc(
				func(b []byte, a interceptor.Attributes) (int, interceptor.Attributes, error) {
					return copy(b, curRTP), a, nil
				}))
		}
		if _, seen := rate[s.SSRC]; !seen {
			rate[s.SSRC] = s.Rate // the first bind creates the recorder
			order = append(order, s.SSRC)
		}
	}
	rtcpW := icp.BindRTCPWriter(interceptor.RTCPWriterFunc(
		func(p []rtcp.Packet, _ interceptor.Attributes) (int, error) { return len(p), nil }))
	rtcpR := icp.BindRTCPReader(interceptor.RTCPReaderFunc(
		func(b []byte, a interceptor.Attributes) (int, interceptor.Attributes, error) {
			return copy(b, curRTCP), a, nil
		}))
	icp.WaitRecordersStartedVerif()

	out := map[uint32]*recCase{}
	for _, s := range order {
		out[s] = &recCase{SSRC: s, Rate: rate[s]}
	}
	buf := make([]byte, 4000)
	for _, e := range ic.Evs {
		now = e.TS
		// which recorders see the event: RTCP all; RTP only the recorder of the stream it travels on
		switch e.Kind {
		case "inrtp":
			rd, ok := readers[e.Via]
			if !ok {
				continue
			}
			curRTP = marshalRTP(e)
			if _, _, err := rd.Read(buf, interceptor.Attributes{}); err != nil {
				panic(err)
			}
			out[e.Via].Evs = append(out[e.Via].Evs, e)
		case "outrtp":
			w, ok := writers[e.Via]
			if !ok {
				continue
			}
			h := mkHeader(e)
			if _, err := w.Write(&h, make([]byte, e.Pay), interceptor.Attributes{}); err != nil {
				panic(err)
			}
			out[e.Via].Evs = append(out[e.Via].Evs, e)
		case "inrtcp":
			curRTCP = marshalRTCP(e.Pkts)
			if _, _, err := rtcpR.Read(buf, interceptor.Attributes{}); err != nil {
				panic(err)
			}
			for _, s := range order {
				out[s].Evs = append(out[s].Evs, e)
			}
		default:
			if _, err := rtcpW.Write(mkPkts(e.Pkts), interceptor.Attributes{}); err != nil {
				panic(err)
			}
			for _, s := range order {
				out[s].Evs = append(out[s].Evs, e)
			}
		}
		// read every stream; a stream that did not see this event keeps one obs per seen event
		for _, s := range order {
			st := getter.Get(s)
			if st == nil {
				panic("Get returned nil for a bound SSRC")
			}
			c := out[s]
			if len(c.Obs) < len(c.Evs) {
				c.Obs = append(c.Obs, project(*st))
			} else if len(c.Obs) > 0 {
				// event not delivered to this recorder: its stats must not move
				c.Obs[len(c.Obs)-1] = mustSame(c.Obs[len(c.Obs)-1], project(*st))
			}
		}
	}
	if getter.Get(0xDEADBEEF) != nil {
		panic("Get returned stats for an unbound SSRC")
	}
	if err := icp.Close(); err != nil {
		panic(err)
	}
	res := make([]recCase, 0, len(order))
	for _, s := range order {
		c := *out[s]
		icCopy := ic
		c.Icp = &icCopy
		res = append(res, c)
	}

	return res
}


// ---- life-cycle set (c19life): Bind / Unbind / Close interleaved with traffic ----

// lev is one interceptor-level event. The k-th "bind" (k = 0, 1, ...) returns handle k; a recorder is
// named by the number of the bind that created it (Model/StatsLifecycle.v).
type lev struct {
	Kind  string `json:"kind"` // bind start unbind close rtp rtcp
	SSRC  uint32 `json:"ssrc,omitempty"`
	Rate  uint32 `json:"rate,omitempty"`
	Local bool   `json:"local,omitempty"`
	Rid   int    `json:"rid,omitempty"` // start: the recorder whose Start goroutine is released
	H     int    `json:"h,omitempty"`   // rtp: the handle (bind number) whose writer / reader carries the packet
	Ev    *ev    `json:"ev,omitempty"`
}

type lifeCase struct {
	Q   []uint32 `json:"q"` // SSRCs read with Get after every event
	Evs []lev    `json:"evs"`
	Obs [][]*obs `json:"obs"` // per event, per queried SSRC; nil = Get returned nil
}

// gatedRec is the package's own recorder behind the public RecorderFactory option; its Start (called by
// the goroutine the interceptor spawns) waits until the harness releases it, so the "not yet running"
// window has a chosen length.
type gatedRec struct {
	stats.Recorder
	gate    chan struct{}
	started chan struct{}
	stops   *int64
}

func (g *gatedRec) Start() {
	<-g.gate
	g.Recorder.Start()
	close(g.started)
}

func (g *gatedRec) Stop() {
	g.Recorder.Stop()
	atomic.AddInt64(g.stops, 1)
}

func runLife(lc lifeCase) lifeCase {
	now := int64(0)
	var stops int64
	var created []*gatedRec
	f, err := stats.NewInterceptor(
		stats.SetNowFunc(func() time.Time { return time.Unix(0, now) }),
		stats.SetRecorderFactory(func(ssrc uint32, rate float64) stats.Recorder {
			g := &gatedRec{
				Recorder: stats.NewRecorderVerif(ssrc, rate), gate: make(chan struct{}), started: make(chan struct{}), stops: &stops,
			}
			created = append(created, g)

			return g
		}))
	if err != nil {
		panic(err)
	}
	var getter stats.Getter
	f.OnNewPeerConnection(func(_ string, g stats.Getter) { getter = g })
	ii, err := f.NewInterceptor("c19life")
	if err != nil {
		panic(err)
	}
	icp, ok := ii.(*stats.Interceptor)
	if !ok {
		panic("not a stats interceptor")
	}
	var curRTP, curRTCP []byte
	rtcpW := icp.BindRTCPWriter(interceptor.RTCPWriterFunc(
		func(p []rtcp.Packet, _ interceptor.Attributes) (int, error) { return len(p), nil }))
	rtcpR := icp.BindRTCPReader(interceptor.RTCPReaderFunc(
		func(b []byte, a interceptor.Attributes) (int, interceptor.Attributes, error) {
			return copy(b, curRTCP), a, nil
		}))
	type handle struct {
		w interceptor.RTPWriter
		r interceptor.RTPReader
	}
	var handles []handle
	byRid := map[int]*gatedRec{}
	cur := map[uint32]int{}   // what the harness expects the recorder map to hold (scheduling only)
	pending := map[int]bool{} // Start goroutine spawned, gate not released yet
	var closers sync.WaitGroup
	buf := make([]byte, 4000)
	out := lifeCase{Q: lc.Q, Evs: lc.Evs}
	closed := false
	for _, e := range lc.Evs {
		switch e.Kind {
		case "bind":
			k := len(handles)
			before := len(created)
			info := &interceptor.StreamInfo{SSRC: e.SSRC, ClockRate: e.Rate}
			if e.Local {
				handles = append(handles, handle{w: icp.BindLocalStream(info, interceptor.RTPWriterFunc(
					func(_ *rtp.Header, p []byte, _ interceptor.Attributes) (int, error) { return len(p), nil }))})
			} else {
				handles = append(handles, handle{r: icp.BindRemoteStream(info, interceptor.RTPReaderFunc(
					func(b []byte, a interceptor.Attributes) (int, interceptor.Attributes, error) {
						return copy(b, curRTP), a, nil
					}))})
			}
			if len(created) > before {
				byRid[k] = created[len(created)-1]
				if !closed {
					cur[e.SSRC] = k
					pending[k] = true
				}
			}
		case "start":
			if pending[e.Rid] {
				close(byRid[e.Rid].gate)
				<-byRid[e.Rid].started
				delete(pending, e.Rid)
			}
		case "unbind":
			info := &interceptor.StreamInfo{SSRC: e.SSRC}
			if e.Local {
				icp.UnbindLocalStream(info)
			} else {
				icp.UnbindRemoteStream(info)
			}
			delete(cur, e.SSRC)
		case "close":
			if len(pending) == 0 {
				if err := icp.Close(); err != nil {
					panic(err)
				}
			} else {
				// Close blocks in wg.Wait until every spawned Start goroutine has run; its locked part
				// (closed = true, Stop on every recorder of the map) is over once all those Stops were seen
				if len(cur) == 0 {
					panic("generator: Close with pending Start goroutines and an empty recorder map cannot be sequenced")
				}
				want := atomic.LoadInt64(&stops) + int64(len(cur))
				closers.Add(1)
				go func() {
					defer closers.Done()
					if err := icp.Close(); err != nil {
						panic(err)
					}
				}()
				for t0 := time.Now(); atomic.LoadInt64(&stops) < want; {
					if time.Since(t0) > 10*time.Second {
						panic("Close did not stop the recorders of the map")
					}
					time.Sleep(20 * time.Microsecond)
				}
			}
			closed = true
		case "rtp":
			now = e.Ev.TS
			if e.H < 0 || e.H >= len(handles) {
				break
			}
			if h := handles[e.H]; h.w != nil {
				hd := mkHeader(*e.Ev)
				if _, err := h.w.Write(&hd, make([]byte, e.Ev.Pay), interceptor.Attributes{}); err != nil {
					panic(err)
				}
			} else {
				curRTP = marshalRTP(*e.Ev)
				if _, _, err := h.r.Read(buf, interceptor.Attributes{}); err != nil {
					panic(err)
				}
			}
		default:
			now = e.Ev.TS
			if e.Ev.Kind == "inrtcp" {
				curRTCP = marshalRTCP(e.Ev.Pkts)
				if _, _, err := rtcpR.Read(buf, interceptor.Attributes{}); err != nil {
					panic(err)
				}
			} else if _, err := rtcpW.Write(mkPkts(e.Ev.Pkts), interceptor.Attributes{}); err != nil {
				panic(err)
			}
		}
		row := make([]*obs, len(lc.Q))
		for i, q := range lc.Q {
			if st := getter.Get(q); st != nil {
				o := project(*st)
				row[i] = &o
			}
		}
		out.Obs = append(out.Obs, row)
	}
	for rid := range pending {
		close(byRid[rid].gate)
	}
	closers.Wait()
	if err := icp.Close(); err != nil {
		panic(err)
	}

	return out
}

func cqLev(e lev) string {
	switch e.Kind {
	case "bind":
		return cq.C("LBind", u(e.SSRC), u(e.Rate))
	case "start":
		return cq.C("LStart", cq.Z(int64(e.Rid)))
	case "unbind":
		return cq.C("LUnbind", u(e.SSRC))
	case "close":
		return "LClose"
	case "rtp":
		return cq.C("LRtp", cq.Z(int64(e.H)), cqEv(*e.Ev))
	}

	return cq.C("LRtcp", cqEv(*e.Ev))
}

func (c lifeCase) toCase(buckets []string) cq.Case {
	es := make([]string, len(c.Evs))
	traffic := 0
	for i, e := range c.Evs {
		es[i] = cqLev(e)
		if e.Ev != nil {
			traffic++
		}
	}
	zero := obs{Jit: fnum{Class: "zero"}, RJit: fnum{Class: "zero"}, RFrac: fnum{Class: "zero"}}
	prev := make([]*obs, len(c.Q))
	rows := make([]string, len(c.Obs))
	for i, row := range c.Obs {
		cells := make([]string, len(row))
		for j, o := range row {
			if o == nil {
				cells[j] = cq.None
			} else {
				base := zero
				if prev[j] != nil {
					base = *prev[j]
				}
				cells[j] = cq.Some(cqDiff(base, *o))
			}
			prev[j] = o
		}
		rows[i] = cq.L(cells)
	}

	return cq.Case{Coq: cq.T(lu(c.Q), cq.L(es), cq.L(rows)), JSON: c, Buckets: buckets, Trivial: traffic < 2}
}

func sortedInts(m map[int]uint32) []int {
	ks := make([]int, 0, len(m))
	for k := range m {
		ks = append(ks, k)
	}
	sort.Ints(ks)

	return ks
}

// genLife plans one interceptor history; the planning state mirrors what the interceptor is expected to
// do only to name the buckets and to keep Close sequenceable (see runLife).
func genLife(r *rand.Rand) (lifeCase, []string) {
	g := newGen(r)
	b := g.buckets
	univ := []uint32{g.s, g.others[0], g.others[1]}
	lc := lifeCase{Q: append([]uint32{}, univ...)}
	if nv := g.others[3]; nv != univ[0] && nv != univ[1] && nv != univ[2] {
		lc.Q = append(lc.Q, nv) // never bound
	}
	type hnd struct {
		ssrc  uint32
		local bool
		rid   int
	}
	var hs []hnd
	cur := map[uint32]int{}
	curLocal := map[uint32]bool{}
	lastRate := map[uint32]uint32{}
	ever := map[uint32]bool{}
	pending := map[int]uint32{}
	closed := false
	startEv := func(rid int) {
		s := pending[rid]
		if c, ok := cur[s]; !ok || c != rid {
			b["start-after-unbind"] = true
		} else if closed {
			b["start-after-close"] = true
		}
		delete(pending, rid)
		lc.Evs = append(lc.Evs, lev{Kind: "start", Rid: rid})
	}
	mappedPending := func() bool {
		for rid, s := range pending {
			if c, ok := cur[s]; ok && c == rid {
				return true
			}
		}

		return false
	}
	n := 8 + r.Intn(32)
	for len(lc.Evs) < n {
		k := r.Intn(22)
		switch {
		case k < 3 || len(hs) == 0: // bind
			s := univ[r.Intn(len(univ))]
			e := lev{Kind: "bind", SSRC: s, Rate: rates[r.Intn(len(rates))], Local: r.Intn(2) == 0}
			rid, has := cur[s]
			switch {
			case has:
				b["bind-shares-recorder"] = true
				if curLocal[s] != e.Local {
					b["bound-both-ways"] = true
				}
			case closed:
				b["bind-after-close"] = true
				rid = len(hs)
			default:
				if ever[s] {
					b["rebind"] = true
					if lastRate[s] != e.Rate {
						b["rebind-new-rate"] = true
					}
				}
				rid = len(hs)
				cur[s], curLocal[s], lastRate[s], ever[s] = rid, e.Local, e.Rate, true
				pending[rid] = s
			}
			hs = append(hs, hnd{ssrc: s, local: e.Local, rid: rid})
			lc.Evs = append(lc.Evs, e)
			if !has && !closed && r.Intn(3) > 0 { // most recorders start right away
				startEv(rid)
			}
		case k < 6: // a Start goroutine runs
			if ks := sortedInts(pending); len(ks) > 0 {
				startEv(ks[r.Intn(len(ks))])
			}
		case k == 6: // unbind
			s := univ[r.Intn(len(univ))]
			if rid, ok := cur[s]; !ok {
				b["unbind-unbound"] = true
			} else if _, p := pending[rid]; p {
				b["unbind-pending"] = true
			}
			delete(cur, s)
			lc.Evs = append(lc.Evs, lev{Kind: "unbind", SSRC: s, Local: r.Intn(2) == 0})
		case k == 7:
			if r.Intn(3) > 0 {
				break
			}
			if len(cur) == 0 { // Close could not be sequenced against pending starts: let them run first
				for _, rid := range sortedInts(pending) {
					startEv(rid)
				}
			}
			if len(pending) > 0 {
				b["close-with-pending-start"] = true
			}
			if closed {
				b["double-close"] = true
			}
			closed = true
			lc.Evs = append(lc.Evs, lev{Kind: "close"})
		case k < 15: // RTP through some handle, also a stale one
			h := r.Intn(len(hs))
			kind := "inrtp"
			if hs[h].local {
				kind = "outrtp"
			}
			e := g.rtpEv(kind)
			if r.Intn(4) > 0 {
				e.SSRC = hs[h].ssrc
			}
			if c, ok := cur[hs[h].ssrc]; !ok || c != hs[h].rid {
				b["stale-handle-rtp"] = true
			} else if _, p := pending[c]; p {
				b["not-running-drop"] = true
			}
			if closed {
				b["traffic-after-close"] = true
			}
			lc.Evs = append(lc.Evs, lev{Kind: "rtp", H: h, Ev: &e})
		default:
			e := g.rtcpEv(r.Intn(2) == 0)
			if mappedPending() {
				b["not-running-drop"] = true
			}
			if closed {
				b["traffic-after-close"] = true
			}
			lc.Evs = append(lc.Evs, lev{Kind: "rtcp", Ev: &e})
		}
	}

	return lc, g.bucketList(fmt.Sprintf("streams%d", len(ever)))
}

var leak []cq.ImplFailure

func mustSame(a, b obs) obs {
	if fmt.Sprintf("%+v", derefObs(a)) != fmt.Sprintf("%+v", derefObs(b)) {
		leak = append(leak, cq.ImplFailure{
			Kind: "stats-moved-without-traffic", Detail: "stats of a stream changed on an RTP packet of another stream",
			Case: map[string]interface{}{"before": a, "after": b},
		})
	}

	return b
}

func derefObs(o obs) obs {
	o.Last, o.ROTs = nil, nil

	return o
}

// ---- generators ----

type gen struct {
	r       *rand.Rand
	s       uint32 // stream under test
	others  []uint32
	now     int64
	inSeq   int64
	outSeq  int64
	rtpts   uint32
	sentSR  []uint64
	sentRR  []uint64 // RRTR
	srForS  []uint64 // NTP times of the sender reports sent that are addressed to s (what the recorder keeps 5 of)
	seqs    map[string][]int64
	buckets map[string]bool
}

func (g *gen) anySSRC() uint32 {
	if g.r.Intn(3) > 0 {
		return g.s
	}

	return g.others[g.r.Intn(len(g.others))]
}

func (g *gen) tick() int64 {
	switch g.r.Intn(12) {
	case 0:
		g.buckets["clock-back"] = true
		g.now -= int64(g.r.Intn(30000000))
	case 1:
		g.now += int64(g.r.Intn(5)) * 1000000000
	default:
		g.now += int64(g.r.Intn(40000000))
	}

	return g.now
}

func (g *gen) ntpNow() uint64 { return verifhooks.ToNTP(time.Unix(0, g.now)) }

func (g *gen) rtpEv(kind string) ev {
	e := ev{Kind: kind, TS: g.tick(), SSRC: g.anySSRC(), Pay: g.r.Intn(1200)}
	if g.r.Intn(4) == 0 {
		e.NCSRC = g.r.Intn(4)
	}
	if g.r.Intn(4) == 0 {
		e.Ext = 1 + g.r.Intn(16)
	}
	seq := &g.outSeq
	if kind == "inrtp" {
		seq = &g.inSeq
		if g.r.Intn(8) == 0 {
			e.Pad = 1 + g.r.Intn(20)
		}
	}
	tmp := int64(-1) // a sequence number used for this packet only (the stream position does not move)
	switch g.r.Intn(16) {
	case 14: // late: far behind the stream position
		if len(g.seqs[kind]) > 0 {
			g.buckets["late"] = true
			tmp = *seq - int64(5+g.r.Intn(300))
		} else {
			*seq++
		}
	case 15: // duplicate of an old packet
		if old := g.seqs[kind]; len(old) > 2 {
			g.buckets["dup-old"] = true
			tmp = old[g.r.Intn(len(old)-1)]
		} else {
			*seq++
		}
	case 0:
		g.buckets["dup"] = true
	case 1:
		g.buckets["reorder"] = true
		*seq -= int64(1 + g.r.Intn(4))
	case 2:
		g.buckets["loss"] = true
		*seq += int64(2 + g.r.Intn(3000))
	case 3:
		if g.r.Intn(4) == 0 {
			g.buckets["jump-half"] = true
			*seq += 32766 + int64(g.r.Intn(5))
		} else {
			*seq++
		}
	default:
		*seq++
	}
	if *seq < 0 {
		*seq += 65536
	}
	if *seq > 65535 {
		g.buckets["wrap"] = true
	}
	e.Seq = uint16(*seq & 0xFFFF) //nolint:gosec
	if tmp != -1 {
		e.Seq = uint16((tmp + 65536*4) & 0xFFFF) //nolint:gosec
	} else {
		g.seqs[kind] = append(g.seqs[kind], *seq)
	}
	g.rtpts += uint32(g.r.Intn(6000))
	if g.r.Intn(30) == 0 {
		g.rtpts += 0x80000000
	}
	e.RTPTs = g.rtpts
	if e.SSRC != g.s {
		g.buckets["foreign-rtp"] = true
	}

	return e
}

func (g *gen) report(about uint32, lsrFrom []uint64) rep {
	r := rep{
		SSRC: about, Frac: uint8(g.r.Intn(256)), Lost: uint32(g.r.Intn(500)), //nolint:gosec
		LastSeq: uint32(g.outSeq) + uint32(g.r.Intn(3))*65536, Jitter: uint32(g.r.Intn(100000)), //nolint:gosec
	}
	if g.r.Intn(10) == 0 {
		r.Lost = uint32(g.r.Intn(1 << 24)) //nolint:gosec
		r.LastSeq = g.r.Uint32()
		r.Jitter = g.r.Uint32()
	}
	switch {
	case len(lsrFrom) > 0 && g.r.Intn(5) > 0:
		k := len(lsrFrom) - 1 - g.r.Intn(min(len(lsrFrom), 7))
		r.LSR = uint32(lsrFrom[k] >> 16) //nolint:gosec
		if about == g.s {
			g.ageBucket("lsr", lsrFrom[k], g.srForS)
		}
		r.Delay = uint32(g.r.Intn(3 * 65536)) //nolint:gosec
		if g.r.Intn(12) == 0 {
			r.Delay = 0
		}
		g.buckets["lsr-candidate"] = true
	case g.r.Intn(2) == 0:
		r.LSR, r.Delay = g.r.Uint32(), g.r.Uint32()
	}

	return r
}

// ageBucket names how old the referenced report is among those the recorder keeps (the last five)
func (g *gen) ageBucket(what string, ntp uint64, kept []uint64) {
	for i := len(kept) - 1; i >= 0; i-- {
		if kept[i]>>16 == ntp>>16 {
			switch age := len(kept) - 1 - i; {
			case age >= 5:
				g.buckets[what+"-older-than-5"] = true
			case age == 4:
				g.buckets[what+"-fifth"] = true
			}

			return
		}
	}
}

func (g *gen) reports(lsrFrom []uint64) []rep {
	n := g.r.Intn(4)
	out := []rep{}
	if g.r.Intn(5) == 0 { // 2+ blocks, the one about s not first
		n = 1 + g.r.Intn(3)
		for i := 0; i < n; i++ {
			out = append(out, g.report(g.others[g.r.Intn(len(g.others))], lsrFrom))
		}

		return append(out, g.report(g.s, lsrFrom))
	}
	for i := 0; i < n; i++ {
		out = append(out, g.report(g.anySSRC(), lsrFrom))
	}

	return out
}

func (g *gen) sendNTP(prev []uint64) uint64 {
	n := g.ntpNow()
	if len(prev) > 0 {
		switch g.r.Intn(10) {
		case 0: // retransmission of the same report
			g.buckets["dup-ntp"] = true
			n = prev[len(prev)-1]
		case 1: // same middle 32 bits, different low / high bits
			g.buckets["same-mid32"] = true
			n = prev[len(prev)-1] ^ uint64(1+g.r.Intn(65535))
		case 2:
			g.buckets["same-mid32"] = true
			n = prev[g.r.Intn(len(prev))] ^ (uint64(1+g.r.Intn(7)) << 48)
		}
	}

	return n
}

func (g *gen) rtcpPkt(incoming bool) pkt {
	sender := g.anySSRC()
	switch g.r.Intn(11) {
	case 0, 1:
		p := pkt{Kind: "sr", Sender: sender, RTPTs: g.r.Uint32(), PC: g.r.Uint32(), OC: g.r.Uint32()}
		if incoming {
			p.NTP = g.ntpNow()
			if g.r.Intn(8) == 0 {
				p.NTP = g.r.Uint64()
			}
			p.Reps = g.reports(g.sentSR)
		} else {
			p.NTP = g.sendNTP(g.sentSR)
			p.Reps = g.reports(nil)
		}

		return p
	case 2, 3:
		lf := g.sentSR
		if !incoming {
			lf = nil
		}

		return pkt{Kind: "rr", Sender: sender, Reps: g.reports(lf)}
	case 4, 5:
		p := pkt{Kind: "xr", Sender: g.others[g.r.Intn(len(g.others))]}
		if g.r.Intn(6) == 0 {
			p.Sender = g.s
		}
		nb := 1 + g.r.Intn(3)
		for i := 0; i < nb; i++ {
			switch g.r.Intn(4) {
			case 0:
				p.Blocks = append(p.Blocks, xblock{Kind: "other", SSRC: g.anySSRC()})
			case 1:
				b := xblock{Kind: "rrtr", NTP: g.ntpNow()}
				if !incoming {
					b.NTP = g.sendNTP(g.sentRR)
				}
				p.Blocks = append(p.Blocks, b)
			default:
				b := xblock{Kind: "dlrr"}
				nd := 1 + g.r.Intn(3)
				for j := 0; j < nd; j++ {
					d := dl{SSRC: g.anySSRC(), LastRR: g.r.Uint32(), DLRR: uint32(g.r.Intn(3 * 65536))} //nolint:gosec
					if incoming && len(g.sentRR) > 0 && g.r.Intn(5) > 0 {
						k := len(g.sentRR) - 1 - g.r.Intn(min(len(g.sentRR), 7))
						d.LastRR = uint32(g.sentRR[k] >> 16) //nolint:gosec
						g.buckets["dlrr-candidate"] = true
						if d.SSRC == g.s {
							g.ageBucket("dlrr", g.sentRR[k], g.sentRR)
						}
					}
					if g.r.Intn(12) == 0 {
						d.DLRR = 0
					}
					if g.r.Intn(12) == 0 {
						d.LastRR = 0
					}
					b.Dlrr = append(b.Dlrr, d)
				}
				p.Blocks = append(p.Blocks, b)
			}
		}

		return p
	case 6:
		return pkt{Kind: "nack", Sender: sender, Media: g.anySSRC()}
	case 7:
		return pkt{Kind: "pli", Sender: sender, Media: g.anySSRC()}
	case 8:
		p := pkt{Kind: "fir", Sender: sender, Media: g.anySSRC()}
		if g.r.Intn(2) == 0 {
			p.Media = 0 // RFC 5104: the media source field of a FIR is not used and is 0
			g.buckets["fir-media0"] = true
		}
		n := g.r.Intn(3)
		if incoming && n == 0 {
			n = 1 // pion/rtcp refuses to parse a FIR without FCI entries (and then the whole compound is dropped)
		}
		for i := 0; i < n; i++ {
			p.Entries = append(p.Entries, g.anySSRC())
		}

		return p
	case 9:
		return pkt{Kind: []string{"sdes", "bye", "remb"}[g.r.Intn(3)], Sender: sender, Dests: []uint32{g.anySSRC()}}
	default:
		return pkt{Kind: "sdes", Dests: []uint32{g.anySSRC(), g.anySSRC()}}
	}
}

func (g *gen) rtcpEv(incoming bool) ev {
	e := ev{Kind: "outrtcp", TS: g.tick()}
	if incoming {
		e.Kind = "inrtcp"
	}
	n := 1 + g.r.Intn(4)
	seenXR := false
	for i := 0; i < n; i++ {
		p := g.rtcpPkt(incoming)
		if seenXR && incoming {
			g.buckets["after-xr"] = true
		}
		if p.Kind == "xr" {
			seenXR = true
		}
		e.Pkts = append(e.Pkts, p)
	}
	if incoming {
		for _, p := range e.Pkts {
			if (p.Kind == "sr" || p.Kind == "rr") && len(p.Reps) >= 2 && p.Reps[0].SSRC != g.s {
				for _, rp := range p.Reps[1:] {
					if rp.SSRC == g.s {
						g.buckets["report-block-not-first"] = true
					}
				}
			}
		}
	}
	if !incoming {
		for _, p := range e.Pkts {
			if p.Kind == "sr" {
				g.sentSR = append(g.sentSR, p.NTP)
				forS := p.Sender == g.s
				for _, rp := range p.Reps {
					forS = forS || rp.SSRC == g.s
				}
				if forS {
					g.srForS = append(g.srForS, p.NTP)
				}
			}
			for _, b := range p.Blocks {
				if b.Kind == "rrtr" {
					g.sentRR = append(g.sentRR, b.NTP)
				}
			}
		}
	}

	return e
}

var rates = []uint32{90000, 90000, 48000, 8000, 1, 1000000, 4294967295}

func newGen(r *rand.Rand) *gen {
	g := &gen{r: r, buckets: map[string]bool{}, seqs: map[string][]int64{}}
	g.s = []uint32{1, 5000, 0x80000000, 0xFFFFFFFF, r.Uint32()}[r.Intn(5)]
	g.others = []uint32{g.s + 1, g.s - 1, 0, r.Uint32()}
	g.now = 1600000000000000000 + r.Int63n(100000000000000000)
	g.inSeq = int64(r.Intn(65536))
	g.outSeq = int64(r.Intn(65536))
	if r.Intn(3) == 0 {
		g.inSeq = 65530 + int64(r.Intn(6))
		g.outSeq = 65530 + int64(r.Intn(6))
	}
	g.rtpts = r.Uint32()

	return g
}

// burst: more than five sender reports and receiver reference times are sent for s, then reports arrive
// that refer to each of them (in random order of age), also to the ones the recorder no longer keeps
func (g *gen) burst() []ev {
	var evs []ev
	n := 6 + g.r.Intn(4)
	for i := 0; i < n; i++ {
		g.now += int64(1+g.r.Intn(3)) * 1000000000
		sr := pkt{Kind: "sr", Sender: g.s, NTP: g.ntpNow(), RTPTs: g.r.Uint32(), PC: g.r.Uint32(), OC: g.r.Uint32()}
		xr := pkt{Kind: "xr", Sender: g.others[0], Blocks: []xblock{{Kind: "rrtr", NTP: g.ntpNow() + uint64(g.r.Intn(1000))<<16}}}
		e := ev{Kind: "outrtcp", TS: g.now, Pkts: []pkt{sr, xr}}
		if g.r.Intn(2) == 0 {
			e.Pkts = []pkt{xr, sr}
		}
		g.sentSR, g.srForS, g.sentRR = append(g.sentSR, sr.NTP), append(g.srForS, sr.NTP), append(g.sentRR, xr.Blocks[0].NTP)
		evs = append(evs, e)
		if g.r.Intn(3) == 0 {
			evs = append(evs, g.rtpEv("outrtp"))
		}
	}
	for _, age := range g.r.Perm(n) {
		rp := g.report(g.s, nil)
		ntp := g.srForS[len(g.srForS)-1-age]
		rp.LSR, rp.Delay = uint32(ntp>>16), uint32(1+g.r.Intn(2*65536)) //nolint:gosec
		g.ageBucket("lsr", ntp, g.srForS)
		rr := pkt{Kind: "rr", Sender: g.others[1], Reps: []rep{rp}}
		if g.r.Intn(2) == 0 {
			rr.Reps = []rep{g.report(g.others[0], nil), rp}
			g.buckets["report-block-not-first"] = true
		}
		rt := g.sentRR[len(g.sentRR)-1-age]
		g.ageBucket("dlrr", rt, g.sentRR)
		xr := pkt{Kind: "xr", Sender: g.others[1], Blocks: []xblock{{Kind: "dlrr", Dlrr: []dl{
			{SSRC: g.others[0], LastRR: uint32(rt >> 16), DLRR: 7},                              //nolint:gosec
			{SSRC: g.s, LastRR: uint32(rt >> 16), DLRR: uint32(1 + g.r.Intn(2*65536))}}}}} //nolint:gosec
		e := ev{Kind: "inrtcp", TS: g.tick(), Pkts: []pkt{rr, xr}}
		if g.r.Intn(2) == 0 {
			e.Pkts = []pkt{xr, rr}
		}
		evs = append(evs, e)
	}

	return evs
}

func (g *gen) history(n int, mode int) []ev {
	evs := make([]ev, 0, n)
	for i := 0; i < n; i++ {
		k := g.r.Intn(10)
		switch mode {
		case 1: // receive side heavy
			if k < 6 {
				k = 0
			}
		case 2: // send side heavy
			if k < 6 {
				k = 3
			}
		case 3: // RTCP heavy
			if k < 6 {
				k = 6 + g.r.Intn(4)
			}
		}
		switch {
		case k < 3:
			evs = append(evs, g.rtpEv("inrtp"))
		case k < 6:
			evs = append(evs, g.rtpEv("outrtp"))
		case k < 8:
			evs = append(evs, g.rtcpEv(true))
		default:
			evs = append(evs, g.rtcpEv(false))
		}
	}

	return evs
}

func (g *gen) bucketList(extra ...string) []string {
	out := append([]string{}, extra...)
	for _, k := range sortedKeys(g.buckets) {
		out = append(out, k)
	}

	return out
}

func sortedKeys(m map[string]bool) []string {
	h := map[string]int{}
	for k := range m {
		h[k] = 1
	}

	return cq.SortedKeys(h)
}

func main() {
	o := cq.ParseFlags()
	r := o.Rand()
	const caseType = "Z * Z * list event * list (list fupd)"
	checks := []string{"rec_mismatches", "rec_spec_failures"}
	recSet := &cq.Set{Name: "c19rec", Import: "IV.Check.C19Check", CaseType: caseType, Checks: checks}
	icpSet := &cq.Set{Name: "c19icp", Import: "IV.Check.C19Check", CaseType: caseType, Checks: checks}
	lifeSet := &cq.Set{
		Name: "c19life", Import: "IV.Check.C19bCheck", CaseType: "list Z * list levent * list (list (option (list fupd)))",
		Checks: []string{"life_mismatches", "life_spec_failures"},
	}
	concSet := &cq.Set{
		Name: "c19conc", Import: "IV.Check.C19cCheck", CaseType: "cconc",
		Checks: []string{"conc_mismatches", "conc_spec_failures"},
	}
	rule := "c19rec: one recorder, random interleavings of in/out RTP (wrap, dup, reorder, loss, foreign SSRC) and in/out RTCP compounds " +
		"(SR/RR/XR(DLRR,RRTR,other)/NACK/PLI/FIR/SDES/BYE/REMB to matching and foreign SSRCs), stats read after every event; " +
		"c19icp: public interceptor with 1-4 bound streams, every bound SSRC read after every event; non-trivial = at least 2 events; " +
		"c19life: public interceptor with the package's recorder behind a gated RecorderFactory: Bind/Unbind/rebind/Close and the Start goroutine " +
		"of every recorder interleaved with RTP (also through stale handles) and RTCP, Get of 3 streams and a never-bound SSRC after every event; " +
		"non-trivial = at least 2 traffic events; " +
		"c19conc: one recorder (hook, or behind the public interceptor with the stream bound both ways) whose Queue* entry points are called " +
		"from 2-5 goroutines at once (each 150-8000 calls, made in 4-16 slices with the goroutines re-aligned between slices: RTP sent / received, incoming / outgoing compounds of 6-18 packets, mixed scripts; the " +
		"same entry point from two goroutines), a further goroutine reading the statistics meanwhile; the read after the join must equal the " +
		"recount of everything queued and no read may show a smaller counter than an earlier one; non-trivial = at least 2 goroutines that queue"

	if o.Replay != "" {
		var raw map[string]interface{}
		set := cq.LoadReplay(o.Replay, &raw)
		if set == "c19conc" {
			// a concurrent script has no fixed schedule: the replay runs it several times, every run is a case
			var cc concCase
			cq.LoadReplay(o.Replay, &cc)
			for k := 0; k < 8; k++ {
				concSet.Cases = append(concSet.Cases, runConc(cc).toCase([]string{"replay"}))
			}
			cq.Write(o, "replay", []*cq.Set{concSet}, nil, nil)

			return
		}
		if set == "c19life" {
			var lc lifeCase
			cq.LoadReplay(o.Replay, &lc)
			lc.Obs = nil
			lifeSet.Cases = append(lifeSet.Cases, runLife(lc).toCase([]string{"replay"}))
			cq.Write(o, "replay", []*cq.Set{lifeSet}, nil, nil)

			return
		}
		var c recCase
		cq.LoadReplay(o.Replay, &c)
		rc := runRec(c.SSRC, c.Rate, c.Evs)
		if set == "c19icp" && c.Icp != nil {
			for _, pc := range runIcp(*c.Icp) {
				if pc.SSRC == c.SSRC {
					rc = pc
				}
			}
		}
		if set == "c19icp" {
			icpSet.Cases = append(icpSet.Cases, rc.toCase([]string{"replay"}))
		} else {
			recSet.Cases = append(recSet.Cases, rc.toCase([]string{"replay"}))
		}
		cq.Write(o, "replay", []*cq.Set{recSet, icpSet}, nil, nil)

		return
	}
	// regression corpus first
	for _, f := range o.CorpusFiles() {
		var c recCase
		set := cq.LoadReplay(f, &c)
		if set == "c19conc" {
			var cc concCase
			cq.LoadReplay(f, &cc)
			concSet.Cases = append(concSet.Cases, runConc(cc).toCase([]string{"corpus"}))

			continue
		}
		if set == "c19life" {
			var lc lifeCase
			cq.LoadReplay(f, &lc)
			lc.Obs = nil
			lifeSet.Cases = append(lifeSet.Cases, runLife(lc).toCase([]string{"corpus"}))

			continue
		}
		recSet.Cases = append(recSet.Cases, runRec(c.SSRC, c.Rate, c.Evs).toCase([]string{"corpus"}))
	}
	nrec := o.Scale(1200, 12000)
	for i := 0; i < nrec; i++ {
		g := newGen(r)
		rate := rates[r.Intn(len(rates))]
		if r.Intn(40) == 0 {
			rate = 0
			g.buckets["rate0"] = true
		}
		mode := r.Intn(5)
		var evs []ev
		if mode == 4 {
			evs = append(g.burst(), g.history(r.Intn(6), r.Intn(4))...)
		} else {
			evs = g.history(3+r.Intn(28), mode)
		}
		recSet.Cases = append(recSet.Cases, runRec(g.s, rate, evs).toCase(g.bucketList(fmt.Sprintf("mode%d", mode))))
	}
	nicp := o.Scale(150, 1200)
	for i := 0; i < nicp; i++ {
		g := newGen(r)
		ic := icpCase{}
		ns := 1 + r.Intn(4)
		ssrcs := []uint32{g.s, g.others[0], g.others[1], g.others[3]}
		for k := 0; k < ns; k++ {
			ic.Streams = append(ic.Streams, stream{SSRC: ssrcs[k], Rate: rates[r.Intn(len(rates))], Local: r.Intn(2) == 0})
		}
		if r.Intn(3) == 0 { // the same SSRC bound both ways shares one recorder (first clock rate wins)
			ic.Streams = append(ic.Streams, stream{SSRC: g.s, Rate: rates[r.Intn(len(rates))], Local: !ic.Streams[0].Local})
			g.buckets["bound-both-ways"] = true
		}
		evs := g.history(3+r.Intn(22), r.Intn(4))
		for k := range evs {
			if evs[k].Kind == "inrtp" || evs[k].Kind == "outrtp" {
				evs[k].Via = ic.Streams[r.Intn(len(ic.Streams))].SSRC
				if r.Intn(3) > 0 {
					evs[k].SSRC = evs[k].Via
				}
			}
		}
		ic.Evs = evs
		for _, c := range runIcp(ic) {
			icpSet.Cases = append(icpSet.Cases, c.toCase(g.bucketList(fmt.Sprintf("streams%d", len(ic.Streams)))))
		}
	}
	nlife := o.Scale(120, 1000)
	for i := 0; i < nlife; i++ {
		lc, buckets := genLife(r)
		lifeSet.Cases = append(lifeSet.Cases, runLife(lc).toCase(buckets))
	}
	nconc := o.Scale(30, 360)
	concCalls := 0
	for i := 0; i < nconc; i++ {
		cc, buckets := genConc(r, i)
		concCalls += cc.calls()
		concSet.Cases = append(concSet.Cases, runConc(cc).toCase(buckets))
	}
	if len(leak) > 3 {
		leak = leak[:3]
	}
	cq.Write(o, rule, []*cq.Set{recSet, icpSet, lifeSet, concSet},
		map[string]interface{}{
			"interceptor_histories": nicp, "lifecycle_histories": nlife,
			"concurrent_runs": nconc, "concurrent_calls": concCalls,
		}, leak)
	if len(recSet.Cases) == 0 {
		fmt.Fprintln(os.Stderr, "no cases")
		os.Exit(1)
	}
}
