package main

// Concurrent set of C19 (c19conc, round-3 strengthening): the Queue* entry points of ONE
// recorder are called from several goroutines at once - directly through the verif hook
// ("rec") or behind the public interceptor with the stream bound both ways ("icp") - while a
// further goroutine keeps reading the statistics; the statistics are read once more after all
// goroutines have returned.
//
// The property quantifies over all interleavings; the harness does not know which one the
// recorder's mutex produced. What is decided is the order-independent part
// (Properties/C19c.v: the thirteen counters are a commutative fold, C19c_concurrent_counters_are_recount):
// the read after the join must equal the recount of everything every goroutine queued, and no
// read may show a smaller counter than an earlier read (Check/C19cCheck.v). A recorder whose
// read-modify-write of the statistics is not atomic (snapshot under the lock, compute outside,
// store under the lock again; a narrowed or forgotten lock) loses updates whatever the
// interleaving was.
//
// A goroutine's script is a list of segments (n, event): the call for the event made n times,
// the k-th call of an RTP segment with sequence number seq+k and RTP timestamp rtpts+3000k
// (Spec/StatsConcSpec.v: bump / expand_seg do the same expansion inside Coq).

import (
	"encoding/binary"
	"fmt"
	"math/rand"
	"runtime"
	"sync"
	"sync/atomic"
	"time"

	"github.com/pion/interceptor"
	"github.com/pion/interceptor/pkg/stats"
	"github.com/pion/rtcp"
	"github.com/pion/rtp"

	"verifharness/internal/cq"
)

type cseg struct {
	N  int `json:"n"`
	Ev ev  `json:"ev"`
}

type concCase struct {
	SSRC    uint32   `json:"ssrc"`
	Rate    uint32   `json:"rate"`
	Via     string   `json:"via"` // rec | icp
	Threads [][]cseg `json:"threads"`
	Reader  bool     `json:"reader"` // a goroutine reads the statistics while the others run
	// every goroutine makes its calls in this many slices and waits for the others between slices (0 = one
	// slice): the goroutines are re-aligned that often, so that on a loaded machine the calls of different
	// goroutines still meet; which interleaving results is the scheduler's choice (the property allows all)
	Rounds int `json:"rounds"`
	Obs     []obs    `json:"obs"`    // those reads (thinned, in order), then the read after the join
}

// concTarget is the recorder under test behind either surface.
type concTarget struct {
	inRTP   func(ts time.Time, buf []byte)
	outRTP  func(ts time.Time, h *rtp.Header, payload []byte)
	inRTCP  func(ts time.Time, buf []byte)
	outRTCP func(ts time.Time, pkts []rtcp.Packet)
	get     func() stats.Stats
	done    func()
}

type lenKey struct{}

func concRecorder(c concCase) concTarget {
	r := stats.NewRecorderVerif(c.SSRC, float64(c.Rate))
	r.Start()

	return concTarget{
		inRTP:   func(ts time.Time, buf []byte) { r.QueueIncomingRTP(ts, buf, nil) },
		outRTP:  func(ts time.Time, h *rtp.Header, p []byte) { r.QueueOutgoingRTP(ts, h, p, nil) },
		inRTCP:  func(ts time.Time, buf []byte) { r.QueueIncomingRTCP(ts, buf, nil) },
		outRTCP: func(ts time.Time, pkts []rtcp.Packet) { r.QueueOutgoingRTCP(ts, pkts, nil) },
		get:     r.GetStats,
		done:    r.Stop,
	}
}

// concInterceptor: the public interceptor, the stream bound as local AND remote stream (one recorder),
// a constant clock (the counters do not look at the time; a shared variable clock would be a race of the harness).
func concInterceptor(c concCase, clock time.Time) concTarget {
	f, err := stats.NewInterceptor(stats.SetNowFunc(func() time.Time { return clock }))
	if err != nil {
		panic(err)
	}
	var getter stats.Getter
	f.OnNewPeerConnection(func(_ string, g stats.Getter) { getter = g })
	ii, err := f.NewInterceptor("c19conc")
	if err != nil {
		panic(err)
	}
	icp, ok := ii.(*stats.Interceptor)
	if !ok {
		panic("not a stats interceptor")
	}
	info := &interceptor.StreamInfo{SSRC: c.SSRC, ClockRate: c.Rate}
	// the caller puts the packet into the buffer and its length into the attributes
	bottom := func(_ []byte, a interceptor.Attributes) (int, interceptor.Attributes, error) {
		n, _ := a.Get(lenKey{}).(int)

		return n, a, nil
	}
	w := icp.BindLocalStream(info, interceptor.RTPWriterFunc(
		func(_ *rtp.Header, p []byte, _ interceptor.Attributes) (int, error) { return len(p), nil }))
	rd := icp.BindRemoteStream(info, interceptor.RTPReaderFunc(bottom))
	rtcpW := icp.BindRTCPWriter(interceptor.RTCPWriterFunc(
		func(p []rtcp.Packet, _ interceptor.Attributes) (int, error) { return len(p), nil }))
	rtcpR := icp.BindRTCPReader(interceptor.RTCPReaderFunc(bottom))
	icp.WaitRecordersStartedVerif()
	ssrc := c.SSRC

	return concTarget{
		inRTP: func(_ time.Time, buf []byte) {
			if _, _, err := rd.Read(buf, interceptor.Attributes{lenKey{}: len(buf)}); err != nil {
				panic(err)
			}
		},
		outRTP: func(_ time.Time, h *rtp.Header, p []byte) {
			if _, err := w.Write(h, p, interceptor.Attributes{}); err != nil {
				panic(err)
			}
		},
		inRTCP: func(_ time.Time, buf []byte) {
			if _, _, err := rtcpR.Read(buf, interceptor.Attributes{lenKey{}: len(buf)}); err != nil {
				panic(err)
			}
		},
		outRTCP: func(_ time.Time, pkts []rtcp.Packet) {
			if _, err := rtcpW.Write(pkts, interceptor.Attributes{}); err != nil {
				panic(err)
			}
		},
		get: func() stats.Stats {
			st := getter.Get(ssrc)
			if st == nil {
				panic("Get returned nil for a bound SSRC")
			}

			return *st
		},
		done: func() {
			if err := icp.Close(); err != nil {
				panic(err)
			}
		},
	}
}

// counterKey: the thirteen counters of a read (to drop reads that show nothing new)
func counterKey(o obs) [13]int64 {
	return [13]int64{o.Recv, o.Hdr, o.Bytes, o.Sent, o.OBytes, o.OHdr, o.Fir, o.Pli, o.Nack, o.OFir, o.OPli, o.ONack, o.Reports}
}

const maxReads = 24

// runConc runs the goroutines of the case once.
func runConc(c concCase) concCase {
	var t concTarget
	if c.Via == "icp" {
		clock := time.Unix(0, 0)
		if len(c.Threads) > 0 && len(c.Threads[0]) > 0 {
			clock = time.Unix(0, c.Threads[0][0].Ev.TS)
		}
		t = concInterceptor(c, clock)
	} else {
		t = concRecorder(c)
	}
	// everything that can be prepared is prepared before the start line: the loops below only queue
	type prepared struct {
		n    int
		call func(k int)
	}
	scripts := make([][]prepared, len(c.Threads))
	for i, th := range c.Threads {
		for _, sg := range th {
			e := sg.Ev
			ts := time.Unix(0, e.TS)
			switch e.Kind {
			case "inrtp":
				buf := marshalRTP(e)
				scripts[i] = append(scripts[i], prepared{sg.N, func(k int) {
					binary.BigEndian.PutUint16(buf[2:], e.Seq+uint16(k))      //nolint:gosec
					binary.BigEndian.PutUint32(buf[4:], e.RTPTs+3000*uint32(k)) //nolint:gosec
					t.inRTP(ts, buf)
				}})
			case "outrtp":
				h := mkHeader(e)
				payload := make([]byte, e.Pay)
				scripts[i] = append(scripts[i], prepared{sg.N, func(k int) {
					h.SequenceNumber = e.Seq + uint16(k) //nolint:gosec
					t.outRTP(ts, &h, payload)
				}})
			case "inrtcp":
				buf := marshalRTCP(e.Pkts)
				scripts[i] = append(scripts[i], prepared{sg.N, func(int) { t.inRTCP(ts, buf) }})
			default:
				pkts := mkPkts(e.Pkts)
				scripts[i] = append(scripts[i], prepared{sg.N, func(int) { t.outRTCP(ts, pkts) }})
			}
		}
	}
	parties := int32(len(scripts)) //nolint:gosec
	if c.Reader {
		parties++
	}
	var ready int32
	line := func() {
		atomic.AddInt32(&ready, 1)
		spinUntil(func() bool { return atomic.LoadInt32(&ready) >= parties })
	}
	rounds := max(c.Rounds, 1)
	bar := &barrier{n: int32(len(scripts))} //nolint:gosec
	var workers, reader sync.WaitGroup
	var stop atomic.Bool
	var reads []obs
	if c.Reader {
		reader.Add(1)
		go func() {
			defer reader.Done()
			line()
			var last [13]int64
			for !stop.Load() {
				o := project(t.get())
				if k := counterKey(o); k != last && len(reads) < 200000 {
					reads = append(reads, o)
					last = k
				}
				runtime.Gosched()
			}
		}()
	}
	for i := range scripts {
		workers.Add(1)
		go func(script []prepared) {
			defer workers.Done()
			total := 0
			for _, p := range script {
				total += p.n
			}
			line()
			done, slice := 0, 1
			for _, p := range script {
				for k := 0; k < p.n; k++ {
					for slice < rounds && done >= slice*total/rounds {
						bar.wait()
						slice++
					}
					p.call(k)
					done++
				}
			}
			for ; slice < rounds; slice++ {
				bar.wait()
			}
		}(scripts[i])
	}
	workers.Wait()
	stop.Store(true)
	reader.Wait()
	final := project(t.get())
	t.done()
	out := c
	out.Obs = nil
	if len(reads) <= maxReads {
		out.Obs = append(out.Obs, reads...)
	} else { // thin, keeping the order
		for i := 0; i < maxReads; i++ {
			out.Obs = append(out.Obs, reads[i*len(reads)/maxReads])
		}
	}
	out.Obs = append(out.Obs, final)

	return out
}

// barrier: a reusable meeting point of n goroutines
type barrier struct {
	n, count, gen int32
}

func (b *barrier) wait() {
	g := atomic.LoadInt32(&b.gen)
	if atomic.AddInt32(&b.count, 1) == b.n {
		atomic.StoreInt32(&b.count, 0)
		atomic.AddInt32(&b.gen, 1)

		return
	}
	spinUntil(func() bool { return atomic.LoadInt32(&b.gen) != g })
}

// spinUntil waits WITHOUT yielding the processor for about a millisecond, and only then starts yielding.
// Goroutines that yield while they wait are happily kept on one processor by the Go scheduler when the
// work between two waits is short (tens of microseconds): they then take turns and never run at the same
// time. A goroutine that keeps its processor while it waits forces the others onto processors of their own.
func spinUntil(cond func() bool) {
	for i := 0; !cond(); i++ {
		if i > 2000000 {
			runtime.Gosched()
		}
	}
}

func (c concCase) toCase(buckets []string) cq.Case {
	ths := make([]string, len(c.Threads))
	busy := 0
	for i, th := range c.Threads {
		ss := make([]string, len(th))
		calls := 0
		for j, sg := range th {
			ss[j] = cq.T(cq.Z(int64(sg.N)), cqEv(sg.Ev))
			calls += sg.N
		}
		if calls > 0 {
			busy++
		}
		ths[i] = cq.L(ss)
	}
	rs := make([]string, len(c.Obs))
	prev := obs{Jit: fnum{Class: "zero"}, RJit: fnum{Class: "zero"}, RFrac: fnum{Class: "zero"}}
	for i, o := range c.Obs {
		rs[i] = cqDiff(prev, o)
		prev = o
	}

	return cq.Case{
		Coq: cq.T(u(c.SSRC), u(c.Rate), cq.L(ths), cq.L(rs)), JSON: c, Buckets: buckets, Trivial: busy < 2,
	}
}

func (c concCase) calls() int {
	n := 0
	for _, th := range c.Threads {
		for _, sg := range th {
			n += sg.N
		}
	}

	return n
}

// ---- generator ----

// bigCompound: a compound of 6-18 packets (the walk of an incoming compound is the widest window
// of the recorder's critical section), packets for the stream and for others mixed as in rtcpEv
func (g *gen) bigCompound(incoming bool) ev {
	e := g.rtcpEv(incoming)
	want := 6 + g.r.Intn(13)
	for len(e.Pkts) < want {
		more := g.rtcpEv(incoming)
		e.Pkts = append(e.Pkts, more.Pkts...)
	}
	if len(e.Pkts) > 18 {
		e.Pkts = e.Pkts[:18]
	}
	// make sure something in it counts for the stream
	fb := []string{"nack", "pli", "fir"}[g.r.Intn(3)]
	p := pkt{Kind: fb, Sender: g.others[0], Media: g.s}
	if fb == "fir" {
		p.Media, p.Entries = 0, []uint32{g.s}
	}
	e.Pkts[g.r.Intn(len(e.Pkts))] = p

	return e
}

// concThread plans the script of one goroutine. kind: inrtp outrtp inrtcp outrtcp mixed
func (g *gen) concThread(kind string, ts int64) []cseg {
	one := func(k string, n int) cseg {
		var e ev
		switch k {
		case "inrtp", "outrtp":
			e = g.rtpEv(k)
			if g.r.Intn(5) > 0 {
				e.SSRC = g.s
			}
		case "inrtcp":
			e = g.bigCompound(true)
		default:
			e = g.bigCompound(false)
		}
		e.TS = ts

		return cseg{N: n, Ev: e}
	}
	var th []cseg
	switch kind {
	case "inrtp", "outrtp":
		total := 1500 + g.r.Intn(2500)
		if kind == "outrtp" {
			total = 3000 + g.r.Intn(5000)
		}
		for left := total; left > 0; {
			n := min(left, 400+g.r.Intn(3000))
			th = append(th, one(kind, n))
			left -= n
		}
	case "inrtcp", "outrtcp":
		for left := 150 + g.r.Intn(250); left > 0; {
			n := min(left, 60+g.r.Intn(250))
			th = append(th, one(kind, n))
			left -= n
		}
	default:
		for i, ns := 0, 6+g.r.Intn(14); i < ns; i++ {
			k := []string{"inrtp", "outrtp", "inrtcp", "outrtcp"}[g.r.Intn(4)]
			n := 1 + g.r.Intn(120)
			if k == "inrtcp" || k == "outrtcp" {
				n = 1 + g.r.Intn(25)
			}
			th = append(th, one(k, n))
		}
	}

	return th
}

// the shapes are taken in turn so that every tier runs each of them
var concShapes = [][]string{
	{"outrtp", "inrtcp"},  // RTP sent while an incoming compound is walked
	{"inrtp", "inrtcp"},   // RTP received while an incoming compound is walked
	{"outrtcp", "inrtcp"}, // both RTCP directions
	{"inrtcp", "inrtcp"},  // the same entry point from two goroutines
	{"outrtp", "outrtp", "inrtp"},
	{"inrtp", "outrtp", "inrtcp", "outrtcp"},
	{"outrtcp", "outrtp", "inrtp"},
	{"mixed", "mixed", "mixed"},
	{"mixed", "inrtcp", "outrtp"},
	{"outrtcp", "outrtcp", "inrtp"},
	{"inrtp", "inrtp"},
	{"mixed", "mixed", "inrtp", "outrtcp", "inrtcp"},
}

func genConc(r *rand.Rand, i int) (concCase, []string) {
	g := newGen(r)
	shape := concShapes[i%len(concShapes)]
	c := concCase{SSRC: g.s, Rate: rates[r.Intn(len(rates))], Via: "rec", Reader: i%3 != 2, Rounds: []int{4, 8, 16}[r.Intn(3)]}
	if (i/len(concShapes))%2 == 1 || i%5 == 4 {
		c.Via = "icp"
	}
	ts := g.tick()
	name := ""
	for k, kind := range shape {
		c.Threads = append(c.Threads, g.concThread(kind, ts))
		if k > 0 {
			name += "+"
		}
		name += kind
	}
	b := []string{"via-" + c.Via, fmt.Sprintf("goroutines%d", len(shape)), "shape:" + name}
	if c.Reader {
		b = append(b, "reader")
	}

	return c, b
}
