// C17, set c17route: WHICH stream's next writer receives each packet the pacing interceptor releases.
//
// The stream of a packet is the binding (BindLocalStream call) whose returned writer it was written on. One goroutine
// interleaves BindLocalStream calls - with distinct, shared, zero-valued and repeated StreamInfo.SSRC, also in the
// middle of the traffic while packets are queued - with writes on any binding made so far, whose header SSRC is chosen
// independently: the StreamInfo.SSRC of its own binding, of another binding, of a binding made later, or of none.
// Every binding gets its own collector; a delivery is stamped with the index of the collector that received it.
package main

import (
	"math/rand"
	"sort"
	"time"

	"github.com/pion/interceptor"
	"github.com/pion/interceptor/pkg/pacing"

	"verifharness/internal/cq"
)

type rStep struct {
	Bind    bool   `json:"bind,omitempty"`
	Info    uint32 `json:"info,omitempty"`     // bind: StreamInfo.SSRC
	On      int    `json:"on,omitempty"`       // write: index of the binding written on
	SSRC    uint32 `json:"ssrc,omitempty"`     // write: SSRC in the header
	Spec    spec   `json:"spec"`               // write: the rest of the packet
	PauseUS int    `json:"pause_us,omitempty"` // sleep before the step
}

type routeCase struct {
	Rate   int     `json:"rate"`
	Steps  []rStep `json:"steps"`
	Burst  int64   `json:"burst"`
	Res    []int64 `json:"-"` // per step: write result class (errCode)
	Want   []pk    `json:"-"` // per step: the packet as built
	Deliv  []pk    `json:"-"`
	NDeliv int     `json:"ndelivered"`
	// number of binds made while accepted packets were still undelivered
	BindsWhileQueued int `json:"binds_while_queued"`
}

func runRoute(c routeCase) routeCase {
	col := &collector{}
	f := pacing.NewInterceptor(pacing.InitialRate(c.Rate), pacing.Interval(time.Millisecond))
	ic, err := f.NewInterceptor("r")
	if err != nil {
		panic(err)
	}
	c.Burst = int64(pacing.VerifBurst(c.Rate, time.Millisecond))
	var ws []interceptor.RTPWriter
	c.Res = make([]int64, len(c.Steps))
	c.Want = make([]pk, len(c.Steps))
	c.BindsWhileQueued = 0
	total := 0
	for i, st := range c.Steps {
		if st.PauseUS > 0 {
			time.Sleep(time.Duration(st.PauseUS) * time.Microsecond)
		}
		if st.Bind {
			col.mu.Lock()
			if len(col.got) < total {
				c.BindsWhileQueued++
			}
			col.mu.Unlock()
			ws = append(ws, ic.BindLocalStream(&interceptor.StreamInfo{SSRC: st.Info}, col.writer(int64(len(ws)))))

			continue
		}
		h, p := build(st.On, st.SSRC, st.Spec)
		c.Want[i] = toPk(int64(st.On), h, p)
		n, err := ws[st.On].Write(h, p, interceptor.Attributes{})
		c.Res[i] = errCode(err)
		if err == nil && n != h.MarshalSize()+len(p) {
			c.Res[i] = 3
		}
		if err == nil {
			total++
		}
		for k := range p { // the caller reuses its buffers, SSRC field included
			p[k] = 0xEE
		}
		h.SequenceNumber, h.Timestamp, h.SSRC = 0xDEAD, 0xDEADBEEF, 0xEEEEEEEE
	}
	col.wait(func() int { return total }, 2500*time.Millisecond, 15*time.Second)
	done := make(chan struct{})
	go func() { _ = ic.Close(); close(done) }()
	select {
	case <-done:
	case <-time.After(3 * time.Second):
	}
	col.mu.Lock()
	c.Deliv = append([]pk{}, col.got...)
	col.mu.Unlock()
	c.NDeliv = len(c.Deliv)

	return c
}

func (c routeCase) toCase(b ...string) cq.Case {
	evs := make([]string, len(c.Steps))
	nwr := 0
	dummy := coqPk(pk{})
	for i, st := range c.Steps {
		switch {
		case st.Bind:
			evs[i] = cq.T(cq.Z(0), cq.Z(int64(st.Info)), dummy)
		case c.Res[i] == 0:
			evs[i] = cq.T(cq.Z(1), cq.Z(int64(st.SSRC)), coqPk(c.Want[i]))
			nwr++
		default:
			evs[i] = cq.T(cq.Z(2), cq.Z(int64(st.SSRC)), coqPk(c.Want[i]))
		}
	}
	ds := make([]string, len(c.Deliv))
	for j, p := range c.Deliv {
		ds[j] = coqPk(p)
	}
	if c.BindsWhileQueued > 0 {
		b = append(b, "bind-while-packets-queued")
	}

	return cq.Case{Coq: cq.T(cq.Z(c.Burst), cq.L(evs), cq.L(ds)), JSON: c, Buckets: b, Trivial: nwr < 2}
}

// genRoute: six families; the header-SSRC class of every write and the shape of the bindings go to the buckets.
func genRoute(r *rand.Rand, i int) (routeCase, []string) { //nolint:cyclop
	c := routeCase{}
	bk := map[string]bool{}
	switch r.Intn(3) {
	case 0:
		c.Rate = 1_000_000 // burst = one 1500-byte packet: a backlog forms
		bk["rate-default"] = true
	case 1:
		c.Rate = 20_000_000 + r.Intn(80_000_000)
		bk["rate-high"] = true
	default:
		c.Rate = 2_000_000 + r.Intn(8_000_000)
		bk["rate-mid"] = true
	}
	var infos []uint32           // StreamInfo.SSRC of the bindings made so far
	seq := uint16(r.Intn(65536)) //nolint:gosec
	bind := func(info uint32, pauseUS int) {
		for _, x := range infos {
			if x == info {
				bk["info-ssrc-bound-again"] = true
			}
		}
		if info == 0 {
			bk["info-ssrc-zero"] = true
		}
		infos = append(infos, info)
		c.Steps = append(c.Steps, rStep{Bind: true, Info: info, PauseUS: pauseUS})
	}
	isBound := func(x uint32) bool {
		for _, y := range infos {
			if y == x {
				return true
			}
		}

		return false
	}
	write := func(on int, ssrc uint32) {
		s := genSpecs(r, 1, false)[0]
		s.Seq = seq
		seq++
		if s.PayLen > 1400 { // no packet reaches the burst (12000 bit): nothing blocks the head of the line
			s.PayLen = 1400
		}
		switch {
		case ssrc == infos[on]:
			bk["hdr=own-info-ssrc"] = true
		case isBound(ssrc):
			bk["hdr=other-binding-info-ssrc"] = true
		default:
			bk["hdr=unbound-ssrc"] = true
		}
		// is there a later binding with the same StreamInfo.SSRC as the one written on?
		for k := on + 1; k < len(infos); k++ {
			if infos[k] == infos[on] {
				bk["write-on-superseded-binding"] = true
			}
		}
		c.Steps = append(c.Steps, rStep{On: on, SSRC: ssrc, Spec: s})
	}
	// a header SSRC for a write on binding `on`, of a random class
	pick := func(on int) uint32 {
		switch r.Intn(5) {
		case 0:
			return infos[on]
		case 1:
			return infos[r.Intn(len(infos))]
		case 2:
			return 0x55000000 + uint32(r.Intn(1000)) //nolint:gosec
		case 3:
			return 0
		default:
			return infos[(on+1)%len(infos)]
		}
	}
	n := 4 + r.Intn(14)
	switch i % 6 {
	case 0: // distinct StreamInfo.SSRCs, header SSRC of every class
		bk["family:distinct-infos"] = true
		nb := 2 + r.Intn(3)
		for k := 0; k < nb; k++ {
			bind(uint32(1+k), 0) //nolint:gosec
		}
		for k := 0; k < n; k++ {
			on := r.Intn(nb)
			write(on, pick(on))
		}
	case 1: // all bindings made with one StreamInfo.SSRC (zero value or not)
		bk["family:shared-info"] = true
		v := uint32(0)
		if r.Intn(2) == 0 {
			v = uint32(r.Intn(5000)) //nolint:gosec
		}
		nb := 2 + r.Intn(3)
		for k := 0; k < nb; k++ {
			bind(v, 0)
		}
		for k := 0; k < n; k++ {
			on := r.Intn(nb)
			if r.Intn(3) == 0 {
				write(on, pick(on))
			} else {
				write(on, v)
			}
		}
	case 2: // an SSRC is bound again in the middle of the traffic; the old closure stays in use
		bk["family:rebind-mid-traffic"] = true
		bind(10, 0)
		bind(20, 0)
		for k := 0; k < n/2+1; k++ {
			on := r.Intn(2)
			write(on, infos[on])
		}
		bind(10, []int{0, 0, 300, 3000}[r.Intn(4)])
		for k := 0; k < n/2+1; k++ {
			on := r.Intn(3)
			if r.Intn(4) == 0 {
				write(on, pick(on))
			} else {
				write(on, infos[on])
			}
		}
	case 3: // one binding; RTX-like packets whose SSRC differs from StreamInfo.SSRC
		bk["family:single-binding-foreign-ssrc"] = true
		info := uint32(r.Intn(1 << 30)) //nolint:gosec
		bind(info, 0)
		for k := 0; k < n; k++ {
			if r.Intn(3) == 0 {
				write(0, info)
			} else {
				write(0, info+1+uint32(r.Intn(3))) //nolint:gosec
			}
		}
	case 4: // the header SSRC of queued packets becomes the StreamInfo.SSRC of a binding made afterwards
		bk["family:late-bind-of-queued-ssrc"] = true
		bind(1, 0)
		for k := 0; k < n/2+1; k++ {
			write(0, []uint32{1, 2, 3}[r.Intn(3)])
		}
		bind(2, []int{0, 200, 2000}[r.Intn(3)])
		for k := 0; k < n/2+1; k++ {
			on := r.Intn(2)
			write(on, []uint32{1, 2, 3}[r.Intn(3)])
		}
		bind(3, 0)
		write(2, 1)
		write(0, 3)
	default: // random interleaving of binds and writes over a small pool of SSRCs
		bk["family:random-mix"] = true
		pool := []uint32{0, 1, 2, 1000, 0xFFFFFFFF}
		bind(pool[r.Intn(len(pool))], 0)
		for k := 0; k < n+4; k++ {
			if r.Intn(4) == 0 && len(infos) < 6 {
				bind(pool[r.Intn(len(pool))], []int{0, 0, 500}[r.Intn(3)])
			} else {
				on := r.Intn(len(infos))
				write(on, pool[r.Intn(len(pool))])
			}
		}
	}
	b := make([]string, 0, len(bk))
	for k := range bk {
		b = append(b, k)
	}
	sort.Strings(b)

	return c, b
}
