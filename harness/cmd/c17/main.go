// Generator for C17: pacers (pkg/pacing token bucket interceptor, pkg/gcc leaky bucket).
package main

import (
	"fmt"
	"math/rand"
	"strings"
	"sync"
	"sync/atomic"
	"time"

	"github.com/pion/interceptor"
	"github.com/pion/interceptor/pkg/cc"
	"github.com/pion/interceptor/pkg/gcc"
	"github.com/pion/interceptor/pkg/pacing"
	"github.com/pion/rtp"

	"verifharness/internal/cq"
)

type pk struct {
	Stream int64 `json:"stream"`
	HID    int64 `json:"hid"`
	HLen   int64 `json:"hlen"`
	PID    int64 `json:"pid"`
	PLen   int64 `json:"plen"`
}

// content ids: equal id <=> equal bytes (exact interning)
var (
	internMu sync.Mutex
	internM  = map[string]int64{}
)

func intern(b []byte) int64 {
	internMu.Lock()
	defer internMu.Unlock()
	id, ok := internM[string(b)]
	if !ok {
		id = int64(len(internM) + 1)
		internM[string(b)] = id
	}

	return id
}

type spec struct { // how to build a packet (inputs of a replay)
	Seq    uint16 `json:"seq"`
	PayLen int    `json:"paylen"`
	CSRC   int    `json:"csrc"`
	Ext    int    `json:"ext"`
	Marker bool   `json:"marker"`
	PT     uint8  `json:"pt"`
	// pacing interceptor only: which SSRC the header carries (0 = StreamInfo.SSRC of the stream written on, 1 = the
	// StreamInfo.SSRC of the next bound stream, 2 = an SSRC no stream was bound with, 3 = zero)
	SSRCMode int `json:"ssrc_mode,omitempty"`
}

type qCase struct {
	Kind    string   `json:"kind"` // pacing | leaky
	Rate    int      `json:"rate"`
	Rates   []int    `json:"rates,omitempty"` // mid-stream rate changes
	Writers [][]spec `json:"writers"`
	Infos   []uint32 `json:"infos,omitempty"` // pacing: StreamInfo.SSRC per stream (default 1000+w); leaky: the SSRC stream w is registered with (AddStream) and that its packets carry
	// leaky only: "" = streams registered on the gcc.LeakyBucketPacer directly; "bwe" = through gcc.SendSideBWE.AddStream
	// (default pacer); "cc" = through the cc interceptor's BindLocalStream (default estimator factory shape, default pacer)
	Via string `json:"via,omitempty"`
	// Hold > 0: the next writers of the streams, when called for the first Hold deliveries, do not look at the packet
	// at once: first the pacer's own goroutine (inline, from inside the next writer's call) and then a second goroutine
	// (while the call waits for it) each write one packet of Extra on an additional stream len(Writers). This forces
	// the interleaving "a Write runs between the pacer taking a packet off its queue and the next writer consuming it".
	Hold     int    `json:"hold,omitempty"`
	Extra    []spec `json:"extra,omitempty"`
	Conc     bool   `json:"conc"`
	Burst    int64  `json:"burst"`
	Accepted [][]pk `json:"-"`
	Deliv    []pk   `json:"-"`
	NDeliv   int    `json:"ndelivered"`
}

// infoSSRC is the StreamInfo.SSRC stream w of a pacing-interceptor case is bound with.
func infoSSRC(infos []uint32, w int) uint32 {
	if w < len(infos) {
		return infos[w]
	}

	return uint32(1000 + w) //nolint:gosec
}

// hdrSSRC is the SSRC in the header of a packet written on stream w. For the leaky-bucket pacer the stream of a packet
// IS its header SSRC (AddStream(ssrc, writer)); for the pacing interceptor the stream is the binding written on and the
// header SSRC is free.
func hdrSSRC(kind string, infos []uint32, nw, w int, s spec) uint32 {
	if kind != "pacing" {
		return infoSSRC(infos, w)
	}
	switch s.SSRCMode {
	case 1:
		if nw > 1 {
			return infoSSRC(infos, (w+1)%nw)
		}

		return infoSSRC(infos, w) + 1
	case 2:
		return 0x77000000 + uint32(s.Seq)
	case 3:
		return 0
	default:
		return infoSSRC(infos, w)
	}
}

func build(w int, ssrc uint32, s spec) (*rtp.Header, []byte) {
	h := &rtp.Header{Version: 2, SSRC: ssrc, SequenceNumber: s.Seq, Timestamp: uint32(s.Seq) * 3000, Marker: s.Marker, PayloadType: s.PT} //nolint:gosec
	for i := 0; i < s.CSRC; i++ {
		h.CSRC = append(h.CSRC, uint32(i*77+1)) //nolint:gosec
	}
	if s.Ext > 0 {
		_ = h.SetExtension(1, make([]byte, s.Ext))
	}
	p := make([]byte, s.PayLen)
	for i := range p {
		p[i] = byte(int(s.Seq) + i*13 + w)
	}

	return h, p
}

func toPk(w int64, h *rtp.Header, payload []byte) pk {
	raw, err := h.Marshal()
	if err != nil {
		panic(err)
	}

	return pk{Stream: w, HID: intern(raw), HLen: int64(len(raw)), PID: intern(payload), PLen: int64(len(payload))}
}

type collector struct {
	mu   sync.Mutex
	got  []pk
	last time.Time
}

func (c *collector) writer(w int64) interceptor.RTPWriter {
	return interceptor.RTPWriterFunc(func(h *rtp.Header, p []byte, _ interceptor.Attributes) (int, error) {
		c.mu.Lock()
		c.got = append(c.got, toPk(w, h, p))
		c.last = time.Now()
		c.mu.Unlock()

		return h.MarshalSize() + len(p), nil
	})
}

func (c *collector) wait(total func() int, quiet time.Duration, max time.Duration) {
	start := time.Now()
	for {
		c.mu.Lock()
		n := len(c.got)
		last := c.last
		c.mu.Unlock()
		if n >= total() {
			// a little longer: a duplicate would show up now
			time.Sleep(15 * time.Millisecond)

			return
		}
		ref := last
		if ref.IsZero() {
			ref = start
		}
		if time.Since(ref) > quiet || time.Since(start) > max {
			return
		}
		time.Sleep(2 * time.Millisecond)
	}
}

// leakyStreams registers len(ws) streams with the SSRCs infoSSRC(infos, w) on a leaky-bucket pacer - directly, through
// gcc.SendSideBWE or through the cc interceptor - and fills ws with the writers to write on.
func leakyStreams(via string, rate int, infos []uint32, ws []interceptor.RTPWriter, next func(w int) interceptor.RTPWriter) (func() error, func(int)) {
	switch via {
	case "bwe":
		bwe, err := gcc.NewSendSideBWE(gcc.SendSideBWEInitialBitrate(rate))
		if err != nil {
			panic(err)
		}
		for w := range ws {
			ws[w] = bwe.AddStream(&interceptor.StreamInfo{SSRC: infoSSRC(infos, w)}, next(w))
		}

		return bwe.Close, func(int) {}
	case "cc":
		f, err := cc.NewInterceptor(func() (cc.BandwidthEstimator, error) {
			return gcc.NewSendSideBWE(gcc.SendSideBWEInitialBitrate(rate))
		})
		if err != nil {
			panic(err)
		}
		ic, err := f.NewInterceptor("x")
		if err != nil {
			panic(err)
		}
		for w := range ws {
			ws[w] = ic.BindLocalStream(&interceptor.StreamInfo{SSRC: infoSSRC(infos, w)}, next(w))
		}

		return ic.Close, func(int) {}
	default:
		p := gcc.NewLeakyBucketPacer(rate)
		for w := range ws {
			p.AddStream(infoSSRC(infos, w), next(w))
			ws[w] = p
		}

		return p.Close, p.SetTargetBitrate
	}
}

// ssrcPool: unusual but legal SSRC values (every uint32 is a legal SSRC)
var ssrcPool = []uint32{0, 0xFFFFFFFF, 1, 0x80000000, 0x7FFFFFFF, 0xFFFF, 0x10000, 0xFFFFFFFE}

// leakySSRCs chooses the SSRCs of n leaky-bucket streams: all distinct (for this pacer the stream of a packet IS its
// header SSRC). mode 0: 1000+w (the earlier rounds), 1: one stream has SSRC 0, 2: one stream has 0xFFFFFFFF,
// 3: all from the pool of boundary values, 4: random 32-bit values with 0 among them.
func leakySSRCs(r *rand.Rand, n int, b []string) ([]uint32, []string) {
	mode := r.Intn(5)
	if mode == 0 {
		return nil, append(b, "ssrc-1000+w")
	}
	out := make([]uint32, 0, n)
	used := map[uint32]bool{}
	add := func(v uint32) {
		for used[v] {
			v = r.Uint32()
		}
		used[v] = true
		out = append(out, v)
	}
	special := r.Intn(n)
	perm := r.Perm(len(ssrcPool))
	for w := 0; w < n; w++ {
		switch {
		case mode == 1 && w == special:
			add(0)
		case mode == 2 && w == special:
			add(0xFFFFFFFF)
		case mode == 3:
			add(ssrcPool[perm[w%len(perm)]])
		case mode == 4 && w == special:
			add(0)
		case mode == 4:
			add(r.Uint32())
		default:
			add(uint32(1000 + w)) //nolint:gosec
		}
	}
	for _, v := range out {
		switch v {
		case 0:
			b = append(b, "stream-ssrc-zero")
		case 0xFFFFFFFF:
			b = append(b, "stream-ssrc-max")
		}
	}

	return out, append(b, "ssrc-unusual")
}

func runQ(c qCase, fails *[]cq.ImplFailure) qCase {
	col := &collector{}
	nw := len(c.Writers)
	ns := nw // streams: one per writer, plus one for the packets written during next-writer calls
	if c.Hold > 0 {
		ns++
	}
	ws := make([]interceptor.RTPWriter, ns)
	var closer func() error
	var setRate func(int)
	c.Accepted = make([][]pk, ns)
	var total atomic.Int64
	var mu sync.Mutex
	var held atomic.Int64
	// next writer of stream w: a plain collector, or (Hold) one that lets two Writes happen before it looks at the packet
	next := func(w int) interceptor.RTPWriter {
		inner := col.writer(int64(w))
		if c.Hold == 0 || w == nw {
			return inner
		}

		return interceptor.RTPWriterFunc(func(h *rtp.Header, p []byte, a interceptor.Attributes) (int, error) {
			if k := int(held.Add(1)) - 1; k < c.Hold && 2*k+1 < len(c.Extra) {
				extra := func(s spec) {
					eh, ep := build(nw, hdrSSRC(c.Kind, c.Infos, ns, nw, s), s)
					want := toPk(int64(nw), eh, ep)
					if _, err := ws[nw].Write(eh, ep, interceptor.Attributes{}); err == nil {
						mu.Lock()
						c.Accepted[nw] = append(c.Accepted[nw], want)
						mu.Unlock()
						total.Add(1)
					}
					for j := range ep {
						ep[j] = 0xEE
					}
				}
				extra(c.Extra[2*k]) // on the pacer's goroutine
				done := make(chan struct{})
				go func() { defer close(done); extra(c.Extra[2*k+1]) }()
				select {
				case <-done:
				case <-time.After(2 * time.Second):
				}
			}

			return inner.Write(h, p, a)
		})
	}
	switch c.Kind {
	case "pacing":
		f := pacing.NewInterceptor(pacing.InitialRate(c.Rate), pacing.Interval(time.Millisecond))
		ic, err := f.NewInterceptor("x")
		if err != nil {
			panic(err)
		}
		for w := 0; w < ns; w++ {
			ws[w] = ic.BindLocalStream(&interceptor.StreamInfo{SSRC: infoSSRC(c.Infos, w)}, next(w))
		}
		closer = ic.Close
		setRate = func(r int) { f.SetRate("x", r) }
		c.Burst = int64(pacing.VerifBurst(c.Rate, time.Millisecond))
		for _, r := range c.Rates {
			if b := int64(pacing.VerifBurst(r, time.Millisecond)); b < c.Burst {
				c.Burst = b
			}
		}
	default:
		closer, setRate = leakyStreams(c.Via, c.Rate, c.Infos, ws, next)
		c.Burst = 0
	}
	send := func(w int) {
		for i, s := range c.Writers[w] {
			h, p := build(w, hdrSSRC(c.Kind, c.Infos, nw, w, s), s)
			want := toPk(int64(w), h, p)
			n, err := ws[w].Write(h, p, interceptor.Attributes{})
			if err == nil {
				if n != h.MarshalSize()+len(p) {
					*fails = append(*fails, cq.ImplFailure{Kind: "write-result", Detail: fmt.Sprintf("Write returned %d", n), Case: c})
				}
				mu.Lock()
				c.Accepted[w] = append(c.Accepted[w], want)
				mu.Unlock()
				total.Add(1)
			}
			// the caller reuses its buffers immediately
			for k := range p {
				p[k] = 0xEE
			}
			h.SequenceNumber, h.Timestamp, h.Marker = 0xDEAD, 0xDEADBEEF, !h.Marker
			for k := range h.CSRC { // slices inside the header are the caller's too
				h.CSRC[k] = 0xEEEEEEEE
			}
			if ext := h.GetExtension(1); len(ext) > 0 {
				for k := range ext {
					ext[k] = 0xEE
				}
				_ = h.SetExtension(1, []byte{0xEE, 0xEE})
			}
			if len(c.Rates) > 0 && w == 0 && i%7 == 3 {
				setRate(c.Rates[(i/7)%len(c.Rates)])
			}
		}
	}
	if c.Conc {
		var wg sync.WaitGroup
		for w := 0; w < nw; w++ {
			wg.Add(1)
			go func(w int) { defer wg.Done(); send(w) }(w)
		}
		wg.Wait()
	} else {
		for w := 0; w < nw; w++ {
			send(w)
		}
	}
	col.wait(func() int { return int(total.Load()) }, 2500*time.Millisecond, 15*time.Second)
	done := make(chan struct{})
	go func() { _ = closer(); close(done) }()
	select {
	case <-done:
	case <-time.After(3 * time.Second):
		*fails = append(*fails, cq.ImplFailure{Kind: "close-blocks", Detail: "Close did not return", Case: c})
	}
	col.mu.Lock()
	c.Deliv = append([]pk{}, col.got...)
	col.mu.Unlock()
	c.NDeliv = len(c.Deliv)

	return c
}

// ---- runs with Close: Close at a random point mid-traffic, writes after Close, second Close ----

type wrObs struct {
	P     pk
	Phase int64 // 0 = returned before Close was called, 2 = began after the first Close returned, 1 = otherwise
	Res   int64 // 0 = accepted, 1 = closed error, 2 = overflow error, 3 = other error
}

type closeCase struct {
	Kind         string    `json:"kind"` // pacing | leaky
	Rate         int       `json:"rate"`
	Writers      [][]spec  `json:"writers"` // the last Late specs of every writer are written after Close returned
	Infos        []uint32  `json:"infos,omitempty"`
	Late         int       `json:"late"`
	Conc         bool      `json:"conc"`
	GapUS        int       `json:"gap_us"`         // pause of a writer between two writes
	CloseAfterUS int       `json:"close_after_us"` // the closer calls Close after this long
	Burst        int64     `json:"burst"`
	Obs          [][]wrObs `json:"-"`
	Deliv        []pk      `json:"-"`
	NAtReturn    int64     `json:"n_at_return"`
	Second       int64     `json:"second_close_returned"`
	NDeliv       int       `json:"ndelivered"`
	NAccepted    int       `json:"naccepted"`
}

func errCode(err error) int64 {
	switch {
	case err == nil:
		return 0
	case strings.Contains(err.Error(), "closed"):
		return 1
	case strings.Contains(err.Error(), "overflow"):
		return 2
	default:
		return 3
	}
}

func runClose(c closeCase, fails *[]cq.ImplFailure) closeCase { //nolint:cyclop
	col := &collector{}
	nw := len(c.Writers)
	ws := make([]interceptor.RTPWriter, nw)
	var closer func() error
	switch c.Kind {
	case "pacing":
		f := pacing.NewInterceptor(pacing.InitialRate(c.Rate), pacing.Interval(time.Millisecond))
		ic, err := f.NewInterceptor("x")
		if err != nil {
			panic(err)
		}
		for w := 0; w < nw; w++ {
			ws[w] = ic.BindLocalStream(&interceptor.StreamInfo{SSRC: infoSSRC(c.Infos, w)}, col.writer(int64(w)))
		}
		closer = ic.Close
		c.Burst = int64(pacing.VerifBurst(c.Rate, time.Millisecond))
	default:
		closer, _ = leakyStreams("", c.Rate, c.Infos, ws, func(w int) interceptor.RTPWriter { return col.writer(int64(w)) })
		c.Burst = 0
	}
	c.Obs = make([][]wrObs, nw)
	var closeBegun, closeReturned atomic.Int32
	write := func(w int, s spec) {
		h, p := build(w, hdrSSRC(c.Kind, c.Infos, nw, w, s), s)
		want := toPk(int64(w), h, p)
		after := closeReturned.Load() == 1
		_, err := ws[w].Write(h, p, interceptor.Attributes{})
		before := closeBegun.Load() == 0
		o := wrObs{P: want, Phase: 1, Res: errCode(err)}
		if before {
			o.Phase = 0
		} else if after {
			o.Phase = 2
		}
		c.Obs[w] = append(c.Obs[w], o) // one goroutine per writer at a time
		for k := range p {
			p[k] = 0xEE
		}
		h.SequenceNumber, h.Timestamp = 0xDEAD, 0xDEADBEEF
	}
	send := func(w int) {
		main := c.Writers[w][:len(c.Writers[w])-c.Late]
		for _, s := range main {
			write(w, s)
			if c.GapUS > 0 {
				time.Sleep(time.Duration(c.GapUS) * time.Microsecond)
			}
		}
	}
	var wg sync.WaitGroup
	if c.Conc {
		for w := 0; w < nw; w++ {
			wg.Add(1)
			go func(w int) { defer wg.Done(); send(w) }(w)
		}
	} else {
		wg.Add(1)
		go func() {
			defer wg.Done()
			for w := 0; w < nw; w++ {
				send(w)
			}
		}()
	}
	time.Sleep(time.Duration(c.CloseAfterUS) * time.Microsecond)
	closeWithTimeout := func() bool {
		done := make(chan struct{})
		go func() { _ = closer(); close(done) }()
		select {
		case <-done:
			return true
		case <-time.After(3 * time.Second):
			return false
		}
	}
	closeBegun.Store(1)
	ok := closeWithTimeout()
	closeReturned.Store(1)
	col.mu.Lock()
	c.NAtReturn = int64(len(col.got))
	col.mu.Unlock()
	if !ok {
		*fails = append(*fails, cq.ImplFailure{Kind: "close-blocks", Detail: "Close did not return", Case: c})
	}
	wg.Wait()
	for w := 0; w < nw; w++ { // writes after Close returned
		for _, s := range c.Writers[w][len(c.Writers[w])-c.Late:] {
			write(w, s)
		}
	}
	if closeWithTimeout() {
		c.Second = 1
	}
	time.Sleep(8 * time.Millisecond) // anything still delivered now was delivered after Close returned
	col.mu.Lock()
	c.Deliv = append([]pk{}, col.got...)
	col.mu.Unlock()
	c.NDeliv = len(c.Deliv)
	for _, o := range c.Obs {
		for _, x := range o {
			if x.Res == 0 {
				c.NAccepted++
			}
		}
	}

	return c
}

func (c closeCase) toCase(b ...string) cq.Case {
	ws := make([]string, len(c.Obs))
	n := 0
	ph := map[int64]bool{}
	raceAcc, raceRej := false, false
	for i, a := range c.Obs {
		xs := make([]string, len(a))
		for j, x := range a {
			xs[j] = cq.T(coqPk(x.P), cq.Z(x.Phase), cq.Z(x.Res))
			ph[x.Phase] = true
			if x.Phase == 1 && x.Res == 0 {
				raceAcc = true
			}
			if x.Phase == 1 && x.Res == 1 {
				raceRej = true
			}
		}
		n += len(a)
		ws[i] = cq.L(xs)
	}
	ds := make([]string, len(c.Deliv))
	for j, p := range c.Deliv {
		ds[j] = coqPk(p)
	}
	if c.NDeliv < c.NAccepted {
		b = append(b, "undelivered-at-close")
	} else {
		b = append(b, "all-delivered-before-close")
	}
	if c.NDeliv > 0 && c.NDeliv < c.NAccepted {
		b = append(b, "close-mid-delivery")
	}
	if raceAcc {
		b = append(b, "write-racing-close-accepted")
	}
	if raceRej {
		b = append(b, "write-racing-close-rejected")
	}
	if ph[2] {
		b = append(b, "write-after-close")
	}

	return cq.Case{Coq: cq.T(cq.Z(c.Burst), cq.L(ws), cq.L(ds), cq.Z(c.NAtReturn), cq.Z(c.Second)), JSON: c, Buckets: b, Trivial: n < 2}
}

func genClose(r *rand.Rand, kind string, i int) (closeCase, []string) {
	c := closeCase{Kind: kind, Late: 1 + r.Intn(3)}
	b := []string{}
	switch r.Intn(3) {
	case 0:
		c.Rate = 1_000_000
	case 1:
		c.Rate = 20_000_000 + r.Intn(80_000_000)
	default:
		c.Rate = 3_000_000 + r.Intn(10_000_000)
	}
	nw := 1
	if i%3 == 1 {
		nw = 2 + r.Intn(3)
		c.Conc = r.Intn(2) == 0
		if c.Conc {
			b = append(b, "concurrent-writers")
		} else {
			b = append(b, "multi-stream")
		}
	} else {
		b = append(b, "single-writer")
	}
	c.GapUS = []int{0, 0, 20, 100, 400}[r.Intn(5)]
	switch r.Intn(5) {
	case 0:
		c.CloseAfterUS = 0
		b = append(b, "close-at-once")
	case 1:
		c.CloseAfterUS = 30_000 + r.Intn(30_000)
		b = append(b, "close-late")
	default:
		c.CloseAfterUS = 50 + r.Intn(6000)
		b = append(b, "close-mid-traffic")
	}
	for w := 0; w < nw; w++ {
		c.Writers = append(c.Writers, genSpecs(r, 3+r.Intn(14)+c.Late, false))
	}
	if kind == "pacing" {
		c.Infos, b = varySSRC(r, c.Writers, b)
	}

	return c, b
}

// varySSRC (pacing interceptor): in half of the cases the header SSRC of every packet is chosen independently of the
// StreamInfo.SSRC of the stream it is written on, and in a quarter of the multi-stream cases several streams are bound
// with the same StreamInfo.SSRC (all zero = StreamInfo{}, or one shared value).
func varySSRC(r *rand.Rand, writers [][]spec, b []string) ([]uint32, []string) {
	var infos []uint32
	if r.Intn(2) == 0 {
		b = append(b, "hdr-ssrc-varied")
		for w := range writers {
			for k := range writers[w] {
				writers[w][k].SSRCMode = r.Intn(4)
			}
		}
	} else {
		b = append(b, "hdr-ssrc-own")
	}
	if len(writers) > 1 && r.Intn(4) == 0 {
		b = append(b, "streams-share-info-ssrc")
		v := uint32(0)
		if r.Intn(2) == 0 {
			v = 1000
		}
		for range writers {
			infos = append(infos, v)
		}
	}

	return infos, b
}

func coqPk(p pk) string {
	return cq.C("mkP", cq.Z(p.Stream), cq.Z(p.HID), cq.Z(p.HLen), cq.Z(p.PID), cq.Z(p.PLen))
}

func (c qCase) toCase(b ...string) cq.Case {
	ws := make([]string, len(c.Accepted))
	n := 0
	for i, a := range c.Accepted {
		ps := make([]string, len(a))
		for j, p := range a {
			ps[j] = coqPk(p)
		}
		n += len(a)
		ws[i] = cq.L(ps)
	}
	ds := make([]string, len(c.Deliv))
	for j, p := range c.Deliv {
		ds[j] = coqPk(p)
	}

	return cq.Case{Coq: cq.T(cq.Z(c.Burst), cq.L(ws), cq.L(ds)), JSON: c, Buckets: b, Trivial: n < 2}
}

func genSpecs(r *rand.Rand, n int, big bool) []spec {
	out := make([]spec, n)
	seq := uint16(r.Intn(65536)) //nolint:gosec
	for i := range out {
		s := spec{Seq: seq, Marker: r.Intn(4) == 0, PT: uint8(r.Intn(128))} //nolint:gosec
		seq++
		switch r.Intn(6) {
		case 0:
			s.PayLen = 0
		case 1:
			s.PayLen = 1460
		case 2:
			s.PayLen = 1 + r.Intn(20)
		default:
			s.PayLen = r.Intn(1461)
		}
		if r.Intn(4) == 0 {
			s.CSRC = r.Intn(4)
		}
		if r.Intn(4) == 0 {
			s.Ext = 1 + r.Intn(16)
		}
		if big && i == n/2 { // total length >= 1500 bytes: payload 1460 + 12 + 15 CSRCs
			s.PayLen, s.CSRC = 1460, 15
		}
		out[i] = s
	}

	return out
}

func genQ(r *rand.Rand, kind string, i int) (qCase, []string) {
	c := qCase{Kind: kind}
	b := []string{}
	switch r.Intn(4) {
	case 0:
		c.Rate = 1_000_000
		b = append(b, "rate-default")
	case 1:
		c.Rate = 20_000_000 + r.Intn(80_000_000)
		b = append(b, "rate-high")
	default:
		c.Rate = 3_000_000 + r.Intn(10_000_000)
		b = append(b, "rate-mid")
	}
	nw := 1
	if i%3 == 1 {
		nw = 2 + r.Intn(3)
		b = append(b, "multi-stream")
	}
	if i%3 == 2 {
		nw = 2 + r.Intn(3)
		c.Conc = true
		b = append(b, "concurrent-writers")
	}
	if r.Intn(3) == 0 {
		c.Rates = []int{2_000_000 + r.Intn(50_000_000), 3_000_000 + r.Intn(5_000_000)}
		b = append(b, "rate-changes")
	}
	big := kind == "pacing" && i%17 == 5
	if big {
		c.Rate = 1_000_000
		c.Rates = nil
		b = append(b, "oversize-head")
	}
	for w := 0; w < nw; w++ {
		c.Writers = append(c.Writers, genSpecs(r, 2+r.Intn(12), big && w == 0))
	}
	if i%4 == 3 && !big {
		n := 0
		for _, w := range c.Writers {
			n += len(w)
		}
		c.Hold = 1 + r.Intn(n)
		c.Extra = genSpecs(r, 2*c.Hold, false)
		for k := range c.Extra {
			if c.Extra[k].PayLen < 200 { // long enough to be seen if it lands in somebody else's buffer
				c.Extra[k].PayLen = 200 + r.Intn(1000)
			}
			if c.Extra[k].PayLen > 1400 { // never of burst size: nothing blocks the head of the line
				c.Extra[k].PayLen = 1400
			}
		}
		b = append(b, "write-during-next-writer-call")
	}
	if kind == "pacing" {
		c.Infos, b = varySSRC(r, c.Writers, b)
	}
	if len(c.Rates) > 0 {
		// with rate changes the burst varies over the run: a packet of exactly burst size (1500 bytes) would be
		// blocked or not depending on the instant it reaches the head; keep such cases to the constant-rate runs
		for w := range c.Writers {
			for k := range c.Writers[w] {
				if c.Writers[w][k].PayLen > 1400 {
					c.Writers[w][k].PayLen = 1400
				}
			}
		}
		for k := range c.Extra {
			if c.Extra[k].PayLen > 1400 {
				c.Extra[k].PayLen = 1400
			}
		}
	}

	return c, b
}

type envCase struct {
	Rate  int   `json:"rate"`
	Rates []int `json:"rates"`
	N     int   `json:"n"`
	// churn: after the writes, a goroutine calls InterceptorFactory.SetRate every ChurnUS microseconds for DrainMS
	// milliseconds WHILE the backlog (far larger than the burst) drains; ChurnRates empty = re-announce Rate
	ChurnUS    int        `json:"churn_us,omitempty"`
	ChurnRates []int      `json:"churn_rates,omitempty"`
	DrainMS    int        `json:"drain_ms,omitempty"`
	NSets      int        `json:"nsets,omitempty"`
	// Hdr > 0: header shapes with LARGE headers under a sustained backlog (1 = every packet: up to 15 CSRCs, one-byte
	// or two-byte header extensions of up to ~240 bytes, payload empty or a few bytes, so the header dominates the
	// packet; 2 = such packets mixed with plain 12-byte-header packets carrying 200..1200 bytes)
	Hdr int `json:"hdr,omitempty"`
	// IntervalMS: the Interval option of the interceptor in ms; 0 = 1 ms (the cases of the earlier rounds), -1 = no
	// Interval option (the factory's default, 5 ms)
	IntervalMS int `json:"interval_ms,omitempty"`
	// IdleMS > 0: idle-then-backlog family. Rounds times: Pre packets are written (the stream is running), then - if
	// Rates is not empty - InterceptorFactory.SetRate(Rates[round]) (a MID-STREAM rate change), then nothing is written
	// for IdleMS ms (the bucket fills up to its burst), then N packets of PkMin..PkMax payload bytes are written at once
	// (a backlog) and the run waits until they are out. What leaves in the first ticks after the idle period is bounded
	// by the BURST ALLOWANCE of the configured interval, not by the rate.
	IdleMS int `json:"idle_ms,omitempty"`
	Pre    int `json:"pre,omitempty"`
	Rounds int `json:"rounds,omitempty"`
	PkMin  int `json:"pk_min,omitempty"`
	PkMax  int `json:"pk_max,omitempty"`
	R0         int64      `json:"r0"`
	B0         int64      `json:"b0"`
	T0         int64      `json:"t0"`
	Evs        [][4]int64 `json:"-"`
	Sizes      []int64    `json:"-"`
	NEvs       int        `json:"nevents"`
}

func runEnv(c envCase, r *rand.Rand) envCase {
	var mu sync.Mutex
	var base time.Time
	rec := func(e pacing.VerifEvent) {
		mu.Lock()
		defer mu.Unlock()
		switch e.Kind {
		case "init":
			base = e.T
			c.R0, c.B0, c.T0 = int64(e.Rate), int64(e.Burst), 0
		case "set":
			c.Evs = append(c.Evs, [4]int64{1, e.T.Sub(base).Nanoseconds(), int64(e.Rate), int64(e.Burst)})
		default:
			ok := int64(0)
			if e.OK {
				ok = 1
			}
			c.Evs = append(c.Evs, [4]int64{0, e.T.Sub(base).Nanoseconds(), int64(e.N), ok})
		}
	}
	opts := []pacing.Option{pacing.InitialRate(c.Rate), pacing.VerifRecordingLimiter(rec)}
	if c.IntervalMS >= 0 {
		opts = append(opts, pacing.Interval(time.Duration(c.ivMS())*time.Millisecond))
	}
	f := pacing.NewInterceptor(opts...)
	ic, err := f.NewInterceptor("e")
	if err != nil {
		panic(err)
	}
	n := 0
	var nmu sync.Mutex
	w := ic.BindLocalStream(&interceptor.StreamInfo{SSRC: 1}, interceptor.RTPWriterFunc(
		func(h *rtp.Header, p []byte, _ interceptor.Attributes) (int, error) {
			nmu.Lock()
			n++
			c.Sizes = append(c.Sizes, int64(8*(h.MarshalSize()+len(p))))
			nmu.Unlock()

			return 0, nil
		}))
	if c.IdleMS > 0 {
		seq, want := 0, 0
		plain := func(k int) {
			for j := 0; j < k; j++ {
				_, _ = w.Write(&rtp.Header{Version: 2, SSRC: 1, SequenceNumber: uint16(seq)}, make([]byte, c.PkMin+r.Intn(c.PkMax-c.PkMin+1)), nil) //nolint:gosec
				seq++
			}
			want += k
		}
		for round := 0; round < c.Rounds; round++ {
			plain(c.Pre)
			if len(c.Rates) > 0 {
				f.SetRate("e", c.Rates[round%len(c.Rates)])
				c.NSets++
			}
			time.Sleep(time.Duration(c.IdleMS) * time.Millisecond)
			plain(c.N)
			deadline := time.Now().Add(600 * time.Millisecond)
			for time.Now().Before(deadline) {
				nmu.Lock()
				d := n
				nmu.Unlock()
				if d >= want {
					break
				}
				time.Sleep(time.Millisecond)
			}
		}
		_ = ic.Close()
		mu.Lock()
		c.NEvs = len(c.Evs)
		mu.Unlock()

		return c
	}
	for i := 0; i < c.N; i++ {
		if c.Hdr > 0 && (c.Hdr == 1 || r.Intn(2) == 0) {
			h, pay := heavyHeader(r, i)
			_, _ = w.Write(h, pay, nil)
		} else {
			_, _ = w.Write(&rtp.Header{Version: 2, SSRC: 1, SequenceNumber: uint16(i)}, make([]byte, 200+r.Intn(1000)), nil) //nolint:gosec
		}
		if len(c.Rates) > 0 && i%40 == 20 {
			f.SetRate("e", c.Rates[(i/40)%len(c.Rates)])
		}
		if i%25 == 0 {
			time.Sleep(time.Millisecond)
		}
	}
	if c.ChurnUS > 0 {
		// rate changes while the backlog drains: a limiter that is rebuilt (and so refilled) on SetRate shows here
		stop := time.Now().Add(time.Duration(c.DrainMS) * time.Millisecond)
		done := make(chan struct{})
		go func() {
			defer close(done)
			for k := 0; time.Now().Before(stop); k++ {
				rt := c.Rate
				if len(c.ChurnRates) > 0 {
					rt = c.ChurnRates[k%len(c.ChurnRates)]
				}
				f.SetRate("e", rt)
				c.NSets++
				time.Sleep(time.Duration(c.ChurnUS) * time.Microsecond)
			}
		}()
		<-done
	} else {
		deadline := time.Now().Add(1500 * time.Millisecond)
		for time.Now().Before(deadline) {
			nmu.Lock()
			d := n
			nmu.Unlock()
			if d >= c.N {
				break
			}
			time.Sleep(5 * time.Millisecond)
		}
	}
	_ = ic.Close()
	mu.Lock()
	c.NEvs = len(c.Evs)
	mu.Unlock()

	return c
}

// heavyHeader: a packet whose header dominates: 0..15 CSRCs (15 in half of the packets), no / one-byte / two-byte
// header extensions (up to 6 elements of <= 16 bytes; one or two elements of up to 200 + 40 bytes), payload empty or
// 1..40 bytes. At most 12 + 60 + 4 + 244 + 40 = 360 bytes: far below the burst.
func heavyHeader(r *rand.Rand, i int) (*rtp.Header, []byte) {
	h := &rtp.Header{Version: 2, SSRC: 1, SequenceNumber: uint16(i)} //nolint:gosec
	nc := 15
	if r.Intn(2) == 0 {
		nc = r.Intn(16)
	}
	for k := 0; k < nc; k++ {
		h.CSRC = append(h.CSRC, uint32(k*31+7)) //nolint:gosec
	}
	switch r.Intn(4) {
	case 0:
	case 1:
		for id := 1; id <= 1+r.Intn(6); id++ {
			_ = h.SetExtension(uint8(id), make([]byte, 1+r.Intn(16))) //nolint:gosec
		}
	case 2:
		_ = h.SetExtension(1, make([]byte, 17+r.Intn(184)))
		if r.Intn(2) == 0 {
			_ = h.SetExtension(2, make([]byte, 1+r.Intn(40)))
		}
	default:
		_ = h.SetExtension(5, make([]byte, 200))
	}
	var pay []byte
	if r.Intn(3) > 0 {
		pay = make([]byte, 1+r.Intn(40))
	}

	return h, pay
}

// ivMS: the configured pacing interval in ms as the oracle uses it.
func (c envCase) ivMS() int64 {
	switch {
	case c.IntervalMS == 0:
		return 1
	case c.IntervalMS < 0:
		return 5
	default:
		return int64(c.IntervalMS)
	}
}

// toCaseW: the same run as a case of set c17envw: the configured interval in front, so that the oracle computes the
// burst allowance itself (from the configured interval and the rates) instead of believing the burst the
// implementation handed to its limiter.
func (c envCase) toCaseW() cq.Case {
	k := c.toCase()
	k.Coq = cq.T(cq.Z(c.ivMS()), k.Coq)
	k.Buckets = append(append([]string{}, k.Buckets...), fmt.Sprintf("interval-%dms", c.ivMS()))
	if c.IntervalMS < 0 {
		k.Buckets = append(k.Buckets, "interval-default")
	}
	if c.IdleMS > 0 {
		if len(c.Rates) > 0 {
			k.Buckets = append(k.Buckets, "mid-stream-setrate-then-idle")
			hi := false
			for _, rt := range c.Rates {
				if rt > 2_400_000 {
					hi = true
				}
			}
			if hi && c.ivMS() < 5 {
				k.Buckets = append(k.Buckets, "setrate-above-2.4M-interval-below-default")
			}
		} else {
			k.Buckets = append(k.Buckets, "initial-rate-then-idle")
		}
	}

	return k
}

// genIdle: one idle-then-backlog case.
func genIdle(r *rand.Rand, i int) envCase {
	c := envCase{IdleMS: 8 + r.Intn(18), Pre: 2 + r.Intn(8), Rounds: 1 + r.Intn(3), N: 40 + r.Intn(50)}
	switch i % 6 {
	case 0, 1, 2: // below the default interval
		c.IntervalMS = 1 + r.Intn(4)
		if i%6 == 0 {
			c.IntervalMS = 1
		}
	case 3:
		c.IntervalMS = -1 // default
	case 4:
		c.IntervalMS = 5 + r.Intn(16)
	default:
		c.IntervalMS = 2
	}
	rate := func() int {
		switch r.Intn(4) {
		case 0:
			return 2_500_000 + r.Intn(3_000_000) // just above the 12000-bit floor of a 5 ms burst
		case 1:
			return 300_000 + r.Intn(2_000_000) // floor on both sides
		default:
			return 5_000_000 + r.Intn(35_000_000)
		}
	}
	c.Rate = rate()
	if i%4 != 3 { // three quarters with a mid-stream rate change before every idle period
		for k := 0; k < c.Rounds; k++ {
			c.Rates = append(c.Rates, rate())
		}
	}
	if r.Intn(2) == 0 {
		c.PkMin, c.PkMax = 100, 400 // small packets: the bucket is emptied to the last few hundred bits
	} else {
		c.PkMin, c.PkMax = 200, 1200
	}

	return c
}

func (c envCase) toCase() cq.Case {
	ev := make([]string, len(c.Evs))
	for i, e := range c.Evs {
		ev[i] = cq.T(cq.Z(e[0]), cq.Z(e[1]), cq.Z(e[2]), cq.Z(e[3]))
	}
	b := []string{"constant-rate"}
	if len(c.Rates) > 0 {
		b = []string{"rate-changes"}
	}
	if c.ChurnUS > 0 {
		b = []string{"setrate-while-backlog-drains"}
		if len(c.ChurnRates) > 0 {
			b = append(b, "churn-different-rates")
		} else {
			b = append(b, "churn-same-rate")
		}
		if len(c.Sizes) < c.N {
			b = append(b, "backlog-sustained")
		}
	}
	if c.IdleMS > 0 {
		b = []string{"idle-then-backlog"}
	}
	if c.Hdr > 0 {
		b = []string{"large-headers-under-backlog", map[int]string{1: "every-packet-header-dominated", 2: "large-and-plain-headers-mixed"}[c.Hdr]}
		var hb, tot int64
		for _, s := range c.Sizes {
			tot += s
		}
		hb = tot / int64(len(c.Sizes)+1)
		if hb < 8*400 && c.Hdr == 1 {
			b = append(b, "mean-packet-below-400-bytes")
		}
		if len(c.Sizes) < c.N {
			b = append(b, "backlog-sustained")
		}
	}

	return cq.Case{Coq: cq.T(cq.Z(c.R0), cq.Z(c.B0), cq.Z(c.T0), cq.L(ev), cq.LZ(c.Sizes)), JSON: c, Buckets: b, Trivial: len(c.Evs) < 2}
}

func main() {
	o := cq.ParseFlags()
	r := o.Rand()
	var fails []cq.ImplFailure
	pac := &cq.Set{Name: "c17pacing", Import: "IV.Check.C17Check", CaseType: "q_case", Checks: []string{"pacing_mismatches", "pacing_spec_failures"}}
	lea := &cq.Set{Name: "c17leaky", Import: "IV.Check.C17Check", CaseType: "q_case", Checks: []string{"leaky_mismatches", "leaky_spec_failures"}}
	env := &cq.Set{Name: "c17env", Import: "IV.Check.C17dCheck", CaseType: "env_case", Checks: []string{"env_real_failures", "env_spec_failures", "env_tight_failures"}}
	pcl := &cq.Set{Name: "c17pclose", Import: "IV.Check.C17bCheck", CaseType: "close_case", Checks: []string{"pclose_mismatches", "pclose_spec_failures"}}
	lcl := &cq.Set{Name: "c17lclose", Import: "IV.Check.C17bCheck", CaseType: "close_case", Checks: []string{"lclose_mismatches", "lclose_spec_failures"}}
	rou := &cq.Set{Name: "c17route", Import: "IV.Check.C17cCheck", CaseType: "route_case", Checks: []string{"route_mismatches", "route_spec_failures"}}
	fai := &cq.Set{Name: "c17fail", Import: "IV.Check.C17dCheck", CaseType: "fail_case", Checks: []string{"fail_mismatches", "fail_spec_failures"}}
	// the envelope with the burst allowance computed by the oracle from the CONFIGURED interval, windowed (every window of
	// the run, so also the one that begins after an idle period)
	enw := &cq.Set{Name: "c17envw", Import: "IV.Check.C17eCheck", CaseType: "envw_case", Checks: []string{"env_cfg_failures"}}
	// fail and route first: their failure codes name the error (retried hand-off, wrong stream)
	sets := []*cq.Set{fai, rou, pac, lea, enw, env, pcl, lcl}
	if o.Replay != "" {
		var probe map[string]interface{}
		switch cq.LoadReplay(o.Replay, &probe) {
		case "c17env":
			var c envCase
			cq.LoadReplay(o.Replay, &c)
			env.Cases = append(env.Cases, runEnv(c, r).toCase())
		case "c17envw":
			var c envCase
			cq.LoadReplay(o.Replay, &c)
			for k := 0; k < 3; k++ { // what the first ticks after the idle period release depends on the timing: repeat
				enw.Cases = append(enw.Cases, runEnv(c, r).toCaseW())
			}
		case "c17route":
			var c routeCase
			cq.LoadReplay(o.Replay, &c)
			rou.Cases = append(rou.Cases, runRoute(c).toCase("replay"))
		case "c17fail":
			var c failCase
			cq.LoadReplay(o.Replay, &c)
			fai.Cases = append(fai.Cases, runFail(c, &fails).toCase("replay"))
		case "c17leaky":
			var c qCase
			cq.LoadReplay(o.Replay, &c)
			lea.Cases = append(lea.Cases, runQ(c, &fails).toCase("replay"))
		case "c17pclose", "c17lclose":
			var c closeCase
			set := cq.LoadReplay(o.Replay, &c)
			// the race has to be hit again: repeat the scenario
			for k := 0; k < 40; k++ {
				if set == "c17pclose" {
					pcl.Cases = append(pcl.Cases, runClose(c, &fails).toCase("replay"))
				} else {
					lcl.Cases = append(lcl.Cases, runClose(c, &fails).toCase("replay"))
				}
			}
		default:
			var c qCase
			cq.LoadReplay(o.Replay, &c)
			pac.Cases = append(pac.Cases, runQ(c, &fails).toCase("replay"))
		}
		cq.Write(o, "replay", sets, nil, fails)

		return
	}
	for _, f := range o.CorpusFiles() {
		var c qCase
		switch cq.LoadReplay(f, &c) {
		case "c17pacing":
			pac.Cases = append(pac.Cases, runQ(c, &fails).toCase("corpus"))
		case "c17leaky":
			lea.Cases = append(lea.Cases, runQ(c, &fails).toCase("corpus"))
		case "c17route":
			var rc routeCase
			cq.LoadReplay(f, &rc)
			rou.Cases = append(rou.Cases, runRoute(rc).toCase("corpus"))
		case "c17fail":
			var fc failCase
			cq.LoadReplay(f, &fc)
			fai.Cases = append(fai.Cases, runFail(fc, &fails).toCase("corpus"))
		case "c17envw":
			var ec envCase
			cq.LoadReplay(f, &ec)
			for k := 0; k < 2; k++ {
				enw.Cases = append(enw.Cases, runEnv(ec, r).toCaseW())
			}
		case "c17pclose", "c17lclose":
			var cc closeCase
			set := cq.LoadReplay(f, &cc)
			for k := 0; k < 10; k++ {
				if set == "c17pclose" {
					pcl.Cases = append(pcl.Cases, runClose(cc, &fails).toCase("corpus"))
				} else {
					lcl.Cases = append(lcl.Cases, runClose(cc, &fails).toCase("corpus"))
				}
			}
		}
	}
	n := o.Scale(400, 8000)
	rs := rand.New(rand.NewSource(o.Seed*1000003 + 41)) //nolint:gosec // SSRC dimension of the leaky-bucket cases
	type job struct {
		kind string
		c    qCase
		b    []string
	}
	jobs := make([]job, 0, 2*n)
	for i := 0; i < n; i++ {
		for _, k := range []string{"pacing", "leaky"} {
			c, b := genQ(r, k, i)
			if k == "leaky" {
				// the SSRCs the streams are registered with and the way they are registered (own PRNG stream)
				ns := len(c.Writers)
				if c.Hold > 0 {
					ns++
				}
				c.Infos, b = leakySSRCs(rs, ns, b)
				if len(c.Rates) == 0 {
					switch rs.Intn(4) {
					case 0:
						c.Via = "bwe"
					case 1:
						c.Via = "cc"
					}
				}
				b = append(b, "registered-via="+map[string]string{"": "pacer", "bwe": "send-side-bwe", "cc": "cc-interceptor"}[c.Via])
			}
			jobs = append(jobs, job{k, c, b})
		}
	}
	res := make([]qCase, len(jobs))
	var wg sync.WaitGroup
	var mu sync.Mutex
	sem := make(chan struct{}, 24)
	for i := range jobs {
		wg.Add(1)
		sem <- struct{}{}
		go func(i int) {
			defer wg.Done()
			var lf []cq.ImplFailure
			res[i] = runQ(jobs[i].c, &lf)
			mu.Lock()
			fails = append(fails, lf...)
			mu.Unlock()
			<-sem
		}(i)
	}
	// failing next writers (fail.go), in the same pool
	nf := o.Scale(120, 3000)
	rf := rand.New(rand.NewSource(o.Seed*1000003 + 17)) //nolint:gosec // own stream: the other sets keep their cases
	fjobs := make([]failCase, 0, 2*nf)
	fbk := make([][]string, 0, 2*nf)
	for i := 0; i < nf; i++ {
		for _, k := range []string{"pacing", "leaky"} {
			c, b := genFail(rf, k, i)
			if k == "leaky" {
				c.Infos, b = leakySSRCs(rs, len(c.Writers), b)
			}
			fjobs = append(fjobs, c)
			fbk = append(fbk, b)
		}
	}
	fres := make([]failCase, len(fjobs))
	for i := range fjobs {
		wg.Add(1)
		sem <- struct{}{}
		go func(i int) {
			defer wg.Done()
			var lf []cq.ImplFailure
			fres[i] = runFail(fjobs[i], &lf)
			mu.Lock()
			fails = append(fails, lf...)
			mu.Unlock()
			<-sem
		}(i)
	}
	wg.Wait()
	for i := range fres {
		fai.Cases = append(fai.Cases, fres[i].toCase(append(fbk[i], fres[i].Kind)...))
	}
	for i, j := range jobs {
		if j.kind == "pacing" {
			pac.Cases = append(pac.Cases, res[i].toCase(j.b...))
		} else {
			lea.Cases = append(lea.Cases, res[i].toCase(j.b...))
		}
	}
	// routing: which stream's next writer receives each packet (route.go)
	nr := o.Scale(240, 4000)
	rjobs := make([]routeCase, nr)
	rbk := make([][]string, nr)
	for i := 0; i < nr; i++ {
		rjobs[i], rbk[i] = genRoute(r, i)
	}
	rres := make([]routeCase, nr)
	for i := range rjobs {
		wg.Add(1)
		sem <- struct{}{}
		go func(i int) {
			defer wg.Done()
			rres[i] = runRoute(rjobs[i])
			<-sem
		}(i)
	}
	wg.Wait()
	for i := range rres {
		rou.Cases = append(rou.Cases, rres[i].toCase(rbk[i]...))
	}
	ne := o.Scale(12, 300)
	var maxStale, staleOver, setStale, nAllow int64 // clock model of theorem C17b_envelope_oracle_sound_for_exact_limiter
	for i := 0; i < ne; i++ {
		c := envCase{Rate: 500_000 + r.Intn(20_000_000), N: 200 + r.Intn(300)}
		if i%2 == 1 {
			c.Rates = []int{1_000_000 + r.Intn(30_000_000), 400_000 + r.Intn(3_000_000), 5_000_000}
		}
		ec := runEnv(c, r)
		var m int64
		for _, e := range ec.Evs {
			if e[0] == 0 {
				nAllow++
				if m-e[1] > maxStale {
					maxStale = m - e[1]
				}
				if m-e[1] > 2_000_000 {
					staleOver++
				}
			} else if e[1] < m {
				setStale++
			}
			if e[1] > m {
				m = e[1]
			}
		}
		env.Cases = append(env.Cases, ec.toCase())
		enw.Cases = append(enw.Cases, ec.toCaseW())
	}
	nch := o.Scale(10, 120)
	for i := 0; i < nch; i++ {
		// low rates: a backlog of 300..500 packets (>= 0.5 Mbit) against a burst of 12 kbit and 30..600 kbit of rate
		// allowance; SetRate every 2..10 ms for 300..500 ms
		c := envCase{Rate: 100_000 + r.Intn(1_100_000), N: 300 + r.Intn(200), ChurnUS: 2000 + r.Intn(8000), DrainMS: 300 + r.Intn(200)}
		switch i % 3 {
		case 1:
			c.ChurnRates = []int{c.Rate, 100_000 + r.Intn(1_100_000)}
		case 2:
			c.ChurnRates = []int{100_000 + r.Intn(500_000), 200_000 + r.Intn(1_000_000), 100_000}
		}
		ec := runEnv(c, r)
		env.Cases = append(env.Cases, ec.toCase())
		enw.Cases = append(enw.Cases, ec.toCaseW())
	}
	// large headers under a sustained backlog: the real bits handed downstream (8 * (marshalled header + payload), measured
	// by the next writer) against the envelope. Own PRNG stream: the other cases keep their inputs.
	nh := o.Scale(6, 120)
	rh := rand.New(rand.NewSource(o.Seed*1000003 + 29)) //nolint:gosec
	for i := 0; i < nh; i++ {
		c := envCase{Rate: 400_000 + rh.Intn(800_000), N: 150 + rh.Intn(100), Hdr: 1 + i%2}
		if i%4 >= 2 {
			c.Rates = []int{300_000 + rh.Intn(600_000), 1_000_000 + rh.Intn(500_000), 500_000}
		}
		ec := runEnv(c, rh)
		env.Cases = append(env.Cases, ec.toCase())
		enw.Cases = append(enw.Cases, ec.toCaseW())
	}
	// idle-then-backlog (round 5): configured intervals 1..4 ms (below the default), the default, and above it; with
	// and without a mid-stream rate change before the idle period. Own PRNG stream.
	ni := o.Scale(24, 400)
	ri := rand.New(rand.NewSource(o.Seed*1000003 + 53)) //nolint:gosec
	ires := make([]envCase, ni)
	for i := 0; i < ni; i++ {
		ires[i] = genIdle(ri, i)
	}
	for i := range ires {
		wg.Add(1)
		sem <- struct{}{}
		go func(i int) {
			defer wg.Done()
			ires[i] = runEnv(ires[i], rand.New(rand.NewSource(o.Seed*7919+int64(i)))) //nolint:gosec
			<-sem
		}(i)
	}
	wg.Wait()
	for i := range ires {
		enw.Cases = append(enw.Cases, ires[i].toCaseW())
	}
	extra := map[string]interface{}{
		"env_allow_events":                   nAllow,
		"env_max_stamp_staleness_ns":         maxStale,
		"env_allow_stamps_older_than_2ms":    staleOver,
		"env_setrate_stamps_older_than_seen": setStale,
	}
	nc := o.Scale(250, 4000)
	type cjob struct {
		c closeCase
		b []string
	}
	cjobs := make([]cjob, 0, 2*nc)
	for i := 0; i < nc; i++ {
		for _, k := range []string{"pacing", "leaky"} {
			c, b := genClose(r, k, i)
			if k == "leaky" {
				c.Infos, b = leakySSRCs(rs, len(c.Writers), b)
			}
			cjobs = append(cjobs, cjob{c, b})
		}
	}
	cres := make([]closeCase, len(cjobs))
	for i := range cjobs {
		wg.Add(1)
		sem <- struct{}{}
		go func(i int) {
			defer wg.Done()
			var lf []cq.ImplFailure
			cres[i] = runClose(cjobs[i].c, &lf)
			mu.Lock()
			fails = append(fails, lf...)
			mu.Unlock()
			<-sem
		}(i)
	}
	wg.Wait()
	for i, j := range cjobs {
		if j.c.Kind == "pacing" {
			pcl.Cases = append(pcl.Cases, cres[i].toCase(j.b...))
		} else {
			lcl.Cases = append(lcl.Cases, cres[i].toCase(j.b...))
		}
	}
	cq.Write(o, "pacing/leaky: 1..4 streams x 2..13 packets each (payload 0..1460, CSRC/extension/marker variants), sequential and concurrent writers, "+
		"mid-stream rate changes, caller scribbles its header and payload right after Write returns, one oversize-head case per 17; delivered sequence compared "+
		"per writer with the accepted one; non-trivial = at least 2 accepted packets; env: real rate.Limiter calls recorded through the pacerFactory hook, "+
		"cumulative granted bits checked against burst_max + sum(rate*dt) with 2 ms clock slack per call (env_spec_failures) and against the tight bound that bills only "+
		"the actual backward steps of the time stamps plus 5 ms per SetRate (env_tight_failures); env_real_failures: the same tight bound applied to the REAL bits the next writer "+
			"measured (8 * (marshalled header size + payload length)) instead of the debited amounts, and every debit must equal the real size; env large-header cases: 150..250 packets with up to "+
			"15 CSRCs and one-/two-byte header extensions of up to ~240 bytes, payload empty or 1..40 bytes (alone or mixed with plain packets), 0.4..1.2 Mbit/s, with and without rate changes; "+
		"env churn cases: backlog of 300..500 packets at 0.1..1.2 Mbit/s, a goroutine calls SetRate (same rate / different rates) every 2..10 ms for 300..500 ms while the backlog drains; "+
		"close sets: Close called 0..60 ms into the traffic of 1..4 writers (sequential or concurrent), 1..3 writes per writer after Close returned, second Close; "+
		"per call phase (before/racing/after Close) and result, delivered sequence, count delivered when Close returned vs 8 ms later, compared with the LTS with Close; "+
		"pacing interceptor, all sets: in half of the cases the header SSRC of each packet is independent of the StreamInfo.SSRC of the stream written on (own / next stream's / unbound / 0), "+
		"a quarter of the multi-stream cases bind all streams with one StreamInfo.SSRC; route set: one goroutine interleaves BindLocalStream calls (distinct, shared, zero and repeated "+
		"StreamInfo.SSRC, also mid-traffic while packets are queued) with writes on any existing binding with any header SSRC; every delivery is stamped with the binding whose next writer "+
		"received it and the stamped sequence must equal the accepted sequence; "+
		"leaky bucket, all sets: the SSRCs the streams are registered with are 1000+w in a fifth of the cases, otherwise one stream has SSRC 0 / 0xFFFFFFFF, or all are boundary values "+
		"(0, 1, 0x7FFFFFFF, 0x80000000, 0xFFFF, 0x10000, 0xFFFFFFFE, 0xFFFFFFFF), or random 32-bit values with 0 among them; c17leaky: streams registered on the pacer directly, through "+
		"gcc.SendSideBWE.AddStream or through the cc interceptor's BindLocalStream (default pacer); "+
		"set c17envw: every env run again, with the configured interval in the case, plus idle-then-backlog cases (Interval option 1..4 ms, default, 5..20 ms; 1..3 rounds of: a few packets, "+
		"optional InterceptorFactory.SetRate to 0.3..40 Mbit/s, 8..25 ms without traffic, 40..90 packets at once): env_cfg_failures follows a virtual bucket whose cap is the burst allowance the "+
		"oracle computes from the configured interval and the rates (max(12000, rate/(1000/interval_ms))) - every window of the run, real bits measured by the next writer - and checks that "+
		"no burst handed to the limiter exceeds that allowance",
		sets, extra, fails)
}
