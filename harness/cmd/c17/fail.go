// C17, set c17fail: the streams' NEXT WRITERS RETURN ERRORS.
//
// The property counts hand-offs: every accepted packet is handed to its stream's next writer exactly once, whatever
// that writer returns. Here the next writers fail - for single hand-offs, for a packet the first k times (or every
// time) it is seen, for one stream permanently, or for a stretch of consecutive hand-offs - and every call they
// receive is recorded, the failing ones included, with the packet as it arrived and the result returned.
package main

import (
	"errors"
	"fmt"
	"io"
	"math/rand"
	"sort"
	"sync"
	"sync/atomic"
	"time"

	"github.com/pion/interceptor"
	"github.com/pion/interceptor/pkg/pacing"
	"github.com/pion/rtp"

	"verifharness/internal/cq"
)

type failPlan struct {
	// calls: the hand-offs with these global indices (0-based, in the order the next writers are called) fail
	Calls []int `json:"calls,omitempty"`
	// packets: [writer, index into Writers[writer]] - this packet fails the first Times times its next writer sees it
	// (Times < 0: every time)
	Packets [][2]int `json:"packets,omitempty"`
	Times   int      `json:"times,omitempty"`
	// streams: every hand-off to the next writer of these streams fails
	Streams []int `json:"streams,omitempty"`
	// outage: the hand-offs with global index in [From, To) fail
	From int `json:"from,omitempty"`
	To   int `json:"to,omitempty"`
	// what a failing call returns next to the error: 0 = (0, err), 1 = (bytes, err)
	RetN int `json:"ret_n,omitempty"`
	// which error: 0 = errors.New, 1 = io.ErrClosedPipe, 2 = a net.Error-like temporary/timeout error, 3 = io.EOF wrapped
	ErrKind int `json:"err_kind,omitempty"`
}

type failCase struct {
	Kind    string   `json:"kind"` // pacing | leaky
	Rate    int      `json:"rate"`
	Writers [][]spec `json:"writers"`
	Infos   []uint32 `json:"infos,omitempty"` // leaky: the SSRC of stream w (default 1000+w)
	Conc    bool     `json:"conc"`
	GapUS   int      `json:"gap_us,omitempty"` // pause of a writer between two writes
	Plan    failPlan `json:"plan"`
	Burst   int64    `json:"burst"`
	NRej    int64    `json:"nrejected"`
	NCalls  int      `json:"ncalls"`
	NFailed int      `json:"nfailed"`
	NAcc    int      `json:"naccepted"`
	Order   []pk     `json:"-"` // acceptance order (one goroutine only)
	Acc     [][]pk   `json:"-"`
	Calls   []fcall  `json:"-"`
}

type fcall struct {
	P      pk
	Failed bool
}

type tempErr struct{}

func (tempErr) Error() string   { return "downstream: i/o timeout" }
func (tempErr) Timeout() bool   { return true }
func (tempErr) Temporary() bool { return true }

var errDownstream = errors.New("downstream writer failed")

func planErr(kind int) error {
	switch kind {
	case 1:
		return io.ErrClosedPipe
	case 2:
		return tempErr{}
	case 3:
		return fmt.Errorf("downstream: %w", io.EOF)
	default:
		return errDownstream
	}
}

func runFail(c failCase, fails *[]cq.ImplFailure) failCase { //nolint:cyclop
	nw := len(c.Writers)
	var mu sync.Mutex // guards calls, seen, last
	var calls []fcall
	var last time.Time
	seen := map[[2]int64]int{} // (stream, header sequence number) -> times seen
	var finished atomic.Bool
	limit := 64
	for _, w := range c.Writers {
		limit += 4 * len(w)
	}
	failCall := map[int]bool{}
	for _, k := range c.Plan.Calls {
		failCall[k] = true
	}
	failStream := map[int]bool{}
	for _, s := range c.Plan.Streams {
		failStream[s] = true
	}
	failPkt := map[[2]int64]bool{}
	for _, wi := range c.Plan.Packets {
		if wi[0] < nw && wi[1] < len(c.Writers[wi[0]]) {
			failPkt[[2]int64{int64(wi[0]), int64(c.Writers[wi[0]][wi[1]].Seq)}] = true
		}
	}
	next := func(w int) interceptor.RTPWriter {
		return interceptor.RTPWriterFunc(func(h *rtp.Header, p []byte, _ interceptor.Attributes) (int, error) {
			if finished.Load() { // the case is over: a pacer still calling (a loop that cannot stop) is slowed down to a crawl
				time.Sleep(20 * time.Millisecond)

				return 0, planErr(c.Plan.ErrKind)
			}
			mu.Lock()
			defer mu.Unlock()
			if len(calls) >= limit { // far more calls than packets: enough is recorded, do not let a spinning loop eat the machine
				time.Sleep(time.Millisecond)

				return 0, planErr(c.Plan.ErrKind)
			}
			idx := len(calls)
			key := [2]int64{int64(w), int64(h.SequenceNumber)}
			seen[key]++
			bad := failCall[idx] || failStream[w] || (idx >= c.Plan.From && idx < c.Plan.To)
			if failPkt[key] && (c.Plan.Times < 0 || seen[key] <= c.Plan.Times) {
				bad = true
			}
			calls = append(calls, fcall{P: toPk(int64(w), h, p), Failed: bad})
			last = time.Now()
			if bad {
				if c.Plan.RetN == 1 {
					return h.MarshalSize() + len(p), planErr(c.Plan.ErrKind)
				}

				return 0, planErr(c.Plan.ErrKind)
			}

			return h.MarshalSize() + len(p), nil
		})
	}
	ws := make([]interceptor.RTPWriter, nw)
	var closer func() error
	switch c.Kind {
	case "pacing":
		f := pacing.NewInterceptor(pacing.InitialRate(c.Rate), pacing.Interval(time.Millisecond))
		ic, err := f.NewInterceptor("f")
		if err != nil {
			panic(err)
		}
		for w := 0; w < nw; w++ {
			ws[w] = ic.BindLocalStream(&interceptor.StreamInfo{SSRC: uint32(1000 + w)}, next(w)) //nolint:gosec
		}
		closer = ic.Close
		c.Burst = int64(pacing.VerifBurst(c.Rate, time.Millisecond))
	default:
		closer, _ = leakyStreams("", c.Rate, c.Infos, ws, next)
		c.Burst = 0
	}
	c.Acc = make([][]pk, nw)
	c.Order, c.NRej = nil, 0
	var amu sync.Mutex
	total := 0
	send := func(w int) {
		for _, s := range c.Writers[w] {
			h, p := build(w, infoSSRC(c.Infos, w), s)
			want := toPk(int64(w), h, p)
			n, err := ws[w].Write(h, p, interceptor.Attributes{})
			amu.Lock()
			if err == nil && n == h.MarshalSize()+len(p) {
				c.Acc[w] = append(c.Acc[w], want)
				if !c.Conc {
					c.Order = append(c.Order, want)
				}
				total++
			} else {
				c.NRej++
			}
			amu.Unlock()
			for k := range p { // the caller reuses its buffers
				p[k] = 0xEE
			}
			h.SequenceNumber, h.Timestamp = 0xDEAD, 0xDEADBEEF
			if c.GapUS > 0 {
				time.Sleep(time.Duration(c.GapUS) * time.Microsecond)
			}
		}
	}
	if c.Conc {
		var wg sync.WaitGroup
		for w := 0; w < nw; w++ {
			wg.Add(1)
			go func(w int) { defer wg.Done(); send(w) }(w)
		}
		wg.Wait()
	} else {
		for w := 0; w < nw; w++ {
			send(w)
		}
	}
	// wait until as many calls as accepted packets were seen (or 2.5 s of silence), then four more pacing intervals of
	// the slower pacer: a packet handed over again shows up now
	start := time.Now()
	for {
		mu.Lock()
		n, l := len(calls), last
		mu.Unlock()
		if n >= total {
			time.Sleep(30 * time.Millisecond)

			break
		}
		if l.IsZero() {
			l = start
		}
		if time.Since(l) > 2500*time.Millisecond || time.Since(start) > 15*time.Second {
			break
		}
		time.Sleep(2 * time.Millisecond)
	}
	done := make(chan struct{})
	go func() { _ = closer(); close(done) }()
	select {
	case <-done:
	case <-time.After(3 * time.Second):
		*fails = append(*fails, cq.ImplFailure{Kind: "close-blocks", Detail: "Close did not return (failing next writers)", Case: c})
	}
	finished.Store(true)
	mu.Lock()
	c.Calls = append([]fcall{}, calls...)
	mu.Unlock()
	c.NCalls, c.NAcc, c.NFailed = len(c.Calls), total, 0
	for _, x := range c.Calls {
		if x.Failed {
			c.NFailed++
		}
	}

	return c
}

func (c failCase) toCase(b ...string) cq.Case {
	kind := int64(1)
	if c.Kind == "pacing" {
		kind = 0
	}
	ord := make([]string, len(c.Order))
	for i, p := range c.Order {
		ord[i] = coqPk(p)
	}
	ws := make([]string, len(c.Acc))
	for i, a := range c.Acc {
		ps := make([]string, len(a))
		for j, p := range a {
			ps[j] = coqPk(p)
		}
		ws[i] = cq.L(ps)
	}
	cs := make([]string, len(c.Calls))
	for i, x := range c.Calls {
		r := int64(0)
		if x.Failed {
			r = 1
		}
		cs[i] = cq.T(coqPk(x.P), cq.Z(r))
	}
	if c.NFailed > 0 {
		b = append(b, "next-writer-error-seen")
		if c.Calls[len(c.Calls)-1].Failed {
			b = append(b, "error-on-last-hand-off")
		}
		if c.Calls[0].Failed {
			b = append(b, "error-on-first-hand-off")
		}
		if c.NFailed == len(c.Calls) {
			b = append(b, "every-hand-off-fails")
		}
		for i := 0; i+1 < len(c.Calls); i++ {
			if c.Calls[i].Failed && !c.Calls[i+1].Failed {
				b = append(b, "healthy-hand-off-after-error")

				break
			}
		}
	} else {
		b = append(b, "no-error-happened")
	}

	return cq.Case{
		Coq:  cq.T(cq.Z(kind), cq.Z(c.Burst), cq.Z(c.NRej), cq.L(ord), cq.L(ws), cq.L(cs)),
		JSON: c, Buckets: b, Trivial: c.NAcc < 2 || c.NFailed == 0,
	}
}

func genFail(r *rand.Rand, kind string, i int) (failCase, []string) { //nolint:cyclop
	c := failCase{Kind: kind}
	bk := map[string]bool{}
	switch r.Intn(4) {
	case 0:
		c.Rate = 1_000_000 // pacing: burst = one 1500-byte packet, a backlog forms; leaky: 625 bytes per 5 ms tick
		bk["rate-default"] = true
	case 1:
		c.Rate = 20_000_000 + r.Intn(80_000_000)
		bk["rate-high"] = true
	default:
		c.Rate = 3_000_000 + r.Intn(10_000_000)
		bk["rate-mid"] = true
	}
	nw := 1
	switch i % 3 {
	case 1:
		nw = 2 + r.Intn(3)
		bk["multi-stream"] = true
	case 2:
		nw = 2 + r.Intn(3)
		c.Conc = true
		bk["concurrent-writers"] = true
	default:
		bk["single-writer"] = true
	}
	c.GapUS = []int{0, 0, 0, 50, 600}[r.Intn(5)]
	total := 0
	for w := 0; w < nw; w++ {
		sp := genSpecs(r, 3+r.Intn(10), false)
		for k := range sp {
			if sp[k].PayLen > 1400 { // nothing reaches the burst of the pacing interceptor: no head-of-line finding here
				sp[k].PayLen = 1400
			}
		}
		c.Writers = append(c.Writers, sp)
		total += len(sp)
	}
	c.Plan.RetN = r.Intn(2)
	c.Plan.ErrKind = r.Intn(4)
	switch i % 5 {
	case 0: // single hand-offs fail (a transient failure in the middle of a run, at its start, at its end)
		bk["plan:single-hand-offs"] = true
		n := 1 + r.Intn(3)
		set := map[int]bool{}
		for k := 0; k < n; k++ {
			set[r.Intn(total)] = true
		}
		switch r.Intn(4) {
		case 0:
			set[0] = true
		case 1:
			set[total-1] = true
		}
		for k := range set {
			c.Plan.Calls = append(c.Plan.Calls, k)
		}
		sort.Ints(c.Plan.Calls)
	case 1: // a packet fails the first time(s) its next writer sees it
		bk["plan:packet-first-times"] = true
		c.Plan.Times = 1 + r.Intn(2)
		for k := 0; k < 1+r.Intn(3); k++ {
			w := r.Intn(nw)
			c.Plan.Packets = append(c.Plan.Packets, [2]int{w, r.Intn(len(c.Writers[w]))})
		}
	case 2: // a packet fails every time it is seen (a pacer that tries again never gets past it)
		bk["plan:packet-always"] = true
		c.Plan.Times = -1
		w := r.Intn(nw)
		c.Plan.Packets = append(c.Plan.Packets, [2]int{w, r.Intn(len(c.Writers[w]))})
	case 3: // the next writer of one stream (of all streams) is broken for good; the other streams are healthy
		bk["plan:stream-broken"] = true
		if nw == 1 || r.Intn(6) == 0 {
			for w := 0; w < nw; w++ {
				c.Plan.Streams = append(c.Plan.Streams, w)
			}
			bk["all-streams-broken"] = true
		} else {
			c.Plan.Streams = []int{r.Intn(nw)}
		}
	default: // an outage: a stretch of consecutive hand-offs fails, then the writers recover
		bk["plan:outage"] = true
		c.Plan.From = r.Intn(total)
		c.Plan.To = c.Plan.From + 1 + r.Intn(total-c.Plan.From)
	}
	b := make([]string, 0, len(bk))
	for k := range bk {
		b = append(b, k)
	}
	sort.Strings(b)

	return c, b
}
