// Generator for C14: FlexFEC-03 encoder (flexfec.NewFlexEncoder03 / EncodeFec) and the FEC
// encoder interceptor.  Media packets are built as rtp.Packet values, marshalled by pion/rtp
// (trusted) and handed to Coq as byte lists; the implementation's repair packets are recorded
// field by field.
package main

import (
	"errors"
	"fmt"
	"math/rand"
	"sort"

	"github.com/pion/interceptor"
	"github.com/pion/interceptor/pkg/flexfec"
	"github.com/pion/rtp"

	"verifharness/internal/cq"
)

// ---- cases ----

type batchIn struct {
	Media [][]byte `json:"media"`           // media packets as they go on the wire
	Flags []int    `json:"flags,omitempty"` // per packet how it is handed over (see parse); absent = all 0
	N     uint32   `json:"n"`               // numFecPackets
}

// hand-over flags of a media packet
const (
	flagPlain      = 0    // the rtp.Packet pion/rtp unmarshals from the bytes
	flagInPayload  = 1    // Header.Padding set, PaddingSize 0, padding bytes at the end of the payload (older pion/rtp convention)
	flagDeprecated = 2    // padding count in the deprecated Packet.PaddingSize field (direct EncodeFec only)
	flagNoPBit     = 1000 // 1000 + c: Header.PaddingSize c without Header.Padding (c trailing zero bytes, no P bit)
)

func flagsOf(fl []int, n int) []int {
	out := make([]int, n)
	copy(out, fl)

	return out
}

type repObs struct {
	Plain   bool   `json:"plain"`
	PT      uint8  `json:"pt"`
	SN      uint16 `json:"sn"`
	TS      uint32 `json:"ts"`
	SSRC    uint32 `json:"ssrc"`
	Payload []byte `json:"payload"`
}

type batchObs struct {
	Kind int      `json:"kind"` // 0 nil, 1 packets, 2 panic
	Reps []repObs `json:"reps"`
}

type encCase struct {
	PT      uint8      `json:"pt"`
	SSRC    uint32     `json:"ssrc"`
	Batches []batchIn  `json:"batches"`
	Obs     []batchObs `json:"obs,omitempty"`
}

type icptCase struct {
	NM        uint32     `json:"nm"`
	NF        uint32     `json:"nf"`
	PT        uint8      `json:"pt"`
	FecSSRC   uint32     `json:"fec_ssrc"`
	MediaSSRC uint32     `json:"media_ssrc"`
	Writes    [][]byte   `json:"writes"`
	Flags     []int      `json:"flags,omitempty"`
	Reuse     int        `json:"reuse,omitempty"` // what the caller does with its header / payload memory (see caller)
	Kinds     []int      `json:"kinds,omitempty"`
	Outs      [][][]byte `json:"outs,omitempty"`
	// failing next writer (sets c14wfail*): per Write, the calls of the next writer (counted from 0 within that
	// Write: 0 = the media packet, 1.. = the repair packets) that return an error.  With a schedule, Outs holds
	// every call MADE to the next writer (failed ones included) and RetErr / RetIs what the Write returned.
	Fail   [][]int `json:"fail,omitempty"`
	RetErr []int   `json:"ret_err,omitempty"` // per Write: 1 iff the returned error is non-nil
	RetIs  [][]int `json:"ret_is,omitempty"`  // per Write: the failed calls whose error errors.Is finds in the returned error
}

// wireOf is the byte string a (header, payload) pair has on the wire: pion/rtp's Marshal, and for the
// older convention (Padding set, no PaddingSize, padding inside the payload), which Packet.Marshal
// rejects, the marshalled header followed by the payload (what pion/srtp and internal/rtpbuffer do).
func wireOf(h *rtp.Header, payload []byte, deprecatedPad byte) ([]byte, error) {
	if h.Padding && h.PaddingSize == 0 && deprecatedPad == 0 {
		hb, err := h.Marshal()
		if err != nil {
			return nil, err
		}

		return append(hb, payload...), nil
	}
	p := rtp.Packet{Header: *h, Payload: payload, PaddingSize: deprecatedPad} //nolint:staticcheck

	return p.Marshal()
}

// parse rebuilds the rtp.Packet the implementation is given from its wire form and the hand-over flag
// and checks that the wire form of that packet is the same bytes (the bytes Coq sees).
func parse(b []byte, flag int) rtp.Packet {
	var p rtp.Packet
	parseInto(&p, append([]byte(nil), b...), b, flag)

	return p
}

// parseInto does the work of parse on a packet value and a buffer the caller chose (buf holds a copy of
// b): pion/rtp's Unmarshal re-uses the CSRC and Extensions arrays of *p and makes the payload and every
// extension payload a sub-slice of buf.
func parseInto(p *rtp.Packet, buf, b []byte, flag int) {
	switch {
	case flag == flagInPayload:
		n, err := p.Header.Unmarshal(buf)
		if err != nil || !p.Header.Padding {
			panic(fmt.Sprintf("harness: flag 1 packet: header does not unmarshal / no P bit: %v", err))
		}
		p.Payload = buf[n:]
		p.Header.PaddingSize = 0
		p.PaddingSize = 0 //nolint:staticcheck
	case flag >= flagNoPBit:
		c := flag - flagNoPBit
		if err := p.Unmarshal(buf); err != nil || p.Header.Padding || len(p.Payload) < c {
			panic(fmt.Sprintf("harness: flag 1000+c packet does not unmarshal: %v", err))
		}
		p.Payload = p.Payload[:len(p.Payload)-c]
		p.Header.PaddingSize = byte(c)
		p.PaddingSize = 0 //nolint:staticcheck
	default:
		if err := p.Unmarshal(buf); err != nil {
			panic(fmt.Sprintf("harness: generated packet does not unmarshal: %v", err))
		}
		if flag == flagDeprecated {
			p.PaddingSize = p.Header.PaddingSize //nolint:staticcheck
			p.Header.PaddingSize = 0
		} else {
			p.PaddingSize = 0 //nolint:staticcheck
		}
	}
	m, err := wireOf(&p.Header, p.Payload, p.PaddingSize) //nolint:staticcheck
	if err != nil || string(m) != string(b) {
		panic(fmt.Sprintf("harness: wire form of the rebuilt packet differs (flag %d): %v\n%x\n%x", flag, err, b, m))
	}
}

func obsOf(p rtp.Packet) repObs {
	h := p.Header
	plain := h.Version == 2 && !h.Padding && !h.Extension && !h.Marker && len(h.CSRC) == 0 &&
		len(h.Extensions) == 0 && h.PaddingSize == 0 && p.PaddingSize == 0 //nolint:staticcheck

	return repObs{
		Plain: plain, PT: h.PayloadType, SN: h.SequenceNumber, TS: h.Timestamp, SSRC: h.SSRC,
		Payload: append([]byte(nil), p.Payload...),
	}
}

func encodeOnce(enc *flexfec.FlexEncoder03, media []rtp.Packet, n uint32) (o batchObs) {
	defer func() {
		if r := recover(); r != nil {
			o = batchObs{Kind: 2}
		}
	}()
	out := enc.EncodeFec(media, n)
	if out == nil {
		return batchObs{Kind: 0}
	}
	o.Kind = 1
	for _, p := range out {
		o.Reps = append(o.Reps, obsOf(p))
	}

	return o
}

func runEnc(c encCase) encCase {
	enc := flexfec.NewFlexEncoder03(c.PT, c.SSRC)
	c.Obs = nil
	for _, b := range c.Batches {
		media := make([]rtp.Packet, len(b.Media))
		fl := flagsOf(b.Flags, len(b.Media))
		for i, m := range b.Media {
			media[i] = parse(m, fl[i])
		}
		o := encodeOnce(enc, media, b.N)
		c.Obs = append(c.Obs, o)
		if o.Kind == 2 {
			break
		}
	}
	c.Batches = c.Batches[:len(c.Obs)]

	return c
}

func bytesList(bs [][]byte) string {
	s := make([]string, len(bs))
	for i, b := range bs {
		s[i] = cq.Bytes(b)
	}

	return cq.L(s)
}

func intList(xs []int) string {
	s := make([]string, len(xs))
	for i, x := range xs {
		s[i] = cq.Z(int64(x))
	}

	return cq.L(s)
}

func b2z(b bool) string {
	if b {
		return "1"
	}

	return "0"
}

func (c encCase) toCase(buckets ...string) cq.Case {
	bs := make([]string, len(c.Batches))
	triv := true
	for i, b := range c.Batches {
		reps := make([]string, len(c.Obs[i].Reps))
		for j, r := range c.Obs[i].Reps {
			reps[j] = cq.T(b2z(r.Plain), cq.ZU(uint64(r.PT)), cq.ZU(uint64(r.SN)), cq.ZU(uint64(r.TS)),
				cq.ZU(uint64(r.SSRC)), cq.Bytes(r.Payload))
		}
		if len(reps) > 0 {
			triv = false
		}
		bs[i] = cq.T(bytesList(b.Media), intList(flagsOf(b.Flags, len(b.Media))), cq.ZU(uint64(b.N)),
			cq.T(cq.Z(int64(c.Obs[i].Kind)), cq.L(reps)))
	}

	return cq.Case{
		Coq:  cq.T(cq.ZU(uint64(c.PT)), cq.ZU(uint64(c.SSRC)), cq.L(bs)),
		JSON: c, Buckets: buckets, Trivial: triv,
	}
}

// recWriter is the next writer of the chain: it records every packet it is handed (also when it then
// fails) and returns the scheduled error for the calls named in fail.
type recWriter struct {
	got   [][]byte
	calls int           // calls since the current Write of the interceptor started
	fail  map[int]error // call -> the (distinct) error it returns
}

func (w *recWriter) Write(h *rtp.Header, payload []byte, _ interceptor.Attributes) (int, error) {
	hc := h.Clone()
	m, err := wireOf(&hc, payload, 0)
	if err != nil {
		panic(fmt.Sprintf("harness: packet reaching the writer does not marshal: %v", err))
	}
	w.got = append(w.got, m)
	j := w.calls
	w.calls++
	if e := w.fail[j]; e != nil {
		return 0, e
	}

	return len(m), nil
}

// What the caller of the interceptor's writer does with the memory behind (header, payload).  The writer
// contract (and the comment in BindLocalStream) is that all of it may be re-used as soon as Write
// returns; the property speaks about the bytes that went on the wire, so every mode has the same
// expected output.
const (
	reuseNone      = 0 // a fresh header, fresh CSRC / extension / payload memory for every Write (never touched again)
	reuseUnmarshal = 1 // a forwarder: ONE rtp.Packet and ONE read buffer, packet.Unmarshal(buf) for every packet
	//                    (pion/rtp re-uses the CSRC and Extensions arrays; payload and extension payloads alias buf)
	reuseInPlace = 2 // a sender: ONE rtp.Header updated in place (CSRC values written into the same array,
	//                  extensions replaced in the same array with SetExtension), ONE payload buffer
)

type caller struct {
	mode    int
	pkt     rtp.Packet // modes 1, 2: the one packet / header value the caller keeps
	buf     []byte     // mode 1: the read buffer
	payload []byte     // mode 2: the payload buffer
}

func newCaller(mode int) *caller {
	return &caller{mode: mode, buf: make([]byte, 0, 4096), payload: make([]byte, 0, 2048)}
}

// next prepares (header, payload) for the packet with wire form b and hand-over flag fl.
func (c *caller) next(b []byte, fl int) (*rtp.Header, []byte) {
	switch c.mode {
	case reuseUnmarshal:
		c.buf = append(c.buf[:0], b...)
		parseInto(&c.pkt, c.buf, b, fl)

		return &c.pkt.Header, c.pkt.Payload
	case reuseInPlace:
		p := parse(b, fl)
		csrc, exts := c.pkt.Header.CSRC[:0], c.pkt.Header.Extensions[:0]
		c.pkt.Header = p.Header // the scalar fields
		if len(p.Header.CSRC) > 0 || csrc != nil {
			c.pkt.Header.CSRC = append(csrc, p.Header.CSRC...) // same array whenever it is large enough
		}
		c.pkt.Header.Extensions = exts // the same array, refilled
		for _, id := range p.Header.GetExtensionIDs() {
			if err := c.pkt.Header.SetExtension(id, p.Header.GetExtension(id)); err != nil {
				c.pkt.Header.Extensions = p.Header.Extensions // a shape SetExtension refuses: as unmarshalled

				break
			}
		}
		c.payload = append(c.payload[:0], p.Payload...)
		m, err := wireOf(&c.pkt.Header, c.payload, 0)
		if err != nil || string(m) != string(b) {
			panic(fmt.Sprintf("harness: wire form of the re-used header differs (flag %d): %v\n%x\n%x", fl, err, b, m))
		}

		return &c.pkt.Header, c.payload
	default:
		p := parse(b, fl)
		hdr := p.Header

		return &hdr, p.Payload
	}
}

// after runs when Write has returned: the caller overwrites everything it owns (what a later packet
// would do anyway, made independent of what the later packet happens to contain).
func (c *caller) after() {
	if c.mode == reuseNone {
		return
	}
	h := &c.pkt.Header
	for i := range h.CSRC {
		h.CSRC[i] ^= 0xA5A5A5A5
	}
	for i := range c.buf {
		c.buf[i] ^= 0x5A
	}
	for i := range c.payload {
		c.payload[i] ^= 0x5A
	}
	if c.mode == reuseInPlace {
		for _, id := range h.GetExtensionIDs() {
			old := h.GetExtension(id)
			repl := make([]byte, len(old))
			for i := range old {
				repl[i] = old[i] ^ 0x5A
			}
			_ = h.SetExtension(id, repl) // replaces the slice stored in the (re-used) Extensions array
		}
	}
}

func runIcpt(c icptCase) icptCase {
	f, err := flexfec.NewFecInterceptor(flexfec.NumMediaPackets(c.NM), flexfec.NumFECPackets(c.NF))
	if err != nil {
		panic(err)
	}
	ic, err := f.NewInterceptor("")
	if err != nil {
		panic(err)
	}
	w := &recWriter{}
	wr := ic.BindLocalStream(&interceptor.StreamInfo{
		SSRC: c.MediaSSRC, PayloadTypeForwardErrorCorrection: c.PT, SSRCForwardErrorCorrection: c.FecSSRC,
	}, w)
	c.Kinds, c.Outs, c.RetErr, c.RetIs = nil, nil, nil, nil
	fl := flagsOf(c.Flags, len(c.Writes))
	cl := newCaller(c.Reuse)
	for i, b := range c.Writes {
		hdr, payload := cl.next(b, fl[i])
		w.got, w.calls, w.fail = nil, 0, nil
		if c.Fail != nil {
			w.fail = map[int]error{}
			for _, j := range c.Fail[i] {
				w.fail[j] = fmt.Errorf("next writer: call %d of write %d fails", j, i) //nolint:err113
			}
		}
		var ret error
		kind := func() (k int) {
			defer func() {
				if r := recover(); r != nil {
					k = 2
				}
			}()
			_, ret = wr.Write(hdr, payload, nil)
			if ret != nil && c.Fail == nil {
				panic(ret) // the next writer never fails in these cases
			}

			return 1
		}()
		cl.after()
		c.Kinds = append(c.Kinds, kind)
		c.Outs = append(c.Outs, w.got)
		if c.Fail != nil {
			is := []int{}
			for j, e := range w.fail {
				if kind == 1 && errors.Is(ret, e) {
					is = append(is, j)
				}
			}
			sort.Ints(is)
			c.RetIs = append(c.RetIs, is)
			if kind == 1 && ret != nil {
				c.RetErr = append(c.RetErr, 1)
			} else {
				c.RetErr = append(c.RetErr, 0)
			}
		}
		if kind == 2 {
			break
		}
	}

	return c
}

func be32(x uint32) []byte { return []byte{byte(x >> 24), byte(x >> 16), byte(x >> 8), byte(x)} }

func (c icptCase) coq() (string, bool) {
	outs := make([]string, len(c.Kinds))
	triv := true
	for i := range c.Kinds {
		if len(c.Outs[i]) > 1 {
			triv = false
		}
		outs[i] = cq.T(cq.Z(int64(c.Kinds[i])), bytesList(c.Outs[i]))
	}

	return cq.T(cq.T(cq.ZU(uint64(c.NM)), cq.ZU(uint64(c.NF)), cq.ZU(uint64(c.PT)), cq.ZU(uint64(c.FecSSRC)),
		cq.Bytes(be32(c.MediaSSRC))), bytesList(c.Writes), intList(flagsOf(c.Flags, len(c.Writes))), cq.L(outs)), triv
}

func (c icptCase) toCase(buckets ...string) cq.Case {
	t, triv := c.coq()

	return cq.Case{Coq: t, JSON: c, Buckets: buckets, Trivial: triv}
}

// toFailCase: the interceptor case, the failure schedule of the next writer, what each Write returned.
// Non-trivial = a repair packet was handed on and a call that was made failed.
func (c icptCase) toFailCase(buckets ...string) cq.Case {
	t, triv := c.coq()
	fails := make([]string, len(c.Writes))
	for i := range c.Writes {
		fails[i] = intList(c.Fail[i])
	}
	rets := make([]string, len(c.Kinds))
	failed := false
	for i := range c.Kinds {
		rets[i] = cq.T(cq.Z(int64(c.RetErr[i])), intList(c.RetIs[i]))
		for _, j := range c.Fail[i] {
			if j < len(c.Outs[i]) {
				failed = true
				if j == 0 && len(c.Outs[i]) > 1 {
					buckets = append(buckets, "media-write-fails-on-batch-completing-packet")
				}
				if j > 0 {
					buckets = append(buckets, "repair-write-fails")
				}
			}
		}
	}

	return cq.Case{Coq: cq.T(t, cq.L(fails), cq.L(rets)), JSON: c, Buckets: dedup(buckets), Trivial: triv || !failed}
}

func dedup(xs []string) []string {
	seen := map[string]bool{}
	out := xs[:0:0]
	for _, x := range xs {
		if !seen[x] {
			seen[x] = true
			out = append(out, x)
		}
	}

	return out
}

// ---- generation ----

type shape struct {
	maxPayload int  // typical payload bound
	big        bool // allow 1200 / 1500 byte payloads
	direct     bool // packets are handed to EncodeFec as rtp.Packet values (the deprecated field is expressible)
	inPayload  bool // some padded packets carry their padding inside the payload (chosen per case, 1 in 6)
	rich       bool // CSRCs / header extensions on every second packet instead of every fourth
}

func genPayloadLen(r *rand.Rand, s shape) int {
	switch x := r.Intn(40); {
	case x < 3 && s.big:
		return 1500
	case x < 5 && s.big:
		return 1200
	case x < 6:
		return 0
	case x < 9:
		return 1
	default:
		return r.Intn(s.maxPayload + 1)
	}
}

// genPacket builds one media packet: CSRCs, one-/two-byte extensions, padding, marker, any PT,
// occasionally a version other than 2.
func genPacket(r *rand.Rand, ssrc uint32, sn uint16, s shape, buckets map[string]bool) ([]byte, int) {
	p := rtp.Packet{}
	p.Version = 2
	if r.Intn(25) == 0 {
		p.Version = uint8(r.Intn(4))
		buckets["version-not-2"] = true
	}
	p.Marker = r.Intn(3) == 0
	p.PayloadType = uint8(r.Intn(128))
	p.SequenceNumber = sn
	p.Timestamp = r.Uint32()
	if r.Intn(8) == 0 {
		p.Timestamp = []uint32{0, 0xFFFFFFFF, 0x80000000}[r.Intn(3)]
	}
	p.SSRC = ssrc
	csrcDen, extDen := 4, 8
	if s.rich {
		csrcDen, extDen = 2, 4
	}
	if r.Intn(csrcDen) == 0 {
		n := 1 + r.Intn(3)
		if r.Intn(10) == 0 {
			n = 15
		}
		for i := 0; i < n; i++ {
			p.CSRC = append(p.CSRC, r.Uint32())
		}
		buckets["csrc"] = true
	}
	switch r.Intn(extDen) {
	case 0:
		for i, n := 0, 1+r.Intn(2); i < n; i++ {
			pl := make([]byte, 1+r.Intn(6))
			r.Read(pl)
			_ = p.SetExtension(uint8(1+r.Intn(14)), pl)
		}
		buckets["ext-one-byte"] = true
	case 1:
		p.Extension = true
		p.ExtensionProfile = 0x1000
		for i, n := 0, 1+r.Intn(2); i < n; i++ {
			pl := make([]byte, r.Intn(20))
			r.Read(pl)
			_ = p.SetExtension(uint8(1+r.Intn(255)), pl)
		}
		buckets["ext-two-byte"] = true
	}
	p.Payload = make([]byte, genPayloadLen(r, s))
	r.Read(p.Payload)
	flag := flagPlain
	if r.Intn(5) == 0 {
		c := 1 + r.Intn(12)
		if r.Intn(12) == 0 {
			c = 255
		}
		switch x := r.Intn(10); {
		case x < 4 && s.inPayload: // older convention: P bit, the padding bytes are the end of the payload
			p.Padding = true
			flag = flagInPayload
			buckets["padding-in-payload"] = true
			switch r.Intn(10) {
			case 0: // no padding bytes at all
				buckets["padding-in-payload-invalid"] = true
			case 1: // a zero count: not a valid RTP packet, still sent (and to be protected) byte for byte
				p.Payload = append(p.Payload, make([]byte, c)...)
				buckets["padding-in-payload-invalid"] = true
			default:
				pad := make([]byte, c)
				pad[c-1] = byte(c)
				p.Payload = append(p.Payload, pad...)
			}
		case x == 4 && s.direct:
			p.Padding = true
			p.PaddingSize = byte(c) //nolint:staticcheck
			flag = flagDeprecated
			buckets["padding-deprecated-field"] = true
		case x == 5:
			p.Header.PaddingSize = byte(c)
			flag = flagNoPBit + c
			buckets["paddingsize-without-P-bit"] = true
		default:
			p.Padding = true
			p.Header.PaddingSize = byte(c)
			buckets["padding"] = true
		}
	}
	m, err := wireOf(&p.Header, p.Payload, p.PaddingSize) //nolint:staticcheck
	if err != nil {
		panic(err)
	}

	return m, flag
}

var baseSNs = []uint16{0, 1, 65535, 65534, 32767, 32768, 1000} //nolint:gochecknoglobals

func pickSN(r *rand.Rand, k int, buckets map[string]bool) uint16 {
	switch r.Intn(4) {
	case 0: // the batch crosses 65535 -> 0
		buckets["sn-wrap-inside"] = true

		return uint16(65536 - 1 - r.Intn(k)) //nolint:gosec
	case 1:
		return baseSNs[r.Intn(len(baseSNs))]
	default:
		return uint16(r.Intn(65536)) //nolint:gosec
	}
}

func pickN(r *rand.Rand, k int, buckets map[string]bool) uint32 {
	var n int
	switch r.Intn(12) {
	case 0:
		n = 0
		buckets["n=0"] = true
	case 1:
		n = k
		buckets["n=k"] = true
	case 2:
		n = k + 1
		buckets["n=k+1"] = true
	case 3:
		n = k - 1
		buckets["n=k-1"] = true
	case 4:
		n = 110
		buckets["n=110"] = true
	case 5:
		n = 1
		buckets["n=1"] = true
	default:
		n = 1 + r.Intn(minInt(k, 6)+1)
	}
	if n < 0 {
		n = 0
	}

	return uint32(n) //nolint:gosec
}

func minInt(a, b int) int {
	if a < b {
		return a
	}

	return b
}

func kBucket(k int) string {
	switch {
	case k <= 15:
		return "k<=15"
	case k <= 46:
		return "k16..46"
	case k <= 108:
		return "k47..108"
	default:
		return fmt.Sprintf("k=%d", k)
	}
}

func genBatch(r *rand.Rand, ssrc uint32, sn uint16, k int, s shape, buckets map[string]bool) ([][]byte, []int) {
	media := make([][]byte, k)
	flags := make([]int, k)
	for i := range media {
		media[i], flags[i] = genPacket(r, ssrc, sn+uint16(i), s, buckets) //nolint:gosec
	}
	buckets[kBucket(k)] = true

	return media, flags
}

func keys(m map[string]bool) []string {
	out := make([]string, 0, len(m))
	for k := range m {
		out = append(out, k)
	}

	return out
}

var boundaryK = []int{15, 16, 45, 46, 47, 63, 64, 65, 108, 109, 110, 111} //nolint:gochecknoglobals

// genEnc: a history of 1..5 EncodeFec calls through one encoder.
func genEnc(r *rand.Rand, boundary, big bool) (encCase, []string) {
	b := map[string]bool{}
	c := encCase{PT: uint8(r.Intn(128)), SSRC: r.Uint32()}
	if r.Intn(10) == 0 {
		c.PT = uint8(128 + r.Intn(128))
		b["fec-pt>=128"] = true
	}
	mssrc := r.Uint32()
	nb := 3 + r.Intn(2)
	s := shape{maxPayload: 48, big: big, direct: true}
	if big {
		nb = 2
	}
	if boundary {
		nb = 1 + r.Intn(2)
		s = shape{maxPayload: 12, direct: true}
		b["boundary"] = true
	}
	s.inPayload = r.Intn(6) == 0
	k := 1 + r.Intn(12)
	if r.Intn(4) == 0 {
		k = 1 + r.Intn(30)
	}
	if s.big {
		k = 1 + r.Intn(4)
		b["payload-1200/1500"] = true
	}
	if boundary {
		k = boundaryK[r.Intn(len(boundaryK))]
	}
	n := pickN(r, k, b)
	sn := pickSN(r, k, b)
	for i := 0; i < nb; i++ {
		switch x := r.Intn(10); {
		case x < 4 && i > 0: // same shape again: coverage reuse
			b["same-shape-again"] = true
		case x < 7 && i > 0:
			if big {
				k = 1 + r.Intn(4)
			} else if !boundary {
				k = 1 + r.Intn(14)
			} else {
				k = boundaryK[r.Intn(len(boundaryK))]
			}
			n = pickN(r, k, b)
			b["shape-change"] = true
		case x == 7 && i > 0:
			n = pickN(r, k, b)
			b["n-change"] = true
		}
		media, flags := genBatch(r, mssrc, sn, k, s, b)
		switch r.Intn(30) {
		case 0: // a gap: must be declined
			if k >= 2 {
				j := 1 + r.Intn(k-1)
				media[j], flags[j] = genPacket(r, mssrc, sn+uint16(j)+1+uint16(r.Intn(3)), s, b) //nolint:gosec
				b["gap"] = true
			}
		case 1: // out of order
			if k >= 2 {
				j := r.Intn(k - 1)
				media[j], media[j+1] = media[j+1], media[j]
				flags[j], flags[j+1] = flags[j+1], flags[j]
				b["swapped"] = true
			}
		case 2:
			media, flags = nil, nil
			b["empty"] = true
		}
		c.Batches = append(c.Batches, batchIn{Media: media, Flags: flags, N: n})
		if r.Intn(3) != 0 {
			sn += uint16(k) //nolint:gosec
		} else {
			sn = pickSN(r, k, b)
		}
	}
	if r.Intn(25) == 0 { // more FEC packets than the coverage table has rows, anywhere in the history
		c.Batches[r.Intn(len(c.Batches))].N = bigN(r)
		b["n>110"] = true
	}

	return c, keys(b)
}

// bigN: a FEC packet count above MaxFecPackets.  (Not 1<<32-1: a tree without the clamp allocates
// make([]rtp.Packet, 0, numFecPackets) first and dies with "fatal error: out of memory", which no
// recover() in this harness can turn into an observation.)
func bigN(r *rand.Rand) uint32 {
	return []uint32{111, 111, 112, 113, 200, 1000, 65536}[r.Intn(7)]
}

func genIcpt(r *rand.Rand, boundary bool) (icptCase, []string) {
	b := map[string]bool{}
	c := icptCase{PT: uint8(1 + r.Intn(127)), FecSSRC: 1 + r.Uint32()>>1, MediaSSRC: r.Uint32()}
	s := shape{maxPayload: 32, big: r.Intn(25) == 0, inPayload: r.Intn(6) == 0}
	nms := []int{1, 2, 3, 5, 5, 8, 10, 16}
	nm := nms[r.Intn(len(nms))]
	batches := 2 + r.Intn(3)
	if boundary {
		nm = []int{46, 47, 109, 110}[r.Intn(4)]
		batches = 1 + r.Intn(2)
		s = shape{maxPayload: 8, inPayload: s.inPayload}
		b["boundary"] = true
	}
	if r.Intn(40) == 0 {
		nm = 0
		b["nm=0"] = true
	}
	if r.Intn(2) == 0 { // the caller re-uses its header / payload memory between Writes
		c.Reuse = 1 + r.Intn(2)
		s.rich = true
		b[[]string{"", "caller-reuses-packet-and-read-buffer", "caller-reuses-header-in-place"}[c.Reuse]] = true
	}
	c.NM = uint32(nm) //nolint:gosec
	c.NF = pickN(r, nm, b)
	if r.Intn(3) == 0 {
		c.NF = 2
	}
	if r.Intn(25) == 0 {
		c.NF = bigN(r)
		b["n>110"] = true
	}
	b[kBucket(nm)] = true
	sn := pickSN(r, nm+1, b)
	total := nm*batches + r.Intn(nm+1)
	if nm == 0 {
		total = 5
	}
	for i := 0; i < total; i++ {
		if r.Intn(12) == 0 {
			w, fl := genPacket(r, c.MediaSSRC+1+uint32(r.Intn(3)), uint16(r.Intn(65536)), s, b) //nolint:gosec
			c.Writes, c.Flags = append(c.Writes, w), append(c.Flags, fl)
			b["other-ssrc"] = true
		}
		if r.Intn(60) == 0 {
			sn += uint16(1 + r.Intn(3)) //nolint:gosec
			b["gap"] = true
		}
		w, fl := genPacket(r, c.MediaSSRC, sn, s, b)
		c.Writes, c.Flags = append(c.Writes, w), append(c.Flags, fl)
		sn++
	}

	return c, keys(b)
}

// genIcptFail: an interceptor history (as genIcpt, small batches) over a next writer that fails: per Write a
// set of calls (0 = the media packet, 1.. = the repair packets) that return an error.
func genIcptFail(r *rand.Rand) (icptCase, []string) {
	c, bk := genIcpt(r, false)
	if r.Intn(3) != 0 && c.NM > 5 { // mostly short batches: many batch ends per history
		c2 := c
		for c2.NM > 5 || c2.NM == 0 {
			c2, bk = genIcpt(r, false)
		}
		c = c2
	}
	b := map[string]bool{}
	for _, k := range bk {
		b[k] = true
	}
	maxCalls := int(c.NF) + 1
	if maxCalls > int(c.NM)+1 {
		maxCalls = int(c.NM) + 1
	}
	if maxCalls > 7 {
		maxCalls = 7
	}
	dead := -1 // from this Write on every call fails (closed transport)
	if r.Intn(8) == 0 {
		dead = r.Intn(len(c.Writes) + 1)
		b["next-writer-dead-from-some-write"] = true
	}
	c.Fail = make([][]int, len(c.Writes))
	for i := range c.Writes {
		f := []int{}
		switch x := r.Intn(10); {
		case dead >= 0 && i >= dead:
			for j := 0; j < maxCalls; j++ {
				f = append(f, j)
			}
		case x < 3: // the media packet's write
			f = append(f, 0)
			b["media-write-scheduled-to-fail"] = true
		case x == 3 && maxCalls > 1: // one repair packet's write
			f = append(f, 1+r.Intn(maxCalls-1))
		case x == 4: // any subset
			for j := 0; j < maxCalls; j++ {
				if r.Intn(2) == 0 {
					f = append(f, j)
				}
			}
			b["several-writes-scheduled-to-fail"] = true
		case x == 5 && maxCalls > 1: // every repair packet's write
			for j := 1; j < maxCalls; j++ {
				f = append(f, j)
			}
		}
		c.Fail[i] = f
	}

	return c, keys(b)
}

func main() {
	o := cq.ParseFlags()
	r := o.Rand()
	mk := func(name, typ, pre string) *cq.Set {
		checks := []string{pre + "_mismatches", pre + "_spec_failures"}
		if pre == "enc" {
			checks = append(checks, "enc_scratch_mismatches")
		}

		return &cq.Set{Name: name, Import: "IV.Check.C14Check", CaseType: typ, Checks: checks}
	}
	// several sets only to keep the generated .v files small (parsing byte literals dominates the check)
	enc, encBig, encBnd := mk("c14enc", "enc_case", "enc"), mk("c14big", "enc_case", "enc"), mk("c14bnd", "enc_case", "enc")
	encs := []*cq.Set{enc, mk("c14enc2", "enc_case", "enc"), mk("c14enc3", "enc_case", "enc"), mk("c14enc4", "enc_case", "enc")}
	icpt, icptBnd := mk("c14icpt", "icpt_case", "icpt"), mk("c14icptbnd", "icpt_case", "icpt")
	icpts := []*cq.Set{icpt, mk("c14icpt2", "icpt_case", "icpt")}
	wfail := mk("c14wfail", "icptf_case", "icptf")
	long := &cq.Set{Name: "c14long", Import: "IV.Check.C14Check", CaseType: "long_case",
		Checks: []string{"long_mismatches", "long_spec_failures"}}
	all := append(append([]*cq.Set{}, encs...), encBig, encBnd, icpts[0], icpts[1], icptBnd, wfail, long)
	load := func(file, bucket string) {
		var probe map[string]interface{}
		if set := cq.LoadReplay(file, &probe); len(set) >= 8 && set[:8] == "c14wfail" {
			var c icptCase
			cq.LoadReplay(file, &c)
			if len(c.Fail) < len(c.Writes) { // a schedule shorter than the history: the remaining Writes do not fail
				c.Fail = append(c.Fail, make([][]int, len(c.Writes)-len(c.Fail))...)
			}
			wfail.Cases = append(wfail.Cases, runIcpt(c).toFailCase(bucket))
		} else if len(set) >= 7 && set[:7] == "c14long" {
			var c longCase
			cq.LoadReplay(file, &c)
			long.Cases = append(long.Cases, runLong(c).toCase(bucket))
		} else if len(set) >= 7 && set[:7] == "c14icpt" {
			var c icptCase
			cq.LoadReplay(file, &c)
			icpt.Cases = append(icpt.Cases, runIcpt(c).toCase(bucket))
		} else {
			var c encCase
			cq.LoadReplay(file, &c)
			enc.Cases = append(enc.Cases, runEnc(c).toCase(bucket))
		}
	}
	if o.Replay != "" {
		load(o.Replay, "replay")
		cq.Write(o, "replay", all, nil, nil)

		return
	}
	for _, f := range o.CorpusFiles() {
		load(f, "corpus")
	}
	ne := o.Scale(480, 8000)
	for i := 0; i < ne; i++ {
		c, b := genEnc(r, false, false)
		encs[i%4].Cases = append(encs[i%4].Cases, runEnc(c).toCase(b...))
	}
	ng := o.Scale(40, 600)
	for i := 0; i < ng; i++ {
		c, b := genEnc(r, false, true)
		encBig.Cases = append(encBig.Cases, runEnc(c).toCase(b...))
	}
	nb := o.Scale(44, 600)
	for i := 0; i < nb; i++ {
		c, b := genEnc(r, true, false)
		encBnd.Cases = append(encBnd.Cases, runEnc(c).toCase(b...))
	}
	ni := o.Scale(200, 2400)
	for i := 0; i < ni; i++ {
		c, b := genIcpt(r, false)
		icpts[i%2].Cases = append(icpts[i%2].Cases, runIcpt(c).toCase(b...))
	}
	nib := o.Scale(10, 150)
	for i := 0; i < nib; i++ {
		c, b := genIcpt(r, true)
		icptBnd.Cases = append(icptBnd.Cases, runIcpt(c).toCase(b...))
	}
	nw := o.Scale(70, 900)
	for i := 0; i < nw; i++ {
		c, b := genIcptFail(r)
		wfail.Cases = append(wfail.Cases, runIcpt(c).toFailCase(b...))
	}
	// long runs through one encoder, generated last (the PRNG stream of the sets above is unchanged):
	// one shape / changing shapes across two wraps of the FEC sequence number / through the interceptor
	nl := o.Scale(3, 12)
	for i := 0; i < nl; i++ {
		wraps := 1
		if i%3 == 1 {
			wraps = 2
		}
		c, b := genLong(r, i%3, wraps)
		long.Cases = append(long.Cases, runLong(c).toCase(b...))
	}
	cq.Write(o, "enc: histories of 1..5 EncodeFec calls through one encoder (batches of 1..30 packets, boundary batches of "+
		"15/16/45/46/47/63/64/65/108/109/110/111; n in {0,1,k-1,k,k+1,110,>110,1..6}; CSRC, one-/two-byte extensions, padding 1..255 (PaddingSize, inside the payload with P bit, deprecated field, PaddingSize without P bit), "+
		"marker, any PT, version != 2; payload 0..48, separate histories with 1200/1500; base SN incl. wrap inside the batch; same shape again / shape change; "+
		"gaps, swaps, empty batches); non-trivial = at least one repair packet emitted; "+
		"icpt: real FecInterceptor bound to one stream, 1..4 batches of numMedia in {0,1,2,3,5,8,10,16,46,47,109,110} plus packets of "+
		"other SSRCs and sequence gaps; in half of the cases the caller keeps ONE rtp.Packet + read buffer (Unmarshal for every packet) or ONE rtp.Header "+
		"updated in place (same CSRC / Extensions arrays, SetExtension on present ids, one payload buffer) and overwrites all of it when Write has returned; non-trivial = at least one repair packet reached the writer; "+
		"wfail: the same interceptor histories (mostly numMedia <= 5) over a NEXT WRITER THAT FAILS: per Write a set of its calls (0 = the media packet, 1.. = the repair packets) returns a distinct error "+
		"(media packet only / one repair packet / any subset / all repair packets / everything from some Write on); observed: every call made to the next writer incl. failed ones, err != nil, which errors errors.Is finds in it; "+
		"non-trivial = a repair packet was handed on and a call that was made failed",
		all, nil, nil)
}
