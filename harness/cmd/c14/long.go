// Long runs through ONE encoder (set c14long): the repair stream has its own 16-bit sequence number space,
// the counter starts at 1000, so its wrap is the 64536th repair packet of an encoder.  Tens of thousands of
// small batches go through one FlexEncoder03 (directly, or through the interceptor's writer of one stream);
// projected are the sequence numbers of ALL repair packets (run-length compressed), per batch how many repair
// packets it got (run-length compressed) and a sampled subset of batches in full (bytes of the media packets
// and of the repair packets: first batches, the batches around every counter wrap, some in between, last).
package main

import (
	"fmt"
	"math/rand"
	"sort"

	"github.com/pion/interceptor"
	"github.com/pion/interceptor/pkg/flexfec"
	"github.com/pion/rtp"

	"verifharness/internal/cq"
)

// longSeg: Times successive batches of K media packets with N FEC packets; Gap = each of them has a hole in
// its media sequence numbers (must be declined, consumes no repair sequence number).
type longSeg struct {
	K     int    `json:"k"`
	N     uint32 `json:"n"`
	Times int    `json:"times"`
	Gap   bool   `json:"gap,omitempty"`
}

// longCase: the inputs are (Seed, SN0, Plan): the media packets are generated from Seed while the run goes.
type longCase struct {
	Icpt    bool      `json:"icpt"`            // through FecInterceptor (numMedia = K, numFEC = N of the plan: one shape) or direct EncodeFec
	Reuse   int       `json:"reuse,omitempty"` // interceptor: what the caller does with its memory (see caller)
	PT      uint8     `json:"pt"`
	SSRC    uint32    `json:"ssrc"`       // FEC SSRC
	MSSRC   uint32    `json:"media_ssrc"` // media SSRC
	Seed    int64     `json:"seed"`
	SN0     uint16    `json:"sn0"`
	Plan    []longSeg `json:"plan"`
	Samples []int     `json:"samples"` // batch numbers projected in full, ascending

	// observations
	sns     []int64      // sequence number of every repair packet, in order of emission
	batches []longBatch  // per batch
	full    []longSample // the sampled batches
}

type longBatch struct {
	k, gap, kind, cnt int
	n                 uint32
}

type longSample struct {
	prec int // repair packets emitted before this batch
	in   batchIn
	obs  batchObs
}

func (c *longCase) total() int {
	t := 0
	for _, s := range c.Plan {
		t += s.Times
	}

	return t
}

// predicted number of repair packets of a batch (only used to CHOOSE which batches are sampled)
func predCnt(s longSeg) int {
	if s.Gap || s.K < 1 || s.K > 109 {
		return 0
	}

	return minInt(minInt(int(minU32(s.N, 110)), s.K), 110)
}

func minU32(a, b uint32) uint32 {
	if a < b {
		return a
	}

	return b
}

// chooseSamples: the first two batches, the batches around every multiple of 65536 of the (predicted) repair
// sequence number, the first batch of every plan segment, a few anywhere, the last one.
func (c *longCase) chooseSamples(r *rand.Rand) {
	pick := map[int]bool{0: true, 1: true}
	tot := c.total()
	pick[tot-1] = true
	b, emitted := 0, 1000
	for _, s := range c.Plan {
		if len(pick) < 40 {
			pick[b] = true
		}
		for t := 0; t < s.Times; t++ {
			e2 := emitted + predCnt(s)
			if emitted/65536 != e2/65536 || e2%65536 == 0 {
				pick[b-1], pick[b], pick[b+1] = true, true, true
			}
			emitted = e2
			b++
		}
	}
	for i := 0; i < 4; i++ {
		pick[r.Intn(tot)] = true
	}
	c.Samples = nil
	for i := range pick {
		if i >= 0 && i < tot {
			c.Samples = append(c.Samples, i)
		}
	}
	sort.Ints(c.Samples)
}

func repObsOfBytes(b []byte) repObs {
	var p rtp.Packet
	if err := p.Unmarshal(append([]byte(nil), b...)); err != nil {
		panic(fmt.Sprintf("harness: repair packet reaching the writer does not unmarshal: %v", err))
	}

	return obsOf(p)
}

func runLong(c longCase) longCase {
	r := rand.New(rand.NewSource(c.Seed)) //nolint:gosec
	c.sns, c.batches, c.full = nil, nil, nil
	sampled := map[int]bool{}
	for _, i := range c.Samples {
		sampled[i] = true
	}
	var enc *flexfec.FlexEncoder03
	var w *recWriter
	var wr interceptor.RTPWriter
	var cl *caller
	if c.Icpt {
		f, err := flexfec.NewFecInterceptor(flexfec.NumMediaPackets(uint32(c.Plan[0].K)), flexfec.NumFECPackets(c.Plan[0].N)) //nolint:gosec
		if err != nil {
			panic(err)
		}
		ic, err := f.NewInterceptor("")
		if err != nil {
			panic(err)
		}
		w = &recWriter{}
		wr = ic.BindLocalStream(&interceptor.StreamInfo{
			SSRC: c.MSSRC, PayloadTypeForwardErrorCorrection: c.PT, SSRCForwardErrorCorrection: c.SSRC,
		}, w)
		cl = newCaller(c.Reuse)
	} else {
		enc = flexfec.NewFlexEncoder03(c.PT, c.SSRC)
	}
	s := shape{maxPayload: 6, direct: !c.Icpt}
	bk := map[string]bool{}
	sn := c.SN0
	bi := 0
	for _, seg := range c.Plan {
		for t := 0; t < seg.Times; t++ {
			media, flags := genBatch(r, c.MSSRC, sn, seg.K, s, bk)
			if seg.Gap && seg.K >= 2 {
				j := 1 + r.Intn(seg.K-1)
				media[j], flags[j] = genPacket(r, c.MSSRC, sn+uint16(j)+1+uint16(r.Intn(3)), s, bk) //nolint:gosec
			}
			sn += uint16(seg.K) //nolint:gosec
			var o batchObs
			if c.Icpt {
				o = batchObs{Kind: 1}
				for i, b := range media {
					hdr, payload := cl.next(b, flags[i])
					w.got, w.calls, w.fail = nil, 0, nil
					kind := func() (k int) {
						defer func() {
							if rec := recover(); rec != nil {
								k = 2
							}
						}()
						if _, err := wr.Write(hdr, payload, nil); err != nil {
							panic(err)
						}

						return 1
					}()
					cl.after()
					if kind == 2 {
						o = batchObs{Kind: 2}

						break
					}
					// the media-first clause is the business of the sets c14icpt*; here everything after the
					// first packet handed on is read as a repair packet
					if len(w.got) == 0 || string(w.got[0]) != string(b) {
						o.Reps = append(o.Reps, repObs{}) // shows as a sequence / header failure
					}
					for _, g := range w.got[minInt(1, len(w.got)):] {
						o.Reps = append(o.Reps, repObsOfBytes(g))
					}
				}
			} else {
				pk := make([]rtp.Packet, len(media))
				for i, m := range media {
					pk[i] = parse(m, flags[i])
				}
				o = encodeOnce(enc, pk, seg.N)
			}
			gap := 0
			if seg.Gap && seg.K >= 2 {
				gap = 1
			}
			c.batches = append(c.batches, longBatch{k: seg.K, n: seg.N, gap: gap, kind: o.Kind, cnt: len(o.Reps)})
			if sampled[bi] {
				c.full = append(c.full, longSample{prec: len(c.sns), in: batchIn{Media: media, Flags: flags, N: seg.N}, obs: o})
			}
			for _, rp := range o.Reps {
				c.sns = append(c.sns, int64(rp.SN))
			}
			bi++
			if o.Kind == 2 {
				return c
			}
		}
	}

	return c
}

// segsZ prints a number list run-length compressed as (start, len) segments of +1 runs (as harness/cmd/c15).
// An unchanged encoder gives one segment per wrap of the counter.  A broken counter (stuck, random) could give
// one segment per packet: the list is cut after maxSegs segments - thousands of breaks are still in it, and
// the count check of the correspondence fails as well.
func segsZ(xs []int64) string {
	const maxSegs = 4000
	var out []string
	for i := 0; i < len(xs) && len(out) < maxSegs; {
		j := i + 1
		for j < len(xs) && xs[j] == xs[j-1]+1 {
			j++
		}
		out = append(out, cq.T(cq.Z(xs[i]), cq.Z(int64(j-i))))
		i = j
	}

	return cq.L(out)
}

func (c longCase) toCase(buckets ...string) cq.Case {
	// per batch (k, n, gap, kind, count), equal neighbours merged: (k, n, gap, kind, count, times)
	var groups []string
	for i := 0; i < len(c.batches); {
		j := i + 1
		for j < len(c.batches) && c.batches[j] == c.batches[i] {
			j++
		}
		b := c.batches[i]
		groups = append(groups, cq.T(cq.Z(int64(b.k)), cq.ZU(uint64(b.n)), cq.Z(int64(b.gap)), cq.Z(int64(b.kind)),
			cq.Z(int64(b.cnt)), cq.Z(int64(j-i))))
		i = j
	}
	samples := make([]string, len(c.full))
	for i, f := range c.full {
		reps := make([]string, len(f.obs.Reps))
		for j, r := range f.obs.Reps {
			reps[j] = cq.T(b2z(r.Plain), cq.ZU(uint64(r.PT)), cq.ZU(uint64(r.SN)), cq.ZU(uint64(r.TS)),
				cq.ZU(uint64(r.SSRC)), cq.Bytes(r.Payload))
		}
		samples[i] = cq.T(cq.Z(int64(f.prec)), cq.T(bytesList(f.in.Media), intList(flagsOf(f.in.Flags, len(f.in.Media))),
			cq.ZU(uint64(f.in.N)), cq.T(cq.Z(int64(f.obs.Kind)), cq.L(reps))))
	}
	if len(c.sns) > 64536 {
		buckets = append(buckets, "fec-sn-wraps")
	}
	if len(c.sns) > 64536+65536 {
		buckets = append(buckets, "fec-sn-wraps-twice")
	}

	return cq.Case{
		Coq:  cq.T(cq.ZU(uint64(c.PT)), cq.ZU(uint64(c.SSRC)), cq.L(groups), segsZ(c.sns), cq.L(samples)),
		JSON: c, Buckets: buckets, Trivial: len(c.sns) <= 64536,
	}
}

// genLong: a plan whose repair packets cross the wrap of the FEC sequence number (65535 -> 0) `wraps` times.
//
//	mode 0: one shape (k, n) throughout, direct;  mode 1: the shape changes every few hundred batches (incl.
//	declined batches, n = 0, n > 110, k = 109), direct;  mode 2: one shape, through the interceptor.
func genLong(r *rand.Rand, mode, wraps int) (longCase, []string) {
	c := longCase{
		PT: uint8(r.Intn(128)), SSRC: 1 + r.Uint32()>>1, MSSRC: r.Uint32(), Seed: r.Int63(),
		SN0: uint16(r.Intn(65536)), //nolint:gosec
	}
	want := 64536 + 65536*(wraps-1) + 1 + r.Intn(3000) // repair packets to emit
	b := []string{}
	switch mode {
	case 0, 2:
		k := 2 + r.Intn(8)
		n := 2 + r.Intn(k-1) // 2..k: every FEC index covers something, n repair packets per batch
		if mode == 2 {
			c.Icpt = true
			c.PT = uint8(1 + r.Intn(127))
			c.Reuse = r.Intn(3)
			b = append(b, "long-through-interceptor")
		} else {
			b = append(b, "long-one-shape")
		}
		c.Plan = []longSeg{{K: k, N: uint32(n), Times: (want + n - 1) / n}} //nolint:gosec
	default:
		b = append(b, "long-changing-shapes")
		got := 0
		for got < want {
			seg := longSeg{K: 1 + r.Intn(10), Times: 100 + r.Intn(500)}
			seg.N = uint32(1 + r.Intn(8)) //nolint:gosec
			switch r.Intn(12) {
			case 0:
				seg.Gap, seg.Times = seg.K >= 2, 1+r.Intn(20)
			case 1:
				seg.N, seg.Times = 0, 1+r.Intn(20)
			case 2:
				seg.N = bigN(r)
			case 3:
				seg.K, seg.N, seg.Times = 109, 110, 10+r.Intn(30)
			case 4:
				seg.K, seg.Times = 110+r.Intn(2), 1+r.Intn(3) // too many media packets: declined
			}
			// do not overshoot by much
			if p := predCnt(seg); p > 0 && got+p*seg.Times > want+2000 {
				seg.Times = (want + 2000 - got + p - 1) / p
			}
			c.Plan = append(c.Plan, seg)
			got += predCnt(seg) * seg.Times
		}
	}
	c.chooseSamples(r)

	return c, b
}
