// Generator for C08: RFC 8888 recorder (streamLog + Recorder.BuildReport).
// Drives the real rfc8888.Recorder with arrival histories over 1..k SSRCs and
// report builds placed anywhere; records every report (blocks sorted by SSRC,
// marshalled length from pion/rtcp) and prints the cases as Coq terms.
//
// A second, small stream ("api" cases) goes through the interceptor glue: a
// SenderInterceptor with a mock ticker (rfc8888.SenderTicker) and a mock clock
// (rfc8888.SenderNow); RTP packets are read through BindRemoteStream (packet
// channel), every tick of the mock ticker makes the loop call
// Recorder.BuildReport(now, 1200) and write the report to the bound RTCPWriter.
// The same history as Add/Build operations is compared with the same model and
// judged by the same oracle.
//
// Round 5. (a) The value delivered on the mock ticker's channel is chosen
// independently of the mock clock (stale, ahead, before an arrival, another
// epoch): the report time is the reading of the configured clock (SenderNow).
// The events (clock settings, packets, ticker values) are printed too and the
// Coq sender model (Model/Rfc8888Sender.v) must derive the same operations.
// (b) Every report object handed out (returned by BuildReport / written to the
// RTCP writer) is KEPT; a deep copy (projection incl. marshalled length) is taken
// at hand-over, and the kept objects are projected and marshalled AGAIN after
// the whole history ("late"): a report states what had arrived when it was
// built, whatever is built or received later.
package main

import (
	"fmt"
	"math/rand"
	"reflect"
	"sort"
	"sync"
	"time"

	"github.com/pion/interceptor"
	"github.com/pion/interceptor/pkg/rfc8888"
	"github.com/pion/rtcp"
	"github.com/pion/rtp"

	"verifharness/internal/cq"
)

type op struct {
	K    string `json:"k"` // add | build | raw
	T    int64  `json:"t"` // arrival / report time, ns
	SSRC uint32 `json:"ssrc,omitempty"`
	Seq  uint16 `json:"seq,omitempty"`
	ECN  uint8  `json:"ecn,omitempty"`
	Max  int64  `json:"max,omitempty"` // maxSize (build) or per-stream budget (raw)
	Tk   *int64 `json:"tk,omitempty"`  // api build: value delivered on the ticker channel, ns (absent: T)
}

type blockOut struct {
	SSRC  uint32  `json:"ssrc"`
	Begin uint16  `json:"begin"`
	MBs   []int64 `json:"mbs"`
}

type repOut struct {
	RTS    uint32     `json:"rts"`
	MLen   int64      `json:"mlen"`
	Blocks []blockOut `json:"blocks"`
}

type c08Case struct {
	Ops  []op     `json:"ops"`
	Outs []repOut `json:"outs"`           // every report as it was when handed over
	Late []repOut `json:"late"`           // the same report objects, read and marshalled after the whole history
	API  bool     `json:"api,omitempty"` // driven through the SenderInterceptor (ticker loop, packet channel)
}

func project(rep *rtcp.CCFeedbackReport) repOut {
	out := repOut{RTS: rep.ReportTimestamp, MLen: -1, Blocks: []blockOut{}}
	if buf, err := rep.Marshal(); err == nil {
		out.MLen = int64(len(buf))
	}
	for _, b := range rep.ReportBlocks {
		bo := blockOut{SSRC: b.MediaSSRC, Begin: b.BeginSequence, MBs: make([]int64, len(b.MetricBlocks))}
		for i, m := range b.MetricBlocks {
			v := int64(m.ECN)*65536 + int64(m.ArrivalTimeOffset)
			if m.Received {
				v += 262144
			}
			bo.MBs[i] = v
		}
		out.Blocks = append(out.Blocks, bo)
	}
	sort.Slice(out.Blocks, func(i, j int) bool { return out.Blocks[i].SSRC < out.Blocks[j].SSRC })

	return out
}

// run drives the implementation; a panic is reported as an implementation failure.
func run(ops []op) (c c08Case, fail *cq.ImplFailure) {
	c = c08Case{Ops: ops, Outs: []repOut{}, Late: []repOut{}}
	defer func() {
		if r := recover(); r != nil {
			fail = &cq.ImplFailure{Kind: "panic", Detail: fmt.Sprint(r), Case: c}
		}
	}()
	rec := rfc8888.NewRecorder()
	var kept []*rtcp.CCFeedbackReport // every report handed out, in order
	for _, o := range ops {
		var rep *rtcp.CCFeedbackReport
		switch o.K {
		case "add":
			rec.AddPacket(time.Unix(0, o.T), o.SSRC, o.Seq, o.ECN)

			continue
		case "build":
			rep = rec.BuildReport(time.Unix(0, o.T), int(o.Max))
		default:
			rep = rec.VerifBuildRaw(time.Unix(0, o.T), o.Max)
		}
		kept = append(kept, rep)
		c.Outs = append(c.Outs, project(rep)) // deep copy at hand-over
	}
	for _, rep := range kept { // the caller reads / marshals its reports late
		c.Late = append(c.Late, project(rep))
	}

	return c, nil
}

// mockTicker is handed to the interceptor through rfc8888.SenderTicker.
type mockTicker struct{ ch chan time.Time }

func (t *mockTicker) Ch() <-chan time.Time { return t.ch }
func (t *mockTicker) Stop()                {}

// tickerFactory builds a value of type rfc8888.TickerFactory. Its result type is
// an unexported interface, so the function is made by reflection (no hook in the
// package is needed): func(time.Duration) ticker { return t }.
func tickerFactory(t *mockTicker, created chan<- time.Duration) rfc8888.TickerFactory {
	ft := reflect.TypeOf(rfc8888.TickerFactory(nil))
	fn := reflect.MakeFunc(ft, func(args []reflect.Value) []reflect.Value {
		created <- time.Duration(args[0].Int())

		return []reflect.Value{reflect.ValueOf(t).Convert(ft.Out(0))}
	})
	f, _ := fn.Interface().(rfc8888.TickerFactory)

	return f
}

const apiWait = 10 * time.Second

// runAPI drives the SenderInterceptor: "add" = one RTP packet read through
// BindRemoteStream at mock time T (ECN is always 0 there), "build" = one tick of
// the mock ticker at mock time T (BuildReport(now, 1200), written to the RTCPWriter).
// The history must start with an add (the loop starts its ticker after the first packet).
func runAPI(ops []op) (c c08Case, fail *cq.ImplFailure) { //nolint:cyclop
	c = c08Case{Ops: ops, Outs: []repOut{}, Late: []repOut{}, API: true}
	defer func() {
		if r := recover(); r != nil {
			fail = &cq.ImplFailure{Kind: "panic", Detail: fmt.Sprint(r), Case: c}
		}
	}()
	var (
		mu  sync.Mutex
		now int64
	)
	setNow := func(t int64) { mu.Lock(); now = t; mu.Unlock() }
	tick := &mockTicker{ch: make(chan time.Time)}
	created := make(chan time.Duration, 1)
	factory, err := rfc8888.NewSenderInterceptor(
		rfc8888.SenderTicker(tickerFactory(tick, created)),
		rfc8888.SenderNow(func() time.Time { mu.Lock(); defer mu.Unlock(); return time.Unix(0, now) }),
	)
	if err != nil {
		return c, &cq.ImplFailure{Kind: "api", Detail: err.Error(), Case: c}
	}
	icpt, err := factory.NewInterceptor("c08")
	if err != nil {
		return c, &cq.ImplFailure{Kind: "api", Detail: err.Error(), Case: c}
	}
	// the RTCP writer queues what it is given (pointer kept) and marshals later;
	// a deep copy of the report as handed over is taken inside Write
	type handed struct {
		rep *rtcp.CCFeedbackReport
		at  repOut
	}
	reports := make(chan handed, 1)
	var kept []*rtcp.CCFeedbackReport
	icpt.BindRTCPWriter(interceptor.RTCPWriterFunc(func(pkts []rtcp.Packet, _ interceptor.Attributes) (int, error) {
		for _, p := range pkts {
			if r, ok := p.(*rtcp.CCFeedbackReport); ok {
				reports <- handed{rep: r, at: project(r)}
			}
		}

		return 0, nil
	}))
	var cur []byte
	reader := icpt.BindRemoteStream(&interceptor.StreamInfo{}, interceptor.RTPReaderFunc(
		func(b []byte, a interceptor.Attributes) (int, interceptor.Attributes, error) {
			return copy(b, cur), a, nil
		}))
	hang := func(what string) *cq.ImplFailure {
		return &cq.ImplFailure{Kind: "hang", Detail: "interceptor glue: " + what, Case: c}
	}
	buf := make([]byte, 1500)
	tickerUp := false
	for i, o := range ops {
		setNow(o.T)
		if o.K == "add" {
			hdr := rtp.Header{Version: 2, SSRC: o.SSRC, SequenceNumber: o.Seq, PayloadType: 96}
			raw, merr := hdr.Marshal()
			if merr != nil {
				return c, &cq.ImplFailure{Kind: "api", Detail: merr.Error(), Case: c}
			}
			cur = append(raw, 1, 2, 3, 4)
			done := make(chan error, 1)
			go func() { _, _, rerr := reader.Read(buf, nil); done <- rerr }()
			select {
			case rerr := <-done:
				if rerr != nil {
					return c, &cq.ImplFailure{Kind: "api", Detail: rerr.Error(), Case: c}
				}
			case <-time.After(apiWait):
				return c, hang(fmt.Sprintf("Read of packet %d not taken by the loop", i))
			}
			if !tickerUp { // the loop creates its ticker right after the first packet
				select {
				case d := <-created:
					if d != 100*time.Millisecond {
						return c, &cq.ImplFailure{Kind: "api", Detail: fmt.Sprintf("ticker interval %v", d), Case: c}
					}
					tickerUp = true
				case <-time.After(apiWait):
					return c, hang("ticker not created after the first packet")
				}
			}

			continue
		}
		tk := o.T
		if o.Tk != nil {
			tk = *o.Tk // the ticker's value is not the configured clock's reading
		}
		select {
		case tick.ch <- time.Unix(0, tk):
		case <-time.After(apiWait):
			return c, hang(fmt.Sprintf("tick %d not taken by the loop", i))
		}
		select {
		case h := <-reports:
			kept = append(kept, h.rep)
			c.Outs = append(c.Outs, h.at)
		case <-time.After(apiWait):
			return c, hang(fmt.Sprintf("no report written after tick %d", i))
		}
	}
	closed := make(chan error, 1)
	go func() { closed <- icpt.Close() }()
	select {
	case <-closed:
	case <-time.After(apiWait):
		return c, hang("Close does not return")
	}
	select {
	case <-reports:
		return c, &cq.ImplFailure{Kind: "api", Detail: "report written without a tick", Case: c}
	default:
	}
	for _, rep := range kept { // the queueing writer marshals now (the loop goroutine has ended)
		c.Late = append(c.Late, project(rep))
	}

	return c, nil
}

// tickValue chooses what the mock ticker delivers on its channel when the mock
// clock reads t: a real time.Ticker delivers the time the tick was scheduled on
// the runtime's clock, which is neither the configured SenderNow clock nor the
// moment the loop handles the tick.
func tickValue(r *rand.Rand, t int64, arrivals []int64) (int64, string) {
	switch r.Intn(8) {
	case 0:
		return t, "tick=clock"
	case 1: // stale: scheduled up to two intervals before it is handled
		return t - 1 - int64(r.Intn(200000))*1000, "tick-stale"
	case 2: // ahead of the clock
		return t + 1 + int64(r.Intn(200000))*1000, "tick-ahead"
	case 3: // a 1/1024 s step or a few seconds away
		return t + (int64(r.Intn(9))-4)*sec + (int64(r.Intn(5))-2)*atoUnit2/2, "tick-seconds-off"
	case 4: // next to an arrival (earlier than packets that arrived before the report)
		a := arrivals[r.Intn(len(arrivals))]

		return a - 1 - int64(r.Intn(1000000)), "tick-before-an-arrival"
	case 5: // another epoch: wall clock vs. a clock starting at zero, zero value
		return []int64{0, 1, -1, 1790000000 * sec, 946684800 * sec}[r.Intn(5)], "tick-other-epoch"
	case 6: // more than 8 s / 64 s away
		return t - []int64{8, 9, 64, 65, 128}[r.Intn(5)]*sec - int64(r.Intn(1000)), "tick-far-stale"
	default:
		return t + 1 - 2*int64(r.Intn(2)), "tick-1ns-off"
	}
}

// genAPI: an add first, ECN 0 everywhere, builds are ticks with the interceptor's fixed maximum size.
func genAPI(r *rand.Rand) ([]op, []string) {
	for {
		ops, tags := genCase(r, false)
		for len(ops) > 0 && ops[0].K != "add" {
			ops = ops[1:]
		}
		if len(ops) < 2 {
			continue
		}
		out := []string{"api"}
		var arr []int64
		for i := range ops {
			switch ops[i].K {
			case "add":
				ops[i].ECN = 0
				arr = append(arr, ops[i].T)
			default:
				ops[i].K, ops[i].Max = "build", 1200
				tk, tag := tickValue(r, ops[i].T, arr)
				ops[i].Tk = &tk
				out = append(out, tag)
			}
		}
		for _, t := range tags {
			if t != "raw-budget" && t != "max-near-headers" && t != "max-small" {
				out = append(out, t)
			}
		}

		return ops, out
	}
}

func coqOuts(rs []repOut) []string {
	outs := make([]string, len(rs))
	for i, r := range rs {
		bs := make([]string, len(r.Blocks))
		for j, b := range r.Blocks {
			bs[j] = cq.T(cq.ZU(uint64(b.SSRC)), cq.ZU(uint64(b.Begin)), cq.LZ(b.MBs))
		}
		outs[i] = cq.T(cq.ZU(uint64(r.RTS)), cq.Z(r.MLen), cq.L(bs))
	}

	return outs
}

func (c c08Case) coq() string {
	ops := make([]string, len(c.Ops))
	for i, o := range c.Ops {
		switch o.K {
		case "add":
			ops[i] = cq.C("Add", cq.Z(o.T), cq.ZU(uint64(o.SSRC)), cq.ZU(uint64(o.Seq)), cq.ZU(uint64(o.ECN)))
		case "build":
			ops[i] = cq.C("Build", cq.Z(o.T), cq.Z(o.Max))
		default:
			ops[i] = cq.C("BuildRaw", cq.Z(o.T), cq.Z(o.Max))
		}
	}

	var evs []string
	if c.API { // events of the interceptor: clock setting before every packet / tick, ticker values
		for _, o := range c.Ops {
			evs = append(evs, cq.C("SNow", cq.Z(o.T)))
			if o.K == "add" {
				evs = append(evs, cq.C("SPacket", cq.ZU(uint64(o.SSRC)), cq.ZU(uint64(o.Seq))))
			} else {
				tk := o.T
				if o.Tk != nil {
					tk = *o.Tk
				}
				evs = append(evs, cq.C("STick", cq.Z(tk)))
			}
		}
	}

	return cq.T(cq.L(ops), cq.L(coqOuts(c.Outs)), cq.L(coqOuts(c.Late)), cq.L(evs))
}

// buckets derived from what the implementation actually produced
func (c c08Case) buckets(extra ...string) []string {
	set := map[string]bool{}
	for _, e := range extra {
		set[e] = true
	}
	ssrcs := map[uint32]bool{}
	for _, o := range c.Ops {
		if o.K == "add" {
			ssrcs[o.SSRC] = true
		}
	}
	set[fmt.Sprintf("k%d", len(ssrcs))] = true
	// re-reading: a later block of the same stream that is not longer than an earlier one
	// (a recycled buffer would fit), and one that is longer
	maxN := map[uint32]int{}
	for _, r := range c.Outs {
		for _, b := range r.Blocks {
			if m, ok := maxN[b.SSRC]; ok && len(b.MBs) > 0 {
				if len(b.MBs) <= m {
					set["reread:later-block-not-longer"] = true
				} else {
					set["reread:later-block-longer"] = true
				}
			}
			if len(b.MBs) > maxN[b.SSRC] {
				maxN[b.SSRC] = len(b.MBs)
			} else if _, ok := maxN[b.SSRC]; !ok {
				maxN[b.SSRC] = 0
			}
		}
	}
	if !reflect.DeepEqual(c.Outs, c.Late) {
		set["reread:report-changed-after-hand-over"] = true
	}
	for _, r := range c.Outs {
		for _, b := range r.Blocks {
			n := len(b.MBs)
			switch {
			case n == 0:
				set["empty-block"] = true
			case n%2 == 1:
				set["odd-n"] = true
			default:
				set["even-n"] = true
			}
			if n >= 16384 {
				set["n>=16384"] = true
			}
			if int(b.Begin)+n > 65536 {
				set["range-wraps-2^16"] = true
			}
			gap := false
			for _, m := range b.MBs {
				if m < 262144 {
					gap = true
				} else {
					if gap {
						set["received-after-gap"] = true
					}
					switch m & 0xFFFF {
					case 0x1FFE:
						set["ato-1ffe"] = true
					case 0x1FFF:
						set["ato-1fff"] = true
					case 0x1FFD, 0x1FFC:
						set["ato-near-max"] = true
					}
				}
			}
		}
	}
	out := make([]string, 0, len(set))
	for k := range set {
		out = append(out, k)
	}
	sort.Strings(out)

	return out
}

func (c c08Case) toCase(extra ...string) cq.Case {
	adds := 0
	for _, o := range c.Ops {
		if o.K == "add" {
			adds++
		}
	}

	return cq.Case{Coq: c.coq(), JSON: c, Buckets: c.buckets(extra...), Trivial: adds == 0 || len(c.Outs) == 0}
}

const (
	sec      = int64(1000000000)
	atoUnit2 = int64(1953125) // 2/1024 s in ns (exact)
)

var startSeqs = []int64{0, 1, 2, 100, 32766, 32767, 32768, 65000, 65530, 65534, 65535}

type gstream struct {
	ssrc  uint32
	v     int64   // next in-order (virtual, unwrapped) sequence number
	first int64   // first number sent
	sent  []int64 // numbers sent so far
}

type gen struct {
	r       *rand.Rand
	now     int64
	streams []*gstream
	ops     []op
	tags    map[string]bool
	arrT    []int64 // arrival times so far
	older   bool    // this history may contain packets older than the first of their stream
}

func (g *gen) tag(s string) { g.tags[s] = true }

func (g *gen) advance() {
	switch g.r.Intn(40) {
	case 0:
		g.now += 7*sec + int64(g.r.Intn(2000))*1000000 // around 8 s
	case 1:
		g.now += 63*sec + int64(g.r.Intn(3000))*1000000 // around 64 s
	case 2:
		g.now += 127*sec + int64(g.r.Intn(3000))*1000000 // around 128 s
	case 3:
		g.now -= int64(g.r.Intn(50)) * 1000000 // clock steps back
	default:
		g.now += int64(g.r.Intn(30000)) * 1000
	}
}

func (g *gen) add(big bool) {
	s := g.streams[g.r.Intn(len(g.streams))]
	var v int64
	switch c := g.r.Intn(20); {
	case len(s.sent) == 0 || c < 9: // in order
		v = s.v
		s.v++
	case c < 12: // loss
		s.v += 1 + int64(g.r.Intn(4))
		v = s.v
		s.v++
	case c < 15: // duplicate of something sent earlier
		v = s.sent[g.r.Intn(len(s.sent))]
		if len(s.sent) > 6 && g.r.Intn(2) == 0 {
			v = s.sent[len(s.sent)-1-g.r.Intn(6)]
		}
		g.tag("duplicate")
	case c < 18: // reordered / late
		v = s.v - 1 - int64(g.r.Intn(12))
		g.tag("late")
	case c < 19 && g.older: // older than the first packet of the stream
		v = s.first - 1 - int64(g.r.Intn(5))
		g.tag("older-than-first")
	default: // jump
		j := int64(20 + g.r.Intn(300))
		if big {
			j = int64(10000 + g.r.Intn(12000))
		}
		s.v += j
		v = s.v
		s.v++
		g.tag("jump")
	}
	if v < 0 || (v < s.first && !g.older) {
		v = s.v
		s.v++
	}
	s.sent = append(s.sent, v)
	g.advance()
	g.arrT = append(g.arrT, g.now)
	g.ops = append(g.ops, op{K: "add", T: g.now, SSRC: s.ssrc, Seq: uint16(v & 0xFFFF), ECN: uint8(g.r.Intn(12) / 9 * (1 + g.r.Intn(3)))}) //nolint:gosec
}

func (g *gen) build(big bool) {
	k := int64(len(g.streams))
	t := g.now + int64(g.r.Intn(20000))*1000
	if len(g.arrT) > 0 {
		a := g.arrT[g.r.Intn(len(g.arrT))]
		switch g.r.Intn(12) {
		case 0: // exactly on / next to a 1/1024 s step of some arrival
			t = a + int64(g.r.Intn(4095))*atoUnit2 + int64(g.r.Intn(3)) - 1
			g.tag("ato-step-edge")
		case 1: // around the 0x1FFD / 0x1FFE edge: 8189/1024 s = 7997070312.5 ns
			t = a + 7997070312 + int64(g.r.Intn(5)) - 2
			g.tag("ato-max-edge")
		case 2: // report time before an arrival
			t = a - int64(g.r.Intn(1000))
			g.tag("report-before-arrival")
		case 3:
			t = a
		}
	}
	if g.r.Intn(4) == 0 {
		budgets := []int64{0, 1, 2, 3, 4, 5, 7, 10, 11, 50, 101}
		if big {
			budgets = []int64{16383, 16384, 16385, 20001}
		}
		g.ops = append(g.ops, op{K: "raw", T: t, Max: budgets[g.r.Intn(len(budgets))]})
		g.tag("raw-budget")

		return
	}
	var m int64
	switch g.r.Intn(6) {
	case 0:
		m = 1200
	case 1: // around the header-only size
		m = 12 + 8*k + int64(g.r.Intn(14)) - 4
		g.tag("max-near-headers")
	case 2: // small budgets, all residues
		m = 12 + 8*k + int64(g.r.Intn(40*int(k)))
		g.tag("max-small")
	case 3:
		m = []int64{0, 1, 11, 12, 19, 20, 21, 22, 23, 24, 28, 1400, 1500}[g.r.Intn(13)]
	case 4:
		m = 12 + 8*k + 2*k*int64(g.r.Intn(60)) + int64(g.r.Intn(int(4*k)))
	default:
		m = int64(60 + g.r.Intn(1200))
	}
	if big {
		m = []int64{40000, 70000, 12 + 8*k + 2*k*16384, 12 + 8*k + 2*k*16385 + 1, 200000}[g.r.Intn(5)]
	}
	g.ops = append(g.ops, op{K: "build", T: t, Max: m})
}

func genCase(r *rand.Rand, big bool) ([]op, []string) {
	g := &gen{r: r, now: 1700000000*sec + r.Int63n(100000000)*sec/100, tags: map[string]bool{}, older: r.Intn(12) == 0}
	k := 1 + r.Intn(5)
	if r.Intn(3) == 0 {
		k = 1
	}
	if big {
		k = 1 + r.Intn(2)
		g.tag("big")
	}
	for i := 0; i < k; i++ {
		ssrc := r.Uint32()
		if r.Intn(4) == 0 {
			ssrc = uint32(r.Intn(8))
		}
		dup := false
		for _, s := range g.streams {
			dup = dup || s.ssrc == ssrc
		}
		if dup {
			continue
		}
		v := int64(r.Intn(65536))
		if r.Intn(2) == 0 {
			v = startSeqs[r.Intn(len(startSeqs))]
		}
		g.streams = append(g.streams, &gstream{ssrc: ssrc, v: v, first: v})
	}
	n := 4 + r.Intn(70)
	if big {
		n = 4 + r.Intn(16)
	}
	pb := 5 + r.Intn(25) // percent builds
	for i := 0; i < n; i++ {
		if r.Intn(100) < pb {
			g.build(big)
		} else {
			g.add(big)
		}
	}
	g.build(big)
	if r.Intn(3) == 0 {
		g.add(big)
		g.build(big)
	}
	tags := make([]string, 0, len(g.tags))
	for t := range g.tags {
		tags = append(tags, t)
	}

	return g.ops, tags
}

func main() {
	o := cq.ParseFlags()
	r := o.Rand()
	set := &cq.Set{
		Name: "c08", Import: "IV.Check.C08Check", CaseType: "c08case",
		Checks: []string{"c08_mismatches", "c08_spec_failures"},
	}
	var fails []cq.ImplFailure
	addCaseVia := func(api bool, ops []op, tags ...string) {
		runner := run
		if api {
			runner = runAPI
		}
		c, f := runner(ops)
		if f != nil {
			fails = append(fails, *f)

			return
		}
		set.Cases = append(set.Cases, c.toCase(tags...))
	}
	addCase := func(ops []op, tags ...string) { addCaseVia(false, ops, tags...) }
	if o.Replay != "" {
		var c c08Case
		cq.LoadReplay(o.Replay, &c)
		addCaseVia(c.API, c.Ops, "replay")
		cq.Write(o, "replay", []*cq.Set{set}, nil, fails)

		return
	}
	// regression corpus first
	for _, f := range o.CorpusFiles() {
		var c c08Case
		cq.LoadReplay(f, &c)
		addCaseVia(c.API, c.Ops, "corpus")
	}
	n := o.Scale(1500, 20000)
	nbig := o.Scale(6, 30)
	if o.N > 0 {
		nbig = 2
	}
	for i := 0; i < nbig; i++ {
		ops, tags := genCase(r, true)
		addCase(ops, tags...)
	}
	for i := 0; i < n; i++ {
		ops, tags := genCase(r, false)
		addCase(ops, tags...)
	}
	// interceptor glue: ticker loop + packet channel, mock ticker and clock
	napi := o.Scale(60, 600)
	if o.N > 0 {
		napi = 5
	}
	for i := 0; i < napi; i++ {
		ops, tags := genAPI(r)
		addCaseVia(true, ops, tags...)
	}
	cq.Write(o, "histories of AddPacket over 1..5 SSRCs (in-order, loss, duplicates, late, older than first, jumps, wrap) "+
		"with BuildReport / raw-budget builds placed anywhere, plus histories driven through the SenderInterceptor "+
		"(RTP reads through BindRemoteStream, mock ticker and clock; bucket api); distinct by content; "+
		"non-trivial = at least one arrival and one report",
		[]*cq.Set{set}, map[string]interface{}{"api_cases": napi}, fails)
}
