// Generator for C13: caller-owned buffers are not retained or modified after a
// call returns.  Every history is replayed twice through one real component:
// run A with a fresh allocation per packet, run B with ONE reused payload
// buffer / header object (CSRC array, extension payload array, read buffer)
// that the caller overwrites with garbage right after every Write/Read
// returns.  Everything emitted later is recorded as interned content ids.
package main

import (
	"bytes"
	"encoding/hex"
	"fmt"
	"math/rand"
	"os"
	"os/exec"
	"path/filepath"
	"strings"
	"sync"
	"time"

	"github.com/pion/interceptor"
	"github.com/pion/rtp"

	"verifharness/internal/cq"
)

// ---- content interning: equal id <=> equal bytes ----

var (
	internMu sync.Mutex
	internM  = map[string]int64{}
)

func intern(b string) int64 {
	internMu.Lock()
	defer internMu.Unlock()
	id, ok := internM[b]
	if !ok {
		id = int64(len(internM) + 1)
		internM[b] = id
	}

	return id
}

// ---- cases ----

type spec struct {
	Seq    uint16 `json:"seq"`
	PayLen int    `json:"paylen"`
	CSRC   int    `json:"csrc"`
	Ext    int    `json:"ext"`
	Marker bool   `json:"marker"`
	PT     uint8  `json:"pt"`
}

type ev struct {
	At int `json:"at"` // fires when At calls have been made
	K  int `json:"k"`  // argument (index of the packet to re-emit)
}

type c13Case struct {
	Comp  string    `json:"comp"`
	X     bool      `json:"x,omitempty"`     // set c13x: sizes in the operations, the model predicts refusals
	Kind  string    `json:"kind,omitempty"`  // set c13x: chain kind (rtcp-read, rtp-read, rtp-write, rtcp-write)
	Chain []string  `json:"chain,omitempty"` // set c13x: chain members in BIND order
	Pkts  []spec    `json:"pkts"`
	Evs   []ev      `json:"evs,omitempty"`
	Opt   [2]int    `json:"opt"`
	Ops   []string  `json:"-"`
	OutA  [][]int64 `json:"-"`
	OutB  [][]int64 `json:"-"`
	Wrote []int64   `json:"-"`
	NEmit int       `json:"nemit"`
	Diff  bool      `json:"diff"`
	NRef  int       `json:"refused,omitempty"` // calls the component refused with an error (run B)
}

const (
	mediaSSRC = 0x11223344
	fecSSRC   = 0x0FEC0FEC
	locHdr    = 1
	locCSRC   = 2
	locExt    = 3
	locPay    = 4
	locRead   = 1
	// caller buffers: large enough for payloads on both sides of every size threshold in the code
	bufSize = 2048
)

// payload sizes around the thresholds in the code: pooled buffers of 1460 bytes (rtpbuffer packet
// factory, gcc leaky bucket pacer), 1472 (1500 - IP/UDP headers), FlexFEC's 1500-byte packet buffers
var edgeSizes = []int{0, 1, 1459, 1460, 1461, 1462, 1472, 1473, 1488, 1500}

// parts projects a packet onto the four caller-owned parts.
func parts(h *rtp.Header, p []byte) [4]int64 {
	var eb strings.Builder
	var es strings.Builder
	for _, id := range h.GetExtensionIDs() {
		e := h.GetExtension(id)
		fmt.Fprintf(&es, "%d:%d,", id, len(e))
		fmt.Fprintf(&eb, "%d=%x;", id, e)
	}
	hs := fmt.Sprintf("H|%d|%v|%d|%v|%v|%d|%d|%d|%d|%x|n=%d|%s", h.Version, h.Padding, h.PaddingSize, h.Extension, h.Marker,
		h.PayloadType, h.SequenceNumber, h.Timestamp, h.SSRC, h.ExtensionProfile, len(h.CSRC), es.String())

	return [4]int64{intern(hs), intern(fmt.Sprintf("C|%x", h.CSRC)), intern("E|" + eb.String()), intern("P|" + string(p))}
}

func wire(h *rtp.Header, p []byte) int64 {
	raw, err := h.Marshal()
	if err != nil {
		return intern("marshal-error:" + err.Error())
	}

	return intern("W|" + string(raw) + string(p))
}

// caller owns the buffers passed into the component.
type caller struct {
	reuse bool
	x     bool // print the operations of the chain model (set c13x)
	hdr   *rtp.Header
	csrc  []uint32
	ext   []byte
	pay   []byte
	rd    []byte
	gen   int
	// what the caller last wrote (to detect writes by the component)
	lastH rtp.Header
	lastP []byte
	lastR []byte
	held  []held // run A: every fresh allocation with its expected content
	wrote []int64
}

type held struct {
	idx int
	h   *rtp.Header
	p   []byte
	wh  rtp.Header
	wp  []byte
}

func newCaller(reuse bool) *caller {
	return &caller{reuse: reuse, hdr: &rtp.Header{}, csrc: make([]uint32, 15), ext: make([]byte, 16), pay: make([]byte, bufSize), rd: make([]byte, bufSize)}
}

func sameHeader(a, b *rtp.Header) bool {
	return parts(a, nil) == parts(b, nil)
}

// build writes packet s into the caller's buffers (reused or fresh).
func (cl *caller) build(s spec, twcc bool) (*rtp.Header, []byte) {
	var h *rtp.Header
	var csrc []uint32
	var ext, p []byte
	if cl.reuse {
		h, csrc, ext, p = cl.hdr, cl.csrc[:s.CSRC], cl.ext[:s.Ext], cl.pay[:s.PayLen]
		exts := h.Extensions[:0]
		*h = rtp.Header{}
		h.Extensions = exts
	} else {
		h, csrc, ext, p = &rtp.Header{}, make([]uint32, s.CSRC), make([]byte, s.Ext), make([]byte, s.PayLen)
	}
	h.Version, h.SSRC, h.SequenceNumber, h.Timestamp = 2, mediaSSRC, s.Seq, uint32(s.Seq)*3000+7
	h.Marker, h.PayloadType = s.Marker, s.PT
	for i := range csrc {
		csrc[i] = uint32(s.Seq)*1000 + uint32(i) + 1 //nolint:gosec
	}
	if s.CSRC > 0 {
		h.CSRC = csrc
	}
	for i := range ext {
		ext[i] = byte(int(s.Seq) + i*3 + 5)
	}
	if twcc && len(ext) >= 2 {
		ext[0], ext[1] = byte(s.Seq>>8), byte(s.Seq)
	}
	if s.Ext > 0 {
		if err := h.SetExtension(1, ext); err != nil {
			panic(err)
		}
	}
	for i := range p {
		p[i] = byte(int(s.Seq)*7 + i*13 + 1)
	}

	return h, p
}

func callOp(c *c13Case, h *rtp.Header, p []byte) string {
	ps := parts(h, p)
	if c.X {
		return cq.C("XCall", cq.L([]string{xname(c.Comp)}), cq.L([]string{
			cq.T(cq.Z(locHdr), cq.Z(ps[0]), cq.Z(12)), cq.T(cq.Z(locCSRC), cq.Z(ps[1]), cq.Z(int64(4*len(h.CSRC)))),
			cq.T(cq.Z(locExt), cq.Z(ps[2]), cq.Z(int64(len(h.GetExtension(1))))), cq.T(cq.Z(locPay), cq.Z(ps[3]), cq.Z(int64(len(p)))),
		}))
	}
	comp := c.Comp

	return cq.C("Call", comp, cq.L([]string{
		cq.T(cq.Z(locHdr), cq.Z(ps[0])), cq.T(cq.Z(locCSRC), cq.Z(ps[1])),
		cq.T(cq.Z(locExt), cq.Z(ps[2])), cq.T(cq.Z(locPay), cq.Z(ps[3])),
	}))
}

// remember what the caller wrote, before the call.
func (cl *caller) before(h *rtp.Header, p []byte) {
	cl.lastH = h.Clone()
	cl.lastP = append([]byte(nil), p...)
}

// after the call returned: the component must not have changed anything.
func (cl *caller) after(idx int, h *rtp.Header, p []byte) {
	if !sameHeader(h, &cl.lastH) || !bytes.Equal(p, cl.lastP) {
		cl.wrote = append(cl.wrote, int64(idx))
	}
	if !cl.reuse {
		cl.held = append(cl.held, held{idx: idx, h: h, p: p, wh: cl.lastH, wp: cl.lastP})
	}
}

// scribble overwrites every reused buffer with garbage (run B only).
func (cl *caller) scribble() []string {
	if !cl.reuse {
		return nil
	}
	cl.gen++
	g := cl.gen
	h := cl.hdr
	for i := range cl.pay {
		cl.pay[i] = byte(0xA0 + g*3 + i*7)
	}
	for i := range cl.csrc {
		cl.csrc[i] = 0xDEAD0000 + uint32(g)*16 + uint32(i) //nolint:gosec
	}
	for i := range cl.ext {
		cl.ext[i] = byte(0xC0 + g + i)
	}
	h.SequenceNumber ^= 0x5A5A
	h.Timestamp = ^h.Timestamp
	h.Marker = !h.Marker
	h.PayloadType ^= 0x15
	h.SSRC ^= 0xFFFF
	ps := parts(h, cl.pay[:len(cl.lastP)])
	cl.lastH = h.Clone()
	cl.lastP = append(cl.lastP[:0], cl.pay[:len(cl.lastP)]...)

	sc := "Scribble"
	if cl.x {
		sc = "XScribble"
	}

	return []string{
		cq.C(sc, cq.Z(locHdr), cq.Z(ps[0])), cq.C(sc, cq.Z(locCSRC), cq.Z(ps[1])),
		cq.C(sc, cq.Z(locExt), cq.Z(ps[2])), cq.C(sc, cq.Z(locPay), cq.Z(ps[3])),
	}
}

// final check: nothing wrote into caller memory after the calls returned.
func (cl *caller) final(n int) {
	if cl.reuse {
		if cl.lastR != nil && !bytes.Equal(cl.lastR, cl.rd) {
			cl.wrote = append(cl.wrote, int64(len(cl.rd)))
		}
		if n > 0 && (!sameHeader(cl.hdr, &cl.lastH) || !bytes.Equal(cl.pay[:len(cl.lastP)], cl.lastP)) {
			cl.wrote = append(cl.wrote, int64(n))
		}

		return
	}
	for _, k := range cl.held {
		if !sameHeader(k.h, &k.wh) || !bytes.Equal(k.p, k.wp) {
			cl.wrote = append(cl.wrote, int64(k.idx))
		}
	}
}

// ---- read path: the caller's read buffer ----

func marshalPkt(h *rtp.Header, p []byte) []byte {
	raw, err := (&rtp.Packet{Header: *h, Payload: p}).Marshal()
	if err != nil {
		panic(err)
	}

	return raw
}

func (cl *caller) readBuf() []byte {
	if cl.reuse {
		return cl.rd
	}

	return make([]byte, bufSize)
}

func (cl *caller) scribbleRead(n int) []string {
	if !cl.reuse {
		return nil
	}
	cl.gen++
	for i := range cl.rd {
		cl.rd[i] = byte(0x51 + cl.gen*5 + i*3)
	}
	cl.lastR = append(cl.lastR[:0], cl.rd...)

	sc := "Scribble"
	if cl.x {
		sc = "XScribble"
	}

	return []string{cq.C(sc, cq.Z(locRead), cq.Z(intern("R|"+string(cl.rd[:n]))))}
}

func readCallOp(comp string, raw []byte) string {
	return cq.C("Call", comp, cq.L([]string{cq.T(cq.Z(locRead), cq.Z(intern("R|"+string(raw))))}))
}

// ---- downstream sink ----

type sink struct {
	mu   sync.Mutex
	pk   [][4]int64
	wire []int64
	ssrc []uint32
	line []int64
}

func (s *sink) Write(h *rtp.Header, p []byte, _ interceptor.Attributes) (int, error) {
	s.mu.Lock()
	defer s.mu.Unlock()
	s.pk = append(s.pk, parts(h, p))
	s.wire = append(s.wire, wire(h, p))
	s.ssrc = append(s.ssrc, h.SSRC)

	return h.MarshalSize() + len(p), nil
}

func (s *sink) n() int {
	s.mu.Lock()
	defer s.mu.Unlock()

	return len(s.pk)
}

func (s *sink) nLines() int {
	s.mu.Lock()
	defer s.mu.Unlock()

	return len(s.line)
}

func waitFor(f func() int, n int, d time.Duration) bool {
	deadline := time.Now().Add(d)
	for f() < n {
		if time.Now().After(deadline) {
			return false
		}
		time.Sleep(200 * time.Microsecond)
	}

	return true
}

func flatParts(ps [][4]int64) []int64 {
	out := make([]int64, 0, 4*len(ps))
	for _, p := range ps {
		out = append(out, p[0], p[1], p[2], p[3])
	}

	return out
}

// result of one run
type runOut struct {
	outs    [][]int64
	ops     []string
	wrote   []int64
	refused int
}

type runner func(c *c13Case, cl *caller, fails *[]cq.ImplFailure) runOut

var runners = map[string]runner{}

func runnerOf(c *c13Case) runner {
	key := c.Comp
	if c.Kind != "" {
		key = "kind:" + c.Kind
	}
	r, ok := runners[key]
	if !ok {
		panic("unknown component " + key)
	}

	return r
}

func runCase(c c13Case, fails *[]cq.ImplFailure) c13Case {
	r := runnerOf(&c)
	ca, cb := newCaller(false), newCaller(true)
	ca.x, cb.x = c.isX(), c.isX()
	a := r(&c, ca, fails)
	b := r(&c, cb, fails)
	c.Ops, c.OutA, c.OutB = b.ops, a.outs, b.outs
	c.Wrote = append(append([]int64{}, a.wrote...), b.wrote...)
	c.NEmit = len(b.outs)
	c.NRef = b.refused
	c.Diff = fmt.Sprint(a.outs) != fmt.Sprint(b.outs)

	return c
}

func llz(xs [][]int64) string {
	s := make([]string, len(xs))
	for i, x := range xs {
		s[i] = cq.LZ(x)
	}

	return cq.L(s)
}

func (c c13Case) toCase(b ...string) cq.Case {
	if c.NRef > 0 {
		b = append(b, "refused")
	}
	if c.Diff {
		b = append(b, "B-differs")
	} else {
		b = append(b, "B-equals-A")
	}
	n := 0
	for _, o := range c.OutA {
		n += len(o)
	}
	if c.isX() {
		kind := int64(1)
		if c.Kind == "" && !opaqueComp[c.Comp] {
			kind = 0
		}
		if c.Kind != "" {
			b = append(b, "kind-"+c.Kind, "chain-"+strings.Join(c.Chain, "+"))
		} else {
			b = append(b, "sized-"+c.Comp)
		}

		return cq.Case{
			Coq:  cq.T(cq.Z(kind), cq.L(c.Ops), llz(c.OutA), llz(c.OutB), cq.LZ(c.Wrote)),
			JSON: c, Buckets: b, Trivial: n == 0,
		}
	}
	b = append(b, "comp-"+c.Comp)

	return cq.Case{
		Coq:  cq.T(c.Comp, cq.L(c.Ops), llz(c.OutA), llz(c.OutB), cq.LZ(c.Wrote)),
		JSON: c, Buckets: b, Trivial: n == 0,
	}
}

func (c *c13Case) isX() bool { return c.X || c.Kind != "" }

var opaqueComp = map[string]bool{"NackRtx": true, "FlexFec": true, "DumpSender": true, "DumpReceiver": true, "DumpReceiverRtcp": true,
	"StatsOut": true, "StatsIn": true, "TwccSender": true, "Rtpfb": true}

// operation printers (set c13: Model/Alias.v; set c13x: Model/AliasChain.v)
func (c *c13Case) emitOp(k int) string {
	if c.X {
		return cq.C("XEmit", xname(c.Comp), nat(k))
	}

	return cq.C("Emit", c.Comp, nat(k))
}

func (c *c13Case) emitAllOp() string {
	if c.X {
		return cq.C("XEmitAll", xname(c.Comp))
	}

	return cq.C("EmitAll", c.Comp)
}

func (c *c13Case) dropOp() string {
	if c.X {
		return cq.C("XDrop", xname(c.Comp))
	}

	return cq.C("Drop", c.Comp)
}

func hexs(b []byte) string { return hex.EncodeToString(b) }

// ---- generators ----

func genPkts(r *rand.Rand, n int, constLen bool, step1 bool) []spec {
	out := make([]spec, n)
	seq := uint16(r.Intn(65536)) //nolint:gosec
	if r.Intn(4) == 0 {
		seq = uint16(65536 - r.Intn(n+1)) //nolint:gosec
	}
	payLen, ncsrc, next := 1+r.Intn(60), r.Intn(4), []int{0, 2, 5, 16}[r.Intn(4)]
	if r.Intn(3) == 0 {
		ncsrc = 0
	}
	if r.Intn(4) == 0 {
		payLen = edgeSizes[r.Intn(len(edgeSizes))]
	}
	for i := range out {
		s := spec{Seq: seq, Marker: r.Intn(4) == 0, PT: uint8(96 + r.Intn(8)), PayLen: payLen, CSRC: ncsrc, Ext: next} //nolint:gosec
		if !constLen {
			switch r.Intn(8) {
			case 0:
				s.PayLen = 0
			case 1:
				s.PayLen = 1200 + r.Intn(200)
			case 2, 3:
				s.PayLen = edgeSizes[r.Intn(len(edgeSizes))]
			default:
				s.PayLen = 1 + r.Intn(80)
			}
			s.CSRC = r.Intn(4)
			s.Ext = []int{0, 1, 2, 7, 16}[r.Intn(5)]
		}
		out[i] = s
		if step1 {
			seq++
		} else {
			seq += uint16(1 + r.Intn(2)) //nolint:gosec
		}
	}

	return out
}

func genCase(r *rand.Rand, comp string) (c13Case, []string) {
	c := c13Case{Comp: comp}
	b := []string{}
	switch comp {
	case "NackCopy", "NackNoCopy":
		n := 2 + r.Intn(10)
		c.Pkts = genPkts(r, n, comp == "NackNoCopy", false)
		ne := 1 + r.Intn(6)
		for i := 0; i < ne; i++ {
			at := 1 + r.Intn(n)
			k := r.Intn(at)
			if r.Intn(8) == 0 {
				k = at + r.Intn(3) // not sent yet
				b = append(b, "nack-unknown")
			}
			c.Evs = append(c.Evs, ev{At: at, K: k})
		}
		sortEvs(c.Evs)
	case "FlexFec":
		c.Opt = [2]int{2 + r.Intn(5), 1 + r.Intn(3)}
		c.Pkts = genPkts(r, c.Opt[0]*(1+r.Intn(3))+r.Intn(2), false, true)
	case "DumpSender", "DumpReceiver", "DumpReceiverRtcp":
		c.Pkts = genPkts(r, 1+r.Intn(6), false, false)
	case "NackRtx":
		n := 2 + r.Intn(8)
		c.Pkts = genPkts(r, n, false, false)
		for i, ne := 0, 1+r.Intn(4); i < ne; i++ {
			at := 1 + r.Intn(n)
			c.Evs = append(c.Evs, ev{At: at, K: r.Intn(at)})
		}
		sortEvs(c.Evs)
	case "LeakyBucket", "Pacing", "StatsOut", "StatsIn", "Rtpfb":
		n := 1 + r.Intn(10)
		c.Pkts = genPkts(r, n, false, comp == "Rtpfb")
		for i, ne := 0, r.Intn(3); i < ne; i++ {
			c.Evs = append(c.Evs, ev{At: 1 + r.Intn(n)})
		}
		sortEvs(c.Evs)
	case "JBInterceptor":
		c.Pkts = genPkts(r, 51+r.Intn(8), true, true)
	case "JBPush":
		c.Pkts = genPkts(r, 2+r.Intn(9), true, true)
	case "TwccSender":
		c.Pkts = genPkts(r, 1+r.Intn(12), false, true)
		for i := range c.Pkts {
			c.Pkts[i].Ext = 2
		}
	default:
		panic("genCase: " + comp)
	}
	for _, s := range c.Pkts {
		if s.CSRC > 0 {
			b = append(b, "csrc")

			break
		}
	}
	for _, s := range c.Pkts {
		if s.Ext > 0 {
			b = append(b, "ext")

			break
		}
	}

	return c, b
}

func sortEvs(e []ev) {
	for i := 1; i < len(e); i++ {
		for j := i; j > 0 && e[j].At < e[j-1].At; j-- {
			e[j], e[j-1] = e[j-1], e[j]
		}
	}
}

var quickComps = []string{"NackCopy", "NackRtx", "NackNoCopy", "FlexFec", "LeakyBucket", "Pacing", "DumpSender", "DumpReceiver", "DumpReceiverRtcp",
	"StatsOut", "StatsIn", "JBInterceptor", "JBPush", "TwccSender", "Rtpfb"}

// share of cases per component (out of 8): the long jitter-buffer histories are fewer
var weight = map[string]int{"JBInterceptor": 2}

func main() {
	o := cq.ParseFlags()
	if os.Getenv("C13_RACE_CHILD") != "" {
		raceChild(o)

		return
	}
	r := o.Rand()
	var fails []cq.ImplFailure
	set := &cq.Set{Name: "c13", Import: "IV.Check.C13Check", CaseType: "c13_case", Checks: []string{"c13_mismatches", "c13_spec_failures"}}
	xset := &cq.Set{Name: "c13x", Import: "IV.Check.C13ChainCheck", CaseType: "c13x_case", Checks: []string{"c13x_mismatches", "c13x_spec_failures"}}
	sets := []*cq.Set{set, xset}
	add := func(c c13Case, b ...string) {
		if c.isX() {
			xset.Cases = append(xset.Cases, c.toCase(b...))
		} else {
			set.Cases = append(set.Cases, c.toCase(b...))
		}
	}
	if o.Replay != "" {
		var c c13Case
		cq.LoadReplay(o.Replay, &c)
		add(runCase(c, &fails), "replay")
		cq.Write(o, "replay", sets, nil, fails)

		return
	}
	for _, f := range o.CorpusFiles() {
		var c c13Case
		cq.LoadReplay(f, &c)
		add(runCase(c, &fails), "corpus")
	}
	per := o.Scale(160, 1200)
	if o.N > 0 { // -n is a total case count (search campaigns)
		per = 1 + o.N/len(quickComps)
	}
	type job struct {
		c c13Case
		b []string
	}
	var jobs []job
	for i := 0; i < per; i++ {
		for _, comp := range quickComps {
			if w, ok := weight[comp]; ok && i%8 >= w {
				continue
			}
			c, b := genCase(r, comp)
			jobs = append(jobs, job{c, b})
		}
		// set c13x: chains, size thresholds with predicted refusals, outgoing RTCP objects
		for _, kind := range xKinds {
			c, b := genXCase(r, kind)
			jobs = append(jobs, job{c, b})
		}
		for k := 0; k < 2; k++ {
			c, b := genXCase(r, "sized")
			jobs = append(jobs, job{c, b})
		}
	}
	res := make([]c13Case, len(jobs))
	var wg sync.WaitGroup
	var mu sync.Mutex
	sem := make(chan struct{}, 16)
	for i := range jobs {
		wg.Add(1)
		sem <- struct{}{}
		go func(i int) {
			defer wg.Done()
			var lf []cq.ImplFailure
			res[i] = runCase(jobs[i].c, &lf)
			mu.Lock()
			fails = append(fails, lf...)
			mu.Unlock()
			<-sem
		}(i)
	}
	wg.Wait()
	for i, j := range jobs {
		add(res[i], j.b...)
	}
	extra := map[string]interface{}{}
	// informational only: histories about objects OUTSIDE the property text (C13 names the payload
	// slice, read buffer and header) whose reused-and-scribbled run differs from the fresh run.
	// The specification oracle asks nothing of them; the model comparison still covers them.
	obs := map[string]int{"outgoing_rtcp_objects_aliased": 0, "attributes_map_aliased": 0,
		"outgoing_rtcp_objects_histories": 0, "attributes_map_histories": 0}
	for i := range res {
		switch res[i].Kind {
		case "rtcp-write":
			obs["outgoing_rtcp_objects_histories"]++
			if res[i].Diff {
				obs["outgoing_rtcp_objects_aliased"]++
			}
		case "attr-write":
			obs["attributes_map_histories"]++
			if res[i].Diff {
				obs["attributes_map_aliased"]++
			}
		}
	}
	extra["observations_outside_property"] = obs
	if o.Tier == "thorough" {
		fails = append(fails, raceParent(o, extra)...)
	}
	cq.Write(o, "one case = one packet history (1..70 packets; payload 0..1500 bytes incl. 1459/1460/1461/1462/1472/1473/1488/1500, 0..3 CSRCs, 0..16 extension bytes, marker/PT variants, sequence numbers "+
		"across the 2^16 wrap) replayed twice through one real component: fresh allocation per packet vs one reused header/CSRC/extension/payload/read buffer "+
		"scribbled right after every Write/Read returns; emissions (retransmissions after NACKs, FEC packets, paced packets, dump lines, statistics, pops, "+
		"feedback, reports) recorded as interned content ids; caller buffers compared before/after every call and at the end; non-trivial = something was emitted",
		sets, extra, fails)
}

// ---- thorough tier: the same runs under the race detector ----

func raceParent(o *cq.Opts, extra map[string]interface{}) []cq.ImplFailure {
	exe, err := os.Executable()
	if err != nil {
		return nil
	}
	tag := filepath.Base(exe)
	modfile := filepath.Join(filepath.Dir(filepath.Dir(exe)), tag+".mod")
	raceExe := exe + "-race"
	build := exec.Command("go", "build", "-race", "-modfile="+modfile, "-tags", "verif", "-o", raceExe, "./cmd/c13") //nolint:gosec
	if out, err := build.CombinedOutput(); err != nil {
		extra["race"] = "race build failed: " + string(out)

		return []cq.ImplFailure{{Kind: "race-build", Detail: string(out), Case: map[string]string{"error": "go build -race failed"}}}
	}
	dir := filepath.Join(o.Out, "race")
	_ = os.MkdirAll(dir, 0o755)
	cmd := exec.Command(raceExe, "-seed", fmt.Sprint(o.Seed), "-tier", "quick", "-out", dir) //nolint:gosec
	cmd.Env = append(os.Environ(), "C13_RACE_CHILD=1", "GORACE=halt_on_error=0 exitcode=0 log_path="+filepath.Join(dir, "race"))
	out, err := cmd.CombinedOutput()
	logs, _ := filepath.Glob(filepath.Join(dir, "race.*"))
	extra["race"] = fmt.Sprintf("race-detector child: err=%v, %d report files, output %q", err, len(logs), tail(string(out), 300))
	var fails []cq.ImplFailure
	for _, l := range logs {
		raw, _ := os.ReadFile(l) //nolint:gosec
		if bytes.Contains(raw, []byte("DATA RACE")) {
			fails = append(fails, cq.ImplFailure{Kind: "data-race", Detail: tail(string(raw), 3000),
				Case: map[string]string{"note": "race between a component goroutine and the scribbling caller; rerun: go build -race ./cmd/c13 with C13_RACE_CHILD=1"}})

			break
		}
	}
	if err != nil {
		fails = append(fails, cq.ImplFailure{Kind: "race-child", Detail: tail(string(out), 2000), Case: map[string]string{"error": err.Error()}})
	}

	return fails
}

func tail(s string, n int) string {
	if len(s) > n {
		return s[len(s)-n:]
	}

	return s
}

// raceChild replays generated histories in run B only (reused buffers, scribbling caller).
func raceChild(o *cq.Opts) {
	noGate = true
	r := o.Rand()
	var fails []cq.ImplFailure
	for i := 0; i < 40; i++ {
		for _, comp := range quickComps {
			c, _ := genCase(r, comp)
			runnerOf(&c)(&c, newCaller(true), &fails)
		}
		for _, kind := range xRaceKinds {
			c, _ := genXCase(r, kind)
			runnerOf(&c)(&c, newCaller(true), &fails)
		}
	}
}
