package main

import (
	"fmt"
	"strings"
	"sync"
	"time"

	"github.com/pion/interceptor"
	"github.com/pion/interceptor/pkg/flexfec"
	"github.com/pion/interceptor/pkg/nack"
	"github.com/pion/interceptor/pkg/packetdump"
	"github.com/pion/rtcp"
	"github.com/pion/rtp"

	"verifharness/internal/cq"
)

// noGate: in the race-detector child no harness synchronisation may order the
// component's goroutine after the caller's scribble.
var noGate bool

func init() {
	runners["NackCopy"] = func(c *c13Case, cl *caller, f *[]cq.ImplFailure) runOut { return runNack(c, cl, f, false) }
	runners["NackNoCopy"] = func(c *c13Case, cl *caller, f *[]cq.ImplFailure) runOut { return runNack(c, cl, f, true) }
	runners["FlexFec"] = runFlexFec
	runners["DumpSender"] = runDumpSender
}

func nat(k int) string { return fmt.Sprintf("%d%%nat", k) }

// writeCall performs one Write of packet i with all caller-side bookkeeping.
// It reports whether the component accepted the packet (a component may refuse a packet
// with an error, e.g. a payload larger than its pooled buffers: nothing of it may be emitted
// later).  Set c13: a refused call is left out of the operation list; set c13x: it stays, the
// model predicts the refusal from the size.
func writeCall(c *c13Case, cl *caller, w interceptor.RTPWriter, i int, twcc bool, out *runOut) bool {
	h, p := cl.build(c.Pkts[i], twcc)
	out.ops = append(out.ops, callOp(c, h, p))
	cl.before(h, p)
	_, err := w.Write(h, p, interceptor.Attributes{})
	cl.after(i, h, p)
	if err != nil {
		out.refused++
		if !c.isX() {
			out.ops = out.ops[:len(out.ops)-1]
		}
	}

	return err == nil
}

// ---- NACK responder (copy mode / DisableCopy) ----

func runNack(c *c13Case, cl *caller, fails *[]cq.ImplFailure, noCopy bool) runOut {
	var out runOut
	opts := []nack.ResponderOption{}
	if noCopy {
		opts = append(opts, nack.DisableCopy())
	}
	f, err := nack.NewResponderInterceptor(opts...)
	if err != nil {
		panic(err)
	}
	ic, err := f.NewInterceptor("")
	if err != nil {
		panic(err)
	}
	sk := &sink{}
	info := &interceptor.StreamInfo{SSRC: mediaSSRC, RTCPFeedback: []interceptor.RTCPFeedback{{Type: "nack"}}}
	w := ic.BindLocalStream(info, sk)
	var pending []byte
	rr := ic.BindRTCPReader(interceptor.RTCPReaderFunc(func(b []byte, a interceptor.Attributes) (int, interceptor.Attributes, error) {
		return copy(b, pending), a, nil
	}))
	rtcpBuf := make([]byte, 1500)
	calls := 0
	stored := map[int]int{} // packet index -> index among the accepted packets
	fire := func(e ev) {
		// a NACK for a packet that has not been written yet asks for a sequence number that is
		// never used in this history (the resend goroutine may run arbitrarily late)
		seq := c.Pkts[len(c.Pkts)-1].Seq + uint16(1000+e.K) //nolint:gosec
		if e.K < calls {
			seq = c.Pkts[e.K].Seq
		}
		raw, err := (&rtcp.TransportLayerNack{SenderSSRC: 1, MediaSSRC: mediaSSRC, Nacks: []rtcp.NackPair{{PacketID: seq}}}).Marshal()
		if err != nil {
			panic(err)
		}
		pending = raw
		before := sk.n()
		buf := rtcpBuf
		if !cl.reuse {
			buf = make([]byte, 1500)
		}
		_, _, _ = rr.Read(buf, interceptor.Attributes{})
		if cl.reuse {
			for i := range buf {
				buf[i] = 0x77
			}
		}
		k, have := stored[e.K]
		if e.K < calls && have {
			if !waitFor(sk.n, before+1, 2*time.Second) {
				*fails = append(*fails, cq.ImplFailure{Kind: "no-retransmission", Detail: fmt.Sprintf("NACK for stored packet %d not answered", e.K), Case: c})
			}
			time.Sleep(200 * time.Microsecond)
		} else {
			k = len(c.Pkts) + e.K // nothing stored under this number: not sent yet, or refused
			time.Sleep(3 * time.Millisecond)
		}
		sk.mu.Lock()
		got := append([][4]int64{}, sk.pk[before:]...)
		sk.mu.Unlock()
		out.outs = append(out.outs, flatParts(got))
		out.ops = append(out.ops, c.emitOp(k))
	}
	ei := 0
	for i := range c.Pkts {
		for ei < len(c.Evs) && c.Evs[ei].At <= i {
			fire(c.Evs[ei])
			ei++
		}
		if writeCall(c, cl, w, i, false, &out) {
			stored[i] = len(stored)
		}
		calls++
		out.ops = append(out.ops, cl.scribble()...)
	}
	for ; ei < len(c.Evs); ei++ {
		fire(c.Evs[ei])
	}
	cl.final(len(c.Pkts))
	_ = ic.Close()
	out.wrote = cl.wrote

	return out
}

// ---- FlexFEC encoder interceptor ----

func runFlexFec(c *c13Case, cl *caller, fails *[]cq.ImplFailure) runOut {
	var out runOut
	nm, nf := c.Opt[0], c.Opt[1]
	f, err := flexfec.NewFecInterceptor(flexfec.NumMediaPackets(uint32(nm)), flexfec.NumFECPackets(uint32(nf))) //nolint:gosec
	if err != nil {
		panic(err)
	}
	ic, err := f.NewInterceptor("")
	if err != nil {
		panic(err)
	}
	sk := &sink{}
	w := ic.BindLocalStream(&interceptor.StreamInfo{SSRC: mediaSSRC, PayloadTypeForwardErrorCorrection: 118, SSRCForwardErrorCorrection: fecSSRC}, sk)
	for i := range c.Pkts {
		before := sk.n()
		writeCall(c, cl, w, i, false, &out)
		sk.mu.Lock()
		var fec []int64
		for j := before; j < len(sk.pk); j++ {
			if sk.ssrc[j] == fecSSRC {
				fec = append(fec, sk.wire[j])
			}
		}
		sk.mu.Unlock()
		if (i+1)%nm == 0 {
			out.outs = append(out.outs, fec)
			out.ops = append(out.ops, cq.C("EmitAll", c.Comp), cq.C("Drop", c.Comp))
		} else if len(fec) > 0 {
			*fails = append(*fails, cq.ImplFailure{Kind: "unexpected-emission", Detail: fmt.Sprintf("FEC packets after call %d", i), Case: c})
		}
		out.ops = append(out.ops, cl.scribble()...)
	}
	cl.final(len(c.Pkts))
	_ = ic.Close()
	out.wrote = cl.wrote

	return out
}

// ---- packetdump: sender interceptor -> logger goroutine -> dump stream ----

type lineSink struct {
	mu    sync.Mutex
	lines []int64
}

func (l *lineSink) Write(p []byte) (int, error) {
	l.mu.Lock()
	defer l.mu.Unlock()
	l.lines = append(l.lines, intern("L|"+string(p)))

	return len(p), nil
}

func (l *lineSink) n() int {
	l.mu.Lock()
	defer l.mu.Unlock()

	return len(l.lines)
}

func dumpFormatter(gate chan struct{}) packetdump.RTPFormatCallback {
	return func(pkt *rtp.Packet, a interceptor.Attributes) string {
		// user formatting code runs on the logger goroutine, some time after Write returned
		if !noGate {
			select {
			case <-gate:
			case <-time.After(500 * time.Millisecond):
			}
		}
		var sb strings.Builder
		sb.WriteString(packetdump.DefaultRTPFormatter(pkt, a))
		raw, err := pkt.Header.Marshal()
		fmt.Fprintf(&sb, "hdr=%s err=%v csrc=%x payload=%s\n", hexs(raw), err, pkt.Header.CSRC, hexs(pkt.Payload))

		return sb.String()
	}
}

func runDumpSender(c *c13Case, cl *caller, fails *[]cq.ImplFailure) runOut {
	var out runOut
	ls := &lineSink{}
	gate := make(chan struct{}, 4)
	f, err := packetdump.NewSenderInterceptor(packetdump.RTPWriter(ls), packetdump.RTPFormatter(dumpFormatter(gate)))
	if err != nil {
		panic(err)
	}
	ic, err := f.NewInterceptor("")
	if err != nil {
		panic(err)
	}
	sk := &sink{}
	w := ic.BindLocalStream(&interceptor.StreamInfo{SSRC: mediaSSRC}, sk)
	for i := range c.Pkts {
		before := ls.n()
		writeCall(c, cl, w, i, false, &out)
		out.ops = append(out.ops, cl.scribble()...)
		select {
		case gate <- struct{}{}:
		default:
		}
		if !waitFor(ls.n, before+1, 2*time.Second) {
			*fails = append(*fails, cq.ImplFailure{Kind: "no-dump", Detail: fmt.Sprintf("packet %d not dumped", i), Case: c})
		}
		ls.mu.Lock()
		got := append([]int64{}, ls.lines[before:]...)
		ls.mu.Unlock()
		out.outs = append(out.outs, got)
		out.ops = append(out.ops, cq.C("EmitAll", c.Comp), cq.C("Drop", c.Comp))
	}
	cl.final(len(c.Pkts))
	_ = ic.Close()
	out.wrote = cl.wrote

	return out
}
