package main

// Set c13x: histories through CHAINS of real interceptors (interceptor.NewChain) that share
// the attributes of a call (the cached parse of the caller's buffer), payload sizes on both
// sides of the size thresholds with the refusals predicted by the model, and outgoing RTCP
// packet objects that the caller mutates after WriteRTCP returned.

import (
	"bytes"
	"fmt"
	"math/rand"
	"strings"
	"sync"
	"sync/atomic"
	"time"

	"github.com/pion/interceptor"
	"github.com/pion/interceptor/pkg/cc"
	"github.com/pion/interceptor/pkg/flexfec"
	"github.com/pion/interceptor/pkg/gcc"
	"github.com/pion/interceptor/pkg/nack"
	"github.com/pion/interceptor/pkg/pacing"
	"github.com/pion/interceptor/pkg/packetdump"
	"github.com/pion/interceptor/pkg/report"
	"github.com/pion/interceptor/pkg/rtpfb"
	"github.com/pion/interceptor/pkg/stats"
	"github.com/pion/interceptor/pkg/twcc"
	"github.com/pion/rtcp"
	"github.com/pion/rtp"

	"verifharness/internal/cq"
)

func init() {
	runners["kind:rtcp-read"] = runRtcpRead
	runners["kind:rtp-read"] = runRtpRead
	runners["kind:rtp-write"] = runRtpWrite
	runners["kind:rtcp-write"] = runRtcpWrite
	runners["kind:rtcp-write-stats"] = runRtcpWriteStats
	runners["kind:attr-write"] = runAttrWrite
}

var oldComp = map[string]bool{}

func init() {
	for _, n := range quickComps {
		oldComp[n] = true
	}
}

// xname prints a chain member as a term of Model/AliasChain.v xcomp.
func xname(n string) string {
	if oldComp[n] {
		return "(Old " + n + ")"
	}

	return n
}

func xnames(ns []string) string {
	out := make([]string, len(ns))
	for i, n := range ns {
		out[i] = xname(n)
	}

	return cq.L(out)
}

func reversed(ns []string) []string {
	out := make([]string, len(ns))
	for i, n := range ns {
		out[len(ns)-1-i] = n
	}

	return out
}

// ---- chain construction ----

type builtChain struct {
	chain *interceptor.Chain
	ls    *lineSink     // the dumper's output
	gate  chan struct{} // holds the logger goroutine's formatter back until the caller has scribbled
	dump  string        // name of the dumping member
	warm  []func()
	sent  int32 // sentinel packets seen by the dumper's filter (logger goroutine, in order)
}

const sentinelSSRC = 0x5E5E5E5E

func rtcpFormatter(gate chan struct{}) packetdump.RTCPFormatCallback {
	return func(pkts []rtcp.Packet, _ interceptor.Attributes) string {
		if !noGate {
			select {
			case <-gate:
			case <-time.After(500 * time.Millisecond):
			}
		}
		s := ""
		for _, p := range pkts {
			raw, err := p.Marshal()
			s += fmt.Sprintf("%T %+v %x %v\n", p, p, raw, err)
		}

		return s
	}
}

func must(ic interceptor.Interceptor, err error) interceptor.Interceptor {
	if err != nil {
		panic(err)
	}

	return ic
}

// mediaOnly drops FEC packets; it also counts the sentinel packets the harness sends after a
// call: the logger goroutine takes the dumps in order, so once the sentinel has been seen every
// dump of the call before it has been written (or the packet never reached the dumper).
func (bc *builtChain) mediaOnly(pkt *rtp.Packet) bool {
	if pkt.SSRC == sentinelSSRC {
		atomic.AddInt32(&bc.sent, 1)

		return false
	}

	return pkt.SSRC == mediaSSRC
}

func (bc *builtChain) nSent() int { return int(atomic.LoadInt32(&bc.sent)) }

func buildChain(c *c13Case) *builtChain {
	bc := &builtChain{ls: &lineSink{}, gate: make(chan struct{}, 4)}
	var ics []interceptor.Interceptor
	for _, name := range c.Chain {
		var ic interceptor.Interceptor
		switch name {
		case "RtcpNack", "NackCopy":
			f, err := nack.NewResponderInterceptor()
			if err != nil {
				panic(err)
			}
			ic = must(f.NewInterceptor(""))
		case "RtcpReport", "RtpReport":
			f, err := report.NewReceiverInterceptor()
			if err != nil {
				panic(err)
			}
			ic = must(f.NewInterceptor(""))
		case "RtcpStats", "StatsIn", "StatsOut":
			f, err := stats.NewInterceptor(stats.SetNowFunc(fixedNow))
			if err != nil {
				panic(err)
			}
			ic = must(f.NewInterceptor(""))
			sic := ic
			bc.warm = append(bc.warm, func() {
				// the recorder is started on its own goroutine and ignores packets until then
				w := sic.BindLocalStream(&interceptor.StreamInfo{SSRC: mediaSSRC + 1, ClockRate: 90000}, &sink{})
				g, _ := sic.(stats.Getter)
				for k := 0; k < 5000 && g.Get(mediaSSRC+1).OutboundRTPStreamStats.PacketsSent == 0; k++ {
					_, _ = w.Write(&rtp.Header{Version: 2, SSRC: mediaSSRC + 1, SequenceNumber: 1}, []byte{1}, interceptor.Attributes{})
					time.Sleep(50 * time.Microsecond)
				}
			})
		case "RtcpRtpfb", "Rtpfb":
			f, err := rtpfb.NewInterceptor()
			if err != nil {
				panic(err)
			}
			ic = must(f.NewInterceptor(""))
		case "RtcpCc":
			f, err := cc.NewInterceptor(nil)
			if err != nil {
				panic(err)
			}
			ic = must(f.NewInterceptor("c13"))
		case "RtpNackGen":
			f, err := nack.NewGeneratorInterceptor()
			if err != nil {
				panic(err)
			}
			ic = must(f.NewInterceptor(""))
		case "TwccSender":
			f, err := twcc.NewSenderInterceptor(twcc.SendInterval(50 * time.Millisecond))
			if err != nil {
				panic(err)
			}
			ic = must(f.NewInterceptor(""))
		case "FlexFec":
			f, err := flexfec.NewFecInterceptor(flexfec.NumMediaPackets(3), flexfec.NumFECPackets(1))
			if err != nil {
				panic(err)
			}
			ic = must(f.NewInterceptor(""))
		case "DumpReceiverRtcp":
			f, err := packetdump.NewReceiverInterceptor(packetdump.RTCPWriter(bc.ls), packetdump.RTCPFormatter(rtcpFormatter(bc.gate)))
			if err != nil {
				panic(err)
			}
			ic, bc.dump = must(f.NewInterceptor("")), name
		case "DumpReceiver":
			f, err := packetdump.NewReceiverInterceptor(packetdump.RTPWriter(bc.ls), packetdump.RTPFormatter(dumpFormatter(bc.gate)))
			if err != nil {
				panic(err)
			}
			ic, bc.dump = must(f.NewInterceptor("")), name
		case "DumpSender":
			f, err := packetdump.NewSenderInterceptor(packetdump.RTPWriter(bc.ls), packetdump.RTPFormatter(dumpFormatter(bc.gate)),
				packetdump.RTPFilter(bc.mediaOnly))
			if err != nil {
				panic(err)
			}
			ic, bc.dump = must(f.NewInterceptor("")), name
		case "DumpSenderRtcp":
			f, err := packetdump.NewSenderInterceptor(packetdump.RTCPWriter(bc.ls), packetdump.RTCPFormatter(rtcpFormatter(bc.gate)))
			if err != nil {
				panic(err)
			}
			ic, bc.dump = must(f.NewInterceptor("")), name
		default:
			panic("buildChain: " + name)
		}
		ics = append(ics, ic)
	}
	if bc.dump == "" {
		panic("chain without a dumper: " + strings.Join(c.Chain, "+"))
	}
	bc.chain = interceptor.NewChain(ics)

	return bc
}

func (bc *builtChain) drain() {
	for {
		select {
		case <-bc.gate:
		default:
			return
		}
	}
}

// emission waits for the dump line of the call that just returned (the caller has scribbled by now).
// sentinel != nil: the call may have been refused before it reached the dumper; the sentinel
// packet sent after it tells when the logger goroutine is past the call.
func (bc *builtChain) emission(c *c13Case, i, before int, sentinel interceptor.RTPWriter, out *runOut, fails *[]cq.ImplFailure) {
	select {
	case bc.gate <- struct{}{}:
	default:
	}
	if sentinel == nil {
		if !waitFor(bc.ls.n, before+1, 2*time.Second) {
			*fails = append(*fails, cq.ImplFailure{Kind: "no-dump", Detail: fmt.Sprintf("chain %v: call %d not dumped", c.Chain, i), Case: c})
		}
	} else {
		seen := bc.nSent()
		_, _ = sentinel.Write(&rtp.Header{Version: 2, SSRC: sentinelSSRC, SequenceNumber: uint16(i)}, []byte{0}, interceptor.Attributes{}) //nolint:gosec
		if !waitFor(bc.nSent, seen+1, 2*time.Second) {
			*fails = append(*fails, cq.ImplFailure{Kind: "no-sentinel", Detail: fmt.Sprintf("chain %v: sentinel after call %d not seen by the dumper", c.Chain, i), Case: c})
		}
	}
	bc.ls.mu.Lock()
	got := append([]int64{}, bc.ls.lines[before:]...)
	bc.ls.mu.Unlock()
	out.outs = append(out.outs, got)
	out.ops = append(out.ops, cq.C("XEmitAll", xname(bc.dump)), cq.C("XDrop", xname(bc.dump)))
}

// ---- incoming RTCP whose parsed form keeps slices of the read buffer ----

func rtcpOfX(s spec) []byte {
	data := make([]byte, 4*(1+s.Ext%4))
	for i := range data {
		data[i] = byte(int(s.Seq) + i*11 + 3)
	}
	fixLen := func(raw []byte) []byte {
		raw = append(raw, data...)
		raw[2], raw[3] = byte((len(raw)/4-1)>>8), byte(len(raw)/4-1)

		return raw
	}
	var raw []byte
	var err error
	switch s.PayLen % 4 {
	case 0:
		raw, err = (&rtcp.ApplicationDefined{SSRC: mediaSSRC, Name: "c13x", Data: data}).Marshal()
	case 1:
		raw, err = (&rtcp.ReceiverReport{SSRC: mediaSSRC, Reports: []rtcp.ReceptionReport{{SSRC: 5, LastSequenceNumber: uint32(s.Seq)}}}).Marshal()
		raw = fixLen(raw)
	case 2:
		raw, err = (&rtcp.SenderReport{SSRC: mediaSSRC, NTPTime: uint64(s.Seq) << 20, RTPTime: uint32(s.Seq), PacketCount: 3, OctetCount: 4}).Marshal()
		raw = fixLen(raw)
	default: // a packet type pion/rtcp does not know: kept as RawPacket
		raw = append([]byte{0x80, 222, 0, byte(len(data) / 4)}, data...)
	}
	if err != nil {
		panic(err)
	}
	// compound: something for the parsers of the chain in front of the aliasing packet
	var pre []byte
	switch s.CSRC % 3 {
	case 1:
		pre, err = (&rtcp.TransportLayerNack{SenderSSRC: 1, MediaSSRC: mediaSSRC, Nacks: []rtcp.NackPair{{PacketID: s.Seq}}}).Marshal()
	case 2:
		pre, err = (&rtcp.PictureLossIndication{SenderSSRC: 1, MediaSSRC: mediaSSRC}).Marshal()
	}
	if err != nil {
		panic(err)
	}

	return append(pre, raw...)
}

func xReadCallOp(c *c13Case, raw []byte) string {
	return cq.C("XCall", xnames(c.Chain), cq.L([]string{cq.T(cq.Z(locRead), cq.Z(intern("R|"+string(raw))), cq.Z(int64(len(raw))))}))
}

func runRtcpRead(c *c13Case, cl *caller, fails *[]cq.ImplFailure) runOut {
	var out runOut
	bc := buildChain(c)
	var pending []byte
	rr := bc.chain.BindRTCPReader(interceptor.RTCPReaderFunc(func(b []byte, a interceptor.Attributes) (int, interceptor.Attributes, error) {
		return copy(b, pending), a, nil
	}))
	for _, w := range bc.warm {
		w()
	}
	for i := range c.Pkts {
		raw := rtcpOfX(c.Pkts[i])
		pending = raw
		b := cl.readBuf()
		out.ops = append(out.ops, xReadCallOp(c, raw))
		bc.drain()
		before := bc.ls.n()
		_, _, rerr := rr.Read(b, interceptor.Attributes{})
		if rerr != nil {
			*fails = append(*fails, cq.ImplFailure{Kind: "rtcp-read-error", Detail: rerr.Error(), Case: c})
		}
		if !bytes.Equal(b[:len(raw)], raw) {
			cl.wrote = append(cl.wrote, int64(i))
		}
		if !cl.reuse {
			cl.held = append(cl.held, held{idx: i, h: &rtp.Header{}, p: b[:len(raw)], wp: raw})
		}
		out.ops = append(out.ops, cl.scribbleRead(len(raw))...)
		bc.emission(c, i, before, nil, &out, fails)
	}
	cl.final(0)
	_ = bc.chain.Close()
	out.wrote = cl.wrote

	return out
}

// ---- incoming RTP: the cached header's extension payloads alias the read buffer ----

func runRtpRead(c *c13Case, cl *caller, fails *[]cq.ImplFailure) runOut {
	var out runOut
	bc := buildChain(c)
	var pending []byte
	info := &interceptor.StreamInfo{SSRC: mediaSSRC, ClockRate: 90000, RTCPFeedback: []interceptor.RTCPFeedback{{Type: "nack"}},
		RTPHeaderExtensions: []interceptor.RTPHeaderExtension{{URI: transportCCURI, ID: 1}}}
	// the TWCC sender's Read blocks until its feedback loop (started by BindRTCPWriter) takes the packet
	bc.chain.BindRTCPWriter(interceptor.RTCPWriterFunc(func(_ []rtcp.Packet, _ interceptor.Attributes) (int, error) { return 0, nil }))
	rd := bc.chain.BindRemoteStream(info, upstream(&pending))
	for _, w := range bc.warm {
		w()
	}
	for i := range c.Pkts {
		h, p := newCaller(false).build(c.Pkts[i], true)
		raw := marshalPkt(h, p)
		pending = raw
		b := cl.readBuf()
		out.ops = append(out.ops, xReadCallOp(c, raw))
		bc.drain()
		before := bc.ls.n()
		_, _, rerr := rd.Read(b, interceptor.Attributes{})
		if rerr != nil {
			*fails = append(*fails, cq.ImplFailure{Kind: "rtp-read-error", Detail: rerr.Error(), Case: c})
		}
		if !bytes.Equal(b[:len(raw)], raw) {
			cl.wrote = append(cl.wrote, int64(i))
		}
		if !cl.reuse {
			cl.held = append(cl.held, held{idx: i, h: &rtp.Header{}, p: b[:len(raw)], wp: raw})
		}
		out.ops = append(out.ops, cl.scribbleRead(len(raw))...)
		bc.emission(c, i, before, nil, &out, fails)
	}
	cl.final(0)
	_ = bc.chain.Close()
	out.wrote = cl.wrote

	return out
}

// ---- outgoing RTP through a chain; the model predicts where a refused packet stops ----

func runRtpWrite(c *c13Case, cl *caller, fails *[]cq.ImplFailure) runOut {
	var out runOut
	bc := buildChain(c)
	info := &interceptor.StreamInfo{SSRC: mediaSSRC, ClockRate: 90000, RTCPFeedback: []interceptor.RTCPFeedback{{Type: "nack"}},
		PayloadTypeForwardErrorCorrection: 118, SSRCForwardErrorCorrection: fecSSRC}
	w := bc.chain.BindLocalStream(info, &sink{})
	for _, wf := range bc.warm {
		wf()
	}
	order := reversed(c.Chain) // the member bound last sees the packet first
	for i := range c.Pkts {
		h, p := cl.build(c.Pkts[i], false)
		ps := parts(h, p)
		out.ops = append(out.ops, cq.C("XCall", xnames(order), cq.L([]string{
			cq.T(cq.Z(locHdr), cq.Z(ps[0]), cq.Z(12)), cq.T(cq.Z(locCSRC), cq.Z(ps[1]), cq.Z(int64(4*len(h.CSRC)))),
			cq.T(cq.Z(locExt), cq.Z(ps[2]), cq.Z(int64(len(h.GetExtension(1))))), cq.T(cq.Z(locPay), cq.Z(ps[3]), cq.Z(int64(len(p)))),
		})))
		cl.before(h, p)
		bc.drain()
		before := bc.ls.n()
		if _, werr := w.Write(h, p, interceptor.Attributes{}); werr != nil {
			out.refused++
		}
		cl.after(i, h, p)
		out.ops = append(out.ops, cl.scribble()...)
		bc.emission(c, i, before, w, &out, fails)
	}
	cl.final(len(c.Pkts))
	_ = bc.chain.Close()
	out.wrote = cl.wrote

	return out
}

// ---- outgoing RTCP: packet objects owned by the caller ----

// rtcpObjs are the caller's packet objects: reused and mutated in place in run B.
type rtcpObjs struct {
	app  *rtcp.ApplicationDefined
	rr   *rtcp.ReceiverReport
	nk   *rtcp.TransportLayerNack
	data []byte
	reps []rtcp.ReceptionReport
	nks  []rtcp.NackPair
	pkts []rtcp.Packet
}

func newRtcpObjs() *rtcpObjs {
	return &rtcpObjs{app: &rtcp.ApplicationDefined{}, rr: &rtcp.ReceiverReport{}, nk: &rtcp.TransportLayerNack{},
		data: make([]byte, 16), reps: make([]rtcp.ReceptionReport, 2), nks: make([]rtcp.NackPair, 2), pkts: make([]rtcp.Packet, 3)}
}

func (o *rtcpObjs) fill(s spec) []rtcp.Packet {
	data := o.data[:4*(1+s.Ext%4)]
	for i := range data {
		data[i] = byte(int(s.Seq) + i*11 + 3)
	}
	*o.app = rtcp.ApplicationDefined{SSRC: mediaSSRC, Name: "c13o", Data: data}
	o.reps[0] = rtcp.ReceptionReport{SSRC: 5, LastSequenceNumber: uint32(s.Seq), Jitter: uint32(s.PayLen)} //nolint:gosec
	*o.rr = rtcp.ReceiverReport{SSRC: mediaSSRC, Reports: o.reps[:1]}
	o.nks[0] = rtcp.NackPair{PacketID: s.Seq, LostPackets: rtcp.PacketBitmap(s.PayLen)} //nolint:gosec
	*o.nk = rtcp.TransportLayerNack{SenderSSRC: 1, MediaSSRC: mediaSSRC, Nacks: o.nks[:1]}
	pk := o.pkts[:0]
	switch s.PayLen % 3 {
	case 0:
		pk = append(pk, o.app)
	case 1:
		pk = append(pk, o.rr, o.app)
	default:
		pk = append(pk, o.nk, o.rr)
	}

	return pk
}

func (o *rtcpObjs) scribble(g int) {
	for i := range o.data {
		o.data[i] = byte(0xE0 + g + i)
	}
	o.app.SSRC, o.app.Name, o.app.SubType = 0xEEEEEEEE, "zzzz", 7
	for i := range o.reps {
		o.reps[i] = rtcp.ReceptionReport{SSRC: 0xEEEE, FractionLost: 200, Jitter: uint32(g)} //nolint:gosec
	}
	o.rr.SSRC = 0xEEEEEEEE
	for i := range o.nks {
		o.nks[i] = rtcp.NackPair{PacketID: 0xEEEE, LostPackets: 0xFFFF}
	}
	o.nk.MediaSSRC, o.nk.SenderSSRC = 0xEEEEEEEE, 0xEEEEEEEE
	for i := range o.pkts {
		o.pkts[i] = o.nk
	}
}

func marshalAll(pkts []rtcp.Packet) string {
	raw, err := rtcp.Marshal(pkts)

	return fmt.Sprintf("O|%d|%x|%v", len(pkts), raw, err)
}

const locPkts = 1

func runRtcpWrite(c *c13Case, cl *caller, fails *[]cq.ImplFailure) runOut {
	var out runOut
	bc := buildChain(c)
	w := bc.chain.BindRTCPWriter(interceptor.RTCPWriterFunc(func(_ []rtcp.Packet, _ interceptor.Attributes) (int, error) { return 0, nil }))
	objs := newRtcpObjs()
	type kept struct {
		idx  int
		pkts []rtcp.Packet
		want string
	}
	var keptA []kept
	sc := 0
	for i := range c.Pkts {
		if !cl.reuse {
			objs = newRtcpObjs()
		}
		pkts := objs.fill(c.Pkts[i])
		want := marshalAll(pkts)
		out.ops = append(out.ops, cq.C("XCall", xnames(reversed(c.Chain)), cq.L([]string{cq.T(cq.Z(locPkts), cq.Z(intern(want)), cq.Z(int64(len(want))))})))
		bc.drain()
		before := bc.ls.n()
		_, _ = w.Write(pkts, interceptor.Attributes{})
		if marshalAll(pkts) != want {
			cl.wrote = append(cl.wrote, int64(i))
		}
		if cl.reuse {
			sc++
			objs.scribble(sc)
			out.ops = append(out.ops, cq.C("XScribble", cq.Z(locPkts), cq.Z(intern(marshalAll(pkts)))))
		} else {
			keptA = append(keptA, kept{i, pkts, want})
		}
		bc.emission(c, i, before, nil, &out, fails)
	}
	for _, k := range keptA {
		if marshalAll(k.pkts) != k.want {
			cl.wrote = append(cl.wrote, int64(k.idx))
		}
	}
	_ = bc.chain.Close()
	out.wrote = cl.wrote

	return out
}

// outgoing RTCP through the statistics interceptor: counted before WriteRTCP returns; the
// emission is the statistics snapshot after the caller has mutated its packet objects.
func runRtcpWriteStats(c *c13Case, cl *caller, _ *[]cq.ImplFailure) runOut {
	var out runOut
	f, err := stats.NewInterceptor(stats.SetNowFunc(fixedNow))
	if err != nil {
		panic(err)
	}
	ic := must(f.NewInterceptor(""))
	rw := ic.BindLocalStream(&interceptor.StreamInfo{SSRC: mediaSSRC, ClockRate: 90000}, &sink{})
	g, _ := ic.(stats.Getter)
	for k := 0; k < 5000 && g.Get(mediaSSRC).OutboundRTPStreamStats.PacketsSent == 0; k++ {
		_, _ = rw.Write(&rtp.Header{Version: 2, SSRC: mediaSSRC, SequenceNumber: 1}, []byte{1}, interceptor.Attributes{})
		time.Sleep(50 * time.Microsecond)
	}
	w := ic.BindRTCPWriter(interceptor.RTCPWriterFunc(func(_ []rtcp.Packet, _ interceptor.Attributes) (int, error) { return 0, nil }))
	objs := newRtcpObjs()
	sc := 0
	for i := range c.Pkts {
		if !cl.reuse {
			objs = newRtcpObjs()
		}
		s := c.Pkts[i]
		s.PayLen = 3*s.PayLen + 2 // the NACK + receiver report form: the NACK is counted
		pkts := objs.fill(s)
		want := marshalAll(pkts)
		out.ops = append(out.ops, cq.C("XCall", xnames(c.Chain), cq.L([]string{cq.T(cq.Z(locPkts), cq.Z(intern(want)), cq.Z(int64(len(want))))})))
		_, _ = w.Write(pkts, interceptor.Attributes{})
		if marshalAll(pkts) != want {
			cl.wrote = append(cl.wrote, int64(i))
		}
		if cl.reuse {
			sc++
			objs.scribble(sc)
			out.ops = append(out.ops, cq.C("XScribble", cq.Z(locPkts), cq.Z(intern(marshalAll(pkts)))))
		}
		out.outs = append(out.outs, []int64{intern(fmt.Sprintf("S|%+v", *g.Get(mediaSSRC)))})
		out.ops = append(out.ops, cq.C("XEmitAll", xname(c.Chain[0])))
	}
	_ = ic.Close()
	out.wrote = cl.wrote

	return out
}

// ---- the caller's attributes MAP: one map reused for every Write and changed after it returned ----

type attrKey struct{}

// attrSink is the downstream writer: it reads the attributes it is handed only after the
// caller has changed its map (gate), so that no map access is concurrent.
type attrSink struct {
	mu   sync.Mutex
	gate chan struct{}
	got  []int64
}

func (s *attrSink) Write(_ *rtp.Header, _ []byte, a interceptor.Attributes) (int, error) {
	if !noGate {
		select {
		case <-s.gate:
		case <-time.After(500 * time.Millisecond):
		}
	}
	s.mu.Lock()
	s.got = append(s.got, intern(fmt.Sprintf("A|%v", a.Get(attrKey{}))))
	s.mu.Unlock()

	return 0, nil
}

func (s *attrSink) n() int {
	s.mu.Lock()
	defer s.mu.Unlock()

	return len(s.got)
}

const locAttr = 5

func runAttrWrite(c *c13Case, cl *caller, fails *[]cq.ImplFailure) runOut {
	var out runOut
	sk := &attrSink{gate: make(chan struct{}, 4)}
	var w interceptor.RTPWriter
	var closer func() error
	switch c.Chain[0] {
	case "AttrLeakyBucket":
		p := gcc.NewLeakyBucketPacer(200_000_000)
		p.AddStream(mediaSSRC, sk)
		w, closer = p, p.Close
	case "AttrPacing":
		f := pacing.NewInterceptor(pacing.InitialRate(400_000_000), pacing.Interval(time.Millisecond))
		ic := must(f.NewInterceptor("c13"))
		w, closer = ic.BindLocalStream(&interceptor.StreamInfo{SSRC: mediaSSRC}, sk), ic.Close
	case "AttrDumpSender":
		// the formatter (logger goroutine) is the consumer of the map
		format := func(_ *rtp.Packet, a interceptor.Attributes) string {
			_, _ = sk.Write(nil, nil, a)

			return ""
		}
		f, err := packetdump.NewSenderInterceptor(packetdump.RTPWriter(&lineSink{}), packetdump.RTPFormatter(format))
		if err != nil {
			panic(err)
		}
		ic := must(f.NewInterceptor(""))
		w, closer = ic.BindLocalStream(&interceptor.StreamInfo{SSRC: mediaSSRC}, &sink{}), ic.Close
	default:
		panic("runAttrWrite: " + c.Chain[0])
	}
	reused := interceptor.Attributes{}
	for i := range c.Pkts {
		m := reused
		if !cl.reuse {
			m = interceptor.Attributes{}
		}
		val := fmt.Sprintf("v%d/%d", c.Pkts[i].Seq, c.Pkts[i].PayLen)
		m[attrKey{}] = val
		h, p := newCaller(false).build(c.Pkts[i], false)
		if len(p) > 1400 {
			p = p[:1400]
		}
		out.ops = append(out.ops, cq.C("XCall", xnames(c.Chain), cq.L([]string{cq.T(cq.Z(locAttr), cq.Z(intern("A|"+val)), cq.Z(int64(len(m))))})))
		for { // drain a stale token
			select {
			case <-sk.gate:
				continue
			default:
			}

			break
		}
		before := sk.n()
		_, werr := w.Write(h, p, m)
		if m[attrKey{}] != val {
			cl.wrote = append(cl.wrote, int64(i))
		}
		if cl.reuse {
			garbage := fmt.Sprintf("scribbled-%d", i)
			m[attrKey{}] = garbage
			out.ops = append(out.ops, cq.C("XScribble", cq.Z(locAttr), cq.Z(intern("A|"+garbage))))
		}
		select {
		case sk.gate <- struct{}{}:
		default:
		}
		if werr != nil || !waitFor(sk.n, before+1, 3*time.Second) {
			*fails = append(*fails, cq.ImplFailure{Kind: "attr-not-delivered", Detail: fmt.Sprintf("%v: packet %d: err=%v", c.Chain, i, werr), Case: c})
		}
		sk.mu.Lock()
		got := append([]int64{}, sk.got[before:]...)
		sk.mu.Unlock()
		out.outs = append(out.outs, got)
		out.ops = append(out.ops, cq.C("XEmitAll", xname(c.Chain[0])), cq.C("XDrop", xname(c.Chain[0])))
	}
	_ = closer()
	out.wrote = cl.wrote

	return out
}

// ---- generators for set c13x ----

var xChains = map[string][][]string{
	// every parser of incoming RTCP bound before the dumper (its parse is in the attributes when
	// the dumper runs), and after it
	"rtcp-read": {
		{"RtcpNack", "DumpReceiverRtcp"}, {"RtcpReport", "DumpReceiverRtcp"}, {"RtcpStats", "DumpReceiverRtcp"},
		{"RtcpRtpfb", "DumpReceiverRtcp"}, {"RtcpCc", "DumpReceiverRtcp"},
		{"DumpReceiverRtcp", "RtcpNack"}, {"DumpReceiverRtcp", "RtcpReport"},
		{"RtcpCc", "RtcpNack", "DumpReceiverRtcp"}, {"RtcpNack", "RtcpReport", "RtcpStats", "RtcpRtpfb", "DumpReceiverRtcp"},
	},
	"rtp-read": {
		{"RtpNackGen", "DumpReceiver"}, {"RtpReport", "DumpReceiver"}, {"StatsIn", "DumpReceiver"}, {"TwccSender", "DumpReceiver"},
		{"DumpReceiver", "RtpNackGen"}, {"RtpNackGen", "RtpReport", "StatsIn", "TwccSender", "DumpReceiver"},
	},
	"rtp-write": {
		{"NackCopy", "DumpSender"}, {"DumpSender", "NackCopy"}, {"FlexFec", "DumpSender"}, {"DumpSender", "FlexFec"},
		{"StatsOut", "DumpSender"}, {"Rtpfb", "DumpSender"}, {"DumpSender", "Rtpfb", "NackCopy"},
	},
	"rtcp-write":       {{"DumpSenderRtcp"}},
	"rtcp-write-stats": {{"StatsRtcpOut"}},
	"attr-write":       {{"AttrLeakyBucket"}, {"AttrPacing"}, {"AttrDumpSender"}},
}

var xKinds = []string{"rtcp-read", "rtp-read", "rtp-write", "rtcp-write", "rtcp-write-stats", "attr-write"}

// kinds replayed under the race detector (thorough tier): not rtcp-write, whose race between the
// logger goroutine and the caller mutating its packet objects is outside the property text, and
// not attr-write (outside the property text; ungated concurrent map access is a fatal runtime error)
var xRaceKinds = []string{"sized", "rtcp-read", "rtp-read", "rtp-write", "rtcp-write-stats"}

var xSized = []string{"LeakyBucket", "NackCopy", "Pacing"}

func genXCase(r *rand.Rand, kind string) (c13Case, []string) {
	if kind == "sized" {
		comp := xSized[r.Intn(len(xSized))]
		c, b := genCase(r, comp)
		c.X = true
		for i := range c.Pkts {
			if r.Intn(2) == 0 {
				c.Pkts[i].PayLen = edgeSizes[r.Intn(len(edgeSizes))]
			}
		}

		return c, b
	}
	chains := xChains[kind]
	c := c13Case{Comp: "Chain", Kind: kind, Chain: chains[r.Intn(len(chains))]}
	c.Pkts = genPkts(r, 1+r.Intn(5), false, false)
	b := []string{}
	if kind == "rtp-read" {
		for i := range c.Pkts {
			if c.Pkts[i].Ext < 2 {
				c.Pkts[i].Ext = 2 // the transport-wide sequence number extension
			}
		}
	}

	return c, b
}
