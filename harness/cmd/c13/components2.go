package main

import (
	"bytes"
	"fmt"
	"sort"
	"sync"
	"time"

	"github.com/pion/interceptor"
	"github.com/pion/interceptor/pkg/gcc"
	"github.com/pion/interceptor/pkg/jitterbuffer"
	"github.com/pion/interceptor/pkg/nack"
	"github.com/pion/interceptor/pkg/pacing"
	"github.com/pion/interceptor/pkg/packetdump"
	"github.com/pion/interceptor/pkg/rtpfb"
	"github.com/pion/interceptor/pkg/stats"
	"github.com/pion/interceptor/pkg/twcc"
	"github.com/pion/rtcp"
	"github.com/pion/rtp"

	"verifharness/internal/cq"
)

const transportCCURI = "http://www.ietf.org/id/draft-holmer-rmcat-transport-wide-cc-extensions-01"

func init() {
	runners["NackRtx"] = runNackRtx
	runners["LeakyBucket"] = func(c *c13Case, cl *caller, f *[]cq.ImplFailure) runOut { return runPacer(c, cl, f, true) }
	runners["Pacing"] = func(c *c13Case, cl *caller, f *[]cq.ImplFailure) runOut { return runPacer(c, cl, f, false) }
	runners["StatsOut"] = runStatsOut
	runners["StatsIn"] = runStatsIn
	runners["Rtpfb"] = runRtpfb
	runners["DumpReceiver"] = runDumpReceiver
	runners["DumpReceiverRtcp"] = runDumpReceiverRtcp
	runners["JBInterceptor"] = runJBInterceptor
	runners["JBPush"] = runJBPush
	runners["TwccSender"] = runTwccSender
}

// flushPoints: emission after At calls for every event, and always after the last call.
func flushAt(c *c13Case) map[int]bool {
	m := map[int]bool{len(c.Pkts): true}
	for _, e := range c.Evs {
		if e.At >= 1 && e.At <= len(c.Pkts) {
			m[e.At] = true
		}
	}

	return m
}

// ---- NACK responder with a retransmission stream (RFC 4588 form) ----

func runNackRtx(c *c13Case, cl *caller, fails *[]cq.ImplFailure) runOut {
	var out runOut
	f, err := nack.NewResponderInterceptor()
	if err != nil {
		panic(err)
	}
	ic, err := f.NewInterceptor("")
	if err != nil {
		panic(err)
	}
	var mu sync.Mutex
	var got []int64
	sk := interceptor.RTPWriterFunc(func(h *rtp.Header, p []byte, _ interceptor.Attributes) (int, error) {
		if h.SSRC != 0x0DDBA11 {
			return 0, nil
		}
		hc := h.Clone()
		hc.SequenceNumber = 0 // random RTX sequencer: not comparable between runs
		mu.Lock()
		got = append(got, wire(&hc, p))
		mu.Unlock()

		return 0, nil
	})
	n := func() int { mu.Lock(); defer mu.Unlock(); return len(got) }
	info := &interceptor.StreamInfo{SSRC: mediaSSRC, RTCPFeedback: []interceptor.RTCPFeedback{{Type: "nack"}},
		SSRCRetransmission: 0x0DDBA11, PayloadTypeRetransmission: 97}
	w := ic.BindLocalStream(info, sk)
	var pending []byte
	rr := ic.BindRTCPReader(interceptor.RTCPReaderFunc(func(b []byte, a interceptor.Attributes) (int, interceptor.Attributes, error) {
		return copy(b, pending), a, nil
	}))
	calls := 0
	stored := map[int]int{}
	fire := func(e ev) {
		if e.K >= len(c.Pkts) {
			return
		}
		raw, err := (&rtcp.TransportLayerNack{SenderSSRC: 1, MediaSSRC: mediaSSRC, Nacks: []rtcp.NackPair{{PacketID: c.Pkts[e.K].Seq}}}).Marshal()
		if err != nil {
			panic(err)
		}
		pending = raw
		before := n()
		_, _, _ = rr.Read(make([]byte, 1500), interceptor.Attributes{})
		k, have := stored[e.K]
		if e.K < calls && have {
			if !waitFor(n, before+1, 2*time.Second) {
				*fails = append(*fails, cq.ImplFailure{Kind: "no-retransmission", Detail: fmt.Sprintf("NACK for stored packet %d not answered", e.K), Case: c})
			}
			time.Sleep(200 * time.Microsecond)
		} else {
			k = len(c.Pkts) + e.K
			time.Sleep(3 * time.Millisecond)
		}
		mu.Lock()
		out.outs = append(out.outs, append([]int64{}, got[before:]...))
		mu.Unlock()
		out.ops = append(out.ops, c.emitOp(k))
	}
	ei := 0
	for i := range c.Pkts {
		for ei < len(c.Evs) && c.Evs[ei].At <= i {
			fire(c.Evs[ei])
			ei++
		}
		if writeCall(c, cl, w, i, false, &out) {
			stored[i] = len(stored)
		}
		calls++
		out.ops = append(out.ops, cl.scribble()...)
	}
	for ; ei < len(c.Evs); ei++ {
		fire(c.Evs[ei])
	}
	cl.final(len(c.Pkts))
	_ = ic.Close()
	out.wrote = cl.wrote

	return out
}

// ---- pacers ----

func runPacer(c *c13Case, cl *caller, fails *[]cq.ImplFailure, leaky bool) runOut {
	var out runOut
	sk := &sink{}
	var w interceptor.RTPWriter
	var closer func() error
	if leaky {
		p := gcc.NewLeakyBucketPacer(200_000_000)
		p.AddStream(mediaSSRC, sk)
		w, closer = p, p.Close
	} else {
		f := pacing.NewInterceptor(pacing.InitialRate(400_000_000), pacing.Interval(time.Millisecond))
		ic, err := f.NewInterceptor("c13")
		if err != nil {
			panic(err)
		}
		w, closer = ic.BindLocalStream(&interceptor.StreamInfo{SSRC: mediaSSRC}, sk), ic.Close
	}
	fl := flushAt(c)
	done := 0
	accepted := 0
	for i := range c.Pkts {
		if writeCall(c, cl, w, i, false, &out) {
			accepted++
		}
		out.ops = append(out.ops, cl.scribble()...)
		if fl[i+1] {
			if !waitFor(sk.n, accepted, 3*time.Second) {
				*fails = append(*fails, cq.ImplFailure{Kind: "not-delivered", Detail: fmt.Sprintf("%d of %d accepted packets delivered", sk.n(), accepted), Case: c})
			}
			time.Sleep(300 * time.Microsecond)
			sk.mu.Lock()
			got := append([][4]int64{}, sk.pk[done:]...)
			done = len(sk.pk)
			sk.mu.Unlock()
			out.outs = append(out.outs, flatParts(got))
			out.ops = append(out.ops, c.emitAllOp(), c.dropOp())
		}
	}
	cl.final(len(c.Pkts))
	_ = closer()
	out.wrote = cl.wrote

	return out
}

// ---- statistics ----

func fixedNow() time.Time { return time.Unix(1_700_000_000, 0) }

func runStatsOut(c *c13Case, cl *caller, _ *[]cq.ImplFailure) runOut {
	var out runOut
	f, err := stats.NewInterceptor(stats.SetNowFunc(fixedNow))
	if err != nil {
		panic(err)
	}
	ic, err := f.NewInterceptor("")
	if err != nil {
		panic(err)
	}
	w := ic.BindLocalStream(&interceptor.StreamInfo{SSRC: mediaSSRC, ClockRate: 90000}, &sink{})
	g, _ := ic.(stats.Getter)
	// the recorder is started on its own goroutine and ignores packets until then:
	// probe (with memory of its own) until exactly one probe has been counted
	for k := 0; k < 5000 && g.Get(mediaSSRC).OutboundRTPStreamStats.PacketsSent == 0; k++ {
		_, _ = w.Write(&rtp.Header{Version: 2, SSRC: mediaSSRC, SequenceNumber: 1}, []byte{1}, interceptor.Attributes{})
		time.Sleep(50 * time.Microsecond)
	}
	fl := flushAt(c)
	for i := range c.Pkts {
		writeCall(c, cl, w, i, false, &out)
		out.ops = append(out.ops, cl.scribble()...)
		if fl[i+1] {
			out.outs = append(out.outs, []int64{intern(fmt.Sprintf("S|%+v", *g.Get(mediaSSRC)))})
			out.ops = append(out.ops, cq.C("EmitAll", c.Comp))
		}
	}
	cl.final(len(c.Pkts))
	_ = ic.Close()
	out.wrote = cl.wrote

	return out
}

// readCall performs one Read into the caller's read buffer; upstream delivers packet i.
// exact: the caller passes a buffer of exactly the packet's size (a slice of its reused buffer).
func readCall(c *c13Case, cl *caller, rd interceptor.RTPReader, pending *[]byte, i int, twccExt bool, checkBuf bool, out *runOut) (int, []byte, error) {
	h, p := newCaller(false).build(c.Pkts[i], twccExt)
	raw := marshalPkt(h, p)
	*pending = raw
	b := cl.readBuf()
	if !checkBuf {
		// jitter-buffer interceptor: it allocates len(b) bytes and (until the fix for F28) parses all of them
		b = b[:len(raw)]
	}
	out.ops = append(out.ops, readCallOp(c.Comp, raw))
	n, _, err := rd.Read(b, interceptor.Attributes{})
	if checkBuf && !bytes.Equal(b[:len(raw)], raw) {
		cl.wrote = append(cl.wrote, int64(i))
	}
	if !cl.reuse && checkBuf {
		cl.held = append(cl.held, held{idx: i, h: &rtp.Header{}, p: b[:len(raw)], wp: raw})
	}
	var res []byte
	if err == nil && n <= len(b) {
		res = append([]byte(nil), b[:n]...)
	}
	out.ops = append(out.ops, cl.scribbleRead(len(raw))...)

	return n, res, err
}

func upstream(pending *[]byte) interceptor.RTPReader {
	return interceptor.RTPReaderFunc(func(b []byte, a interceptor.Attributes) (int, interceptor.Attributes, error) {
		return copy(b, *pending), a, nil
	})
}

func runStatsIn(c *c13Case, cl *caller, _ *[]cq.ImplFailure) runOut {
	var out runOut
	f, err := stats.NewInterceptor(stats.SetNowFunc(fixedNow))
	if err != nil {
		panic(err)
	}
	ic, err := f.NewInterceptor("")
	if err != nil {
		panic(err)
	}
	var pending []byte
	rd := ic.BindRemoteStream(&interceptor.StreamInfo{SSRC: mediaSSRC, ClockRate: 90000}, upstream(&pending))
	g, _ := ic.(stats.Getter)
	pending = marshalPkt(&rtp.Header{Version: 2, SSRC: mediaSSRC, SequenceNumber: 1}, []byte{1})
	for k := 0; k < 5000 && g.Get(mediaSSRC).InboundRTPStreamStats.PacketsReceived == 0; k++ {
		_, _, _ = rd.Read(make([]byte, 1500), interceptor.Attributes{})
		time.Sleep(50 * time.Microsecond)
	}
	fl := flushAt(c)
	for i := range c.Pkts {
		_, _, _ = readCall(c, cl, rd, &pending, i, false, true, &out)
		if fl[i+1] {
			out.outs = append(out.outs, []int64{intern(fmt.Sprintf("S|%+v", *g.Get(mediaSSRC)))})
			out.ops = append(out.ops, cq.C("EmitAll", c.Comp))
		}
	}
	cl.final(0)
	_ = ic.Close()
	out.wrote = cl.wrote

	return out
}

// ---- rtpfb: history of outgoing packets -> reports on congestion control feedback ----

func runRtpfb(c *c13Case, cl *caller, _ *[]cq.ImplFailure) runOut {
	var out runOut
	f, err := rtpfb.NewInterceptor()
	if err != nil {
		panic(err)
	}
	ic, err := f.NewInterceptor("")
	if err != nil {
		panic(err)
	}
	w := ic.BindLocalStream(&interceptor.StreamInfo{SSRC: mediaSSRC}, &sink{})
	var pending []byte
	rr := ic.BindRTCPReader(interceptor.RTCPReaderFunc(func(b []byte, a interceptor.Attributes) (int, interceptor.Attributes, error) {
		return copy(b, pending), a, nil
	}))
	fl := flushAt(c)
	first := 0
	for i := range c.Pkts {
		writeCall(c, cl, w, i, false, &out)
		out.ops = append(out.ops, cl.scribble()...)
		if fl[i+1] {
			blocks := make([]rtcp.CCFeedbackMetricBlock, 0, i+1-first)
			for s := c.Pkts[first].Seq; ; s++ {
				blocks = append(blocks, rtcp.CCFeedbackMetricBlock{Received: true, ArrivalTimeOffset: 1})
				if s == c.Pkts[i].Seq {
					break
				}
			}
			raw, err := (&rtcp.CCFeedbackReport{SenderSSRC: 9, ReportTimestamp: 1 << 16, ReportBlocks: []rtcp.CCFeedbackReportBlock{
				{MediaSSRC: mediaSSRC, BeginSequence: c.Pkts[first].Seq, MetricBlocks: blocks},
			}}).Marshal()
			if err != nil {
				panic(err)
			}
			pending = raw
			_, attr, _ := rr.Read(make([]byte, 1500), interceptor.Attributes{})
			rep := []string{}
			if r, ok := attr.Get(rtpfb.CCFBAttributesKey).(rtpfb.Report); ok {
				for _, pr := range r.PacketReports {
					rep = append(rep, fmt.Sprintf("%d/%d/%d/%v/%d/%d/%v", pr.SSRC, pr.SequenceNumber, pr.RTPSequenceNumber, pr.IsTWCC, pr.TWCCSequenceNumber, pr.Size, pr.Arrived))
				}
			}
			sort.Strings(rep)
			out.outs = append(out.outs, []int64{intern("F|" + fmt.Sprint(rep))})
			out.ops = append(out.ops, cq.C("EmitAll", c.Comp), cq.C("Drop", c.Comp))
			first = i + 1
		}
	}
	cl.final(len(c.Pkts))
	_ = ic.Close()
	out.wrote = cl.wrote

	return out
}

// ---- packetdump receiver ----

func runDumpReceiver(c *c13Case, cl *caller, fails *[]cq.ImplFailure) runOut {
	var out runOut
	ls := &lineSink{}
	gate := make(chan struct{}, 4)
	f, err := packetdump.NewReceiverInterceptor(packetdump.RTPWriter(ls), packetdump.RTPFormatter(dumpFormatter(gate)))
	if err != nil {
		panic(err)
	}
	ic, err := f.NewInterceptor("")
	if err != nil {
		panic(err)
	}
	var pending []byte
	rd := ic.BindRemoteStream(&interceptor.StreamInfo{SSRC: mediaSSRC}, upstream(&pending))
	for i := range c.Pkts {
		before := ls.n()
		_, _, _ = readCall(c, cl, rd, &pending, i, false, true, &out)
		select {
		case gate <- struct{}{}:
		default:
		}
		if !waitFor(ls.n, before+1, 2*time.Second) {
			*fails = append(*fails, cq.ImplFailure{Kind: "no-dump", Detail: fmt.Sprintf("packet %d not dumped", i), Case: c})
		}
		ls.mu.Lock()
		got := append([]int64{}, ls.lines[before:]...)
		ls.mu.Unlock()
		out.outs = append(out.outs, got)
		out.ops = append(out.ops, cq.C("EmitAll", c.Comp), cq.C("Drop", c.Comp))
	}
	cl.final(0)
	_ = ic.Close()
	out.wrote = cl.wrote

	return out
}

// ---- jitter buffer: receiver interceptor (own buffer) and direct Push (documented exception) ----

func runJBInterceptor(c *c13Case, cl *caller, fails *[]cq.ImplFailure) runOut {
	var out runOut
	f, err := jitterbuffer.NewInterceptor()
	if err != nil {
		panic(err)
	}
	ic, err := f.NewInterceptor("")
	if err != nil {
		panic(err)
	}
	var pending []byte
	rd := ic.BindRemoteStream(&interceptor.StreamInfo{SSRC: mediaSSRC}, upstream(&pending))
	idx := map[uint16]int{}
	for i, s := range c.Pkts {
		idx[s.Seq] = i
	}
	for i := range c.Pkts {
		_, res, err := readCall(c, cl, rd, &pending, i, false, false, &out)
		if err != nil || len(res) < 4 {
			continue
		}
		// the Scribble was appended after the Call; the pop happened inside the call
		k, ok := idx[uint16(res[2])<<8|uint16(res[3])]
		if !ok {
			*fails = append(*fails, cq.ImplFailure{Kind: "unknown-pop", Detail: fmt.Sprintf("read %d returned an unknown packet", i), Case: c})

			continue
		}
		sc := []string{}
		if cl.reuse {
			sc = append(sc, out.ops[len(out.ops)-1])
			out.ops = out.ops[:len(out.ops)-1]
		}
		out.ops = append(out.ops, cq.C("Emit", c.Comp, nat(k)))
		out.ops = append(out.ops, sc...)
		out.outs = append(out.outs, []int64{intern("R|" + string(res))})
	}
	_ = ic.Close()
	out.wrote = cl.wrote

	return out
}

func runJBPush(c *c13Case, cl *caller, fails *[]cq.ImplFailure) runOut {
	var out runOut
	jb := jitterbuffer.New(jitterbuffer.WithMinimumPacketCount(1))
	reused := &rtp.Packet{}
	if cl.reuse {
		cl.hdr = &reused.Header
	}
	for i := range c.Pkts {
		h, p := cl.build(c.Pkts[i], false)
		out.ops = append(out.ops, callOp(c, h, p))
		cl.before(h, p)
		pkt := reused
		if cl.reuse {
			pkt.Payload = p
		} else {
			pkt = &rtp.Packet{Header: *h, Payload: p}
			h = &pkt.Header
		}
		jb.Push(pkt)
		cl.after(i, h, p)
		out.ops = append(out.ops, cl.scribble()...)
	}
	for k := range c.Pkts {
		pkt, err := jb.Pop()
		if err != nil {
			*fails = append(*fails, cq.ImplFailure{Kind: "pop-failed", Detail: fmt.Sprintf("pop %d: %v", k, err), Case: c})

			break
		}
		if !cl.reuse && pkt.SequenceNumber != c.Pkts[k].Seq {
			*fails = append(*fails, cq.ImplFailure{Kind: "pop-order", Detail: fmt.Sprintf("pop %d returned %d", k, pkt.SequenceNumber), Case: c})
		}
		ps := parts(&pkt.Header, pkt.Payload)
		out.outs = append(out.outs, ps[:])
		out.ops = append(out.ops, cq.C("Emit", c.Comp, nat(k)))
	}
	cl.final(len(c.Pkts))
	out.wrote = cl.wrote

	return out
}

// ---- TWCC sender interceptor: parsed header data handed to the feedback goroutine ----

func twccReceived(pkts []rtcp.Packet, into map[uint16]bool) {
	for _, p := range pkts {
		t, ok := p.(*rtcp.TransportLayerCC)
		if !ok {
			continue
		}
		seq := t.BaseSequenceNumber
		left := int(t.PacketStatusCount)
		for _, ch := range t.PacketChunks {
			switch v := ch.(type) {
			case *rtcp.RunLengthChunk:
				for j := 0; j < int(v.RunLength) && left > 0; j++ {
					if v.PacketStatusSymbol != rtcp.TypeTCCPacketNotReceived {
						into[seq] = true
					}
					seq++
					left--
				}
			case *rtcp.StatusVectorChunk:
				for _, sy := range v.SymbolList {
					if left <= 0 {
						break
					}
					if sy != rtcp.TypeTCCPacketNotReceived {
						into[seq] = true
					}
					seq++
					left--
				}
			}
		}
	}
}

func runTwccSender(c *c13Case, cl *caller, fails *[]cq.ImplFailure) runOut {
	var out runOut
	f, err := twcc.NewSenderInterceptor(twcc.SendInterval(2 * time.Millisecond))
	if err != nil {
		panic(err)
	}
	ic, err := f.NewInterceptor("")
	if err != nil {
		panic(err)
	}
	var mu sync.Mutex
	recv := map[uint16]bool{}
	ic.BindRTCPWriter(interceptor.RTCPWriterFunc(func(pkts []rtcp.Packet, _ interceptor.Attributes) (int, error) {
		mu.Lock()
		twccReceived(pkts, recv)
		mu.Unlock()

		return 0, nil
	}))
	var pending []byte
	rd := ic.BindRemoteStream(&interceptor.StreamInfo{SSRC: mediaSSRC, RTPHeaderExtensions: []interceptor.RTPHeaderExtension{{URI: transportCCURI, ID: 1}}}, upstream(&pending))
	for i := range c.Pkts {
		_, _, _ = readCall(c, cl, rd, &pending, i, true, true, &out)
	}
	n := func() int { mu.Lock(); defer mu.Unlock(); return len(recv) }
	if !waitFor(n, len(c.Pkts), 2*time.Second) {
		*fails = append(*fails, cq.ImplFailure{Kind: "no-feedback", Detail: fmt.Sprintf("%d of %d packets acknowledged", n(), len(c.Pkts)), Case: c})
	}
	time.Sleep(3 * time.Millisecond)
	mu.Lock()
	seqs := make([]int, 0, len(recv))
	for s := range recv {
		seqs = append(seqs, int(s))
	}
	mu.Unlock()
	sort.Ints(seqs)
	out.outs = append(out.outs, []int64{intern("T|" + fmt.Sprint(seqs))})
	out.ops = append(out.ops, cq.C("EmitAll", c.Comp))
	cl.final(0)
	_ = ic.Close()
	out.wrote = cl.wrote

	return out
}

// ---- packetdump receiver, RTCP: packets parsed from the caller's read buffer go to the logger goroutine ----

func rtcpOf(s spec) []byte {
	data := make([]byte, 4*(1+s.Ext%4))
	for i := range data {
		data[i] = byte(int(s.Seq) + i*11 + 3)
	}
	var raw []byte
	var err error
	switch s.PayLen % 3 {
	case 0:
		raw, err = (&rtcp.ApplicationDefined{SSRC: mediaSSRC, Name: "c13x", Data: data}).Marshal()
	case 1:
		// receiver report with a profile-specific extension (appended by hand: pion/rtcp's
		// Marshal does not count the extension in the length field)
		raw, err = (&rtcp.ReceiverReport{SSRC: mediaSSRC, Reports: []rtcp.ReceptionReport{{SSRC: 5, LastSequenceNumber: uint32(s.Seq)}}}).Marshal()
		raw = append(raw, data...)
		raw[2], raw[3] = byte((len(raw)/4-1)>>8), byte(len(raw)/4-1)
	default: // a packet type pion/rtcp does not know: kept as RawPacket
		raw = append([]byte{0x80, 222, 0, byte(len(data) / 4)}, data...)
	}
	if err != nil {
		panic(err)
	}

	return raw
}

func runDumpReceiverRtcp(c *c13Case, cl *caller, fails *[]cq.ImplFailure) runOut {
	var out runOut
	ls := &lineSink{}
	gate := make(chan struct{}, 4)
	format := func(pkts []rtcp.Packet, _ interceptor.Attributes) string {
		if !noGate {
			select {
			case <-gate:
			case <-time.After(500 * time.Millisecond):
			}
		}
		s := ""
		for _, p := range pkts {
			raw, err := p.Marshal()
			s += fmt.Sprintf("%T %+v %x %v\n", p, p, raw, err)
		}

		return s
	}
	f, err := packetdump.NewReceiverInterceptor(packetdump.RTCPWriter(ls), packetdump.RTCPFormatter(format))
	if err != nil {
		panic(err)
	}
	ic, err := f.NewInterceptor("")
	if err != nil {
		panic(err)
	}
	var pending []byte
	rr := ic.BindRTCPReader(interceptor.RTCPReaderFunc(func(b []byte, a interceptor.Attributes) (int, interceptor.Attributes, error) {
		return copy(b, pending), a, nil
	}))
	for i := range c.Pkts {
		before := ls.n()
		raw := rtcpOf(c.Pkts[i])
		pending = raw
		b := cl.readBuf()
		out.ops = append(out.ops, readCallOp(c.Comp, raw))
		_, _, rerr := rr.Read(b, interceptor.Attributes{})
		if rerr != nil {
			*fails = append(*fails, cq.ImplFailure{Kind: "rtcp-read-error", Detail: rerr.Error(), Case: c})
		}
		if !bytes.Equal(b[:len(raw)], raw) {
			cl.wrote = append(cl.wrote, int64(i))
		}
		if !cl.reuse {
			cl.held = append(cl.held, held{idx: i, h: &rtp.Header{}, p: b[:len(raw)], wp: raw})
		}
		out.ops = append(out.ops, cl.scribbleRead(len(raw))...)
		select {
		case gate <- struct{}{}:
		default:
		}
		if !waitFor(ls.n, before+1, 2*time.Second) {
			*fails = append(*fails, cq.ImplFailure{Kind: "no-dump", Detail: fmt.Sprintf("rtcp packet %d not dumped", i), Case: c})
		}
		ls.mu.Lock()
		got := append([]int64{}, ls.lines[before:]...)
		ls.mu.Unlock()
		out.outs = append(out.outs, got)
		out.ops = append(out.ops, cq.C("EmitAll", c.Comp), cq.C("Drop", c.Comp))
	}
	cl.final(0)
	_ = ic.Close()
	out.wrote = cl.wrote

	return out
}
