// Sets c18jbl* / c18pql: LONG histories of the jitter buffer and of the exported
// priority queue - 2^16 buffered packets and more, so that the queue's uint16
// length counter wraps, and minimum-start counts far above the overflow length
// (up to 65535).
//
// A long case is stored and printed run-length compressed; Check/C18dCheck.v
// expands it inside Coq:
//
//	{k: "pushrun", n, a: sq0, d: dsq, b: ts0, e: dts}   n pushes, the i-th with sequence number
//	                                                    (sq0 + i*dsq) mod 2^16, timestamp (ts0 + i*dts) mod 2^32
//	{k: "qpushrun", n, a: prio0, d: dprio, b: sq0, e: dsq, c: ts0, f: dts}
//	{k: <any single operation>, n}                      the same call n times (n omitted: once)
//
// outputs: {n, <outcome>} = n consecutive calls with that outcome.
package main

import (
	"fmt"
	"math/rand"
	"sort"

	"verifharness/internal/cq"
)

type runJ struct {
	N int64 `json:"n"`
	outJ
}

type jblCase struct {
	Min   int64  `json:"min"`
	Lops  []opJ  `json:"lops"`
	Louts []runJ `json:"louts"`
}

type pqlCase struct {
	Lops  []opJ  `json:"lops"`
	Louts []runJ `json:"louts"`
}

// expand calls f for every single operation a compressed operation stands for, until f returns false.
func expand(l opJ, f func(opJ) bool) bool {
	switch l.K {
	case "pushrun":
		sq, ts := uint16(l.A), uint32(l.B) //nolint:gosec
		for i := int64(0); i < l.N; i++ {
			if !f(opJ{K: "push", A: int64(sq), B: int64(ts)}) {
				return false
			}
			sq += uint16(l.D) //nolint:gosec
			ts += uint32(l.E) //nolint:gosec
		}
	case "qpushrun":
		pr, sq, ts := uint16(l.A), uint16(l.B), uint32(l.C) //nolint:gosec
		for i := int64(0); i < l.N; i++ {
			if !f(opJ{K: "qpush", A: int64(pr), B: int64(sq), C: int64(ts)}) {
				return false
			}
			pr += uint16(l.D) //nolint:gosec
			sq += uint16(l.E) //nolint:gosec
			ts += uint32(l.F) //nolint:gosec
		}
	default:
		n := l.N
		if n < 1 {
			n = 1
		}
		one := l
		one.N = 0
		for i := int64(0); i < n; i++ {
			if !f(one) {
				return false
			}
		}
	}

	return true
}

func sameOut(a, b outJ) bool {
	if a.K != b.K || a.A != b.A || a.B != b.B || a.C != b.C || len(a.Ev) != len(b.Ev) {
		return false
	}
	for i := range a.Ev {
		if a.Ev[i] != b.Ev[i] {
			return false
		}
	}

	return true
}

// compress appends o to the run-length compressed output list.
func compress(runs []runJ, o outJ) []runJ {
	if n := len(runs); n > 0 && sameOut(runs[n-1].outJ, o) {
		runs[n-1].N++

		return runs
	}

	return append(runs, runJ{N: 1, outJ: o})
}

func lopCoq(o opJ, q bool) string {
	pre := "L"
	if q {
		pre = "LQ"
	}
	switch o.K {
	case "pushrun":
		return cq.C("LPushRun", cq.Z(o.N), cq.Z(o.A), cq.Z(o.D), cq.Z(o.B), cq.Z(o.E))
	case "qpushrun":
		return cq.C("LQPushRun", cq.Z(o.N), cq.Z(o.A), cq.Z(o.D), cq.Z(o.B), cq.Z(o.E), cq.Z(o.C), cq.Z(o.F))
	}
	one := o
	one.N = 0
	if o.N > 1 {
		return cq.C(pre+"Rep", cq.Z(o.N), opCoq(one))
	}

	return cq.C(pre+"One", opCoq(one))
}

func lopsCoq(lops []opJ, q bool) string {
	os := make([]string, len(lops))
	for i, o := range lops {
		os[i] = lopCoq(o, q)
	}

	return cq.L(os)
}

func failedLast(louts []runJ) (string, bool) {
	if n := len(louts); n > 0 && (louts[n-1].K == "hang" || louts[n-1].K == "panic") {
		return louts[n-1].K, true
	}

	return "", false
}

func bucketList(buckets map[string]bool) []string {
	bs := make([]string, 0, len(buckets))
	for b := range buckets {
		bs = append(bs, b)
	}
	sort.Strings(bs)

	return bs
}

func (c jblCase) toCase(buckets map[string]bool) cq.Case {
	rs := make([]string, len(c.Louts))
	npkt := 0
	for i, o := range c.Louts {
		rs[i] = cq.T(cq.Z(o.N), cq.T(outCoq(o.outJ), cq.LZ(o.Ev)))
		if o.K == "pkt" {
			npkt++
		}
	}
	if k, bad := failedLast(c.Louts); bad {
		noteFailure(k, c, len(c.Louts)-1)
	}

	return cq.Case{
		Coq: cq.T(cq.Z(c.Min), lopsCoq(c.Lops, false), cq.L(rs)), JSON: c, Buckets: bucketList(buckets), Trivial: npkt < 1,
	}
}

func (c pqlCase) toCase(buckets map[string]bool) cq.Case {
	rs := make([]string, len(c.Louts))
	npkt := 0
	for i, o := range c.Louts {
		rs[i] = cq.T(cq.Z(o.N), outCoq(o.outJ))
		if o.K == "pkt" {
			npkt++
		}
	}
	if k, bad := failedLast(c.Louts); bad {
		noteFailure(k, c, len(c.Louts)-1)
	}

	return cq.Case{Coq: cq.T(lopsCoq(c.Lops, true), cq.L(rs)), JSON: c, Buckets: bucketList(buckets), Trivial: npkt < 1}
}

// longJB drives one JitterBuffer through a compressed history, one compressed operation at a time.
type longJB struct {
	r     *jbRunner
	c     jblCase
	count int64 // pushes minus packets handed out by pops since the last Clear
	seqs  map[int64]int64
	tss   map[int64]int64
}

func newLongJB(min int64) *longJB {
	r := newJB(min)
	r.long = true

	return &longJB{r: r, c: jblCase{Min: min}, seqs: map[int64]int64{}, tss: map[int64]int64{}}
}

// do runs one compressed operation; it returns the outcome of the last call made.
func (l *longJB) do(o opJ) outJ {
	var last outJ
	if l.r.dead {
		return outJ{K: "dead"}
	}
	l.c.Lops = append(l.c.Lops, o)
	expand(o, func(one opJ) bool {
		last = l.r.do(one)
		l.c.Louts = compress(l.c.Louts, last)
		switch {
		case one.K == "push":
			l.count++
			l.seqs[one.A]++
			l.tss[one.B]++
		case one.K == "clear":
			l.count = 0
			l.seqs, l.tss = map[int64]int64{}, map[int64]int64{}
		case last.K == "pkt" && (one.K == "pop" || one.K == "popseq" || one.K == "popts"):
			l.count--
			l.seqs[last.B]--
			l.tss[last.C]--
		}

		return last.K != "hang" && last.K != "panic"
	})

	return last
}

func replayJBL(c jblCase) jblCase {
	l := newLongJB(c.Min)
	for _, o := range c.Lops {
		if l.do(o); l.r.dead {
			break
		}
	}

	return l.c
}

// longPQ drives one PriorityQueue through a compressed history.
type longPQ struct {
	r *pqRunner
	c pqlCase
}

func (l *longPQ) do(o opJ) outJ {
	var last outJ
	if l.r.dead {
		return outJ{K: "dead"}
	}
	l.c.Lops = append(l.c.Lops, o)
	expand(o, func(one opJ) bool {
		last = l.r.do(one)
		l.c.Louts = compress(l.c.Louts, last)

		return last.K != "hang" && last.K != "panic"
	})

	return last
}

func newLongPQ() *longPQ {
	r := newPQ()
	r.long = true

	return &longPQ{r: r}
}

func replayPQL(c pqlCase) pqlCase {
	l := newLongPQ()
	for _, o := range c.Lops {
		if l.do(o); l.r.dead {
			break
		}
	}

	return l.c
}

// ---- generators ----

// strides of a push run: descending, all equal, ascending, and small steps in either direction.
var strides = []int64{65535, 0, 1, 65534, 2, 65533, 3}

func strideName(d int64) string {
	switch {
	case d == 0:
		return "equal"
	case d == 1:
		return "asc"
	case d == 65535:
		return "desc"
	case d < 32768:
		return "asc-step"
	}

	return "desc-step"
}

// minimum-start counts of the long cases: the small ones of the short set, values around and far above the
// overflow length (100), the largest uint16.
var longMins = []int64{1, 2, 50, 100, 101, 150, 1000, 20000, 40000, 65535}

// fenwick counts the queued priorities: PriorityQueue.Push(p) walks past every queued element with a smaller
// priority, so the exact number of list steps a run costs the implementation is known before it is executed.
type fenwick [65537]int32

func (f *fenwick) add(p int64, d int32) {
	for i := p + 1; i <= 65536; i += i & -i {
		f[i] += d
	}
}

func (f *fenwick) below(p int64) int64 {
	n := int64(0)
	for i := p; i > 0; i -= i & -i {
		n += int64(f[i])
	}

	return n
}

// tryRun adds the run (n priorities from p0 with stride d) if it costs at most *budget list steps.
func (f *fenwick) tryRun(n, p0, d int64, budget *int64) bool {
	cost, p := int64(0), p0
	for i := int64(0); i < n; i++ {
		cost += f.below(p)
		f.add(p, 1)
		p = (p + d) & 0xFFFF
		if cost > *budget {
			for p = p0; i >= 0; i-- {
				f.add(p, -1)
				p = (p + d) & 0xFFFF
			}

			return false
		}
	}
	*budget -= cost

	return true
}

// pickRun chooses the stride of the next run of n pushes starting at priority p0. Runs that make Push walk far
// (ascending arrival, the second lap of any stride) are bounded by a budget of list steps per case; when it is
// used up the run degenerates to n copies of priority 0, which Push inserts at the front.
func pickRun(rnd *rand.Rand, f *fenwick, n, p0 int64, budget *int64) (int64, int64) {
	for try := 0; try < 6; try++ {
		d := strides[rnd.Intn(len(strides))]
		if f.tryRun(n, p0, d, budget) {
			return p0, d
		}
	}
	f.add(0, int32(n)) //nolint:gosec

	return 0, 0
}

// genJBL: fill the buffer up to a count at or beyond 2^16 in a few runs, look at it, Clear it, then ask for what
// was buffered before, refill and play.
func genJBL(rnd *rand.Rand, thorough bool) (jblCase, map[string]bool) { //nolint:gocyclo,cyclop
	b := map[string]bool{}
	min := longMins[rnd.Intn(len(longMins))]
	if rnd.Intn(5) == 0 {
		min = int64(rnd.Intn(65536))
	}
	b[fmt.Sprintf("min=%s", minClass(min))] = true
	l := newLongJB(min)
	fen := &fenwick{}
	budget := int64(300_000_000)
	if thorough {
		budget = 5_000_000_000
	}
	// target number of buffered packets at the Clear
	var target int64
	switch rnd.Intn(8) {
	case 0:
		target = 65536
		b["count=2^16"] = true
	case 1:
		target = 65536 + 1 + int64(rnd.Intn(6))
		b["count=2^16+few"] = true
	case 2:
		target = 65536 + 100 + int64(rnd.Intn(3000))
		b["count=2^16+many"] = true
	case 3:
		target = 2*65536 + int64(rnd.Intn(3))
		b["count=2*2^16"] = true
	case 4:
		target = 65535 - int64(rnd.Intn(3))
		b["count<2^16"] = true
	case 5:
		target = 65536
		b["count=2^16"] = true
	case 6:
		target = 65536 + 1 + int64(rnd.Intn(6))
		b["count=2^16+few"] = true
	default:
		target = 65536 + int64(rnd.Intn(200))
		b["count=2^16+some"] = true
	}
	probesLeft := 36 // calls other than Push while the buffer is huge cost the oracle O(count) each
	sq := int64(rnd.Intn(65536))
	if rnd.Intn(3) == 0 {
		sq = 65536 - 1 - int64(rnd.Intn(40))
	}
	firstSq := sq
	ts := int64(rnd.Intn(1 << 32))
	var oldSq, oldTs []int64
	remember := func(o opJ) {
		// first, last and one inner element of the run
		for _, i := range []int64{0, o.N - 1, o.N / 2} {
			oldSq = append(oldSq, (o.A+i*o.D)&0xFFFF)
			oldTs = append(oldTs, (o.B+i*o.E)&0xFFFFFFFF)
		}
	}
	probe := func() {
		if probesLeft <= 0 {
			return
		}
		probesLeft--
		var o opJ
		switch k := rnd.Intn(12); {
		case k < 4:
			o = opJ{K: "pop"}
		case k < 5 && len(oldSq) > 0:
			o = opJ{K: "popseq", A: oldSq[rnd.Intn(len(oldSq))]}
		case k < 6 && len(oldTs) > 0:
			o = opJ{K: "popts", A: oldTs[rnd.Intn(len(oldTs))]}
		case k < 8:
			o = opJ{K: "peek", A: int64(rnd.Intn(2))}
		case k < 9 && len(oldSq) > 0:
			o = opJ{K: "peekseq", A: oldSq[rnd.Intn(len(oldSq))]}
		case k < 10:
			o = opJ{K: "head"}
		default:
			o = opJ{K: "pop"}
		}
		res := l.do(o)
		switch o.K {
		case "pop", "popseq", "popts":
			if res.K == "pkt" {
				b["long-"+o.K+"-ok"] = true
			} else if res.K == "err" {
				b[fmt.Sprintf("long-%s-err%d", o.K, res.A)] = true
				if res.A == 4 && l.count > 100 {
					b["refused-above-overflow-length"] = true
				}
			}
		case "peek", "peekseq":
			b["long-"+o.K+"-"+res.K] = true
			if o.K == "peek" && l.count > 0 && l.count%65536 == 0 {
				b["peek-at-length-wrap"] = true
			}
		}
	}
	// stops: counts at which the filling pauses for a look (around the overflow length, the minimum, 2^16)
	stops := []int64{100, 101, 102, min - 1, min, min + 1, 65535, 65536, 65537}
	nextStop := func(from, to int64) int64 {
		best := to
		for _, s := range stops {
			if s > from && s < best {
				best = s
			}
		}

		return best
	}
	for l.count < target && !l.r.dead {
		// one run of at most the remaining count, cut at the next stop
		remaining := target - l.count
		n := remaining
		if rnd.Intn(3) != 0 && remaining > 10 {
			n = 1 + int64(rnd.Intn(int(remaining)))
		}
		if s := nextStop(l.count, l.count+n); s < l.count+n {
			n = s - l.count
		}
		var d int64
		sq, d = pickRun(rnd, fen, n, sq, &budget)
		b["run-"+strideName(d)] = true
		dts := int64([]int{0, 1, 3000, 90, 1 << 20}[rnd.Intn(5)])
		o := opJ{K: "pushrun", N: n, A: sq, D: d, B: ts, E: dts}
		remember(o)
		l.do(o)
		sq = (sq + n*d) & 0xFFFF
		ts = (ts + n*dts) & 0xFFFFFFFF
		if rnd.Intn(4) == 0 { // jump
			sq = int64(rnd.Intn(65536))
		}
		atStop := false
		for _, s := range stops {
			atStop = atStop || s == l.count
		}
		if l.count > 0 && l.count%65536 == 0 && probesLeft > 3 {
			// the length counter reads 0 with the buffer full: non-removing looks that do not depend on it
			// must still find what is buffered (and Peek answers as on an empty buffer)
			probesLeft -= 3
			i := rnd.Intn(len(oldSq))
			for _, o := range []opJ{{K: "peekseq", A: oldSq[i]}, {K: "peek", A: 1}, {K: "peek"}} {
				res := l.do(o)
				b["at-length-0-"+o.K+"-"+res.K] = true
			}
		}
		if atStop || rnd.Intn(3) == 0 {
			for k := rnd.Intn(3); k >= 0; k-- {
				probe()
			}
		}
	}
	if l.count >= 65536 {
		b["length-wrapped"] = true
	}
	l.do(opJ{K: "head"})
	reset := int64(rnd.Intn(2))
	clearedAt := l.count
	l.do(opJ{K: "clear", A: reset})
	b[fmt.Sprintf("clear-reset=%d", reset)] = true
	if clearedAt >= 65536 {
		b["clear-at>=2^16"] = true
		if clearedAt%65536 == 0 {
			b["clear-at-length-0"] = true
		}
	}
	// everything buffered before the Clear is gone: ask for it in every way
	oldSq = append(oldSq, firstSq, 0, 65535)
	ask := func(tag string) {
		for k := 0; k < 10 && !l.r.dead; k++ {
			i := rnd.Intn(len(oldSq))
			var o opJ
			switch rnd.Intn(6) {
			case 0:
				o = opJ{K: "peekseq", A: oldSq[i]}
			case 1:
				o = opJ{K: "popseq", A: oldSq[i]}
			case 2:
				o = opJ{K: "popts", A: oldTs[rnd.Intn(len(oldTs))]}
			case 3:
				l.do(opJ{K: "sethead", A: oldSq[i]})
				o = opJ{K: "pop"}
			case 4:
				l.do(opJ{K: "sethead", A: oldSq[i]})
				o = opJ{K: "peek", A: 1}
			default:
				o = opJ{K: "peek", A: 0}
			}
			res := l.do(o)
			b[tag+o.K+"-"+res.K] = true
		}
	}
	ask("after-clear-")
	// refill with fresh packets and play them: after Clear(true) the minimum is 50 and the first packet fixes the head
	fresh := int64(rnd.Intn(65536))
	nfresh := 50 + int64(rnd.Intn(30))
	l.do(opJ{K: "pushrun", N: nfresh, A: fresh, D: 1, B: int64(rnd.Intn(1 << 32)), E: 3000})
	if reset == 0 {
		l.do(opJ{K: "sethead", A: fresh})
	}
	l.do(opJ{K: "head"})
	if res := l.do(opJ{K: "pop", N: 5 + int64(rnd.Intn(20))}); res.K == "pkt" {
		b["played-after-clear"] = true
	}
	ask("after-refill-")

	return l.c, b
}

func minClass(min int64) string {
	switch {
	case min <= 50:
		return "<=50"
	case min <= 100:
		return "51..100"
	case min <= 300:
		return "101..300"
	case min < 65535:
		return "301..65534"
	}

	return "65535"
}

// genPQL: the same for the exported queue, priorities independent of the packets' own sequence numbers.
func genPQL(rnd *rand.Rand, thorough bool) (pqlCase, map[string]bool) {
	b := map[string]bool{}
	l := newLongPQ()
	fen := &fenwick{}
	budget := int64(300_000_000)
	if thorough {
		budget = 5_000_000_000
	}
	target := []int64{65536, 65536 + 1 + int64(rnd.Intn(5)), 65536 + int64(rnd.Intn(2000)), 2 * 65536, 65535}[rnd.Intn(5)]
	count := int64(0)
	pr := int64(rnd.Intn(65536))
	var prios, tss []int64
	probe := func(tag string) {
		for k := 2 + rnd.Intn(4); k > 0 && !l.r.dead; k-- {
			var o opJ
			switch rnd.Intn(6) {
			case 0:
				o = opJ{K: "qlen"}
			case 1:
				o = opJ{K: "qfind", A: prios[rnd.Intn(len(prios))]}
			case 2:
				o = opJ{K: "qpop"}
			case 3:
				o = opJ{K: "qpopat", A: prios[rnd.Intn(len(prios))]}
			case 4:
				o = opJ{K: "qpopts", A: tss[rnd.Intn(len(tss))]}
			default:
				o = opJ{K: "qlen"}
			}
			res := l.do(o)
			if res.K == "pkt" && o.K != "qfind" {
				count--
			}
			b[tag+o.K+"-"+res.K] = true
			if o.K == "qlen" && count >= 65536 {
				b["qlen-wrapped"] = true
			}
		}
	}
	// fill to the target, look (which may remove elements), top up to the target again: the count at the Clear is
	// the target
	for looked := false; !l.r.dead; {
		if count >= target {
			if looked {
				break
			}
			looked = true
			probe("")

			continue
		}
		n := target - count
		if rnd.Intn(3) != 0 && n > 10 {
			n = 1 + int64(rnd.Intn(int(n)))
		}
		var d int64
		pr, d = pickRun(rnd, fen, n, pr, &budget)
		b["run-"+strideName(d)] = true
		o := opJ{
			K: "qpushrun", N: n, A: pr, D: d, B: int64(rnd.Intn(65536)), E: int64(rnd.Intn(3)),
			C: int64(rnd.Intn(1 << 32)), F: int64([]int{0, 1, 3000}[rnd.Intn(3)]),
		}
		for _, i := range []int64{0, n - 1, n / 2} {
			prios = append(prios, (o.A+i*o.D)&0xFFFF)
			tss = append(tss, (o.C+i*o.F)&0xFFFFFFFF)
		}
		l.do(o)
		count += n
		pr = (pr + n*d) & 0xFFFF
		if count%65536 == 0 {
			for _, o := range []opJ{{K: "qlen"}, {K: "qfind", A: prios[rnd.Intn(len(prios))]}} {
				res := l.do(o)
				b["at-length-0-"+o.K+"-"+res.K] = true
			}
		}
		if !looked && rnd.Intn(3) == 0 {
			probe("")
		}
	}
	l.do(opJ{K: "qlen"})
	if count >= 65536 {
		b["clear-at>=2^16"] = true
	}
	l.do(opJ{K: "qclear"})
	count = 0
	probe("after-clear-")
	l.do(opJ{K: "qpushrun", N: 3 + int64(rnd.Intn(20)), A: int64(rnd.Intn(65536)), D: 1, B: 7, E: 1, C: 100, F: 10})
	l.do(opJ{K: "qpop", N: 2})
	probe("after-refill-")

	return l.c, b
}

// scriptedJBL: the boundary shapes, independent of the seed.
func scriptedJBL() []jblCase {
	asks := func(sqs ...int64) []opJ {
		var os []opJ
		for _, s := range sqs {
			os = append(os, opJ{K: "peekseq", A: s}, opJ{K: "popts", A: 90000 + s}, opJ{K: "sethead", A: s},
				opJ{K: "peek", A: 1}, opJ{K: "pop"}, opJ{K: "popseq", A: s})
		}

		return os
	}
	mk := func(min int64, ops ...[]opJ) jblCase {
		c := jblCase{Min: min}
		for _, o := range ops {
			c.Lops = append(c.Lops, o...)
		}

		return c
	}
	one := func(o ...opJ) []opJ { return o }

	return []jblCase{
		// exactly 2^16 buffered (descending arrival), Clear, ask for old packets
		mk(1, one(opJ{K: "pushrun", N: 65536, A: 65535, D: 65535, B: 90000 + 65535, E: (1 << 32) - 1},
			opJ{K: "head"}, opJ{K: "peek", A: 1}, opJ{K: "peekseq", A: 65535}, opJ{K: "peekseq", A: 40000},
			opJ{K: "peekseq"}, opJ{K: "clear"}), asks(65535, 40000, 0)),
		// 2^16 + 5, Clear(true), refill to the new minimum of 50, ask
		mk(1, one(opJ{K: "pushrun", N: 65541, A: 65535, D: 65535, B: 90000 + 65535, E: (1 << 32) - 1},
			opJ{K: "pop"}, opJ{K: "popseq", A: 30000}, opJ{K: "popts", A: 90000 + 12345}, opJ{K: "peek", A: 1},
			opJ{K: "pop", N: 2}, opJ{K: "peek", A: 1}, opJ{K: "peek"}, opJ{K: "clear", A: 1}, opJ{K: "peekseq", A: 65531}, opJ{K: "pushrun", N: 50, A: 7, D: 1, B: 1, E: 1},
			opJ{K: "pop", N: 3}), asks(65535, 8, 1)),
		// minimum start count 65535: refused up to 65534 buffered, playing from the first packet at 65535
		mk(65535, one(opJ{K: "pushrun", N: 101, A: 65500, D: 1, B: 5, E: 90}, opJ{K: "pop"}, opJ{K: "popseq", A: 65500},
			opJ{K: "pushrun", N: 65433, A: 65500, D: 0, B: 9095, E: 0}, opJ{K: "pop"}, opJ{K: "popts", A: 5},
			opJ{K: "push", A: 65499, B: 3}, opJ{K: "head"}, opJ{K: "pop", N: 3},
			opJ{K: "pushrun", N: 4, A: 1, D: 1, B: 3, E: 1}, opJ{K: "peek"}, opJ{K: "clear"}), asks(65500, 65499, 2)),
	}
}

// scriptedPQL: exactly 2^16 queued (the counter reads 0), Clear, then every request for what was queued.
func scriptedPQL() []pqlCase {
	return []pqlCase{{Lops: []opJ{
		{K: "qpushrun", N: 65536, A: 65535, D: 65535, B: 3, E: 1, C: 1000, F: 1},
		{K: "qlen"}, {K: "qfind", A: 65535}, {K: "qfind", A: 7}, {K: "qclear"}, {K: "qlen"},
		{K: "qfind", A: 65535}, {K: "qfind", A: 7}, {K: "qfind"}, {K: "qpopat", A: 40000}, {K: "qpopts", A: 1000},
		{K: "qpop"}, {K: "qpushrun", N: 3, A: 9, D: 1, B: 1, E: 1, C: 5, F: 5}, {K: "qlen"}, {K: "qpop", N: 4}, {K: "qlen"},
	}}}
}
