// Generator for C18: jitter buffer and its priority queue.
//
// Every case is a history of public-API calls on one JitterBuffer (set c18jb)
// or one PriorityQueue (set c18pq). Each call runs under a 2 s watchdog in its
// own goroutine: a call that does not return is recorded as RDiverge and ends
// the case (the object's mutex stays locked), a panic as RPanic. Packet
// objects are identified by pointer: the n-th pushed *rtp.Packet has id n.
package main

import (
	"errors"
	"fmt"
	"math/rand"
	"sort"
	"sync/atomic"
	"time"

	"github.com/pion/interceptor/pkg/jitterbuffer"
	"github.com/pion/rtp"

	"verifharness/internal/cq"
)

const watchdog = 2 * time.Second

// maxHangs bounds the number of spinning goroutines a defective build can leave behind.
const maxHangs = 3

type opJ struct {
	K string `json:"k"`
	A int64  `json:"a,omitempty"`
	B int64  `json:"b,omitempty"`
	C int64  `json:"c,omitempty"`
	// compressed operations of the long sets (long.go): repeat count and the strides of a push run
	N int64 `json:"n,omitempty"`
	D int64 `json:"d,omitempty"`
	E int64 `json:"e,omitempty"`
	F int64 `json:"f,omitempty"`
}

type outJ struct {
	K  string  `json:"k"`
	A  int64   `json:"a,omitempty"`
	B  int64   `json:"b,omitempty"`
	C  int64   `json:"c,omitempty"`
	Ev []int64 `json:"ev,omitempty"`
}

type jbCase struct {
	Min  int64  `json:"min"`
	Ops  []opJ  `json:"ops"`
	Outs []outJ `json:"outs"`
}

type pqCase struct {
	Ops  []opJ  `json:"ops"`
	Outs []outJ `json:"outs"`
}

var (
	hangs atomic.Int64 // calls that ran into the watchdog (long cases run concurrently)
	fails []cq.ImplFailure
)

func errCode(err error) int64 {
	switch {
	case errors.Is(err, jitterbuffer.ErrInvalidOperation):
		return 1
	case errors.Is(err, jitterbuffer.ErrNotFound):
		return 2
	case errors.Is(err, jitterbuffer.ErrBufferUnderrun):
		return 3
	case errors.Is(err, jitterbuffer.ErrPopWhileBuffering):
		return 4
	}

	return 99
}

// guarded runs f under the watchdog.
func guarded(f func() outJ) outJ {
	done := make(chan outJ, 1)
	go func() {
		defer func() {
			if r := recover(); r != nil {
				done <- outJ{K: "panic"}
			}
		}()
		done <- f()
	}()
	select {
	case o := <-done:
		return o
	case <-time.After(watchdog):
		hangs.Add(1)

		return outJ{K: "hang"}
	}
}

type idmap map[*rtp.Packet]int64

func (m idmap) pktOut(p *rtp.Packet, err error) outJ {
	if err != nil {
		return outJ{K: "err", A: errCode(err)}
	}
	if p == nil {
		return outJ{K: "nil"}
	}
	id, ok := m[p]
	if !ok {
		id = -1
	}

	return outJ{K: "pkt", A: id, B: int64(p.SequenceNumber), C: int64(p.Timestamp)}
}

func newPacket(sq, ts int64, id int64) *rtp.Packet {
	return &rtp.Packet{
		Header:  rtp.Header{Version: 2, SequenceNumber: uint16(sq), Timestamp: uint32(ts)}, //nolint:gosec
		Payload: []byte{byte(id)},
	}
}

// jbRunner drives one JitterBuffer.
type jbRunner struct {
	jb   *jitterbuffer.JitterBuffer
	ids  idmap
	ev   []int64
	c    jbCase
	dead bool
	long bool // long.go: the caller records (compressed) operations and outcomes itself
}

func newJB(min int64) *jbRunner {
	r := &jbRunner{ids: idmap{}, c: jbCase{Min: min}}
	r.jb = jitterbuffer.New(jitterbuffer.WithMinimumPacketCount(uint16(min))) //nolint:gosec
	for code, e := range map[int64]jitterbuffer.Event{
		1: jitterbuffer.StartBuffering, 2: jitterbuffer.BeginPlayback,
		3: jitterbuffer.BufferUnderflow, 4: jitterbuffer.BufferOverflow,
	} {
		code := code
		r.jb.Listen(e, func(jitterbuffer.Event, *jitterbuffer.JitterBuffer) { r.ev = append(r.ev, code) })
	}

	return r
}

// do executes one operation on the implementation and records the observables.
func (r *jbRunner) do(o opJ) outJ {
	if r.dead {
		return outJ{K: "dead"}
	}
	r.ev = nil
	jb := r.jb
	res := guarded(func() outJ {
		switch o.K {
		case "push":
			id := int64(len(r.ids))
			p := newPacket(o.A, o.B, id)
			r.ids[p] = id
			jb.Push(p)

			return outJ{K: "unit"}
		case "pop":
			return r.ids.pktOut(jb.Pop())
		case "popseq":
			return r.ids.pktOut(jb.PopAtSequence(uint16(o.A))) //nolint:gosec
		case "popts":
			return r.ids.pktOut(jb.PopAtTimestamp(uint32(o.A))) //nolint:gosec
		case "peek":
			return r.ids.pktOut(jb.Peek(o.A != 0))
		case "peekseq":
			return r.ids.pktOut(jb.PeekAtSequence(uint16(o.A))) //nolint:gosec
		case "sethead":
			jb.SetPlayoutHead(uint16(o.A)) //nolint:gosec

			return outJ{K: "unit"}
		case "head":
			return outJ{K: "head", A: int64(jb.PlayoutHead())}
		case "clear":
			jb.Clear(o.A != 0)

			return outJ{K: "unit"}
		}
		panic("unknown op " + o.K)
	})
	if res.K == "hang" || res.K == "panic" {
		r.dead = true
		// the listener slice may still be written by the stuck goroutine: do not read it
		res.Ev = nil
	} else {
		res.Ev = append([]int64{}, r.ev...)
	}
	if r.long {
		return res
	}
	r.c.Ops = append(r.c.Ops, o)
	r.c.Outs = append(r.c.Outs, res)

	return res
}

func opCoq(o opJ) string {
	switch o.K {
	case "push":
		return cq.C("OPush", cq.Z(o.A), cq.Z(o.B))
	case "pop":
		return "OPop"
	case "popseq":
		return cq.C("OPopAtSeq", cq.Z(o.A))
	case "popts":
		return cq.C("OPopAtTs", cq.Z(o.A))
	case "peek":
		return cq.C("OPeek", cq.B(o.A != 0))
	case "peekseq":
		return cq.C("OPeekAtSeq", cq.Z(o.A))
	case "sethead":
		return cq.C("OSetHead", cq.Z(o.A))
	case "head":
		return "OHead"
	case "clear":
		return cq.C("OClear", cq.B(o.A != 0))
	// priority-queue operations
	case "qpush":
		return cq.C("QPush", cq.Z(o.A), cq.Z(o.B), cq.Z(o.C))
	case "qfind":
		return cq.C("QFind", cq.Z(o.A))
	case "qpop":
		return "QPop"
	case "qpopat":
		return cq.C("QPopAt", cq.Z(o.A))
	case "qpopts":
		return cq.C("QPopAtTs", cq.Z(o.A))
	case "qclear":
		return "QClear"
	case "qlen":
		return "QLength"
	}
	panic("unknown op " + o.K)
}

func outCoq(o outJ) string {
	switch o.K {
	case "pkt":
		return cq.C("RPkt", cq.Z(o.A), cq.Z(o.B), cq.Z(o.C))
	case "nil":
		return "RNil"
	case "err":
		return cq.C("RErr", cq.Z(o.A))
	case "unit":
		return "RUnit"
	case "head":
		return cq.C("RHead", cq.Z(o.A))
	case "panic":
		return "RPanic"
	case "hang":
		return "RDiverge"
	}
	panic("unknown out " + o.K)
}

func opsOutsCoq(ops []opJ, outs []outJ) (string, string) {
	os := make([]string, len(ops))
	for i, o := range ops {
		os[i] = opCoq(o)
	}
	rs := make([]string, len(outs))
	for i, o := range outs {
		rs[i] = cq.T(outCoq(o), cq.LZ(o.Ev))
	}

	return cq.L(os), cq.L(rs)
}

func noteFailure(kind string, c interface{}, n int) {
	if len(fails) < 3 {
		fails = append(fails, cq.ImplFailure{
			Kind: kind, Detail: fmt.Sprintf("operation %d did not complete normally (%s, watchdog %s)", n, kind, watchdog), Case: c,
		})
	}
}

func (c jbCase) toCase(buckets map[string]bool) cq.Case {
	ops, outs := opsOutsCoq(c.Ops, c.Outs)
	bs := make([]string, 0, len(buckets))
	for b := range buckets {
		bs = append(bs, b)
	}
	sort.Strings(bs)
	if n := len(c.Outs); n > 0 && (c.Outs[n-1].K == "hang" || c.Outs[n-1].K == "panic") {
		noteFailure(c.Outs[n-1].K, c, n-1)
	}
	npush, npop := 0, 0
	for i, o := range c.Ops {
		if o.K == "push" {
			npush++
		}
		if i < len(c.Outs) && c.Outs[i].K == "pkt" {
			npop++
		}
	}

	return cq.Case{Coq: cq.T(cq.Z(c.Min), ops, outs), JSON: c, Buckets: bs, Trivial: npush < 2 || npop < 1}
}

// replayJB re-runs the operations of a stored case on the implementation.
func replayJB(c jbCase) jbCase {
	r := newJB(c.Min)
	for _, o := range c.Ops {
		if res := r.do(o); res.K == "hang" || res.K == "panic" {
			break
		}
	}

	return r.c
}

// pqRunner drives one PriorityQueue.
type pqRunner struct {
	q    *jitterbuffer.PriorityQueue
	ids  idmap
	c    pqCase
	dead bool
	long bool
}

func newPQ() *pqRunner { return &pqRunner{q: jitterbuffer.NewQueue(), ids: idmap{}} }

func (r *pqRunner) do(o opJ) outJ {
	q := r.q
	res := guarded(func() outJ {
		switch o.K {
		case "qpush":
			id := int64(len(r.ids))
			p := newPacket(o.B, o.C, id)
			r.ids[p] = id
			q.Push(p, uint16(o.A)) //nolint:gosec

			return outJ{K: "unit"}
		case "qfind":
			return r.ids.pktOut(q.Find(uint16(o.A))) //nolint:gosec
		case "qpop":
			return r.ids.pktOut(q.Pop())
		case "qpopat":
			return r.ids.pktOut(q.PopAt(uint16(o.A))) //nolint:gosec
		case "qpopts":
			return r.ids.pktOut(q.PopAtTimestamp(uint32(o.A))) //nolint:gosec
		case "qclear":
			q.Clear()

			return outJ{K: "unit"}
		case "qlen":
			return outJ{K: "head", A: int64(q.Length())}
		}
		panic("unknown op " + o.K)
	})
	if res.K == "hang" || res.K == "panic" {
		r.dead = true
	}
	if r.long {
		return res
	}
	r.c.Ops = append(r.c.Ops, o)
	r.c.Outs = append(r.c.Outs, res)

	return res
}

func replayPQ(c pqCase) pqCase {
	r := newPQ()
	for _, o := range c.Ops {
		if res := r.do(o); res.K == "hang" || res.K == "panic" {
			break
		}
	}

	return r.c
}

func (c pqCase) toCase(buckets map[string]bool) cq.Case {
	os := make([]string, len(c.Ops))
	for i, o := range c.Ops {
		os[i] = opCoq(o)
	}
	rs := make([]string, len(c.Outs))
	npkt := 0
	for i, o := range c.Outs {
		rs[i] = outCoq(o)
		if o.K == "pkt" {
			npkt++
		}
	}
	bs := make([]string, 0, len(buckets))
	for b := range buckets {
		bs = append(bs, b)
	}
	sort.Strings(bs)
	if n := len(c.Outs); n > 0 && (c.Outs[n-1].K == "hang" || c.Outs[n-1].K == "panic") {
		noteFailure(c.Outs[n-1].K, c, n-1)
	}

	return cq.Case{Coq: cq.T(cq.L(os), cq.L(rs)), JSON: c, Buckets: bs, Trivial: npkt < 1}
}

func genPQ(rnd *rand.Rand) (pqCase, map[string]bool) {
	b := map[string]bool{}
	r := newPQ()
	base := int64(rnd.Intn(65536))
	if rnd.Intn(3) == 0 {
		base = 65530
		b["prio-near-max"] = true
	}
	span := int64(3 + rnd.Intn(12))
	var prios, tss []int64
	n := 5 + rnd.Intn(50)
	for i := 0; i < n && !r.dead; i++ {
		var o opJ
		pr := (base + int64(rnd.Intn(int(span)))) & 0xFFFF
		ts := int64(rnd.Intn(8)) * 1000
		switch k := rnd.Intn(20); {
		case k < 9:
			o = opJ{K: "qpush", A: pr, B: int64(rnd.Intn(65536)), C: ts}
			for _, x := range prios {
				if x == pr {
					b["dup-prio"] = true
				}
			}
			prios, tss = append(prios, pr), append(tss, ts)
		case k < 11:
			o = opJ{K: "qfind", A: pr}
		case k < 13:
			o = opJ{K: "qpop"}
		case k < 16:
			o = opJ{K: "qpopat", A: pr}
		case k < 18:
			o = opJ{K: "qpopts", A: ts}
		case k < 19:
			o = opJ{K: "qlen"}
		default:
			o = opJ{K: "qclear"}
			if len(prios) > 0 {
				b["clear-nonempty"] = true
			}
			prios, tss = nil, nil
		}
		res := r.do(o)
		b[o.K+"-"+res.K] = true
	}

	return r.c, b
}

// ---- generator ----

type shadow struct {
	buf   []int64 // sequence numbers believed buffered
	ts    []int64
	clear bool
}

func (s *shadow) minmax() (int64, int64) {
	mn, mx := s.buf[0], s.buf[0]
	for _, x := range s.buf {
		if x < mn {
			mn = x
		}
		if x > mx {
			mx = x
		}
	}

	return mn, mx
}

func (s *shadow) remove(sq int64) {
	for i, x := range s.buf {
		if x == sq {
			s.buf = append(s.buf[:i], s.buf[i+1:]...)
			s.ts = append(s.ts[:i], s.ts[i+1:]...)

			return
		}
	}
}

var mins = []int64{0, 1, 2, 3, 5, 8, 50}

// minimum-start counts around and above the buffer's overflow length (100): playback must not start before
// the configured count whatever its relation to the other thresholds of the buffer. (Counts up to 65535 are
// in the long sets, long.go.)
var bigMins = []int64{51, 64, 99, 100, 101, 102, 120, 128, 150, 200, 255, 256, 300}

func genJB(rnd *rand.Rand) (jbCase, map[string]bool) { //nolint:gocyclo,cyclop
	b := map[string]bool{}
	min := mins[rnd.Intn(len(mins))]
	if rnd.Intn(4) != 0 && min == 50 {
		min = mins[rnd.Intn(len(mins)-1)]
	}
	big := rnd.Intn(25) == 0
	if big {
		min = bigMins[rnd.Intn(len(bigMins))]
		if rnd.Intn(4) == 0 {
			min = 51 + int64(rnd.Intn(250))
		}
		b["min>50"] = true
		if min > 100 {
			b["min>overflow-length"] = true
		}
	} else {
		b[fmt.Sprintf("min=%d", min)] = true
	}
	r := newJB(min)
	sh := &shadow{}
	nops := 8 + rnd.Intn(60)
	if min == 50 {
		nops = 70 + rnd.Intn(50)
	}
	var base int64
	switch rnd.Intn(4) {
	case 0:
		base = 65536 - int64(rnd.Intn(12)) - 1
		b["base-near-wrap"] = true
	case 1:
		base = int64(rnd.Intn(3))
	default:
		base = int64(rnd.Intn(65536))
	}
	next := base
	tsBase := int64(rnd.Intn(1 << 30))
	if rnd.Intn(8) == 0 {
		tsBase = (1 << 32) - 3000
	}
	pushy := 40 + rnd.Intn(40) // percentage of pushes
	if big {
		// enough pushes to get past the minimum, with pops, peeks and clears on the way and a playing phase after
		pushy = 60 + rnd.Intn(14)
		nops = int(min)*100/pushy + 30 + rnd.Intn(80)
	}
	longAfterReset := false
	for i := 0; i < nops && !r.dead; i++ {
		k := rnd.Intn(100)
		var o opJ
		switch {
		case k < pushy || (longAfterReset && k < 90):
			var sq int64
			m := rnd.Intn(20)
			switch {
			case m < 10 || len(sh.buf) == 0: // in order
				sq = next & 0xFFFF
				next++
			case m < 12: // loss
				next += 1 + int64(rnd.Intn(3))
				sq = next & 0xFFFF
				next++
			case m < 14: // duplicate of the numerically smallest buffered number (list head)
				sq, _ = sh.minmax()
				b["dup-head"] = true
			case m < 15: // duplicate of the largest (list tail)
				_, sq = sh.minmax()
				b["dup-tail"] = true
			case m < 17: // duplicate of any buffered number
				sq = sh.buf[rnd.Intn(len(sh.buf))]
				b["dup-any"] = true
			case m < 19: // late packet
				sq = (next - 2 - int64(rnd.Intn(6))) & 0xFFFF
				b["late"] = true
			default:
				sq = int64(rnd.Intn(65536))
			}
			if len(sh.buf) > 0 {
				if mn, _ := sh.minmax(); sq < mn {
					b["new-min"] = true
				}
			}
			ts := (tsBase + 3000*((sq-base)&0xFFFF)/int64(1+rnd.Intn(2))) & 0xFFFFFFFF
			if rnd.Intn(6) == 0 && len(sh.ts) > 0 {
				ts = sh.ts[rnd.Intn(len(sh.ts))]
				b["dup-ts"] = true
			}
			o = opJ{K: "push", A: sq, B: ts}
			if next > 65536 && base < 65536 {
				b["wrap"] = true
			}
		case k < pushy+14:
			o = opJ{K: "pop"}
		case k < pushy+20:
			o = opJ{K: "popseq", A: pick(rnd, sh, int64(r.jb.PlayoutHead()))}
		case k < pushy+25:
			ts := int64(rnd.Intn(1 << 32))
			if len(sh.ts) > 0 && rnd.Intn(4) != 0 {
				ts = sh.ts[rnd.Intn(len(sh.ts))]
			}
			o = opJ{K: "popts", A: ts}
		case k < pushy+30:
			o = opJ{K: "peek", A: int64(rnd.Intn(2))}
		case k < pushy+36:
			o = opJ{K: "peekseq", A: pick(rnd, sh, int64(r.jb.PlayoutHead()))}
		case k < pushy+39:
			h := pick(rnd, sh, int64(r.jb.PlayoutHead()))
			o = opJ{K: "sethead", A: h}
		case k < pushy+43:
			o = opJ{K: "head"}
		case k < pushy+46:
			reset := int64(rnd.Intn(2))
			o = opJ{K: "clear", A: reset}
			if reset == 1 && rnd.Intn(2) == 0 && nops-i < 60 {
				nops = i + 60 + rnd.Intn(20)
				longAfterReset = true
				b["reset-then-refill"] = true
			}
		default:
			o = opJ{K: "pop"}
		}
		res := r.do(o)
		// bookkeeping for steering and honest bucket labels
		switch o.K {
		case "push":
			sh.buf = append(sh.buf, o.A)
			sh.ts = append(sh.ts, o.B)
		case "clear":
			if len(sh.buf) > 0 {
				b["clear-nonempty"] = true
				sh.clear = true
			}
			sh.buf, sh.ts = nil, nil
			if o.A != 0 {
				b["clear-reset"] = true
			}
		case "pop", "popseq", "popts":
			switch res.K {
			case "pkt":
				sh.remove(res.B)
				b[o.K+"-ok"] = true
			case "err":
				b[fmt.Sprintf("%s-err%d", o.K, res.A)] = true
				if res.A == 4 && len(sh.buf) > 100 {
					b["refused-above-overflow-length"] = true
				}
			}
		case "peek", "peekseq":
			if sh.clear {
				b["find-after-clear"] = true
			}
			b[o.K+"-"+res.K] = true
		}
		if res.K == "hang" || res.K == "panic" {
			b[res.K] = true
		}
	}

	return r.c, b
}

// pick a sequence number: mostly a buffered one or the playout head, sometimes a near miss.
func pick(rnd *rand.Rand, sh *shadow, head int64) int64 {
	switch k := rnd.Intn(10); {
	case k < 5 && len(sh.buf) > 0:
		return sh.buf[rnd.Intn(len(sh.buf))]
	case k < 8:
		return head
	case k < 9:
		return (head + int64(rnd.Intn(5)) - 2) & 0xFFFF
	}

	return int64(rnd.Intn(65536))
}

// scripted boundary histories: one per defect shape of the design review and per proof case split.
func scripted() []jbCase {
	p := func(sq int64) opJ { return opJ{K: "push", A: sq, B: sq * 10} }
	mk := func(min int64, ops ...opJ) jbCase { return jbCase{Min: min, Ops: ops} }

	return []jbCase{
		// duplicate of the list head, then a search that has to walk past it
		mk(2, p(5), p(5), opJ{K: "peekseq", A: 7}, p(9), opJ{K: "pop"}, opJ{K: "pop"}),
		mk(1, p(5), p(6), p(5), p(7), opJ{K: "pop"}, opJ{K: "pop"}, opJ{K: "pop"}, opJ{K: "pop"}),
		// Clear, then find / pop
		mk(1, p(1), p(2), opJ{K: "clear"}, opJ{K: "peekseq", A: 1}, opJ{K: "popseq", A: 2}, opJ{K: "popts", A: 10}),
		// Clear(true), then the first buffered packet must fix the head again
		mk(1, p(10), opJ{K: "pop"}, opJ{K: "clear", A: 1}, p(500), opJ{K: "head"}),
		// wrap-around in order
		mk(3, p(65534), p(65535), p(0), p(1), opJ{K: "pop"}, opJ{K: "pop"}, opJ{K: "pop"}, opJ{K: "pop"}, opJ{K: "pop"}),
		// pop before start, minimum 0
		mk(0, opJ{K: "pop"}, opJ{K: "peek", A: 1}, p(3), opJ{K: "pop"}, opJ{K: "pop"}),
		// remove from the middle and from the tail, then re-push
		mk(3, p(1), p(2), p(3), opJ{K: "popseq", A: 2}, opJ{K: "popseq", A: 3}, p(2), opJ{K: "sethead", A: 1},
			opJ{K: "pop"}, opJ{K: "pop"}, opJ{K: "pop"}),
	}
}

func main() {
	o := cq.ParseFlags()
	rnd := o.Rand()
	jbs := &cq.Set{
		Name: "c18jb", Import: "IV.Check.C18Check", CaseType: "jb_case",
		Checks: []string{"jb_mismatches", "jb_spec_failures"},
	}
	pqs := &cq.Set{
		Name: "c18pq", Import: "IV.Check.C18Check", CaseType: "pq_case",
		Checks: []string{"pq_mismatches", "pq_spec_failures"},
	}
	ris := &cq.Set{
		Name: "c18ri", Import: "IV.Check.C18bCheck", CaseType: "ri_case",
		Checks: []string{"ri_mismatches", "ri_spec_failures"},
	}
	// long histories (long.go): a handful of cases, each worth seconds of evaluation inside Coq, spread over
	// several sets so that they are evaluated in parallel; listed first so that they are started first
	nLongSets := o.Scale(3, 8)
	jbls := make([]*cq.Set, nLongSets)
	for i := range jbls {
		jbls[i] = &cq.Set{
			Name: fmt.Sprintf("c18jbl%d", i), Import: "IV.Check.C18dCheck", CaseType: "jbl_case",
			Checks: []string{"jbl_mismatches", "jbl_spec_failures"},
		}
	}
	pqls := &cq.Set{
		Name: "c18pql", Import: "IV.Check.C18dCheck", CaseType: "pql_case",
		Checks: []string{"pql_mismatches", "pql_spec_failures"},
	}
	sets := append(append([]*cq.Set{}, jbls...), pqls, ris, jbs, pqs)
	nLong := 0
	addLong := func(c cq.Case) {
		jbls[nLong%len(jbls)].Cases = append(jbls[nLong%len(jbls)].Cases, c)
		nLong++
	}
	isPQ := func(ops []opJ) bool { return len(ops) > 0 && ops[0].K[0] == 'q' }
	if o.Replay != "" {
		var c anyCase
		cq.LoadReplay(o.Replay, &c)
		if len(c.Lops) > 0 && isPQ(c.Lops) {
			pqls.Cases = append(pqls.Cases, replayPQL(pqlCase{Lops: c.Lops}).toCase(map[string]bool{"replay": true}))
		} else if len(c.Lops) > 0 {
			addLong(replayJBL(jblCase{Min: c.Min, Lops: c.Lops}).toCase(map[string]bool{"replay": true}))
		} else if len(c.Ins) > 0 {
			ris.Cases = append(ris.Cases, replayRI(c.Ins).toCase(map[string]bool{"replay": true}))
		} else if isPQ(c.Ops) {
			pqs.Cases = append(pqs.Cases, replayPQ(pqCase{Ops: c.Ops}).toCase(map[string]bool{"replay": true}))
		} else {
			jbs.Cases = append(jbs.Cases, replayJB(c.jbCase).toCase(map[string]bool{"replay": true}))
		}
		cq.Write(o, "replay", sets, nil, fails)

		return
	}
	for _, f := range o.CorpusFiles() {
		var c anyCase
		cq.LoadReplay(f, &c)
		if len(c.Lops) > 0 {
			if isPQ(c.Lops) {
				pqls.Cases = append(pqls.Cases, replayPQL(pqlCase{Lops: c.Lops}).toCase(map[string]bool{"corpus": true}))
			} else {
				addLong(replayJBL(jblCase{Min: c.Min, Lops: c.Lops}).toCase(map[string]bool{"corpus": true}))
			}

			continue
		}
		if len(c.Ins) > 0 {
			ris.Cases = append(ris.Cases, replayRI(c.Ins).toCase(map[string]bool{"corpus": true}))

			continue
		}
		if len(c.Ops) == 0 {
			continue
		}
		if isPQ(c.Ops) {
			pqs.Cases = append(pqs.Cases, replayPQ(pqCase{Ops: c.Ops}).toCase(map[string]bool{"corpus": true}))
		} else {
			jbs.Cases = append(jbs.Cases, replayJB(c.jbCase).toCase(map[string]bool{"corpus": true}))
		}
	}
	// the long cases are independent objects: they run concurrently with the rest of the generation, each with
	// a PRNG of its own seeded from the run PRNG (the case list is a function of -seed only)
	type longJob struct {
		seed    int64
		script  *jblCase
		qscript *pqlCase
		pq      bool
		jc      jblCase
		pc      pqlCase
		b       map[string]bool
		pending chan struct{}
	}
	var longJobs []*longJob
	for _, c := range scriptedJBL() {
		c := c
		longJobs = append(longJobs, &longJob{script: &c})
	}
	for _, c := range scriptedPQL() {
		c := c
		longJobs = append(longJobs, &longJob{qscript: &c, pq: true})
	}
	for i, n := 0, o.Scale(3, 40); i < n; i++ {
		longJobs = append(longJobs, &longJob{seed: rnd.Int63()})
	}
	for i, n := 0, o.Scale(2, 20); i < n; i++ {
		longJobs = append(longJobs, &longJob{seed: rnd.Int63(), pq: true})
	}
	thorough := o.Tier == "thorough"
	sem := make(chan struct{}, 6)
	for _, j := range longJobs {
		j := j
		j.pending = make(chan struct{})
		go func() {
			sem <- struct{}{}
			defer func() { <-sem; close(j.pending) }()
			switch {
			case j.script != nil:
				j.jc, j.b = replayJBL(*j.script), map[string]bool{"scripted": true}
			case j.qscript != nil:
				j.pc, j.b = replayPQL(*j.qscript), map[string]bool{"scripted": true}
			case j.pq:
				j.pc, j.b = genPQL(rand.New(rand.NewSource(j.seed)), thorough) //nolint:gosec
			default:
				j.jc, j.b = genJBL(rand.New(rand.NewSource(j.seed)), thorough) //nolint:gosec
			}
		}()
	}
	for _, c := range scripted() {
		if hangs.Load() >= maxHangs {
			break
		}
		jbs.Cases = append(jbs.Cases, replayJB(c).toCase(map[string]bool{"scripted": true}))
	}
	n := o.Scale(1500, 40000)
	for i := 0; i < n && hangs.Load() < maxHangs; i++ {
		c, b := genJB(rnd)
		jbs.Cases = append(jbs.Cases, c.toCase(b))
	}
	npq := o.Scale(600, 20000)
	for i := 0; i < npq && hangs.Load() < maxHangs; i++ {
		c, b := genPQ(rnd)
		pqs.Cases = append(pqs.Cases, c.toCase(b))
	}
	for _, ins := range scriptedRI() {
		if hangs.Load() >= maxHangs {
			break
		}
		ris.Cases = append(ris.Cases, replayRI(ins).toCase(map[string]bool{"scripted": true}))
	}
	nri := o.Scale(400, 4000)
	for i := 0; i < nri && hangs.Load() < maxHangs; i++ {
		c, b := genRI(rnd)
		ris.Cases = append(ris.Cases, c.toCase(b))
	}
	for _, j := range longJobs {
		<-j.pending
		if j.pq {
			pqls.Cases = append(pqls.Cases, j.pc.toCase(j.b))
		} else {
			addLong(j.jc.toCase(j.b))
		}
	}
	extra := map[string]interface{}{"hangs_observed": hangs.Load(), "watchdog": watchdog.String()}
	cq.Write(o, "jb: histories of 8..600 public-API calls (push in order/loss/late/duplicates of head, tail, any; all pops, peeks, "+
		"SetPlayoutHead, Clear) for minimum start counts {0,1,2,3,5,8,50}; distinct by content; non-trivial = at least two pushes "+
		"and one packet returned; pq: 5..54 direct PriorityQueue calls with priorities drawn from a window of 3..14 values "+
		"(many duplicates), priority independent of the packet's own sequence number; non-trivial = one packet returned; "+
		"ri: 55..200 upstream reads (well-formed packets with local reordering, loss, duplicates, wrap-around; unparsable bytes; reader "+
		"errors; Unbind/Close) through the real receiver interceptor, deliveries identified byte-for-byte; non-trivial = two deliveries",
		sets, extra, fails)
}
