// Set c18ri: the receiver interceptor (pkg/jitterbuffer/receiver_interceptor.go)
// driven through the exported API only: NewInterceptor -> BindRemoteStream over a
// scripted upstream reader -> Read per upstream event; UnbindRemoteStream / Close.
//
// Every parsed packet is an object of its own: its payload starts with the
// 4-byte index of the packet among the well-formed packets of the stream, the
// rest of the bytes is a deterministic function of (index, sq, ts). A delivery is
// identified by that index and must be byte-identical to what was read
// (otherwise id -1: "not an object that was pushed").
package main

import (
	"bytes"
	"encoding/binary"
	"errors"
	"math/rand"
	"sort"

	"github.com/pion/interceptor"
	"github.com/pion/interceptor/pkg/jitterbuffer"
	"github.com/pion/rtp"

	"verifharness/internal/cq"
)

type riIn struct {
	K string `json:"k"` // pkt | bad | err | unbind
	A int64  `json:"a,omitempty"`
	B int64  `json:"b,omitempty"`
}

type riCase struct {
	Ins  []riIn `json:"ins"`
	Outs []outJ `json:"outs"`
}

// anyCase is what a replay / corpus file of this property may hold.
type anyCase struct {
	jbCase
	Ins  []riIn `json:"ins"`
	Lops []opJ  `json:"lops"` // long.go: compressed history (jitter buffer, or priority queue when the kinds start with q)
}

var errUpstream = errors.New("upstream reader failed")

// upstream is the scripted reader below the interceptor.
type upstream struct {
	data []byte
	err  error
}

func (u *upstream) Read(b []byte, a interceptor.Attributes) (int, interceptor.Attributes, error) {
	if u.err != nil {
		return 0, a, u.err
	}
	n := copy(b, u.data)

	return n, a, nil
}

// packetBytes builds the wire form of the idx-th well-formed packet of a stream.
func packetBytes(idx, sq, ts int64) []byte {
	extra := int((idx*7 + sq*3 + ts) % 23)
	if extra < 0 {
		extra = -extra
	}
	payload := make([]byte, 4+extra)
	binary.BigEndian.PutUint32(payload, uint32(idx)) //nolint:gosec
	for i := 4; i < len(payload); i++ {
		payload[i] = byte(idx*31 + int64(i)*17 + sq) //nolint:gosec
	}
	p := &rtp.Packet{
		Header: rtp.Header{
			Version: 2, PayloadType: 96, Marker: idx%5 == 0,
			SequenceNumber: uint16(sq), Timestamp: uint32(ts), SSRC: 0x1234, //nolint:gosec
		},
		Payload: payload,
	}
	if idx%4 == 1 {
		p.Header.CSRC = []uint32{7, uint32(idx)} //nolint:gosec
	}
	if idx%6 == 2 {
		p.Header.Extension = true
		p.Header.ExtensionProfile = 0xBEDE
		if err := p.Header.SetExtension(1, []byte{byte(idx), 2, 3}); err != nil {
			panic(err)
		}
	}
	raw, err := p.Marshal()
	if err != nil {
		panic(err)
	}

	return raw
}

// badBytes: byte strings that rtp.Packet.Unmarshal rejects.
func badBytes(shape int64) []byte {
	var raw []byte
	switch shape % 4 {
	case 0:
		raw = []byte{}
	case 1:
		raw = []byte{0x80, 96, 0, 1, 0, 0}
	case 2: // CSRC count 15, no room for them
		raw = []byte{0x8F, 96, 0, 1, 0, 0, 0, 1, 0, 0, 0, 1}
	default: // extension bit set, extension header missing
		raw = []byte{0x90, 96, 0, 1, 0, 0, 0, 1, 0, 0, 0, 1, 0xBE}
	}
	if (&rtp.Packet{}).Unmarshal(raw) == nil {
		panic("badBytes: shape parses")
	}

	return raw
}

type riRunner struct {
	ic   interceptor.Interceptor
	info *interceptor.StreamInfo
	up   *upstream
	rd   interceptor.RTPReader
	sent [][]byte
	c    riCase
	dead bool
}

func newRI() *riRunner {
	f, err := jitterbuffer.NewInterceptor()
	if err != nil {
		panic(err)
	}
	ic, err := f.NewInterceptor("")
	if err != nil {
		panic(err)
	}
	r := &riRunner{ic: ic, info: &interceptor.StreamInfo{SSRC: 0x1234}, up: &upstream{}}
	r.rd = ic.BindRemoteStream(r.info, r.up)

	return r
}

func (r *riRunner) classify(b []byte, n int, err error) outJ {
	switch {
	case err == nil:
	case errors.Is(err, errUpstream):
		return outJ{K: "uperr"}
	case errCode(err) != 99:
		return outJ{K: "err", A: errCode(err)}
	default:
		return outJ{K: "bad"}
	}
	if n < 0 || n > len(b) {
		return outJ{K: "pkt", A: -1}
	}
	p := &rtp.Packet{}
	if p.Unmarshal(b[:n]) != nil || len(p.Payload) < 4 {
		return outJ{K: "pkt", A: -1}
	}
	id := int64(binary.BigEndian.Uint32(p.Payload))
	if id >= int64(len(r.sent)) || !bytes.Equal(r.sent[id], b[:n]) {
		id = -1
	}

	return outJ{K: "pkt", A: id, B: int64(p.SequenceNumber), C: int64(p.Timestamp)}
}

func (r *riRunner) do(in riIn) outJ {
	if r.dead {
		return outJ{K: "dead"}
	}
	res := guarded(func() outJ {
		switch in.K {
		case "pkt":
			raw := packetBytes(int64(len(r.sent)), in.A, in.B)
			r.sent = append(r.sent, raw)
			r.up.data, r.up.err = raw, nil
		case "bad":
			r.up.data, r.up.err = badBytes(in.A), nil
		case "err":
			r.up.data, r.up.err = nil, errUpstream
		case "unbind":
			if in.A == 0 {
				r.ic.UnbindRemoteStream(r.info)
			} else if err := r.ic.Close(); err != nil {
				return outJ{K: "bad"}
			}

			return outJ{K: "unit"}
		default:
			panic("unknown input " + in.K)
		}
		b := bytes.Repeat([]byte{0xEE}, 1500)
		n, _, err := r.rd.Read(b, interceptor.Attributes{})

		return r.classify(b, n, err)
	})
	if res.K == "hang" || res.K == "panic" {
		r.dead = true
	}
	r.c.Ins = append(r.c.Ins, in)
	r.c.Outs = append(r.c.Outs, res)

	return res
}

func replayRI(ins []riIn) riCase {
	r := newRI()
	for _, in := range ins {
		if res := r.do(in); res.K == "hang" || res.K == "panic" {
			break
		}
	}

	return r.c
}

func riInCoq(in riIn) string {
	switch in.K {
	case "pkt":
		return cq.C("IPkt", cq.Z(in.A), cq.Z(in.B))
	case "bad":
		return "IBad"
	case "err":
		return "IErr"
	case "unbind":
		return "IUnbind"
	}
	panic("unknown input " + in.K)
}

func riOutCoq(o outJ) string {
	switch o.K {
	case "pkt":
		return cq.C("DPkt", cq.Z(o.A), cq.Z(o.B), cq.Z(o.C))
	case "err":
		return cq.C("DErr", cq.Z(o.A))
	case "uperr":
		return "DUpErr"
	case "bad":
		return "DBad"
	case "unit":
		return "DUnit"
	case "panic":
		return "DPanic"
	case "hang":
		return "DDiverge"
	}
	panic("unknown out " + o.K)
}

func (c riCase) toCase(buckets map[string]bool) cq.Case {
	is := make([]string, len(c.Ins))
	for i, in := range c.Ins {
		is[i] = riInCoq(in)
	}
	os := make([]string, len(c.Outs))
	npkt := 0
	for i, o := range c.Outs {
		os[i] = riOutCoq(o)
		if o.K == "pkt" {
			npkt++
		}
	}
	bs := make([]string, 0, len(buckets))
	for b := range buckets {
		bs = append(bs, b)
	}
	sort.Strings(bs)
	if n := len(c.Outs); n > 0 && (c.Outs[n-1].K == "hang" || c.Outs[n-1].K == "panic") {
		noteFailure(c.Outs[n-1].K, c, n-1)
	}

	return cq.Case{Coq: cq.T(cq.L(is), cq.L(os)), JSON: c, Buckets: bs, Trivial: npkt < 2}
}

// genRI: a stream of 55..200 upstream events. The jitter (local reordering), loss
// and duplication rates are drawn per case; most cases are gentle enough for
// playback to run for a while, some lose the packet at the playout head (every
// later read then fails until it arrives).
func genRI(rnd *rand.Rand) (riCase, map[string]bool) { //nolint:cyclop
	b := map[string]bool{}
	r := newRI()
	var base int64
	switch rnd.Intn(3) {
	case 0:
		base = 65536 - 50 - int64(rnd.Intn(40))
		b["wrap"] = true
	case 1:
		base = int64(rnd.Intn(3))
	default:
		base = int64(rnd.Intn(65536))
	}
	lossPct, dupPct, jitter := 0, rnd.Intn(6), rnd.Intn(4)
	if rnd.Intn(3) == 0 {
		lossPct = 1 + rnd.Intn(3)
	}
	n := 55 + rnd.Intn(126)
	// the arrival order: in order, with local swaps
	order := make([]int64, n)
	for i := range order {
		order[i] = int64(i)
	}
	for i := 0; i+1 < n; i++ {
		if jitter > 0 && rnd.Intn(10) < jitter {
			j := i + 1 + rnd.Intn(3)
			if j < n {
				order[i], order[j] = order[j], order[i]
				b["reordered"] = true
			}
		}
	}
	// small timestamps keep the generated Coq terms small; one case in ten runs across the uint32 wrap
	tsBase := int64(rnd.Intn(1000))
	if rnd.Intn(10) == 0 {
		tsBase = (1 << 32) - 900
		b["ts-wrap"] = true
	}
	var seen []int64
	delivered := 0
	for _, k := range order {
		if r.dead {
			break
		}
		switch x := rnd.Intn(100); {
		case x < 3:
			r.do(riIn{K: "bad", A: int64(rnd.Intn(4))})
			b["bad"] = true
		case x < 6:
			r.do(riIn{K: "err"})
			b["upstream-error"] = true
		case x < 7 && n > 115:
			r.do(riIn{K: "unbind", A: int64(rnd.Intn(2))})
			b["unbind"] = true
			seen = nil
		}
		if rnd.Intn(100) < lossPct && len(seen) > 0 {
			b["loss"] = true

			continue
		}
		sq := (base + k) & 0xFFFF
		ts := (tsBase + 10*k) & 0xFFFFFFFF
		if rnd.Intn(100) < dupPct && len(seen) > 0 {
			// an extra copy of something already sent (a new object with the same number)
			r.do(riIn{K: "pkt", A: seen[rnd.Intn(len(seen))], B: ts})
			b["duplicate"] = true
		}
		res := r.do(riIn{K: "pkt", A: sq, B: ts})
		seen = append(seen, sq)
		switch res.K {
		case "pkt":
			delivered++
			b["delivered"] = true
			if b["unbind"] {
				b["delivered-after-unbind"] = true
			}
		case "err":
			if res.A == 4 {
				b["refused-while-buffering"] = true
			} else {
				b["head-not-buffered"] = true
				if delivered > 0 {
					b["stall-after-delivery"] = true
				}
			}
		case "hang", "panic":
			b[res.K] = true
		}
	}
	if delivered >= 20 {
		b["delivered>=20"] = true
	}
	return r.c, b
}

// scriptedRI: boundary streams.
func scriptedRI() [][]riIn {
	run := func(from, n int64) []riIn {
		var ins []riIn
		for i := int64(0); i < n; i++ {
			ins = append(ins, riIn{K: "pkt", A: (from + i) & 0xFFFF, B: 1000 * i})
		}

		return ins
	}
	cat := func(xs ...[]riIn) []riIn {
		var out []riIn
		for _, x := range xs {
			out = append(out, x...)
		}

		return out
	}

	return [][]riIn{
		// exactly at the threshold, across the wrap
		run(65500, 60),
		// bad and failing reads before anything is buffered, then a clean stream
		cat([]riIn{{K: "bad"}, {K: "err"}, {K: "bad", A: 3}}, run(7, 55)),
		// unbind in the middle of playback, then a new stream elsewhere
		cat(run(100, 60), []riIn{{K: "unbind"}}, run(9000, 56)),
		// close, then reads continue
		cat(run(100, 52), []riIn{{K: "unbind", A: 1}}, run(200, 52)),
		// the packet at the head is lost after playback started, arrives late
		cat(run(10, 1), run(12, 49), run(70, 3), []riIn{{K: "pkt", A: 11, B: 1}}, run(80, 4)),
		// duplicate of the first packet before start
		cat(run(5, 1), run(5, 50), run(55, 3)),
	}
}
