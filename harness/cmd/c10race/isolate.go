package main

// Stream-isolation scenarios of property C10 (round 5).
//
// "RTP ... writes on different streams ... in parallel ... for each interceptor and for chains of them":
// the mutex of one stream (or of one interceptor) serialises that stream (that interceptor) only. State
// that lives OUTSIDE the objects - a package-level scratch buffer, cache or counter - is shared by the
// streams of one interceptor and by all interceptors of the process, and none of the per-object locks
// protects it. The free-running stress never got there: it writes 20-byte packets on two streams of ONE
// interceptor, and code paths that exist only for unusual inputs (a media packet larger than the pooled
// 1500 byte buffers of the FlexFEC encoder) were never taken.
//
// isolate/<interceptor>: several interceptors of the same kind, several locally bound streams each, ONE
// writer goroutine per stream (so the input order of every stream is fixed), all running in parallel under
// -race. Packet sizes are drawn from a family around the boundaries of the implementation's buffers
// (marshalled size 1499 / 1500 / 1501 / 1502 / 1600 / 2300, with and without header extension, CSRCs and
// padding, next to small packets). Every packet handed downstream is recorded per stream.
// Oracle, independent of the race detector: what a stream hands downstream depends on that stream's own
// packets only - the same packets written to a FRESH interceptor of the same configuration, one stream
// after the other on one goroutine, must give byte-for-byte the same downstream packets.
//
// A difference is printed as
//
//	C10RACE-ISOLATION {"scenario":..,"stream":..,"what":..,...}
//
// and becomes cq.ImplFailure kind "stream-interference" in cmd/c10; the race reports of the run carry the
// scenario name as their interceptor.

import (
	"bytes"
	"fmt"
	"sync"

	"github.com/pion/interceptor"
	"github.com/pion/interceptor/pkg/flexfec"
	"github.com/pion/rtp"
)

func isolateScenarios() []scenario {
	return []scenario{
		{"isolate/flexfec", "flexfec", isolateFlexFEC},
	}
}

// isoConfig is one interceptor configuration of an isolation scenario.
type isoConfig struct {
	name string
	mk   func() (interceptor.Interceptor, error)
}

// isoStream describes the traffic of one stream: deterministic in (ssrc, seq).
type isoStream struct {
	ssrc    uint32
	profile int // which size family the stream draws from
	n       int // packets
}

// isoSizes: marshalled sizes (header included) around the 1500 byte boundary, plus ordinary ones.
var isoSizes = [][]int{
	{1501, 1501, 1502, 1600, 1501, 2300, 1501},               // every packet above the pooled buffers
	{1499, 1500, 1501, 1500, 1502, 1499, 1501, 40, 1501},     // across the boundary
	{1600, 200, 1501, 1489, 1513, 1501, 1200, 1501, 13, 12},  // mixed, also a packet without payload
	{1501, 1501, 1501, 1501, 1501},                           // the smallest oversize packet, back to back
	{100, 1500, 700, 1500, 20},                               // never above the boundary (control)
	{1504, 1508, 1501, 1516, 1501, 3000, 1501, 1501, 65, 64}, // extension / CSRC shapes push sizes over
}

// isoPacket builds packet number k of a stream: header shape and payload bytes are functions of (ssrc, k).
func isoPacket(st isoStream, k int) (*rtp.Header, []byte) {
	fam := isoSizes[st.profile%len(isoSizes)]
	size := fam[k%len(fam)]
	seq := uint16(k) + uint16(st.ssrc*7919) //nolint:gosec
	h := &rtp.Header{Version: 2, PayloadType: 96, SequenceNumber: seq, Timestamp: uint32(k)*3000 + st.ssrc, SSRC: st.ssrc,
		Marker: k%5 == 0}
	switch (k + st.profile) % 4 {
	case 1:
		ext, _ := (&rtp.TransportCCExtension{TransportSequence: seq}).Marshal()
		_ = h.SetExtension(twccID, ext)
	case 2:
		h.CSRC = []uint32{st.ssrc + 1, uint32(k)} //nolint:gosec
	}
	hs := h.MarshalSize()
	n := size - hs
	if n < 0 {
		n = 0
	}
	p := make([]byte, n)
	for i := range p {
		p[i] = byte(int(st.ssrc)*31 + k*7 + i*13 + (i >> 8)) //nolint:gosec
	}
	if n >= 4 && k%6 == 3 {
		// padding carried in the payload (old pion/rtp convention: P bit set, PaddingSize 0)
		h.Padding = true
		p[n-1], p[n-2], p[n-3] = 3, 0, 0
	}

	return h, p
}

// isoRecord is what a stream handed downstream.
type isoRecord struct {
	pkts [][]byte // marshalled header followed by the payload
	fec  int      // packets that are not the stream's own media packets
}

func (r *isoRecord) sink(mediaSSRC uint32) interceptor.RTPWriter {
	return interceptor.RTPWriterFunc(func(h *rtp.Header, p []byte, _ interceptor.Attributes) (int, error) {
		raw, err := h.Marshal()
		if err != nil {
			raw = []byte("header does not marshal: " + err.Error())
		}
		r.pkts = append(r.pkts, append(raw, p...))
		if h.SSRC != mediaSSRC {
			r.fec++
		}

		return len(p), nil
	})
}

func isoInfo(ssrc uint32) *interceptor.StreamInfo {
	info := streamInfoTWCC(ssrc)
	info.SSRCForwardErrorCorrection, info.PayloadTypeForwardErrorCorrection = ssrc+2000, 118

	return info
}

// isolate runs the streams of all configurations in parallel, then one after the other on fresh interceptors.
func isolate(name string, cfgs []isoConfig, streamsPer, packets int) error {
	type bound struct {
		cfg int
		st  isoStream
		w   interceptor.RTPWriter
		rec *isoRecord
	}
	var par []*bound
	var icpts []interceptor.Interceptor
	for ci, c := range cfgs {
		icpt, err := c.mk()
		if err != nil {
			return err
		}
		icpts = append(icpts, icpt)
		for s := 0; s < streamsPer; s++ {
			st := isoStream{ssrc: uint32(100*(ci+1) + s), profile: ci*streamsPer + s, n: packets} //nolint:gosec
			b := &bound{cfg: ci, st: st, rec: &isoRecord{}}
			b.w = icpt.BindLocalStream(isoInfo(st.ssrc), b.rec.sink(st.ssrc))
			par = append(par, b)
		}
	}
	var wg sync.WaitGroup
	start := make(chan struct{})
	for _, b := range par {
		wg.Add(1)
		go func(b *bound) {
			defer wg.Done()
			<-start
			for k := 0; k < b.st.n; k++ {
				h, p := isoPacket(b.st, k)
				_, _ = b.w.Write(h, p, nil)
			}
		}(b)
	}
	close(start)
	if err := waitAll(&wg, name+" writers"); err != nil {
		return err
	}
	for _, i := range icpts {
		_ = i.Close()
	}
	// reference: the same packets, one stream at a time, one goroutine, fresh interceptors
	totalFEC := 0
	for _, b := range par {
		icpt, err := cfgs[b.cfg].mk()
		if err != nil {
			return err
		}
		ref := &isoRecord{}
		w := icpt.BindLocalStream(isoInfo(b.st.ssrc), ref.sink(b.st.ssrc))
		for k := 0; k < b.st.n; k++ {
			h, p := isoPacket(b.st, k)
			_, _ = w.Write(h, p, nil)
		}
		_ = icpt.Close()
		totalFEC += ref.fec
		bad, first := 0, -1
		for i := 0; i < len(ref.pkts) && i < len(b.rec.pkts); i++ {
			if !bytes.Equal(ref.pkts[i], b.rec.pkts[i]) {
				bad++
				if first < 0 {
					first = i
				}
			}
		}
		if bad == 0 && len(ref.pkts) == len(b.rec.pkts) {
			continue
		}
		v := map[string]interface{}{"scenario": name, "config": cfgs[b.cfg].name, "stream": b.st.ssrc,
			"size_family": isoSizes[b.st.profile%len(isoSizes)], "packets_written": b.st.n,
			"downstream_parallel": len(b.rec.pkts), "downstream_alone": len(ref.pkts), "differing": bad, "first_differing": first,
			"what": fmt.Sprintf("stream %d of %s: %d of %d packets handed downstream (%d generated by the interceptor) differ from what the stream's "+
				"own packets give when the stream runs alone (parallel run: %d packets); other streams / interceptors written in parallel were "+
				"the only difference between the two runs", b.st.ssrc, cfgs[b.cfg].name, bad, len(ref.pkts), ref.fec, len(b.rec.pkts))}
		if first >= 0 {
			x, y := ref.pkts[first], b.rec.pkts[first]
			d := 0
			for d < len(x) && d < len(y) && x[d] == y[d] {
				d++
			}
			v["first_differing_len_alone"], v["first_differing_len_parallel"], v["first_differing_byte"] = len(x), len(y), d
		}
		reportLine("C10RACE-ISOLATION", v)
	}
	if totalFEC == 0 {
		return fmt.Errorf("VACUOUS: %s generated no packet of its own", name)
	}

	return nil
}

func isolateFlexFEC(scale int) error {
	mk := func(opts ...flexfec.FecOption) func() (interceptor.Interceptor, error) {
		return func() (interceptor.Interceptor, error) {
			f, err := flexfec.NewFecInterceptor(opts...)
			if err != nil {
				return nil, err
			}

			return f.NewInterceptor("c10")
		}
	}
	cfgs := []isoConfig{
		{"flexfec(default: 5 media, 2 repair)", mk()},
		{"flexfec(3 media, 3 repair)", mk(flexfec.NumMediaPackets(3), flexfec.NumFECPackets(3))},
	}

	return isolate("isolate/flexfec", cfgs, 3, 150*scale)
}
