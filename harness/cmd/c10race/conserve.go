package main

// Conservation and use-after-release scenarios of property C10 (deepening round).
//
// The free-running stress of main.go can only surface what the race detector sees.
// Two shapes of C10 violations are invisible to it:
//
//   - a LOST UPDATE whose every access is locked (a read-modify-write split over two
//     critical sections): no unsynchronised access, yet "counters ... lose no updates"
//     fails. The conservation scenarios perform a KNOWN number of operations per
//     stream from several goroutines, with the interceptor's other entry points
//     (RTCP read/write, tickers, getters) running concurrently, and then compare the
//     public counters with the number of operations performed.
//
//   - a USE AFTER RELEASE of pooled memory (reference-count protocol of
//     rtpbuffer.RetainablePacket): the race only exists while the storage is being
//     recycled, which needs a small responder window, a slow downstream writer and
//     a sender that keeps overwriting the window. The scenario generates exactly
//     that and additionally checks the retransmitted header/payload against what
//     was sent (self-certifying payloads), so that the corruption is reported even
//     where the race detector's window is missed.
//
// Findings are printed as one line each:
//
//	C10RACE-LOSTUPDATE {"scenario":..,"counter":..,"want":..,"got":..,...}
//	C10RACE-UAR {"scenario":..,"what":..,...}
//
// cmd/c10 turns them into cq.ImplFailure kinds "lost-update" / "use-after-release".

import (
	"encoding/binary"
	"encoding/json"
	"fmt"
	"os"
	"sync"
	"sync/atomic"
	"time"

	"github.com/pion/interceptor"
	"github.com/pion/interceptor/pkg/nack"
	"github.com/pion/interceptor/pkg/report"
	"github.com/pion/interceptor/pkg/stats"
	"github.com/pion/interceptor/pkg/twcc"
	"github.com/pion/rtcp"
	"github.com/pion/rtp"
)

type scenario struct {
	name string
	pkg  string
	run  func(scale int) error
}

func scenarios() []scenario {
	return append([]scenario{
		{"conserve/stats", "stats", conserveStats},
		{"conserve/twcc.HeaderExtension", "twcc", conserveTWCCHeaderExtension},
		{"conserve/report.Sender", "report", conserveReportSender},
		{"conserve/report.Receiver", "report", conserveReportReceiver},
		{"uar/nack.Responder", "nack", func(scale int) error { return uarNackResponder(scale, false) }},
		{"uar/nack.Responder+rtx", "nack", func(scale int) error { return uarNackResponder(scale, true) }},
	}, append(reenterScenarios(), isolateScenarios()...)...)
}

var reportMu sync.Mutex

func reportLine(tag string, v map[string]interface{}) {
	js, _ := json.Marshal(v)
	reportMu.Lock()
	fmt.Fprintf(os.Stderr, "%s %s\n", tag, js)
	reportMu.Unlock()
}

var lostUpdateLines = map[string]int{}

func lostUpdate(scenario, counter string, want, got uint64, detail string) {
	reportMu.Lock()
	lostUpdateLines[scenario]++
	n := lostUpdateLines[scenario]
	reportMu.Unlock()
	if n > 4 {
		return // the first few counters say it all
	}
	reportLine("C10RACE-LOSTUPDATE", map[string]interface{}{"scenario": scenario, "counter": counter,
		"want": want, "got": got, "detail": detail})
}

// waitAll waits for wg with a watchdog.
func waitAll(wg *sync.WaitGroup, what string) error {
	done := make(chan struct{})
	go func() {
		wg.Wait()
		close(done)
	}()
	select {
	case <-done:
		return nil
	case <-time.After(20 * time.Second):
		return fmt.Errorf("STALL: %s did not finish within 20s", what)
	}
}

// plainRTP: a packet without header extension (fixed 12 byte header) and a payload of the given length.
func plainRTP(ssrc uint32, seq uint16, payloadLen int) (*rtp.Header, []byte) {
	h := &rtp.Header{Version: 2, PayloadType: 96, SequenceNumber: seq, Timestamp: uint32(seq) * 3000, SSRC: ssrc}

	return h, make([]byte, payloadLen)
}

// bigCompound: an outgoing compound RTCP packet that takes a while to walk and changes no RTP counter.
func bigCompound(ssrc uint32) []rtcp.Packet {
	pkts := make([]rtcp.Packet, 0, 48)
	for i := 0; i < 48; i++ {
		pkts = append(pkts, &rtcp.PictureLossIndication{SenderSSRC: 9, MediaSSRC: ssrc + 100}) // not one of our streams
	}

	return pkts
}

// ---------------------------------------------------------------------------
// stats: PacketsSent / BytesSent / HeaderBytesSent / PacketsReceived / BytesReceived / PLICount
// must equal the number of operations, whatever RTCP traffic and getters run meanwhile.

func conserveStats(scale int) error {
	const name = "conserve/stats"
	var gmu sync.Mutex
	var getter stats.Getter
	f, err := stats.NewInterceptor()
	if err != nil {
		return err
	}
	f.OnNewPeerConnection(func(_ string, g stats.Getter) {
		gmu.Lock()
		getter = g
		gmu.Unlock()
	})
	icpt, err := f.NewInterceptor("c10")
	if err != nil {
		return err
	}
	defer icpt.Close() //nolint:errcheck
	gmu.Lock()
	g := getter
	gmu.Unlock()
	if g == nil {
		return fmt.Errorf("stats: no getter")
	}
	sink := interceptor.RTPWriterFunc(consumeRTP)
	rtcpW := icpt.BindRTCPWriter(interceptor.RTCPWriterFunc(consumeRTCP))
	var rtcpRound atomic.Uint32
	rtcpR := icpt.BindRTCPReader(interceptor.RTCPReaderFunc(func(b []byte, a interceptor.Attributes) (int, interceptor.Attributes, error) {
		in := rtcpInput(rtcpRound.Add(1), 100)

		return copy(b, in), a, nil
	}))
	const nStreams = 2
	const payloadLen = 100
	writers := make([]interceptor.RTPWriter, nStreams)
	readers := make([]interceptor.RTPReader, nStreams)
	rseq := make([]atomic.Uint32, nStreams)
	for s := 0; s < nStreams; s++ {
		ssrc := uint32(s + 1)
		writers[s] = icpt.BindLocalStream(streamInfo(ssrc), sink)
		idx := s
		readers[s] = icpt.BindRemoteStream(streamInfo(ssrc+10), interceptor.RTPReaderFunc(
			func(b []byte, a interceptor.Attributes) (int, interceptor.Attributes, error) {
				h, p := plainRTP(uint32(idx+11), uint16(rseq[idx].Add(1)), payloadLen)
				raw, _ := (&rtp.Packet{Header: *h, Payload: p}).Marshal()

				return copy(b, raw), a, nil
			}))
	}
	// warm-up: the recorders only count once their Start goroutine has run
	deadline := time.Now().Add(5 * time.Second)
	for s := 0; s < nStreams; s++ {
		buf := make([]byte, 1500)
		for {
			h, p := plainRTP(uint32(s+1), 0, payloadLen)
			_, _ = writers[s].Write(h, p, nil)
			_, _, _ = readers[s].Read(buf, nil)
			out, in := g.Get(uint32(s+1)), g.Get(uint32(s+11))
			if out != nil && in != nil && out.OutboundRTPStreamStats.PacketsSent > 0 && in.InboundRTPStreamStats.PacketsReceived > 0 {
				break
			}
			if time.Now().After(deadline) {
				return fmt.Errorf("stats: recorders did not start")
			}
			time.Sleep(100 * time.Microsecond)
		}
	}
	type snap struct{ sent, bytesSent, hdrSent, recv, bytesRecv, hdrRecv, pli uint64 }
	take := func(s int) snap {
		out, in := g.Get(uint32(s+1)), g.Get(uint32(s+11))

		return snap{
			uint64(out.OutboundRTPStreamStats.PacketsSent), out.OutboundRTPStreamStats.BytesSent, out.OutboundRTPStreamStats.HeaderBytesSent,
			uint64(in.InboundRTPStreamStats.PacketsReceived), in.InboundRTPStreamStats.BytesReceived, in.InboundRTPStreamStats.HeaderBytesReceived,
			uint64(in.InboundRTPStreamStats.PLICount),
		}
	}
	before := []snap{take(0), take(1)}

	const nW, nR = 2, 2 // goroutines per stream
	perW := 1000 * scale
	perR := 600 * scale
	perPLI := 100 * scale
	var stop atomic.Bool
	var ops, bg sync.WaitGroup
	for s := 0; s < nStreams; s++ {
		for w := 0; w < nW; w++ {
			ops.Add(1)
			go func(s, w int) {
				defer ops.Done()
				for i := 0; i < perW; i++ {
					h, p := plainRTP(uint32(s+1), uint16(w*perW+i), payloadLen)
					_, _ = writers[s].Write(h, p, nil)
				}
			}(s, w)
		}
		for r := 0; r < nR; r++ {
			ops.Add(1)
			go func(s int) {
				defer ops.Done()
				buf := make([]byte, 1500)
				for i := 0; i < perR; i++ {
					_, _, _ = readers[s].Read(buf, nil)
				}
			}(s)
		}
		// counted outgoing RTCP: PLIs for the remote stream
		ops.Add(1)
		go func(s int) {
			defer ops.Done()
			for i := 0; i < perPLI; i++ {
				_, _ = rtcpW.Write([]rtcp.Packet{&rtcp.PictureLossIndication{SenderSSRC: 9, MediaSSRC: uint32(s + 11)}}, nil)
			}
		}(s)
	}
	// uncounted background: outgoing compound RTCP that touches no counter, incoming RTCP, getters
	for k := 0; k < 2; k++ {
		bg.Add(1)
		go func() {
			defer bg.Done()
			big := bigCompound(1)
			for !stop.Load() {
				_, _ = rtcpW.Write(big, nil)
			}
		}()
	}
	bg.Add(1)
	go func() {
		defer bg.Done()
		buf := make([]byte, 1500)
		for !stop.Load() {
			_, _, _ = rtcpR.Read(buf, nil)
		}
	}()
	bg.Add(1)
	go func() {
		defer bg.Done()
		for !stop.Load() {
			for ssrc := uint32(1); ssrc <= 12; ssrc++ {
				_ = g.Get(ssrc)
			}
			time.Sleep(50 * time.Microsecond)
		}
	}()
	if err := waitAll(&ops, name+" operations"); err != nil {
		return err
	}
	stop.Store(true)
	if err := waitAll(&bg, name+" background"); err != nil {
		return err
	}
	const hdr = 12
	for s := 0; s < nStreams; s++ {
		a, b := take(s), before[s]
		nw, nr := uint64(nW*perW), uint64(nR*perR)
		chk := func(counter string, got, want uint64) {
			if got != want {
				lostUpdate(name, fmt.Sprintf("ssrc %d %s", s+1, counter), want, got,
					fmt.Sprintf("%d writer and %d reader goroutines on the stream, RTCP writers/readers and Get() concurrently; counter delta over the run", nW, nR))
			}
		}
		chk("OutboundRTPStreamStats.PacketsSent", a.sent-b.sent, nw)
		chk("OutboundRTPStreamStats.BytesSent", a.bytesSent-b.bytesSent, nw*(hdr+payloadLen))
		chk("OutboundRTPStreamStats.HeaderBytesSent", a.hdrSent-b.hdrSent, nw*hdr)
		chk("InboundRTPStreamStats.PacketsReceived", a.recv-b.recv, nr)
		chk("InboundRTPStreamStats.BytesReceived", a.bytesRecv-b.bytesRecv, nr*(hdr+payloadLen))
		chk("InboundRTPStreamStats.HeaderBytesReceived", a.hdrRecv-b.hdrRecv, nr*hdr)
		chk("InboundRTPStreamStats.PLICount", a.pli-b.pli, uint64(perPLI))
	}

	return nil
}

// ---------------------------------------------------------------------------
// twcc header extension: the transport-wide sequence numbers handed out to N concurrent
// writes on several streams are exactly 0..N-1 (no duplicate, no gap).

func conserveTWCCHeaderExtension(scale int) error {
	const name = "conserve/twcc.HeaderExtension"
	f, err := twcc.NewHeaderExtensionInterceptor()
	if err != nil {
		return err
	}
	icpt, err := f.NewInterceptor("c10")
	if err != nil {
		return err
	}
	defer icpt.Close() //nolint:errcheck
	const nStreams, nW = 3, 2
	per := 300 * scale
	total := nStreams * nW * per
	if total > 60000 {
		per = 60000 / (nStreams * nW)
		total = nStreams * nW * per
	}
	seen := make([]atomic.Uint32, total)
	var outOfRange atomic.Uint32
	sink := interceptor.RTPWriterFunc(func(h *rtp.Header, _ []byte, _ interceptor.Attributes) (int, error) {
		var ext rtp.TransportCCExtension
		if err := ext.Unmarshal(h.GetExtension(twccID)); err != nil {
			outOfRange.Add(1)

			return 0, nil
		}
		if int(ext.TransportSequence) >= total {
			outOfRange.Add(1)

			return 0, nil
		}
		seen[ext.TransportSequence].Add(1)

		return 0, nil
	})
	var ops sync.WaitGroup
	for s := 0; s < nStreams; s++ {
		w := icpt.BindLocalStream(streamInfoTWCC(uint32(s+1)), sink)
		for k := 0; k < nW; k++ {
			ops.Add(1)
			go func(s, k int) {
				defer ops.Done()
				for i := 0; i < per; i++ {
					h, p := plainRTP(uint32(s+1), uint16(k*per+i), 8)
					_, _ = w.Write(h, p, nil)
				}
			}(s, k)
		}
	}
	if err := waitAll(&ops, name); err != nil {
		return err
	}
	dup, missing, first := 0, 0, -1
	for i := range seen {
		switch n := seen[i].Load(); {
		case n == 0:
			missing++
			if first < 0 {
				first = i
			}
		case n > 1:
			dup++
			if first < 0 {
				first = i
			}
		}
	}
	if dup+missing+int(outOfRange.Load()) > 0 {
		lostUpdate(name, "transport-wide sequence numbers allocated", uint64(total), uint64(total-missing),
			fmt.Sprintf("%d writes from %d goroutines: %d numbers handed out twice, %d never, %d outside 0..%d (first bad number %d)",
				total, nStreams*nW, dup, missing, outOfRange.Load(), total-1, first))
	}

	return nil
}

// ---------------------------------------------------------------------------
// report sender: the sender reports emitted after N writes of a stream carry PacketCount = N and
// OctetCount = sum of the payload sizes.

func conserveReportSender(scale int) error {
	const name = "conserve/report.Sender"
	f, err := report.NewSenderInterceptor(report.SenderInterval(time.Millisecond))
	if err != nil {
		return err
	}
	icpt, err := f.NewInterceptor("c10")
	if err != nil {
		return err
	}
	defer icpt.Close() //nolint:errcheck
	const nStreams, nW, payloadLen = 2, 3, 50
	per := 300 * scale
	type last struct {
		n            int // reports seen since the writers finished
		pkts, octets uint32
	}
	var mu sync.Mutex
	var finished bool
	lasts := map[uint32]*last{}
	_ = icpt.BindRTCPWriter(interceptor.RTCPWriterFunc(func(pkts []rtcp.Packet, _ interceptor.Attributes) (int, error) {
		mu.Lock()
		defer mu.Unlock()
		for _, p := range pkts {
			if sr, ok := p.(*rtcp.SenderReport); ok && finished {
				l := lasts[sr.SSRC]
				if l == nil {
					l = &last{}
					lasts[sr.SSRC] = l
				}
				l.n++
				l.pkts, l.octets = sr.PacketCount, sr.OctetCount
			}
		}

		return 0, nil
	}))
	sink := interceptor.RTPWriterFunc(consumeRTP)
	var rtcpRound atomic.Uint32
	rtcpR := icpt.BindRTCPReader(interceptor.RTCPReaderFunc(func(b []byte, a interceptor.Attributes) (int, interceptor.Attributes, error) {
		in := rtcpInput(rtcpRound.Add(1), 100)

		return copy(b, in), a, nil
	}))
	var ops, bg sync.WaitGroup
	var stop atomic.Bool
	for s := 0; s < nStreams; s++ {
		w := icpt.BindLocalStream(streamInfo(uint32(s+1)), sink)
		for k := 0; k < nW; k++ {
			ops.Add(1)
			go func(s, k int) {
				defer ops.Done()
				for i := 0; i < per; i++ {
					h, p := plainRTP(uint32(s+1), uint16(k*per+i), payloadLen)
					_, _ = w.Write(h, p, nil)
				}
			}(s, k)
		}
	}
	bg.Add(1)
	go func() {
		defer bg.Done()
		buf := make([]byte, 1500)
		for !stop.Load() {
			_, _, _ = rtcpR.Read(buf, nil)
			time.Sleep(20 * time.Microsecond)
		}
	}()
	if err := waitAll(&ops, name); err != nil {
		return err
	}
	mu.Lock()
	finished = true
	mu.Unlock()
	// the second report generated after the writers have finished certainly reads the final counters
	deadline := time.Now().Add(3 * time.Second)
	for {
		mu.Lock()
		ok := len(lasts) == nStreams
		for _, l := range lasts {
			ok = ok && l.n >= 3
		}
		mu.Unlock()
		if ok || time.Now().After(deadline) {
			break
		}
		time.Sleep(500 * time.Microsecond)
	}
	stop.Store(true)
	if err := waitAll(&bg, name+" background"); err != nil {
		return err
	}
	mu.Lock()
	defer mu.Unlock()
	for s := 0; s < nStreams; s++ {
		l := lasts[uint32(s+1)]
		if l == nil || l.n < 3 {
			return fmt.Errorf("%s: no sender report for ssrc %d within 3s after the writes", name, s+1)
		}
		want := uint64(nW * per)
		if uint64(l.pkts) != want {
			lostUpdate(name, fmt.Sprintf("ssrc %d SenderReport.PacketCount", s+1), want, uint64(l.pkts),
				fmt.Sprintf("%d writer goroutines x %d packets on the stream, 1 ms report ticker and an RTCP reader concurrently", nW, per))
		}
		if uint64(l.octets) != want*payloadLen {
			lostUpdate(name, fmt.Sprintf("ssrc %d SenderReport.OctetCount", s+1), want*payloadLen, uint64(l.octets),
				fmt.Sprintf("%d writer goroutines x %d packets of %d bytes", nW, per, payloadLen))
		}
	}

	return nil
}

// ---------------------------------------------------------------------------
// report receiver: one in-order reader per stream (the report ticker, RTCP readers and the
// other stream run concurrently): the receiver reports emitted after N packets say
// "highest = N, nothing lost".

func conserveReportReceiver(scale int) error {
	const name = "conserve/report.Receiver"
	f, err := report.NewReceiverInterceptor(report.ReceiverInterval(time.Millisecond))
	if err != nil {
		return err
	}
	icpt, err := f.NewInterceptor("c10")
	if err != nil {
		return err
	}
	defer icpt.Close() //nolint:errcheck
	const nStreams = 2
	per := 600 * scale
	if per > 30000 {
		per = 30000
	}
	type last struct {
		n             int
		highest, lost uint32
	}
	var mu sync.Mutex
	var finished bool
	lasts := map[uint32]*last{}
	_ = icpt.BindRTCPWriter(interceptor.RTCPWriterFunc(func(pkts []rtcp.Packet, _ interceptor.Attributes) (int, error) {
		mu.Lock()
		defer mu.Unlock()
		for _, p := range pkts {
			rr, ok := p.(*rtcp.ReceiverReport)
			if !ok || !finished {
				continue
			}
			for _, r := range rr.Reports {
				l := lasts[r.SSRC]
				if l == nil {
					l = &last{}
					lasts[r.SSRC] = l
				}
				l.n++
				l.highest, l.lost = r.LastSequenceNumber, r.TotalLost
			}
		}

		return 0, nil
	}))
	var rtcpRound atomic.Uint32
	rtcpR := icpt.BindRTCPReader(interceptor.RTCPReaderFunc(func(b []byte, a interceptor.Attributes) (int, interceptor.Attributes, error) {
		in := rtcpInput(rtcpRound.Add(1), 100)

		return copy(b, in), a, nil
	}))
	var ops, bg sync.WaitGroup
	var stop atomic.Bool
	for s := 0; s < nStreams; s++ {
		ssrc := uint32(s + 1)
		var seq uint16
		r := icpt.BindRemoteStream(streamInfo(ssrc), interceptor.RTPReaderFunc(
			func(b []byte, a interceptor.Attributes) (int, interceptor.Attributes, error) {
				seq++
				h, p := plainRTP(ssrc, seq, 20)
				raw, _ := (&rtp.Packet{Header: *h, Payload: p}).Marshal()

				return copy(b, raw), a, nil
			}))
		ops.Add(1)
		go func() {
			defer ops.Done()
			buf := make([]byte, 1500)
			for i := 0; i < per; i++ {
				_, _, _ = r.Read(buf, nil)
			}
		}()
	}
	for k := 0; k < 2; k++ {
		bg.Add(1)
		go func() {
			defer bg.Done()
			buf := make([]byte, 1500)
			for !stop.Load() {
				_, _, _ = rtcpR.Read(buf, nil)
				time.Sleep(20 * time.Microsecond)
			}
		}()
	}
	if err := waitAll(&ops, name); err != nil {
		return err
	}
	mu.Lock()
	finished = true
	mu.Unlock()
	deadline := time.Now().Add(3 * time.Second)
	for {
		mu.Lock()
		ok := len(lasts) == nStreams
		for _, l := range lasts {
			ok = ok && l.n >= 3
		}
		mu.Unlock()
		if ok || time.Now().After(deadline) {
			break
		}
		time.Sleep(500 * time.Microsecond)
	}
	stop.Store(true)
	if err := waitAll(&bg, name+" background"); err != nil {
		return err
	}
	mu.Lock()
	defer mu.Unlock()
	for s := 0; s < nStreams; s++ {
		l := lasts[uint32(s+1)]
		if l == nil || l.n < 3 {
			return fmt.Errorf("%s: no receiver report for ssrc %d within 3s after the reads", name, s+1)
		}
		if uint64(l.highest) != uint64(per) {
			lostUpdate(name, fmt.Sprintf("ssrc %d ReceptionReport.LastSequenceNumber", s+1), uint64(per), uint64(l.highest),
				"one in-order reader on the stream; report ticker (1 ms) and two RTCP readers concurrently")
		}
		if l.lost != 0 {
			lostUpdate(name, fmt.Sprintf("ssrc %d ReceptionReport.TotalLost", s+1), 0, uint64(l.lost),
				fmt.Sprintf("%d packets read in order without a gap", per))
		}
	}

	return nil
}

// ---------------------------------------------------------------------------
// NACK responder: retransmissions overlap with the eviction of the retransmitted packet.

// certPayload builds a payload that names its own sequence number in every byte pair.
func certPayload(seq uint16, n int) []byte {
	p := make([]byte, 2*n)
	for k := 0; k < n; k++ {
		p[2*k] = byte(seq>>8) ^ byte(k)
		p[2*k+1] = byte(seq) ^ byte(7*k)
	}

	return p
}

// certSeq returns the sequence number a self-certifying payload names, or false if it is not intact.
func certSeq(p []byte) (uint16, bool) {
	if len(p) < 2 || len(p)%2 != 0 {
		return 0, false
	}
	seq := binary.BigEndian.Uint16(p)
	for k := 0; k < len(p)/2; k++ {
		if p[2*k] != byte(seq>>8)^byte(k) || p[2*k+1] != byte(seq)^byte(7*k) {
			return seq, false
		}
	}

	return seq, true
}

func uarNackResponder(scale int, rtx bool) error {
	name := "uar/nack.Responder"
	if rtx {
		name += "+rtx"
	}
	const size = 4
	const ssrc = uint32(1)
	const certLen = 24
	f, err := nack.NewResponderInterceptor(nack.ResponderSize(size))
	if err != nil {
		return err
	}
	icpt, err := f.NewInterceptor("c10")
	if err != nil {
		return err
	}
	info := streamInfo(ssrc)
	info.RTPHeaderExtensions = nil
	if !rtx {
		info.SSRCRetransmission, info.PayloadTypeRetransmission = 0, 0
	}
	origKey := struct{ k string }{"c10-original"}
	var resends, bad atomic.Uint32
	var stop atomic.Bool
	var inflight atomic.Int32
	flag := func(what string, fields map[string]interface{}) {
		if bad.Add(1) > 3 {
			return
		}
		fields["scenario"], fields["what"] = name, what
		fields["setup"] = fmt.Sprintf("ResponderSize(%d), downstream writer sleeps 300us inside Write for retransmissions, sender keeps writing, NACKs for the newest packets", size)
		reportLine("C10RACE-UAR", fields)
	}
	// decode what a retransmission claims to be: (sequence number named by header, by payload)
	decode := func(h *rtp.Header, p []byte) (hdrSeq, paySeq uint16, ok bool) {
		if rtx {
			if len(p) < 2 {
				return 0, 0, false
			}
			osn := binary.BigEndian.Uint16(p)
			ps, intact := certSeq(p[2:])
			// the header keeps the original timestamp; the original sequence number travels in the payload prefix
			return uint16((h.Timestamp - ssrc) / 3000), ps, intact && osn == ps && h.SSRC == info.SSRCRetransmission
		}
		ps, intact := certSeq(p)

		return h.SequenceNumber, ps, intact && h.SSRC == ssrc && h.Timestamp == uint32(h.SequenceNumber)*3000+ssrc
	}
	sink := interceptor.RTPWriterFunc(func(h *rtp.Header, p []byte, a interceptor.Attributes) (int, error) {
		if a != nil && a.Get(origKey) != nil {
			return len(p), nil // an original send
		}
		inflight.Add(1)
		defer inflight.Add(-1)
		resends.Add(1)
		// the downstream writer (a transport) looks at the packet, blocks, and looks again
		h0 := h.Clone()
		p0 := append([]byte{}, p...)
		hs, ps, ok := decode(h, p)
		if !ok || hs != ps {
			flag("retransmission is not a packet that was sent", map[string]interface{}{
				"header_seq": h.SequenceNumber, "header_ts": h.Timestamp, "header_ssrc": h.SSRC,
				"seq_named_by_header": hs, "seq_named_by_payload": ps, "payload_len": len(p)})
		}
		time.Sleep(300 * time.Microsecond)
		if h.SequenceNumber != h0.SequenceNumber || h.Timestamp != h0.Timestamp || h.SSRC != h0.SSRC {
			flag("retransmission header changed while the downstream writer was sending it", map[string]interface{}{
				"seq_at_entry": h0.SequenceNumber, "seq_later": h.SequenceNumber, "ts_at_entry": h0.Timestamp, "ts_later": h.Timestamp})
		}
		if len(p) == len(p0) {
			for i := range p {
				if p[i] != p0[i] {
					s1, _ := certSeq(p0[len(p0)-2*certLen:])
					s2, _ := certSeq(p[len(p)-2*certLen:])
					flag("retransmission payload changed while the downstream writer was sending it", map[string]interface{}{
						"byte": i, "payload_named_seq_at_entry": s1, "payload_names_seq_later": s2})

					break
				}
			}
		}

		return len(p), nil
	})
	w := icpt.BindLocalStream(info, sink)
	var seq atomic.Uint32
	seq.Store(1000)
	rtcpR := icpt.BindRTCPReader(interceptor.RTCPReaderFunc(func(b []byte, a interceptor.Attributes) (int, interceptor.Attributes, error) {
		cur := uint16(seq.Load())
		raw, err := rtcp.Marshal([]rtcp.Packet{&rtcp.TransportLayerNack{SenderSSRC: 9, MediaSSRC: ssrc,
			Nacks: []rtcp.NackPair{{PacketID: cur - 2, LostPackets: 0x3}}}})
		if err != nil {
			return 0, a, err
		}

		return copy(b, raw), a, nil
	}))
	var wg sync.WaitGroup
	wg.Add(1)
	go func() { // the media sender: keeps the window moving
		defer wg.Done()
		attr := interceptor.Attributes{}
		attr.Set(origKey, true)
		for !stop.Load() {
			s := uint16(seq.Add(1))
			h := &rtp.Header{Version: 2, PayloadType: 96, SequenceNumber: s, Timestamp: uint32(s)*3000 + ssrc, SSRC: ssrc}
			_, _ = w.Write(h, certPayload(s, certLen), attr)
			if s%8 == 0 {
				time.Sleep(20 * time.Microsecond)
			}
		}
	}()
	for k := 0; k < 2; k++ {
		wg.Add(1)
		go func() { // RTCP read loops delivering NACKs for the newest packets
			defer wg.Done()
			buf := make([]byte, 1500)
			for !stop.Load() {
				_, _, _ = rtcpR.Read(buf, nil)
				time.Sleep(100 * time.Microsecond)
			}
		}()
	}
	time.Sleep(time.Duration(scale) * 150 * time.Millisecond)
	stop.Store(true)
	if err := waitAll(&wg, name); err != nil {
		return err
	}
	// resend goroutines that were already started: wait until none has been inside the writer for 5 ms
	for quiet, t0 := 0, time.Now(); quiet < 5; {
		if inflight.Load() == 0 {
			quiet++
		} else {
			quiet = 0
		}
		if time.Since(t0) > 20*time.Second {
			return fmt.Errorf("STALL: %s retransmissions did not finish within 20s", name)
		}
		time.Sleep(time.Millisecond)
	}
	_ = icpt.Close()
	fmt.Fprintf(os.Stderr, "C10RACE-INFO %s: %d retransmissions observed, %d packets sent\n", name, resends.Load(), seq.Load()-1000)
	if resends.Load() == 0 {
		return fmt.Errorf("%s: the scenario produced no retransmission (vacuous)", name)
	}

	return nil
}
