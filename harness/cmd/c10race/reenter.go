package main

// Re-entrancy scenarios of property C10 (round 4): "... an observer calling public getters ... no call deadlocks".
//
// sync.Mutex is not re-entrant. An interceptor (or the estimator / buffer it exposes) that invokes user code - a
// registered callback, the downstream writer, the upstream reader - while it holds the mutex its public getters
// take deadlocks as soon as that user code does the obvious thing and queries the object. The race detector
// sees nothing (there is no unsynchronised access) and the free-running stress registered no callback and had
// downstream writers that ignore the interceptor. Here every piece of user code the API accepts calls the public
// getters of the object it belongs to:
//
//   - reenter/cc+gcc: cc interceptor with the GCC estimator, real TWCC feedback looped back from a twcc sender
//     interceptor (loss-free: the estimate rises, the target bitrate changes). OnNewPeerConnection and
//     OnTargetBitrateChange callbacks, the downstream RTP writer (called from the pacer goroutine) and the
//     upstream RTCP reader all call GetTargetBitrate / GetStats.
//   - reenter/stats: OnNewPeerConnection callback, downstream RTP/RTCP writers and upstream RTP/RTCP readers
//     call Getter.Get for the streams in use.
//   - reenter/jitterbuffer.Listen: listeners for every event call PlayoutHead / Peek on the buffer they are
//     handed.
//
// Every piece of user code runs inside guard.call, which counts entries and returns per callback name. After the
// bounded traffic every entered callback must have returned (3 s grace); one that has not is reported with the
// stacks of the goroutines stuck in it:
//
//	C10RACE-REENTER {"scenario":..,"callback":..,"entered":..,"returned":..,"stacks":..}
//
// cmd/c10 turns the line into cq.ImplFailure kind "callback-deadlock.<callback>". A callback that was never
// entered makes the scenario vacuous for it; that is printed as C10RACE-INFO and counted, not reported as a failure.

import (
	"fmt"
	"os"
	"runtime"
	"sort"
	"strings"
	"sync"
	"sync/atomic"
	"time"

	"github.com/pion/interceptor"
	"github.com/pion/interceptor/pkg/cc"
	"github.com/pion/interceptor/pkg/gcc"
	"github.com/pion/interceptor/pkg/jitterbuffer"
	"github.com/pion/interceptor/pkg/stats"
	"github.com/pion/interceptor/pkg/twcc"
	"github.com/pion/rtcp"
	"github.com/pion/rtp"
)

func reenterScenarios() []scenario {
	return []scenario{
		{"reenter/cc+gcc", "gcc", reenterGCC},
		{"reenter/stats", "stats", reenterStats},
		{"reenter/jitterbuffer.Listen", "jitterbuffer", reenterJitterBuffer},
	}
}

type guardCount struct {
	entered, returned atomic.Int64
	mu                sync.Mutex
	inside            map[string]bool // ids of the goroutines currently inside this callback
}

// goid: the id of the calling goroutine, from the first line of its stack ("goroutine 17 [running]:").
func goid() string {
	var buf [64]byte
	f := strings.Fields(string(buf[:runtime.Stack(buf[:], false)]))
	if len(f) > 1 {
		return f[1]
	}

	return "?"
}

// guard counts entries into and returns from user code, per callback name.
type guard struct {
	scenario string
	mu       sync.Mutex
	counts   map[string]*guardCount
	order    []string
}

func newGuard(scenario string, names ...string) *guard {
	g := &guard{scenario: scenario, counts: map[string]*guardCount{}}
	for _, n := range names {
		g.counts[n] = &guardCount{inside: map[string]bool{}}
		g.order = append(g.order, n)
	}

	return g
}

// call runs f as the body of the user callback `name`. The frame name reenterUserCode marks the goroutine in dumps.
func (g *guard) call(name string, f func()) {
	c := g.counts[name]
	id := goid()
	c.mu.Lock()
	c.inside[id] = true
	c.mu.Unlock()
	c.entered.Add(1)
	reenterUserCode(f)
	c.returned.Add(1)
	c.mu.Lock()
	delete(c.inside, id)
	c.mu.Unlock()
}

//go:noinline
func reenterUserCode(f func()) { f() }

// settle waits until every entered callback has returned and reports the ones that have not.
func (g *guard) settle(grace time.Duration) (stuck int) {
	deadline := time.Now().Add(grace)
	for {
		pending := false
		for _, n := range g.order {
			c := g.counts[n]
			if c.returned.Load() != c.entered.Load() {
				pending = true
			}
		}
		if !pending || time.Now().After(deadline) {
			break
		}
		time.Sleep(5 * time.Millisecond)
	}
	for _, n := range g.order {
		c := g.counts[n]
		e, r := c.entered.Load(), c.returned.Load()
		if e == 0 {
			fmt.Fprintf(os.Stderr, "C10RACE-INFO %s: callback %s was never invoked (vacuous for it)\n", g.scenario, n)

			continue
		}
		fmt.Fprintf(os.Stderr, "C10RACE-INFO %s: callback %s entered %d returned %d\n", g.scenario, n, e, r)
		if e != r {
			stuck++
			reportLine("C10RACE-REENTER", map[string]interface{}{"scenario": g.scenario, "callback": n, "entered": e, "returned": r,
				"what": fmt.Sprintf("user code %s called a public getter and has not returned %v after the traffic ended: it waits for a mutex "+
					"its own caller holds (sync.Mutex is not re-entrant); later getters and traffic calls block behind it", n, grace),
				"stacks": c.stuckStacks()})
		}
	}

	return stuck
}

// stuckStacks returns the stacks of the goroutines that are still inside this callback.
func (c *guardCount) stuckStacks() string {
	buf := make([]byte, 1<<20)
	n := runtime.Stack(buf, true)
	c.mu.Lock()
	defer c.mu.Unlock()
	var out []string
	for _, g := range strings.Split(string(buf[:n]), "\n\n") {
		f := strings.Fields(g)
		if len(f) > 1 && c.inside[f[1]] && strings.Contains(g, "main.reenterUserCode") {
			lines := strings.Split(g, "\n")
			if len(lines) > 24 {
				lines = lines[:24]
			}
			out = append(out, strings.Join(lines, "\n"))
		}
	}
	sort.Strings(out)
	if len(out) > 3 {
		out = out[:3]
	}

	return strings.Join(out, "\n\n")
}

// within runs f on its own goroutine and says whether it returned in time (a blocked f is left behind).
func within(d time.Duration, f func()) bool {
	done := make(chan struct{})
	go func() {
		f()
		close(done)
	}()
	select {
	case <-done:
		return true
	case <-time.After(d):
		return false
	}
}

// ---------------------------------------------------------------------------

func reenterGCC(scale int) error {
	const name = "reenter/cc+gcc"
	g := newGuard(name, "cc.OnNewPeerConnection", "gcc.OnTargetBitrateChange", "downstream RTP writer", "upstream RTCP reader")
	var est cc.BandwidthEstimator
	var estMu sync.Mutex
	query := func() {
		estMu.Lock()
		e := est
		estMu.Unlock()
		if e != nil {
			_ = e.GetTargetBitrate()
			_ = e.GetStats()
		}
	}
	f, err := cc.NewInterceptor(func() (cc.BandwidthEstimator, error) {
		return gcc.NewSendSideBWE(gcc.SendSideBWEInitialBitrate(300_000), gcc.SendSideBWEMinBitrate(50_000))
	})
	if err != nil {
		return err
	}
	f.OnNewPeerConnection(func(_ string, e cc.BandwidthEstimator) {
		estMu.Lock()
		est = e
		estMu.Unlock()
		g.call("cc.OnNewPeerConnection", query)
		e.OnTargetBitrateChange(func(int) { g.call("gcc.OnTargetBitrateChange", query) })
	})
	icpt, err := f.NewInterceptor("c10")
	if err != nil {
		return err
	}
	twf, err := twcc.NewSenderInterceptor(twcc.SendInterval(2 * time.Millisecond))
	if err != nil {
		return err
	}
	tw, err := twf.NewInterceptor("c10")
	if err != nil {
		return err
	}
	hef, err := twcc.NewHeaderExtensionInterceptor()
	if err != nil {
		return err
	}
	he, err := hef.NewInterceptor("c10")
	if err != nil {
		return err
	}
	info := streamInfoTWCC(1)
	rtpCh := make(chan []byte, 4096)
	fbCh := make(chan []byte, 4096)
	stop := make(chan struct{})
	// the network: what the sender's chain writes arrives at the receiver's twcc interceptor, whose feedback
	// comes back to the sender's RTCP reader
	var nSink atomic.Uint32
	sink := interceptor.RTPWriterFunc(func(h *rtp.Header, p []byte, _ interceptor.Attributes) (int, error) {
		raw, merr := (&rtp.Packet{Header: *h, Payload: p}).Marshal()
		if merr != nil {
			return 0, merr
		}
		select {
		case rtpCh <- raw:
		default:
		}
		if nSink.Add(1)%4 == 1 {
			g.call("downstream RTP writer", query)
		}

		return len(p), nil
	})
	_ = tw.BindRTCPWriter(interceptor.RTCPWriterFunc(func(pkts []rtcp.Packet, _ interceptor.Attributes) (int, error) {
		raw, merr := rtcp.Marshal(pkts)
		if merr != nil {
			return 0, merr
		}
		select {
		case fbCh <- raw:
		default:
		}

		return len(raw), nil
	}))
	remote := tw.BindRemoteStream(info, interceptor.RTPReaderFunc(func(b []byte, a interceptor.Attributes) (int, interceptor.Attributes, error) {
		select {
		case raw := <-rtpCh:
			return copy(b, raw), a, nil
		case <-stop:
			return 0, a, fmt.Errorf("stopped")
		}
	}))
	var nFb atomic.Uint32
	rtcpReader := icpt.BindRTCPReader(interceptor.RTCPReaderFunc(func(b []byte, a interceptor.Attributes) (int, interceptor.Attributes, error) {
		select {
		case raw := <-fbCh:
			if nFb.Add(1)%4 == 1 {
				g.call("upstream RTCP reader", query)
			}

			return copy(b, raw), a, nil
		case <-stop:
			return 0, a, fmt.Errorf("stopped")
		}
	}))
	writer := he.BindLocalStream(info, icpt.BindLocalStream(info, sink))

	var wg sync.WaitGroup
	wg.Add(2)
	mediaEnd := make(chan struct{})
	go func() { // receiver side
		defer wg.Done()
		buf := make([]byte, 1500)
		for {
			if _, _, rerr := remote.Read(buf, nil); rerr != nil {
				return
			}
		}
	}()
	go func() { // sender's RTCP read loop
		defer wg.Done()
		buf := make([]byte, 1500)
		for {
			if _, _, rerr := rtcpReader.Read(buf, nil); rerr != nil {
				return
			}
		}
	}()
	changes := g.counts["gcc.OnTargetBitrateChange"]
	go func() { // media: until the target bitrate has changed a few times (at most 2.5 s x scale)
		defer close(mediaEnd)
		payload := make([]byte, 200)
		limit := time.Now().Add(time.Duration(2500*scale) * time.Millisecond)
		for seq := uint16(1); time.Now().Before(limit) && changes.entered.Load() < int64(3*scale); seq++ {
			h := &rtp.Header{Version: 2, PayloadType: 96, SequenceNumber: seq, Timestamp: uint32(seq) * 3000, SSRC: 1}
			_, _ = writer.Write(h, payload, nil)
			if seq%4 == 0 {
				time.Sleep(time.Millisecond)
			}
		}
	}()
	observerStop := make(chan struct{})
	var og sync.WaitGroup
	og.Add(1)
	go func() { // the observer of the property text
		defer og.Done()
		for {
			select {
			case <-observerStop:
				return
			default:
				query()
				time.Sleep(200 * time.Microsecond)
			}
		}
	}()
	// media ends by itself (enough bitrate changes seen, or the time limit); a blocked pacer must not hang the scenario
	mediaEnded := within(time.Duration(2500*scale+3000)*time.Millisecond, func() { <-mediaEnd })
	stuck := g.settle(3 * time.Second)
	close(observerStop)
	if stuck > 0 {
		close(stop)

		return nil // reported; the blocked goroutines are left behind
	}
	if !within(3*time.Second, og.Wait) {
		return fmt.Errorf("STALL: observer goroutine blocked in GetTargetBitrate / GetStats although no callback is stuck")
	}
	close(stop)
	closed := within(3*time.Second, func() {
		_ = icpt.Close()
		_ = tw.Close()
		_ = he.Close()
	})
	finished := within(3*time.Second, wg.Wait)
	if stuck == 0 && (!closed || !finished || !mediaEnded) {
		return fmt.Errorf("STALL: media writer returned %v, Close returned %v, traffic goroutines finished %v", mediaEnded, closed, finished)
	}

	return nil
}

// ---------------------------------------------------------------------------

func reenterStats(scale int) error {
	const name = "reenter/stats"
	g := newGuard(name, "stats.OnNewPeerConnection", "downstream RTP writer", "downstream RTCP writer", "upstream RTP reader", "upstream RTCP reader")
	var getter stats.Getter
	var gmu sync.Mutex
	query := func() {
		gmu.Lock()
		gt := getter
		gmu.Unlock()
		if gt != nil {
			for ssrc := uint32(1); ssrc <= 2; ssrc++ {
				_ = gt.Get(ssrc)
			}
		}
	}
	f, err := stats.NewInterceptor()
	if err != nil {
		return err
	}
	f.OnNewPeerConnection(func(_ string, gt stats.Getter) {
		gmu.Lock()
		getter = gt
		gmu.Unlock()
		g.call("stats.OnNewPeerConnection", query)
	})
	icpt, err := f.NewInterceptor("c10")
	if err != nil {
		return err
	}
	rtcpWriter := icpt.BindRTCPWriter(interceptor.RTCPWriterFunc(func(pkts []rtcp.Packet, a interceptor.Attributes) (int, error) {
		g.call("downstream RTCP writer", query)

		return consumeRTCP(pkts, a)
	}))
	var round atomic.Uint32
	rtcpReader := icpt.BindRTCPReader(interceptor.RTCPReaderFunc(func(b []byte, a interceptor.Attributes) (int, interceptor.Attributes, error) {
		g.call("upstream RTCP reader", query)

		return copy(b, rtcpInput(round.Add(1), 100)), a, nil
	}))
	var wg sync.WaitGroup
	n := 150 * scale
	for s := uint32(1); s <= 2; s++ {
		ssrc := s
		w := icpt.BindLocalStream(streamInfo(ssrc), interceptor.RTPWriterFunc(func(h *rtp.Header, p []byte, a interceptor.Attributes) (int, error) {
			g.call("downstream RTP writer", query)

			return consumeRTP(h, p, a)
		}))
		var rseq atomic.Uint32
		r := icpt.BindRemoteStream(streamInfo(ssrc), interceptor.RTPReaderFunc(func(b []byte, a interceptor.Attributes) (int, interceptor.Attributes, error) {
			g.call("upstream RTP reader", query)
			in, _, _ := rtpPacket(ssrc, uint16(rseq.Add(1)))

			return copy(b, in), a, nil
		}))
		wg.Add(2)
		go func() {
			defer wg.Done()
			var ru reuse
			for i := 0; i < n; i++ {
				h, p := ru.fill(ssrc, uint16(i))
				_, _ = w.Write(h, p, nil)
			}
		}()
		go func() {
			defer wg.Done()
			buf := make([]byte, 1500)
			for i := 0; i < n; i++ {
				_, _, _ = r.Read(buf, nil)
			}
		}()
	}
	wg.Add(2)
	go func() {
		defer wg.Done()
		buf := make([]byte, 1500)
		for i := 0; i < n/2; i++ {
			_, _, _ = rtcpReader.Read(buf, nil)
		}
	}()
	go func() {
		defer wg.Done()
		for i := 0; i < n/2; i++ {
			_, _ = rtcpWriter.Write([]rtcp.Packet{&rtcp.PictureLossIndication{SenderSSRC: 9, MediaSSRC: 1}}, nil)
		}
	}()
	finished := within(10*time.Second, wg.Wait)
	stuck := g.settle(3 * time.Second)
	closed := within(3*time.Second, func() { _ = icpt.Close() })
	if stuck == 0 && (!finished || !closed) {
		return fmt.Errorf("STALL: traffic finished %v, Close returned %v", finished, closed)
	}

	return nil
}

// ---------------------------------------------------------------------------

func reenterJitterBuffer(scale int) error {
	const name = "reenter/jitterbuffer.Listen"
	g := newGuard(name, "jitterbuffer.Listen")
	jb := jitterbuffer.New(jitterbuffer.WithMinimumPacketCount(8))
	listener := func(_ jitterbuffer.Event, b *jitterbuffer.JitterBuffer) {
		g.call("jitterbuffer.Listen", func() {
			_ = b.PlayoutHead()
			_, _ = b.Peek(true)
		})
	}
	for _, ev := range []jitterbuffer.Event{jitterbuffer.StartBuffering, jitterbuffer.BeginPlayback, jitterbuffer.BufferUnderflow, jitterbuffer.BufferOverflow} {
		jb.Listen(ev, listener)
	}
	finished := within(3*time.Second, func() {
		var wg sync.WaitGroup
		wg.Add(2)
		go func() { // one pusher, one popper: what the interceptor does per stream, without its outer lock
			defer wg.Done()
			for i := 0; i < 120*scale; i++ {
				jb.Push(&rtp.Packet{Header: rtp.Header{Version: 2, SequenceNumber: uint16(5000 + i), Timestamp: uint32(i) * 3000, SSRC: 1}, Payload: []byte{1, 2, 3}})
			}
		}()
		go func() {
			defer wg.Done()
			for i := 0; i < 200*scale; i++ {
				_, _ = jb.Pop()
				_ = jb.PlayoutHead()
			}
		}()
		wg.Wait()
	})
	stuck := g.settle(time.Second)
	if stuck == 0 && !finished {
		return fmt.Errorf("STALL: Push / Pop did not finish although no listener is stuck")
	}

	return nil
}
