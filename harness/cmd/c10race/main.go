// Command c10race is the -race stress of property C10: it drives every real
// interceptor with the concurrency the interface permits (N RTP writers, M RTP
// readers, K RTCP readers, the interceptor's own ticker goroutines, a lifecycle
// goroutine issuing Bind/Unbind/Close, and an observer calling getters).
// Built with `go build -race`; a race report on stderr is the replay of a C10
// violation. A watchdog dumps all goroutines if the workers do not finish.
package main

import (
	"flag"
	"fmt"
	"io"
	"os"
	"runtime"
	"strings"
	"sync"
	"sync/atomic"
	"time"

	"github.com/pion/interceptor"
	"github.com/pion/interceptor/pkg/cc"
	"github.com/pion/interceptor/pkg/flexfec"
	"github.com/pion/interceptor/pkg/gcc"
	"github.com/pion/interceptor/pkg/intervalpli"
	"github.com/pion/interceptor/pkg/jitterbuffer"
	"github.com/pion/interceptor/pkg/nack"
	"github.com/pion/interceptor/pkg/pacing"
	"github.com/pion/interceptor/pkg/packetdump"
	"github.com/pion/interceptor/pkg/report"
	"github.com/pion/interceptor/pkg/rfc8888"
	"github.com/pion/interceptor/pkg/rtpfb"
	"github.com/pion/interceptor/pkg/stats"
	"github.com/pion/interceptor/pkg/twcc"
	"github.com/pion/rtcp"
	"github.com/pion/rtp"
)

const (
	twccURI = "http://www.ietf.org/id/draft-holmer-rmcat-transport-wide-cc-extensions-01"
	twccID  = 5
)

type target struct {
	name        string
	pkg         string
	mk          func() (interceptor.Interceptor, func(), error) // interceptor + observer (getters)
	doubleClose bool                                            // Close guards against a second call: call it from two goroutines
	quiesce     bool                                            // stop the traffic before Close (Read / Bind after Close blocks: findings F34, F35 of property C11)
}

func factory(f interceptor.Factory, err error) func() (interceptor.Interceptor, func(), error) {
	return func() (interceptor.Interceptor, func(), error) {
		if err != nil {
			return nil, nil, err
		}
		i, e := f.NewInterceptor("c10")

		return i, nil, e
	}
}

func targets() []target {
	return []target{
		{"nack.Generator", "nack", func() (interceptor.Interceptor, func(), error) {
			f, err := nack.NewGeneratorInterceptor(nack.GeneratorInterval(2 * time.Millisecond))

			return factory(f, err)()
		}, true, false},
		{"nack.Responder", "nack", func() (interceptor.Interceptor, func(), error) {
			f, err := nack.NewResponderInterceptor()

			return factory(f, err)()
		}, true, false},
		{"report.Receiver", "report", func() (interceptor.Interceptor, func(), error) {
			f, err := report.NewReceiverInterceptor(report.ReceiverInterval(2 * time.Millisecond))

			return factory(f, err)()
		}, true, false},
		{"report.Sender", "report", func() (interceptor.Interceptor, func(), error) {
			f, err := report.NewSenderInterceptor(report.SenderInterval(2 * time.Millisecond))

			return factory(f, err)()
		}, true, false},
		{"twcc.Sender", "twcc", func() (interceptor.Interceptor, func(), error) {
			f, err := twcc.NewSenderInterceptor(twcc.SendInterval(2 * time.Millisecond))

			return factory(f, err)()
		}, true, false},
		{"twcc.HeaderExtension", "twcc", func() (interceptor.Interceptor, func(), error) {
			f, err := twcc.NewHeaderExtensionInterceptor()

			return factory(f, err)()
		}, true, false},
		{"rfc8888.Sender", "rfc8888", func() (interceptor.Interceptor, func(), error) {
			f, err := rfc8888.NewSenderInterceptor(rfc8888.SendInterval(2 * time.Millisecond))

			return factory(f, err)()
		}, true, true},
		{"rtpfb", "rtpfb", func() (interceptor.Interceptor, func(), error) {
			f, err := rtpfb.NewInterceptor()

			return factory(f, err)()
		}, true, false},
		{"stats", "stats", func() (interceptor.Interceptor, func(), error) {
			var mu sync.Mutex
			var getter stats.Getter
			f, err := stats.NewInterceptor()
			if err != nil {
				return nil, nil, err
			}
			f.OnNewPeerConnection(func(_ string, g stats.Getter) {
				mu.Lock()
				getter = g
				mu.Unlock()
			})
			i, err := f.NewInterceptor("c10")

			return i, func() {
				mu.Lock()
				g := getter
				mu.Unlock()
				if g != nil {
					for ssrc := uint32(1); ssrc <= 4; ssrc++ {
						_ = g.Get(ssrc)
					}
				}
			}, err
		}, false, false},
		{"flexfec", "flexfec", func() (interceptor.Interceptor, func(), error) {
			f, err := flexfec.NewFecInterceptor()

			return factory(f, err)()
		}, true, false},
		{"jitterbuffer", "jitterbuffer", func() (interceptor.Interceptor, func(), error) {
			f, err := jitterbuffer.NewInterceptor()

			return factory(f, err)()
		}, false, false},
		{"packetdump.Receiver", "packetdump", func() (interceptor.Interceptor, func(), error) {
			f, err := packetdump.NewReceiverInterceptor(packetdump.RTPWriter(io.Discard), packetdump.RTCPWriter(io.Discard))

			return factory(f, err)()
		}, true, false},
		{"packetdump.Sender", "packetdump", func() (interceptor.Interceptor, func(), error) {
			f, err := packetdump.NewSenderInterceptor(packetdump.RTPWriter(io.Discard), packetdump.RTCPWriter(io.Discard))

			return factory(f, err)()
		}, true, false},
		{"intervalpli", "intervalpli", func() (interceptor.Interceptor, func(), error) {
			f, err := intervalpli.NewReceiverInterceptor(intervalpli.GeneratorInterval(2 * time.Millisecond))

			return factory(f, err)()
		}, true, true},
		{"pacing", "pacing", func() (interceptor.Interceptor, func(), error) {
			f := pacing.NewInterceptor()
			i, err := f.NewInterceptor("c10")

			return i, func() { f.SetRate("c10", 2_000_000) }, err
		}, false, false},
		{"cc+gcc", "gcc", func() (interceptor.Interceptor, func(), error) {
			var mu sync.Mutex
			var est cc.BandwidthEstimator
			f, err := cc.NewInterceptor(func() (cc.BandwidthEstimator, error) {
				return gcc.NewSendSideBWE(gcc.SendSideBWEInitialBitrate(1_000_000))
			})
			if err != nil {
				return nil, nil, err
			}
			f.OnNewPeerConnection(func(_ string, e cc.BandwidthEstimator) {
				mu.Lock()
				est = e
				mu.Unlock()
			})
			i, err := f.NewInterceptor("c10")

			return i, func() {
				mu.Lock()
				e := est
				mu.Unlock()
				if e != nil {
					_ = e.GetTargetBitrate()
					_ = e.GetStats()
				}
			}, err
		}, false, false},
	}
}

func streamInfo(ssrc uint32) *interceptor.StreamInfo {
	info := streamInfoTWCC(ssrc)
	if ssrc%2 == 0 {
		info.RTPHeaderExtensions = nil // even streams: no transport-wide extension (RFC 8888 / CCFB paths)
	}

	return info
}

func streamInfoTWCC(ssrc uint32) *interceptor.StreamInfo {
	return &interceptor.StreamInfo{
		SSRC: ssrc, PayloadType: 96, ClockRate: 90000, MimeType: "video/VP8",
		SSRCRetransmission: ssrc + 1000, PayloadTypeRetransmission: 97,
		SSRCForwardErrorCorrection: ssrc + 2000, PayloadTypeForwardErrorCorrection: 118,
		RTPHeaderExtensions: []interceptor.RTPHeaderExtension{{URI: twccURI, ID: twccID}},
		RTCPFeedback: []interceptor.RTCPFeedback{{Type: "nack"}, {Type: "nack", Parameter: "pli"},
			{Type: "transport-cc"}, {Type: "ack", Parameter: "ccfb"}},
	}
}

// rtcpInput builds one compound packet; recent is the sequence number the writers of the
// addressed stream have just used, so NACKs and feedback refer to packets that are still in the histories.
func rtcpInput(round uint32, recent uint16) []byte {
	base := recent - 6
	tcc := &rtcp.TransportLayerCC{SenderSSRC: 9, MediaSSRC: 1, BaseSequenceNumber: base, PacketStatusCount: 3, ReferenceTime: round & 0xFFFFFF, FbPktCount: uint8(round),
		PacketChunks: []rtcp.PacketStatusChunk{&rtcp.RunLengthChunk{PacketStatusSymbol: rtcp.TypeTCCPacketReceivedSmallDelta, RunLength: 3}},
		RecvDeltas:   []*rtcp.RecvDelta{{Type: rtcp.TypeTCCPacketReceivedSmallDelta, Delta: 250}, {Type: rtcp.TypeTCCPacketReceivedSmallDelta, Delta: 250}, {Type: rtcp.TypeTCCPacketReceivedSmallDelta, Delta: 250}}}
	tcc.Header = rtcp.Header{Padding: true, Count: rtcp.FormatTCC, Type: rtcp.TypeTransportSpecificFeedback, Length: tcc.Len()/4 - 1}
	pkts := []rtcp.Packet{
		&rtcp.ReceiverReport{SSRC: 9, Reports: []rtcp.ReceptionReport{{SSRC: 1, LastSequenceNumber: uint32(base), LastSenderReport: 1, Delay: 1}}},
		&rtcp.TransportLayerNack{SenderSSRC: 9, MediaSSRC: 1 + round%2, Nacks: []rtcp.NackPair{{PacketID: base, LostPackets: 0x5}}},
		&rtcp.CCFeedbackReport{SenderSSRC: 9, ReportTimestamp: round, ReportBlocks: []rtcp.CCFeedbackReportBlock{{
			MediaSSRC: 1 + round%2, BeginSequence: base,
			MetricBlocks: []rtcp.CCFeedbackMetricBlock{{Received: true, ArrivalTimeOffset: 10}, {Received: false}, {Received: true, ArrivalTimeOffset: 3}, {Received: true, ArrivalTimeOffset: 1}},
		}}},
		tcc,
		&rtcp.SenderReport{SSRC: 1 + round%2, NTPTime: uint64(round) << 32, RTPTime: round * 3000, PacketCount: round, OctetCount: round * 100},
	}
	b, err := rtcp.Marshal(pkts)
	if err != nil {
		panic(err)
	}
	if _, err := rtcp.Unmarshal(b); err != nil {
		panic("c10race builds RTCP that does not parse: " + err.Error())
	}

	return b
}

func rtpPacket(ssrc uint32, seq uint16) ([]byte, *rtp.Header, []byte) {
	h := &rtp.Header{Version: 2, PayloadType: 96, SequenceNumber: seq, Timestamp: uint32(seq) * 3000, SSRC: ssrc}
	ext, _ := (&rtp.TransportCCExtension{TransportSequence: seq}).Marshal()
	_ = h.SetExtension(twccID, ext)
	payload := []byte{1, 2, 3, 4, 5, 6, 7, 8}
	b, err := (&rtp.Packet{Header: *h, Payload: payload}).Marshal()
	if err != nil {
		panic(err)
	}

	return b, h, payload
}

// consumed keeps the checksums alive so that the reads below are not optimised away.
var consumed atomic.Uint64

// consumeRTP is the downstream RTP writer: it reads the whole header (incl. extensions) and every payload byte.
func consumeRTP(h *rtp.Header, p []byte, a interceptor.Attributes) (int, error) {
	var sum uint64
	if h != nil {
		if raw, err := h.Marshal(); err == nil {
			for _, b := range raw {
				sum = sum*31 + uint64(b)
			}
		}
	}
	for _, b := range p {
		sum = sum*31 + uint64(b)
	}
	consumed.Add(sum | 1)

	return len(p), nil
}

// consumeRTCP is the downstream RTCP writer: marshalling reads every field of every packet.
func consumeRTCP(pkts []rtcp.Packet, _ interceptor.Attributes) (int, error) {
	var sum uint64
	for _, p := range pkts {
		if p == nil {
			continue
		}
		if raw, err := p.Marshal(); err == nil {
			for _, b := range raw {
				sum = sum*31 + uint64(b)
			}
		}
	}
	consumed.Add(sum | 1)

	return 0, nil
}

// reuse is what one writer goroutine owns: ONE header object and ONE payload buffer for all its packets.
type reuse struct {
	h rtp.Header
	p [8]byte
}

// fill prepares the next packet in place.
func (r *reuse) fill(ssrc uint32, seq uint16) (*rtp.Header, []byte) {
	r.h = rtp.Header{Version: 2, PayloadType: 96, SequenceNumber: seq, Timestamp: uint32(seq) * 3000, SSRC: ssrc}
	ext, _ := (&rtp.TransportCCExtension{TransportSequence: seq}).Marshal()
	_ = r.h.SetExtension(twccID, ext)
	for i := range r.p {
		r.p[i] = byte(seq) + byte(i)
	}

	return &r.h, r.p[:]
}

// scribble takes header and payload back right after Write has returned.
func (r *reuse) scribble() {
	r.h.SequenceNumber, r.h.Timestamp, r.h.Marker = ^r.h.SequenceNumber, ^r.h.Timestamp, !r.h.Marker
	for _, id := range r.h.GetExtensionIDs() {
		if e := r.h.GetExtension(id); len(e) > 0 {
			e[0] ^= 0xFF // the extension bytes belong to the caller too
		}
	}
	for i := range r.p {
		r.p[i] ^= 0xFF
	}
}

// scribbleBuf takes a read buffer back right after Read has returned.
func scribbleBuf(b []byte, n int) {
	if n < 0 || n > len(b) {
		n = len(b)
	}
	for i := 0; i < n; i++ {
		b[i] ^= 0xFF
	}
}

func stress(t target, d time.Duration, nW, nR, nK int) error {
	icpt, observer, err := t.mk()
	if err != nil {
		return err
	}
	var stop atomic.Bool
	var wg sync.WaitGroup
	// The downstream writers behave like a transport: they READ every byte they are handed (so the race detector
	// sees memory that an interceptor passes on after its caller has taken it back). The upstream writers and
	// readers behave like a frugal application: one header object, one payload buffer, one read buffer per
	// goroutine, overwritten as soon as the call returns - which the interfaces permit.
	// Round 4: the downstream writers and the upstream readers are user code too, and user code may call the public
	// getters of the interceptor (the observer of the property text) - every 8th call does, so an interceptor that
	// calls down / up the chain under the mutex its getters take stalls here and the watchdog reports it.
	var userCalls atomic.Uint32
	userCode := func() {
		if observer != nil && userCalls.Add(1)%8 == 0 {
			observer()
		}
	}
	sink := interceptor.RTPWriterFunc(func(h *rtp.Header, p []byte, a interceptor.Attributes) (int, error) {
		userCode()

		return consumeRTP(h, p, a)
	})
	rtcpSink := interceptor.RTCPWriterFunc(func(pkts []rtcp.Packet, a interceptor.Attributes) (int, error) {
		userCode()

		return consumeRTCP(pkts, a)
	})
	_ = icpt.BindRTCPWriter(rtcpSink)
	var rtcpRound, dbg atomic.Uint32
	seqs := make([]atomic.Uint32, 4)
	rtcpReader := icpt.BindRTCPReader(interceptor.RTCPReaderFunc(func(b []byte, a interceptor.Attributes) (int, interceptor.Attributes, error) {
		round := rtcpRound.Add(1)
		in := rtcpInput(round, uint16(seqs[round%2].Load()))
		userCode()

		return copy(b, in), a, nil
	}))
	writers := make([]interceptor.RTPWriter, 2)
	readers := make([]interceptor.RTPReader, 2)
	for s := 0; s < 2; s++ {
		ssrc := uint32(s + 1)
		writers[s] = icpt.BindLocalStream(streamInfo(ssrc), sink)
		idx := s
		readers[s] = icpt.BindRemoteStream(streamInfo(ssrc), interceptor.RTPReaderFunc(
			func(b []byte, a interceptor.Attributes) (int, interceptor.Attributes, error) {
				userCode()
				seq := uint16(seqs[2+idx].Add(1))
				if seq%17 == 0 {
					seq += 2 // a gap now and then, so NACK / report paths have something to do
				}
				in, _, _ := rtpPacket(uint32(idx+1), seq)

				return copy(b, in), a, nil
			}))
	}
	for w := 0; w < nW; w++ {
		wg.Add(1)
		go func(w int) { // RTP writers: same stream and different streams in parallel
			defer wg.Done()
			s := w % 2
			var ru reuse
			for !stop.Load() {
				h, p := ru.fill(uint32(s+1), uint16(seqs[s].Add(1)))
				_, _ = writers[s].Write(h, p, nil)
				ru.scribble()
			}
		}(w)
	}
	for r := 0; r < nR; r++ {
		wg.Add(1)
		go func(r int) { // RTP readers
			defer wg.Done()
			buf := make([]byte, 1500)
			for !stop.Load() {
				n, _, _ := readers[r%2].Read(buf, nil)
				scribbleBuf(buf, n)
			}
		}(r)
	}
	for k := 0; k < nK; k++ {
		wg.Add(1)
		go func() { // several RTCP read loops at once
			defer wg.Done()
			buf := make([]byte, 1500)
			for !stop.Load() {
				n, attr, err := rtcpReader.Read(buf, nil)
				scribbleBuf(buf, n)
				if os.Getenv("C10RACE_DEBUG") != "" && dbg.Add(1) < 4 {
					fmt.Fprintf(os.Stderr, "debug rtcp read: attr=%v err=%v\n", attr, err)
				}
				time.Sleep(50 * time.Microsecond)
			}
		}()
	}
	wg.Add(1)
	go func() { // observer: public getters
		defer wg.Done()
		for !stop.Load() {
			if observer != nil {
				observer()
			}
			time.Sleep(100 * time.Microsecond)
		}
	}()
	wg.Add(1)
	go func() { // lifecycle: Bind / Unbind racing with traffic
		defer wg.Done()
		var lifeReuse reuse
		lifeBuf := make([]byte, 1500)
		for n := uint32(0); !stop.Load(); n++ {
			ssrc := 3 + n%2
			w := icpt.BindLocalStream(streamInfo(ssrc), sink)
			h, p := lifeReuse.fill(ssrc, uint16(n))
			_, _ = w.Write(h, p, nil)
			lifeReuse.scribble()
			icpt.UnbindLocalStream(streamInfo(ssrc))
			r := icpt.BindRemoteStream(streamInfo(ssrc), interceptor.RTPReaderFunc(
				func(b []byte, a interceptor.Attributes) (int, interceptor.Attributes, error) {
					in, _, _ := rtpPacket(ssrc, uint16(n))

					return copy(b, in), a, nil
				}))
			rn, _, _ := r.Read(lifeBuf, nil)
			scribbleBuf(lifeBuf, rn)
			icpt.UnbindRemoteStream(streamInfo(ssrc))
			time.Sleep(200 * time.Microsecond)
		}
	}()
	time.Sleep(d)
	if t.quiesce {
		stop.Store(true)
		wg.Wait()
	}
	// Close racing with traffic (and with a second Close where Close guards against that)
	var cw sync.WaitGroup
	nClose := 1
	if t.doubleClose {
		nClose = 2
	}
	for c := 0; c < nClose; c++ {
		cw.Add(1)
		go func() {
			defer cw.Done()
			_ = icpt.Close()
		}()
	}
	time.Sleep(2 * time.Millisecond)
	stop.Store(true)
	done := make(chan struct{})
	go func() {
		wg.Wait()
		cw.Wait()
		close(done)
	}()
	select {
	case <-done:
		return nil
	case <-time.After(5 * time.Second):
		buf := make([]byte, 1<<20)
		n := runtime.Stack(buf, true)

		return fmt.Errorf("STALL: workers or Close did not finish within 5s\n%s", buf[:n])
	}
}

func main() {
	dur := flag.Duration("d", 500*time.Millisecond, "stress duration per interceptor")
	only := flag.String("pkgs", "", "comma separated package names (default all)")
	nW := flag.Int("writers", 3, "RTP writer goroutines")
	nR := flag.Int("readers", 3, "RTP reader goroutines")
	nK := flag.Int("rtcp", 3, "RTCP reader goroutines")
	mode := flag.String("mode", "all", "stress | scenarios | all (scenarios: counter conservation and use-after-release, see conserve.go)")
	scale := flag.Int("scale", 1, "size multiplier of the conservation / use-after-release scenarios")
	flag.Parse()
	want := map[string]bool{}
	for _, p := range strings.Split(*only, ",") {
		if p != "" {
			want[p] = true
		}
	}
	rc := 0
	for _, sc := range scenarios() {
		if *mode == "stress" || (len(want) > 0 && !want[sc.pkg]) {
			continue
		}
		fmt.Fprintf(os.Stderr, "C10RACE-BEGIN %s\n", sc.name)
		if err := sc.run(*scale); err != nil {
			fmt.Fprintf(os.Stderr, "C10RACE-ERROR %s: %v\n", sc.name, err)
			rc = 3
		}
		fmt.Fprintf(os.Stderr, "C10RACE-END %s\n", sc.name)
	}
	for _, t := range targets() {
		if *mode == "scenarios" || (len(want) > 0 && !want[t.pkg]) {
			continue
		}
		fmt.Fprintf(os.Stderr, "C10RACE-BEGIN %s\n", t.name)
		if err := stress(t, *dur, *nW, *nR, *nK); err != nil {
			fmt.Fprintf(os.Stderr, "C10RACE-ERROR %s: %v\n", t.name, err)
			rc = 3
		}
		fmt.Fprintf(os.Stderr, "C10RACE-END %s\n", t.name)
	}
	os.Exit(rc)
}
