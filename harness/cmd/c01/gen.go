package main

import (
	"math/rand"
	"os"
	"runtime"
	"sync"

	"verifharness/internal/cq"
)

var otherSSRCs = []uint32{0, 1, 0xFFFFFFFF, 0x80000000, 424242}

func genHdr(r *rand.Rand, c cfgIn, seq uint16, shape int) hdrIn {
	h := hdrIn{PT: uint8(r.Intn(128)), Seq: seq, TS: r.Uint32(), SSRC: c.SSRC, Marker: r.Intn(3) == 0} //nolint:gosec
	if r.Intn(6) == 0 {
		h.SSRC = otherSSRCs[r.Intn(len(otherSSRCs))]
		if h.SSRC == c.FecSSRC || h.SSRC == c.RtxSSRC {
			h.SSRC = c.SSRC
		}
	}
	if r.Intn(8) == 0 {
		h.TS = []uint32{0, 0xFFFFFFFF, 0x7FFFFFFF, 0x80000000}[r.Intn(4)]
	}
	if shape < 0 {
		shape = r.Intn(8)
	}
	ncsrc := []int{0, 0, 0, 1, 2, 15}[r.Intn(6)]
	for i := 0; i < ncsrc; i++ {
		h.CSRC = append(h.CSRC, r.Uint32())
	}
	if r.Intn(5) == 0 {
		h.Padding = true
		h.PadSize = uint8(1 + r.Intn(20)) //nolint:gosec
	}
	switch shape {
	case 0, 1, 2: // no extension
	case 3, 4: // one-byte
		h.Ext, h.Profile = true, 0xBEDE
		used := map[uint8]bool{}
		for i := 0; i < 1+r.Intn(3); i++ {
			id := uint8(1 + r.Intn(14)) //nolint:gosec
			if used[id] {
				continue
			}
			used[id] = true
			p := make([]byte, 1+r.Intn(4))
			if r.Intn(6) == 0 {
				p = make([]byte, 16)
			}
			r.Read(p)
			h.Exts = append(h.Exts, extIn{ID: id, Payload: p})
		}
	case 5, 6: // two-byte
		h.Ext, h.Profile = true, 0x1000
		used := map[uint8]bool{}
		for i := 0; i < 1+r.Intn(3); i++ {
			id := uint8(1 + r.Intn(20)) //nolint:gosec
			if r.Intn(4) == 0 {
				id = uint8(15 + r.Intn(240)) //nolint:gosec
			}
			if used[id] {
				continue
			}
			used[id] = true
			p := make([]byte, r.Intn(6))
			if r.Intn(6) == 0 {
				p = make([]byte, 17+r.Intn(20))
			}
			r.Read(p)
			h.Exts = append(h.Exts, extIn{ID: id, Payload: p})
		}
	default: // RFC 3550 generic extension (profile outside RFC 8285): single id-0 entry, multiple of 4 bytes
		h.Ext, h.Profile = true, uint16(0x2000+r.Intn(100)) //nolint:gosec
		p := make([]byte, 4*(1+r.Intn(2)))
		r.Read(p)
		h.Exts = []extIn{{ID: 0, Payload: p}}
	}

	return h
}

var payLens = []int{0, 1, 2, 3, 100, 1199, 1200, 1459, 1460}

var bigLens = []int{1461, 1462, 1500, 1800}

func genPkt(r *rand.Rand, c cfgIn, seq uint16, shape int) pktIn {
	p := pktIn{H: genHdr(r, c, seq, shape), Fill: r.Intn(1 << 20)}
	switch r.Intn(3) {
	case 0:
		p.PLen = payLens[r.Intn(len(payLens))]
	case 1:
		p.PLen = r.Intn(1461)
	default:
		p.PLen = r.Intn(64)
	}
	if r.Intn(14) == 0 { // above what the responder's packet factory accepts
		p.PLen = bigLens[r.Intn(len(bigLens))]
	}
	if p.H.Padding && r.Intn(3) == 0 {
		// legacy padding form: PaddingSize 0, the count is the last payload byte
		p.H.PadSize = 0
		count := 0
		switch {
		case p.PLen == 0:
		case r.Intn(3) == 0: // count above the payload length
			count = p.PLen + 1 + r.Intn(5)
			if count > 255 {
				count = 255
			}
		default:
			count = 1 + r.Intn(min(p.PLen, 255))
		}
		p.Legacy = count + 1
	}

	return p
}

var libKinds = []int{0, 1, 2, 3, 4, 5, 6, 7, 8, 9, 10, 11, 12, 13, 14}

func genMember(r *rand.Rand, kind int, depth int) memberIn {
	m := memberIn{Kind: kind, Var: r.Intn(12)}
	switch kind {
	case 10, 11:
		if r.Intn(2) == 0 {
			m.Opt = 1<<13 | r.Intn(256) | r.Intn(32)<<8
			if r.Intn(2) == 0 {
				m.Opt |= 2 // receiver reports rejected
			}
		}
	case 1:
		if r.Intn(4) == 0 {
			m.Opt = 1 + r.Intn(2)
		}
	case 3, 4, 7, 9:
		if r.Intn(3) == 0 {
			m.Opt = 1
		}
	}
	switch kind {
	case 2:
		m.Params = []int{r.Intn(2)}
		if r.Intn(4) == 0 {
			m.Opt = 1 + r.Intn(2)
		}
	case 13:
		nm := []int{1, 2, 3, 5}[r.Intn(4)]
		m.Params = []int{nm, 1 + r.Intn(nm)}
		if m.Params[1] > 2 {
			m.Params[1] = 2
		}
		if r.Intn(3) == 0 {
			m.Opt = 1
		}
	case 14, 15:
		if r.Intn(2) == 0 {
			m.CErr = 1 + r.Intn(6)
			if r.Intn(3) == 0 {
				m.CErr = -m.CErr
			}
		}
	case 16:
		n := r.Intn(4)
		for i := 0; i < n; i++ {
			k := libKinds[r.Intn(len(libKinds))]
			if r.Intn(3) == 0 {
				k = 15
			}
			if depth < 2 && r.Intn(6) == 0 {
				k = 16
			}
			m.Sub = append(m.Sub, genMember(r, k, depth+1))
		}
	}

	return m
}

func genCfg(r *rand.Rand) cfgIn {
	c := cfgIn{SSRC: []uint32{5000, 1, 0xFFFFFFFE, 0x12345678}[r.Intn(4)]}
	switch r.Intn(6) {
	case 0:
	case 1, 2, 3:
		c.TwccID = 1 + r.Intn(14)
	case 4:
		c.TwccID = []int{15, 16, 200, 255, 256, 261}[r.Intn(6)]
	default:
		c.TwccID = 5
	}
	c.Nack = r.Intn(4) != 0
	c.Pli = r.Intn(2) == 0
	if r.Intn(3) != 0 {
		c.RtxSSRC, c.RtxPT = 777777, 97
	}
	if r.Intn(3) != 0 {
		c.FecSSRC, c.FecPT = 888888, 118
	}

	return c
}

// one random case; errAt < 0: random error placement
func genCase(r *rand.Rand, bucket string) caseIn { //nolint:cyclop,gocognit
	in := caseIn{Cfg: genCfg(r), Note: bucket}
	c := in.Cfg
	nm := r.Intn(9)
	if bucket == "empty" {
		nm = 0
	}
	hasStatsOrSingle := map[int]bool{}
	for i := 0; i < nm; i++ {
		k := libKinds[r.Intn(len(libKinds))]
		switch r.Intn(8) {
		case 0:
			k = 15
		case 1:
			k = 16
		}
		if k == 9 && hasStatsOrSingle[9] { // one stats getter per chain is observed
			k = 15
		}
		hasStatsOrSingle[k] = true
		in.Members = append(in.Members, genMember(r, k, 0))
	}
	// nested chains must not bring a second stats interceptor
	seenStats := false
	var scrub func(ms []memberIn)
	scrub = func(ms []memberIn) {
		for i := range ms {
			if ms[i].Kind == 9 {
				if seenStats {
					ms[i] = memberIn{Kind: 15}
				}
				seenStats = true
			}
			scrub(ms[i].Sub)
		}
	}
	scrub(in.Members)
	errID := 1000
	nextErr := func() int { errID++; return errID }
	// writes
	nw := r.Intn(9)
	seq := uint16(r.Intn(65536)) //nolint:gosec
	if r.Intn(4) == 0 {
		seq = uint16(65533 + r.Intn(3)) //nolint:gosec
	}
	shape := -1
	if r.Intn(3) == 0 {
		shape = r.Intn(8)
	}
	for i := 0; i < nw; i++ {
		w := writeIn{Pkt: genPkt(r, c, seq, shape)}
		if r.Intn(8) != 0 {
			seq++
		} else {
			seq += uint16(r.Intn(5)) //nolint:gosec
		}
		ncalls := 4
		for j := 0; j < ncalls; j++ {
			rp := respIn{N: r.Intn(3000)}
			if r.Intn(5) == 0 {
				rp.Err = nextErr()
				if r.Intn(2) == 0 {
					rp.N = 0
				}
			}
			w.Resp = append(w.Resp, rp)
		}
		in.Writes = append(in.Writes, w)
	}
	if nw > 0 && c.Nack && r.Intn(3) == 0 {
		n := 1 + r.Intn(2)
		for i := 0; i < n; i++ {
			s := in.Writes[r.Intn(nw)].Pkt.H.Seq
			in.Nacks = append(in.Nacks, []uint16{s, s + 1, s + 3})
		}
	}
	// reads
	nr := r.Intn(8)
	rseq := uint16(r.Intn(30000)) //nolint:gosec
	for i := 0; i < nr; i++ {
		op := readIn{AIn: r.Intn(2), Trunc: -1, AMode: []int{0, 0, 0, 1, 2}[r.Intn(5)]}
		rc := c
		p := genPkt(r, rc, rseq, shape)
		p.H.SSRC = c.SSRC
		// a well-formed TWCC extension most of the time
		if c.TwccID > 0 && c.TwccID < 15 && r.Intn(3) != 0 && (!p.H.Ext || p.H.Profile == 0xBEDE || p.H.Profile == 0x1000) {
			if !p.H.Ext {
				p.H.Ext, p.H.Profile = true, 0xBEDE
			}
			keep := p.H.Exts[:0]
			for _, e := range p.H.Exts {
				if int(e.ID) != c.TwccID {
					keep = append(keep, e)
				}
			}
			tw := []byte{byte(i >> 8), byte(i)}
			if r.Intn(12) == 0 {
				tw = []byte{7} // malformed: one byte
			}
			p.H.Exts = append(keep, extIn{ID: uint8(c.TwccID), Payload: tw}) //nolint:gosec
		}
		rseq += uint16(r.Intn(3)) //nolint:gosec
		if r.Intn(5) == 0 {
			// failed read: a decoy packet is left in the buffer
			op.Err = nextErr()
			p.H.Seq = uint16(decoyLo + 100 + r.Intn(800)) //nolint:gosec
			for k := range p.H.Exts {
				if int(p.H.Exts[k].ID) == c.TwccID && len(p.H.Exts[k].Payload) == 2 {
					p.H.Exts[k].Payload = []byte{byte((decoyLo + 100 + i) >> 8), byte(decoyLo + 100 + i)}
				}
			}
			op.ErrN = []int{0, 0, 12, 40}[r.Intn(4)]
		} else if id := uint8(c.TwccID); id != 0 && r.Intn(8) == 0 && //nolint:gosec
			(!p.H.Ext || (p.H.Profile == 0xBEDE && id <= 14) || p.H.Profile == 0x1000) {
			// a SUCCESSFUL read whose transport-wide sequence number lies where the decoys live
			// (feedback reporting it is right; ids above 255 alias to uint8(id))
			if !p.H.Ext {
				p.H.Ext, p.H.Profile = true, 0xBEDE
				if id > 14 {
					p.H.Profile = 0x1000
				}
			}
			keep := p.H.Exts[:0]
			for _, e := range p.H.Exts {
				if e.ID != id {
					keep = append(keep, e)
				}
			}
			n := decoyLo + r.Intn(1000)
			tw := []byte{byte(n >> 8), byte(n)}
			for k := r.Intn(3); k > 0; k-- {
				tw = append(tw, byte(r.Intn(256)))
			}
			p.H.Exts = append(keep, extIn{ID: id, Payload: tw})
			p.Legacy = 0
		} else if bucket == "truncated" && r.Intn(3) == 0 {
			op.Trunc = r.Intn(12 + 4*len(p.H.CSRC) + 8)
		}
		op.Pkt = &p
		in.Reads = append(in.Reads, op)
	}
	// RTCP reads
	kinds := []int{200, 201, 202, 203, 205, 206, 215, 211}
	nc := r.Intn(5)
	for i := 0; i < nc; i++ {
		op := readIn{AIn: r.Intn(2), Trunc: -1, AMode: []int{0, 0, 0, 1, 2}[r.Intn(5)]}
		n := 1 + r.Intn(4)
		for j := 0; j < n; j++ {
			op.RTCP = append(op.RTCP, kinds[r.Intn(len(kinds))])
		}
		if r.Intn(5) == 0 {
			op.Err = nextErr()
			op.ErrN = []int{0, 8}[r.Intn(2)]
		} else if bucket == "truncated" && r.Intn(3) == 0 {
			op.Trunc = r.Intn(12)
		}
		in.CReads = append(in.CReads, op)
	}
	// RTCP writes
	ncw := r.Intn(5)
	for i := 0; i < ncw; i++ {
		w := cwriteIn{}
		n := 1 + r.Intn(4)
		for j := 0; j < n; j++ {
			w.Kinds = append(w.Kinds, kinds[r.Intn(len(kinds))])
		}
		rp := respIn{N: r.Intn(500)}
		if r.Intn(4) == 0 {
			rp.Err = nextErr()
		}
		w.Resp = []respIn{rp, {N: 1}}
		in.CWrites = append(in.CWrites, w)
	}

	return in
}

// chains with one responder above a tap and members that see its retransmissions
// (flexfec / packetdump / stats / report sender / twcc header extension / rtpfb), NACKs for
// packets that were written: differential replay of the injection theorem
//
// refuse: a TWCC header-extension member at the bottom, FEC encoders above it, no RTX, and packets
// the header-extension member cannot take (RFC 3550 generic extension): the retransmission is
// refused below the encoders, which still send their repair packets
func genInject(r *rand.Rand, refuse bool) caseIn {
	in := caseIn{Cfg: genCfg(r), Note: "inject", Inject: true}
	in.Cfg.Nack = true
	if in.Cfg.TwccID > 14 {
		in.Cfg.TwccID = 1 + r.Intn(14)
	}
	if refuse {
		in.Note = "inject-refuse"
		in.Cfg.RtxSSRC, in.Cfg.RtxPT = 0, 0
		in.Cfg.FecSSRC, in.Cfg.FecPT = 888888, 118
		if in.Cfg.TwccID == 0 {
			in.Cfg.TwccID = 1 + r.Intn(14)
		}
		in.Members = append(in.Members, memberIn{Kind: 6}, memberIn{Kind: 13, Params: []int{1 + r.Intn(2), 1}})
	}
	c := in.Cfg
	below := []int{11, 13, 9, 4, 6, 8, 15, 0, 13, 11}
	stats := false
	for i, n := 0, r.Intn(4); i < n; i++ {
		k := below[r.Intn(len(below))]
		if k == 9 {
			if stats {
				k = 15
			}
			stats = true
		}
		in.Members = append(in.Members, genMember(r, k, 0))
	}
	in.Members = append(in.Members, memberIn{Kind: 15})
	resp := genMember(r, 2, 0)
	if resp.Opt == 2 {
		resp.Opt = 1
	}
	in.Members = append(in.Members, resp)
	for i, n := 0, r.Intn(3); i < n; i++ {
		k := []int{11, 4, 6, 8, 15, 0, 1, 3, 5, 7, 10, 12, 14}[r.Intn(13)]
		in.Members = append(in.Members, genMember(r, k, 0))
	}
	nw := 3 + r.Intn(6)
	seq := uint16(r.Intn(65536)) //nolint:gosec
	if r.Intn(4) == 0 {
		seq = uint16(65533 + r.Intn(3)) //nolint:gosec
	}
	for i := 0; i < nw; i++ {
		shape := -1
		if refuse && i%2 == 0 {
			shape = 7
		}
		p := genPkt(r, c, seq, shape)
		p.H.SSRC = c.SSRC
		seq++
		w := writeIn{Pkt: p}
		for j := 0; j < 4; j++ {
			w.Resp = append(w.Resp, respIn{N: r.Intn(3000)})
		}
		in.Writes = append(in.Writes, w)
	}
	for i, n := 0, 1+r.Intn(2); i < n; i++ {
		s := in.Writes[r.Intn(nw)].Pkt.H.Seq
		in.Nacks = append(in.Nacks, []uint16{s, s + 1, s + 3})
	}
	if refuse {
		s := in.Writes[0].Pkt.H.Seq
		in.Nacks = append(in.Nacks, []uint16{s, s + 1, s + 2})
	}

	return in
}

// error at every position of the transport writer / reader for one fixed history
func sweep(r *rand.Rand) []caseIn {
	base := genCase(r, "sweep")
	for i := range base.Writes {
		for j := range base.Writes[i].Resp {
			base.Writes[i].Resp[j].Err = 0
		}
	}
	for i := range base.Reads {
		base.Reads[i].Err = 0
		base.Reads[i].Pkt.H.Seq = uint16(100 + 2*i) //nolint:gosec
		for k := range base.Reads[i].Pkt.H.Exts {
			if int(base.Reads[i].Pkt.H.Exts[k].ID) == base.Cfg.TwccID && len(base.Reads[i].Pkt.H.Exts[k].Payload) == 2 {
				base.Reads[i].Pkt.H.Exts[k].Payload = []byte{0, byte(i)}
			}
		}
	}
	out := []caseIn{}
	pos := 0
	for i := range base.Writes {
		for j := 0; j < 2; j++ {
			cpy := deepCopy(base)
			cpy.Writes[i].Resp[j].Err = 1500 + pos
			pos++
			out = append(out, cpy)
		}
	}
	for i := range base.Reads {
		cpy := deepCopy(base)
		cpy.Reads[i].Err = 1700 + i
		dp := *cpy.Reads[i].Pkt
		dp.H.Seq = uint16(decoyLo + 100 + i) //nolint:gosec
		dp.H.Exts = nil
		dp.H.Ext = false
		cpy.Reads[i].Pkt = &dp
		out = append(out, cpy)
	}

	return out
}

// ---- teardown histories: the order (and repetition) of the lifecycle calls on the chain ----

var tdPerms = [][]int{{0, 1, 2}, {2, 0, 1}, {0, 2, 1}, {1, 2, 0}, {2, 1, 0}, {1, 0, 2}}

// a history with exactly one Close at any position and every stream unbound at least once, some
// streams twice (before and/or after the Close)
func genTeardown(r *rand.Rand, perm int) []int {
	td := append([]int{}, tdPerms[perm%len(tdPerms)]...)
	for r.Intn(3) == 0 && len(td) < 6 {
		at := r.Intn(len(td) + 1)
		td = append(td[:at], append([]int{r.Intn(2)}, td[at:]...)...)
	}

	return td
}

func hasMock(ms []memberIn) bool {
	for _, m := range flatten(ms) {
		if m.Kind == 15 {
			return true
		}
	}

	return false
}

// give an already generated case a teardown history other than Unbind, Unbind, Close; the
// delivery of the calls is observed on instrumented members, so the chain gets one if it has none
func withTeardown(r *rand.Rand, in caseIn, perm int) caseIn {
	in.Teardown = genTeardown(r, perm)
	if !hasMock(in.Members) {
		in.Members = append(append([]memberIn{}, in.Members...), genMember(r, 15, 0))
	}

	return in
}

// a short data path, a chain with instrumented members at every nesting level (Close errors plain,
// wrapped, nil) between library members, and a teardown history from the whole family
func genTeardownCase(r *rand.Rand, i int) caseIn {
	in := genCase(r, "teardown")
	if len(in.Writes) > 2 {
		in.Writes = in.Writes[:2]
	}
	if len(in.Reads) > 1 {
		in.Reads = in.Reads[:1]
	}
	if len(in.CReads) > 1 {
		in.CReads = in.CReads[:1]
	}
	if len(in.CWrites) > 1 {
		in.CWrites = in.CWrites[:1]
	}
	in.Nacks = nil
	lib := func() int { return []int{0, 1, 2, 3, 4, 5, 6, 7, 8, 10, 11, 12, 13, 14}[r.Intn(14)] }
	for k := range in.Members {
		if in.Members[k].Kind != 9 && in.Members[k].Kind != 16 && r.Intn(3) == 0 {
			in.Members[k] = genMember(r, 15, 0)
		}
	}
	insert := func(m memberIn) {
		at := r.Intn(len(in.Members) + 1)
		in.Members = append(in.Members[:at], append([]memberIn{m}, in.Members[at:]...)...)
	}
	insert(genMember(r, 15, 0))
	if r.Intn(2) == 0 {
		nested := memberIn{Kind: 16, Sub: []memberIn{genMember(r, 15, 1), genMember(r, lib(), 1)}}
		if r.Intn(2) == 0 {
			nested.Sub = append(nested.Sub, memberIn{Kind: 16, Sub: []memberIn{genMember(r, lib(), 2), genMember(r, 15, 2)}})
		}
		insert(nested)
	}
	if i%9 == 8 { // nothing but instrumented members, each with its own Close error
		in.Members = nil
		for k, n := 0, 1+r.Intn(5); k < n; k++ {
			in.Members = append(in.Members, memberIn{Kind: 15, CErr: []int{0, k + 1, -(k + 1)}[r.Intn(3)]})
		}
	}
	in.Teardown = genTeardown(r, i)

	return in
}

// ---- more than one BindLocalStream on one chain (round 4) ----

// an SSRC for a second local stream: none of the case's stream, RTX and FEC SSRCs
func otherStream(c cfgIn) uint32 { return c.SSRC + 1000 }

// the chain gets a nack responder (the member that keeps its streams - buffer and writer - in a
// table keyed by SSRC) with a stream filter that accepts the stream, unless it has one
func withResponder(r *rand.Rand, in *caseIn) {
	for _, m := range flatten(in.Members) {
		if m.Kind == 2 && m.Opt != 2 {
			return
		}
	}
	resp := genMember(r, 2, 0)
	if resp.Opt == 2 {
		resp.Opt = 1
	}
	at := r.Intn(len(in.Members) + 1)
	in.Members = append(in.Members[:at:at], append([]memberIn{resp}, in.Members[at:]...)...)
}

// a case whose application binds local streams WHILE it is writing: the case's stream bound again
// (with or without an UnbindLocalStream in between), a second stream with another SSRC, up to three
// extra bindings, each with a next writer of its own; every Write goes through one of the live
// bindings (mostly the latest) and carries - mostly - the SSRC of that binding's stream
func genRebind(r *rand.Rand, i int) caseIn {
	in := genCase(r, "rebind")
	c := in.Cfg
	if i%4 != 3 {
		in.Cfg.Nack = true
		c = in.Cfg
		withResponder(r, &in)
	}
	in.Nacks = nil
	if len(in.Reads) > 2 {
		in.Reads = in.Reads[:2]
	}
	if len(in.CReads) > 1 {
		in.CReads = in.CReads[:1]
	}
	if len(in.CWrites) > 1 {
		in.CWrites = in.CWrites[:1]
	}
	nw := 4 + r.Intn(7)
	nb := 1 + r.Intn(3)
	// binding k (k >= 1) is made before write at[k-1]
	type bstate struct {
		ssrc uint32
		live bool
	}
	bs := []bstate{{c.SSRC, true}}
	for k := 0; k < nb; k++ {
		bi := bindIn{After: 1 + r.Intn(nw-1)}
		if k > 0 && in.Binds[k-1].After > bi.After {
			bi.After = in.Binds[k-1].After
		}
		if r.Intn(10) < 3 {
			bi.SSRC = otherStream(c)
		}
		bi.Unbind = r.Intn(5) < 2
		// round 5: the new binding's StreamInfo negotiated something else than the case's stream
		if r.Intn(2) == 0 {
			bi.Twcc = genBindTwcc(r)
		}
		if r.Intn(4) == 0 {
			bi.Nack = 1 + r.Intn(2)
		}
		in.Binds = append(in.Binds, bi)
	}
	in.Writes = nil
	seq := uint16(r.Intn(65536)) //nolint:gosec
	shape := -1
	if r.Intn(3) == 0 {
		shape = r.Intn(8)
	}
	errID := 1300
	nextBind := 0
	for w := 0; w < nw; w++ {
		for nextBind < nb && in.Binds[nextBind].After <= w {
			bi := in.Binds[nextBind]
			ssrc := bi.SSRC
			if ssrc == 0 {
				ssrc = c.SSRC
			}
			if bi.Unbind {
				for k := range bs {
					if bs[k].ssrc == ssrc {
						bs[k].live = false
					}
				}
			}
			bs = append(bs, bstate{ssrc, true})
			nextBind++
		}
		via := len(bs) - 1
		if r.Intn(4) == 0 { // an earlier binding that is still live (two streams side by side)
			if k := r.Intn(len(bs)); bs[k].live {
				via = k
			}
		}
		ck := c
		ck.SSRC = bs[via].ssrc
		wi := writeIn{Pkt: genPkt(r, ck, seq, shape), Via: via}
		if r.Intn(8) != 0 {
			seq++
		} else {
			seq += uint16(r.Intn(5)) //nolint:gosec
		}
		for j := 0; j < 4; j++ {
			rp := respIn{N: r.Intn(3000)}
			if r.Intn(6) == 0 {
				errID++
				rp.Err = errID
			}
			wi.Resp = append(wi.Resp, rp)
		}
		in.Writes = append(in.Writes, wi)
	}
	if c.Nack && r.Intn(3) == 0 {
		s := in.Writes[r.Intn(nw)].Pkt.H.Seq
		in.Nacks = append(in.Nacks, []uint16{s, s + 1, s + 3})
	}

	return in
}

// the transport-cc ID a further binding negotiated: mostly a valid one-byte ID (it may coincide with
// the case's), sometimes none, sometimes one outside 1..14
func genBindTwcc(r *rand.Rand) int {
	switch r.Intn(10) {
	case 0:
		return -1
	case 1:
		return []int{15, 16, 200, 255, 256, 261}[r.Intn(6)]
	}

	return 1 + r.Intn(14)
}

// ---- several local streams with DIFFERENT negotiated configurations on one chain (round 5) ----
//
// Two or three local streams (distinct SSRCs) bound to one chain, every StreamInfo with a
// transport-cc ID of its own (mostly pairwise distinct valid IDs; sometimes none / one outside
// 1..14) and its own nack feedback; all bound before the first Write or one after the other while
// the application writes; the Writes are spread over all live bindings, in any interleaving, so that
// streams bound EARLIER are used after later ones were bound.  Packets carry the SSRC of their
// stream and, half of the time, an application extension (3 bytes, as abs-send-time) under the ID
// that ANOTHER stream of the chain uses for transport-cc.  The chain has a TWCC header-extension
// member (three cases out of four) and often a nack responder.
func genStreams(r *rand.Rand, i int) caseIn {
	in := genCase(r, "streams")
	if i%4 != 3 {
		at := r.Intn(len(in.Members) + 1)
		in.Members = append(in.Members[:at:at], append([]memberIn{genMember(r, 6, 0)}, in.Members[at:]...)...)
		if in.Cfg.TwccID == 0 || (in.Cfg.TwccID > 14 && r.Intn(4) != 0) {
			in.Cfg.TwccID = 1 + r.Intn(14)
		}
	}
	if i%2 == 0 {
		in.Cfg.Nack = r.Intn(3) != 0
		withResponder(r, &in)
	}
	c := in.Cfg
	in.Nacks = nil
	if len(in.Reads) > 2 {
		in.Reads = in.Reads[:2]
	}
	if len(in.CReads) > 1 {
		in.CReads = in.CReads[:1]
	}
	if len(in.CWrites) > 1 {
		in.CWrites = in.CWrites[:1]
	}
	nw := 4 + r.Intn(7)
	nb := 1 + r.Intn(2)
	upFront := r.Intn(2) == 0
	ids := []int{c.TwccID}
	ssrcs := []uint32{c.SSRC}
	for k := 0; k < nb; k++ {
		bi := bindIn{SSRC: c.SSRC + uint32(1000*(k+1))} //nolint:gosec
		if !upFront {
			bi.After = r.Intn(nw - 1)
			if k > 0 && in.Binds[k-1].After > bi.After {
				bi.After = in.Binds[k-1].After
			}
		}
		if r.Intn(8) != 0 {
			bi.Twcc = genBindTwcc(r)
			for try := 0; try < 4 && bi.Twcc > 0 && bi.Twcc < 15 && containsInt(ids, bi.Twcc); try++ {
				bi.Twcc = 1 + r.Intn(14)
			}
		}
		if r.Intn(3) == 0 {
			bi.Nack = 1 + r.Intn(2)
		}
		ids = append(ids, bi.twccID(c))
		ssrcs = append(ssrcs, bi.SSRC)
		in.Binds = append(in.Binds, bi)
	}
	in.Writes = nil
	seq := uint16(r.Intn(65536)) //nolint:gosec
	errID := 1500
	nbound := 1
	for w := 0; w < nw; w++ {
		for nbound <= nb && in.Binds[nbound-1].After <= w {
			nbound++
		}
		via := r.Intn(nbound)
		ck := c
		ck.SSRC = ssrcs[via]
		shape := []int{0, 3, 3, 4, 5, -1}[r.Intn(6)]
		wi := writeIn{Pkt: genPkt(r, ck, seq, shape), Via: via}
		wi.Pkt.H.SSRC = ck.SSRC
		if other := ids[r.Intn(len(ids))]; other >= 1 && other <= 14 && other != ids[via] && r.Intn(2) == 0 &&
			(!wi.Pkt.H.Ext || wi.Pkt.H.Profile == 0xBEDE || wi.Pkt.H.Profile == 0x1000) {
			// an application extension under the ID another stream negotiated for transport-cc
			h := &wi.Pkt.H
			if !h.Ext {
				h.Ext, h.Profile = true, 0xBEDE
			}
			keep := h.Exts[:0]
			for _, e := range h.Exts {
				if int(e.ID) != other {
					keep = append(keep, e)
				}
			}
			ast := make([]byte, 3)
			r.Read(ast)
			h.Exts = append(keep, extIn{ID: uint8(other), Payload: ast}) //nolint:gosec
		}
		seq++
		for j := 0; j < 4; j++ {
			rp := respIn{N: r.Intn(3000)}
			if r.Intn(8) == 0 {
				errID++
				rp.Err = errID
			}
			wi.Resp = append(wi.Resp, rp)
		}
		in.Writes = append(in.Writes, wi)
	}

	return in
}

func containsInt(xs []int, x int) bool {
	for _, y := range xs {
		if y == x {
			return true
		}
	}

	return false
}

// an already generated case whose stream is bound a second time half way through its writes (same
// SSRC, no Unbind in between in two cases out of three); the later writes go through the new binding
func withRebind(r *rand.Rand, in caseIn) caseIn {
	if len(in.Writes) < 2 || in.Inject || len(in.Binds) > 0 {
		return in
	}
	at := 1 + r.Intn(len(in.Writes)-1)
	in.Binds = []bindIn{{After: at, Unbind: r.Intn(3) == 0}}
	ws := make([]writeIn, len(in.Writes))
	copy(ws, in.Writes)
	for i := at; i < len(ws); i++ {
		ws[i].Via = 1
	}
	in.Writes = ws

	return in
}

// ---- Close errors that are not pairwise distinct (round 4) ----

// a chain in which several members fail on Close with THE SAME error value, or with an error that
// wraps the sentinel another member returns (either order), flat and inside nested chains, between
// library members and members whose Close succeeds
func genCloseDup(r *rand.Rand, i int) caseIn {
	in := genCase(r, "close-dup")
	if len(in.Writes) > 2 {
		in.Writes = in.Writes[:2]
	}
	if len(in.Reads) > 1 {
		in.Reads = in.Reads[:1]
	}
	if len(in.CReads) > 1 {
		in.CReads = in.CReads[:1]
	}
	if len(in.CWrites) > 1 {
		in.CWrites = in.CWrites[:1]
	}
	in.Nacks = nil
	if i%5 == 4 {
		in.Members = nil
	}
	ids := []int{1 + r.Intn(6)}
	if r.Intn(3) == 0 {
		ids = append(ids, 1+r.Intn(6))
	}
	failing := func(depth int) memberIn {
		m := memberIn{Kind: []int{15, 15, 15, 14}[r.Intn(4)], Var: r.Intn(12)}
		m.CErr = ids[r.Intn(len(ids))]
		if r.Intn(3) == 0 {
			m.CErr = -m.CErr
		}
		_ = depth

		return m
	}
	insert := func(m memberIn) {
		at := r.Intn(len(in.Members) + 1)
		in.Members = append(in.Members[:at:at], append([]memberIn{m}, in.Members[at:]...)...)
	}
	for k, n := 0, 2+r.Intn(4); k < n; k++ {
		switch r.Intn(5) {
		case 0: // inside a nested chain, next to another failing member or a quiet one
			sub := []memberIn{failing(1)}
			if r.Intn(2) == 0 {
				sub = append(sub, failing(1))
			} else {
				sub = append(sub, memberIn{Kind: 15})
			}
			if r.Intn(3) == 0 {
				sub = append(sub, memberIn{Kind: 16, Sub: []memberIn{failing(2)}})
			}
			insert(memberIn{Kind: 16, Sub: sub})
		default:
			insert(failing(0))
		}
	}
	in.Teardown = genTeardown(r, i)

	return in
}

func deepCopy(in caseIn) caseIn {
	out := in
	out.Writes = make([]writeIn, len(in.Writes))
	for i, w := range in.Writes {
		out.Writes[i] = w
		out.Writes[i].Resp = append([]respIn{}, w.Resp...)
	}
	out.Reads = append([]readIn{}, in.Reads...)

	return out
}

func main() {
	o := cq.ParseFlags()
	r := o.Rand()
	set := &cq.Set{
		Name: "c01", Import: "IV.Check.C01Check", CaseType: "c01_case",
		Checks: []string{"c01_mismatches", "c01_spec_failures"},
	}
	var ins []caseIn
	var buckets [][]string
	add := func(in caseIn, b ...string) { ins = append(ins, in); buckets = append(buckets, b) }
	if o.Replay != "" {
		var in caseIn
		cq.LoadReplay(o.Replay, &in)
		add(in, "replay")
	} else {
		for _, f := range o.CorpusFiles() {
			var in caseIn
			cq.LoadReplay(f, &in)
			add(in, "corpus")
		}
		n := o.Scale(1300, 40000)
		for i := 0; i < n; i++ {
			b := "random"
			switch {
			case i%40 == 0:
				b = "empty"
			case i%7 == 0:
				b = "truncated"
			}
			add(genCase(r, b), b)
		}
		ni := o.Scale(150, 4000)
		for i := 0; i < ni; i++ {
			if i%5 == 4 {
				add(genInject(r, true), "inject", "inject-refuse")
			} else {
				add(genInject(r, false), "inject")
			}
		}
		ns := o.Scale(12, 400)
		for i := 0; i < ns; i++ {
			for _, c := range sweep(r) {
				add(c, "error-sweep")
			}
		}
	}
	if o.Replay == "" {
		// teardown histories, drawn from a generator of their own after everything else (the cases
		// above stay what they were): about half of the generated cases are torn down in another
		// order than Unbind, Unbind, Close; then the dedicated teardown cases
		r2 := rand.New(rand.NewSource(o.Seed*7919 + 17)) //nolint:gosec
		for i := range ins {
			if buckets[i][0] == "corpus" || buckets[i][0] == "empty" {
				continue
			}
			if k := r2.Intn(12); k >= 5 {
				ins[i] = withTeardown(r2, ins[i], k-5)
			}
		}
		nt := o.Scale(90, 3000)
		for i := 0; i < nt; i++ {
			add(genTeardownCase(r2, i), "teardown")
		}
		// round 4, again from a generator of their own (everything above stays what it was): streams
		// bound more than once on one chain; Close errors that are not pairwise distinct
		r3 := rand.New(rand.NewSource(o.Seed*104729 + 29)) //nolint:gosec
		for i := range ins {
			if b := buckets[i][0]; (b == "random" || b == "truncated" || b == "error-sweep") && r3.Intn(6) == 0 {
				ins[i] = withRebind(r3, ins[i])
			}
		}
		nrb := o.Scale(120, 4000)
		for i := 0; i < nrb; i++ {
			add(genRebind(r3, i), "rebind")
		}
		ncd := o.Scale(80, 3000)
		for i := 0; i < ncd; i++ {
			add(genCloseDup(r3, i), "close-dup")
		}
		// round 5, from a generator of its own: several local streams whose StreamInfos negotiated
		// different transport-cc IDs / feedback on one chain
		r4 := rand.New(rand.NewSource(o.Seed*15485863 + 41)) //nolint:gosec
		nst := o.Scale(120, 4000)
		for i := 0; i < nst; i++ {
			add(genStreams(r4, i), "streams")
		}
	}
	results := make([]*result, len(ins))
	var wg sync.WaitGroup
	sem := make(chan struct{}, 2*runtime.NumCPU())
	for i := range ins {
		wg.Add(1)
		sem <- struct{}{}
		go func(i int) {
			defer wg.Done()
			defer func() { <-sem }()
			results[i] = runCase(ins[i])
		}(i)
	}
	wg.Wait()
	var fails []cq.ImplFailure
	hist := map[string]int{}
	for i, res := range results {
		if res.panicked != "" {
			fails = append(fails, cq.ImplFailure{Kind: "panic", Detail: res.panicked, Case: ins[i]})

			continue
		}
		res.buckets = append(buckets[i], shapeBuckets(res)...)
		for _, m := range flatten(ins[i].Members) {
			hist[kindName(m.Kind)]++
		}
		set.Cases = append(set.Cases, res.toCase())
	}
	extra := map[string]interface{}{"members_by_kind": hist}
	cq.Write(o, "one case = one chain (0..8 members drawn from all library factories incl. function-valued options, mock members and nested chains) with RTP writes "+
		"(legacy padding form and payloads above 1460 bytes included), RTP reads, RTCP reads, RTCP compound writes against a scripted transport, "+
		"every handed-in object re-read after the call and after Close; 'inject' cases tap a responder's retransmissions; "+
		"then a teardown history (UnbindLocalStream / UnbindRemoteStream / Close in any order, streams possibly unbound twice) with the "+
		"instrumented members' counters snapshotted after every call; 'rebind' cases (and a sixth of the random ones) call BindLocalStream "+
		"again while writing (same SSRC with / without Unbind, a second stream), each binding with a next writer of its own; 'close-dup' cases have "+
		"members whose Close errors are one value or wrap one another, the Close error is projected entry by entry; "+
		"'streams' cases (and half of the extra bindings of 'rebind' cases) give every local stream a StreamInfo of its own "+
		"(transport-cc ID, nack feedback), Writes interleaved over all live bindings, packets carrying extensions under other streams' IDs; "+
		"non-trivial = at least one member and one operation",
		[]*cq.Set{set}, extra, fails)
	_ = os.Stdout
}

func kindName(k int) string {
	return []string{"noop", "nack-generator", "nack-responder", "report-receiver", "report-sender", "twcc-sender",
		"twcc-hdrext", "rfc8888", "rtpfb", "stats", "packetdump-receiver", "packetdump-sender", "intervalpli",
		"flexfec", "cc", "mock", "nested"}[k]
}

func shapeBuckets(res *result) []string {
	out := []string{}
	seen := map[string]bool{}
	put := func(s string) {
		if !seen[s] {
			seen[s] = true
			out = append(out, s)
		}
	}
	in := res.in
	for _, w := range in.Writes {
		h := w.Pkt.H
		switch {
		case !h.Ext:
			put("w:noext")
		case h.Profile == 0xBEDE:
			put("w:onebyte")
		case h.Profile == 0x1000:
			put("w:twobyte")
		default:
			put("w:rfc3550ext")
		}
		if len(h.CSRC) > 0 {
			put("w:csrc")
		}
		if h.Padding {
			put("w:padding")
		}
		if w.Pkt.PLen == 0 {
			put("w:payload0")
		}
		if w.Pkt.PLen == 1460 {
			put("w:payload1460")
		}
		for j, rp := range w.Resp {
			if rp.Err != 0 && j == 0 {
				put("w:transport-error")
			}
		}
	}
	for i, o := range res.wops {
		if len(o.calls) > 1 {
			put("w:fec-injected")
		}
		if len(o.calls) == 0 {
			put("w:refused")
		}
		_ = i
	}
	for i, op := range in.Reads {
		if op.Err != 0 {
			put("r:transport-error")
		}
		if op.Trunc >= 0 {
			put("r:truncated")
		}
		if res.rops[i].cache == 1 {
			put("r:cache-filled")
		}
		if res.rops[i].aid == -1 {
			put("r:nil-attr-replaced")
		}
	}
	if len(in.Nacks) > 0 {
		put("nack-resend")
	}
	if len(res.iobs) > 0 {
		put("inject:replayed")
	}
	for _, o := range res.iobs {
		if len(o.calls) > 0 && o.refusedFEC {
			put("inject:refused-below-fec-only")
		}
	}
	for i, op := range in.Reads {
		if op.Err == 0 && res.rops[i].tcc >= decoyLo && res.rops[i].tcc < decoyLo+1000 {
			put("r:ok-read-tcc-in-decoy-range")
		}
	}
	for _, o := range res.iobs {
		if len(o.calls) > 1 {
			put("inject:fec-follows")
		}
	}
	for _, w := range in.Writes {
		if w.Pkt.Legacy > 0 {
			put("w:legacy-padding")
			if w.Pkt.PLen > 0 && w.Pkt.Legacy-1 > w.Pkt.PLen {
				put("w:legacy-padding-overflow")
			}
		}
		if w.Pkt.PLen > 1460 {
			put("w:payload>1460")
		}
	}
	for _, w := range in.CWrites {
		if len(w.Kinds) >= 2 {
			put("cw:compound")
		}
	}
	for _, m := range flatten(in.Members) {
		if m.Opt != 0 {
			put("opt:" + kindName(m.Kind))
		}
		if (m.Kind == 10 || m.Kind == 11) && m.Opt&0xFF != 0 {
			put("opt:rtcp-per-packet-filter")
		}
	}
	for _, m := range in.Members {
		if m.Kind == 16 {
			put("nested-chain")
		}
	}
	if !res.closeNil {
		put("close-error")
	}
	// bindings
	if len(in.Binds) > 0 {
		put("bind:more-than-one")
		hasResp := false
		for _, m := range flatten(in.Members) {
			hasResp = hasResp || (m.Kind == 2 && (m.Opt == 1 || (m.Opt == 0 && in.Cfg.Nack)))
		}
		for _, bi := range in.Binds {
			switch {
			case bi.SSRC != 0:
				put("bind:second-stream-other-ssrc")
			case bi.Unbind:
				put("bind:unbind-then-bind-again")
			default:
				put("bind:same-ssrc-again-no-unbind")
				if hasResp && bi.After < len(in.Writes) {
					put("bind:same-ssrc-again-through-responder")
				}
			}
		}
		// per-binding configurations (round 5)
		idOf := func(k int) int {
			if k == 0 {
				return int(uint8(in.Cfg.TwccID)) //nolint:gosec
			}

			return int(uint8(in.Binds[k-1].twccID(in.Cfg))) //nolint:gosec
		}
		hasHdrExt := false
		for _, m := range flatten(in.Members) {
			hasHdrExt = hasHdrExt || m.Kind == 6
		}
		for k, bi := range in.Binds {
			if idOf(k+1) != idOf(0) {
				put("bind:other-twcc-id-than-first-stream")
			}
			if bi.nack(in.Cfg) != in.Cfg.Nack {
				put("bind:other-nack-feedback-than-first-stream")
			}
		}
		newest := 0
		for i, o := range res.wops {
			// bindings are made in order: the newest binding existing at this write
			for k, bi := range in.Binds {
				if bi.After <= i && k+1 > newest {
					newest = k + 1
				}
			}
			if o.via < newest && idOf(o.via) != idOf(newest) && hasHdrExt {
				put("bind:write-through-older-binding-with-other-twcc-id")
				for _, e := range in.Writes[i].Pkt.H.Exts {
					if int(e.ID) == idOf(newest) && in.Writes[i].Pkt.H.Profile != 0 && e.ID != 0 {
						put("bind:packet-carries-ext-under-newer-streams-twcc-id")
					}
				}
			}
		}
		vs := map[int]bool{}
		for _, o := range res.wops {
			vs[o.via] = true
		}
		if len(vs) > 1 {
			put("bind:writes-through-several-bindings")
		}
		last := -1
		for _, o := range res.wops {
			if o.via < last {
				put("bind:older-binding-used-after-newer")
			}
			if o.via > last {
				last = o.via
			}
		}
	}
	// Close errors
	{
		seen, dup, wrapDup := map[int]int{}, false, false
		var walk func(ms []memberIn)
		walk = func(ms []memberIn) {
			for _, m := range ms {
				if m.Kind == 16 {
					walk(m.Sub)
				}
				if (m.Kind == 14 || m.Kind == 15) && m.CErr != 0 {
					id := m.CErr
					if id < 0 {
						id = -id
					}
					if prev, ok := seen[id]; ok {
						dup = true
						if prev < 0 || m.CErr < 0 {
							wrapDup = true
						}
					}
					seen[id] = m.CErr
				}
			}
		}
		walk(in.Members)
		if len(seen) >= 2 {
			put("close:several-failing-members")
		}
		if dup {
			put("close:same-sentinel-from-two-members")
		}
		if wrapDup {
			put("close:wrapped-and-plain-same-sentinel")
		}
	}
	td := in.teardown()
	closeAt, nOps := -1, map[int]int{}
	for i, o := range td {
		if o == 2 && closeAt < 0 {
			closeAt = i
		}
		nOps[o]++
	}
	switch {
	case len(td) == 3 && td[0] == 0 && td[1] == 1 && td[2] == 2:
		put("td:unbind-unbind-close")
	case closeAt == 0:
		put("td:close-first")
	case closeAt == len(td)-1:
		put("td:close-last-other-order")
	default:
		put("td:close-between-unbinds")
	}
	if closeAt < len(td)-1 {
		put("td:unbind-after-close")
	}
	if nOps[0] > 1 || nOps[1] > 1 {
		put("td:stream-unbound-twice")
	}
	if len(res.ctrs) > 0 {
		put("td:observed-on-" + []string{"", "1", "2", "3+"}[min(len(res.ctrs), 3)] + "-instrumented")
	} else {
		put("td:no-instrumented-member")
	}

	return out
}
