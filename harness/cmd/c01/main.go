// Generator for C01: transparency of chains of pass-through interceptors.
//
// A case = one chain (random ordering/subset of the real factories plus
// instrumented mock members and nested chains) bound to one local and one
// remote stream, a sequence of application RTP writes / RTP reads / RTCP reads
// / RTCP writes against a scripted transport (error injection at chosen
// positions; while writing the application may bind the local stream again or
// bind a second one - every binding has a next writer of its own and every
// Write goes through one binding's writer), then a teardown history (UnbindLocalStream / UnbindRemoteStream /
// Close in the order the case prescribes, counters of the instrumented members
// snapshotted after every call; the Close error is projected as a tree, entry by
// entry, and by the lines of its message).  Observables are projected to compact Coq
// terms (packet contents interned per case by exact byte equality).
package main

import (
	"bytes"
	"encoding/hex"
	"errors"
	"fmt"
	"io"
	"reflect"
	"sort"
	"strings"
	"sync"
	"time"

	"github.com/pion/interceptor"
	"github.com/pion/interceptor/pkg/cc"
	"github.com/pion/interceptor/pkg/flexfec"
	"github.com/pion/interceptor/pkg/intervalpli"
	"github.com/pion/interceptor/pkg/nack"
	"github.com/pion/interceptor/pkg/packetdump"
	"github.com/pion/interceptor/pkg/report"
	"github.com/pion/interceptor/pkg/rfc8888"
	"github.com/pion/interceptor/pkg/rtpfb"
	"github.com/pion/interceptor/pkg/stats"
	"github.com/pion/interceptor/pkg/twcc"
	"github.com/pion/logging"
	"github.com/pion/rtcp"
	"github.com/pion/rtp"

	"verifharness/internal/cq"
)

const twccURI = "http://www.ietf.org/id/draft-holmer-rmcat-transport-wide-cc-extensions-01"

// ---------------------------------------------------------------- inputs (replayable)

type extIn struct {
	ID      uint8  `json:"id"`
	Payload []byte `json:"p"`
}

type hdrIn struct {
	Padding bool     `json:"pad,omitempty"`
	PadSize uint8    `json:"padsize,omitempty"`
	Marker  bool     `json:"m,omitempty"`
	PT      uint8    `json:"pt"`
	Seq     uint16   `json:"seq"`
	TS      uint32   `json:"ts"`
	SSRC    uint32   `json:"ssrc"`
	CSRC    []uint32 `json:"csrc,omitempty"`
	Ext     bool     `json:"x,omitempty"`
	Profile uint16   `json:"prof,omitempty"`
	Exts    []extIn  `json:"exts,omitempty"`
}

type pktIn struct {
	H    hdrIn `json:"h"`
	PLen int   `json:"plen"`
	Fill int   `json:"fill"`
	// legacy padding form (H.Padding set, H.PadSize 0): the last payload byte is Legacy-1 (the count)
	Legacy int `json:"legacy,omitempty"`
}

type respIn struct {
	N   int `json:"n"`
	Err int `json:"err"` // 0 = nil, else sentinel id
}

type writeIn struct {
	Pkt  pktIn    `json:"pkt"`
	Resp []respIn `json:"resp"` // answers of the transport to the calls made during this Write
	// the local-stream binding whose writer the application uses for this Write (0 = the binding made
	// at the start, k = the k-th entry of caseIn.Binds); a binding that does not exist yet or whose
	// stream has been unbound is replaced by the latest binding
	Via int `json:"via,omitempty"`
}

// one more BindLocalStream on the same chain while the application is writing (renegotiation, a
// second local stream): executed right before write number After (after the last write if After is
// larger), with a next writer of its own.  SSRC 0 = the SSRC of the case's stream (the stream is
// bound AGAIN); Unbind = UnbindLocalStream of the live stream with that SSRC first.
//
// Round 5: the stream configuration of the binding (StreamInfo of THIS BindLocalStream call) may differ
// from the case's: Twcc 0 = the transport-cc ID of the case's stream (old replay files), -1 =
// transport-cc not negotiated for this stream, else the negotiated ID; Nack 0 = as the case's
// stream, 1 = nack negotiated, 2 = not negotiated.
type bindIn struct {
	After  int    `json:"after"`
	SSRC   uint32 `json:"ssrc,omitempty"`
	Unbind bool   `json:"unbind,omitempty"`
	Twcc   int    `json:"twcc,omitempty"`
	Nack   int    `json:"bnack,omitempty"`
}

// the negotiated transport-cc ID / nack feedback of a binding
func (bi bindIn) twccID(c cfgIn) int {
	switch {
	case bi.Twcc == 0:
		return c.TwccID
	case bi.Twcc < 0:
		return 0
	}

	return bi.Twcc
}

func (bi bindIn) nack(c cfgIn) bool {
	switch bi.Nack {
	case 1:
		return true
	case 2:
		return false
	}

	return c.Nack
}

type readIn struct {
	AIn   int    `json:"ain"`           // 0 = nil attributes, 1 = fresh map
	Pkt   *pktIn `json:"pkt"`           // RTP packet delivered (RTP reads)
	RTCP  []int  `json:"rtcp"`          // RTCP packet kinds delivered (RTCP reads)
	Raw   string `json:"raw,omitempty"` // explicit bytes (hex) instead of Pkt / RTCP
	Trunc int    `json:"trunc"`         // deliver only the first Trunc bytes (-1 = all)
	AMode int    `json:"amode"`         // 0 = transport returns the input map, 1 = nil, 2 = a map of its own
	Err   int    `json:"err"`           // 0 = nil, else sentinel id (bytes are still put in the buffer)
	ErrN  int    `json:"errn"`          // n returned together with the error
}

type cwriteIn struct {
	Kinds []int    `json:"kinds"`
	Resp  []respIn `json:"resp"`
}

type memberIn struct {
	Kind   int        `json:"kind"`
	Params []int      `json:"params,omitempty"`
	Var    int        `json:"var,omitempty"`  // option variant
	CErr   int        `json:"cerr,omitempty"` // Close error of a mock / cc estimator: 0 nil, id, negative = wrapped id
	Sub    []memberIn `json:"sub,omitempty"`  // kind 16: nested chain
	// function-valued options (0 = none of them; old replay files):
	//   packetdump (10, 11): bit 13 set; bits 0..7 = RTCP packet kinds rejected by RTCPPerPacketFilter
	//   (order of rtcpKinds), bit 8 RTPFilter rejects odd payload types, bit 9 RTCPFilter rejects
	//   batches of 3 and more, bit 10 custom text formatters, bit 11 binary formatters, bit 12 the
	//   binary RTCP formatter fails for PLI
	//   nack generator / responder (1, 2): 1 = streams filter accepts every stream, 2 = rejects every stream
	//   report receiver / sender, rfc8888, stats (3, 4, 7, 9): 1 = custom clock function
	//   flexfec (13): 1 = explicit encoder factory
	Opt int `json:"opt,omitempty"`
}

type cfgIn struct {
	SSRC    uint32 `json:"ssrc"`
	TwccID  int    `json:"twccid"` // negotiated header extension id (0 = not negotiated)
	Nack    bool   `json:"nack"`
	Pli     bool   `json:"pli"`
	RtxSSRC uint32 `json:"rtxssrc"`
	RtxPT   uint8  `json:"rtxpt"`
	FecSSRC uint32 `json:"fecssrc"`
	FecPT   uint8  `json:"fecpt"`
}

type caseIn struct {
	Cfg     cfgIn      `json:"cfg"`
	Members []memberIn `json:"members"`
	Writes  []writeIn  `json:"writes"`
	Reads   []readIn   `json:"reads"`
	CReads  []readIn   `json:"creads"`
	CWrites []cwriteIn `json:"cwrites"`
	Nacks   [][]uint16 `json:"nacks,omitempty"` // after the writes: NACK feedback read through the chain
	// the mock member directly below the (single) responder taps the responder's retransmissions
	Inject bool   `json:"inject,omitempty"`
	Note   string `json:"note,omitempty"`
	// teardown history: the lifecycle calls issued on the chain after the data path operations, in
	// this order (0 UnbindLocalStream, 1 UnbindRemoteStream, 2 Close); empty (old replay files) =
	// [0 1 2].  Any order and repeated Unbinds are legal; a history without a Close gets one appended.
	Teardown []int `json:"td,omitempty"`
	// further local-stream bindings made during the writes (sorted by After); empty = old replay files
	Binds []bindIn `json:"binds,omitempty"`
}

// the teardown history as it is executed
func (in caseIn) teardown() []int {
	td := append([]int{}, in.Teardown...)
	if len(td) == 0 {
		td = []int{0, 1, 2}
	}
	hasClose := false
	for i, o := range td {
		if o < 0 || o > 2 {
			td[i] = 2
		}
		hasClose = hasClose || td[i] == 2
	}
	if !hasClose {
		td = append(td, 2)
	}

	return td
}

// ---------------------------------------------------------------- packets

func (h hdrIn) build() rtp.Header {
	out := rtp.Header{
		Version: 2, Padding: h.Padding, PaddingSize: h.PadSize, Marker: h.Marker, PayloadType: h.PT,
		SequenceNumber: h.Seq, Timestamp: h.TS, SSRC: h.SSRC, Extension: h.Ext, ExtensionProfile: h.Profile,
	}
	if len(h.CSRC) > 0 {
		out.CSRC = append([]uint32{}, h.CSRC...)
	}
	for _, e := range h.Exts {
		// filled directly (SetExtension would refuse some of the shapes we want)
		out.Extensions = append(out.Extensions, extOf(e.ID, append([]byte{}, e.Payload...)))
	}

	return out
}

func extOf(id uint8, p []byte) rtp.Extension {
	var h rtp.Header
	h.Extension = true
	h.ExtensionProfile = 0x1000
	_ = h.SetExtension(id, p)
	if len(h.Extensions) == 1 {
		return h.Extensions[0]
	}
	// id 0 (raw profile): go through the generic profile
	h = rtp.Header{Extension: true, ExtensionProfile: 0x1234}
	_ = h.SetExtension(0, p)

	return h.Extensions[0]
}

func (p pktIn) payload() []byte {
	b := make([]byte, p.PLen)
	for i := range b {
		b[i] = byte(p.Fill*31 + i*7 + (i>>8)*13)
	}
	if p.Legacy > 0 && len(b) > 0 {
		b[len(b)-1] = byte(p.Legacy - 1)
	}

	return b
}

// per-case interning
type table struct {
	ids   map[string]int
	terms []string
	pay   map[string]int
}

func newTable() *table { return &table{ids: map[string]int{}, pay: map[string]int{}} }

func (t *table) payID(b []byte) int {
	id, ok := t.pay[string(b)]
	if !ok {
		id = len(t.pay) + 1
		t.pay[string(b)] = id
	}

	return id
}

func b2z(b bool) int64 {
	if b {
		return 1
	}

	return 0
}

func hdrTerm(h *rtp.Header) string {
	fixed := []int64{
		int64(h.Version), b2z(h.Padding), b2z(h.Marker), int64(h.PayloadType), int64(h.SequenceNumber),
		int64(h.Timestamp), int64(h.SSRC), int64(h.PaddingSize),
	}
	for _, c := range h.CSRC {
		fixed = append(fixed, int64(c))
	}
	exts := []string{}
	if h.Extension {
		for _, id := range h.GetExtensionIDs() {
			exts = append(exts, cq.T(cq.Z(int64(id)), cq.Bytes(h.GetExtension(id))))
		}
	}

	return cq.C("mkH", cq.LZ(fixed), cq.B(h.Extension), cq.Z(int64(h.ExtensionProfile)), cq.L(exts))
}

func (t *table) add(term string) int {
	id, ok := t.ids[term]
	if !ok {
		id = len(t.terms)
		t.ids[term] = id
		t.terms = append(t.terms, term)
	}

	return id
}

// RTP packet as seen by a writer
func (t *table) rtp(h *rtp.Header, payload []byte, c cfgIn) int {
	if c.FecSSRC != 0 && c.FecPT != 0 && h.SSRC == c.FecSSRC && h.PayloadType == c.FecPT {
		hh := h.Clone()
		hh.SequenceNumber, hh.Timestamp = 0, 0

		return t.add(cq.T(hdrTerm(&hh), cq.T("-1", "-1")))
	}

	// payload id = 256 * (interning number) + last payload byte (identical bytes <=> identical id)
	last := 0
	if len(payload) > 0 {
		last = int(payload[len(payload)-1])
	}

	return t.add(cq.T(hdrTerm(h), cq.T(cq.Z(int64(256*t.payID(payload)+last)), cq.Z(int64(len(payload))))))
}

// content id of one RTCP packet (its marshalled bytes; -1 if it does not marshal)
func (t *table) rtcpOne(raw []byte) int64 {
	if raw == nil {
		return -1
	}

	return int64(t.payID(append([]byte("rtcp:"), raw...)))
}

func (t *table) rtcpIDs(snap [][]byte) []int64 {
	out := make([]int64, 0, len(snap))
	for _, r := range snap {
		out = append(out, t.rtcpOne(r))
	}

	return out
}

// RTCP batch by content: kinds of its packets, id interned over the packets' bytes
func (t *table) rtcpBatch(snap [][]byte) int {
	key := []byte("batch:")
	kinds := []int64{}
	for _, r := range snap {
		key = append(key, byte(len(r)>>8), byte(len(r)))
		key = append(key, r...)
		kinds = append(kinds, kindOfRaw(r))
	}

	return t.rtcp(kinds, 100000+t.payID(key))
}

func snapRTCP(pkts []rtcp.Packet) [][]byte {
	out := make([][]byte, 0, len(pkts))
	for _, p := range pkts {
		var raw []byte
		if p != nil {
			if b, err := p.Marshal(); err == nil {
				raw = b
			}
		}
		out = append(out, raw)
	}

	return out
}

func kindOfRaw(raw []byte) int64 {
	if len(raw) < 2 {
		return 299
	}
	pk, err := rtcp.Unmarshal(raw)
	if err != nil || len(pk) != 1 {
		return 299
	}

	return kindOf(pk[0])
}

// RTCP compound packet: "header" lists the packet types
func (t *table) rtcp(kinds []int64, id int) int {
	return t.add(cq.T(cq.C("mkH", cq.LZ(kinds), "false", "0", "[]"), cq.T(cq.Z(int64(id)), "0")))
}

// ---------------------------------------------------------------- transport

type markerKey struct{}

type injKey struct{}

type call struct {
	h       rtp.Header
	payload []byte
	// the objects the writer was handed (re-read later: aliasing)
	hp *rtp.Header
	pp []byte
	// the binding whose next writer received the call
	dst int
}

type ccall struct {
	pkts []rtcp.Packet // the slice object the innermost writer received
	snap [][]byte      // its content at the time of the call
}

type transport struct {
	mu        sync.Mutex
	cfg       cfgIn
	sent      map[uint16][][]byte // app packets by sequence number (for recognising plain retransmissions)
	script    map[int][]respIn
	calls     map[int][]call
	async     []call
	sentinels map[int]error
	// RTCP writer
	cscript map[int][]respIn
	ccalls  map[int][]ccall
	casync  [][]rtcp.Packet
	inj     map[int][]call // calls that carry the tap's tag (retransmissions of the tapped responder)
}

func (t *transport) Write(h *rtp.Header, payload []byte, a interceptor.Attributes) (int, error) {
	return t.write(0, h, payload, a)
}

// the next writer handed to the k-th BindLocalStream of the case
type bindWriter struct {
	t  *transport
	id int
}

func (w bindWriter) Write(h *rtp.Header, payload []byte, a interceptor.Attributes) (int, error) {
	return w.t.write(w.id, h, payload, a)
}

func (t *transport) write(dst int, h *rtp.Header, payload []byte, a interceptor.Attributes) (int, error) {
	t.mu.Lock()
	defer t.mu.Unlock()
	c := call{h: h.Clone(), payload: append([]byte{}, payload...), hp: h, pp: payload, dst: dst}
	op, ok := a[markerKey{}].(int)
	if !ok {
		t.async = append(t.async, c)
		if id, tagged := a[injKey{}].(int); tagged {
			t.inj[id] = append(t.inj[id], c)
		}

		return h.MarshalSize() + len(payload), nil
	}
	j := len(t.calls[op])
	t.calls[op] = append(t.calls[op], c)
	if j < len(t.script[op]) {
		r := t.script[op][j]

		return r.N, t.sentinels[r.Err]
	}

	return 0, nil
}

type rtcpTransport struct{ t *transport }

func (w rtcpTransport) Write(pkts []rtcp.Packet, a interceptor.Attributes) (int, error) {
	t := w.t
	t.mu.Lock()
	defer t.mu.Unlock()
	op, ok := a[markerKey{}].(int)
	if !ok {
		t.casync = append(t.casync, pkts)

		return 0, nil
	}
	j := len(t.ccalls[op])
	t.ccalls[op] = append(t.ccalls[op], ccall{pkts: pkts, snap: snapRTCP(pkts)})
	if j < len(t.cscript[op]) {
		r := t.cscript[op][j]

		return r.N, t.sentinels[r.Err]
	}

	return 0, nil
}

type scriptedReader struct {
	next func(b []byte, a interceptor.Attributes) (int, interceptor.Attributes, error)
}

func (r *scriptedReader) Read(b []byte, a interceptor.Attributes) (int, interceptor.Attributes, error) {
	return r.next(b, a)
}

// ---------------------------------------------------------------- mock members

type mock struct {
	interceptor.NoOp
	mu                 sync.Mutex
	closed, unbL, unbR int
	wcount             int
	cerr               error
	// tap: this mock sits directly below the responder and records what the responder injects
	tapOn bool
	taps  []call
}

func (m *mock) BindLocalStream(_ *interceptor.StreamInfo, w interceptor.RTPWriter) interceptor.RTPWriter {
	return interceptor.RTPWriterFunc(func(h *rtp.Header, p []byte, a interceptor.Attributes) (int, error) {
		if _, ok := a[markerKey{}]; ok { // application-driven calls only (not retransmissions from goroutines)
			m.mu.Lock()
			m.wcount++
			m.mu.Unlock()
		} else if m.tapOn {
			m.mu.Lock()
			id := len(m.taps)
			m.taps = append(m.taps, call{h: h.Clone(), payload: append([]byte{}, p...)})
			m.mu.Unlock()
			if a == nil {
				a = interceptor.Attributes{}
			}
			a[injKey{}] = id
		}

		return w.Write(h, p, a)
	})
}

func (m *mock) BindRTCPWriter(w interceptor.RTCPWriter) interceptor.RTCPWriter {
	return interceptor.RTCPWriterFunc(func(p []rtcp.Packet, a interceptor.Attributes) (int, error) {
		return w.Write(p, a)
	})
}
func (m *mock) UnbindLocalStream(*interceptor.StreamInfo)  { m.mu.Lock(); m.unbL++; m.mu.Unlock() }
func (m *mock) UnbindRemoteStream(*interceptor.StreamInfo) { m.mu.Lock(); m.unbR++; m.mu.Unlock() }
func (m *mock) Close() error                               { m.mu.Lock(); m.closed++; m.mu.Unlock(); return m.cerr }

type factoryFunc func(string) (interceptor.Interceptor, error)

func (f factoryFunc) NewInterceptor(id string) (interceptor.Interceptor, error) { return f(id) }

type estimator struct{ cerr error }

func (e *estimator) AddStream(_ *interceptor.StreamInfo, w interceptor.RTPWriter) interceptor.RTPWriter {
	return w
}
func (e *estimator) WriteRTCP([]rtcp.Packet, interceptor.Attributes) error { return nil }
func (e *estimator) GetTargetBitrate() int                                 { return 1 }
func (e *estimator) OnTargetBitrateChange(func(int))                       {}
func (e *estimator) GetStats() map[string]any                              { return nil }
func (e *estimator) Close() error                                          { return e.cerr }

type nopLogger struct{}

func (nopLogger) LogRTPPacket(*rtp.Header, []byte, interceptor.Attributes) {}
func (nopLogger) LogRTCPPackets([]rtcp.Packet, interceptor.Attributes)     {}

// quiet logging
type quietFactory struct{}

func (quietFactory) NewLogger(string) logging.LeveledLogger {
	l := logging.NewDefaultLeveledLoggerForScope("c01", logging.LogLevelDisabled, io.Discard)

	return l
}

func sentinel(id int) error { return fmt.Errorf("sentinel-%d", id) } //nolint:err113

type startedRecorder struct {
	stats.Recorder
	once sync.Once
	ch   chan struct{}
}

func (s *startedRecorder) Start() {
	s.Recorder.Start()
	s.once.Do(func() { close(s.ch) })
}

type built struct {
	started   []chan struct{}
	mocks     []*mock
	getter    stats.Getter
	statsIdx  int
	sentinels map[int]error
}

func closeErr(b *built, ce int) error {
	if ce == 0 {
		return nil
	}
	id := ce
	if id < 0 {
		id = -id
	}
	s, ok := b.sentinels[id]
	if !ok {
		s = sentinel(id)
		b.sentinels[id] = s
	}
	if ce < 0 {
		return fmt.Errorf("wrapped: %w", s)
	}

	return s
}

const tick = 3 * time.Millisecond

func factoryOf(m memberIn, b *built, idx int) (interceptor.Factory, error) { //nolint:cyclop,gocyclo,maintidx
	lf := quietFactory{}
	switch m.Kind {
	case 0:
		return factoryFunc(func(string) (interceptor.Interceptor, error) { return &interceptor.NoOp{}, nil }), nil
	case 1:
		opts := []nack.GeneratorOption{nack.GeneratorInterval(tick), nack.WithGeneratorLoggerFactory(lf)}
		switch m.Var % 4 {
		case 1:
			opts = append(opts, nack.GeneratorSize(64), nack.GeneratorSkipLastN(2))
		case 2:
			opts = append(opts, nack.GeneratorSize(32768), nack.GeneratorMaxNacksPerPacket(2))
		case 3:
			opts = append(opts, nack.GeneratorSize(512))
		}
		if m.Opt == 1 || m.Opt == 2 {
			accept := m.Opt == 1
			opts = append(opts, nack.GeneratorStreamsFilter(func(*interceptor.StreamInfo) bool { return accept }))
		}

		return nack.NewGeneratorInterceptor(opts...)
	case 2:
		opts := []nack.ResponderOption{nack.WithResponderLoggerFactory(lf)}
		if len(m.Params) > 0 && m.Params[0] == 1 {
			opts = append(opts, nack.DisableCopy())
		}
		switch m.Var % 3 {
		case 1:
			opts = append(opts, nack.ResponderSize(8))
		case 2:
			opts = append(opts, nack.ResponderSize(32768))
		}
		if m.Opt == 1 || m.Opt == 2 {
			accept := m.Opt == 1
			opts = append(opts, nack.ResponderStreamsFilter(func(*interceptor.StreamInfo) bool { return accept }))
		}

		return nack.NewResponderInterceptor(opts...)
	case 3:
		ropts := []report.ReceiverOption{report.ReceiverInterval(tick), report.WithReceiverLoggerFactory(lf)}
		if m.Opt == 1 {
			ropts = append(ropts, report.ReceiverNow(stepClock()))
		}

		return report.NewReceiverInterceptor(ropts...)
	case 4:
		opts := []report.SenderOption{report.SenderInterval(tick), report.WithSenderLoggerFactory(lf)}
		if m.Var%2 == 1 {
			opts = append(opts, report.SenderUseLatestPacket())
		}
		if m.Opt == 1 {
			opts = append(opts, report.SenderNow(stepClock()))
		}

		return report.NewSenderInterceptor(opts...)
	case 5:
		return twcc.NewSenderInterceptor(twcc.SendInterval(tick), twcc.WithLoggerFactory(lf))
	case 6:
		return twcc.NewHeaderExtensionInterceptor()
	case 7:
		fopts := []rfc8888.Option{rfc8888.SendInterval(tick), rfc8888.WithLoggerFactory(lf)}
		if m.Opt == 1 {
			fopts = append(fopts, rfc8888.SenderNow(stepClock()))
		}

		return rfc8888.NewSenderInterceptor(fopts...)
	case 8:
		return rtpfb.NewInterceptor(rtpfb.WithLoggerFactory(lf))
	case 9:
		sopts := []stats.Option{}
		if m.Opt == 1 {
			sopts = append(sopts, stats.SetNowFunc(stepClock()))
		}
		f, err := stats.NewInterceptor(append(sopts, stats.WithLoggerFactory(lf),
			stats.SetRecorderFactory(func(ssrc uint32, clockRate float64) stats.Recorder {
				sr := &startedRecorder{Recorder: stats.C01NewRecorder(ssrc, clockRate, lf), ch: make(chan struct{})}
				b.started = append(b.started, sr.ch)

				return sr
			}))...)
		if err != nil {
			return nil, err
		}
		f.OnNewPeerConnection(func(_ string, g stats.Getter) { b.getter = g; b.statsIdx = idx })

		return f, nil
	case 10, 11:
		opts := []packetdump.PacketDumperOption{packetdump.WithLoggerFactory(lf)}
		if m.Opt != 0 {
			opts = append(opts, dumpOpts(m.Opt)...)
			if m.Kind == 10 {
				return packetdump.NewReceiverInterceptor(opts...)
			}

			return packetdump.NewSenderInterceptor(opts...)
		}
		switch m.Var % 4 {
		case 0:
			opts = append(opts, packetdump.RTPWriter(io.Discard), packetdump.RTCPWriter(io.Discard))
		case 1:
			opts = append(opts, packetdump.PacketLog(nopLogger{}))
		case 2:
			opts = append(opts, packetdump.RTPWriter(io.Discard), packetdump.RTCPWriter(io.Discard),
				packetdump.RTPFilter(func(*rtp.Packet) bool { return false }),
				packetdump.RTCPFilter(func([]rtcp.Packet) bool { return false }))
		case 3:
			opts = append(opts, packetdump.RTPWriter(io.Discard), packetdump.RTCPWriter(io.Discard),
				packetdump.RTPBinaryFormatter(func(p *rtp.Packet, _ interceptor.Attributes) ([]byte, error) {
					return p.Marshal()
				}),
				packetdump.RTCPBinaryFormatter(func(p rtcp.Packet, _ interceptor.Attributes) ([]byte, error) {
					if p == nil {
						return nil, errFormat
					}

					return p.Marshal()
				}))
		}
		if m.Kind == 10 {
			return packetdump.NewReceiverInterceptor(opts...)
		}

		return packetdump.NewSenderInterceptor(opts...)
	case 12:
		return intervalpli.NewReceiverInterceptor(intervalpli.GeneratorInterval(tick), intervalpli.WithLoggerFactory(lf))
	case 13:
		xopts := []flexfec.FecOption{flexfec.NumMediaPackets(uint32(m.Params[0])), //nolint:gosec
			flexfec.NumFECPackets(uint32(m.Params[1]))} //nolint:gosec
		if m.Opt == 1 {
			xopts = append(xopts, flexfec.FECEncoderFactory(flexfec.FlexEncoder03Factory{}))
		}

		return flexfec.NewFecInterceptor(xopts...)
	case 14:
		ce := closeErr(b, m.CErr)

		return cc.NewInterceptor(func() (cc.BandwidthEstimator, error) { return &estimator{cerr: ce}, nil })
	case 15:
		mk := &mock{cerr: closeErr(b, m.CErr)}
		b.mocks = append(b.mocks, mk)

		return factoryFunc(func(string) (interceptor.Interceptor, error) { return mk, nil }), nil
	case 16:
		subs := []interceptor.Interceptor{}
		for i, s := range m.Sub {
			f, err := factoryOf(s, b, -1-i)
			if err != nil {
				return nil, err
			}
			ic, err := f.NewInterceptor("sub")
			if err != nil {
				return nil, err
			}
			subs = append(subs, ic)
		}
		ch := interceptor.NewChain(subs)

		return factoryFunc(func(string) (interceptor.Interceptor, error) { return ch, nil }), nil
	}

	return nil, fmt.Errorf("unknown kind %d", m.Kind) //nolint:err113
}

// a clock given as a function-valued option: starts now, advances 1 ms per call
func stepClock() func() time.Time {
	var mu sync.Mutex
	t0 := time.Now()

	return func() time.Time {
		mu.Lock()
		defer mu.Unlock()
		t0 = t0.Add(time.Millisecond)

		return t0
	}
}

var rtcpKinds = []int{200, 201, 202, 203, 205, 206, 215, 211}

var errFormat = errors.New("formatter refuses") //nolint:err113

// function-valued packetdump options selected by the bits of opt (see memberIn.Opt)
func dumpOpts(opt int) []packetdump.PacketDumperOption {
	rejected := func(p rtcp.Packet) bool {
		k := kindOf(p)
		for i, kk := range rtcpKinds {
			if int64(kk) == k && opt&(1<<i) != 0 {
				return true
			}
		}

		return false
	}
	opts := []packetdump.PacketDumperOption{
		packetdump.RTPWriter(io.Discard), packetdump.RTCPWriter(io.Discard),
		packetdump.RTCPPerPacketFilter(func(p rtcp.Packet) bool { return !rejected(p) }),
	}
	if opt&(1<<8) != 0 {
		opts = append(opts, packetdump.RTPFilter(func(p *rtp.Packet) bool { return p.PayloadType%2 == 0 }))
	}
	if opt&(1<<9) != 0 {
		opts = append(opts, packetdump.RTCPFilter(func(p []rtcp.Packet) bool { return len(p) < 3 }))
	}
	if opt&(1<<10) != 0 {
		opts = append(opts,
			packetdump.RTPFormatter(func(p *rtp.Packet, _ interceptor.Attributes) string {
				return fmt.Sprintf("%d/%d/%d\n", p.SSRC, p.SequenceNumber, len(p.Payload))
			}),
			packetdump.RTCPFormatter(func(p []rtcp.Packet, _ interceptor.Attributes) string {
				return fmt.Sprintf("%d packets\n", len(p))
			}))
	}
	if opt&(1<<11) != 0 || opt&(1<<12) != 0 {
		opts = append(opts,
			packetdump.RTPBinaryFormatter(func(p *rtp.Packet, _ interceptor.Attributes) ([]byte, error) {
				return p.Header.Marshal()
			}),
			packetdump.RTCPBinaryFormatter(func(p rtcp.Packet, _ interceptor.Attributes) ([]byte, error) {
				if p == nil { // only a broken member hands a nil packet on; the oracle reports the batch
					return nil, errFormat
				}
				if opt&(1<<12) != 0 && kindOf(p) == 206 {
					return nil, errFormat
				}

				return p.Marshal()
			}))
	}

	return opts
}

// ---------------------------------------------------------------- RTCP packets

// kinds: 200 SR, 201 RR, 202 SDES, 203 BYE, 205 NACK(fmt 1), 206 PLI, 215 TWCC feedback, 211 CCFB
func rtcpOf(kind int, c cfgIn, i int) rtcp.Packet {
	switch kind {
	case 200:
		return &rtcp.SenderReport{SSRC: c.SSRC, NTPTime: uint64(i+1) << 32, RTPTime: uint32(i), PacketCount: 1, OctetCount: 1} //nolint:gosec
	case 201:
		return &rtcp.ReceiverReport{SSRC: 77, Reports: []rtcp.ReceptionReport{{SSRC: c.SSRC, LastSequenceNumber: uint32(i)}}} //nolint:gosec
	case 202:
		return &rtcp.SourceDescription{Chunks: []rtcp.SourceDescriptionChunk{{Source: c.SSRC, Items: []rtcp.SourceDescriptionItem{{Type: rtcp.SDESCNAME, Text: fmt.Sprintf("c%d", i)}}}}}
	case 203:
		return &rtcp.Goodbye{Sources: []uint32{c.SSRC}}
	case 205:
		return &rtcp.TransportLayerNack{SenderSSRC: 9, MediaSSRC: c.SSRC + 12345, Nacks: []rtcp.NackPair{{PacketID: uint16(i)}}} //nolint:gosec
	case 206:
		return &rtcp.PictureLossIndication{SenderSSRC: 9, MediaSSRC: c.SSRC}
	case 215:
		return &rtcp.TransportLayerCC{
			Header:     rtcp.Header{Count: rtcp.FormatTCC, Type: rtcp.TypeTransportSpecificFeedback, Length: 5},
			SenderSSRC: 9, MediaSSRC: c.SSRC, BaseSequenceNumber: uint16(i), PacketStatusCount: 1, ReferenceTime: 1, //nolint:gosec
			PacketChunks: []rtcp.PacketStatusChunk{&rtcp.RunLengthChunk{Type: rtcp.TypeTCCRunLengthChunk, PacketStatusSymbol: rtcp.TypeTCCPacketReceivedSmallDelta, RunLength: 1}},
			RecvDeltas:   []*rtcp.RecvDelta{{Type: rtcp.TypeTCCPacketReceivedSmallDelta, Delta: 250}},
		}
	default: // 211
		return &rtcp.CCFeedbackReport{SenderSSRC: 9, ReportBlocks: []rtcp.CCFeedbackReportBlock{{
			MediaSSRC: c.SSRC, BeginSequence: uint16(i), //nolint:gosec
			MetricBlocks: []rtcp.CCFeedbackMetricBlock{{Received: true, ECN: 0, ArrivalTimeOffset: 10}},
		}}, ReportTimestamp: 1 << 16}
	}
}

// ---------------------------------------------------------------- running one case

type wobs struct {
	pi    int
	calls []int
	n     int
	errs  []int64
	// RTP writes: the binding the Write went through; calls that reached ANOTHER binding's next
	// writer (binding, packet)
	via   int
	stray [][2]int
}

type robs struct {
	di     int
	rawLen int64
	amodeZ int64
	n      int
	errs   []int64
	aid    int64
	cache  int64
	bytes  bool
	seq    int // RTP sequence number / transport-wide sequence number of the bytes put into the
	tcc    int // buffer (-1: does not parse / no such extension)
}

type result struct {
	in       caseIn
	tbl      *table
	wops     []wobs
	rops     []robs
	crops    []robs
	cwops    []wobs
	closeNil bool
	cerrTerm string     // the Close error as a tree (option err)
	cerrLine []int64    // the lines of its message, as signed sentinel ids
	bssrc    []int64    // info.SSRC of every local-stream binding, in the order they were made
	unbound  []int64    // SSRCs of the local streams unbound between two bindings
	bcfg     [][2]int64 // (uint8 of the negotiated transport-cc ID, nack negotiated) of every binding
	is       [][2]int64
	ctrs     [][3]int64
	tds      []tdob // one per call of the teardown history
	counts   [][3]int64
	flags    [4]int64
	aobs     []*aob
	iobs     []iob
	respIdx  int // flat index of the tapped responder (-1 none)
	panicked string
	buckets  []string
}

// one call of the teardown history and the (Close, UnbindLocalStream, UnbindRemoteStream) counters
// of every instrumented member right after it
type tdob struct {
	op   int
	ctrs [][3]int64
}

// aliasing observation of one object the harness handed to the chain (kind: 0 RTCP write batch,
// 1 RTP write header+payload, 2 RTP read buffer, 3 RTCP read buffer, 4 RTCP packets cached in the
// attributes a Read returned): deep copy taken before the call; the caller's object after the call
// returned / after Close; the object the transport was handed, re-read after the call / after Close
type aob struct {
	kind, op           int
	cp, cret, cend     []int64
	tret, tend         []int64
	recheckC, recheckT func() []int64
}

// one retransmission the tapped responder emitted and what reached the transport for it
type iob struct {
	q          int
	calls      []int
	refusedFEC bool // only FEC repair packets reached the transport
}

func errIDs(err error, sent map[int]error) []int64 {
	if err == nil {
		return nil
	}
	set := map[int64]bool{}
	var walk func(e error)
	walk = func(e error) {
		if u, ok := e.(interface{ Unwrap() []error }); ok { //nolint:errorlint
			for _, x := range u.Unwrap() {
				walk(x)
			}

			return
		}
		hit := false
		for id, s := range sent {
			if errors.Is(e, s) {
				set[int64(id)] = true
				hit = true
			}
		}
		if !hit {
			set[900] = true
		}
	}
	walk(err)
	// errors.Is on the whole value must agree with the leaves
	for id, s := range sent {
		if errors.Is(err, s) {
			set[int64(id)] = true
		}
	}
	out := []int64{}
	for id := range set {
		out = append(out, id)
	}
	sort.Slice(out, func(i, j int) bool { return out[i] < out[j] })

	return out
}

// the members of a multiError / joined error (false: e is a single error value)
func multiChildren(e error) ([]error, bool) {
	if u, ok := e.(interface{ Unwrap() []error }); ok { //nolint:errorlint
		return u.Unwrap(), true
	}
	v := reflect.ValueOf(e)
	if v.Kind() == reflect.Slice && v.Type().Elem() == reflect.TypeOf((*error)(nil)).Elem() {
		out := make([]error, v.Len())
		for i := range out {
			out[i], _ = v.Index(i).Interface().(error)
		}

		return out, true
	}

	return nil, false
}

// one error value handed back by a member: id = that sentinel value itself, -id = a value of its
// own that wraps the sentinel, 900 = something no member returned, 0 = nil
func leafID(e error, sent map[int]error) int64 {
	if e == nil {
		return 0
	}
	ids := make([]int, 0, len(sent))
	for id := range sent {
		ids = append(ids, id)
	}
	sort.Ints(ids)
	for _, id := range ids {
		if e == sent[id] { //nolint:errorlint
			return int64(id)
		}
	}
	for _, id := range ids {
		if errors.Is(e, sent[id]) {
			return -int64(id)
		}
	}

	return 900
}

// the error a Close returned, as a tree: what flattenErrs kept, entry by entry, nested chains nested
func errTerm(e error, sent map[int]error) string {
	if ch, ok := multiChildren(e); ok {
		sub := make([]string, 0, len(ch))
		for _, x := range ch {
			if x == nil {
				sub = append(sub, cq.C("ELeaf", "0"))
			} else {
				sub = append(sub, errTerm(x, sent))
			}
		}

		return cq.C("EMulti", cq.L(sub))
	}

	return cq.C("ELeaf", cq.Z(leafID(e, sent)))
}

// one line of the Close error's message
func lineID(s string) int64 {
	var id int64
	if n, err := fmt.Sscanf(s, "wrapped: sentinel-%d", &id); err == nil && n == 1 && s == fmt.Sprintf("wrapped: sentinel-%d", id) {
		return -id
	}
	if n, err := fmt.Sscanf(s, "sentinel-%d", &id); err == nil && n == 1 && s == fmt.Sprintf("sentinel-%d", id) {
		return id
	}

	return 900
}

func mapID(a interceptor.Attributes) uintptr {
	if a == nil {
		return 0
	}

	return reflect.ValueOf(a).Pointer()
}

func flatten(ms []memberIn) []memberIn {
	out := []memberIn{}
	for _, m := range ms {
		if m.Kind == 16 {
			out = append(out, flatten(m.Sub)...)
		} else {
			out = append(out, m)
		}
	}

	return out
}

func runCase(in caseIn) (res *result) { //nolint:cyclop,gocyclo,gocognit,maintidx
	res = &result{in: in, tbl: newTable()}
	defer func() {
		if r := recover(); r != nil {
			res.panicked = fmt.Sprint(r)
		}
	}()
	c := in.Cfg
	b := &built{sentinels: map[int]error{}, statsIdx: -1}
	reg := &interceptor.Registry{}
	flatIdx := 0
	for _, m := range in.Members {
		f, err := factoryOf(m, b, flatIdx)
		if err != nil {
			panic(err)
		}
		if m.Kind == 16 {
			// stats inside a nested chain: index of the flattened position
			for j, s := range flatten(m.Sub) {
				if s.Kind == 9 {
					b.statsIdx = flatIdx + j
				}
			}
			flatIdx += len(flatten(m.Sub))
		} else {
			flatIdx++
		}
		reg.Add(f)
	}
	chain, err := reg.Build("c01")
	if err != nil {
		panic(err)
	}
	res.respIdx = -1
	if in.Inject {
		fl := flatten(in.Members)
		nresp, mi := 0, 0
		for i, m := range fl {
			if m.Kind == 2 {
				nresp++
			}
			if m.Kind == 15 {
				if i+1 < len(fl) && fl[i+1].Kind == 2 {
					b.mocks[mi].tapOn = true
					res.respIdx = i + 1
				}
				mi++
			}
		}
		if nresp != 1 {
			panic("inject: exactly one responder expected")
		}
	}
	tr := &transport{
		cfg: c, script: map[int][]respIn{}, calls: map[int][]call{}, sentinels: b.sentinels,
		cscript: map[int][]respIn{}, ccalls: map[int][]ccall{}, sent: map[uint16][][]byte{}, inj: map[int][]call{},
	}
	getSent := func(id int) error {
		if id == 0 {
			return nil
		}
		tr.mu.Lock()
		defer tr.mu.Unlock()
		s, ok := b.sentinels[id]
		if !ok {
			s = sentinel(id)
			b.sentinels[id] = s
		}

		return s
	}
	for i, w := range in.Writes {
		tr.script[i] = w.Resp
		for _, r := range w.Resp {
			getSent(r.Err)
		}
	}
	for i, w := range in.CWrites {
		tr.cscript[i] = w.Resp
		for _, r := range w.Resp {
			getSent(r.Err)
		}
	}
	info := &interceptor.StreamInfo{
		ID: "s", SSRC: c.SSRC, PayloadType: 96, ClockRate: 90000, MimeType: "video/VP8",
		SSRCRetransmission: c.RtxSSRC, PayloadTypeRetransmission: c.RtxPT,
		SSRCForwardErrorCorrection: c.FecSSRC, PayloadTypeForwardErrorCorrection: c.FecPT,
	}
	if c.TwccID != 0 {
		info.RTPHeaderExtensions = []interceptor.RTPHeaderExtension{{URI: "urn:other", ID: 3}, {URI: twccURI, ID: c.TwccID}}
	}
	if c.Nack {
		info.RTCPFeedback = append(info.RTCPFeedback, interceptor.RTCPFeedback{Type: "nack"})
	}
	if c.Pli {
		info.RTCPFeedback = append(info.RTCPFeedback, interceptor.RTCPFeedback{Type: "nack", Parameter: "pli"})
	}
	rinfo := *info

	var rtpScript, rtcpScript func(b []byte, a interceptor.Attributes) (int, interceptor.Attributes, error)
	cw := chain.BindRTCPWriter(rtcpTransport{tr})
	cr := chain.BindRTCPReader(&scriptedReader{next: func(b []byte, a interceptor.Attributes) (int, interceptor.Attributes, error) {
		return rtcpScript(b, a)
	}})
	lw := chain.BindLocalStream(info, tr)
	rr := chain.BindRemoteStream(&rinfo, &scriptedReader{next: func(b []byte, a interceptor.Attributes) (int, interceptor.Attributes, error) {
		return rtpScript(b, a)
	}})

	nStarted := 0
	waitStarted := func() {
		for ; nStarted < len(b.started); nStarted++ {
			<-b.started[nStarted]
		}
	}
	waitStarted()
	// the local-stream bindings of the case: the one made above and those of in.Binds
	type binding struct {
		info *interceptor.StreamInfo
		w    interceptor.RTPWriter
		live bool
	}
	bnds := []binding{{info: info, w: lw, live: true}}
	res.bssrc = []int64{int64(c.SSRC)}
	res.bcfg = [][2]int64{{int64(uint8(c.TwccID)), b2z(c.Nack)}} //nolint:gosec
	snapTD := func(op int) {
		snap := tdob{op: op}
		for _, m := range b.mocks {
			m.mu.Lock()
			snap.ctrs = append(snap.ctrs, [3]int64{int64(m.closed), int64(m.unbL), int64(m.unbR)})
			m.mu.Unlock()
		}
		res.tds = append(res.tds, snap)
	}
	doBind := func(bi bindIn) {
		ssrc := bi.SSRC
		if ssrc == 0 {
			ssrc = c.SSRC
		}
		if bi.Unbind {
			// the stream with this SSRC is removed first (its writers are not used any more)
			var old *interceptor.StreamInfo
			for k := range bnds {
				if bnds[k].live && bnds[k].info.SSRC == ssrc {
					old = bnds[k].info
					bnds[k].live = false
				}
			}
			if old != nil {
				chain.UnbindLocalStream(old)
				res.unbound = append(res.unbound, int64(ssrc))
				snapTD(0) // a lifecycle call like those of the teardown history: delivery is observed
			}
		}
		ni := *info
		ni.SSRC = ssrc
		// the StreamInfo of this binding: its own header-extension map and feedback list
		ni.RTPHeaderExtensions, ni.RTCPFeedback = nil, nil
		if id := bi.twccID(c); id != 0 {
			ni.RTPHeaderExtensions = []interceptor.RTPHeaderExtension{{URI: "urn:other", ID: 3}, {URI: twccURI, ID: id}}
		}
		if bi.nack(c) {
			ni.RTCPFeedback = append(ni.RTCPFeedback, interceptor.RTCPFeedback{Type: "nack"})
		}
		if c.Pli {
			ni.RTCPFeedback = append(ni.RTCPFeedback, interceptor.RTCPFeedback{Type: "nack", Parameter: "pli"})
		}
		res.bcfg = append(res.bcfg, [2]int64{int64(uint8(bi.twccID(c))), b2z(bi.nack(c))}) //nolint:gosec
		k := len(bnds)
		w := chain.BindLocalStream(&ni, bindWriter{t: tr, id: k})
		waitStarted()
		bnds = append(bnds, binding{info: &ni, w: w, live: true})
		res.bssrc = append(res.bssrc, int64(ssrc))
	}
	viaOf := func(v int) int {
		if v >= 0 && v < len(bnds) && bnds[v].live {
			return v
		}
		for k := len(bnds) - 1; k >= 0; k-- {
			if bnds[k].live {
				return k
			}
		}

		return len(bnds) - 1
	}
	nextBind := 0
	// ---- RTP writes
	for i, w := range in.Writes {
		for nextBind < len(in.Binds) && in.Binds[nextBind].After <= i {
			doBind(in.Binds[nextBind])
			nextBind++
		}
		via := viaOf(w.Via)
		h := w.Pkt.H.build()
		payload := w.Pkt.payload()
		keep := append([]byte{}, payload...)
		orig := h.Clone()
		n, werr := bnds[via].w.Write(&h, payload, interceptor.Attributes{markerKey{}: i})
		if !bytes.Equal(keep, payload) {
			res.flags[0]++
		}
		o := wobs{pi: res.tbl.rtp(&orig, keep, c), n: n, errs: errIDs(werr, b.sentinels), via: via}
		hp, pp := &h, payload
		ao := &aob{kind: 1, op: i, cp: []int64{int64(o.pi)}}
		ao.recheckC = func() []int64 { return []int64{int64(res.tbl.rtp(hp, pp, c))} }
		ao.recheckT = func() []int64 { return ao.cp }
		tr.mu.Lock()
		for _, cl := range tr.calls[i] {
			cl := cl
			if cl.dst != via {
				// the packet left through the next writer of another binding
				o.stray = append(o.stray, [2]int{cl.dst, res.tbl.rtp(&cl.h, cl.payload, c)})

				continue
			}
			o.calls = append(o.calls, res.tbl.rtp(&cl.h, cl.payload, c))
			fec := c.FecSSRC != 0 && c.FecPT != 0 && cl.h.SSRC == c.FecSSRC && cl.h.PayloadType == c.FecPT
			if !fec && ao.tret == nil {
				ao.recheckT = func() []int64 { return []int64{int64(res.tbl.rtp(cl.hp, cl.pp, c))} }
				ao.tret = ao.recheckT()
			}
		}
		ao.cret = ao.recheckC()
		if ao.tret == nil {
			ao.tret = ao.cp
		}
		res.aobs = append(res.aobs, ao)
		tr.sent[orig.SequenceNumber] = append(tr.sent[orig.SequenceNumber], keep)
		tr.mu.Unlock()
		res.wops = append(res.wops, o)
	}
	for ; nextBind < len(in.Binds); nextBind++ {
		doBind(in.Binds[nextBind])
	}
	// ---- NACK feedback through the chain (responder retransmits asynchronously)
	buf := make([]byte, 2048)
	for _, seqs := range in.Nacks {
		pk := &rtcp.TransportLayerNack{SenderSSRC: 9, MediaSSRC: c.SSRC, Nacks: rtcp.NackPairsFromSequenceNumbers(seqs)}
		raw, _ := pk.Marshal()
		rtcpScript = func(b []byte, a interceptor.Attributes) (int, interceptor.Attributes, error) {
			return copy(b, raw), a, nil
		}
		_, _, _ = cr.Read(buf, interceptor.Attributes{})
		// wait until the retransmissions have stopped arriving
		last, stable := -1, 0
		for k := 0; k < 100 && stable < 3; k++ {
			time.Sleep(time.Millisecond)
			tr.mu.Lock()
			n := len(tr.async)
			tr.mu.Unlock()
			if n == last {
				stable++
			} else {
				stable, last = 0, n
			}
		}
	}
	// ---- what the tapped responder injected and what reached the transport for it
	for _, mk := range b.mocks {
		if !mk.tapOn {
			continue
		}
		mk.mu.Lock()
		taps := append([]call{}, mk.taps...)
		mk.mu.Unlock()
		tr.mu.Lock()
		for id, q := range taps {
			q := q
			o := iob{q: res.tbl.rtp(&q.h, q.payload, c)}
			o.refusedFEC = len(tr.inj[id]) > 0
			for _, cl := range tr.inj[id] {
				cl := cl
				o.calls = append(o.calls, res.tbl.rtp(&cl.h, cl.payload, c))
				if !(c.FecSSRC != 0 && cl.h.SSRC == c.FecSSRC && cl.h.PayloadType == c.FecPT) {
					o.refusedFEC = false
				}
			}
			res.iobs = append(res.iobs, o)
		}
		tr.mu.Unlock()
	}
	// ---- RTP / RTCP reads
	doReads := func(ops []readIn, rd interceptor.RTPReader, rtcpSide bool) []robs {
		out := []robs{}
		buf = bytes.Repeat([]byte{0xEE}, 2048)
		for i, op := range ops {
			// every read gets a buffer of its own (re-read after Close); it starts with what the
			// previous read left behind, as if the application had reused one buffer
			buf = append([]byte{}, buf...)
			buf := buf
			var raw []byte
			var kinds []int64
			switch {
			case op.Raw != "":
				var herr error
				raw, herr = hex.DecodeString(op.Raw)
				if herr != nil {
					panic(herr)
				}
			case rtcpSide:
				pk := []rtcp.Packet{}
				for _, k := range op.RTCP {
					pk = append(pk, rtcpOf(k, c, i))
					kinds = append(kinds, int64(k))
				}
				var merr error
				raw, merr = rtcp.Marshal(pk)
				if merr != nil {
					panic(merr)
				}
			case op.Pkt != nil:
				h := op.Pkt.H.build()
				p := rtp.Packet{Header: h, Payload: op.Pkt.payload()}
				var merr error
				if h.Padding && h.PaddingSize == 0 {
					// legacy padding form: the padding (count last) is part of the payload bytes
					raw, merr = h.Marshal()
					raw = append(raw, p.Payload...)
				} else {
					raw, merr = p.Marshal()
				}
				if merr != nil {
					panic(merr)
				}
			}
			if op.Trunc >= 0 && op.Trunc < len(raw) {
				raw = raw[:op.Trunc]
			}
			var ain interceptor.Attributes
			if op.AIn != 0 {
				ain = interceptor.Attributes{}
			}
			own := interceptor.Attributes{}
			serr := getSent(op.Err)
			script := func(b []byte, a interceptor.Attributes) (int, interceptor.Attributes, error) {
				n := copy(b, raw)
				var ret interceptor.Attributes
				switch op.AMode {
				case 0:
					ret = a
				case 2:
					ret = own
				}
				if serr != nil {
					return op.ErrN, ret, serr
				}

				return n, ret, nil
			}
			if rtcpSide {
				rtcpScript = script
			} else {
				rtpScript = script
			}
			snap := append([]byte{}, buf...)
			n, attr, rerr := rd.Read(buf, ain)
			o := robs{n: n, errs: errIDs(rerr, b.sentinels), bytes: true, rawLen: int64(len(raw)), seq: -1, tcc: -1}
			m := len(raw)
			if !bytes.Equal(buf[:m], raw) || !bytes.Equal(buf[m:], snap[m:]) {
				o.bytes = false
			}
			akind := 2
			if rtcpSide {
				akind = 3
			}
			atRet := append([]byte{}, buf...)
			whole := func() []int64 { return []int64{int64(res.tbl.payID(buf))} }
			ab := &aob{kind: akind, op: i, cp: []int64{int64(res.tbl.payID(atRet))}, recheckC: whole}
			ab.cret, ab.tret = ab.cp, ab.cp
			ab.recheckT = func() []int64 { return ab.cp }
			res.aobs = append(res.aobs, ab)
			// independent parse of what was delivered
			o.di = -1
			if rtcpSide {
				if pk, perr := rtcp.Unmarshal(raw); perr == nil && len(raw) > 0 {
					ks := []int64{}
					for _, p := range pk {
						ks = append(ks, kindOf(p))
					}
					o.di = res.tbl.rtcp(ks, 1000+i)
				}
			} else {
				var hh rtp.Header
				if _, perr := hh.Unmarshal(raw); perr == nil {
					o.di = res.tbl.add(cq.T(hdrTerm(&hh), cq.T("0", "0")))
					o.seq = int(hh.SequenceNumber)
					if x := hh.GetExtension(uint8(c.TwccID)); c.TwccID != 0 && len(x) >= 2 { //nolint:gosec
						o.tcc = int(x[0])<<8 | int(x[1])
					}
				}
			}
			switch op.AMode {
			case 0:
				o.amodeZ = 0
			case 1:
				o.amodeZ = 1
			default:
				o.amodeZ = int64(5000 + i)
			}
			// identity of the returned map
			switch {
			case attr == nil:
				o.aid = 0
			case ain != nil && mapID(attr) == mapID(ain):
				o.aid = int64(i + 1)
			case mapID(attr) == mapID(own):
				o.aid = int64(5000 + i)
			default:
				o.aid = -1
			}
			// state of the parse cache
			if attr != nil {
				if rtcpSide {
					if pk, gerr := attr.GetRTCPPackets(nil); gerr == nil && len(pk) > 0 {
						o.cache = 2
						if want, perr := rtcp.Unmarshal(raw); perr == nil {
							a1, _ := rtcp.Marshal(pk)
							a2, _ := rtcp.Marshal(want)
							if bytes.Equal(a1, a2) {
								o.cache = 1
							}
						}
					}
				} else if hc, gerr := attr.GetRTPHeader(nil); gerr == nil {
					o.cache = 2
					var hh rtp.Header
					if _, perr := hh.Unmarshal(raw); perr == nil && reflect.DeepEqual(hh, *hc) {
						o.cache = 1
					}
				}
			}
			out = append(out, o)
		}

		return out
	}
	res.rops = doReads(in.Reads, rr, false)
	res.crops = doReads(in.CReads, cr, true)

	// ---- RTCP writes
	for i, w := range in.CWrites {
		pk := []rtcp.Packet{}
		for j, k := range w.Kinds {
			pk = append(pk, rtcpOf(k, c, 10*i+j))
		}
		keep := snapRTCP(pk) // deep copy of the batch
		n, werr := cw.Write(pk, interceptor.Attributes{markerKey{}: i})
		o := wobs{pi: res.tbl.rtcpBatch(keep), n: n, errs: errIDs(werr, b.sentinels)}
		own := pk
		ao := &aob{kind: 0, op: i, cp: res.tbl.rtcpIDs(keep)}
		ao.recheckC = func() []int64 { return res.tbl.rtcpIDs(snapRTCP(own)) }
		ao.recheckT = func() []int64 { return ao.cp }
		tr.mu.Lock()
		for j, cl := range tr.ccalls[i] {
			// what the transport was handed, by content, at the time of the call
			o.calls = append(o.calls, res.tbl.rtcpBatch(cl.snap))
			if j == 0 {
				got := cl.pkts
				ao.recheckT = func() []int64 { return res.tbl.rtcpIDs(snapRTCP(got)) }
			}
		}
		tr.mu.Unlock()
		ao.cret, ao.tret = ao.recheckC(), ao.recheckT()
		res.aobs = append(res.aobs, ao)
		res.cwops = append(res.cwops, o)
	}

	// let the feedback loops tick at least twice, then take counts and close
	time.Sleep(3 * tick)
	statsIn := int64(-1)
	if b.getter != nil {
		if st := b.getter.Get(c.SSRC); st != nil {
			statsIn = int64(st.InboundRTPStreamStats.PacketsReceived) //nolint:gosec
		}
	}
	mi := 0
	for i, m := range flatten(in.Members) {
		if m.Kind == 15 {
			b.mocks[mi].mu.Lock()
			res.counts = append(res.counts, [3]int64{int64(i), 0, int64(b.mocks[mi].wcount)})
			b.mocks[mi].mu.Unlock()
			mi++
		}
	}
	// the teardown history, call by call; the Close error observed is the first Close's
	var cerr error
	closedOnce := false
	for _, op := range in.teardown() {
		switch op {
		case 0:
			chain.UnbindLocalStream(info)
		case 1:
			chain.UnbindRemoteStream(&rinfo)
		default:
			e := chain.Close()
			if !closedOnce {
				cerr, closedOnce = e, true
			}
		}
		snapTD(op)
	}
	res.closeNil = cerr == nil
	res.cerrTerm = "None"
	if cerr != nil {
		res.cerrTerm = cq.Some(errTerm(cerr, b.sentinels))
		for _, ln := range strings.Split(cerr.Error(), "\n") {
			res.cerrLine = append(res.cerrLine, lineID(ln))
		}
	}
	ids := []int{}
	for id := range b.sentinels {
		ids = append(ids, id)
	}
	sort.Ints(ids)
	for _, id := range ids {
		if id >= 1000 { // transport sentinels: never in a Close error, probe a few
			if id%7 != 0 {
				continue
			}
		}
		res.is = append(res.is, [2]int64{int64(id), b2z(cerr != nil && errors.Is(cerr, b.sentinels[id]))})
	}
	res.is = append(res.is, [2]int64{99999, b2z(cerr != nil && errors.Is(cerr, sentinel(99999)))})
	for _, m := range b.mocks {
		res.ctrs = append(res.ctrs, [3]int64{int64(m.closed), int64(m.unbL), int64(m.unbR)})
	}
	// ---- every handed-in object once more, now that Close has drained the background goroutines
	for _, ao := range res.aobs {
		ao.cend, ao.tend = ao.recheckC(), ao.recheckT()
	}
	// ---- case-level checks on asynchronous traffic
	tr.mu.Lock()
	defer tr.mu.Unlock()
	for _, cl := range tr.async {
		switch {
		case c.RtxSSRC != 0 && c.RtxPT != 0 && cl.h.SSRC == c.RtxSSRC && cl.h.PayloadType == c.RtxPT:
		case cl.h.SSRC == c.SSRC && anyEqual(tr.sent[cl.h.SequenceNumber], cl.payload):
		case c.FecSSRC != 0 && c.FecPT != 0 && cl.h.SSRC == c.FecSSRC && cl.h.PayloadType == c.FecPT:
			// repair packet for a retransmission that passed a FEC encoder below the responder
		default:
			res.flags[0]++
		}
	}
	// feedback must never report a number that only failed reads carried (decoys left in the buffer)
	fo := failedOnlyOf(in.Reads, res.rops)
	for _, pk := range tr.casync {
		for _, p := range pk {
			if decoyMentioned(p, fo) {
				res.flags[1]++
			}
		}
	}
	// failed reads must not be counted by stats
	okReads := 0
	for i, op := range in.Reads {
		if op.Err == 0 && res.rops[i].di >= 0 {
			okReads++
		}
	}
	if statsIn > int64(okReads) {
		res.flags[3]++
	}

	return res
}

// sequence numbers the generator gives to decoy packets (left in the buffer by failed reads)
const decoyLo = 40000

// numbers (RTP sequence numbers / transport-wide sequence numbers) carried ONLY by packets whose
// read failed: feedback that reports one of them as received accounts a failed read.  A number a
// successfully read packet carried as well may of course be reported.
type failedOnly struct {
	seq, tcc map[uint16]bool
}

func failedOnlyOf(reads []readIn, obs []robs) failedOnly {
	f := failedOnly{seq: map[uint16]bool{}, tcc: map[uint16]bool{}}
	for i, op := range reads {
		if op.Err != 0 {
			if obs[i].seq >= 0 {
				f.seq[uint16(obs[i].seq)] = true //nolint:gosec
			}
			if obs[i].tcc >= 0 {
				f.tcc[uint16(obs[i].tcc)] = true //nolint:gosec
			}
		}
	}
	for i, op := range reads {
		if op.Err == 0 {
			if obs[i].seq >= 0 {
				delete(f.seq, uint16(obs[i].seq)) //nolint:gosec
			}
			if obs[i].tcc >= 0 {
				delete(f.tcc, uint16(obs[i].tcc)) //nolint:gosec
			}
		}
	}

	return f
}

// received transport-wide sequence numbers of one TWCC feedback packet
func tccReceived(v *rtcp.TransportLayerCC) []uint16 {
	out := []uint16{}
	idx := 0
	put := func(symbol uint16) {
		if idx < int(v.PacketStatusCount) && symbol != rtcp.TypeTCCPacketNotReceived {
			out = append(out, v.BaseSequenceNumber+uint16(idx)) //nolint:gosec
		}
		idx++
	}
	for _, ch := range v.PacketChunks {
		switch c := ch.(type) {
		case *rtcp.RunLengthChunk:
			for k := 0; k < int(c.RunLength); k++ {
				put(c.PacketStatusSymbol)
			}
		case *rtcp.StatusVectorChunk:
			for _, sym := range c.SymbolList {
				put(sym)
			}
		}
	}

	return out
}

func decoyMentioned(p rtcp.Packet, f failedOnly) bool {
	switch v := p.(type) {
	case *rtcp.TransportLayerNack:
		// a NACK lists MISSING numbers: just below a number the generator believes it received
		for _, np := range v.Nacks {
			for _, s := range np.PacketList() {
				for d := uint16(0); d <= 1000; d++ {
					if f.seq[s+d] {
						return true
					}
				}
			}
		}
	case *rtcp.ReceiverReport:
		for _, r := range v.Reports {
			if f.seq[uint16(r.LastSequenceNumber)] { //nolint:gosec
				return true
			}
		}
	case *rtcp.CCFeedbackReport:
		for _, rb := range v.ReportBlocks {
			for k := range rb.MetricBlocks {
				if rb.MetricBlocks[k].Received && f.seq[rb.BeginSequence+uint16(k)] { //nolint:gosec
					return true
				}
			}
		}
	case *rtcp.TransportLayerCC:
		for _, s := range tccReceived(v) {
			if f.tcc[s] {
				return true
			}
		}
	}

	return false
}

// ---------------------------------------------------------------- printing

// parameters the model needs: responder [DisableCopy; RTX configured; streams filter mode],
// nack generator [streams filter mode], packetdump [option bits], others as generated
func memberTerm(m memberIn, c cfgIn) string {
	ps := []int64{}
	for _, p := range m.Params {
		ps = append(ps, int64(p))
	}
	switch m.Kind {
	case 2:
		for len(ps) < 1 {
			ps = append(ps, 0)
		}
		ps = append(ps[:1], b2z(c.RtxSSRC != 0 && c.RtxPT != 0), int64(m.Opt))
	case 1, 10, 11:
		ps = []int64{int64(m.Opt)}
	}

	return cq.T(cq.Z(int64(m.Kind)), cq.LZ(ps))
}

// the chain as a tree of members with the error each member's Close returns; signed = false: the
// sentinel errors.Is finds (0 nil); signed = true: id the sentinel value itself, -id a value that wraps it
func cmTerm(m memberIn, signed bool) string {
	switch m.Kind {
	case 16:
		sub := []string{}
		for _, s := range m.Sub {
			sub = append(sub, cmTerm(s, signed))
		}

		return cq.C("CChain", cq.L(sub))
	case 14, 15:
		id := m.CErr
		if id < 0 && !signed {
			id = -id
		}

		return cq.C("CLeaf", cq.Z(int64(id)))
	}

	return cq.C("CLeaf", "0")
}

func wresTerm(n int, errs []int64) string { return cq.T(cq.Z(int64(n)), cq.LZ(errs)) }

func respTerms(rs []respIn) string {
	out := []string{}
	for _, r := range rs {
		e := []int64{}
		if r.Err != 0 {
			e = []int64{int64(r.Err)}
		}
		out = append(out, wresTerm(r.N, e))
	}

	return cq.L(out)
}

func ints(xs []int) []int64 {
	out := make([]int64, len(xs))
	for i, x := range xs {
		out[i] = int64(x)
	}

	return out
}

func (r *result) toCase() cq.Case {
	in := r.in
	c := in.Cfg
	sid := int64(uint8(c.TwccID)) //nolint:gosec
	fecOn := c.FecSSRC != 0 && c.FecPT != 0
	cfg := cq.T(cq.Z(int64(c.SSRC)), cq.Z(sid), cq.B(c.Nack), cq.B(fecOn), cq.Z(int64(c.FecSSRC)), cq.Z(int64(c.FecPT)))
	ms := []string{}
	for _, m := range flatten(in.Members) {
		ms = append(ms, memberTerm(m, c))
	}
	wops := []string{}
	for i, o := range r.wops {
		wops = append(wops, cq.T(cq.Z(int64(o.pi)), respTerms(in.Writes[i].Resp), cq.LZ(ints(o.calls)), wresTerm(o.n, o.errs)))
	}
	rterm := func(ops []readIn, obs []robs) []string {
		out := []string{}
		for i, o := range obs {
			op := ops[i]
			ain := int64(0)
			if op.AIn != 0 {
				ain = int64(i + 1)
			}
			n := len0(op, o)
			out = append(out, cq.T(cq.Z(ain),
				cq.T(cq.Z(n), cq.Z(int64(o.di)), cq.Z(o.amodeZ), cq.Z(int64(op.Err))),
				cq.T(cq.Z(int64(o.n)), cq.LZ(o.errs), cq.Z(o.aid), cq.Z(o.cache), cq.B(o.bytes))))
		}

		return out
	}
	cwops := []string{}
	for i, o := range r.cwops {
		cwops = append(cwops, cq.T(cq.Z(int64(o.pi)), respTerms(in.CWrites[i].Resp), cq.LZ(ints(o.calls)), wresTerm(o.n, o.errs)))
	}
	cms, scms := []string{}, []string{}
	for _, m := range in.Members {
		cms = append(cms, cmTerm(m, false))
		scms = append(scms, cmTerm(m, true))
	}
	vias := []string{}
	for _, o := range r.wops {
		st := []string{}
		for _, x := range o.stray {
			st = append(st, cq.T(cq.Z(int64(x[0])), cq.Z(int64(x[1]))))
		}
		vias = append(vias, cq.T(cq.Z(int64(o.via)), cq.L(st)))
	}
	bcs := []string{}
	for _, x := range r.bcfg {
		bcs = append(bcs, cq.T(cq.Z(x[0]), cq.B(x[1] == 1)))
	}
	is := []string{}
	for _, x := range r.is {
		is = append(is, cq.T(cq.Z(x[0]), cq.B(x[1] == 1)))
	}
	tri := func(xs [][3]int64) string {
		out := []string{}
		for _, x := range xs {
			out = append(out, cq.T(cq.Z(x[0]), cq.Z(x[1]), cq.Z(x[2])))
		}

		return cq.L(out)
	}
	as := []string{}
	for _, a := range r.aobs {
		as = append(as, cq.T(cq.Z(int64(a.kind)), cq.Z(int64(a.op)), cq.LZ(a.cp),
			cq.T(cq.LZ(a.cret), cq.LZ(a.cend)), cq.T(cq.LZ(a.tret), cq.LZ(a.tend))))
	}
	is2 := []string{}
	for _, o := range r.iobs {
		is2 = append(is2, cq.T(cq.Z(int64(r.respIdx)), cq.Z(int64(o.q)), cq.LZ(ints(o.calls))))
	}
	tds := []string{}
	for _, t := range r.tds {
		tds = append(tds, cq.T(cq.Z(int64(t.op)), tri(t.ctrs)))
	}
	term := cq.T(cfg, cq.L(ms), cq.L(r.tbl.terms), cq.L(wops), cq.L(rterm(in.Reads, r.rops)),
		cq.L(rterm(in.CReads, r.crops)), cq.L(cwops), cq.L(cms),
		cq.T(cq.B(r.closeNil), cq.L(is), tri(r.ctrs)), tri(r.counts), cq.LZ(r.flags[:]),
		cq.L(as), cq.L(is2), cq.L(tds),
		cq.T(cq.L(scms), r.cerrTerm, cq.LZ(r.cerrLine)),
		cq.T(cq.LZ(r.bssrc), cq.L(vias), cq.LZ(r.unbound)), cq.L(bcs))
	triv := len(flatten(in.Members)) == 0 || len(in.Writes)+len(in.Reads)+len(in.CReads)+len(in.CWrites) == 0

	return cq.Case{Coq: term, JSON: in, Buckets: r.buckets, Trivial: triv}
}

// n the scripted transport returned for this read
func len0(op readIn, o robs) int64 {
	if op.Err != 0 {
		return int64(op.ErrN)
	}

	return o.rawLen
}

func kindOf(p rtcp.Packet) int64 {
	switch p.(type) {
	case *rtcp.SenderReport:
		return 200
	case *rtcp.ReceiverReport:
		return 201
	case *rtcp.SourceDescription:
		return 202
	case *rtcp.Goodbye:
		return 203
	case *rtcp.TransportLayerNack:
		return 205
	case *rtcp.PictureLossIndication:
		return 206
	case *rtcp.TransportLayerCC:
		return 215
	case *rtcp.CCFeedbackReport:
		return 211
	}

	return 299
}

func anyEqual(xs [][]byte, b []byte) bool {
	for _, x := range xs {
		if bytes.Equal(x, b) {
			return true
		}
	}

	return false
}
