// C09, round 5: (a) SSRC bit patterns as a generator dimension (streams whose SSRCs differ
// only in some bits, with equal RTP sequence numbers in flight); (b) one rtpfb interceptor with
// several local streams that negotiated the transport-wide-cc header extension under ids of
// their own, packets carrying arbitrary header-extension elements (sets c09ws*).
package main

import (
	"encoding/hex"
	"fmt"
	"math/rand"
	"time"

	"github.com/pion/interceptor"
	"github.com/pion/interceptor/pkg/verifhooks"
	"github.com/pion/rtcp"
	"github.com/pion/rtp"

	"verifharness/internal/cq"
)

// ---------- SSRC families ----------

// ssrcFamily returns n distinct SSRCs that a lossy (truncated, folded, packed) key would
// confuse, and the name of the pattern.
func ssrcFamily(r *rand.Rand, n int) ([]uint32, string) {
	base := r.Uint32()
	switch r.Intn(5) {
	case 0:
		base = uint32(r.Intn(4)) //nolint:gosec
	case 1:
		base = 0
	case 2:
		base = 0xFFFFFFFF
	}
	out := []uint32{base}
	seen := map[uint32]bool{base: true}
	kind := r.Intn(5)
	name := [...]string{"ssrc-equal-low16", "ssrc-equal-high16", "ssrc-one-bit-apart", "ssrc-boundary-values", "ssrc-halves-swapped"}[kind]
	for tries := 0; len(out) < n && tries < 100; tries++ {
		var s uint32
		switch kind {
		case 0:
			s = base ^ (uint32(1+r.Intn(0xFFFF)) << 16) //nolint:gosec
			if r.Intn(3) == 0 {
				s = base ^ 0x80000000
			}
		case 1:
			s = base ^ uint32(1+r.Intn(0xFFFF)) //nolint:gosec
		case 2:
			s = base ^ (1 << uint(r.Intn(32)))
		case 3:
			s = []uint32{0, 0x80000000, 0x00010000, 0x0000FFFF, 0xFFFF0000, 0xFFFFFFFF, 0x7FFFFFFF, 1, 0x00010001, 0x00020001}[r.Intn(10)]
		default:
			s = base<<16 | base>>16
			if len(out) > 1 || s == base {
				s = base ^ (uint32(1+r.Intn(0xFFFF)) << 16) //nolint:gosec
			}
		}
		if !seen[s] {
			seen[s] = true
			out = append(out, s)
		}
	}
	for len(out) < n { // cannot happen in practice
		s := r.Uint32()
		if !seen[s] {
			seen[s] = true
			out = append(out, s)
		}
	}
	r.Shuffle(len(out), func(i, j int) { out[i], out[j] = out[j], out[i] })

	return out, name
}

// aliasOf returns an SSRC nobody uses that shares bits with s.
func aliasOf(r *rand.Rand, s uint32, used map[uint32]bool) uint32 {
	for {
		var a uint32
		switch r.Intn(3) {
		case 0:
			a = s ^ (uint32(1+r.Intn(0xFFFF)) << 16) //nolint:gosec
		case 1:
			a = s ^ (1 << uint(r.Intn(32)))
		default:
			a = s + 1000
		}
		if !used[a] {
			return a
		}
	}
}

// ccfbAll builds one CCFB packet: for every stream, the numbers first .. first+n-1 arrived
// (now and then one is reported as lost).
func ccfbAll(r *rand.Rand, streams []stream, now int64) []byte {
	fb := &rtcp.CCFeedbackReport{SenderSSRC: 3,
		ReportTimestamp: verifhooks.ToNTP32(time.Unix(0, now-int64(r.Intn(100000000))))}
	for _, s := range streams {
		rb := rtcp.CCFeedbackReportBlock{MediaSSRC: s.ssrc, BeginSequence: s.first}
		for i := 0; i < s.n; i++ {
			mb := rtcp.CCFeedbackMetricBlock{}
			if r.Intn(8) != 0 || i == s.n-1 {
				mb = rtcp.CCFeedbackMetricBlock{Received: true, ECN: rtcp.ECN(r.Intn(4)), ArrivalTimeOffset: uint16(r.Intn(0x1FFE))} //nolint:gosec
			}
			rb.MetricBlocks = append(rb.MetricBlocks, mb)
		}
		fb.ReportBlocks = append(fb.ReportBlocks, rb)
	}

	return marshalCCFB(fb)
}

// genFBAlias: two to four (SSRC, seq)-tracked streams of ONE interceptor whose SSRCs come from
// an ssrcFamily, all numbering their packets from the same RTP sequence number, all with
// unreported packets in the history at the same time; RFC 8888 feedback about one stream at a
// time, about an SSRC nobody sent from that shares bits with a real one, about all streams.
func genFBAlias(r *rand.Rand) ([]ropJ, []string) {
	ns := 2 + r.Intn(3)
	ssrcs, name := ssrcFamily(r, ns)
	tags := map[string]bool{name: true, "ssrc-family": true}
	seq := uint16(r.Intn(65536)) //nolint:gosec
	if r.Intn(3) == 0 {
		seq = uint16(65536 - r.Intn(4)) //nolint:gosec
		tags["rtp-wrap"] = true
	}
	now := int64(1700000000)*1000000000 + int64(r.Intn(1000000))*1000
	var ops []ropJ
	used := map[uint32]bool{}
	type st struct {
		ssrc uint32
		tw   bool // a TWCC stream whose packets lack the extension: tracked by (SSRC, seq) as well
		n    int
	}
	sts := make([]*st, ns)
	for i := range sts {
		sts[i] = &st{ssrc: ssrcs[i], tw: r.Intn(6) == 0}
		used[ssrcs[i]] = true
		if sts[i].tw {
			tags["twcc-stream-without-extension"] = true
		}
	}
	rounds := 1 + r.Intn(3)
	for rd := 0; rd < rounds; rd++ {
		for _, i := range r.Perm(ns) {
			x := sts[i]
			n := 1 + r.Intn(4)
			if x.tw { // the compact run form stands for packets that carry the extension: single writes
				for k := 0; k < n; k++ {
					ops = append(ops, ropJ{K: "send", TW: true, Ext: []int{0, 2}[r.Intn(2)], SSRC: x.ssrc, Seq: seq + uint16(x.n+k), //nolint:gosec
						Size: 20 + r.Intn(1200), Now: now + int64(k)*1000000})
				}
			} else {
				ops = append(ops, ropJ{K: "run", SSRC: x.ssrc, Seq: seq + uint16(x.n), CSRC: r.Intn(2), //nolint:gosec
					Size: 20 + r.Intn(1200), Now: now, DNow: int64(1 + r.Intn(2000000)), N: n})
			}
			now += int64(n)*2000000 + int64(r.Intn(1000000))
			x.n += n
		}
	}
	now += int64(r.Intn(50000000))
	read := func(raw []byte) {
		if raw == nil {
			return
		}
		ops = append(ops, ropJ{K: "read", Now: now, Pkts: []opJ{{K: "ccfb", Raw: hex.EncodeToString(raw)}}})
		now += int64(1 + r.Intn(20000000))
	}
	for _, i := range r.Perm(ns) {
		x := sts[i]
		switch r.Intn(5) {
		case 0: // feedback about an SSRC that sent nothing
			read(ccfbAll(r, []stream{{ssrc: aliasOf(r, x.ssrc, used), first: seq, n: x.n}}, now))
			tags["feedback-for-unknown-ssrc-sharing-bits"] = true
		case 1: // real recorder
			read(recorderCCFBAt(r, []stream{{ssrc: x.ssrc, first: seq, n: x.n}}, now))
			tags["ccfb-recorder"] = true

			continue
		}
		k := 1 + r.Intn(x.n)
		read(ccfbAll(r, []stream{{ssrc: x.ssrc, first: seq, n: k}}, now))
		if r.Intn(3) == 0 {
			ops = append(ops, ropJ{K: "read", Now: now, Pkts: []opJ{{K: "other"}}})
		}
	}
	var all []stream
	for _, x := range sts {
		all = append(all, stream{ssrc: x.ssrc, first: seq, n: x.n})
	}
	read(ccfbAll(r, all, now))
	ops = append(ops, ropJ{K: "read", Now: now, Pkts: []opJ{{K: "other"}}})
	out := []string{}
	for t := range tags {
		out = append(out, t)
	}

	return ops, out
}

// genCCAlias: the same for the cc FeedbackAdapter (history keyed by (SSRC, seq)).
func genCCAlias(r *rand.Rand) ([]opJ, []string) {
	ns := 2 + r.Intn(3)
	ssrcs, name := ssrcFamily(r, ns)
	tags := []string{name, "ssrc-family", "ccfb"}
	seq := uint16(r.Intn(65536)) //nolint:gosec
	if r.Intn(3) == 0 {
		seq = uint16(65536 - r.Intn(4)) //nolint:gosec
	}
	dep := depStart(r)
	var ops []opJ
	var all []stream
	used := map[uint32]bool{}
	for i := 0; i < ns; i++ {
		n := 1 + r.Intn(8)
		ops = append(ops, opJ{K: "run", SSRC: ssrcs[i], Seq: seq, CSRC: r.Intn(2), Size: 1 + r.Intn(1400), Dep: dep,
			DDep: int64(1 + r.Intn(2000)), N: n})
		dep += 3000000
		all = append(all, stream{ssrc: ssrcs[i], first: seq, n: n})
		used[ssrcs[i]] = true
	}
	add := func(raw []byte) {
		if raw != nil {
			ops = append(ops, opJ{K: "ccfb", Raw: hex.EncodeToString(raw)})
		}
	}
	for _, i := range r.Perm(ns) {
		if r.Intn(4) == 0 {
			add(ccfbAll(r, []stream{{ssrc: aliasOf(r, all[i].ssrc, used), first: seq, n: all[i].n}}, 1700000000000000000))
		}
		add(ccfbAll(r, []stream{all[i]}, 1700000000000000000))
	}
	add(handCCFB(r, all))

	return ops, tags
}

// ---------- streams with header-extension ids of their own ----------

type extJ struct {
	ID uint8  `json:"id"`
	P  string `json:"p"` // payload, hex
}

type wopJ struct {
	K string `json:"k"` // bind | send | run | read
	S int    `json:"s"` // stream handle
	// bind
	Neg int `json:"neg,omitempty"` // id the transport-wide-cc extension is negotiated under (0: not negotiated)
	// send / run
	Prof2 bool   `json:"prof2,omitempty"` // two-byte header-extension profile
	Exts  []extJ `json:"exts,omitempty"`  // send: every element; run: the elements after the numbered one
	TwID  uint8  `json:"twid,omitempty"`  // run: packet i carries Twcc+i (two bytes) under this id (0: no such element)
	Twcc  uint16 `json:"twcc,omitempty"`
	SSRC  uint32 `json:"ssrc,omitempty"`
	Seq   uint16 `json:"seq,omitempty"`
	CSRC  int    `json:"csrc,omitempty"`
	Size  int    `json:"size,omitempty"`
	Now   int64  `json:"now,omitempty"`
	DNow  int64  `json:"dnow,omitempty"`
	N     int    `json:"n,omitempty"`
	// read
	Pkts []opJ `json:"pkts,omitempty"`
}

type wsCase struct {
	Ops  []wopJ   `json:"ops"`
	Outs [][]repJ `json:"outs"`
	coq  []string
	info map[string]bool
}

func extsTerm(es []extJ) string {
	ts := make([]string, len(es))
	for i, e := range es {
		p, err := hex.DecodeString(e.P)
		if err != nil {
			panic(err)
		}
		ts[i] = cq.T(cq.ZU(uint64(e.ID)), cq.Bytes(p))
	}

	return cq.L(ts)
}

func wsHeader(o wopJ, i int) rtp.Header {
	h := rtp.Header{Version: 2, SSRC: o.SSRC, SequenceNumber: o.Seq + uint16(i)} //nolint:gosec
	for k := 0; k < o.CSRC; k++ {
		h.CSRC = append(h.CSRC, uint32(k+1)) //nolint:gosec
	}
	if o.Prof2 {
		h.Extension = true
		h.ExtensionProfile = rtp.ExtensionProfileTwoByte
	}
	if o.K == "run" && o.TwID != 0 {
		tw := o.Twcc + uint16(i) //nolint:gosec
		if err := h.SetExtension(o.TwID, []byte{byte(tw >> 8), byte(tw)}); err != nil {
			panic(err)
		}
	}
	for _, e := range o.Exts {
		p, err := hex.DecodeString(e.P)
		if err != nil {
			panic(err)
		}
		if err := h.SetExtension(e.ID, p); err != nil {
			panic(err)
		}
	}

	return h
}

// runWS drives one rtpfb interceptor: streams are bound when the history says so.
func runWS(ops []wopJ) (c wsCase, panicked string) {
	c = wsCase{Ops: ops, Outs: [][]repJ{}, info: map[string]bool{}}
	defer func() {
		if r := recover(); r != nil {
			panicked = fmt.Sprint(r)
		}
	}()
	f, cur := newFBFactory()
	x := newFBInst(f, cur, "")
	writers := map[int]interceptor.RTPWriter{}
	send := func(o wopJ, i int) int {
		h := wsHeader(o, i)
		*x.cur = time.Unix(0, o.Now+int64(i)*o.DNow)
		size := o.Size
		if o.K == "run" {
			size += i % 5
		}
		w, ok := writers[o.S]
		if !ok {
			panic("write on a stream that was not bound")
		}
		if _, err := w.Write(&h, make([]byte, size), nil); err != nil {
			panic(err)
		}

		return h.MarshalSize()
	}
	for _, o := range ops {
		switch o.K {
		case "bind":
			info := &interceptor.StreamInfo{SSRC: o.SSRC}
			neg := cq.None
			if o.Neg != 0 {
				// a stream lists more than the transport-wide-cc extension
				info.RTPHeaderExtensions = []interceptor.RTPHeaderExtension{
					{URI: "urn:ietf:params:rtp-hdrext:sdes:mid", ID: (o.Neg % 14) + 1},
					{URI: transportCCURI, ID: o.Neg},
				}
				neg = cq.Some(cq.Z(int64(o.Neg)))
			} else {
				info.RTPHeaderExtensions = []interceptor.RTPHeaderExtension{{URI: "urn:ietf:params:rtp-hdrext:sdes:mid", ID: 1 + o.S%14}}
			}
			writers[o.S] = x.ic.BindLocalStream(info, interceptor.RTPWriterFunc(
				func(_ *rtp.Header, p []byte, _ interceptor.Attributes) (int, error) { return len(p), nil }))
			c.coq = append(c.coq, cq.C("WB", cq.Z(int64(o.S)), neg))
		case "send":
			hs := send(o, 0)
			c.coq = append(c.coq, cq.C("WS", cq.Z(int64(o.S)), extsTerm(o.Exts), cq.ZU(uint64(o.SSRC)), cq.ZU(uint64(o.Seq)),
				cq.Z(int64(hs+o.Size)), tenc(time.Unix(0, o.Now))))
		case "run":
			hs := 0
			for i := 0; i < o.N; i++ {
				hs = send(o, i)
			}
			c.coq = append(c.coq, cq.C("WRn", cq.Z(int64(o.S)), cq.ZU(uint64(o.TwID)), cq.ZU(uint64(o.Twcc)), extsTerm(o.Exts),
				cq.ZU(uint64(o.SSRC)), cq.ZU(uint64(o.Seq)), cq.Z(int64(hs+o.Size)), tenc(time.Unix(0, o.Now)), cq.Z(o.DNow),
				cq.Z(int64(o.N))))
		case "read":
			term, out, _ := x.do(ropJ{K: "read", Now: o.Now, Pkts: o.Pkts}, c.info)
			c.coq = append(c.coq, cq.C("WR", term))
			c.Outs = append(c.Outs, out)
		default:
			panic("unknown ws operation " + o.K)
		}
	}

	return c, ""
}

func (c wsCase) toCase(buckets ...string) cq.Case {
	k := fbCase{Outs: c.Outs, coq: c.coq, info: c.info}.toCase(buckets...)
	k.JSON = c

	return k
}

// genWS: one interceptor, two to four local streams; the streams that use TWCC negotiated the
// extension under ids of their own (mostly different ones), share one transport-wide counter,
// and their packets carry further header-extension elements - also under the ids OTHER streams
// use for TWCC, holding bytes that read as a transport-wide sequence number (decoys: numbers
// nobody sent, or numbers another packet really carries).  Streams are bound in any order, some
// late, some handles are bound again under another id.  Reads: TWCC feedback about the numbers
// really carried and about the decoys, RFC 8888 feedback for the packets tracked by (SSRC, seq).
func genWS(r *rand.Rand) ([]wopJ, []string) {
	tags := map[string]bool{}
	type st struct {
		s     int
		ssrc  uint32
		neg   int
		seq   uint16
		first uint16
		n     int
		bound bool
	}
	ns := 2 + r.Intn(3)
	prof2 := r.Intn(6) == 0
	maxID := 14
	if prof2 {
		maxID = 255
		tags["two-byte-profile"] = true
	}
	newID := func() int {
		if prof2 && r.Intn(2) == 0 {
			return 15 + r.Intn(maxID-14)
		}

		return 1 + r.Intn(14)
	}
	ssrcs := make([]uint32, ns)
	for i := range ssrcs {
		ssrcs[i] = uint32(1111 * (i + 1)) //nolint:gosec
	}
	if r.Intn(3) == 0 {
		var name string
		ssrcs, name = ssrcFamily(r, ns)
		tags[name] = true
	}
	sameID := r.Intn(5) == 0
	common := newID()
	usedIDs := map[int]bool{}
	seq0 := uint16(r.Intn(65536)) //nolint:gosec
	var sts []*st
	ntw := 0
	for i := 0; i < ns; i++ {
		x := &st{s: i, ssrc: ssrcs[i], seq: seq0}
		if r.Intn(2) == 0 {
			x.seq = uint16(r.Intn(65536)) //nolint:gosec
		}
		x.first = x.seq
		if i < 2 || r.Intn(4) != 0 {
			if sameID {
				x.neg = common
			} else {
				for x.neg == 0 || usedIDs[x.neg] {
					x.neg = newID()
				}
			}
			usedIDs[x.neg] = true
			ntw++
		}
		sts = append(sts, x)
	}
	if sameID {
		tags["same-id-on-every-stream"] = true
	} else {
		tags["different-ids"] = true
	}
	if ntw < ns {
		tags["with-non-twcc-stream"] = true
	}
	tseq0 := uint16(r.Intn(65536)) //nolint:gosec
	if r.Intn(3) == 0 {
		tseq0 = uint16(65536 - r.Intn(40)) //nolint:gosec
		tags["twcc-wrap"] = true
	}
	tcnt := 0
	now := int64(1700000000)*1000000000 + int64(r.Intn(1000000))*1000
	var ops []wopJ
	bind := func(x *st) {
		ops = append(ops, wopJ{K: "bind", S: x.s, SSRC: x.ssrc, Neg: x.neg})
		x.bound = true
	}
	order := r.Perm(ns)
	late := -1
	if r.Intn(3) == 0 {
		late = order[ns-1]
		tags["stream-bound-late"] = true
	}
	for _, i := range order {
		if i != late {
			bind(sts[i])
		}
	}
	var decoys []uint16
	payload := func(n int) string {
		b := make([]byte, n)
		for i := range b {
			b[i] = byte(r.Intn(256))
		}

		return hex.EncodeToString(b)
	}
	// the elements a packet of stream x carries besides its own number
	others := func(x *st) []extJ {
		var es []extJ
		seen := map[int]bool{x.neg: true}
		for _, y := range sts {
			if y.neg == 0 || seen[y.neg] || r.Intn(2) == 0 {
				continue
			}
			seen[y.neg] = true
			var p string
			switch r.Intn(5) {
			case 0: // one byte: not a transport-wide number
				p = payload(1)
			case 1: // three bytes (abs-send-time): the first two read as a number
				p = payload(3)
			case 2: // a number some packet really carries (or will)
				d := tseq0 + uint16(r.Intn(tcnt+20)) //nolint:gosec
				p = hex.EncodeToString([]byte{byte(d >> 8), byte(d)})
				tags["decoy-equals-a-real-number"] = true
			default:
				d := tseq0 + uint16(1000+r.Intn(30000)) //nolint:gosec
				p = hex.EncodeToString([]byte{byte(d >> 8), byte(d)})
			}
			if b, _ := hex.DecodeString(p); len(b) >= 2 {
				decoys = append(decoys, uint16(b[0])<<8|uint16(b[1]))
			}
			es = append(es, extJ{ID: uint8(y.neg), P: p}) //nolint:gosec
			tags["element-under-another-streams-id"] = true
		}
		if r.Intn(3) == 0 { // an id no stream uses
			for try := 0; try < 10; try++ {
				id := newID()
				if !seen[id] && !usedIDs[id] {
					es = append(es, extJ{ID: uint8(id), P: payload(1 + r.Intn(4))}) //nolint:gosec

					break
				}
			}
		}

		return es
	}
	phases := 1 + r.Intn(4)
	for ph := 0; ph < phases; ph++ {
		if late >= 0 && !sts[late].bound && (ph > 0 || r.Intn(2) == 0) {
			bind(sts[late])
		}
		if ph > 0 && r.Intn(8) == 0 { // a handle is bound again, under another id (or none / the same)
			x := sts[r.Intn(ns)]
			if x.bound {
				switch r.Intn(3) {
				case 0:
					x.neg = newID()
				case 1:
					y := sts[r.Intn(ns)]
					x.neg = y.neg
				}
				bind(x)
				tags["handle-bound-again"] = true
			}
		}
		for k := 0; k < 1+r.Intn(4); k++ {
			x := sts[r.Intn(ns)]
			if !x.bound {
				continue
			}
			n := 1 + r.Intn(12)
			o := wopJ{K: "run", S: x.s, Prof2: prof2, SSRC: x.ssrc, Seq: x.seq, CSRC: r.Intn(2), Size: r.Intn(1200), Now: now,
				DNow: int64(1 + r.Intn(2000000)), N: n, Exts: others(x)}
			switch {
			case x.neg != 0 && r.Intn(10) != 0:
				o.TwID = uint8(x.neg) //nolint:gosec
				o.Twcc = tseq0 + uint16(tcnt) //nolint:gosec
				tcnt += n
			case x.neg != 0:
				tags["twcc-stream-without-extension"] = true
				if r.Intn(2) == 0 { // present but too short
					o.K, o.N = "send", 1
					n = 1
					o.Exts = append([]extJ{{ID: uint8(x.neg), P: payload(1)}}, o.Exts...) //nolint:gosec
				}
			}
			ops = append(ops, o)
			x.seq += uint16(n) //nolint:gosec
			x.n += n
			now += int64(n) * o.DNow
		}
		now += int64(r.Intn(50000000))
		for rd := 0; rd < 1+r.Intn(3); rd++ {
			var pkts []opJ
			for len(pkts) == 0 || (r.Intn(5) == 0 && len(pkts) < 3) {
				switch r.Intn(8) {
				case 0:
					pkts = append(pkts, opJ{K: "other"})
				case 1, 2, 3:
					if tcnt == 0 {
						pkts = append(pkts, opJ{K: "other"})

						continue
					}
					off := r.Intn(tcnt) - r.Intn(3)
					if tcnt > 30 && r.Intn(2) == 0 {
						off = tcnt - 1 - r.Intn(30)
					}
					base := tseq0 + uint16(off) //nolint:gosec
					if r.Intn(3) == 0 {
						for _, raw := range recorderTWCC(r, base, 3+r.Intn(30)) {
							pkts = append(pkts, opJ{K: "twcc", Raw: hex.EncodeToString(raw)})
							tags["twcc-recorder"] = true
						}
					} else if raw, t := handTWCC(r, base, 1+r.Intn(30), r.Intn(4) == 0); raw != nil {
						pkts = append(pkts, opJ{K: "twcc", Raw: hex.EncodeToString(raw)})
						for _, x := range t {
							tags[x] = true
						}
					}
				case 4: // feedback about a number that only a decoy element holds
					if len(decoys) == 0 {
						pkts = append(pkts, opJ{K: "other"})

						continue
					}
					d := decoys[r.Intn(len(decoys))]
					if raw, _ := handTWCC(r, d-uint16(r.Intn(2)), 1+r.Intn(3), false); raw != nil { //nolint:gosec
						pkts = append(pkts, opJ{K: "twcc", Raw: hex.EncodeToString(raw)})
						tags["feedback-about-decoy-number"] = true
					}
				default:
					var ss []stream
					for _, x := range sts {
						if x.n > 0 && (x.neg == 0 || r.Intn(3) == 0) {
							back := r.Intn(x.n)
							if back > 30 {
								back = r.Intn(30)
							}
							ss = append(ss, stream{ssrc: x.ssrc, first: x.seq - uint16(back) - 1, n: back + 1 + r.Intn(3)}) //nolint:gosec
						}
					}
					if len(ss) == 0 {
						pkts = append(pkts, opJ{K: "other"})

						continue
					}
					var raw []byte
					if r.Intn(2) == 0 {
						raw = recorderCCFBAt(r, ss, now)
					} else {
						raw = handCCFBAt(r, ss, now)
					}
					if raw != nil {
						pkts = append(pkts, opJ{K: "ccfb", Raw: hex.EncodeToString(raw)})
						tags["ccfb"] = true
					}
				}
			}
			if len(pkts) > 3 {
				pkts = pkts[:3]
			}
			ops = append(ops, wopJ{K: "read", Now: now, Pkts: pkts})
			now += int64(r.Intn(20000000))
		}
	}
	// at the end everything really numbered is acknowledged
	if tcnt > 0 && tcnt < 400 {
		fb := &rtcp.TransportLayerCC{
			SenderSSRC: 1, MediaSSRC: 2, BaseSequenceNumber: tseq0, PacketStatusCount: uint16(tcnt), //nolint:gosec
			ReferenceTime: uint32(r.Intn(1 << 20)), FbPktCount: 1, //nolint:gosec
			PacketChunks: []rtcp.PacketStatusChunk{&rtcp.RunLengthChunk{
				Type: rtcp.TypeTCCRunLengthChunk, PacketStatusSymbol: rtcp.TypeTCCPacketReceivedSmallDelta, RunLength: uint16(tcnt), //nolint:gosec
			}},
		}
		for i := 0; i < tcnt; i++ {
			fb.RecvDeltas = append(fb.RecvDeltas, mkDelta(r, rtcp.TypeTCCPacketReceivedSmallDelta))
		}
		if raw := marshalTWCC(fb); raw != nil {
			ops = append(ops, wopJ{K: "read", Now: now, Pkts: []opJ{{K: "twcc", Raw: hex.EncodeToString(raw)}}})
		}
	}
	out := []string{}
	for t := range tags {
		out = append(out, t)
	}

	return ops, out
}
