// Generator for C09: feedback decoding (internal/cc FeedbackAdapter, pkg/rtpfb).
package main

import (
	"encoding/hex"
	"fmt"
	"math/big"
	"math/rand"
	"strings"
	"time"

	"github.com/pion/interceptor"
	"github.com/pion/interceptor/pkg/rfc8888"
	"github.com/pion/interceptor/pkg/rtpfb"
	"github.com/pion/interceptor/pkg/twcc"
	"github.com/pion/interceptor/pkg/verifhooks"
	"github.com/pion/rtcp"
	"github.com/pion/rtp"

	"verifharness/internal/cq"
)

// ---------- time ----------

var zeroUnix = time.Time{}.Unix()

// tz prints a time.Time as nanoseconds since Go's zero Time.
func tz(t time.Time) string {
	if t.IsZero() {
		return "0"
	}
	b := big.NewInt(t.Unix() - zeroUnix)
	b.Mul(b, big.NewInt(1000000000))
	b.Add(b, big.NewInt(int64(t.Nanosecond())))

	return b.String()
}

func zs(s string) string {
	if strings.HasPrefix(s, "-") {
		return "(" + s + ")"
	}

	return s
}

func at(ns int64) time.Time { return time.Time{}.Add(time.Duration(ns)) }

// ---------- cc cases ----------

type opJ struct {
	K string `json:"k"` // sent | run | twcc | ccfb
	// sent / run
	ExtID uint8  `json:"extid,omitempty"` // value under TwccExtensionAttributesKey (0 = not set)
	Ext   int    `json:"ext,omitempty"`   // header carries: 0 no TWCC extension, 1 a 2-byte one, 2 a 1-byte (unparsable) one
	Twcc  uint16 `json:"twcc,omitempty"`
	SSRC  uint32 `json:"ssrc,omitempty"`
	Seq   uint16 `json:"seq,omitempty"`
	CSRC  int    `json:"csrc,omitempty"`
	Size  int    `json:"size,omitempty"`
	Dep   int64  `json:"dep,omitempty"` // ns since the zero Time
	DDep  int64  `json:"ddep,omitempty"`
	N     int    `json:"n,omitempty"`
	// feedback: marshalled RTCP packet, or (hand-written witnesses) its structured form
	Raw string `json:"raw,omitempty"`
	TW  *twJ   `json:"tw,omitempty"`
	CF  *cfJ   `json:"cf,omitempty"`
}

// twJ is a TransportLayerCC written by hand: chunks are {"rl":[symbol,run]} or
// {"sv":[symbols...]} (14 symbols = one-bit, 7 = two-bit); deltas in units of 250 us.
type twJ struct {
	Base   uint16               `json:"base"`
	Count  uint16               `json:"count"`
	Ref    uint32               `json:"ref"`
	Chunks []map[string][]int64 `json:"chunks"`
	Deltas []int64              `json:"deltas"`
}

// cfJ is a CCFeedbackReport written by hand: metric blocks are -1 (not
// received) or ECN*8192+ATO.
type cfJ struct {
	TS     uint32 `json:"ts"`
	Blocks []struct {
		SSRC  uint32  `json:"ssrc"`
		Begin uint16  `json:"begin"`
		MBs   []int64 `json:"mbs"`
	} `json:"blocks"`
}

func (o opJ) rawBytes() []byte {
	switch {
	case o.Raw != "":
		raw, err := hex.DecodeString(o.Raw)
		if err != nil {
			panic(err)
		}

		return raw
	case o.TW != nil:
		fb := &rtcp.TransportLayerCC{SenderSSRC: 1, MediaSSRC: 2, BaseSequenceNumber: o.TW.Base,
			PacketStatusCount: o.TW.Count, ReferenceTime: o.TW.Ref}
		var syms []uint16
		for _, c := range o.TW.Chunks {
			if rl, ok := c["rl"]; ok {
				fb.PacketChunks = append(fb.PacketChunks, &rtcp.RunLengthChunk{
					Type: rtcp.TypeTCCRunLengthChunk, PacketStatusSymbol: uint16(rl[0]), RunLength: uint16(rl[1]), //nolint:gosec
				})
				for i := int64(0); i < rl[1] && len(syms) < int(o.TW.Count); i++ {
					syms = append(syms, uint16(rl[0])) //nolint:gosec
				}
			} else {
				sv := c["sv"]
				l := make([]uint16, len(sv))
				for i, x := range sv {
					l[i] = uint16(x) //nolint:gosec
				}
				size := uint16(rtcp.TypeTCCSymbolSizeTwoBit)
				if len(sv) == 14 {
					size = rtcp.TypeTCCSymbolSizeOneBit
				}
				fb.PacketChunks = append(fb.PacketChunks, &rtcp.StatusVectorChunk{
					Type: rtcp.TypeTCCStatusVectorChunk, SymbolSize: size, SymbolList: l,
				})
				syms = append(syms, l...)
			}
		}
		k := 0
		for _, sy := range syms {
			if isDelta(sy) {
				if k >= len(o.TW.Deltas) {
					panic("witness has too few deltas")
				}
				fb.RecvDeltas = append(fb.RecvDeltas, &rtcp.RecvDelta{Type: sy, Delta: o.TW.Deltas[k] * 250})
				k++
			}
		}
		raw := marshalTWCC(fb)
		if raw == nil {
			panic("witness feedback is refused by the parser")
		}

		return raw
	case o.CF != nil:
		fb := &rtcp.CCFeedbackReport{SenderSSRC: 3, ReportTimestamp: o.CF.TS}
		for _, b := range o.CF.Blocks {
			rb := rtcp.CCFeedbackReportBlock{MediaSSRC: b.SSRC, BeginSequence: b.Begin}
			for _, m := range b.MBs {
				mb := rtcp.CCFeedbackMetricBlock{}
				if m >= 0 {
					mb = rtcp.CCFeedbackMetricBlock{Received: true, ECN: rtcp.ECN(m / 8192), ArrivalTimeOffset: uint16(m % 8192)} //nolint:gosec
				}
				rb.MetricBlocks = append(rb.MetricBlocks, mb)
			}
			fb.ReportBlocks = append(fb.ReportBlocks, rb)
		}
		raw := marshalCCFB(fb)
		if raw == nil {
			panic("witness feedback is refused by the parser")
		}

		return raw
	}
	panic("feedback op without packet")
}

type ackJ struct {
	Seq  uint16 `json:"seq"`
	SSRC uint32 `json:"ssrc"`
	Size int    `json:"size"`
	Dep  string `json:"dep"`
	Arr  string `json:"arr"`
	ECN  uint8  `json:"ecn"`
}

type outJ struct {
	Err  int    `json:"err"`
	Acks []ackJ `json:"acks"`
}

type ccCase struct {
	Ops  []opJ   `json:"ops"`
	Errs []int64 `json:"errs"`
	Outs []outJ  `json:"outs"`
	coq  []string
	info map[string]bool
}

func header(o opJ, i int) rtp.Header {
	h := rtp.Header{Version: 2, SSRC: o.SSRC, SequenceNumber: o.Seq + uint16(i)} //nolint:gosec
	for k := 0; k < o.CSRC; k++ {
		h.CSRC = append(h.CSRC, uint32(k+1)) //nolint:gosec
	}
	id := o.ExtID
	if id == 0 {
		id = 5
	}
	tw := o.Twcc + uint16(i) //nolint:gosec
	switch o.Ext {
	case 1:
		_ = h.SetExtension(id, []byte{byte(tw >> 8), byte(tw)})
	case 2:
		_ = h.SetExtension(id, []byte{byte(tw)})
	}

	return h
}

func ackTerm(a ackJ) string {
	if a == (ackJ{Dep: "0", Arr: "0"}) {
		return "(-1)"
	}
	return strings.Join([]string{cq.ZU(uint64(a.Seq)), cq.ZU(uint64(a.SSRC)), cq.Z(int64(a.Size)), zs(a.Dep), zs(a.Arr),
		cq.ZU(uint64(a.ECN))}, "; ")
}

func toAckJ(as []verifhooks.Acknowledgment) []ackJ {
	out := make([]ackJ, len(as))
	for i, a := range as {
		out[i] = ackJ{Seq: a.SequenceNumber, SSRC: a.SSRC, Size: a.Size, Dep: tz(a.Departure), Arr: tz(a.Arrival), ECN: uint8(a.ECN)}
	}

	return out
}

func chunkTerms(fb *rtcp.TransportLayerCC) (string, string) {
	cs := []string{}
	for _, pc := range fb.PacketChunks {
		switch c := pc.(type) {
		case *rtcp.RunLengthChunk:
			cs = append(cs, cq.C("RL", cq.ZU(uint64(c.PacketStatusSymbol)), cq.ZU(uint64(c.RunLength))))
		case *rtcp.StatusVectorChunk:
			ss := make([]int64, len(c.SymbolList))
			for i, s := range c.SymbolList {
				ss[i] = int64(s)
			}
			cs = append(cs, cq.C("SV", cq.LZ(ss)))
		}
	}
	ds := make([]int64, len(fb.RecvDeltas))
	for i, d := range fb.RecvDeltas {
		ds[i] = d.Delta
	}

	return cq.L(cs), cq.LZ(ds)
}

func twccTerm(fb *rtcp.TransportLayerCC) string {
	cs, ds := chunkTerms(fb)

	return cq.C("Op", cq.C("FbTwcc", cq.ZU(uint64(fb.BaseSequenceNumber)), cq.ZU(uint64(fb.PacketStatusCount)),
		cq.ZU(uint64(fb.ReferenceTime)), cs, ds))
}

func blocksTerm(fb *rtcp.CCFeedbackReport) string {
	bs := []string{}
	for _, rb := range fb.ReportBlocks {
		ms := make([]int64, len(rb.MetricBlocks))
		for i, mb := range rb.MetricBlocks {
			ms[i] = -1
			if mb.Received {
				ms[i] = int64(mb.ECN)*8192 + int64(mb.ArrivalTimeOffset)
			}
		}
		bs = append(bs, cq.T(cq.ZU(uint64(rb.MediaSSRC)), cq.ZU(uint64(rb.BeginSequence)), cq.LZ(ms)))
	}

	return cq.L(bs)
}

func ccfbTerm(fb *rtcp.CCFeedbackReport) string {
	return cq.C("CFb", cq.ZU(uint64(fb.ReportTimestamp)), blocksTerm(fb))
}

// parse returns the single feedback packet of a marshalled RTCP buffer (nil if the parser refuses it).
func parse(raw []byte) rtcp.Packet {
	pkts, err := rtcp.Unmarshal(raw)
	if err != nil || len(pkts) != 1 {
		return nil
	}

	return pkts[0]
}

// ccInst is one FeedbackAdapter.
type ccInst struct {
	ad *verifhooks.FeedbackAdapter
}

// do performs one compact operation on the adapter.  terms: its Coq term; n: how many
// (expanded) operations it stands for; errs: offsets (below n) of OnSent calls that returned
// an error; out: the answer of a feedback operation.
func (x *ccInst) do(o opJ, info map[string]bool) (term string, n int, errs []int, out *outJ) {
	send := func(o opJ, i int) {
		h := header(o, i)
		attrs := interceptor.Attributes{}
		if o.ExtID != 0 {
			attrs.Set(verifhooks.TwccExtensionAttributesKey, o.ExtID)
		}
		size := o.Size
		if o.K == "run" {
			size += i % 5
		}
		if err := x.ad.OnSent(at(o.Dep+int64(i)*o.DDep), &h, size, attrs); err != nil {
			errs = append(errs, i)
		}
	}
	switch o.K {
	case "sent":
		h := header(o, 0)
		tw := cq.None
		if o.Ext == 1 {
			tw = cq.Some(cq.ZU(uint64(o.Twcc)))
		}
		term = cq.C("Op", cq.C("Sent", cq.ZU(uint64(o.ExtID)), tw, cq.ZU(uint64(o.SSRC)),
			cq.ZU(uint64(o.Seq)), cq.Z(int64(h.MarshalSize())), cq.Z(int64(o.Size)), cq.Z(o.Dep)))
		send(o, 0)

		return term, 1, errs, nil
	case "run":
		h := header(o, 0)
		term = cq.C("SentRun", cq.ZU(uint64(o.ExtID)), cq.ZU(uint64(o.SSRC)), cq.ZU(uint64(o.Seq)),
			cq.ZU(uint64(o.Twcc)), cq.Z(int64(h.MarshalSize())), cq.Z(int64(o.Size)), cq.Z(o.Dep), cq.Z(o.DDep),
			cq.Z(int64(o.N)))
		for i := 0; i < o.N; i++ {
			send(o, i)
		}
		if o.N > 250 {
			info["run>250"] = true
		}

		return term, o.N, errs, nil
	case "twcc", "ccfb":
		raw := o.rawBytes()
		switch fb := parse(raw).(type) {
		case *rtcp.TransportLayerCC:
			acks, err := x.ad.OnTransportCCFeedback(time.Time{}, fb)
			res := outJ{Acks: toAckJ(acks)}
			if err != nil {
				res.Err = 1
				info["twcc-error"] = true
			}

			return twccTerm(fb), 1, nil, &res
		case *rtcp.CCFeedbackReport:
			acks := x.ad.OnRFC8888Feedback(time.Time{}, fb)

			return ccfbTerm(fb), 1, nil, &outJ{Acks: toAckJ(acks)}
		default:
			panic("replay holds feedback the parser refuses: " + o.Raw)
		}
	}
	panic("unknown cc operation " + o.K)
}

// runCC drives the real FeedbackAdapter.
func runCC(ops []opJ) (c ccCase, panicked string) {
	c = ccCase{Ops: ops, Errs: []int64{}, Outs: []outJ{}, info: map[string]bool{}}
	defer func() {
		if r := recover(); r != nil {
			panicked = fmt.Sprint(r)
		}
	}()
	x := &ccInst{ad: verifhooks.NewFeedbackAdapter()}
	idx := int64(0)
	for _, o := range ops {
		term, n, errs, out := x.do(o, c.info)
		c.coq = append(c.coq, term)
		for _, e := range errs {
			c.Errs = append(c.Errs, idx+int64(e))
		}
		idx += int64(n)
		if out != nil {
			c.Outs = append(c.Outs, *out)
		}
	}

	return c, ""
}

// ---------- several FeedbackAdapters, interleaved ----------

type mopJ struct {
	I int `json:"i"` // the adapter the operation is performed on
	opJ
}

type mccCase struct {
	Adapters int     `json:"adapters"`
	Ops      []mopJ  `json:"ops"`
	Errs     []int64 `json:"errs"`
	Outs     []outJ  `json:"outs"`
	coq      []string
	info     map[string]bool
}

func runCCMulti(nad int, ops []mopJ) (c mccCase, panicked string) {
	c = mccCase{Adapters: nad, Ops: ops, Errs: []int64{}, Outs: []outJ{}, info: map[string]bool{}}
	defer func() {
		if r := recover(); r != nil {
			panicked = fmt.Sprint(r)
		}
	}()
	var insts []*ccInst
	for i := 0; i < nad; i++ {
		insts = append(insts, &ccInst{ad: verifhooks.NewFeedbackAdapter()})
	}
	idx := int64(0)
	for _, o := range ops {
		term, n, errs, out := insts[o.I].do(o.opJ, c.info)
		c.coq = append(c.coq, cq.T(cq.Z(int64(o.I)), term))
		for _, e := range errs {
			c.Errs = append(c.Errs, idx+int64(e))
		}
		idx += int64(n)
		if out != nil {
			c.Outs = append(c.Outs, *out)
		}
	}

	return c, ""
}

func (c mccCase) toCase(buckets ...string) cq.Case {
	cc := ccCase{Errs: c.Errs, Outs: c.Outs, coq: c.coq, info: c.info}
	k := cc.toCase(buckets...)
	k.JSON = c

	return k
}

func (c ccCase) toCase(buckets ...string) cq.Case {
	outs := make([]string, len(c.Outs))
	nacks := 0
	for i, o := range c.Outs {
		as := make([]string, len(o.Acks))
		for k, a := range o.Acks {
			as[k] = ackTerm(a)
			if a.Size != 0 {
				nacks++
			}
		}
		outs[i] = cq.T(cq.Z(int64(o.Err)), cq.L(as))
	}
	for b := range c.info {
		buckets = append(buckets, b)
	}

	return cq.Case{
		Coq:  cq.T(cq.L(c.coq), cq.LZ(c.Errs), cq.L(outs)),
		JSON: c, Buckets: buckets, Trivial: nacks == 0,
	}
}

// ---------- rtpfb cases ----------

const transportCCURI = "http://www.ietf.org/id/draft-holmer-rmcat-transport-wide-cc-extensions-01"

var tbase = func() *big.Int {
	b := big.NewInt(1700000000 - zeroUnix)

	return b.Mul(b, big.NewInt(1000000000))
}()

// tenc prints a time for the rtpfb cases: 2*t, or 2*(t-TBASE)+1 for present-day instants.
func tenc(t time.Time) string {
	if t.IsZero() {
		return "0"
	}
	v, _ := new(big.Int).SetString(tz(t), 10)
	lim := new(big.Int).Sub(tbase, big.NewInt(1000000000000000))
	if v.Cmp(lim) >= 0 {
		v.Sub(v, tbase).Mul(v, big.NewInt(2)).Add(v, big.NewInt(1))
	} else {
		v.Mul(v, big.NewInt(2))
	}

	return zs(v.String())
}

type ropJ struct {
	K string `json:"k"` // send | run | read
	// send / run
	TW   bool   `json:"tw,omitempty"`  // stream negotiated the TWCC extension
	Ext  int    `json:"ext,omitempty"` // header carries: 0 none, 1 two-byte TWCC extension, 2 one-byte (unparsable)
	Twcc uint16 `json:"twcc,omitempty"`
	SSRC uint32 `json:"ssrc,omitempty"`
	Seq  uint16 `json:"seq,omitempty"`
	CSRC int    `json:"csrc,omitempty"`
	Size int    `json:"size,omitempty"` // payload length
	Now  int64  `json:"now,omitempty"`  // Unix ns returned by the time factory
	DNow int64  `json:"dnow,omitempty"`
	N    int    `json:"n,omitempty"`
	// read: the RTCP packets of the compound that is read (k = twcc | ccfb | other)
	Pkts []opJ `json:"pkts,omitempty"`
}

type repJ struct {
	SSRC    uint32 `json:"ssrc"`
	Ctr     uint64 `json:"ctr"`
	Seq     uint16 `json:"seq"`
	IsTWCC  bool   `json:"istwcc"`
	Twcc    uint16 `json:"twcc"`
	Size    int    `json:"size"`
	Dep     string `json:"dep"`
	Arrived bool   `json:"arrived"`
	Arr     string `json:"arr"`
	ECN     uint8  `json:"ecn"`
	coq     string
}

type fbCase struct {
	Ops  []ropJ    `json:"ops"`
	Outs [][]repJ  `json:"outs"`
	coq  []string
	info map[string]bool
}

func b01(b bool) string {
	if b {
		return "1"
	}

	return "0"
}

func fbpktTerm(p rtcp.Packet) string {
	switch fb := p.(type) {
	case *rtcp.TransportLayerCC:
		cs, ds := chunkTerms(fb)

		return cq.C("FTw", cq.ZU(uint64(fb.BaseSequenceNumber)), cq.ZU(uint64(fb.PacketStatusCount)),
			cq.ZU(uint64(fb.ReferenceTime)), cs, ds)
	case *rtcp.CCFeedbackReport:
		return cq.C("FCf", cq.ZU(uint64(fb.ReportTimestamp)), "(map rb_of "+blocksTerm(fb)+")")
	default:
		return "FOther"
	}
}

func (o opJ) packetBytes() []byte {
	if o.K == "other" {
		raw, err := (&rtcp.SenderReport{SSRC: 99, NTPTime: 1, RTPTime: 2, PacketCount: 3, OctetCount: 4}).Marshal()
		if err != nil {
			panic(err)
		}

		return raw
	}

	return o.rawBytes()
}

// fbInst is one rtpfb interceptor built by a factory, with its bound streams and RTCP reader.
type fbInst struct {
	ic      interceptor.Interceptor
	cur     *time.Time // the clock of the factory (timeFactory option)
	writers map[fbSKey]interceptor.RTPWriter
	reader  interceptor.RTCPReader
	curRaw  []byte
}

type fbSKey struct {
	ssrc uint32
	tw   bool
}

// newFBFactory builds an rtpfb factory whose interceptors read the returned clock.
func newFBFactory() (*rtpfb.InterceptorFactory, *time.Time) {
	cur := new(time.Time)
	f, err := rtpfb.NewInterceptor(rtpfb.VerifTimeFactory(func() time.Time { return *cur }))
	if err != nil {
		panic(err)
	}

	return f, cur
}

func newFBInst(f *rtpfb.InterceptorFactory, cur *time.Time, id string) *fbInst {
	ic, err := f.NewInterceptor(id)
	if err != nil {
		panic(err)
	}
	x := &fbInst{ic: ic, cur: cur, writers: map[fbSKey]interceptor.RTPWriter{}}
	x.reader = ic.BindRTCPReader(interceptor.RTCPReaderFunc(
		func(b []byte, a interceptor.Attributes) (int, interceptor.Attributes, error) {
			return copy(b, x.curRaw), a, nil
		}))

	return x
}

func (x *fbInst) writer(ssrc uint32, tw bool) interceptor.RTPWriter {
	if w, ok := x.writers[fbSKey{ssrc, tw}]; ok {
		return w
	}
	info := &interceptor.StreamInfo{SSRC: ssrc}
	if tw {
		info.RTPHeaderExtensions = []interceptor.RTPHeaderExtension{{URI: transportCCURI, ID: 5}}
	}
	w := x.ic.BindLocalStream(info, interceptor.RTPWriterFunc(
		func(_ *rtp.Header, p []byte, _ interceptor.Attributes) (int, error) { return len(p), nil }))
	x.writers[fbSKey{ssrc, tw}] = w

	return w
}

func (x *fbInst) send(o ropJ, i int) (hsize int) {
	h := header(opJ{ExtID: 5, Ext: o.Ext, Twcc: o.Twcc, SSRC: o.SSRC, Seq: o.Seq, CSRC: o.CSRC}, i)
	*x.cur = time.Unix(0, o.Now+int64(i)*o.DNow)
	size := o.Size
	if o.K == "run" {
		size += i % 5
	}
	if _, err := x.writer(o.SSRC, o.TW).Write(&h, make([]byte, size), nil); err != nil {
		panic(err)
	}

	return h.MarshalSize()
}

// do performs one operation on the instance: the Coq term of the operation and, for a read,
// the PacketReports of the Report attribute.
func (x *fbInst) do(o ropJ, info map[string]bool) (term string, out []repJ, isRead bool) {
	switch o.K {
	case "send":
		hs := x.send(o, 0)
		ext := cq.None
		if o.Ext == 1 {
			ext = cq.Some(cq.ZU(uint64(o.Twcc)))
		}

		return cq.C("RS", cq.B(o.TW), ext, cq.ZU(uint64(o.SSRC)), cq.ZU(uint64(o.Seq)),
			cq.Z(int64(hs+o.Size)), tenc(time.Unix(0, o.Now))), nil, false
	case "run":
		hs := 0
		for i := 0; i < o.N; i++ {
			hs = x.send(o, i)
		}

		return cq.C("RRun", cq.B(o.TW), cq.ZU(uint64(o.SSRC)), cq.ZU(uint64(o.Seq)),
			cq.ZU(uint64(o.Twcc)), cq.Z(int64(hs+o.Size)), tenc(time.Unix(0, o.Now)), cq.Z(o.DNow), cq.Z(int64(o.N))), nil, false
	case "read":
		x.curRaw = nil
		var parsed []rtcp.Packet
		for _, p := range o.Pkts {
			raw := p.packetBytes()
			pk := parse(raw)
			if pk == nil {
				panic("read holds a packet the parser refuses")
			}
			parsed = append(parsed, pk)
			x.curRaw = append(x.curRaw, raw...)
		}
		*x.cur = time.Unix(0, o.Now)
		now := tenc(*x.cur)
		if len(parsed) == 1 {
			switch fb := parsed[0].(type) {
			case *rtcp.TransportLayerCC:
				cs, ds := chunkTerms(fb)
				term = cq.C("RTw", now, cq.ZU(uint64(fb.BaseSequenceNumber)),
					cq.ZU(uint64(fb.PacketStatusCount)), cq.ZU(uint64(fb.ReferenceTime)), cs, ds)
			case *rtcp.CCFeedbackReport:
				term = cq.C("RCf", now, cq.ZU(uint64(fb.ReportTimestamp)), blocksTerm(fb))
			default:
				term = cq.C("RMulti", now, "[FOther]")
				info["read-without-feedback"] = true
			}
		} else {
			ts := make([]string, len(parsed))
			for i, pk := range parsed {
				ts[i] = fbpktTerm(pk)
			}
			term = cq.C("RMulti", now, cq.L(ts))
			info["compound"] = true
		}
		buf := make([]byte, 70000)
		_, attr, err := x.reader.Read(buf[:len(x.curRaw)], nil)
		if err != nil {
			panic(err)
		}
		out = []repJ{}
		if rep, ok := attr.Get(rtpfb.CCFBAttributesKey).(rtpfb.Report); ok {
			for _, p := range rep.PacketReports {
				r := repJ{SSRC: p.SSRC, Ctr: p.SequenceNumber, Seq: p.RTPSequenceNumber, IsTWCC: p.IsTWCC,
					Twcc: p.TWCCSequenceNumber, Size: p.Size, Dep: tz(p.Departure), Arrived: p.Arrived,
					Arr: tz(p.Arrival), ECN: uint8(p.ECN)}
				r.coq = strings.Join([]string{cq.ZU(uint64(p.SSRC)), cq.ZU(p.SequenceNumber), cq.ZU(uint64(p.RTPSequenceNumber)),
					b01(p.IsTWCC), cq.ZU(uint64(p.TWCCSequenceNumber)), cq.Z(int64(p.Size)), tenc(p.Departure),
					b01(p.Arrived), tenc(p.Arrival), cq.ZU(uint64(p.ECN))}, "; ")
				out = append(out, r)
			}
		}

		return term, out, true
	}
	panic("unknown rtpfb operation " + o.K)
}

// runFB drives the real rtpfb interceptor through its public interface.
func runFB(ops []ropJ) (c fbCase, panicked string) {
	c = fbCase{Ops: ops, Outs: [][]repJ{}, info: map[string]bool{}}
	defer func() {
		if r := recover(); r != nil {
			panicked = fmt.Sprint(r)
		}
	}()
	f, cur := newFBFactory()
	x := newFBInst(f, cur, "")
	for _, o := range ops {
		term, out, isRead := x.do(o, c.info)
		c.coq = append(c.coq, term)
		if isRead {
			c.Outs = append(c.Outs, out)
		}
	}

	return c, ""
}

// ---------- several rtpfb interceptors (one or several factories), interleaved ----------

type mropJ struct {
	I int `json:"i"` // the interceptor the operation is performed on
	ropJ
}

type mfbCase struct {
	Fac  []int     `json:"fac"` // factory of every interceptor (interceptors with equal numbers share one factory)
	Ops  []mropJ   `json:"ops"`
	Outs [][]repJ  `json:"outs"`
	coq  []string
	info map[string]bool
}

// runFBMulti builds the factories and interceptors of the case and performs the interleaved
// operations, each on the interceptor it names.
func runFBMulti(fac []int, ops []mropJ) (c mfbCase, panicked string) {
	c = mfbCase{Fac: fac, Ops: ops, Outs: [][]repJ{}, info: map[string]bool{}}
	defer func() {
		if r := recover(); r != nil {
			panicked = fmt.Sprint(r)
		}
	}()
	type facT struct {
		f   *rtpfb.InterceptorFactory
		cur *time.Time
	}
	facs := map[int]facT{}
	var insts []*fbInst
	for i, fi := range fac {
		ft, ok := facs[fi]
		if !ok {
			f, cur := newFBFactory()
			ft = facT{f, cur}
			facs[fi] = ft
		}
		insts = append(insts, newFBInst(ft.f, ft.cur, fmt.Sprintf("pc%d", i)))
	}
	for _, o := range ops {
		term, out, isRead := insts[o.I].do(o.ropJ, c.info)
		c.coq = append(c.coq, cq.T(cq.Z(int64(o.I)), term))
		if isRead {
			c.Outs = append(c.Outs, out)
		}
	}

	return c, ""
}

func (c mfbCase) toCase(buckets ...string) cq.Case {
	outs := make([]string, len(c.Outs))
	nrep := 0
	for i, o := range c.Outs {
		rs := make([]string, len(o))
		for k, r := range o {
			rs[k] = r.coq
			nrep++
		}
		outs[i] = "[" + strings.Join(rs, "; ") + "]"
	}
	for b := range c.info {
		buckets = append(buckets, b)
	}

	return cq.Case{Coq: cq.T(cq.L(c.coq), cq.L(outs)), JSON: c, Buckets: buckets, Trivial: nrep == 0}
}

func (c fbCase) toCase(buckets ...string) cq.Case {
	outs := make([]string, len(c.Outs))
	nrep := 0
	for i, o := range c.Outs {
		rs := make([]string, len(o))
		for k, r := range o {
			rs[k] = r.coq
			nrep++
		}
		outs[i] = "[" + strings.Join(rs, "; ") + "]"
	}
	for b := range c.info {
		buckets = append(buckets, b)
	}

	return cq.Case{Coq: cq.T(cq.L(c.coq), cq.L(outs)), JSON: c, Buckets: buckets, Trivial: nrep == 0}
}

// ---------- feedback construction ----------

func marshalTWCC(fb *rtcp.TransportLayerCC) []byte {
	fb.Header = rtcp.Header{Count: rtcp.FormatTCC, Type: rtcp.TypeTransportSpecificFeedback}
	fb.Header.Length = uint16(fb.MarshalSize()/4 - 1) //nolint:gosec
	raw, err := fb.Marshal()
	if err != nil {
		return nil
	}
	if _, ok := parse(raw).(*rtcp.TransportLayerCC); !ok {
		return nil
	}

	return raw
}

func marshalCCFB(fb *rtcp.CCFeedbackReport) []byte {
	raw, err := fb.Marshal()
	if err != nil {
		return nil
	}
	if _, ok := parse(raw).(*rtcp.CCFeedbackReport); !ok {
		return nil
	}

	return raw
}

func mkDelta(r *rand.Rand, sym uint16) *rtcp.RecvDelta {
	if sym == rtcp.TypeTCCPacketReceivedSmallDelta {
		return &rtcp.RecvDelta{Type: sym, Delta: int64(r.Intn(256)) * 250}
	}
	v := int64(r.Intn(65536)) - 32768
	if r.Intn(3) == 0 {
		v = int64(r.Intn(600)) - 300
	}

	return &rtcp.RecvDelta{Type: sym, Delta: v * 250}
}

func isDelta(s uint16) bool {
	return s == rtcp.TypeTCCPacketReceivedSmallDelta || s == rtcp.TypeTCCPacketReceivedLargeDelta
}

// handTWCC builds structured feedback with every chunk type and symbol size.
// beyond: how the final chunk relates to the status count (0 exact where
// possible, 1 padded/longer than the count).
func handTWCC(r *rand.Rand, base uint16, want int, allowSym3 bool) (raw []byte, tags []string) {
	for try := 0; try < 20; try++ {
		fb := &rtcp.TransportLayerCC{SenderSSRC: 1, MediaSSRC: 2, BaseSequenceNumber: base,
			ReferenceTime: uint32(r.Intn(100)), FbPktCount: uint8(r.Intn(256))} //nolint:gosec
		if r.Intn(10) == 0 {
			fb.ReferenceTime = uint32(r.Intn(1 << 24)) //nolint:gosec
		}
		tagset := map[string]bool{}
		total := 0
		type cdesc struct {
			syms []uint16
			rl   bool
		}
		var cds []cdesc
		nsym := 4
		if !allowSym3 {
			nsym = 3
		}
		for total < want {
			switch r.Intn(3) {
			case 0:
				n := 1 + r.Intn(20)
				if r.Intn(8) == 0 {
					n = 1 + r.Intn(300)
				}
				s := uint16(r.Intn(nsym)) //nolint:gosec
				syms := make([]uint16, n)
				for i := range syms {
					syms[i] = s
				}
				fb.PacketChunks = append(fb.PacketChunks, &rtcp.RunLengthChunk{
					Type: rtcp.TypeTCCRunLengthChunk, PacketStatusSymbol: s, RunLength: uint16(n), //nolint:gosec
				})
				cds = append(cds, cdesc{syms, true})
				total += n
				tagset[fmt.Sprintf("rl-sym%d", s)] = true
			case 1:
				syms := make([]uint16, 14)
				for i := range syms {
					syms[i] = uint16(r.Intn(2)) //nolint:gosec
				}
				fb.PacketChunks = append(fb.PacketChunks, &rtcp.StatusVectorChunk{
					Type: rtcp.TypeTCCStatusVectorChunk, SymbolSize: rtcp.TypeTCCSymbolSizeOneBit, SymbolList: syms,
				})
				cds = append(cds, cdesc{syms, false})
				total += 14
				tagset["sv1"] = true
			default:
				syms := make([]uint16, 7)
				for i := range syms {
					syms[i] = uint16(r.Intn(nsym)) //nolint:gosec
				}
				fb.PacketChunks = append(fb.PacketChunks, &rtcp.StatusVectorChunk{
					Type: rtcp.TypeTCCStatusVectorChunk, SymbolSize: rtcp.TypeTCCSymbolSizeTwoBit, SymbolList: syms,
				})
				cds = append(cds, cdesc{syms, false})
				total += 7
				tagset["sv2"] = true
			}
		}
		last := cds[len(cds)-1]
		count := total
		switch r.Intn(3) {
		case 0: // the count ends inside the last chunk
			if len(last.syms) > 1 {
				count = total - 1 - r.Intn(len(last.syms)-1)
				if last.rl {
					tagset["rl-beyond-count"] = true
				} else {
					tagset["sv-padded"] = true
				}
			}
		case 1: // padded vector: symbols after the count are "not received" as real encoders write them
			if !last.rl && len(last.syms) > 1 {
				cut := 1 + r.Intn(len(last.syms)-1)
				for i := cut; i < len(last.syms); i++ {
					last.syms[i] = 0
				}
				count = total - (len(last.syms) - cut)
				tagset["sv-zero-padded"] = true
			}
		}
		fb.PacketStatusCount = uint16(count) //nolint:gosec
		// deltas exactly as the parser will expect them
		k := 0
		for _, cd := range cds {
			for _, s := range cd.syms {
				if isDelta(s) && (!cd.rl || k < count) {
					fb.RecvDeltas = append(fb.RecvDeltas, mkDelta(r, s))
				}
				k++
			}
		}
		if raw = marshalTWCC(fb); raw != nil {
			for t := range tagset {
				tags = append(tags, t)
			}

			return raw, tags
		}
	}

	return nil, nil
}

// recorderTWCC feeds an arrival history to the real twcc.Recorder.
func recorderTWCC(r *rand.Rand, first uint16, n int) [][]byte {
	rec := twcc.NewRecorder(7)
	t := int64(r.Intn(1000)) * 1000
	for i := 0; i < n; i++ {
		if r.Intn(5) == 0 { // lost
			continue
		}
		seq := first + uint16(i) //nolint:gosec
		switch r.Intn(6) {
		case 0:
			t += int64(r.Intn(200000)) // large gap
		case 1:
			t -= int64(r.Intn(3000)) // reordered arrival clock
		default:
			t += int64(r.Intn(3000))
		}
		rec.Record(9, seq, t)
		if r.Intn(10) == 0 { // duplicate
			rec.Record(9, seq, t+int64(r.Intn(500)))
		}
	}
	var out [][]byte
	for _, p := range rec.BuildFeedbackPacket() {
		raw, err := p.Marshal()
		if err != nil {
			continue
		}
		if _, ok := parse(raw).(*rtcp.TransportLayerCC); ok {
			out = append(out, raw)
		}
	}

	return out
}

type stream struct {
	ssrc  uint32
	first uint16
	n     int
}

// recorderCCFB feeds arrivals to the real rfc8888.Recorder.
func recorderCCFB(r *rand.Rand, streams []stream) []byte {
	rec := rfc8888.NewRecorder()
	t0 := time.Unix(1700000000+int64(r.Intn(100000)), int64(r.Intn(1000000000)))
	t := t0
	for _, s := range streams {
		for i := 0; i < s.n; i++ {
			if r.Intn(5) == 0 {
				continue
			}
			t = t.Add(time.Duration(r.Intn(3000)) * time.Microsecond)
			if r.Intn(40) == 0 {
				t = t.Add(time.Duration(r.Intn(9000)) * time.Millisecond)
			}
			rec.AddPacket(t, s.ssrc, s.first+uint16(i), uint8(r.Intn(4))) //nolint:gosec
		}
	}
	now := t.Add(time.Duration(r.Intn(50000)) * time.Microsecond)
	rep := rec.BuildReport(now, 1200+r.Intn(3000))
	if rep == nil {
		return nil
	}

	return marshalCCFB(rep)
}

// handCCFB builds report blocks by hand (overlaps, unknown SSRCs, ATO extremes).
func handCCFB(r *rand.Rand, streams []stream) []byte {
	fb := &rtcp.CCFeedbackReport{SenderSSRC: 3, ReportTimestamp: r.Uint32()}
	nb := 1 + r.Intn(3)
	for b := 0; b < nb; b++ {
		s := streams[r.Intn(len(streams))]
		if r.Intn(6) == 0 {
			s.ssrc += 1000 // unknown stream
		}
		begin := s.first + uint16(r.Intn(s.n+4)) - 2 //nolint:gosec
		n := r.Intn(s.n + 6)
		rb := rtcp.CCFeedbackReportBlock{MediaSSRC: s.ssrc, BeginSequence: begin}
		for i := 0; i < n; i++ {
			mb := rtcp.CCFeedbackMetricBlock{}
			if r.Intn(4) != 0 {
				mb.Received = true
				mb.ECN = rtcp.ECN(r.Intn(4)) //nolint:gosec
				switch r.Intn(8) {
				case 0:
					mb.ArrivalTimeOffset = 0x1FFF
				case 1:
					mb.ArrivalTimeOffset = 0x1FFE
				case 2:
					mb.ArrivalTimeOffset = 0
				default:
					mb.ArrivalTimeOffset = uint16(r.Intn(0x2000)) //nolint:gosec
				}
			}
			rb.MetricBlocks = append(rb.MetricBlocks, mb)
		}
		fb.ReportBlocks = append(fb.ReportBlocks, rb)
	}

	return marshalCCFB(fb)
}

// ---------- case generators ----------

func depStart(r *rand.Rand) int64 {
	// departure clock: anywhere from "just after the zero Time" to 285 years later (time.Duration range)
	if r.Intn(10) != 0 {
		return int64(r.Intn(1000))
	}

	return int64(9000000000)*1000000000 + int64(r.Intn(1000000000))
}

// genTWCC: one TWCC-keyed history with several feedback packets.
func genTWCC(r *rand.Rand) ([]opJ, []string) { return genTWCCOpt(r, nil) }

// genTWCCOpt: genTWCC with the first transport sequence number imposed.
func genTWCCOpt(r *rand.Rand, firstf *uint16) ([]opJ, []string) {
	var ops []opJ
	tags := map[string]bool{}
	first := uint16(r.Intn(65536)) //nolint:gosec
	switch r.Intn(4) {
	case 0:
		first = uint16(65536 - r.Intn(40)) //nolint:gosec
		tags["wrap"] = true
	case 1:
		first = uint16(r.Intn(3)) //nolint:gosec
	}
	if firstf != nil {
		first = *firstf
	}
	n := 5 + r.Intn(60)
	switch r.Intn(6) {
	case 0:
		n = 240 + r.Intn(30) // around the history size
		tags["near-250"] = true
	case 1:
		n = 300 + r.Intn(200) // more in flight than the history holds
		tags["over-250"] = true
	}
	dep := depStart(r)
	ext := uint8(1 + r.Intn(14)) //nolint:gosec
	holes := r.Intn(3) == 0
	if holes { // individual sends, some sequence numbers never sent
		for i := 0; i < n && i < 80; i++ {
			if r.Intn(5) == 0 {
				tags["unsent-holes"] = true

				continue
			}
			o := opJ{K: "sent", ExtID: ext, Ext: 1, Twcc: first + uint16(i), SSRC: uint32(r.Intn(3)), //nolint:gosec
				Seq: uint16(r.Intn(65536)), CSRC: r.Intn(3), Size: 1 + r.Intn(1400), Dep: dep} //nolint:gosec
			if r.Intn(25) == 0 {
				o.Ext = []int{0, 2}[r.Intn(2)] // missing / unparsable extension
				tags["sent-error"] = true
			}
			dep += int64(r.Intn(2000))
			ops = append(ops, o)
		}
		if n > 80 {
			n = 80
		}
	} else {
		ops = append(ops, opJ{K: "run", ExtID: ext, Ext: 1, Twcc: first, SSRC: 77, Seq: uint16(r.Intn(65536)), //nolint:gosec
			CSRC: r.Intn(2), Size: 1 + r.Intn(1400), Dep: dep, DDep: int64(1 + r.Intn(2000)), N: n})
	}
	if r.Intn(6) == 0 { // re-send of an earlier transport sequence number (refreshes its LRU position)
		ops = append(ops, opJ{K: "sent", ExtID: ext, Ext: 1, Twcc: first + uint16(r.Intn(n)), SSRC: 77, //nolint:gosec
			Size: 1 + r.Intn(1400), Dep: dep + 5})
		tags["resend"] = true
	}
	nfb := 1 + r.Intn(3)
	for f := 0; f < nfb; f++ {
		// where the feedback starts relative to what was sent
		off := r.Intn(n)
		if n > 250 && r.Intn(2) == 0 {
			off = n - 250 - 10 + r.Intn(20) // around the eviction boundary
			tags["covers-evicted"] = true
		}
		switch r.Intn(8) {
		case 0:
			off = -3 - r.Intn(5) // before the first packet sent: unknown packets
			tags["covers-unknown-before"] = true
		case 1:
			off = n - 1 - r.Intn(4) // runs past the newest packet
			tags["covers-unknown-after"] = true
		}
		base := first + uint16(off) //nolint:gosec
		if r.Intn(3) == 0 {
			for _, raw := range recorderTWCC(r, base, 3+r.Intn(60)) {
				ops = append(ops, opJ{K: "twcc", Raw: hex.EncodeToString(raw)})
				tags["recorder"] = true
			}
		} else {
			raw, t := handTWCC(r, base, 1+r.Intn(50), r.Intn(4) == 0)
			if raw != nil {
				ops = append(ops, opJ{K: "twcc", Raw: hex.EncodeToString(raw)})
				for _, x := range t {
					tags[x] = true
				}
				if r.Intn(6) == 0 { // duplicated feedback
					ops = append(ops, opJ{K: "twcc", Raw: hex.EncodeToString(raw)})
					tags["duplicate-feedback"] = true
				}
			}
		}
		if r.Intn(4) == 0 { // more sends between feedback packets
			k := 1 + r.Intn(30)
			ops = append(ops, opJ{K: "run", ExtID: ext, Ext: 1, Twcc: first + uint16(n), SSRC: 77, //nolint:gosec
				Seq: uint16(r.Intn(65536)), Size: 1 + r.Intn(1400), Dep: dep + 1000000, DDep: 10, N: k}) //nolint:gosec
			n += k
		}
	}
	out := []string{}
	for t := range tags {
		out = append(out, t)
	}

	return ops, out
}

// genCCFB: several SSRCs keyed by (SSRC, RTP sequence number), RFC 8888 feedback.
func genCCFB(r *rand.Rand) ([]opJ, []string) { return genCCFBOpt(r, nil) }

// genCCFBOpt: genCCFB with the SSRCs (0, 1, ..) and the first RTP sequence number imposed.
func genCCFBOpt(r *rand.Rand, firstf *uint16) ([]opJ, []string) {
	var ops []opJ
	tags := map[string]bool{}
	ns := 1 + r.Intn(3)
	var streams []stream
	dep := depStart(r)
	var fam []uint32
	famSeq := uint16(r.Intn(65536)) //nolint:gosec
	if r.Intn(4) == 0 {
		var name string
		fam, name = ssrcFamily(r, ns)
		tags[name] = true
	}
	for s := 0; s < ns; s++ {
		st := stream{ssrc: uint32(r.Intn(4)), first: uint16(r.Intn(65536)), n: 3 + r.Intn(40)} //nolint:gosec
		if r.Intn(2) == 0 {
			st.ssrc = r.Uint32()
		}
		if fam != nil {
			st.ssrc, st.first = fam[s], famSeq
		}
		if r.Intn(4) == 0 {
			st.first = uint16(65536 - r.Intn(20)) //nolint:gosec
			tags["wrap"] = true
		}
		if r.Intn(8) == 0 {
			st.n = 200 + r.Intn(150)
			tags["over-250"] = true
		}
		if firstf != nil {
			st.ssrc, st.first = uint32(s), *firstf //nolint:gosec
		}
		streams = append(streams, st)
		ops = append(ops, opJ{K: "run", SSRC: st.ssrc, Seq: st.first, CSRC: r.Intn(2), Size: 1 + r.Intn(1400),
			Dep: dep, DDep: int64(1 + r.Intn(2000)), N: st.n})
		dep += 3000000
	}
	if r.Intn(4) == 0 { // a TWCC-keyed stream in the same adapter (key ssrc 0)
		ops = append(ops, opJ{K: "run", ExtID: 3, Ext: 1, Twcc: streams[0].first, SSRC: 5, Seq: 1, Size: 100, Dep: dep, DDep: 7, N: 10})
		tags["mixed-keyings"] = true
	}
	nfb := 1 + r.Intn(3)
	for f := 0; f < nfb; f++ {
		var raw []byte
		if r.Intn(2) == 0 {
			raw = recorderCCFB(r, streams)
			tags["recorder"] = true
		} else {
			raw = handCCFB(r, streams)
			tags["hand"] = true
		}
		if raw != nil {
			ops = append(ops, opJ{K: "ccfb", Raw: hex.EncodeToString(raw)})
		}
	}
	out := []string{}
	for t := range tags {
		out = append(out, t)
	}

	return ops, out
}

// genCCRefresh: a key is sent again (retransmission with the same (SSRC, seq), or the same TWCC
// number) after many other packets and is then followed by more packets, so that the number
// of distinct keys sent since its FIRST use exceeds the history size while the number since its
// LAST use does not: the history must still hold it (with the record of the last send).
func genCCRefresh(r *rand.Rand) ([]opJ, []string) {
	tw := r.Intn(2) == 0
	var ops []opJ
	dep := depStart(r)
	k := uint16(r.Intn(65536)) //nolint:gosec
	before := 150 + r.Intn(99) // distinct keys between first and second use
	after := 250 - before + r.Intn(before-10)
	if after > 248 {
		after = 248
	}
	one := func(seq uint16, size int) {
		if tw {
			ops = append(ops, opJ{K: "sent", ExtID: 5, Ext: 1, Twcc: seq, SSRC: 7, Seq: seq, Size: size, Dep: dep})
		} else {
			ops = append(ops, opJ{K: "sent", SSRC: 7, Seq: seq, Size: size, Dep: dep})
		}
		dep += 1000000
	}
	run := func(first uint16, n int) {
		if tw {
			ops = append(ops, opJ{K: "run", ExtID: 5, Ext: 1, Twcc: first, SSRC: 7, Seq: first, Size: 200, Dep: dep, DDep: 1000, N: n})
		} else {
			ops = append(ops, opJ{K: "run", SSRC: 7, Seq: first, Size: 200, Dep: dep, DDep: 1000, N: n})
		}
		dep += int64(n)*1000 + 1000000
	}
	one(k, 300)
	run(k+1, before)
	one(k, 900) // second use: refreshes the entry
	run(k+1+uint16(before), after) //nolint:gosec
	// feedback about k and its neighbours
	if tw {
		fb := &rtcp.TransportLayerCC{
			SenderSSRC: 1, MediaSSRC: 7, BaseSequenceNumber: k, PacketStatusCount: 2,
			ReferenceTime: uint32(r.Intn(1 << 20)), FbPktCount: 1, //nolint:gosec
			PacketChunks: []rtcp.PacketStatusChunk{&rtcp.RunLengthChunk{
				Type: rtcp.TypeTCCRunLengthChunk, PacketStatusSymbol: rtcp.TypeTCCPacketReceivedSmallDelta, RunLength: 2,
			}},
			RecvDeltas: []*rtcp.RecvDelta{mkDelta(r, rtcp.TypeTCCPacketReceivedSmallDelta), mkDelta(r, rtcp.TypeTCCPacketReceivedSmallDelta)},
		}
		if raw := marshalTWCC(fb); raw != nil {
			ops = append(ops, opJ{K: "twcc", Raw: hex.EncodeToString(raw)})
		}
	} else {
		fb := &rtcp.CCFeedbackReport{SenderSSRC: 3, ReportTimestamp: uint32(r.Intn(1 << 30))} //nolint:gosec
		rb := rtcp.CCFeedbackReportBlock{MediaSSRC: 7, BeginSequence: k}
		for i := 0; i < 2; i++ {
			rb.MetricBlocks = append(rb.MetricBlocks, rtcp.CCFeedbackMetricBlock{
				Received: true, ECN: rtcp.ECN(r.Intn(4)), ArrivalTimeOffset: uint16(r.Intn(0x1FFE)), //nolint:gosec
			})
		}
		fb.ReportBlocks = append(fb.ReportBlocks, rb)
		if raw := marshalCCFB(fb); raw != nil {
			ops = append(ops, opJ{K: "ccfb", Raw: hex.EncodeToString(raw)})
		}
	}
	tags := []string{"key-sent-again-keeps-its-place"}
	if tw {
		tags = append(tags, "twcc")
	} else {
		tags = append(tags, "ccfb")
	}

	return ops, tags
}

// genFB: a history for the rtpfb interceptor: TWCC-tracked and (SSRC, seq)-tracked streams,
// interleaved sends, reads with TWCC / CCFB / other RTCP, compounds, retransmissions.
func genFB(r *rand.Rand) ([]ropJ, []string) { return genFBOpt(r, nil, nil) }

// genFBOpt: genFB with the first TWCC number (tseq0f) and/or the first RTP sequence number of
// every stream (seq0f) imposed, so that several interceptors use the same numbers.
func genFBOpt(r *rand.Rand, tseq0f, seq0f *uint16) ([]ropJ, []string) {
	var ops []ropJ
	tags := map[string]bool{}
	type st struct {
		ssrc  uint32
		tw    bool
		seq   uint16
		first uint16
		n     int
	}
	ns := 1 + r.Intn(3)
	var streams []*st
	// SSRC bit patterns: small distinct numbers, or a family of SSRCs that differ in few bits
	// (then, mostly, every stream numbers its packets from the same RTP sequence number)
	var fam []uint32
	famSeq := -1
	if r.Intn(3) == 0 {
		var name string
		fam, name = ssrcFamily(r, ns)
		tags[name] = true
		if r.Intn(4) != 0 {
			famSeq = r.Intn(65536)
		}
	}
	for i := 0; i < ns; i++ {
		x := &st{ssrc: uint32(10 + i), tw: r.Intn(2) == 0, seq: uint16(r.Intn(65536))} //nolint:gosec
		if fam != nil {
			x.ssrc = fam[i]
			if r.Intn(3) != 0 {
				x.tw = false
			}
		}
		if r.Intn(4) == 0 {
			x.seq = uint16(65536 - r.Intn(30)) //nolint:gosec
			tags["rtp-wrap"] = true
		}
		if famSeq >= 0 {
			x.seq = uint16(famSeq) //nolint:gosec
		}
		if seq0f != nil {
			x.seq = *seq0f
		}
		x.first = x.seq
		streams = append(streams, x)
	}
	tseq0 := uint16(r.Intn(65536)) //nolint:gosec
	if r.Intn(3) == 0 {
		tseq0 = uint16(65536 - r.Intn(40)) //nolint:gosec
		tags["twcc-wrap"] = true
	}
	if tseq0f != nil {
		tseq0 = *tseq0f
	}
	tcnt := 0
	now := int64(1700000000)*1000000000 + int64(r.Intn(1000000))*1000
	phases := 1 + r.Intn(4)
	if r.Intn(5) == 0 { // a read before anything was acknowledged
		if r.Intn(2) == 0 {
			ops = append(ops, ropJ{K: "run", TW: streams[0].tw, Ext: 1, Twcc: tseq0, SSRC: streams[0].ssrc, Seq: streams[0].seq,
				Size: 100, Now: now, DNow: 1000, N: 2})
			if streams[0].tw {
				tcnt += 2
			}
			streams[0].seq += 2
			streams[0].n += 2
			now += 5000
		}
		ops = append(ops, ropJ{K: "read", Now: now, Pkts: []opJ{{K: "other"}}})
		tags["other-rtcp-first"] = true
	}
	for ph := 0; ph < phases; ph++ {
		for k := 0; k < 1+r.Intn(3); k++ {
			x := streams[r.Intn(len(streams))]
			n := 1 + r.Intn(25)
			o := ropJ{K: "run", TW: x.tw, SSRC: x.ssrc, Seq: x.seq, CSRC: r.Intn(2), Size: r.Intn(1200), Now: now,
				DNow: int64(1 + r.Intn(2000000)), N: n}
			if x.tw {
				o.Ext = 1
				o.Twcc = tseq0 + uint16(tcnt) //nolint:gosec
				tcnt += n
			}
			ops = append(ops, o)
			x.seq += uint16(n) //nolint:gosec
			x.n += n
			now += int64(n) * o.DNow
			if x.tw && r.Intn(12) == 0 { // TWCC stream, packet without the extension: tracked by (SSRC, seq)
				ops = append(ops, ropJ{K: "send", TW: true, Ext: []int{0, 2}[r.Intn(2)], SSRC: x.ssrc, Seq: x.seq, Size: 50, Now: now})
				x.seq++
				x.n++
				now += 1000
				tags["twcc-stream-without-extension"] = true
			}
			if !x.tw && x.n > 2 && r.Intn(6) == 0 { // retransmission with the same SSRC and sequence number
				ops = append(ops, ropJ{K: "send", SSRC: x.ssrc, Seq: x.seq - uint16(1+r.Intn(x.n-1)), Size: 60, Now: now}) //nolint:gosec
				now += 1000
				tags["retransmission-same-seq"] = true
			}
		}
		now += int64(r.Intn(50000000))
		nreads := 1 + r.Intn(3)
		for rd := 0; rd < nreads; rd++ {
			var pkts []opJ
			for len(pkts) == 0 || (r.Intn(5) == 0 && len(pkts) < 3) {
				switch r.Intn(7) {
				case 0:
					pkts = append(pkts, opJ{K: "other"})
				case 1, 2, 3:
					if tcnt == 0 {
						continue
					}
					off := r.Intn(tcnt) - r.Intn(3)
					if tcnt > 40 && r.Intn(2) == 0 {
						off = tcnt - 1 - r.Intn(40)
					}
					base := tseq0 + uint16(off) //nolint:gosec
					if r.Intn(3) == 0 {
						for _, raw := range recorderTWCC(r, base, 3+r.Intn(40)) {
							pkts = append(pkts, opJ{K: "twcc", Raw: hex.EncodeToString(raw)})
							tags["twcc-recorder"] = true
						}
					} else if raw, t := handTWCC(r, base, 1+r.Intn(40), r.Intn(4) == 0); raw != nil {
						pkts = append(pkts, opJ{K: "twcc", Raw: hex.EncodeToString(raw)})
						for _, x := range t {
							tags[x] = true
						}
					}
				default:
					var ss []stream
					for _, x := range streams {
						if !x.tw && x.n > 0 {
							back := r.Intn(x.n)
							if back > 40 {
								back = r.Intn(40)
							}
							ss = append(ss, stream{ssrc: x.ssrc, first: x.seq - uint16(back) - 1, n: back + 1 + r.Intn(3)}) //nolint:gosec
						}
					}
					if len(ss) == 0 {
						continue
					}
					var raw []byte
					if r.Intn(2) == 0 {
						raw = recorderCCFBAt(r, ss, now)
						tags["ccfb-recorder"] = true
					} else {
						raw = handCCFBAt(r, ss, now)
						tags["ccfb-hand"] = true
					}
					if raw != nil {
						pkts = append(pkts, opJ{K: "ccfb", Raw: hex.EncodeToString(raw)})
					}
				}
			}
			if len(pkts) > 3 {
				pkts = pkts[:3]
			}
			ops = append(ops, ropJ{K: "read", Now: now, Pkts: pkts})
			now += int64(r.Intn(20000000))
			if r.Intn(8) == 0 { // the same compound once more
				ops = append(ops, ropJ{K: "read", Now: now, Pkts: pkts})
				tags["duplicate-read"] = true
			}
		}
	}
	out := []string{}
	for t := range tags {
		out = append(out, t)
	}

	return ops, out
}

// genFBReuse: a sequence number (TWCC number, or RTP number of one SSRC) is used by two
// packets; the first is reported (and leaves the history) while the second is still
// unacknowledged; feedback for the number arrives afterwards and must be attributed to the
// second packet (the index entry of the number must survive the removal of the first).
func genFBReuse(r *rand.Rand) ([]ropJ, []string) {
	tw := r.Intn(2) == 0
	q := uint16(r.Intn(65536)) //nolint:gosec
	if r.Intn(3) == 0 {
		q = uint16(65535 - r.Intn(2)) //nolint:gosec
	}
	seq := uint16(r.Intn(65536)) //nolint:gosec
	now := int64(1700000000)*1000000000 + int64(r.Intn(1000000))*1000
	mid := 1 + r.Intn(4)
	var ops []ropJ
	send := func(tn, sn uint16) {
		o := ropJ{K: "send", TW: tw, SSRC: 10, Seq: sn, Size: 100 + r.Intn(900), Now: now}
		if tw {
			o.Ext = 1
			o.Twcc = tn
		}
		ops = append(ops, o)
		now += int64(1 + r.Intn(2000000))
	}
	// ack: one feedback packet saying "number n .. n+cnt-1 arrived"
	ack := func(n uint16, cnt int) {
		var raw []byte
		if tw {
			fb := &rtcp.TransportLayerCC{
				SenderSSRC: 1, MediaSSRC: 10, BaseSequenceNumber: n, PacketStatusCount: uint16(cnt), //nolint:gosec
				ReferenceTime: uint32(r.Intn(1 << 20)), FbPktCount: uint8(r.Intn(256)), //nolint:gosec
				PacketChunks: []rtcp.PacketStatusChunk{&rtcp.RunLengthChunk{
					Type: rtcp.TypeTCCRunLengthChunk, PacketStatusSymbol: rtcp.TypeTCCPacketReceivedSmallDelta, RunLength: uint16(cnt), //nolint:gosec
				}},
			}
			for i := 0; i < cnt; i++ {
				fb.RecvDeltas = append(fb.RecvDeltas, mkDelta(r, rtcp.TypeTCCPacketReceivedSmallDelta))
			}
			raw = marshalTWCC(fb)
			if raw != nil {
				ops = append(ops, ropJ{K: "read", Now: now, Pkts: []opJ{{K: "twcc", Raw: hex.EncodeToString(raw)}}})
			}
		} else {
			fb := &rtcp.CCFeedbackReport{SenderSSRC: 3,
				ReportTimestamp: verifhooks.ToNTP32(time.Unix(0, now-int64(r.Intn(100000000))))}
			rb := rtcp.CCFeedbackReportBlock{MediaSSRC: 10, BeginSequence: n}
			for i := 0; i < cnt; i++ {
				rb.MetricBlocks = append(rb.MetricBlocks, rtcp.CCFeedbackMetricBlock{
					Received: true, ECN: rtcp.ECN(r.Intn(4)), ArrivalTimeOffset: uint16(r.Intn(0x1FFE)), //nolint:gosec
				})
			}
			fb.ReportBlocks = append(fb.ReportBlocks, rb)
			raw = marshalCCFB(fb)
			if raw != nil {
				ops = append(ops, ropJ{K: "read", Now: now, Pkts: []opJ{{K: "ccfb", Raw: hex.EncodeToString(raw)}}})
			}
		}
		now += int64(1 + r.Intn(20000000))
	}
	// first use of the number, some packets in between, second use
	send(q, seq)
	for i := 1; i <= mid; i++ {
		send(q+uint16(i), seq+uint16(i)) //nolint:gosec
	}
	if tw {
		send(q, seq+uint16(mid)+1) //nolint:gosec
	} else {
		send(q, seq) // retransmission: same SSRC and RTP sequence number
	}
	// the packets in between are acknowledged: the report covers (and removes) the first use
	ack(func() uint16 {
		if tw {
			return q + 1
		}

		return seq + 1
	}(), mid)
	// now the number itself is acknowledged: this is about the second use
	if tw {
		ack(q, 1)
	} else {
		ack(seq, 1)
	}
	ops = append(ops, ropJ{K: "read", Now: now, Pkts: []opJ{{K: "other"}}})
	tags := []string{"number-reused-after-first-use-reported"}
	if tw {
		tags = append(tags, "twcc-number-reused")
	} else {
		tags = append(tags, "rtp-number-reused")
	}

	return ops, tags
}

// interleave merges the operation lists of several instances: blocks of 1..4 operations of a
// randomly chosen instance at a time, the order within an instance preserved.
func interleave(r *rand.Rand, n int, size func(i int) int, take func(i, k int)) {
	pos := make([]int, n)
	for {
		var live []int
		for i := 0; i < n; i++ {
			if pos[i] < size(i) {
				live = append(live, i)
			}
		}
		if len(live) == 0 {
			return
		}
		i := live[r.Intn(len(live))]
		for b := 1 + r.Intn(4); b > 0 && pos[i] < size(i); b-- {
			take(i, pos[i])
			pos[i]++
		}
	}
}

// genFBMulti: two or three rtpfb interceptors - built by ONE factory (one registry serving
// several peer connections) or by separate ones - each with a genFB history of its own,
// interleaved.  Mostly the interceptors use the same SSRCs, RTP sequence numbers and TWCC
// numbers (every sender numbers its packets from its own counters), so that anything one
// interceptor remembers about its packets would answer feedback read on another.
func genFBMulti(r *rand.Rand) ([]int, []mropJ, []string) {
	n := 2
	if r.Intn(3) == 0 {
		n = 3
	}
	fac := make([]int, n)
	tags := map[string]bool{fmt.Sprintf("interceptors-%d", n): true}
	if r.Intn(3) == 0 {
		for i := range fac {
			fac[i] = r.Intn(n)
		}
	}
	same := true
	for _, f := range fac {
		same = same && f == fac[0]
	}
	if same {
		tags["one-factory"] = true
	} else {
		tags["several-factories"] = true
	}
	var tf, sf *uint16
	if r.Intn(4) != 0 {
		t, s := uint16(r.Intn(65536)), uint16(r.Intn(65536)) //nolint:gosec
		if r.Intn(3) == 0 {
			t = uint16(65536 - r.Intn(40)) //nolint:gosec
		}
		tf, sf = &t, &s
		tags["same-numbers-on-every-interceptor"] = true
	}
	lists := make([][]ropJ, n)
	for i := range lists {
		var t []string
		lists[i], t = genFBOpt(r, tf, sf)
		for _, x := range t {
			tags[x] = true
		}
	}
	var ops []mropJ
	interleave(r, n, func(i int) int { return len(lists[i]) }, func(i, k int) {
		ops = append(ops, mropJ{I: i, ropJ: lists[i][k]})
	})
	out := []string{}
	for t := range tags {
		out = append(out, t)
	}

	return fac, ops, out
}

// genFBTwin: two interceptors of one factory (or of two) send packets with the SAME SSRC, RTP and
// TWCC numbers but different sizes and departure times; feedback about those numbers is read on
// one of them, then a read without feedback on the other (must report nothing), then the
// other's own feedback.
func genFBTwin(r *rand.Rand) ([]int, []mropJ, []string) {
	tw := r.Intn(2) == 0
	fac := []int{0, 0}
	tags := []string{"twin", "one-factory"}
	if r.Intn(4) == 0 {
		fac = []int{0, 1}
		tags = []string{"twin", "several-factories"}
	}
	q := uint16(r.Intn(65536)) //nolint:gosec
	seq := uint16(r.Intn(65536)) //nolint:gosec
	if r.Intn(3) == 0 {
		q, seq = uint16(65536-r.Intn(4)), uint16(65536-r.Intn(4)) //nolint:gosec
	}
	now := int64(1700000000)*1000000000 + int64(r.Intn(1000000))*1000
	var ops []mropJ
	n := [2]int{1 + r.Intn(8), 1 + r.Intn(8)}
	first := r.Intn(2)
	sendRun := func(i int) {
		o := ropJ{K: "run", TW: tw, SSRC: 10, Seq: seq, Size: 50 + r.Intn(1000), Now: now, DNow: int64(1 + r.Intn(2000000)), N: n[i]}
		if tw {
			o.Ext, o.Twcc = 1, q
		}
		ops = append(ops, mropJ{I: i, ropJ: o})
		now += int64(n[i])*o.DNow + int64(r.Intn(1000000))
	}
	ack := func(i, cnt int) {
		var pkt opJ
		if tw {
			fb := &rtcp.TransportLayerCC{
				SenderSSRC: 1, MediaSSRC: 10, BaseSequenceNumber: q, PacketStatusCount: uint16(cnt), //nolint:gosec
				ReferenceTime: uint32(r.Intn(1 << 20)), FbPktCount: uint8(r.Intn(256)), //nolint:gosec
				PacketChunks: []rtcp.PacketStatusChunk{&rtcp.RunLengthChunk{
					Type: rtcp.TypeTCCRunLengthChunk, PacketStatusSymbol: rtcp.TypeTCCPacketReceivedSmallDelta, RunLength: uint16(cnt), //nolint:gosec
				}},
			}
			for k := 0; k < cnt; k++ {
				fb.RecvDeltas = append(fb.RecvDeltas, mkDelta(r, rtcp.TypeTCCPacketReceivedSmallDelta))
			}
			raw := marshalTWCC(fb)
			if raw == nil {
				return
			}
			pkt = opJ{K: "twcc", Raw: hex.EncodeToString(raw)}
		} else {
			fb := &rtcp.CCFeedbackReport{SenderSSRC: 3,
				ReportTimestamp: verifhooks.ToNTP32(time.Unix(0, now-int64(r.Intn(100000000))))}
			rb := rtcp.CCFeedbackReportBlock{MediaSSRC: 10, BeginSequence: seq}
			for k := 0; k < cnt; k++ {
				rb.MetricBlocks = append(rb.MetricBlocks, rtcp.CCFeedbackMetricBlock{
					Received: true, ECN: rtcp.ECN(r.Intn(4)), ArrivalTimeOffset: uint16(r.Intn(0x1FFE)), //nolint:gosec
				})
			}
			fb.ReportBlocks = append(fb.ReportBlocks, rb)
			raw := marshalCCFB(fb)
			if raw == nil {
				return
			}
			pkt = opJ{K: "ccfb", Raw: hex.EncodeToString(raw)}
		}
		ops = append(ops, mropJ{I: i, ropJ: ropJ{K: "read", Now: now, Pkts: []opJ{pkt}}})
		now += int64(1 + r.Intn(20000000))
	}
	other := func(i int) {
		ops = append(ops, mropJ{I: i, ropJ: ropJ{K: "read", Now: now, Pkts: []opJ{{K: "other"}}}})
		now += int64(1 + r.Intn(20000000))
	}
	sendRun(first)
	sendRun(1 - first)
	// feedback about the shared numbers, read on one interceptor; it covers as many numbers as
	// that interceptor sent, or as the other one sent
	rd := r.Intn(2)
	ack(rd, n[r.Intn(2)])
	other(1 - rd)
	ack(1-rd, n[1-rd])
	other(rd)
	if tw {
		tags = append(tags, "twin-twcc")
	} else {
		tags = append(tags, "twin-rtp")
	}

	return fac, ops, tags
}

// genCCMulti: two or three FeedbackAdapters with histories of their own (genTWCC / genCCFB /
// genCCRefresh), interleaved; mostly with the same sequence numbers (and SSRCs) on every adapter.
func genCCMulti(r *rand.Rand) (int, []mopJ, []string) {
	n := 2
	if r.Intn(3) == 0 {
		n = 3
	}
	tags := map[string]bool{fmt.Sprintf("adapters-%d", n): true}
	var ff *uint16
	if r.Intn(4) != 0 {
		f := uint16(r.Intn(65536)) //nolint:gosec
		if r.Intn(3) == 0 {
			f = uint16(65536 - r.Intn(40)) //nolint:gosec
		}
		ff = &f
		tags["same-numbers-on-every-adapter"] = true
	}
	kind := r.Intn(3) // 0: all TWCC-keyed, 1: all (SSRC, seq)-keyed, 2: mixed
	lists := make([][]opJ, n)
	for i := range lists {
		var t []string
		if kind == 0 || (kind == 2 && r.Intn(2) == 0) {
			lists[i], t = genTWCCOpt(r, ff)
			tags["twcc"] = true
		} else {
			lists[i], t = genCCFBOpt(r, ff)
			tags["ccfb"] = true
		}
		for _, x := range t {
			tags[x] = true
		}
	}
	var ops []mopJ
	interleave(r, n, func(i int) int { return len(lists[i]) }, func(i, k int) {
		ops = append(ops, mopJ{I: i, opJ: lists[i][k]})
	})
	out := []string{}
	for t := range tags {
		out = append(out, t)
	}

	return n, ops, out
}

// recorderCCFBAt: the real rfc8888.Recorder with arrivals shortly before now.
func recorderCCFBAt(r *rand.Rand, streams []stream, now int64) []byte {
	rec := rfc8888.NewRecorder()
	t := time.Unix(0, now-int64(200+r.Intn(400))*1000000)
	if r.Intn(10) == 0 {
		t = t.Add(-time.Duration(r.Intn(9000)) * time.Millisecond)
	}
	for _, s := range streams {
		for i := 0; i < s.n; i++ {
			if r.Intn(5) == 0 {
				continue
			}
			t = t.Add(time.Duration(r.Intn(3000)) * time.Microsecond)
			rec.AddPacket(t, s.ssrc, s.first+uint16(i), uint8(r.Intn(4))) //nolint:gosec
		}
	}
	rep := rec.BuildReport(t.Add(time.Duration(r.Intn(20000))*time.Microsecond), 1200+r.Intn(3000))
	if rep == nil {
		return nil
	}

	return marshalCCFB(rep)
}

// handCCFBAt: hand-built report blocks, at most one per SSRC, timestamp close to now.
func handCCFBAt(r *rand.Rand, streams []stream, now int64) []byte {
	fb := &rtcp.CCFeedbackReport{SenderSSRC: 3,
		ReportTimestamp: verifhooks.ToNTP32(time.Unix(0, now-int64(r.Intn(100000000))))}
	for _, s := range streams {
		if r.Intn(4) == 0 {
			continue
		}
		ssrc := s.ssrc
		if r.Intn(8) == 0 {
			used := map[uint32]bool{}
			for _, t := range streams {
				used[t.ssrc] = true
			}
			for _, b := range fb.ReportBlocks {
				used[b.MediaSSRC] = true
			}
			ssrc = aliasOf(r, ssrc, used)
		}
		rb := rtcp.CCFeedbackReportBlock{MediaSSRC: ssrc, BeginSequence: s.first - uint16(r.Intn(3))} //nolint:gosec
		for i := 0; i < s.n+r.Intn(4); i++ {
			mb := rtcp.CCFeedbackMetricBlock{}
			if r.Intn(4) != 0 {
				mb.Received = true
				mb.ECN = rtcp.ECN(r.Intn(4)) //nolint:gosec
				switch r.Intn(8) {
				case 0:
					mb.ArrivalTimeOffset = 0x1FFF
				case 1:
					mb.ArrivalTimeOffset = 0x1FFE
				case 2:
					mb.ArrivalTimeOffset = 0
				default:
					mb.ArrivalTimeOffset = uint16(r.Intn(0x2000)) //nolint:gosec
				}
			}
			rb.MetricBlocks = append(rb.MetricBlocks, mb)
		}
		fb.ReportBlocks = append(fb.ReportBlocks, rb)
	}
	if len(fb.ReportBlocks) == 0 {
		return nil
	}

	return marshalCCFB(fb)
}

func main() {
	o := cq.ParseFlags()
	r := o.Rand()
	// the same case type and checkers in several sets, so that the in-Coq evaluation runs in parallel shards
	const nCC = 6
	var sets []*cq.Set
	for i := 0; i < nCC; i++ {
		sets = append(sets, &cq.Set{
			Name: fmt.Sprintf("c09cc%d", i), Import: "IV.Check.C09Check", CaseType: "cc_case",
			Checks: []string{"cc_mismatches", "cc_spec_failures"},
		})
	}
	const nFB = 4
	var fbSets []*cq.Set
	for i := 0; i < nFB; i++ {
		fbSets = append(fbSets, &cq.Set{
			Name: fmt.Sprintf("c09fb%d", i), Import: "IV.Check.C09Check", CaseType: "fb_case",
			Checks: []string{"fb_mismatches", "fb_spec_failures"},
		})
	}
	sets = append(sets, fbSets...)
	// histories over several instances (Check/C09MultiCheck.v)
	const nMF = 2
	var mfSets []*cq.Set
	for i := 0; i < nMF; i++ {
		mfSets = append(mfSets, &cq.Set{
			Name: fmt.Sprintf("c09mf%d", i), Import: "IV.Check.C09MultiCheck", CaseType: "mfb_case",
			Checks: []string{"mfb_mismatches", "mfb_spec_failures"},
		})
	}
	sets = append(sets, mfSets...)
	const nMC = 2
	var mcSets []*cq.Set
	for i := 0; i < nMC; i++ {
		mcSets = append(mcSets, &cq.Set{
			Name: fmt.Sprintf("c09mc%d", i), Import: "IV.Check.C09MultiCheck", CaseType: "mcc_case",
			Checks: []string{"mcc_mismatches", "mcc_spec_failures"},
		})
	}
	sets = append(sets, mcSets...)
	// one interceptor, streams with header-extension ids of their own (Check/C09ExtCheck.v)
	const nWS = 2
	var wsSets []*cq.Set
	for i := 0; i < nWS; i++ {
		wsSets = append(wsSets, &cq.Set{
			Name: fmt.Sprintf("c09ws%d", i), Import: "IV.Check.C09ExtCheck", CaseType: "ws_case",
			Checks: []string{"ws_mismatches", "ws_spec_failures"},
		})
	}
	sets = append(sets, wsSets...)
	var fails []cq.ImplFailure
	wsCount := 0
	addWS := func(ops []wopJ, buckets ...string) {
		c, p := runWS(ops)
		if p != "" {
			fails = append(fails, cq.ImplFailure{Kind: "panic", Detail: p, Case: wsCase{Ops: ops}})

			return
		}
		set := wsSets[wsCount%nWS]
		wsCount++
		set.Cases = append(set.Cases, c.toCase(buckets...))
	}
	mfCount := 0
	addMF := func(fac []int, ops []mropJ, buckets ...string) {
		c, p := runFBMulti(fac, ops)
		if p != "" {
			fails = append(fails, cq.ImplFailure{Kind: "panic", Detail: p, Case: mfbCase{Fac: fac, Ops: ops}})

			return
		}
		set := mfSets[mfCount%nMF]
		mfCount++
		set.Cases = append(set.Cases, c.toCase(buckets...))
	}
	mcCount := 0
	addMC := func(nad int, ops []mopJ, buckets ...string) {
		c, p := runCCMulti(nad, ops)
		if p != "" {
			fails = append(fails, cq.ImplFailure{Kind: "panic", Detail: p, Case: mccCase{Adapters: nad, Ops: ops}})

			return
		}
		set := mcSets[mcCount%nMC]
		mcCount++
		set.Cases = append(set.Cases, c.toCase(buckets...))
	}
	fbCount := 0
	addFB := func(ops []ropJ, buckets ...string) {
		c, p := runFB(ops)
		if p != "" {
			fails = append(fails, cq.ImplFailure{Kind: "panic", Detail: p, Case: fbCase{Ops: ops}})

			return
		}
		set := fbSets[fbCount%nFB]
		fbCount++
		set.Cases = append(set.Cases, c.toCase(buckets...))
	}
	ccCount := 0
	addCC := func(ops []opJ, buckets ...string) {
		c, p := runCC(ops)
		if p != "" {
			fails = append(fails, cq.ImplFailure{Kind: "panic", Detail: p, Case: ccCase{Ops: ops}})

			return
		}
		set := sets[ccCount%nCC]
		ccCount++
		set.Cases = append(set.Cases, c.toCase(buckets...))
	}
	if o.Replay != "" {
		var probe map[string]interface{}
		set := cq.LoadReplay(o.Replay, &probe)
		var fbProbe fbCase
		if set == "impl-panic" && probe["fac"] != nil {
			set = "c09mf"
		} else if set == "impl-panic" && probe["adapters"] != nil {
			set = "c09mc"
		}
		if set == "impl-panic" {
			cq.LoadReplay(o.Replay, &fbProbe)
			for _, op := range fbProbe.Ops {
				if op.K == "bind" {
					set = "c09ws"
				}
			}
		}
		if set == "impl-panic" {
			for _, op := range fbProbe.Ops {
				if op.K == "read" || op.K == "send" {
					set = "c09fb"
				}
			}
		}
		switch {
		case strings.HasPrefix(set, "c09cc"), set == "impl-panic":
			var c ccCase
			cq.LoadReplay(o.Replay, &c)
			addCC(c.Ops, "replay")
		case strings.HasPrefix(set, "c09fb"):
			var c fbCase
			cq.LoadReplay(o.Replay, &c)
			addFB(c.Ops, "replay")
		case strings.HasPrefix(set, "c09ws"):
			var c wsCase
			cq.LoadReplay(o.Replay, &c)
			addWS(c.Ops, "replay")
		case strings.HasPrefix(set, "c09mf"):
			var c mfbCase
			cq.LoadReplay(o.Replay, &c)
			addMF(c.Fac, c.Ops, "replay")
		case strings.HasPrefix(set, "c09mc"):
			var c mccCase
			cq.LoadReplay(o.Replay, &c)
			addMC(c.Adapters, c.Ops, "replay")
		}
		cq.Write(o, "replay", sets, nil, fails)

		return
	}
	for _, f := range o.CorpusFiles() {
		var probe map[string]interface{}
		switch set := cq.LoadReplay(f, &probe); {
		case strings.HasPrefix(set, "c09cc"):
			var c ccCase
			cq.LoadReplay(f, &c)
			addCC(c.Ops, "corpus")
		case strings.HasPrefix(set, "c09fb"):
			var c fbCase
			cq.LoadReplay(f, &c)
			addFB(c.Ops, "corpus")
		case strings.HasPrefix(set, "c09ws"):
			var c wsCase
			cq.LoadReplay(f, &c)
			addWS(c.Ops, "corpus")
		case strings.HasPrefix(set, "c09mf"):
			var c mfbCase
			cq.LoadReplay(f, &c)
			addMF(c.Fac, c.Ops, "corpus")
		case strings.HasPrefix(set, "c09mc"):
			var c mccCase
			cq.LoadReplay(f, &c)
			addMC(c.Adapters, c.Ops, "corpus")
		}
	}
	ncc := o.Scale(420, 30000)
	for i := 0; i < ncc; i++ {
		if i%3 == 2 {
			ops, tags := genCCFB(r)
			addCC(ops, append(tags, "ccfb")...)
		} else {
			ops, tags := genTWCC(r)
			addCC(ops, append(tags, "twcc")...)
		}
	}
	for i := 0; i < o.Scale(12, 400); i++ {
		ops, tags := genCCRefresh(r)
		addCC(ops, tags...)
	}
	nfb := o.Scale(280, 20000)
	for i := 0; i < nfb; i++ {
		ops, tags := genFB(r)
		addFB(ops, tags...)
	}
	for i := 0; i < o.Scale(12, 400); i++ {
		ops, tags := genFBReuse(r)
		addFB(ops, tags...)
	}
	// several instances in one process, operations interleaved (own PRNG stream: the cases above
	// do not depend on how many of these are drawn)
	rm := rand.New(rand.NewSource(o.Seed ^ 0x4d494e5354)) //nolint:gosec
	for i := 0; i < o.Scale(40, 3000); i++ {
		fac, ops, tags := genFBMulti(rm)
		addMF(fac, ops, tags...)
	}
	for i := 0; i < o.Scale(16, 600); i++ {
		fac, ops, tags := genFBTwin(rm)
		addMF(fac, ops, tags...)
	}
	for i := 0; i < o.Scale(36, 3000); i++ {
		nad, ops, tags := genCCMulti(rm)
		addMC(nad, ops, tags...)
	}
	// round 5: SSRC families with equal sequence numbers in flight; streams with header-extension
	// ids of their own (own PRNG stream again)
	r5 := rand.New(rand.NewSource(o.Seed ^ 0x5235)) //nolint:gosec
	for i := 0; i < o.Scale(24, 1500); i++ {
		ops, tags := genFBAlias(r5)
		addFB(ops, tags...)
	}
	for i := 0; i < o.Scale(16, 1000); i++ {
		ops, tags := genCCAlias(r5)
		addCC(ops, tags...)
	}
	for i := 0; i < o.Scale(60, 4000); i++ {
		ops, tags := genWS(r5)
		addWS(ops, tags...)
	}
	cq.Write(o, "cc: send histories (TWCC-keyed and (SSRC, seq)-keyed, wrap, holes, more than 250 in flight) with 1..6 "+
		"parser-accepted feedback packets (real recorders and hand-structured); non-trivial = at least one "+
		"acknowledgement of a sent packet was returned; fb: rtpfb interceptor histories (TWCC- and (SSRC, seq)-tracked streams, "+
		"retransmissions, reads with TWCC/CCFB/other RTCP and compounds); non-trivial = at least one PacketReport; "+
		"mf / mc: the same histories on two or three interceptors (one factory or several) resp. FeedbackAdapters, "+
		"interleaved, mostly with the same SSRCs and sequence numbers on every instance; ws: one rtpfb interceptor, two to four "+
		"local streams that negotiated transport-wide-cc under ids of their own, packets with further header-extension elements "+
		"(also under other streams' ids); SSRCs of fb/cc/ws cases: small numbers or families differing in few bits with equal "+
		"sequence numbers in flight", sets, nil, fails)
}
