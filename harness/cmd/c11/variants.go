// Round-4 strengthening: the CONFIGURATION dimension of "for every interceptor".
//
// The scripts of main.go drive every interceptor as its constructor builds it by default and with streams that
// advertise every capability. Code that only runs in another configuration (an alternative component selected by
// a constructor option, the pass-through path for a stream the interceptor does not work on) was never executed:
// a change confined to pkg/gcc/noop_pacer.go - the pacer of gcc.SendSideBWEPacer(gcc.NewNoOpPacer()) - was
// invisible. Here every interceptor that has such a configuration is built in it (variant 1: options, variant 2:
// bare streams) and driven by the same kind of sequential scripts (set c11v, Check/C11dCheck.v), by the
// concurrent-Close runs and by the gated runs.
package main

import (
	"io"
	"time"

	"github.com/pion/interceptor"
	"github.com/pion/interceptor/pkg/cc"
	"github.com/pion/interceptor/pkg/flexfec"
	"github.com/pion/interceptor/pkg/gcc"
	"github.com/pion/interceptor/pkg/nack"
	"github.com/pion/interceptor/pkg/packetdump"
	"github.com/pion/interceptor/pkg/report"
	"github.com/pion/rtcp"
	"github.com/pion/rtp"

	"verifharness/internal/cq"
)

const (
	variantOptions = 1 // built with constructor options that select other code than the defaults
	variantBare    = 2 // default construction, streams without feedback / header extensions / FEC
)

// harnessTicker is a report.Ticker supplied through report.SenderTicker: the loop must stop it when it exits.
type harnessTicker struct{ t *time.Ticker }

func (h harnessTicker) Ch() <-chan time.Time { return h.t.C }
func (h harnessTicker) Stop()                { h.t.Stop() }

func allStreams(*interceptor.StreamInfo) bool { return true }

// variantOf copies a default kind: same interceptor id (the feature record family, the failure codes), own
// constructor / stream description.
func variantOf(base int, vid int, suffix string, mk func() (interceptor.Interceptor, error)) *kind {
	b := *kinds[base]
	b.vid = vid
	b.name = kinds[base].name + "/" + suffix
	if mk != nil {
		b.mk = mk
	}
	b.bare = vid == variantBare

	return &b
}

// buildVariants is called once, after the default kinds exist.
func buildVariants() []*kind {
	vs := []*kind{
		// gcc with the pacer that forwards at once: no pacing goroutine, its own mutex and per-SSRC map
		variantOf(10, variantOptions, "noop-pacer", func() (interceptor.Interceptor, error) {
			return fromFactory(cc.NewInterceptor(func() (cc.BandwidthEstimator, error) {
				return gcc.NewSendSideBWE(gcc.SendSideBWEPacer(gcc.NewNoOpPacer()), gcc.SendSideBWEInitialBitrate(200_000),
					gcc.SendSideBWEMinBitrate(50_000), gcc.SendSideBWEMaxBitrate(2_000_000))
			}))
		}),
		// nack generator: caller-supplied stream filter, small log, skip / cap options
		variantOf(0, variantOptions, "filter+sizes", func() (interceptor.Interceptor, error) {
			return fromFactory(nack.NewGeneratorInterceptor(nack.GeneratorInterval(tick), nack.WithGeneratorLoggerFactory(quietFactory{}),
				nack.GeneratorStreamsFilter(allStreams), nack.GeneratorSize(64), nack.GeneratorSkipLastN(1),
				nack.GeneratorMaxNacksPerPacket(1)))
		}),
		// nack responder: no packet copies, small buffer, caller-supplied stream filter
		variantOf(1, variantOptions, "nocopy+filter", func() (interceptor.Interceptor, error) {
			return fromFactory(nack.NewResponderInterceptor(nack.WithResponderLoggerFactory(quietFactory{}),
				nack.DisableCopy(), nack.ResponderSize(64), nack.ResponderStreamsFilter(allStreams)))
		}),
		// report sender: caller-supplied ticker factory, reports based on the latest packet
		variantOf(3, variantOptions, "ticker+latest", func() (interceptor.Interceptor, error) {
			return fromFactory(report.NewSenderInterceptor(report.SenderInterval(tick), report.WithSenderLoggerFactory(quietFactory{}),
				report.SenderTicker(func(d time.Duration) report.Ticker { return harnessTicker{time.NewTicker(d)} }),
				report.SenderUseLatestPacket()))
		}),
		// packetdump: the SENDER interceptor (RTP write path), with filters that drop part of the packets
		variantOf(8, variantOptions, "sender+filters", func() (interceptor.Interceptor, error) {
			return fromFactory(packetdump.NewSenderInterceptor(packetdump.RTPWriter(io.Discard), packetdump.RTCPWriter(io.Discard),
				packetdump.WithLoggerFactory(quietFactory{}),
				packetdump.RTPFilter(func(p *rtp.Packet) bool { return p.SequenceNumber%4 != 0 }),
				packetdump.RTCPPerPacketFilter(func(rtcp.Packet) bool { return true })))
		}),
		// flexfec: one FEC packet per two media packets (a batch completes inside short scripts)
		variantOf(12, variantOptions, "small-batches", func() (interceptor.Interceptor, error) {
			return fromFactory(flexfec.NewFecInterceptor(flexfec.NumMediaPackets(2), flexfec.NumFECPackets(1)))
		}),
	}
	vs[4].remote = false // the Sender interceptor works on local streams
	// bare streams: the interceptors whose Bind* passes such a stream through instead of registering it
	for _, base := range []int{0, 1, 4, 6, 12} {
		vs = append(vs, variantOf(base, variantBare, "bare-streams", nil))
	}

	return vs
}

var variants []*kind

// kindFor: the kind a script / replay names by (interceptor id, variant id)
func kindFor(iid, vid int) *kind {
	if vid >= optionBase {
		for _, v := range optionKinds {
			if v.id == iid && v.vid == vid {
				return v
			}
		}
	}
	if vid != 0 {
		for _, v := range variants {
			if v.id == iid && v.vid == vid {
				return v
			}
		}
	}

	return kinds[iid]
}

// bareStreamInfo: a stream that advertises nothing the interceptors work on
func bareStreamInfo(ssrc uint32) *interceptor.StreamInfo {
	return &interceptor.StreamInfo{SSRC: ssrc, ClockRate: 90000, PayloadType: 96, MimeType: "video/VP8"}
}

// staleHandleScripts: a stream is unbound, then a packet goes through the reader / writer its Bind returned (the
// caller's handle is stale) - after that EVERY call must still return: one or two more calls over the alphabet.
// Every per-SSRC map is looked up under a lock on this path, and the unknown-stream branch is an early return.
func staleHandleScripts(depth int) [][]op {
	prefix := []op{{K: "bindw"}, {K: "bindr"}, {K: "bind", X: 1}, {K: "bind", X: 2}, {K: "traffic", X: 1},
		{K: "unbind", X: 1}, {K: "traffic", X: 1}}
	out := [][]op{append([]op{}, prefix...)}
	for _, s := range allSeqs(alphabet(3), 1) {
		out = append(out, append(append([]op{}, prefix...), s...))
	}
	if depth > 1 {
		for _, s := range allSeqs(alphabet(2), 2)[len(alphabet(2)):] {
			out = append(out, append(append([]op{}, prefix...), s...))
		}
	}
	// without the RTCP plumbing, and with the stale packet as the very first one of the stream
	out = append(out,
		[]op{{K: "bind", X: 1}, {K: "bind", X: 2}, {K: "unbind", X: 1}, {K: "traffic", X: 1}, {K: "traffic", X: 2},
			{K: "bind", X: 3}, {K: "unbind", X: 2}},
		[]op{{K: "bind", X: 1}, {K: "unbind", X: 1}, {K: "traffic", X: 1}, {K: "bind", X: 1}, {K: "traffic", X: 1},
			{K: "unbind", X: 1}})

	return out
}

func (sc *script) toVariantCase(buckets ...string) cq.Case {
	c := sc.toCase(buckets...)
	ops := make([]string, len(sc.Ops))
	for i, o := range sc.Ops {
		ops[i] = o.coq()
	}
	obs := make([]string, len(sc.Obs))
	for i, o := range sc.Obs {
		obs[i] = cq.T(cq.Z(int64(o[0])), cq.Z(int64(o[1])))
	}
	c.Coq = cq.T(cq.Z(int64(sc.Iid)), cq.Z(int64(sc.Vid)), cq.Z(int64(sc.Mask)), cq.L(ops), cq.L(obs), cq.Z(int64(sc.Leak)))
	tag := "variant-options"
	if sc.Vid == variantBare {
		tag = "variant-bare-streams"
	}
	c.Buckets = append(c.Buckets, tag)

	return c
}
